#!/bin/sh
# Builds the framework from files on disk only (offline).
set -e
cd "$(dirname "$0")"
export GOFLAGS=-mod=mod GOPROXY=off GOSUMDB=off GOTOOLCHAIN=local CGO_ENABLED=0
mkdir -p bin evidence replay
cp /repo/go.sum harness/go.sum 2>/dev/null || true
(cd harness && go build -o ../bin/extract ./cmd/extract && go build -tags verif -o ../bin/corr ./cmd/corr)
./bin/extract /repo lean/GFS/Generated || true
(cd lean && lake build GFS gfsdriver)
echo setup done
