// Package drv talks to the compiled Lean driver (gfsdriver) over its line protocol.
package drv

import (
	"bufio"
	"encoding/hex"
	"fmt"
	"io"
	"os/exec"
	"strings"
)

type Driver struct {
	cmd *exec.Cmd
	in  io.WriteCloser
	out *bufio.Reader
	N   int
}

func Start(path string) (*Driver, error) {
	cmd := exec.Command(path)
	in, err := cmd.StdinPipe()
	if err != nil {
		return nil, err
	}
	out, err := cmd.StdoutPipe()
	if err != nil {
		return nil, err
	}
	if err := cmd.Start(); err != nil {
		return nil, err
	}
	return &Driver{cmd: cmd, in: in, out: bufio.NewReaderSize(out, 1<<20)}, nil
}

// Ask sends one request line and returns (model observation, spec observation).
func (d *Driver) Ask(line string) (model, spec string, err error) {
	if strings.ContainsAny(line, "\n\r") {
		return "", "", fmt.Errorf("drv: newline in request")
	}
	if _, err = io.WriteString(d.in, line+"\n"); err != nil {
		return
	}
	resp, err := d.out.ReadString('\n')
	if err != nil {
		return "", "", fmt.Errorf("drv: driver died on %q: %v", line, err)
	}
	d.N++
	resp = strings.TrimRight(resp, "\n")
	parts := strings.SplitN(resp, "\t", 2)
	if len(parts) == 2 {
		return parts[0], parts[1], nil
	}
	return parts[0], "-", nil
}

func (d *Driver) Close() {
	d.in.Close()
	d.cmd.Wait()
}

// Hex encodes a byte string for the line protocol ("-" = empty).
func Hex(b []byte) string {
	if len(b) == 0 {
		return "-"
	}
	return hex.EncodeToString(b)
}

func HexS(s string) string { return Hex([]byte(s)) }
