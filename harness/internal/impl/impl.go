// Package impl builds in-process instances of the real gofakes3 server over each
// bundled backend and issues requests against them.
package impl

import (
	"bytes"
	"encoding/xml"
	"fmt"
	"io"
	"net/http"
	"net/http/httptest"
	"net/url"
	"os"
	"path/filepath"
	"runtime/debug"
	"sort"
	"strings"
	"sync/atomic"
	"time"

	"github.com/johannesboyne/gofakes3"
	"github.com/johannesboyne/gofakes3/backend/s3afero"
	"github.com/johannesboyne/gofakes3/backend/s3bolt"
	"github.com/johannesboyne/gofakes3/backend/s3mem"
	"github.com/spf13/afero"
	bolt "go.etcd.io/bbolt"
)

// Kinds of backend instance.
var AllKinds = []string{"mem", "bolt", "fsM-mem", "fsM-dir", "fsS-mem", "fsS-dir"}

const SingleBucketName = "bkt"

var FixedTime = time.Date(2020, 1, 2, 3, 4, 5, 0, time.UTC)

type Instance struct {
	Kind    string
	Backend gofakes3.Backend
	G       *gofakes3.GoFakeS3
	H       http.Handler
	Dir     string
	closers []func()
	opts    []gofakes3.Option
	memFs   afero.Fs
	memMeta afero.Fs
	boltDB  *bolt.DB
	hung    bool
}

func (i *Instance) IsFs() bool     { return strings.HasPrefix(i.Kind, "fs") }
func (i *Instance) IsSingle() bool { return strings.HasPrefix(i.Kind, "fsS") }

func (i *Instance) Close() {
	for k := len(i.closers) - 1; k >= 0; k-- {
		i.closers[k]()
	}
	if i.Dir != "" {
		os.RemoveAll(i.Dir)
	}
}

// New creates an instance of the given kind; tmpRoot is a scratch directory
// (bolt files and real-directory backends live below it).
func New(kind, tmpRoot string, opts ...gofakes3.Option) (*Instance, error) {
	inst := &Instance{Kind: kind, opts: opts}
	dir, err := os.MkdirTemp(tmpRoot, "inst-"+kind+"-")
	if err != nil {
		return nil, err
	}
	inst.Dir = dir
	if err := inst.open(); err != nil {
		inst.Close()
		return nil, err
	}
	return inst, nil
}

// BackendTimeSource, when set, is handed to the backends that take a time source (mem, bolt)
// instead of the fixed one; the front end keeps the fixed time source.
var BackendTimeSource gofakes3.TimeSource

// FrontTimeSource, when set, is handed to gofakes3.New (handlers and the multipart uploader)
// instead of the fixed one.
var FrontTimeSource gofakes3.TimeSource

func (inst *Instance) open() error {
	ts := gofakes3.FixedTimeSource(FixedTime)
	bts := gofakes3.TimeSource(ts)
	if BackendTimeSource != nil {
		bts = BackendTimeSource
	}
	switch inst.Kind {
	case "mem":
		inst.Backend = s3mem.New(s3mem.WithTimeSource(bts), s3mem.WithVersionSeed(1))
	case "bolt":
		db, err := bolt.Open(filepath.Join(inst.Dir, "db.bolt"), 0600, &bolt.Options{NoSync: true, NoFreelistSync: true})
		if err != nil {
			return err
		}
		db.NoSync = true
		inst.boltDB = db
		inst.Backend = s3bolt.New(db, s3bolt.WithTimeSource(bts))
		inst.closers = append(inst.closers, func() { db.Close() })
	case "fsM-mem":
		if inst.memFs == nil {
			inst.memFs = afero.NewMemMapFs()
		}
		b, err := s3afero.MultiBucket(inst.memFs)
		if err != nil {
			return err
		}
		inst.Backend = b
	case "fsM-dir":
		fs, err := s3afero.FsPath(filepath.Join(inst.Dir, "root"), s3afero.FsPathCreateAll)
		if err != nil {
			return err
		}
		b, err := s3afero.MultiBucket(fs)
		if err != nil {
			return err
		}
		inst.Backend = b
	case "fsS-mem":
		if inst.memFs == nil {
			inst.memFs = afero.NewMemMapFs()
			inst.memMeta = afero.NewMemMapFs()
		}
		b, err := s3afero.SingleBucket(SingleBucketName, inst.memFs, inst.memMeta)
		if err != nil {
			return err
		}
		inst.Backend = b
	case "fsS-dir":
		fs, err := s3afero.FsPath(filepath.Join(inst.Dir, "bucket"), s3afero.FsPathCreateAll)
		if err != nil {
			return err
		}
		mfs, err := s3afero.FsPath(filepath.Join(inst.Dir, "meta"), s3afero.FsPathCreateAll)
		if err != nil {
			return err
		}
		b, err := s3afero.SingleBucket(SingleBucketName, fs, mfs)
		if err != nil {
			return err
		}
		inst.Backend = b
	default:
		return fmt.Errorf("unknown backend kind %q", inst.Kind)
	}
	fts := gofakes3.TimeSource(ts)
	if FrontTimeSource != nil {
		fts = FrontTimeSource
	}
	all := append([]gofakes3.Option{gofakes3.WithTimeSource(fts), gofakes3.WithTimeSkewLimit(0)}, inst.opts...)
	inst.G = gofakes3.New(inst.Backend, all...)
	inst.H = inst.G.Server()
	return nil
}

// WriteObjectFile places a file directly into the storage of an fs instance, as a user of
// the fs backends may do (the s3afero docs: "objects are files"); no metadata is written.
func (inst *Instance) WriteObjectFile(bucket, key string, data []byte) error {
	switch inst.Kind {
	case "fsM-mem":
		return afero.WriteFile(inst.memFs, "buckets/"+bucket+"/"+key, data, 0644)
	case "fsM-dir":
		return os.WriteFile(filepath.Join(inst.Dir, "root", "buckets", bucket, filepath.FromSlash(key)), data, 0644)
	case "fsS-mem":
		return afero.WriteFile(inst.memFs, key, data, 0644)
	case "fsS-dir":
		return os.WriteFile(filepath.Join(inst.Dir, "bucket", filepath.FromSlash(key)), data, 0644)
	}
	return fmt.Errorf("not an fs instance")
}

// Reopen closes the backend and builds a new server on the same storage
// (volatile state — multipart uploads — is lost, as after a restart).
func (inst *Instance) Reopen() error {
	for k := len(inst.closers) - 1; k >= 0; k-- {
		inst.closers[k]()
	}
	inst.closers = nil
	return inst.open()
}

// Resp is the canonical observation of one HTTP exchange.
type Resp struct {
	Status int
	Header http.Header
	Body   []byte
	Panic  string // non-empty: the handler panicked with this value
	Hang   bool
}

type Req struct {
	Method string
	Path   string // raw URL path (already escaped as it should go on the wire)
	Query  string // raw query
	Host   string
	Header map[string]string
	MultiH map[string][]string
	Body   io.Reader
	// ContentLength: -2 = derive from Body when it is a *bytes.Reader, otherwise as given
	ContentLength int64
	NoCL          bool // do not set a Content-Length header at all
}

// Do runs the request through the real handler, in-process; a panic is caught
// and reported, a handler that does not return within the watchdog is a hang.
func (inst *Instance) Do(rq Req) Resp {
	u := rq.Path
	if rq.Query != "" {
		u += "?" + rq.Query
	}
	host := rq.Host
	if host == "" {
		host = "s3.test"
	}
	var body io.Reader = rq.Body
	hr, err := http.NewRequest(rq.Method, "http://"+host+u, body)
	if err != nil {
		// fall back to building the URL by hand for hostile paths
		hr, _ = http.NewRequest(rq.Method, "http://"+host+"/", body)
		hr.URL = &url.URL{Scheme: "http", Host: host, Path: rq.Path, RawQuery: rq.Query}
	}
	hr.Host = host
	hr.RequestURI = u
	if br, ok := rq.Body.(*bytes.Reader); ok && !rq.NoCL {
		hr.ContentLength = int64(br.Len())
		hr.Header.Set("Content-Length", fmt.Sprintf("%d", br.Len()))
	}
	if rq.Body == nil {
		hr.Body = http.NoBody
	}
	for k, v := range rq.Header {
		if k == "Content-Length" {
			var n int64
			if _, err := fmt.Sscanf(v, "%d", &n); err == nil {
				hr.ContentLength = n
			}
		}
		hr.Header[http.CanonicalHeaderKey(k)] = []string{v}
	}
	for k, v := range rq.MultiH {
		hr.Header[http.CanonicalHeaderKey(k)] = v
	}
	return inst.Serve(hr)
}

// hangs counts requests that did not return; a hung handler usually holds a lock that every
// later request on the instance needs, so an instance that hung once answers "hang" at once
// afterwards, and after a few hangs in the process so does every instance (the run reports
// the first ones instead of waiting out the watchdog thousands of times).
var hangs int32

func (inst *Instance) Serve(hr *http.Request) (out Resp) {
	if inst.hung || atomic.LoadInt32(&hangs) >= 3 {
		return Resp{Hang: true}
	}
	rec := httptest.NewRecorder()
	done := make(chan Resp, 1)
	go func() {
		var r Resp
		defer func() {
			if p := recover(); p != nil {
				r.Panic = fmt.Sprintf("%v\n%s", p, debug.Stack())
			}
			done <- r
		}()
		inst.H.ServeHTTP(rec, hr)
		res := rec.Result()
		r.Status = res.StatusCode
		r.Header = res.Header
		r.Body, _ = io.ReadAll(res.Body)
	}()
	select {
	case r := <-done:
		return r
	case <-time.After(20 * time.Second):
		inst.hung = true
		atomic.AddInt32(&hangs, 1)
		return Resp{Hang: true}
	}
}

type errDoc struct {
	XMLName xml.Name `xml:"Error"`
	Code    string
}

// ErrCode extracts the S3 error code of an error response ("" if the body is
// not an S3 error document).
func (r Resp) ErrCode() string {
	var d errDoc
	if err := xml.Unmarshal(r.Body, &d); err != nil {
		return ""
	}
	return d.Code
}

// EscapePath escapes a bucket/key path for use on the wire, keeping '/'.
func EscapePath(p string) string {
	var b strings.Builder
	for i := 0; i < len(p); i++ {
		c := p[i]
		if c == '/' || c == '-' || c == '_' || c == '.' || c == '~' ||
			(c >= '0' && c <= '9') || (c >= 'a' && c <= 'z') || (c >= 'A' && c <= 'Z') {
			b.WriteByte(c)
		} else {
			fmt.Fprintf(&b, "%%%02X", c)
		}
	}
	return b.String()
}

// EnsureBucket creates the bucket unless the instance is single-bucket.
func (inst *Instance) EnsureBucket(name string) error {
	if inst.IsSingle() {
		return nil
	}
	ok, err := inst.Backend.BucketExists(name)
	if err != nil {
		return err
	}
	if ok {
		return nil
	}
	return inst.Backend.CreateBucket(name)
}

// BucketTree returns the directories and regular files (slash paths relative to the bucket's
// own directory) that the fs backends keep for a bucket, read from the underlying filesystem.
func (i *Instance) BucketTree(bucket string) (dirs, files []string, err error) {
	var fs afero.Fs
	root := "."
	switch i.Kind {
	case "fsM-mem":
		fs, root = i.memFs, "buckets/"+bucket
	case "fsM-dir":
		fs, root = afero.NewBasePathFs(afero.NewOsFs(), filepath.Join(i.Dir, "root")), "buckets/"+bucket
	case "fsS-mem":
		fs = i.memFs
	case "fsS-dir":
		fs = afero.NewBasePathFs(afero.NewOsFs(), filepath.Join(i.Dir, "bucket"))
	default:
		return nil, nil, fmt.Errorf("not an fs backend")
	}
	err = afero.Walk(fs, root, func(p string, info os.FileInfo, werr error) error {
		if werr != nil {
			return werr
		}
		rel, rerr := filepath.Rel(root, p)
		if rerr != nil || rel == "" || rel == "." {
			return nil
		}
		rel = filepath.ToSlash(rel)
		if info.IsDir() {
			dirs = append(dirs, rel)
		} else {
			files = append(files, rel)
		}
		return nil
	})
	sort.Strings(dirs)
	sort.Strings(files)
	return dirs, files, err
}

// BoltSetSync switches fsync on commit on or off for a bolt instance (on: every commit takes as
// long as on a production store, which widens the window between two commits of one request)
func (i *Instance) BoltSetSync(sync bool) {
	if i.boltDB != nil {
		i.boltDB.NoSync = !sync
	}
}

// BoltSnapshot writes the bolt database as it is committed at this moment (a read transaction's
// view: exactly what a process killed now would find on restart) to dst
func (i *Instance) BoltSnapshot(dst string) error {
	if i.boltDB == nil {
		return fmt.Errorf("not a bolt instance")
	}
	return i.boltDB.View(func(tx *bolt.Tx) error { return tx.CopyFile(dst, 0600) })
}

// OpenBoltFile starts a server on an existing bolt file (a snapshot)
func OpenBoltFile(path string, opts ...gofakes3.Option) (*Instance, error) {
	db, err := bolt.Open(path, 0600, &bolt.Options{NoSync: true, NoFreelistSync: true, Timeout: 2 * time.Second})
	if err != nil {
		return nil, err
	}
	inst := &Instance{Kind: "bolt", opts: opts, boltDB: db}
	inst.Backend = s3bolt.New(db, s3bolt.WithTimeSource(gofakes3.FixedTimeSource(FixedTime)))
	inst.closers = append(inst.closers, func() { db.Close() })
	inst.G = gofakes3.New(inst.Backend, append([]gofakes3.Option{gofakes3.WithTimeSkewLimit(0)}, opts...)...)
	inst.H = inst.G.Server()
	return inst, nil
}
