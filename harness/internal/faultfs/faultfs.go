// Package faultfs wraps an afero.Fs and simulates a process crash at the k-th mutating
// filesystem call: that call takes effect only partially (a Write stores half of its buffer)
// or not at all, and every later call on the wrapper fails — nothing the dying process would
// still have done (error handling, deferred cleanup) reaches the storage.
package faultfs

import (
	"errors"
	"os"
	"time"

	"github.com/spf13/afero"
)

var ErrCrashed = errors.New("faultfs: process crashed")

// ErrIO is what a read-side call answers once ReadFailAfter reads have gone through: a storage
// that stops answering (the process lives on and must report the failure properly).
var ErrIO = errors.New("faultfs: input/output error")

type Fs struct {
	Inner   afero.Fs
	CrashAt int // crash at the CrashAt-th mutating call (0-based); <0 = never
	Count   int // mutating calls seen so far
	Dead    bool
	// Peer: another wrapper of the same (simulated) process — the metadata file system of a
	// single-bucket backend; when one crashes both are dead.  Crashed: the cut call was this wrapper's.
	Peer    *Fs
	Crashed bool
	Log     []string
	// ReadFailAfter >= 0: the read-side calls (Stat, Open, read-only OpenFile) after the first
	// ReadFailAfter of them fail with ErrIO; < 0: never
	ReadFailAfter int
	Reads         int
}

func (f *Fs) readFault() bool {
	if f.ReadFailAfter < 0 {
		return false
	}
	f.Reads++
	return f.Reads > f.ReadFailAfter
}

func New(inner afero.Fs) *Fs { return &Fs{Inner: inner, CrashAt: -1, ReadFailAfter: -1} }

// step registers a mutating call; returns true if the call must not happen (crash)
func (f *Fs) step(what string) bool {
	if f.Dead {
		return true
	}
	f.Log = append(f.Log, what)
	if f.CrashAt >= 0 && f.Count == f.CrashAt {
		f.die()
		f.Count++
		return true
	}
	f.Count++
	return false
}

func (f *Fs) die() {
	f.Dead, f.Crashed = true, true
	if f.Peer != nil {
		f.Peer.Dead = true
	}
}

func (f *Fs) Name() string { return "faultfs" }

func (f *Fs) Create(name string) (afero.File, error) {
	if f.step("create " + name) {
		return nil, ErrCrashed
	}
	file, err := f.Inner.Create(name)
	if err != nil {
		return nil, err
	}
	return &File{File: file, fs: f, name: name}, nil
}

func (f *Fs) Mkdir(name string, perm os.FileMode) error {
	if f.step("mkdir " + name) {
		return ErrCrashed
	}
	return f.Inner.Mkdir(name, perm)
}

func (f *Fs) MkdirAll(path string, perm os.FileMode) error {
	// creating directories that already exist changes nothing and is not a crash point
	if st, err := f.Inner.Stat(path); err == nil && st.IsDir() {
		if f.Dead {
			return ErrCrashed
		}
		return nil
	}
	if f.step("mkdirall " + path) {
		return ErrCrashed
	}
	return f.Inner.MkdirAll(path, perm)
}

func (f *Fs) Open(name string) (afero.File, error) {
	if f.Dead {
		return nil, ErrCrashed
	}
	if f.readFault() {
		return nil, ErrIO
	}
	file, err := f.Inner.Open(name)
	if err != nil {
		return nil, err
	}
	return &File{File: file, fs: f, name: name}, nil
}

func (f *Fs) OpenFile(name string, flag int, perm os.FileMode) (afero.File, error) {
	if flag&(os.O_CREATE|os.O_TRUNC|os.O_WRONLY|os.O_RDWR|os.O_APPEND) != 0 {
		if f.step("openfile " + name) {
			return nil, ErrCrashed
		}
	} else if f.Dead {
		return nil, ErrCrashed
	} else if f.readFault() {
		return nil, ErrIO
	}
	file, err := f.Inner.OpenFile(name, flag, perm)
	if err != nil {
		return nil, err
	}
	return &File{File: file, fs: f, name: name}, nil
}

func (f *Fs) Remove(name string) error {
	if f.step("remove " + name) {
		return ErrCrashed
	}
	return f.Inner.Remove(name)
}

func (f *Fs) RemoveAll(path string) error {
	if f.step("removeall " + path) {
		return ErrCrashed
	}
	return f.Inner.RemoveAll(path)
}

func (f *Fs) Rename(oldname, newname string) error {
	if f.step("rename " + oldname + " " + newname) {
		return ErrCrashed
	}
	return f.Inner.Rename(oldname, newname)
}

func (f *Fs) Stat(name string) (os.FileInfo, error) {
	if f.Dead {
		return nil, ErrCrashed
	}
	if f.readFault() {
		return nil, ErrIO
	}
	return f.Inner.Stat(name)
}

func (f *Fs) Chmod(name string, mode os.FileMode) error {
	if f.Dead {
		return ErrCrashed
	}
	return f.Inner.Chmod(name, mode)
}

func (f *Fs) Chtimes(name string, atime time.Time, mtime time.Time) error {
	if f.Dead {
		return ErrCrashed
	}
	return f.Inner.Chtimes(name, atime, mtime)
}

type File struct {
	afero.File
	fs   *Fs
	name string
}

func (f *File) Write(p []byte) (int, error) {
	if f.fs.Dead {
		return 0, ErrCrashed
	}
	f.fs.Log = append(f.fs.Log, "write "+f.name)
	if f.fs.CrashAt >= 0 && f.fs.Count == f.fs.CrashAt {
		f.fs.die()
		f.fs.Count++
		// a torn write: half of the buffer reaches the file
		n, _ := f.File.Write(p[:len(p)/2])
		f.File.Close()
		return n, ErrCrashed
	}
	f.fs.Count++
	return f.File.Write(p)
}

func (f *File) WriteString(s string) (int, error) { return f.Write([]byte(s)) }

func (f *File) Read(p []byte) (int, error) {
	if f.fs.Dead {
		return 0, ErrCrashed
	}
	return f.File.Read(p)
}

func (f *File) Close() error {
	if f.fs.Dead {
		// the descriptor is closed by the kernel; nothing else happens
		f.File.Close()
		return ErrCrashed
	}
	return f.File.Close()
}
