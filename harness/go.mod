module verifharness

go 1.21

require (
	github.com/anishathalye/porcupine v1.3.0
	github.com/johannesboyne/gofakes3 v0.0.0
	github.com/spf13/afero v1.2.1
	go.etcd.io/bbolt v1.3.5
)

require (
	github.com/aws/aws-sdk-go v1.44.256 // indirect
	github.com/ryszard/goskiplist v0.0.0-20150312221310-2dfbae5fcf46 // indirect
	golang.org/x/text v0.9.0 // indirect
	gopkg.in/mgo.v2 v2.0.0-20180705113604-9856a29383ce // indirect
)

replace github.com/johannesboyne/gofakes3 => /repo
