// extract re-reads /repo's Go source with go/ast and writes GFS/Generated/*.lean:
// constants, the ErrorCode→status table, the routing tables, the metadata header
// predicate, the aws-chunked framing constants, the bucket-name pattern, and —
// through a deliberately tiny translator for straight-line int64 code — the bodies
// of ObjectRangeRequest.Range and the clamp of parseClampedInt.
//
// It fails loudly (exit 2, naming the construct) on anything it does not
// understand: an un-translatable rewrite is reported, never guessed.
package main

import (
	"fmt"
	"go/ast"
	"go/parser"
	"go/token"
	"os"
	"path/filepath"
	"sort"
	"strconv"
	"strings"
)

var fset = token.NewFileSet()

// a unit of generated output that cannot be produced from the current source
type unitFailure struct{ msg string }

func die(format string, a ...interface{}) {
	panic(unitFailure{fmt.Sprintf(format, a...)})
}

func parseFile(path string) *ast.File {
	f, err := parser.ParseFile(fset, path, nil, parser.ParseComments)
	if err != nil {
		die("parse %s: %v", path, err)
	}
	return f
}

func findFunc(f *ast.File, recv, name string) *ast.FuncDecl {
	for _, d := range f.Decls {
		fd, ok := d.(*ast.FuncDecl)
		if !ok || fd.Name.Name != name {
			continue
		}
		if recv == "" && fd.Recv == nil {
			return fd
		}
		if recv != "" && fd.Recv != nil && len(fd.Recv.List) == 1 {
			t := fd.Recv.List[0].Type
			if st, ok := t.(*ast.StarExpr); ok {
				t = st.X
			}
			if id, ok := t.(*ast.Ident); ok && id.Name == recv {
				return fd
			}
		}
	}
	return nil
}

// ---------------------------------------------------------------------------
// tiny translator: int64 straight-line code with if/else and return → Lean

type tr struct {
	consts map[string]string // named constants → Lean literal
	fields map[string]string // "o.Start" → Lean expr
	params map[string]string // parameter names → Lean expr
	retOK  func(t *tr, call ast.Expr) (string, bool)
	retErr func(t *tr, results []ast.Expr) (string, bool)
}

func (t *tr) pos(n ast.Node) string { return fset.Position(n.Pos()).String() }

func (t *tr) expr(e ast.Expr, locals map[string]bool) string {
	switch x := e.(type) {
	case *ast.ParenExpr:
		return "(" + t.expr(x.X, locals) + ")"
	case *ast.BasicLit:
		if x.Kind == token.INT {
			return x.Value
		}
	case *ast.Ident:
		if locals[x.Name] {
			return "v_" + x.Name
		}
		if p, ok := t.params[x.Name]; ok {
			return p
		}
		if c, ok := t.consts[x.Name]; ok {
			return "(" + c + ")"
		}
	case *ast.SelectorExpr:
		if id, ok := x.X.(*ast.Ident); ok {
			key := id.Name + "." + x.Sel.Name
			if f, ok := t.fields[key]; ok {
				return f
			}
		}
	case *ast.UnaryExpr:
		switch x.Op {
		case token.NOT:
			return "(!" + t.expr(x.X, locals) + ")"
		case token.SUB:
			return "(GFS.wrap (0 - " + t.expr(x.X, locals) + "))"
		}
	case *ast.BinaryExpr:
		l, r := t.expr(x.X, locals), t.expr(x.Y, locals)
		switch x.Op {
		case token.ADD:
			return "(GFS.addW " + l + " " + r + ")"
		case token.SUB:
			return "(GFS.subW " + l + " " + r + ")"
		case token.LSS:
			return "(decide (" + l + " < " + r + "))"
		case token.LEQ:
			return "(decide (" + l + " ≤ " + r + "))"
		case token.GTR:
			return "(decide (" + l + " > " + r + "))"
		case token.GEQ:
			return "(decide (" + l + " ≥ " + r + "))"
		case token.EQL:
			return "(" + l + " == " + r + ")"
		case token.NEQ:
			return "(" + l + " != " + r + ")"
		case token.LAND:
			return "(" + l + " && " + r + ")"
		case token.LOR:
			return "(" + l + " || " + r + ")"
		}
	}
	die("%s: expression not understood by the translator", t.pos(e))
	return ""
}

// assigned returns the outer variables (present in `outer`) assigned inside stmts.
func assigned(stmts []ast.Stmt, outer map[string]bool, acc map[string]bool) {
	local := map[string]bool{}
	for _, s := range stmts {
		switch x := s.(type) {
		case *ast.AssignStmt:
			for _, l := range x.Lhs {
				id, ok := l.(*ast.Ident)
				if !ok {
					continue
				}
				if x.Tok == token.DEFINE {
					local[id.Name] = true
				} else if outer[id.Name] && !local[id.Name] {
					acc[id.Name] = true
				}
			}
		case *ast.IfStmt:
			o2 := map[string]bool{}
			for k := range outer {
				if !local[k] {
					o2[k] = true
				}
			}
			assigned(x.Body.List, o2, acc)
			if x.Else != nil {
				switch e := x.Else.(type) {
				case *ast.BlockStmt:
					assigned(e.List, o2, acc)
				case *ast.IfStmt:
					assigned([]ast.Stmt{e}, o2, acc)
				}
			}
		case *ast.BlockStmt:
			assigned(x.List, outer, acc)
		}
	}
}

func endsInReturn(stmts []ast.Stmt) bool {
	if len(stmts) == 0 {
		return false
	}
	switch x := stmts[len(stmts)-1].(type) {
	case *ast.ReturnStmt:
		return true
	case *ast.IfStmt:
		if x.Else == nil {
			return false
		}
		var eb []ast.Stmt
		switch e := x.Else.(type) {
		case *ast.BlockStmt:
			eb = e.List
		case *ast.IfStmt:
			eb = []ast.Stmt{e}
		}
		return endsInReturn(x.Body.List) && endsInReturn(eb)
	}
	return false
}

func copyset(m map[string]bool) map[string]bool {
	r := map[string]bool{}
	for k, v := range m {
		r[k] = v
	}
	return r
}

func tuple(names []string) string {
	if len(names) == 1 {
		return "v_" + names[0]
	}
	parts := make([]string, len(names))
	for i, n := range names {
		parts[i] = "v_" + n
	}
	return "(" + strings.Join(parts, ", ") + ")"
}

// block translates stmts; `k` is the Lean expression for "what follows the block"
// ("" = the block must end in return). Returns a Lean expression.
func (t *tr) block(stmts []ast.Stmt, locals map[string]bool, k string, ind string) string {
	if len(stmts) == 0 {
		if k == "" {
			die("translator: fell off the end of a block without return")
		}
		return ind + k + "\n"
	}
	s, rest := stmts[0], stmts[1:]
	switch x := s.(type) {
	case *ast.DeclStmt:
		gd, ok := x.Decl.(*ast.GenDecl)
		if !ok || gd.Tok != token.VAR {
			die("%s: declaration not understood", t.pos(s))
		}
		out := ""
		l2 := copyset(locals)
		for _, sp := range gd.Specs {
			vs := sp.(*ast.ValueSpec)
			for i, n := range vs.Names {
				val := "0"
				if len(vs.Values) > i {
					val = t.expr(vs.Values[i], locals)
				}
				out += ind + "let v_" + n.Name + " : Int := " + val + "\n"
				l2[n.Name] = true
			}
		}
		return out + t.block(rest, l2, k, ind)
	case *ast.AssignStmt:
		if len(x.Lhs) != len(x.Rhs) {
			die("%s: assignment shape not understood", t.pos(s))
		}
		out := ""
		l2 := copyset(locals)
		// evaluate all RHS first (Go semantics for tuple assignment)
		vals := make([]string, len(x.Rhs))
		for i := range x.Rhs {
			vals[i] = t.expr(x.Rhs[i], locals)
		}
		for i, l := range x.Lhs {
			id, ok := l.(*ast.Ident)
			if !ok {
				die("%s: assignment target not understood", t.pos(s))
			}
			if x.Tok != token.DEFINE && x.Tok != token.ASSIGN {
				// += / -=
				var op string
				switch x.Tok {
				case token.ADD_ASSIGN:
					op = "GFS.addW"
				case token.SUB_ASSIGN:
					op = "GFS.subW"
				default:
					die("%s: assignment operator not understood", t.pos(s))
				}
				vals[i] = "(" + op + " v_" + id.Name + " " + vals[i] + ")"
			}
			out += ind + "let v_" + id.Name + " : Int := " + vals[i] + "\n"
			l2[id.Name] = true
		}
		return out + t.block(rest, l2, k, ind)
	case *ast.ReturnStmt:
		if len(x.Results) == 2 {
			if id, ok := x.Results[1].(*ast.Ident); ok && id.Name == "nil" {
				if r, ok := t.retOK(t, x.Results[0]); ok {
					_ = r
				}
				r, ok := t.retOKLocals(x.Results[0], locals)
				if ok {
					return ind + r + "\n"
				}
			} else if r, ok := t.retErr(t, x.Results); ok {
				return ind + r + "\n"
			}
		}
		die("%s: return shape not understood", t.pos(s))
	case *ast.IfStmt:
		if x.Init != nil {
			die("%s: if with init statement not understood", t.pos(s))
		}
		cond := t.expr(x.Cond, locals)
		var eb []ast.Stmt
		hasElse := x.Else != nil
		if hasElse {
			switch e := x.Else.(type) {
			case *ast.BlockStmt:
				eb = e.List
			case *ast.IfStmt:
				eb = []ast.Stmt{e}
			}
		}
		thenRet := endsInReturn(x.Body.List)
		elseRet := hasElse && endsInReturn(eb)
		restK := ""
		if len(rest) > 0 || k != "" {
			// continuation used by branches that do not return; since assigned
			// variables must flow out, handle the non-returning case by tupling.
		}
		if thenRet && (elseRet || !hasElse) && hasElse && elseRet {
			// both return: rest is dead
			return ind + "if " + cond + " then\n" + t.block(x.Body.List, locals, "", ind+"  ") +
				ind + "else\n" + t.block(eb, locals, "", ind+"  ")
		}
		if thenRet && !hasElse {
			return ind + "if " + cond + " then\n" + t.block(x.Body.List, locals, "", ind+"  ") +
				ind + "else\n" + t.block(rest, locals, k, ind+"  ")
		}
		if thenRet && hasElse && !elseRet {
			// else falls through into rest
			return ind + "if " + cond + " then\n" + t.block(x.Body.List, locals, "", ind+"  ") +
				ind + "else\n" + t.block(append(append([]ast.Stmt{}, eb...), rest...), locals, k, ind+"  ")
		}
		if !thenRet && elseRet {
			return ind + "if " + cond + " then\n" + t.block(append(append([]ast.Stmt{}, x.Body.List...), rest...), locals, k, ind+"  ") +
				ind + "else\n" + t.block(eb, locals, "", ind+"  ")
		}
		// neither branch returns: join the assigned outer variables in a tuple
		acc := map[string]bool{}
		assigned(x.Body.List, locals, acc)
		assigned(eb, locals, acc)
		var names []string
		for n := range acc {
			names = append(names, n)
		}
		sort.Strings(names)
		if len(names) == 0 {
			return t.block(rest, locals, k, ind)
		}
		tp := tuple(names)
		out := ind + "let " + tp + " :=\n" +
			ind + "  if " + cond + " then\n" + t.block(x.Body.List, locals, tp, ind+"    ") +
			ind + "  else\n" + t.block(eb, locals, tp, ind+"    ")
		_ = restK
		return out + t.block(rest, locals, k, ind)
	}
	die("%s: statement not understood by the translator", t.pos(s))
	return ""
}

func (t *tr) retOKLocals(e ast.Expr, locals map[string]bool) (string, bool) {
	// &ObjectRange{Start: a, Length: b}
	u, ok := e.(*ast.UnaryExpr)
	if !ok || u.Op != token.AND {
		// plain value (clamp): an identifier/expression
		return "some " + t.expr(e, locals), true
	}
	cl, ok := u.X.(*ast.CompositeLit)
	if !ok {
		return "", false
	}
	var st, ln string
	for _, el := range cl.Elts {
		kv, ok := el.(*ast.KeyValueExpr)
		if !ok {
			return "", false
		}
		switch kv.Key.(*ast.Ident).Name {
		case "Start":
			st = t.expr(kv.Value, locals)
		case "Length":
			ln = t.expr(kv.Value, locals)
		default:
			return "", false
		}
	}
	if st == "" || ln == "" {
		return "", false
	}
	return "some (" + st + ", " + ln + ")", true
}

// ---------------------------------------------------------------------------

func genRange(repo, out string) {
	f := parseFile(filepath.Join(repo, "range.go"))
	fd := findFunc(f, "ObjectRangeRequest", "Range")
	if fd == nil {
		die("range.go: func (*ObjectRangeRequest) Range not found")
	}
	recv := fd.Recv.List[0].Names[0].Name
	if len(fd.Type.Params.List) != 1 || len(fd.Type.Params.List[0].Names) != 1 {
		die("range.go: Range signature not understood")
	}
	size := fd.Type.Params.List[0].Names[0].Name
	consts := map[string]string{}
	for _, d := range f.Decls {
		if gd, ok := d.(*ast.GenDecl); ok && gd.Tok == token.CONST {
			for _, sp := range gd.Specs {
				vs := sp.(*ast.ValueSpec)
				for i, n := range vs.Names {
					if len(vs.Values) > i {
						consts[n.Name] = constInt(vs.Values[i])
					}
				}
			}
		}
	}
	t := &tr{
		consts: consts,
		fields: map[string]string{
			recv + ".Start":   "o.start",
			recv + ".End":     "o.«end»",
			recv + ".FromEnd": "o.fromEnd",
		},
		params: map[string]string{size: "size"},
		retOK:  func(*tr, ast.Expr) (string, bool) { return "", false },
		retErr: func(t *tr, rs []ast.Expr) (string, bool) {
			a, ok1 := rs[0].(*ast.Ident)
			b, ok2 := rs[1].(*ast.Ident)
			if ok1 && ok2 && a.Name == "nil" && b.Name == "ErrInvalidRange" {
				return "none", true
			}
			return "", false
		},
	}
	body := fd.Body.List
	// the leading `if o == nil { return nil, nil }` is the "no Range header" case, handled by the caller
	if is, ok := body[0].(*ast.IfStmt); ok {
		if be, ok := is.Cond.(*ast.BinaryExpr); ok && be.Op == token.EQL {
			if id, ok := be.X.(*ast.Ident); ok && id.Name == recv {
				body = body[1:]
			}
		}
	}
	lean := "import GFS.Model.Range\n/- GENERATED by harness/cmd/extract from /repo/range.go — do not edit. -/\n" +
		"namespace GFS.Generated\nopen GFS.Model\n\n" +
		"/-- `func (o *ObjectRangeRequest) Range(size int64)` translated statement by statement -/\n" +
		"def rangeGo (size : Int) (o : RangeReq) : Option (Int × Int) :=\n" +
		t.block(body, map[string]bool{}, "", "  ") +
		"\nend GFS.Generated\n"
	write(filepath.Join(out, "RangeGo.lean"), lean)
}

func constInt(e ast.Expr) string {
	switch x := e.(type) {
	case *ast.BasicLit:
		return x.Value
	case *ast.UnaryExpr:
		if x.Op == token.SUB {
			return "-" + constInt(x.X)
		}
	case *ast.ParenExpr:
		return constInt(x.X)
	case *ast.BinaryExpr:
		a, errA := strconv.ParseInt(constInt(x.X), 10, 64)
		b, errB := strconv.ParseInt(constInt(x.Y), 10, 64)
		if errA == nil && errB == nil {
			switch x.Op {
			case token.MUL:
				return strconv.FormatInt(a*b, 10)
			case token.ADD:
				return strconv.FormatInt(a+b, 10)
			case token.SUB:
				return strconv.FormatInt(a-b, 10)
			case token.SHL:
				return strconv.FormatInt(a<<uint(b), 10)
			}
		}
	}
	return "?"
}

func genClamp(repo, out string) {
	f := parseFile(filepath.Join(repo, "util.go"))
	fd := findFunc(f, "", "parseClampedInt")
	if fd == nil {
		die("util.go: parseClampedInt not found")
	}
	// signature: (in string, defaultValue, min, max int64)
	var names []string
	for _, p := range fd.Type.Params.List {
		for _, n := range p.Names {
			names = append(names, n.Name)
		}
	}
	if len(names) != 4 {
		die("util.go: parseClampedInt signature not understood")
	}
	// expected shape: var v int64; if in == "" {v = default} else {parse...}; <clamp if-chain>; return v, nil
	body := fd.Body.List
	if len(body) < 4 {
		die("util.go: parseClampedInt body not understood")
	}
	// find the statement index of the first if whose condition mentions only v/min/max
	var clamp []ast.Stmt
	var vname string
	if ds, ok := body[0].(*ast.DeclStmt); ok {
		vname = ds.Decl.(*ast.GenDecl).Specs[0].(*ast.ValueSpec).Names[0].Name
	} else {
		die("util.go: parseClampedInt: leading `var v int64` not found")
	}
	first, ok := body[1].(*ast.IfStmt)
	if !ok {
		die("util.go: parseClampedInt: parse if-statement not found")
	}
	// check that the first if is `in == ""` with then-branch `v = defaultValue`
	okShape := false
	if be, ok := first.Cond.(*ast.BinaryExpr); ok && be.Op == token.EQL {
		if id, ok := be.X.(*ast.Ident); ok && id.Name == names[0] {
			if bl, ok := be.Y.(*ast.BasicLit); ok && bl.Value == `""` {
				if len(first.Body.List) == 1 {
					if as, ok := first.Body.List[0].(*ast.AssignStmt); ok && len(as.Lhs) == 1 {
						l, _ := as.Lhs[0].(*ast.Ident)
						r, _ := as.Rhs[0].(*ast.Ident)
						if l != nil && r != nil && l.Name == vname && r.Name == names[1] {
							okShape = true
						}
					}
				}
			}
		}
	}
	if !okShape {
		die("util.go: parseClampedInt: `if in == \"\" { v = defaultValue }` not found")
	}
	// base of ParseInt and error result of the else branch
	elseSrc := nodeSrc(repo, "util.go", first.Else)
	if !strings.Contains(elseSrc, "strconv.ParseInt("+names[0]+", 10, 0)") ||
		!strings.Contains(elseSrc, "return "+names[1]+", ErrInvalidArgument") {
		die("util.go: parseClampedInt: ParseInt(in, 10, 0) / ErrInvalidArgument branch not found")
	}
	clamp = body[2:]
	t := &tr{
		consts: map[string]string{},
		fields: map[string]string{},
		params: map[string]string{names[2]: "lo", names[3]: "hi"},
		retOK:  func(*tr, ast.Expr) (string, bool) { return "", false },
		retErr: func(*tr, []ast.Expr) (string, bool) { return "", false },
	}
	lean := "import GFS.Base.I64\n/- GENERATED by harness/cmd/extract from /repo/util.go — do not edit. -/\n" +
		"namespace GFS.Generated\n\n" +
		"/-- the clamp of `parseClampedInt` after the value `v` is known -/\n" +
		"def clampGo (v_" + vname + " lo hi : Int) : Option Int :=\n" +
		t.block(clamp, map[string]bool{vname: true}, "", "  ") +
		"\nend GFS.Generated\n"
	write(filepath.Join(out, "ClampGo.lean"), lean)
}

func nodeSrc(repo, file string, n ast.Node) string {
	if n == nil {
		return ""
	}
	b, err := os.ReadFile(filepath.Join(repo, file))
	if err != nil {
		die("%v", err)
	}
	return string(b[fset.Position(n.Pos()).Offset:fset.Position(n.End()).Offset])
}

// ---------------------------------------------------------------------------
// facts

var httpStatus = map[string]int{
	"StatusConflict": 409, "StatusBadRequest": 400, "StatusForbidden": 403,
	"StatusRequestedRangeNotSatisfiable": 416, "StatusNotFound": 404,
	"StatusNotImplemented": 501, "StatusNotModified": 304, "StatusLengthRequired": 411,
	"StatusInternalServerError": 500, "StatusMethodNotAllowed": 405, "StatusPreconditionFailed": 412,
	"StatusOK": 200, "StatusNoContent": 204, "StatusUnauthorized": 401, "StatusServiceUnavailable": 503,
	"StatusRequestTimeout": 408, "StatusRequestEntityTooLarge": 413,
}

func leanStr(s string) string { return strconv.Quote(s) }

func genFacts(repo, out string) {
	var b strings.Builder
	b.WriteString("/- GENERATED by harness/cmd/extract from /repo — do not edit. -/\nnamespace GFS.Generated\n\n")

	// constants.go
	cf := parseFile(filepath.Join(repo, "constants.go"))
	var cnames []string
	cvals := map[string]string{}
	for _, d := range cf.Decls {
		if gd, ok := d.(*ast.GenDecl); ok && gd.Tok == token.CONST {
			for _, sp := range gd.Specs {
				vs := sp.(*ast.ValueSpec)
				for i, n := range vs.Names {
					if len(vs.Values) > i {
						v := constInt(vs.Values[i])
						if v != "?" {
							cnames = append(cnames, n.Name)
							cvals[n.Name] = v
						}
					}
				}
			}
		}
	}
	for _, n := range cnames {
		fmt.Fprintf(&b, "def const_%s : Int := %s\n", n, cvals[n])
	}
	for _, need := range []string{"KeySizeLimit", "DefaultMetadataSizeLimit", "MaxUploadPartNumber",
		"MaxBucketKeys", "DefaultMaxBucketKeys", "MaxUploadsLimit", "DefaultMaxUploads",
		"MaxUploadPartsLimit", "DefaultMaxUploadParts", "MaxBucketVersionKeys", "DefaultMaxBucketVersionKeys"} {
		if _, ok := cvals[need]; !ok {
			die("constants.go: constant %s not found or not an integer literal", need)
		}
	}

	// error.go: code names and Status()
	ef := parseFile(filepath.Join(repo, "error.go"))
	codeVal := map[string]string{}
	var codeOrder []string
	for _, d := range ef.Decls {
		if gd, ok := d.(*ast.GenDecl); ok && gd.Tok == token.CONST {
			for _, sp := range gd.Specs {
				vs := sp.(*ast.ValueSpec)
				if id, ok := vs.Type.(*ast.Ident); ok && id.Name == "ErrorCode" && len(vs.Values) == 1 {
					if bl, ok := vs.Values[0].(*ast.BasicLit); ok && bl.Kind == token.STRING {
						s, _ := strconv.Unquote(bl.Value)
						if s != "" {
							codeVal[vs.Names[0].Name] = s
							codeOrder = append(codeOrder, vs.Names[0].Name)
						}
					}
				}
			}
		}
	}
	sf := findFunc(ef, "ErrorCode", "Status")
	if sf == nil {
		die("error.go: func (ErrorCode) Status not found")
	}
	status := map[string]int{}
	dflt := -1
	for _, s := range sf.Body.List {
		switch x := s.(type) {
		case *ast.SwitchStmt:
			for _, c := range x.Body.List {
				cc := c.(*ast.CaseClause)
				if len(cc.Body) != 1 {
					die("%s: case body not understood", fset.Position(cc.Pos()))
				}
				st := statusOfReturn(cc.Body[0])
				for _, e := range cc.List {
					id, ok := e.(*ast.Ident)
					if !ok {
						die("%s: case expression not understood", fset.Position(e.Pos()))
					}
					status[id.Name] = st
				}
			}
		case *ast.ReturnStmt:
			dflt = statusOfReturn(x)
		}
	}
	if dflt < 0 {
		die("error.go: Status(): default return not found")
	}
	b.WriteString("\n/-- `ErrorCode.Status()`: (code string, HTTP status) for every declared code -/\n")
	b.WriteString("def statusTable : List (String × Nat) := [\n")
	for i, n := range codeOrder {
		st, ok := status[n]
		if !ok {
			st = dflt
		}
		sep := ","
		if i == len(codeOrder)-1 {
			sep = ""
		}
		fmt.Fprintf(&b, "  (%s, %d)%s\n", leanStr(codeVal[n]), st, sep)
	}
	fmt.Fprintf(&b, "]\ndef statusDefault : Nat := %d\n", dflt)

	// routing.go: the order of the query-key chain and the method tables
	rf := parseFile(filepath.Join(repo, "routing.go"))
	rb := findFunc(rf, "GoFakeS3", "routeBase")
	if rb == nil {
		die("routing.go: routeBase not found")
	}
	var chain []string
	for _, s := range rb.Body.List {
		is, ok := s.(*ast.IfStmt)
		for ok && is != nil {
			src := nodeSrc(repo, "routing.go", is.Cond)
			if is.Init != nil {
				src = nodeSrc(repo, "routing.go", is.Init) + "; " + src
			}
			chain = append(chain, src)
			if is.Else == nil {
				break
			}
			nx, ok2 := is.Else.(*ast.IfStmt)
			if !ok2 {
				chain = append(chain, "else")
				break
			}
			is = nx
		}
	}
	b.WriteString("\n/-- conditions of the if-chain in routeBase, in source order -/\ndef routeChain : List String := [\n")
	for i, c := range chain {
		sep := ","
		if i == len(chain)-1 {
			sep = ""
		}
		fmt.Fprintf(&b, "  %s%s\n", leanStr(c), sep)
	}
	b.WriteString("]\n")
	b.WriteString("\n/-- per-router method tables: (router, method, handler) -/\ndef methodTable : List (String × String × String) := [\n")
	var rows []string
	for _, name := range []string{"routeObject", "routeBucket", "routeMultipartUploadBase", "routeVersioning", "routeVersions", "routeVersion", "routeMultipartUpload"} {
		fd := findFunc(rf, "GoFakeS3", name)
		if fd == nil {
			die("routing.go: %s not found", name)
		}
		ast.Inspect(fd.Body, func(n ast.Node) bool {
			cc, ok := n.(*ast.CaseClause)
			if !ok {
				return true
			}
			meth := "default"
			if len(cc.List) == 1 {
				if bl, ok := cc.List[0].(*ast.BasicLit); ok {
					meth, _ = strconv.Unquote(bl.Value)
				}
			}
			var handlers []string
			for _, st := range cc.Body {
				ast.Inspect(st, func(m ast.Node) bool {
					if r, ok := m.(*ast.ReturnStmt); ok && len(r.Results) == 1 {
						switch v := r.Results[0].(type) {
						case *ast.CallExpr:
							if se, ok := v.Fun.(*ast.SelectorExpr); ok {
								handlers = append(handlers, se.Sel.Name)
							}
						case *ast.Ident:
							handlers = append(handlers, v.Name)
						}
					}
					return true
				})
			}
			rows = append(rows, fmt.Sprintf("  (%s, %s, %s)", leanStr(name), leanStr(meth), leanStr(strings.Join(handlers, "|"))))
			return true
		})
	}
	b.WriteString(strings.Join(rows, ",\n") + "\n]\n")

	// gofakes3.go: metadataHeaders predicate
	gf := parseFile(filepath.Join(repo, "gofakes3.go"))
	mh := findFunc(gf, "", "metadataHeaders")
	if mh == nil {
		die("gofakes3.go: metadataHeaders not found")
	}
	var prefixes, exact []string
	ast.Inspect(mh.Body, func(n ast.Node) bool {
		switch x := n.(type) {
		case *ast.CallExpr:
			if se, ok := x.Fun.(*ast.SelectorExpr); ok && se.Sel.Name == "HasPrefix" && len(x.Args) == 2 {
				if bl, ok := x.Args[1].(*ast.BasicLit); ok {
					s, _ := strconv.Unquote(bl.Value)
					prefixes = append(prefixes, s)
				}
			}
		case *ast.BinaryExpr:
			if x.Op == token.EQL {
				if id, ok := x.X.(*ast.Ident); ok && id.Name == "hk" {
					if bl, ok := x.Y.(*ast.BasicLit); ok {
						s, _ := strconv.Unquote(bl.Value)
						exact = append(exact, s)
					}
				}
			}
		}
		return true
	})
	if len(prefixes) == 0 {
		die("gofakes3.go: metadataHeaders: no header prefix found")
	}
	fmt.Fprintf(&b, "\ndef metaHeaderPrefixes : List String := [%s]\n", quoteAll(prefixes))
	fmt.Fprintf(&b, "def metaHeaderNames : List String := [%s]\n", quoteAll(exact))

	// chunk.go: the CopyN skip counts, in source order
	chf := parseFile(filepath.Join(repo, "chunk.go"))
	var skips []string
	ast.Inspect(chf, func(n ast.Node) bool {
		if ce, ok := n.(*ast.CallExpr); ok {
			if se, ok := ce.Fun.(*ast.SelectorExpr); ok && se.Sel.Name == "CopyN" && len(ce.Args) == 3 {
				v := constInt(ce.Args[2])
				if v == "?" {
					die("%s: CopyN count not a constant", fset.Position(ce.Pos()))
				}
				skips = append(skips, v)
			}
		}
		return true
	})
	if len(skips) != 2 {
		die("chunk.go: expected exactly two io.CopyN skips, found %d", len(skips))
	}
	fmt.Fprintf(&b, "\ndef chunkTrailerSkip : Nat := %s\ndef chunkSigSkip : Nat := %s\n", skips[0], skips[1])
	fmtSrc := ""
	ast.Inspect(chf, func(n ast.Node) bool {
		if ce, ok := n.(*ast.CallExpr); ok {
			if se, ok := ce.Fun.(*ast.SelectorExpr); ok && se.Sel.Name == "Fscanf" && len(ce.Args) >= 2 {
				if bl, ok := ce.Args[1].(*ast.BasicLit); ok {
					fmtSrc, _ = strconv.Unquote(bl.Value)
				}
			}
		}
		return true
	})
	fmt.Fprintf(&b, "def chunkHeaderFormat : String := %s\n", leanStr(fmtSrc))

	// validation.go: pattern text and length bounds
	vf := parseFile(filepath.Join(repo, "validation.go"))
	pat := ""
	ast.Inspect(vf, func(n ast.Node) bool {
		if vs, ok := n.(*ast.ValueSpec); ok && len(vs.Names) == 1 && vs.Names[0].Name == "bucketNamePattern" {
			if ce, ok := vs.Values[0].(*ast.CallExpr); ok && len(ce.Args) == 1 {
				if bl, ok := ce.Args[0].(*ast.BasicLit); ok {
					pat, _ = strconv.Unquote(bl.Value)
				}
			}
		}
		return true
	})
	if pat == "" {
		die("validation.go: bucketNamePattern not found")
	}
	fmt.Fprintf(&b, "\ndef bucketNamePatternText : String := %s\n", leanStr(pat))
	vfn := findFunc(vf, "", "ValidateBucketName")
	lo, hi := "", ""
	ast.Inspect(vfn.Body, func(n ast.Node) bool {
		if be, ok := n.(*ast.BinaryExpr); ok {
			if ce, ok := be.X.(*ast.CallExpr); ok {
				if id, ok := ce.Fun.(*ast.Ident); ok && id.Name == "len" {
					if bl, ok := be.Y.(*ast.BasicLit); ok {
						if be.Op == token.LSS && lo == "" {
							lo = bl.Value
						}
						if be.Op == token.GTR && hi == "" {
							hi = bl.Value
						}
					}
				}
			}
		}
		return true
	})
	if lo == "" || hi == "" {
		die("validation.go: length window `len(name) < lo || len(name) > hi` not found")
	}
	fmt.Fprintf(&b, "def bucketNameMinLen : Nat := %s\ndef bucketNameMaxLen : Nat := %s\n", lo, hi)
	// the order of checks in ValidateBucketName (ParseIP before the label loop)
	src := nodeSrc(repo, "validation.go", vfn.Body)
	fmt.Fprintf(&b, "def bucketNameUsesParseIP : Bool := %v\n", strings.Contains(src, "net.ParseIP(name) != nil"))
	fmt.Fprintf(&b, "def bucketNameSplitsLabels : Bool := %v\n", strings.Contains(src, `strings.Split(name, ".")`))

	b.WriteString("\nend GFS.Generated\n")
	write(filepath.Join(out, "Facts.lean"), b.String())
}

// genBackendFacts: what Model/Bolt and Model/FsBackend take from the backends' source as literals:
// the name of s3bolt's bookkeeping bucket and the prefix of its records, and the shape of
// s3afero's validKey (the exact conditions Model/FsTree.keyPath mirrors).
func genBackendFacts(repo, out string) {
	var b strings.Builder
	b.WriteString("/- GENERATED by harness/cmd/extract from /repo — do not edit. -/\nnamespace GFS.Generated\n\n")
	// s3bolt: metaBucketName: []byte("...") in New
	bf := parseFile(filepath.Join(repo, "backend", "s3bolt", "backend.go"))
	metaName := ""
	ast.Inspect(bf, func(n ast.Node) bool {
		if kv, ok := n.(*ast.KeyValueExpr); ok {
			if id, ok := kv.Key.(*ast.Ident); ok && id.Name == "metaBucketName" {
				if ce, ok := kv.Value.(*ast.CallExpr); ok && len(ce.Args) == 1 {
					if bl, ok := ce.Args[0].(*ast.BasicLit); ok && bl.Kind == token.STRING {
						metaName, _ = strconv.Unquote(bl.Value)
					}
				}
			}
		}
		return true
	})
	if metaName == "" {
		die("s3bolt/backend.go: metaBucketName: []byte(<literal>) not found")
	}
	sf := parseFile(filepath.Join(repo, "backend", "s3bolt", "schema.go"))
	kf := findFunc(sf, "", "bucketMetaKey")
	if kf == nil {
		die("s3bolt/schema.go: func bucketMetaKey not found")
	}
	prefix := ""
	ast.Inspect(kf.Body, func(n ast.Node) bool {
		if be, ok := n.(*ast.BinaryExpr); ok && be.Op == token.ADD {
			if bl, ok := be.X.(*ast.BasicLit); ok && bl.Kind == token.STRING {
				if id, ok := be.Y.(*ast.Ident); ok && id.Name == "name" {
					prefix, _ = strconv.Unquote(bl.Value)
				}
			}
		}
		return true
	})
	if prefix == "" {
		die("s3bolt/schema.go: bucketMetaKey is not []byte(<literal> + name)")
	}
	bytesOf := func(s string) string {
		var parts []string
		for _, c := range []byte(s) {
			parts = append(parts, fmt.Sprint(c))
		}
		return "[" + strings.Join(parts, ", ") + "]"
	}
	fmt.Fprintf(&b, "/-- s3bolt `metaBucketName` (%q) -/\ndef boltMetaName : List UInt8 := %s\n", metaName, bytesOf(metaName))
	fmt.Fprintf(&b, "/-- the literal prefix of s3bolt `bucketMetaKey` (%q) -/\ndef boltMetaKeyPrefix : List UInt8 := %s\n", prefix, bytesOf(prefix))
	// does every object-level method go through s3Bucket (the bookkeeping bucket is no S3 bucket)?
	src, err := os.ReadFile(filepath.Join(repo, "backend", "s3bolt", "backend.go"))
	if err != nil {
		die("%v", err)
	}
	direct := 0
	for _, fn := range []string{"ListBucket", "GetObject", "PutObject", "DeleteObject", "DeleteMulti"} {
		fd := findFunc(bf, "Backend", fn)
		if fd == nil {
			die("s3bolt/backend.go: method %s not found", fn)
		}
		body := string(src[fset.Position(fd.Body.Pos()).Offset:fset.Position(fd.Body.End()).Offset])
		if strings.Contains(body, "tx.Bucket(") {
			direct++
		}
	}
	fmt.Fprintf(&b, "/-- object-level methods of s3bolt that open a bolt bucket without `s3Bucket` -/\ndef boltDirectBucketUses : Nat := %d\n", direct)
	// s3afero validKey: the literal conditions
	uf := parseFile(filepath.Join(repo, "backend", "s3afero", "util.go"))
	vk := findFunc(uf, "", "validKey")
	if vk == nil {
		die("s3afero/util.go: func validKey not found")
	}
	vsrc := nodeSrc(repo, filepath.Join("backend", "s3afero", "util.go"), vk.Body)
	norm := strings.Join(strings.Fields(vsrc), " ")
	want := `{ if key == "" || key == "." || key == ".." || strings.HasPrefix(key, "../") || strings.HasPrefix(key, "/") { return false } return path.Clean(key) == key }`
	fmt.Fprintf(&b, "/-- s3afero `validKey` has the body Model/FsTree.keyPath mirrors -/\ndef aferoValidKeyAsModelled : Bool := %v\n", norm == want)
	b.WriteString("\nend GFS.Generated\n")
	write(filepath.Join(out, "BackendFacts.lean"), b.String())
}

func quoteAll(ss []string) string {
	q := make([]string, len(ss))
	for i, s := range ss {
		q[i] = leanStr(s)
	}
	return strings.Join(q, ", ")
}

func statusOfReturn(s ast.Stmt) int {
	r, ok := s.(*ast.ReturnStmt)
	if !ok || len(r.Results) != 1 {
		die("%s: return not understood", fset.Position(s.Pos()))
	}
	switch v := r.Results[0].(type) {
	case *ast.SelectorExpr:
		if st, ok := httpStatus[v.Sel.Name]; ok {
			return st
		}
		die("%s: unknown http status constant %s", fset.Position(s.Pos()), v.Sel.Name)
	case *ast.BasicLit:
		n, _ := strconv.Atoi(v.Value)
		return n
	}
	die("%s: status expression not understood", fset.Position(s.Pos()))
	return 0
}

func write(path, content string) {
	if err := os.WriteFile(path, []byte(content), 0644); err != nil {
		die("%v", err)
	}
}

func main() {
	if len(os.Args) != 3 {
		fmt.Fprintln(os.Stderr, "usage: extract <repo> <out-dir>")
		os.Exit(2)
	}
	repo, out := os.Args[1], os.Args[2]
	os.MkdirAll(out, 0755)
	for _, f := range []string{"Facts.lean", "RangeGo.lean", "ClampGo.lean", "BackendFacts.lean", "LockFacts.lean", "HandlerFacts.lean"} {
		os.Remove(filepath.Join(out, f))
	}
	// each unit is generated on its own: a source change the translator does not understand costs
	// that unit only (the caller restores the committed file and knows which properties depend on it)
	failed := 0
	for _, u := range []struct {
		name string
		gen  func(string, string)
	}{{"Facts", genFacts}, {"RangeGo", genRange}, {"ClampGo", genClamp}, {"BackendFacts", genBackendFacts}, {"LockFacts", genLockFacts}, {"HandlerFacts", genHandlerFacts}} {
		func() {
			defer func() {
				if p := recover(); p != nil {
					if uf, ok := p.(unitFailure); ok {
						fmt.Printf("UNIT-FAILED %s: %s\n", u.name, uf.msg)
						os.Remove(filepath.Join(out, u.name+".lean"))
						failed++
						return
					}
					panic(p)
				}
			}()
			u.gen(repo, out)
		}()
	}
	if failed > 0 {
		os.Exit(4)
	}
}
