package main

// (E) pairs of overlapping requests.  Request A is started and parked at one of the points
// where the real code can be stopped without a change to it — the verif build's gates and the
// backend's calls of its injected TimeSource (which sit inside the critical sections of s3mem
// and s3bolt) — then request B is started.  B either completes while A is parked or waits for
// a lock A holds; A is released, both must finish.  The two answers and the state read back
// afterwards must be what ONE of the two sequential orders A;B / B;A produces in the Lean model
// (both are evaluated from a snapshot of the model's state).  Two overlapping requests are
// linearizable exactly when that holds, so there is nothing to tune and no false alarm.

import (
	"fmt"
	"strings"
	"sync"
	"time"

	"github.com/johannesboyne/gofakes3"

	"verifharness/internal/impl"
)

type parkCtl struct {
	mu      sync.Mutex
	armed   bool
	skip    int
	parked  chan string
	release chan struct{}
}

func (p *parkCtl) hook(name string) {
	p.mu.Lock()
	if !p.armed {
		p.mu.Unlock()
		return
	}
	if p.skip > 0 {
		p.skip--
		p.mu.Unlock()
		return
	}
	p.armed = false
	p.mu.Unlock()
	p.parked <- name
	<-p.release
}

type parkTS struct {
	p    *parkCtl
	name string
}

func (t parkTS) Now() time.Time                  { t.p.hook(t.name); return impl.FixedTime }
func (t parkTS) Since(x time.Time) time.Duration { return impl.FixedTime.Sub(x) }

type pairOp struct {
	name string
	run  func(r *Runner) (string, string)
}

func pairOps(b, k, k0 string, single bool) []pairOp {
	ops := []pairOp{
		{"put1", func(r *Runner) (string, string) { return r.Put(b, k, nil, []byte("one")) }},
		{"put2", func(r *Runner) (string, string) { return r.Put(b, k, nil, []byte("second")) }},
		{"del", func(r *Runner) (string, string) { return r.Del(b, k) }},
		{"copy", func(r *Runner) (string, string) { return r.Copy(b, k0, b, k, nil) }},
		{"delmulti", func(r *Runner) (string, string) { return r.DelMulti(b, []ObjID{{Key: k}, {Key: k0}}) }},
		{"get", func(r *Runner) (string, string) { return r.Get(b, k) }},
	}
	if !single {
		ops = append(ops,
			pairOp{"rmbucket", func(r *Runner) (string, string) { return r.RmBucket(b, false) }},
			pairOp{"mkbucket", func(r *Runner) (string, string) { return r.MkBucket(b) }},
		)
	}
	return ops
}

// c07Pairs enumerates (pre-state, A, park point, B); `budget` caps the number of cases (drawn
// from the seed when the full product is larger).
func c07Pairs(c *Ctx, kind string, budget int) {
	single := strings.HasPrefix(kind, "fsS")
	b := "bk1"
	if single {
		b = impl.SingleBucketName
	}
	k, k0 := "d/k", "src"
	ops := pairOps(b, k, k0, single)
	preStates := []string{"empty-bucket", "k", "k0", "k+k0"}
	if !single {
		preStates = append(preStates, "no-bucket")
	}
	type cs struct {
		pre      string
		a, b     int
		parkSkip int
	}
	var all []cs
	for _, pre := range preStates {
		for ai := range ops {
			for bi := range ops {
				for skip := 0; skip < 3; skip++ {
					all = append(all, cs{pre, ai, bi, skip})
				}
			}
		}
	}
	c.Rng.Shuffle(len(all), func(i, j int) { all[i], all[j] = all[j], all[i] })
	if len(all) > budget {
		all = all[:budget]
	}
	pc := &parkCtl{parked: make(chan string, 1), release: make(chan struct{})}
	impl.BackendTimeSource = parkTS{pc, "backend.timeSource.Now"}
	gofakes3.VerifSetGate(pc.hook)
	defer func() {
		impl.BackendTimeSource = nil
		gofakes3.VerifSetGate(nil)
	}()
	for _, x := range all {
		c07Pair(c, kind, pc, b, k, k0, x.pre, ops[x.a], ops[x.b], x.parkSkip)
	}
	c07PairsMp(c, kind, pc)
}

func c07Pair(c *Ctx, kind string, pc *parkCtl, b, k, k0, pre string, A, B pairOp, parkSkip int) {
	inst, err := impl.New(kind, c.Tmp)
	if err != nil {
		c.mismatch(Mismatch{Kind: "model", Backend: kind, Finger: "setup", Impl: err.Error()})
		return
	}
	defer inst.Close()
	r := newRunner(c, inst, false, false, false)
	setup := func(l, o string) bool {
		before := c.NMism
		r.judgeProj(l, o, "c07:pair:setup", ident, nil)
		return c.NMism == before
	}
	if inst.IsSingle() {
		r.tell("mkbucket " + hx(b))
	} else if pre != "no-bucket" {
		if !setup(r.MkBucket(b)) {
			return
		}
	}
	if pre == "k" || pre == "k+k0" {
		if !setup(r.Put(b, k, nil, []byte("old-k"))) {
			return
		}
	}
	if pre == "k0" || pre == "k+k0" {
		if !setup(r.Put(b, k0, nil, []byte("source-body"))) {
			return
		}
	}
	reads := func() []pairRead {
		var reads []pairRead
		l, o := r.HeadBucket(b)
		reads = append(reads, pairRead{l, o})
		l, o = r.Get(b, k)
		reads = append(reads, pairRead{l, o})
		l, o = r.Get(b, k0)
		reads = append(reads, pairRead{l, o})
		ll, lo := r.List(ListReq{Bucket: b, ClampedMaxKeys: 1000})
		reads = append(reads, pairRead{ll, lo.Obs})
		return reads
	}
	// known finding D34: a copy is two critical sections (read the source; write the destination):
	// is what was observed exactly "source read, then B, then the write"?
	var split func(ra, rb pairRead, reads []pairRead, norm func(string, string) bool) string
	if A.name == "copy" && (pre == "k0" || pre == "k+k0") {
		split = func(ra, rb pairRead, reads []pairRead, norm func(string, string) bool) string {
			if !strings.HasPrefix(ra.obs, "copied ") {
				return ""
			}
			r.c.tell("rollback")
			ok := true
			m, _, _ := c.D.Ask(rb.line)
			ok = ok && norm(rb.obs, m)
			m, _, _ = c.D.Ask(fmt.Sprintf("put %s %s - %s", hx(b), hx(k), hx("source-body")))
			ok = ok && strings.HasPrefix(m, "stored ") && len(strings.Fields(m)) > 1 && len(strings.Fields(ra.obs)) > 1 && strings.Fields(m)[1] == strings.Fields(ra.obs)[1]
			for _, x := range reads {
				m, _, _ := c.D.Ask(x.line)
				ok = ok && norm(x.obs, m)
			}
			if ok {
				return "c07:pair:copy-not-atomic"
			}
			return ""
		}
	}
	runPair(c, kind, pc, r, pre, A, B, parkSkip, reads, split)
}

type pairRead struct{ line, obs string }

// runPair: the model state has been set up through r (and is snapshotted here); A is started and
// parked at its (parkSkip+1)-th park point, B is started, A released; the answers and `reads` must
// equal those of one sequential order in the model.
func runPair(c *Ctx, kind string, pc *parkCtl, r *Runner, pre string, A, B pairOp, parkSkip int,
	readsF func() []pairRead, split func(ra, rb pairRead, reads []pairRead, norm func(string, string) bool) string) {
	r.tell("snapshot")
	// --- the real code: A parked, B started, A released
	doneA, doneB := make(chan pairRead, 1), make(chan pairRead, 1)
	pc.mu.Lock()
	pc.armed, pc.skip = true, parkSkip
	pc.mu.Unlock()
	go func() { l, o := A.run(r); doneA <- pairRead{l, o} }()
	var ra, rb pairRead
	parkedAt := ""
	aDone := false
	select {
	case parkedAt = <-pc.parked:
	case ra = <-doneA:
		aDone = true
	case <-time.After(10 * time.Second):
		c.mismatch(Mismatch{Kind: "spec", Backend: kind, Case: append(append([]string{}, r.Lines...), "A="+A.name), Impl: "request A neither parked nor returned", Spec: "an answer", Finger: "c07:pair:hang"})
		return
	}
	pc.mu.Lock()
	pc.armed = false
	pc.mu.Unlock()
	if aDone {
		// A has fewer park points than asked for: the pair would run sequentially (covered by C02)
		c.hist("pair:no-park")
		return
	}
	go func() { l, o := B.run(r); doneB <- pairRead{l, o} }()
	bFirst := false
	select {
	case rb = <-doneB:
		bFirst = true
	case <-time.After(60 * time.Millisecond):
	}
	pc.release <- struct{}{}
	timeout := time.After(15 * time.Second)
	for got := 0; got < 2-b2i(bFirst); {
		select {
		case ra = <-doneA:
			got++
		case rb = <-doneB:
			got++
		case <-timeout:
			c.mismatch(Mismatch{Kind: "spec", Backend: kind, Case: append(append([]string{}, r.Lines...), fmt.Sprintf("A=%s parked at %s, then B=%s, then A released", A.name, parkedAt, B.name)),
				Impl: "a request did not return", Spec: "both requests are answered", Finger: "c07:pair:hang"})
			return
		}
	}
	if bFirst {
		c.hist("pair:B-overtook")
	} else {
		c.hist("pair:B-waited")
	}
	reads := readsF()
	// --- the model: both sequential orders
	c.R.Evaluations++
	// no request of a pair sends metadata headers; what an overwrite carries over from the
	// object it replaces (MergeMetadata reads it before the write lock) is not judged (DESIGN, C01)
	norm := func(impl, ref string) bool {
		i, m := normObs(impl, ref)
		return dropMeta(i) == dropMeta(m)
	}
	var tried []string
	match := false
	for _, order := range [][2]pairRead{{ra, rb}, {rb, ra}} {
		r.c.tell("rollback")
		ok := true
		var trace []string
		for _, x := range order {
			m, _, err := c.D.Ask(x.line)
			if err != nil {
				panic(err)
			}
			trace = append(trace, x.line+" => "+trunc(m, 60))
			if !norm(x.obs, m) {
				ok = false
			}
		}
		for _, x := range reads {
			m, _, err := c.D.Ask(x.line)
			if err != nil {
				panic(err)
			}
			trace = append(trace, x.line+" => "+trunc(m, 60))
			if !norm(x.obs, m) {
				ok = false
			}
		}
		tried = append(tried, strings.Join(trace, " ; "))
		if ok {
			match = true
			break
		}
	}
	c.nontrivial(fmt.Sprintf("pair|%s|%s|%s|%s|%s", kind, pre, A.name, parkedAt, B.name))
	c.hist("pair:parked-at:" + parkedAt)
	finger := "c07:pair:not-linearizable:" + A.name + "/" + B.name
	if !match && split != nil {
		if f := split(ra, rb, reads, norm); f != "" {
			finger = f
		}
	}
	if !match {
		obs := fmt.Sprintf("A=%s -> %s ; B=%s -> %s", A.name, trunc(ra.obs, 60), B.name, trunc(rb.obs, 60))
		for _, x := range reads {
			obs += " ; " + x.line + " -> " + trunc(x.obs, 60)
		}
		c.mismatch(Mismatch{Kind: "spec", Backend: kind,
			Case:  append(append([]string{}, r.Lines...), fmt.Sprintf("# A=%s (%s) started and parked at %s; B=%s (%s) started; A released", A.name, ra.line, parkedAt, B.name, rb.line)),
			Impl:  obs,
			Spec:  "the answers and the state read back equal those of one sequential order; A;B gives: " + tried[0] + " || B;A gives: " + tried[len(tried)-1],
			Model: "", Finger: finger})
	}
	r.c.tell("rollback")
}

// c07PairsMp: the same for multipart requests on ONE pending upload (two parts held): complete,
// a second complete, abort, a part re-upload, ListParts and a GET of the key, A parked at the
// gates inside the part upload / inside the complete's PutObject, and at the uploader's own calls
// of the front end's TimeSource (UploadPart calls it inside its critical section).
func c07PairsMp(c *Ctx, kind string, pc *parkCtl) {
	impl.FrontTimeSource = parkTS{pc, "front.timeSource.Now"}
	defer func() { impl.FrontTimeSource = nil }()
	b := "bk1"
	if strings.HasPrefix(kind, "fsS") {
		b = impl.SingleBucketName
	}
	key := "mp/obj"
	e := func(n int) string { return etagOf([]byte(fmt.Sprintf("part-body-%d", n))) }
	names := []string{"complete", "complete12", "abort", "part1", "part2new", "listparts", "get"}
	mk := func(name string, id *string) pairOp {
		switch name {
		case "complete":
			return pairOp{name, func(r *Runner) (string, string) { return r.MpComplete(b, key, *id, []cpart{{1, e(1)}, {2, e(2)}}) }}
		case "complete12":
			return pairOp{name, func(r *Runner) (string, string) { return r.MpComplete(b, key, *id, []cpart{{1, e(1)}}) }}
		case "abort":
			return pairOp{name, func(r *Runner) (string, string) { return r.MpAbort(b, key, *id) }}
		case "part1":
			return pairOp{name, func(r *Runner) (string, string) { return r.MpPart(b, key, *id, "1", []byte("part-body-1"), "", nil) }}
		case "part2new":
			// a replacement of part 2 with other bytes: a complete naming the old ETags must be refused after it
			return pairOp{name, func(r *Runner) (string, string) { return r.MpPart(b, key, *id, "2", []byte("other-part-body-2"), "", nil) }}
		case "listparts":
			return pairOp{name, func(r *Runner) (string, string) {
				l, po := r.MpParts(b, key, *id, "", "", 0, 1000)
				return l, po.Obs
			}}
		}
		return pairOp{name, func(r *Runner) (string, string) { return r.Get(b, key) }}
	}
	for _, an := range names[:5] {
		for _, bn := range names {
			for skip := 0; skip < 4; skip++ {
				inst, err := impl.New(kind, c.Tmp)
				if err != nil {
					c.mismatch(Mismatch{Kind: "model", Backend: kind, Finger: "setup", Impl: err.Error()})
					return
				}
				r := newRunner(c, inst, false, false, false)
				ok := true
				setup := func(l, o string) {
					before := c.NMism
					r.judgeProj(l, o, "c07:pair:setup", ident, nil)
					ok = ok && c.NMism == before
				}
				if inst.IsSingle() {
					r.tell("mkbucket " + hx(b))
				} else {
					setup(r.MkBucket(b))
				}
				l, o, id := r.MpInit(b, key, nil)
				setup(l, o)
				for n := 1; n <= 2 && ok; n++ {
					setup(r.MpPart(b, key, id, fmt.Sprint(n), []byte(fmt.Sprintf("part-body-%d", n)), "", nil))
				}
				if ok && id != "" {
					reads := func() []pairRead {
						var reads []pairRead
						l, o := r.Get(b, key)
						reads = append(reads, pairRead{l, o})
						lp, po := r.MpParts(b, key, id, "", "", 0, 1000)
						reads = append(reads, pairRead{lp, po.Obs})
						return reads
					}
					runPair(c, kind, pc, r, "upload-with-2-parts", mk(an, &id), mk(bn, &id), skip, reads, nil)
				}
				inst.Close()
			}
		}
	}
}

func b2i(b bool) int {
	if b {
		return 1
	}
	return 0
}
