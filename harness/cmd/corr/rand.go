package main

import "math/rand"

func newRand(seed int64) *rand.Rand { return rand.New(rand.NewSource(seed)) }
