package main

import (
	"bytes"
	"encoding/hex"
	"fmt"
	"io"
	"mime/multipart"
	"strings"

	"github.com/johannesboyne/gofakes3"

	"verifharness/internal/drv"
	"verifharness/internal/impl"
)

func init() { props["C01"] = runC01 }

var c01Keys = []string{
	"k", "plain.txt", "dir/file", "a/b/c/d/e", "with space", "plus+sign", "percent%41", "q?mark", "hash#tag", "amp&eq=",
	"ünïcödé", "日本語/キー", "emoji-😀", "semi;colon", "quote'\"", "back\\slash", "tab\there", "UPPER/lower", "dots.in.name", "tilde~", "(paren)", "comma,key", "colon:key", "at@key", "star*", "dollar$", "excl!",
}

// keyOKForFs: keys an fs backend can be expected to take (no path tricks, see C10)
func keyOKForFs(k string) bool {
	return !strings.Contains(k, "\\") && !strings.ContainsAny(k, "\x00")
}

func c01Meta(c *Ctx) map[string]string {
	md := map[string]string{}
	n := c.Rng.Intn(5)
	names := []string{"X-Amz-Meta-A", "X-Amz-Meta-Long-Name-Here", "Content-Type", "Content-Encoding", "Content-Disposition", "X-Amz-Meta-Z9"}
	vals := []string{"", "v", "text/plain", "application/octet-stream", "gzip", `attachment; filename="x.txt"`, "value with spaces", "ümläut", "a=b&c=d", strings.Repeat("x", 200)}
	for i := 0; i < n; i++ {
		md[names[c.Rng.Intn(len(names))]] = vals[c.Rng.Intn(len(vals))]
	}
	return md
}

// sentSubset: every header sent is returned unchanged (spec clause of C01)
func sentSubset(sent map[string]string, obs string) bool {
	i := strings.Index(obs, " meta=")
	if i < 0 {
		return false
	}
	got := map[string]string{}
	for _, kv := range strings.Split(obs[i+6:], ",") {
		p := strings.SplitN(kv, "=", 2)
		if len(p) == 2 {
			got[p[0]] = p[1]
		}
	}
	for k, v := range sent {
		if got[hx(k)] != hx(v) {
			return false
		}
	}
	return true
}

func runC01(c *Ctx) {
	sizes := []int{0, 1, 2, 63, 64, 65, 4095, 4096, 4097, 32767, 32768, 32769}
	nRand := 20
	if c.Thorough() {
		sizes = append(sizes, 65536, 1<<20, 3<<20)
		nRand = 150
	}
	c.R.Rule = "bodies of sizes {0,1,2,63,64,65,4095..4097,32767..32769 (+64KiB,1MiB,3MiB thorough)} ∪ random, arbitrary bytes × keys from a grammar (ASCII, multi-byte UTF-8, characters needing URL escaping, nested '/') × 0–4 metadata headers (values incl. empty, re-sent empty or changed on a re-upload of the same bytes) × 6 backend instances × {HTTP PUT, browser-form POST, copy, Backend API} × integrity check on/off; each upload is followed by GET and HEAD whose full observation is compared with the Lean model (body, length, ETag = Lean MD5 of the body, metadata, version) and with the spec clause 'every sent header is returned unchanged'; non-trivial = distinct (backend, path, size, key)"
	for _, kind := range c.kinds(impl.AllKinds) {
		for _, integ := range []bool{true, false} {
			inst, err := impl.New(kind, c.Tmp, gofakes3.WithIntegrityCheck(integ))
			if err != nil {
				c.mismatch(Mismatch{Kind: "model", Backend: kind, Finger: "setup", Impl: err.Error()})
				continue
			}
			r := newRunner(c, inst, false, false, false)
			bucket := impl.SingleBucketName
			if inst.IsSingle() {
				r.tell("mkbucket " + hx(bucket))
			} else {
				l, o := r.MkBucket(bucket)
				r.judgeProj(l, o, "setup", ident, nil)
			}
			all := append([]int{}, sizes...)
			for i := 0; i < nRand; i++ {
				all = append(all, c.Rng.Intn(3000))
			}
			for i, sz := range all {
				key := c01Keys[(i*7+c.Rng.Intn(3))%len(c01Keys)]
				if inst.IsFs() && !keyOKForFs(key) {
					key = "fs-" + fmt.Sprint(i)
				}
				if c.Rng.Intn(12) == 0 {
					key = strings.Repeat("k", 1000+c.Rng.Intn(25)) // around the 1024 limit
					if inst.IsFs() {
						// real directories: every segment and the flattened metadata file name
						// (key with '/'→'_' plus 33 bytes) must stay below NAME_MAX
						key = strings.Repeat("k", 100) + "/" + strings.Repeat("j", 100)
					}
				}
				body := c.randBytes(sz)
				md := c01Meta(c)
				path := []string{"put", "post", "copy", "api"}[c.Rng.Intn(4)]
				if sz > 100000 {
					path = "put"
				}
				var line, obs string
				var post func()
				switch path {
				case "put":
					h := map[string]string{}
					for k, v := range md {
						h[k] = v
					}
					line, obs = r.Put(bucket, key, h, body)
				case "post":
					line, obs = c01Post(r, bucket, key, md, body)
				case "copy":
					// upload under a scratch key, then copy
					srcMd := c01Meta(c)
					srcH := map[string]string{}
					for k, v := range srcMd {
						srcH[k] = v
					}
					l0, o0 := r.Put(bucket, "copy-src", srcH, body)
					r.judgeProj(l0, o0, "c01:copy-src", ident, nil)
					if x := c.Rng.Intn(3); x < 2 {
						// the metadata directive of S3 (the server stores it like any x-amz- header)
						md["X-Amz-Metadata-Directive"] = []string{"COPY", "REPLACE"}[x]
					}
					line, obs = r.Copy(bucket, "copy-src", bucket, key, md)
					md["X-Amz-Copy-Source"] = "/" + bucket + "/copy-src"
					// the source must still return exactly what was PUT on it
					post = func() {
						ls, os := r.Get(bucket, "copy-src")
						r.judgeProj(ls, os, "c01:source-after-copy", ident, nil)
						c.R.Evaluations++
						if !sentSubset(srcMd, os) {
							c.mismatch(Mismatch{Kind: "spec", Backend: kind, Case: append(append([]string{}, r.Lines...)), Finger: "c01:source-metadata-changed-by-copy",
								Impl: trunc(os, 300), Spec: "the copy source still returns the headers it was PUT with: " + metaLine(srcMd)})
						}
						// the copy is overwritten with other headers: still nothing of that reaches the source
						lo, oo := r.Put(bucket, key, map[string]string{"Content-Type": "application/x-overwritten", "Content-Disposition": "inline; over", "X-Amz-Meta-Over": "1"}, append([]byte("over:"), body...))
						r.judgeProj(lo, oo, "c01:overwrite-of-copy", ident, nil)
						ls, os = r.Get(bucket, "copy-src")
						r.judgeProj(ls, os, "c01:source-after-overwrite-of-copy", ident, nil)
						c.R.Evaluations++
						if !sentSubset(srcMd, os) || !strings.HasPrefix(os, fmt.Sprintf("obj %s %s ", drv.Hex(body), etagOf(body))) {
							c.mismatch(Mismatch{Kind: "spec", Backend: kind, Case: append(append([]string{}, r.Lines...)), Finger: "c01:source-changed-by-overwrite-of-copy",
								Impl: trunc(os, 300), Spec: "the copy source still returns its bytes and the headers it was PUT with: " + metaLine(srcMd)})
						}
					}
				case "api":
					line, obs = c01API(r, bucket, key, md, body)
				}
				before := c.NMism
				r.judgeProj(line, obs, "c01:"+path, ident, nil)
				if c.NMism > before {
					continue
				}
				if strings.HasPrefix(obs, "err ") {
					c.hist("upload:" + path + ":" + obs)
					continue
				}
				// GET and HEAD
				lg, og := r.Get(bucket, key)
				r.judgeProj(lg, og, "c01:get-after-"+path, ident, nil)
				lh, oh := r.Head(bucket, key)
				r.judgeProj(lh, oh, "c01:head-after-"+path, ident, nil)
				// the statement itself: exactly the uploaded bytes, their count, and their MD5 as ETag
				c.R.Evaluations++
				wantG := fmt.Sprintf("obj %s %s ", drv.Hex(body), etagOf(body))
				wantH := fmt.Sprintf("hobj %d %s ", len(body), etagOf(body))
				if !strings.HasPrefix(og, wantG) || !strings.HasPrefix(oh, wantH) {
					c.mismatch(Mismatch{Kind: "spec", Backend: kind, Case: append(append([]string{}, r.Lines...)), Finger: "c01:bytes-size-etag:" + path,
						Impl: trunc(og, 200) + " | " + trunc(oh, 120), Spec: trunc(wantG, 200) + "… | " + wantH + "…"})
				}
				c.R.Evaluations++
				if !sentSubset(md, og) || !sentSubset(md, oh) {
					c.mismatch(Mismatch{Kind: "spec", Backend: kind, Case: append(append([]string{}, r.Lines...)), Finger: "c01:sent-metadata-not-returned",
						Impl: trunc(og, 300), Spec: "every sent header returned unchanged: " + metaLine(md)})
				}
				if post != nil {
					post()
				}
				// the same bytes again with other headers: the headers of THIS upload must come back
				if path == "put" && sz <= 100000 && c.Rng.Intn(3) == 0 {
					md2 := c01Meta(c)
					md2["X-Amz-Meta-Rev"] = fmt.Sprint(c.Rng.Intn(1000))
					// headers of the first upload sent again, some with another and some with an EMPTY value
					// (an empty value is a value: the previous one must not come back)
					for k := range md {
						switch c.Rng.Intn(3) {
						case 0:
							md2[k] = ""
						case 1:
							md2[k] = "second"
						}
					}
					h2 := map[string]string{}
					for k, v := range md2 {
						h2[k] = v
					}
					l2, o2 := r.Put(bucket, key, h2, body)
					r.judgeProj(l2, o2, "c01:reput", ident, nil)
					if strings.HasPrefix(o2, "stored") {
						lg2, og2 := r.Get(bucket, key)
						r.judgeProj(lg2, og2, "c01:get-after-reput", ident, nil)
						lh2, oh2 := r.Head(bucket, key)
						r.judgeProj(lh2, oh2, "c01:head-after-reput", ident, nil)
						c.R.Evaluations++
						if !sentSubset(md2, og2) || !sentSubset(md2, oh2) || !strings.HasPrefix(og2, wantG) {
							c.mismatch(Mismatch{Kind: "spec", Backend: kind, Case: append(append([]string{}, r.Lines...)), Finger: "c01:sent-metadata-not-returned:reput",
								Impl: trunc(og2, 300), Spec: "the same bytes uploaded again: every header of the second upload returned unchanged: " + metaLine(md2)})
						}
					}
				}
				c.hist("upload:" + path + ":ok")
				c.nontrivial(fmt.Sprintf("%s|%s|%d|%s", kind, path, sz, key))
				if len(c.R.Samples) < 6 {
					c.sample(fmt.Sprintf("%s integrity=%v %s key=%q size=%d meta=%v -> %s", kind, integ, path, key, sz, md, trunc(og, 80)))
				}
			}
			// keys that differ only in '/', '_' or '\\' (the fs backends flatten '/' when naming their
			// metadata files): each keeps its own bytes and headers
			sib := [][]string{{"sibz/dir/report", "sibz/dir_report"}, {"sibz/a/b/c", "sibz/a_b/c", "sibz/a/b_c"}, {"sibz/x\\y", "sibz/x_y"}}
			for si, group := range sib {
				if inst.IsFs() && si == 2 {
					continue // a backslash is not portable in file names
				}
				want := map[string][2]string{}
				for gi, k := range group {
					body := []byte(fmt.Sprintf("sibling-%d-%d-%s", si, gi, k))
					md := map[string]string{"Content-Type": fmt.Sprintf("text/x-sib%d", gi), "X-Amz-Meta-Which": k}
					h := map[string]string{}
					for kk, v := range md {
						h[kk] = v
					}
					l, o := r.Put(bucket, k, h, body)
					r.judgeProj(l, o, "c01:sibling-put", ident, nil)
					if strings.HasPrefix(o, "stored") {
						want[k] = [2]string{string(body), metaLine(md)}
					}
				}
				for _, k := range group {
					if _, ok := want[k]; !ok {
						continue
					}
					lg, og := r.Get(bucket, k)
					r.judgeProj(lg, og, "c01:sibling-get", ident, nil)
					c.R.Evaluations++
					body := []byte(want[k][0])
					md := map[string]string{"Content-Type": "", "X-Amz-Meta-Which": k}
					for gi, kk := range group {
						if kk == k {
							md["Content-Type"] = fmt.Sprintf("text/x-sib%d", gi)
						}
					}
					if !strings.HasPrefix(og, fmt.Sprintf("obj %s %s ", drv.Hex(body), etagOf(body))) || !sentSubset(md, og) {
						c.mismatch(Mismatch{Kind: "spec", Backend: kind, Case: append(append([]string{}, r.Lines...)), Finger: "c01:sibling-keys",
							Impl: trunc(og, 300), Spec: fmt.Sprintf("key %q returns its own bytes and headers (%s)", k, want[k][1])})
						break
					}
				}
			}
			inst.Close()
		}
	}
}

func c01Post(r *Runner, bucket, key string, md map[string]string, body []byte) (string, string) {
	var buf bytes.Buffer
	w := multipart.NewWriter(&buf)
	w.WriteField("key", key)
	for k, v := range md {
		w.WriteField(k, v)
	}
	fw, _ := w.CreateFormFile("file", "upload.bin")
	fw.Write(body)
	w.Close()
	resp := r.inst.Do(impl.Req{Method: "POST", Path: r.path(bucket, ""), Body: bytes.NewReader(buf.Bytes()),
		Header: map[string]string{"Content-Type": w.FormDataContentType()}})
	obs := errObs(resp)
	if resp.Status == 200 && resp.Panic == "" {
		obs = "stored " + etagHex(resp.Header.Get("ETag")) + " vid=" + vidOf(resp.Header.Get("X-Amz-Version-Id"))
	}
	return fmt.Sprintf("put %s %s %s %s", hx(bucket), hx(key), metaLine(md), drv.Hex(body)), obs
}

// c01API uploads through the Go Backend API (PutObject with a hashing reader as the
// handler would pass it is not needed: the Backend computes the digest itself).
func c01API(r *Runner, bucket, key string, md map[string]string, body []byte) (string, string) {
	m := map[string]string{}
	for k, v := range md {
		m[k] = v
	}
	line := fmt.Sprintf("put %s %s %s %s", hx(bucket), hx(key), metaLine(md), drv.Hex(body))
	if len(key) > gofakes3.KeySizeLimit {
		// the key limit is enforced by the handler, not by the Backend; keep the model's view
		key = key[:gofakes3.KeySizeLimit]
		line = fmt.Sprintf("put %s %s %s %s", hx(bucket), hx(key), metaLine(md), drv.Hex(body))
	}
	var res gofakes3.PutObjectResult
	var err error
	func() {
		defer func() {
			if p := recover(); p != nil {
				err = fmt.Errorf("panic: %v", p)
			}
		}()
		res, err = r.inst.Backend.PutObject(bucket, key, m, bytes.NewReader(body), int64(len(body)))
	}()
	if err != nil {
		if strings.HasPrefix(err.Error(), "panic") {
			return line, "panic"
		}
		if e, ok := err.(interface{ ErrorCode() gofakes3.ErrorCode }); ok {
			return line, "err " + string(e.ErrorCode())
		}
		return line, "err InternalError"
	}
	// read back through the API to obtain the digest the backend computed
	obj, err := r.inst.Backend.HeadObject(bucket, key)
	if err != nil {
		return line, "api-head-failed " + err.Error()
	}
	obj.Contents.Close()
	return line, "stored " + hex.EncodeToString(obj.Hash) + " vid=" + vidOf(string(res.VersionID))
}

var _ = io.EOF
