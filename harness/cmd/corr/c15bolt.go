package main

import (
	"bytes"
	"crypto/md5"
	"encoding/hex"
	"fmt"
	"os"
	"path/filepath"
	"strings"
	"sync"
	"sync/atomic"

	"verifharness/internal/impl"
)

// (d) bolt: every committed state of the database is a state a killed process restarts from.
// While one client overwrites / copies over / completes a multipart upload onto / deletes and
// re-creates a key (commits with fsync, as in production), a second goroutine keeps taking
// snapshots of the committed database (a read transaction's view).  Every snapshot is opened
// with a new server and must show: the untouched acknowledged key intact, and the key being
// written with the complete body, ETag and metadata of ONE upload between the last one
// acknowledged before the snapshot began and the last one started before it ended — never
// absent, never a mixture.
func c15BoltCommitted(c *Ctx) {
	rounds, maxSnaps := 120, 360
	if c.Thorough() {
		rounds, maxSnaps = 1500, 4500
	}
	for _, mode := range []string{"put", "copy", "complete", "mkbucket"} {
		inst, err := impl.New("bolt", c.Tmp)
		if err != nil {
			c.mismatch(Mismatch{Kind: "model", Backend: "bolt", Finger: "setup", Impl: err.Error()})
			return
		}
		inst.BoltSetSync(true)
		snapDir, _ := os.MkdirTemp(c.Tmp, "snaps-")
		put := func(k string, body []byte, rev int) int {
			return inst.Do(impl.Req{Method: "PUT", Path: "/bkt/" + k, Body: bytes.NewReader(body),
				Header: map[string]string{"X-Amz-Meta-Rev": fmt.Sprint(rev), "Content-Type": "text/x-rev"}}).Status
		}
		bodyOf := func(i int) []byte {
			return []byte(fmt.Sprintf("rev-%06d-", i) + strings.Repeat(string(rune('a'+i%26)), 10+(i*37)%3000))
		}
		inst.Do(impl.Req{Method: "PUT", Path: "/bkt"})
		put("other", []byte("untouched"), 0)
		put("k", bodyOf(0), 0)
		var started, acked int64 // index of the last upload started / acknowledged
		type snap struct {
			path   string
			lo, hi int64
		}
		var snaps []snap
		var mu sync.Mutex
		done := make(chan struct{})
		var wg sync.WaitGroup
		wg.Add(1)
		go func() {
			defer wg.Done()
			lastHi, perHi := int64(-1), 0
			for n := 0; ; n++ {
				select {
				case <-done:
					return
				default:
				}
				lo := atomic.LoadInt64(&acked)
				p := filepath.Join(snapDir, fmt.Sprintf("s%05d.db", n))
				if err := inst.BoltSnapshot(p); err != nil {
					continue
				}
				hi := atomic.LoadInt64(&started)
				mu.Lock()
				// at most three snapshots per upload in flight, so that they spread over the whole run
				if hi != lastHi {
					lastHi, perHi = hi, 0
				}
				perHi++
				if len(snaps) < maxSnaps && perHi <= 3 {
					snaps = append(snaps, snap{p, lo, hi})
				} else {
					os.Remove(p)
				}
				mu.Unlock()
			}
		}()
		bad := ""
		for i := 1; i <= rounds && bad == ""; i++ {
			body := bodyOf(i)
			atomic.StoreInt64(&started, int64(i))
			st := 0
			switch mode {
			case "mkbucket":
				// a bucket is created (and the one before last deleted again) while 'k' is rewritten
				st = inst.Do(impl.Req{Method: "PUT", Path: fmt.Sprintf("/nb-%05d", i)}).Status
				if st == 200 && i > 2 {
					inst.Do(impl.Req{Method: "DELETE", Path: fmt.Sprintf("/nb-%05d", i-2)})
				}
				if st == 200 {
					st = put("k", body, i)
				}
			case "put":
				st = put("k", body, i)
			case "copy":
				if s := put("src", body, i); s != 200 {
					bad = fmt.Sprintf("PUT src -> %d", s)
					break
				}
				st = inst.Do(impl.Req{Method: "PUT", Path: "/bkt/k", Header: map[string]string{"X-Amz-Copy-Source": "/bkt/src"}}).Status
			case "complete":
				r := inst.Do(impl.Req{Method: "POST", Path: "/bkt/k", Query: "uploads", Header: map[string]string{"X-Amz-Meta-Rev": fmt.Sprint(i), "Content-Type": "text/x-rev"}})
				id := between(string(r.Body), "<UploadId>", "</UploadId>")
				pr := inst.Do(impl.Req{Method: "PUT", Path: "/bkt/k", Query: "partNumber=1&uploadId=" + id, Body: bytes.NewReader(body)})
				et := pr.Header.Get("ETag")
				st = inst.Do(impl.Req{Method: "POST", Path: "/bkt/k", Query: "uploadId=" + id,
					Body: strings.NewReader("<CompleteMultipartUpload><Part><PartNumber>1</PartNumber><ETag>" + et + "</ETag></Part></CompleteMultipartUpload>")}).Status
			}
			if bad == "" && st != 200 {
				bad = fmt.Sprintf("%s %d -> %d", mode, i, st)
			}
			atomic.StoreInt64(&acked, int64(i))
		}
		close(done)
		wg.Wait()
		inst.Close()
		if bad != "" {
			c.mismatch(Mismatch{Kind: "model", Backend: "bolt", Finger: "c15:bolt-committed:setup", Impl: bad})
			os.RemoveAll(snapDir)
			continue
		}
		distinct := map[string]bool{}
		for _, s := range snaps {
			si, err := impl.OpenBoltFile(s.path)
			if err != nil {
				c.mismatch(Mismatch{Kind: "spec", Backend: "bolt", Case: []string{mode + " loop, snapshot of the committed database"}, Impl: "the snapshot does not open: " + err.Error(),
					Spec: "the store opens", Finger: "c15:bolt-committed:store-does-not-open"})
				break
			}
			c.R.Evaluations++
			viol := ""
			o := si.Do(impl.Req{Method: "GET", Path: "/bkt/other"})
			if o.Status != 200 || string(o.Body) != "untouched" {
				viol = fmt.Sprintf("acknowledged key 'other': %d %q", o.Status, trunc(string(o.Body), 30))
			}
			g := si.Do(impl.Req{Method: "GET", Path: "/bkt/k"})
			if viol == "" {
				ok := false
				for i := s.lo; i <= s.hi && !ok; i++ {
					b := bodyOf(int(i))
					sum := md5.Sum(b)
					ok = g.Status == 200 && bytes.Equal(g.Body, b) && strings.Trim(g.Header.Get("ETag"), `"`) == hex.EncodeToString(sum[:]) &&
						(mode == "copy" || g.Header.Get("X-Amz-Meta-Rev") == fmt.Sprint(i)) && g.Header.Get("Content-Type") == "text/x-rev"
				}
				if !ok {
					viol = fmt.Sprintf("key 'k' (every upload up to #%d acknowledged, #%d the last one started): GET -> %d %q rev=%q etag=%s", s.lo, s.hi, g.Status,
						trunc(string(g.Body), 24), g.Header.Get("X-Amz-Meta-Rev"), g.Header.Get("ETag"))
				}
			}
			if viol == "" {
				l := si.Do(impl.Req{Method: "GET", Path: "/bkt"})
				if l.Status != 200 || !strings.Contains(string(l.Body), "<Key>k</Key>") || !strings.Contains(string(l.Body), "<Key>other</Key>") {
					viol = fmt.Sprintf("listing after restart: %d %s", l.Status, trunc(string(l.Body), 200))
				}
			}
			if viol == "" && mode == "mkbucket" {
				// the store lists its buckets; every bucket it lists can be listed itself; every bucket
				// whose creation was acknowledged before the snapshot began (and that was not yet due for deletion) is there
				lb := si.Do(impl.Req{Method: "GET", Path: "/"})
				if lb.Status != 200 {
					viol = fmt.Sprintf("ListBuckets after restart: %d %s", lb.Status, trunc(string(lb.Body), 160))
				} else {
					// (bucket j is deleted again by round j+2, which may have started once hi >= j+2)
					for j := max(s.hi-1, 1); j <= s.lo && viol == ""; j++ {
						if !strings.Contains(string(lb.Body), fmt.Sprintf("<Name>nb-%05d</Name>", j)) {
							viol = fmt.Sprintf("bucket nb-%05d (creation acknowledged) is not listed after restart", j)
						}
					}
					rest := string(lb.Body)
					for viol == "" {
						i := strings.Index(rest, "<Name>")
						if i < 0 {
							break
						}
						rest = rest[i+6:]
						name := rest[:strings.Index(rest, "<")]
						if x := si.Do(impl.Req{Method: "GET", Path: "/" + name}); x.Status != 200 {
							viol = fmt.Sprintf("bucket %s is listed after restart but listing it answers %d", name, x.Status)
						}
					}
				}
			}
			distinct[g.Header.Get("ETag")] = true
			si.Close()
			if viol != "" {
				c.mismatch(Mismatch{Kind: "spec", Backend: "bolt", Case: []string{fmt.Sprintf("bolt (fsync on): %s onto the existing key 'k' in a loop; snapshot of the committed database taken between upload #%d acknowledged and #%d started; a new server on the snapshot", mode, s.lo, s.hi)},
					Impl: viol, Spec: "acknowledged writes intact; the write in flight wholly present or wholly absent (the previous upload)", Finger: "c15:bolt-committed:" + mode})
				break
			}
		}
		c.hist(fmt.Sprintf("bolt-committed:%s:snapshots=%d-distinct-states=%d", mode, len(snaps)/50*50, len(distinct)/10*10))
		c.nontrivial(fmt.Sprintf("bolt-committed|%s|%d", mode, len(distinct)))
		os.RemoveAll(snapDir)
	}
}

func between(s, a, b string) string {
	i := strings.Index(s, a)
	if i < 0 {
		return ""
	}
	s = s[i+len(a):]
	j := strings.Index(s, b)
	if j < 0 {
		return ""
	}
	return s[:j]
}
