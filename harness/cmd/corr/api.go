package main

// api.go: correspondence at the gofakes3.Backend interface itself — no HTTP, no handler.
// The methods of the real Backend value are called in process and every result is compared
// with the backend's own Lean model (Model/Bolt; Model/Fs*) and, where the interface method
// and the reference operation mean the same, with the reference model Spec.S3 / Spec.Listing.

import (
	"bytes"
	"fmt"
	"io"
	"strings"

	"github.com/johannesboyne/gofakes3"

	"verifharness/internal/drv"
	"verifharness/internal/impl"
)

func apiErr(err error) string {
	if err == nil {
		return "ok"
	}
	if strings.HasPrefix(err.Error(), "panic:") {
		return "panic"
	}
	if e, ok := err.(interface{ ErrorCode() gofakes3.ErrorCode }); ok {
		return "err " + string(e.ErrorCode())
	}
	return "err InternalError"
}

func guard(f func() error) (err error) {
	defer func() {
		if p := recover(); p != nil {
			err = fmt.Errorf("panic: %v", p)
		}
	}()
	return f()
}

func hexOrDash(s string) string {
	if s == "" {
		return "-"
	}
	return s
}

type apiRunner struct {
	c     *Ctx
	inst  *impl.Instance
	kind  string
	Lines []string
	dead  bool
}

// projection of an answer to what the reference model carries
func apiSpecProj(s string) string {
	f := strings.Fields(s)
	if len(f) == 0 {
		return s
	}
	switch f[0] {
	case "obj":
		if len(f) > 1 {
			return "obj " + f[1]
		}
	case "deleted", "copied":
		return "ok"
	case "list":
		// C=key:size:hash,... -> keys only
		if len(f) == 3 {
			c := strings.TrimPrefix(f[1], "C=")
			if c != "-" {
				var ks []string
				for _, e := range strings.Split(c, ",") {
					ks = append(ks, strings.SplitN(e, ":", 2)[0])
				}
				c = strings.Join(ks, ",")
			}
			return "list C=" + c + " " + f[2]
		}
	}
	return s
}

func (a *apiRunner) judge(line, obs, finger string) {
	if a.dead {
		return
	}
	model, spec, err := a.c.D.Ask(line)
	if err != nil {
		panic(err)
	}
	a.c.R.Evaluations++
	cs := append(append([]string{}, a.Lines...), line)
	a.Lines = append(a.Lines, line)
	switch {
	case obs == "panic":
		a.c.mismatch(Mismatch{Kind: "spec", Backend: a.kind, Case: cs, Impl: obs, Model: model, Spec: "an answer (" + spec + ")", Finger: finger + ":panic"})
		a.dead = true
	case spec != "-" && apiSpecProj(obs) != apiSpecProj(spec):
		a.c.mismatch(Mismatch{Kind: "spec", Backend: a.kind, Case: cs, Impl: obs, Model: model, Spec: spec, Finger: finger})
		a.dead = true
	case obs != model:
		a.c.mismatch(Mismatch{Kind: "model", Backend: a.kind, Case: cs, Impl: obs, Model: model, Spec: spec, Finger: finger})
		a.dead = true
	}
}

func (a *apiRunner) tell(line string) {
	a.c.tell(line)
	a.Lines = append(a.Lines, line)
}

func (a *apiRunner) mk(b string) {
	err := guard(func() error { return a.inst.Backend.CreateBucket(b) })
	a.judge("api.mk "+hx(b), apiErr(err), "api:createBucket")
}
func (a *apiRunner) rm(b string) {
	err := guard(func() error { return a.inst.Backend.DeleteBucket(b) })
	a.judge("api.rm "+hx(b), apiErr(err), "api:deleteBucket")
}
func (a *apiRunner) force(b string) {
	err := guard(func() error { return a.inst.Backend.ForceDeleteBucket(b) })
	a.judge("api.force "+hx(b), apiErr(err), "api:forceDeleteBucket")
}
func (a *apiRunner) exists(b string) {
	var ex bool
	err := guard(func() (e error) { ex, e = a.inst.Backend.BucketExists(b); return })
	obs := fmt.Sprint(ex)
	if err != nil {
		obs = apiErr(err)
	}
	a.judge("api.exists "+hx(b), obs, "api:bucketExists")
}
func (a *apiRunner) buckets() {
	var bs []gofakes3.BucketInfo
	err := guard(func() (e error) { bs, e = a.inst.Backend.ListBuckets(); return })
	obs := apiErr(err)
	if err == nil {
		var ns []string
		for _, b := range bs {
			ns = append(ns, b.Name)
		}
		obs = "buckets " + keysLine(ns)
	}
	a.judge("api.buckets", obs, "api:listBuckets")
}
func (a *apiRunner) put(b, k string, md map[string]string, body []byte) {
	m := map[string]string{}
	for x, y := range md {
		m[x] = y
	}
	err := guard(func() error {
		_, e := a.inst.Backend.PutObject(b, k, m, bytes.NewReader(body), int64(len(body)))
		return e
	})
	a.judge(fmt.Sprintf("api.put %s %s %s %s", hx(b), hx(k), metaLine(md), drv.Hex(body)), apiErr(err), "api:putObject")
}
func (a *apiRunner) get(b, k string, head bool) {
	var obs string
	err := guard(func() error {
		var o *gofakes3.Object
		var e error
		if head {
			o, e = a.inst.Backend.HeadObject(b, k)
		} else {
			o, e = a.inst.Backend.GetObject(b, k, nil)
		}
		if e != nil {
			return e
		}
		defer o.Contents.Close()
		body, e := io.ReadAll(o.Contents)
		if e != nil {
			return e
		}
		if head {
			obs = fmt.Sprintf("hobj %d %s meta=%s", o.Size, hexOrDash(fmt.Sprintf("%x", o.Hash)), metaLine(o.Metadata))
		} else {
			if int64(len(body)) != o.Size {
				obs = fmt.Sprintf("size-mismatch %d %d", len(body), o.Size)
				return nil
			}
			obs = fmt.Sprintf("obj %s %s meta=%s", drv.Hex(body), hexOrDash(fmt.Sprintf("%x", o.Hash)), metaLine(o.Metadata))
		}
		return nil
	})
	if err != nil {
		obs = apiErr(err)
	}
	if head {
		a.judge(fmt.Sprintf("api.head %s %s", hx(b), hx(k)), obs, "api:headObject")
	} else {
		a.judge(fmt.Sprintf("api.get %s %s", hx(b), hx(k)), obs, "api:getObject")
	}
}
func (a *apiRunner) del(b, k string) {
	err := guard(func() error { _, e := a.inst.Backend.DeleteObject(b, k); return e })
	a.judge(fmt.Sprintf("api.del %s %s", hx(b), hx(k)), apiErr(err), "api:deleteObject")
}
func (a *apiRunner) delMulti(b string, ks []string) {
	var res gofakes3.MultiDeleteResult
	err := guard(func() (e error) { res, e = a.inst.Backend.DeleteMulti(b, ks...); return })
	obs := apiErr(err)
	if err == nil {
		var del []string
		for _, d := range res.Deleted {
			del = append(del, d.Key)
		}
		obs = "deleted " + keysLine(del)
		if len(res.Error) > 0 {
			obs += fmt.Sprintf(" errors=%d", len(res.Error))
		}
	}
	kl := "~"
	if len(ks) > 0 {
		kl = keysLine(ks)
	}
	a.judge(fmt.Sprintf("api.delmulti %s %s", hx(b), kl), obs, "api:deleteMulti")
}
func (a *apiRunner) copy(sb, sk, db, dk string, md map[string]string) {
	m := map[string]string{}
	for x, y := range md {
		m[x] = y
	}
	var res gofakes3.CopyObjectResult
	err := guard(func() (e error) { res, e = a.inst.Backend.CopyObject(sb, sk, db, dk, m); return })
	obs := apiErr(err)
	if err == nil {
		obs = "copied " + hexOrDash(strings.Trim(res.ETag, `"`))
	}
	a.judge(fmt.Sprintf("api.copy %s %s %s %s %s", hx(sb), hx(sk), hx(db), hx(dk), metaLine(md)), obs, "api:copyObject")
}
func (a *apiRunner) list(b string, hasP bool, pfx string, hasD bool, d string) {
	var ol *gofakes3.ObjectList
	p := &gofakes3.Prefix{HasPrefix: hasP && pfx != "", Prefix: pfx, HasDelimiter: hasD && d != "", Delimiter: d}
	if !hasP {
		p.Prefix = ""
	}
	if !hasD {
		p.Delimiter = ""
	}
	err := guard(func() (e error) { ol, e = a.inst.Backend.ListBucket(b, p, gofakes3.ListBucketPage{}); return })
	obs := apiErr(err)
	if err == nil {
		var cs, ps []string
		for _, c := range ol.Contents {
			cs = append(cs, fmt.Sprintf("%s:%d:%s", hx(c.Key), c.Size, hexOrDash(strings.Trim(c.ETag, `"`))))
		}
		for _, cp := range ol.CommonPrefixes {
			ps = append(ps, cp.Prefix)
		}
		c := "-"
		if len(cs) > 0 {
			c = strings.Join(cs, ",")
		}
		obs = fmt.Sprintf("list C=%s P=%s", c, keysLine(ps))
		if ol.IsTruncated {
			obs += " truncated"
		}
	}
	pp, dd := "-", "-"
	if hasP {
		pp = hx(pfx)
	}
	if hasD {
		dd = hx(d)
	}
	a.judge(fmt.Sprintf("api.list %s %s %s %s %s", hx(b), b01(hasP), pp, b01(hasD), dd), obs, "api:listBucket")
}

// apiSequences runs random Backend-interface histories on one backend kind.
func apiSequences(c *Ctx, kind string, nSeq, maxLen int) {
	model := map[string]string{"bolt": "bolt", "fsM-mem": "fsM", "fsM-dir": "fsM", "fsS-mem": "fsS", "fsS-dir": "fsS"}[kind]
	if model == "" {
		return
	}
	buckets := []string{"bk1", "bk2", "bk3", "bk1", "bk2", "_meta", ""}
	keys := []string{"a", "a/b", "a/b/c", "ab", "a.b", "b", "b/", "a//b", "bucket/bk1", "bucket/bk2", "é", ""}
	isFs := model == "fsM" || model == "fsS"
	if isFs {
		// Model/FsBackend speaks about bucket names that pass the create-bucket rule (the front end
		// admits no others); keys: conflicting ones ("a" against "a/b/c"), keys that are no clean
		// relative paths, and ordinary ones
		buckets = []string{"bk1", "bk2", "bk3", "bk1", "bk2", "nosuch"}
		keys = []string{"a", "a/b", "a/b/c", "ab", "a.b", "b", "b/", "a//b", "../bk2/a", "./a", "a/./b", "a/..", "..", ".", "é", "", "d/e/f/g", "d/e"}
	}
	if model == "fsS" {
		buckets = []string{impl.SingleBucketName, impl.SingleBucketName, impl.SingleBucketName, "other", "bk1"}
	}
	prefixes := []string{"", "a", "a/", "a/b", "a/b/", "b", "bucket/", "c", "a.", "/", "d/", "d/e", "d/e/", "d/e/f/", "a/b/c/", "a//", "./", "a/./", "../", "d/x/"}
	metas := []map[string]string{nil, {"Content-Type": "text/plain"}, {"X-Amz-Meta-A": "1", "Content-Type": "x/y"}, {"X-Amz-Meta-B": ""}, {"X-Amz-Acl": "private"}}
	for s := 0; s < nSeq; s++ {
		inst, err := impl.New(kind, c.Tmp)
		if err != nil {
			c.mismatch(Mismatch{Kind: "model", Backend: kind, Finger: "setup", Impl: err.Error()})
			return
		}
		a := &apiRunner{c: c, inst: inst, kind: kind}
		if model == "fsS" {
			a.tell("api.reset fsS " + hx(impl.SingleBucketName))
		} else {
			a.tell("api.reset " + model)
		}
		pickB := func() string { return buckets[c.Rng.Intn(len(buckets))] }
		pickK := func() string { return keys[c.Rng.Intn(len(keys))] }
		n := 1 + c.Rng.Intn(maxLen)
		interesting := 0
		for i := 0; i < n && !a.dead; i++ {
			switch x := c.Rng.Intn(30); {
			case x < 4:
				a.mk(pickB())
			case x < 6:
				a.rm(pickB())
			case x < 7:
				a.force(pickB())
			case x < 8:
				a.exists(pickB())
			case x < 9:
				a.buckets()
			case x < 16:
				a.put(pickB(), pickK(), metas[c.Rng.Intn(len(metas))], []byte(fmt.Sprintf("v%d", c.Rng.Intn(4))))
				interesting++
			case x < 19:
				a.get(pickB(), pickK(), false)
			case x < 20:
				a.get(pickB(), pickK(), true)
			case x < 22:
				a.del(pickB(), pickK())
				interesting++
			case x < 23:
				k := c.Rng.Intn(4)
				var ks []string
				for j := 0; j < k; j++ {
					ks = append(ks, pickK())
				}
				a.delMulti(pickB(), ks)
			case x < 26:
				a.copy(pickB(), pickK(), pickB(), pickK(), metas[c.Rng.Intn(len(metas))])
				interesting++
			default:
				a.list(pickB(), c.Rng.Intn(3) > 0, prefixes[c.Rng.Intn(len(prefixes))], c.Rng.Intn(2) == 0, []string{"/", "/", ".", "b"}[c.Rng.Intn(4)])
			}
		}
		c.hist("api:" + kind + ":sequences")
		if interesting > 1 {
			c.nontrivial(fmt.Sprintf("api|%s|%d", kind, s))
		}
		inst.Close()
	}
}
