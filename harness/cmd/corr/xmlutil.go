package main

import "encoding/xml"

type xmlBuckets struct {
	Buckets []struct {
		Name string `xml:"Name"`
	} `xml:"Buckets>Bucket"`
}

func listBucketNames(body []byte) []string {
	var d xmlBuckets
	if err := xml.Unmarshal(body, &d); err != nil {
		return []string{"<unparsable: " + err.Error() + ">"}
	}
	var out []string
	for _, b := range d.Buckets {
		out = append(out, b.Name)
	}
	return out
}
