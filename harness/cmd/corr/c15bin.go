package main

import (
	"bufio"
	"bytes"
	"crypto/md5"
	"encoding/hex"
	"fmt"
	"io"
	"net/http"
	"os"
	"os/exec"
	"path/filepath"
	"regexp"
	"sort"
	"strings"
	"sync"
	"syscall"
	"time"
)

// (c) of C15: the real server binary (cmd/gofakes3/main.go), as a process, on loopback.
// The flag wiring of main.go decides which storage a backend persists to, so it is part of
// "closing the server and starting a new one on the same storage".

const repoDir = "/repo"

type binCfg struct {
	kind   string // the backend-instance name used in reports
	bucket string
	args   func(root string) []string
}

var binCfgs = []binCfg{
	{"bolt", "bkt", func(root string) []string {
		return []string{"-backend", "bolt", "-bolt.db", filepath.Join(root, "s3.db"), "-initialbucket", "bkt"}
	}},
	{"fsM-dir", "bkt", func(root string) []string {
		return []string{"-backend", "fs", "-fs.path", filepath.Join(root, "fs"), "-fs.create", "-initialbucket", "bkt"}
	}},
	{"fsM-dir", "bkt", func(root string) []string {
		return []string{"-backend", "fs", "-fs.path", filepath.Join(root, "fs"), "-fs.meta", filepath.Join(root, "fsmeta"), "-fs.create", "-initialbucket", "bkt"}
	}},
	{"fsS-dir", "mybucket", func(root string) []string {
		return []string{"-backend", "directfs", "-directfs.path", filepath.Join(root, "d"), "-directfs.meta", filepath.Join(root, "dmeta"), "-directfs.create"}
	}},
	{"fsS-dir", "other", func(root string) []string {
		return []string{"-backend", "directfs", "-directfs.path", filepath.Join(root, "d"), "-directfs.meta", filepath.Join(root, "dmeta"), "-directfs.create", "-directfs.bucket", "other"}
	}},
}

type binProc struct {
	cmd  *exec.Cmd
	port string
	log  *bytes.Buffer
	mu   sync.Mutex
}

var portRe = regexp.MustCompile(`using port: (\d+)`)

func buildServerBinary(tmp string) (string, error) {
	out := filepath.Join(tmp, "gofakes3-server")
	cmd := exec.Command("go", "build", "-o", out, "./cmd/gofakes3")
	cmd.Dir = repoDir
	cmd.Env = append(os.Environ(), "GOFLAGS=-mod=mod", "GOPROXY=off", "GOSUMDB=off", "GOTOOLCHAIN=local")
	if b, err := cmd.CombinedOutput(); err != nil {
		return "", fmt.Errorf("go build ./cmd/gofakes3: %v: %s", err, trunc(string(b), 300))
	}
	return out, nil
}

func startServer(bin string, args []string) (*binProc, error) {
	p := &binProc{log: &bytes.Buffer{}}
	p.cmd = exec.Command(bin, append([]string{"-host", "127.0.0.1:0"}, args...)...)
	stderr, err := p.cmd.StderrPipe()
	if err != nil {
		return nil, err
	}
	p.cmd.Stdout = io.Discard
	if err := p.cmd.Start(); err != nil {
		return nil, err
	}
	portCh := make(chan string, 1)
	go func() {
		sc := bufio.NewScanner(stderr)
		sc.Buffer(make([]byte, 1<<20), 1<<20)
		sent := false
		for sc.Scan() {
			line := sc.Text()
			p.mu.Lock()
			if p.log.Len() < 1<<16 {
				p.log.WriteString(line + "\n")
			}
			p.mu.Unlock()
			if m := portRe.FindStringSubmatch(line); m != nil && !sent {
				sent = true
				portCh <- m[1]
			}
		}
		if !sent {
			portCh <- ""
		}
	}()
	select {
	case port := <-portCh:
		if port == "" {
			p.cmd.Wait()
			p.mu.Lock()
			defer p.mu.Unlock()
			return nil, fmt.Errorf("the server exited before listening: %s", trunc(p.log.String(), 400))
		}
		p.port = port
		return p, nil
	case <-time.After(20 * time.Second):
		p.cmd.Process.Kill()
		return nil, fmt.Errorf("the server did not start listening within 20 s")
	}
}

func (p *binProc) kill() {
	p.cmd.Process.Signal(syscall.SIGKILL)
	p.cmd.Wait()
}

func (p *binProc) url(bucket, key string) string {
	u := "http://127.0.0.1:" + p.port + "/" + bucket
	if key != "" {
		u += "/" + key
	}
	return u
}

var binClient = &http.Client{Timeout: 30 * time.Second}

type binObj struct {
	status int
	body   string
	etag   string
	meta   string
}

func (o binObj) String() string {
	return fmt.Sprintf("%d len=%d md5body=%s etag=%s meta=%s", o.status, len(o.body), md5hex([]byte(o.body)), o.etag, o.meta)
}

func md5hex(b []byte) string { s := md5.Sum(b); return hex.EncodeToString(s[:]) }

func (p *binProc) get(bucket, key string) binObj {
	resp, err := binClient.Get(p.url(bucket, key))
	if err != nil {
		return binObj{status: -1, body: err.Error()}
	}
	defer resp.Body.Close()
	b, _ := io.ReadAll(resp.Body)
	o := binObj{status: resp.StatusCode, etag: strings.Trim(resp.Header.Get("ETag"), `"`)}
	if resp.StatusCode == 200 {
		o.body = string(b)
		var ms []string
		for k, v := range resp.Header {
			if strings.HasPrefix(k, "X-Amz-Meta-") || k == "Content-Type" || k == "Content-Disposition" || k == "Content-Encoding" {
				ms = append(ms, k+"="+strings.Join(v, ","))
			}
		}
		sort.Strings(ms)
		o.meta = strings.Join(ms, ";")
	}
	return o
}

func (p *binProc) put(bucket, key string, body []byte, hdr map[string]string) int {
	rq, _ := http.NewRequest("PUT", p.url(bucket, key), bytes.NewReader(body))
	for k, v := range hdr {
		rq.Header.Set(k, v)
	}
	resp, err := binClient.Do(rq)
	if err != nil {
		return -1
	}
	io.Copy(io.Discard, resp.Body)
	resp.Body.Close()
	return resp.StatusCode
}

func (p *binProc) del(bucket, key string) int {
	rq, _ := http.NewRequest("DELETE", p.url(bucket, key), nil)
	resp, err := binClient.Do(rq)
	if err != nil {
		return -1
	}
	io.Copy(io.Discard, resp.Body)
	resp.Body.Close()
	return resp.StatusCode
}

var keyRe = regexp.MustCompile(`<Key>([^<]*)</Key>`)

func (p *binProc) list(bucket string) (int, []string) {
	resp, err := binClient.Get(p.url(bucket, ""))
	if err != nil {
		return -1, nil
	}
	defer resp.Body.Close()
	b, _ := io.ReadAll(resp.Body)
	var keys []string
	for _, m := range keyRe.FindAllStringSubmatch(string(b), -1) {
		keys = append(keys, m[1])
	}
	sort.Strings(keys)
	return resp.StatusCode, keys
}

// c15Binary: a history through the real process, a kill while idle, a new process on the same
// storage: the same keys, bodies, sizes, ETags and metadata.
func c15Binary(c *Ctx, bin string, cfg binCfg, variant int) {
	root, err := os.MkdirTemp(c.Tmp, "binsrv-")
	if err != nil {
		return
	}
	defer os.RemoveAll(root)
	args := cfg.args(root)
	desc := []string{"gofakes3 " + strings.Join(cfg.args("<dir>"), " ")}
	p, err := startServer(bin, args)
	if err != nil {
		c.mismatch(Mismatch{Kind: "spec", Backend: cfg.kind, Case: desc, Impl: err.Error(), Spec: "the server starts", Finger: "c15:binary:start"})
		return
	}
	// the reference store: what was acknowledged
	want := map[string]binObj{}
	keys := []string{"k1", "dir/k2", "dir/sub/k3", "other", "k 5"}
	n := 6 + c.Rng.Intn(10)
	for i := 0; i < n; i++ {
		k := keys[c.Rng.Intn(len(keys))]
		if c.Rng.Intn(5) == 0 {
			st := p.del(cfg.bucket, strings.ReplaceAll(k, " ", "%20"))
			desc = append(desc, fmt.Sprintf("DELETE %s -> %d", k, st))
			if st == 204 {
				delete(want, k)
			}
			continue
		}
		body := c.randBytes(1 + c.Rng.Intn(200))
		hdr := map[string]string{}
		if c.Rng.Intn(2) == 0 {
			hdr["Content-Type"] = []string{"text/x-verif", "application/json"}[c.Rng.Intn(2)]
		}
		if c.Rng.Intn(2) == 0 {
			hdr["X-Amz-Meta-Colour"] = fmt.Sprintf("c%d", i)
		}
		st := p.put(cfg.bucket, strings.ReplaceAll(k, " ", "%20"), body, hdr)
		desc = append(desc, fmt.Sprintf("PUT %s (%d bytes, headers %v) -> %d", k, len(body), hdr, st))
		if st == 200 {
			want[k] = p.get(cfg.bucket, strings.ReplaceAll(k, " ", "%20"))
			c.R.Evaluations++
			if o := want[k]; o.status != 200 || o.body != string(body) || o.etag != md5hex(body) {
				c.mismatch(Mismatch{Kind: "spec", Backend: cfg.kind, Case: desc, Impl: o.String(), Spec: "the acknowledged object: 200, the bytes, md5 " + md5hex(body), Finger: "c15:binary:read-your-write"})
				p.kill()
				return
			}
			for hk, hv := range hdr {
				if !strings.Contains(want[k].meta, hk+"="+hv) {
					c.mismatch(Mismatch{Kind: "spec", Backend: cfg.kind, Case: desc, Impl: want[k].String(), Spec: "header " + hk + "=" + hv + " returned", Finger: "c15:binary:read-your-write"})
					p.kill()
					return
				}
			}
		}
	}
	_, keysBefore := p.list(cfg.bucket)
	// the process is killed while idle: everything above was acknowledged
	p.kill()
	desc = append(desc, "kill -9 (idle)", "start a new process with the same flags")
	p2, err := startServer(bin, args)
	if err != nil {
		c.mismatch(Mismatch{Kind: "spec", Backend: cfg.kind, Case: desc, Impl: err.Error(), Spec: "the store opens", Finger: "c15:binary:reopen-failed"})
		return
	}
	defer p2.kill()
	c.R.Evaluations++
	st, keysAfter := p2.list(cfg.bucket)
	if st != 200 || strings.Join(keysBefore, ",") != strings.Join(keysAfter, ",") {
		c.mismatch(Mismatch{Kind: "spec", Backend: cfg.kind, Case: desc, Impl: fmt.Sprintf("listing %d %v", st, keysAfter), Spec: fmt.Sprintf("listing 200 %v", keysBefore), Finger: "c15:binary:listing-after-restart"})
		return
	}
	var ks []string
	for k := range want {
		ks = append(ks, k)
	}
	sort.Strings(ks)
	for _, k := range ks {
		got := p2.get(cfg.bucket, strings.ReplaceAll(k, " ", "%20"))
		c.R.Evaluations++
		if got != want[k] {
			fp := "c15:binary:object-after-restart"
			if got.status == 200 && got.body == want[k].body && got.etag == want[k].etag {
				fp = "c15:binary:metadata-after-restart"
			}
			c.mismatch(Mismatch{Kind: "spec", Backend: cfg.kind, Case: desc, Impl: k + ": " + got.String(), Spec: k + ": " + want[k].String(), Finger: fp})
			return
		}
	}
	c.nontrivial(fmt.Sprintf("binary|%s|%d|%d", cfg.kind, variant, len(want)))
	c.hist("binary-restart:" + cfg.kind)
}
