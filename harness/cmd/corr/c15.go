package main

import (
	"bytes"
	"fmt"
	"os"
	"path/filepath"
	"sort"
	"strings"

	"github.com/johannesboyne/gofakes3"
	"github.com/johannesboyne/gofakes3/backend/s3afero"
	"github.com/spf13/afero"

	"verifharness/internal/faultfs"
	"verifharness/internal/impl"
)

func init() { props["C15"] = runC15 }

func runC15(c *Ctx) {
	nSeq := 25
	if c.Thorough() {
		nSeq = 300
	}
	c.R.Rule = fmt.Sprintf("(a) %d random histories per persistent instance (bolt file, multi- and single-bucket fs on a real directory and on a retained MemMapFs) over the alphabet of C02 with 'close the server and start a new one on the same storage' inserted at random points and at the end; every answer after a reopen is compared with the Lean model (for which reopen keeps buckets/objects and forgets pending uploads) and the reference model; (b) crash points, in process: for every operation of a fixed history (first put, nested put, overwrite, larger overwrite, delete, multi-delete, copy) and every k, the k-th mutating filesystem call of the operation is cut (a write stores half of its buffer, later calls fail), a new server is started on the storage, and the specification is evaluated: every write acknowledged before the cut is intact, the operation in flight is wholly present or wholly absent, and every GET and listing answers without a 5xx; the number of crash points per operation is recorded; (c) the real server binary built from cmd/gofakes3 and run as a process on loopback for bolt, fs (with and without -fs.meta) and directfs (with -directfs.meta, default and custom bucket): a random put/overwrite/delete history with Content-Type and user metadata over HTTP, kill -9 while idle, a new process with the same flags: the same listing and for every acknowledged key the same status, bytes, ETag and metadata; (d) bolt with fsync on: while a key is overwritten in a loop (PUT, copy onto it, multipart complete onto it) a second goroutine keeps taking snapshots of the committed database (what a process killed at that moment restarts from); a new server on every snapshot must show the untouched key intact and the key in flight with the complete body, ETag and metadata of one upload between the last acknowledged and the last started; (e) every constructor configuration of the fs backends (MultiFsFlags none/FsPathCreate/FsPathCreateAll, separate metadata storage or not): the backend is constructed a second and a third time on the same storage with the same configuration and reads back what the first wrote; the operations of (b) that the disk-level model (Lean Model/FsDisk) speaks about — uploads and deletes of one key — are additionally compared with it cut by cut: status, bytes, ETag and the operation header read after the restart equal the model's; non-trivial = distinct (instance, operation, crash point)", nSeq)
	// (a) reopen
	for _, kind := range c.kinds([]string{"bolt", "fsM-dir", "fsS-dir", "fsM-mem", "fsS-mem"}) {
		for s := 0; s < nSeq; s++ {
			c15Reopen(c, kind)
		}
	}
	// (b) crash points
	for _, kind := range c.kinds([]string{"fsM-mem", "fsS-mem", "fsM-dir", "fsS-dir"}) {
		c15Crash(c, kind)
	}
	// (e) configurations: the constructor options of the fs backends, second start on the same storage
	for _, kind := range c.kinds([]string{"fsM-mem", "fsM-dir", "fsS-mem", "fsS-dir"}) {
		c15Options(c, kind)
	}
	// (d) bolt: snapshots of the committed database while a key is being overwritten
	if c.Only == "" || c.Only == "bolt" {
		c15BoltCommitted(c)
	}
	// (c) the real server binary
	if c.Only == "" || c.Only == "bolt" || strings.HasSuffix(c.Only, "-dir") {
		bin, err := buildServerBinary(c.Tmp)
		if err != nil {
			c.mismatch(Mismatch{Kind: "model", Backend: "bolt", Finger: "c15:binary:build", Impl: err.Error()})
			return
		}
		defer os.Remove(bin)
		nBin := 2
		if c.Thorough() {
			nBin = 12
		}
		for _, cfg := range binCfgs {
			if c.Only != "" && c.Only != cfg.kind {
				continue
			}
			for v := 0; v < nBin; v++ {
				c15Binary(c, bin, cfg, v)
			}
		}
	}
}

func c15Reopen(c *Ctx, kind string) {
	inst, err := impl.New(kind, c.Tmp)
	if err != nil {
		c.mismatch(Mismatch{Kind: "model", Backend: kind, Finger: "setup", Impl: err.Error()})
		return
	}
	defer inst.Close()
	r := newRunner(c, inst, false, false, false)
	buckets := []string{"bk1", "bk2"}
	if inst.IsSingle() {
		buckets = []string{impl.SingleBucketName}
		r.tell("mkbucket " + hx(impl.SingleBucketName))
	}
	// incl. keys named like what the backends keep for themselves
	keys := []string{"x", "d/e", "d/f/g", "d-e", "h/i", ".modtime-resolution", "metadata", "buckets/x", "_meta", "bucket/bk1"}
	dead := false
	step := func(line, obs, finger string) {
		if dead {
			return
		}
		before := c.NMism
		r.judgeProj(line, obs, "c15:"+finger, ident, specProjC02)
		if c.NMism > before {
			dead = true
		}
	}
	reopens := 0
	var trace []string
	n := 5 + c.Rng.Intn(30)
	afterReopen := false
	for i := 0; i < n && !dead; i++ {
		b := buckets[c.Rng.Intn(len(buckets))]
		k := keys[c.Rng.Intn(len(keys))]
		f := ""
		if afterReopen {
			f = "after-reopen:"
		}
		switch x := c.Rng.Intn(16); {
		case x < 2:
			if !inst.IsSingle() {
				l, o := r.MkBucket(b)
				step(l, o, f+"createBucket")
			}
		case x < 3:
			if !inst.IsSingle() {
				l, o := r.RmBucket(b, false)
				step(l, o, f+"deleteBucket")
			}
		case x < 7:
			md := map[string]string{}
			if c.Rng.Intn(2) == 0 {
				md["X-Amz-Meta-P"] = fmt.Sprint("p", i)
				md["Content-Type"] = "text/x-c15"
			}
			l, o := r.Put(b, k, md, c.randBytes(c.Rng.Intn(40)))
			step(l, o, f+"put")
		case x < 9:
			l, o := r.Get(b, k)
			step(l, o, f+"get")
		case x < 10:
			l, o := r.Head(b, k)
			step(l, o, f+"head")
		case x < 11:
			l, o := r.Del(b, k)
			step(l, o, f+"delete")
		case x < 12:
			l, o := r.Copy(b, k, b, keys[c.Rng.Intn(len(keys))], nil)
			step(l, o, f+"copy")
		case x < 13:
			line, lo := r.List(ListReq{Bucket: b, ClampedMaxKeys: 1000})
			if !dead {
				before := c.NMism
				r.judgeProj(line, lo.Obs, "c15:"+f+"list", ident, listProj)
				dead = c.NMism > before
			}
		case x < 14:
			if !inst.IsSingle() {
				l, o := r.Buckets()
				step(l, o, f+"listBuckets")
			}
		default:
			if err := inst.Reopen(); err != nil {
				c.mismatch(Mismatch{Kind: "spec", Backend: kind, Case: append([]string{}, r.Lines...), Impl: "reopen failed: " + err.Error(), Spec: "the store opens", Finger: "c15:reopen-failed"})
				return
			}
			reopens++
			afterReopen = true
			trace = append(trace, "reopen")
			continue
		}
		trace = append(trace, r.Lines[len(r.Lines)-1][:min(len(r.Lines[len(r.Lines)-1]), 24)])
	}
	if dead {
		return
	}
	// final restart, then everything is read back
	if err := inst.Reopen(); err != nil {
		c.mismatch(Mismatch{Kind: "spec", Backend: kind, Case: append([]string{}, r.Lines...), Impl: "reopen failed: " + err.Error(), Spec: "the store opens", Finger: "c15:reopen-failed"})
		return
	}
	if !inst.IsSingle() {
		l, o := r.Buckets()
		step(l, o, "after-reopen:listBuckets")
	}
	for _, b := range buckets {
		line, lo := r.List(ListReq{Bucket: b, ClampedMaxKeys: 1000})
		if !dead {
			before := c.NMism
			r.judgeProj(line, lo.Obs, "c15:after-reopen:list", ident, listProj)
			dead = c.NMism > before
		}
		for _, k := range keys {
			l, o := r.Get(b, k)
			step(l, o, "after-reopen:get")
			l, o = r.Head(b, k)
			step(l, o, "after-reopen:head")
		}
	}
	c.nontrivial(kind + "|" + strings.Join(trace, ";"))
	c.hist(fmt.Sprintf("reopen-histories:%s", kind))
	if len(c.R.Samples) < 3 {
		c.sample(kind + ": " + trunc(strings.Join(trace, " ; "), 300) + " ; reopen ; read everything back")
	}
}

// ---------------------------------------------------------------------------
// crash points

type crashOp struct {
	name string
	keys []string // keys the operation writes or deletes
	run  func(h *crashHarness) int
	// operations the disk-level model (Lean Model/FsDisk) speaks about: "put" / "del" on one key
	kind string
	body []byte
}

type crashHarness struct {
	kind   string
	base   afero.Fs // the storage that survives the crash
	meta   afero.Fs // single-bucket: the metadata storage
	ffs    *faultfs.Fs
	fmeta  *faultfs.Fs
	inst   *impl.Instance
	bucket string
	dir    string
}

func (h *crashHarness) open(withFaults bool) error {
	var fs, mfs afero.Fs = h.base, h.meta
	h.ffs, h.fmeta = nil, nil
	if withFaults {
		h.ffs = faultfs.New(h.base)
		fs = h.ffs
		if h.meta != nil {
			h.fmeta = faultfs.New(h.meta)
			// one process: the two wrappers share the crash
			h.ffs.Peer, h.fmeta.Peer = h.fmeta, h.ffs
			mfs = h.fmeta
		}
	}
	var backend gofakes3.Backend
	var err error
	if strings.HasPrefix(h.kind, "fsM") {
		backend, err = s3afero.MultiBucket(fs)
	} else {
		backend, err = s3afero.SingleBucket(h.bucket, fs, mfs)
	}
	if err != nil {
		return err
	}
	g := gofakes3.New(backend, gofakes3.WithTimeSkewLimit(0))
	h.inst = &impl.Instance{Kind: h.kind, Backend: backend, G: g, H: g.Server()}
	return nil
}

func (h *crashHarness) put(key string, body []byte) int { return h.putTag(key, body, "") }

// putTag: every upload of the crash scenario carries a header naming the operation, so that the
// headers of the old and of the new object differ
func (h *crashHarness) putTag(key string, body []byte, tag string) int {
	r := h.inst.Do(impl.Req{Method: "PUT", Path: "/" + h.bucket + "/" + key, Body: bytes.NewReader(body), Header: map[string]string{"X-Amz-Meta-K": key + ":" + tag}})
	return r.Status
}

// getFull: status, body, the operation header and the ETag
func (h *crashHarness) getFull(key string) (int, []byte, string, string) {
	r := h.inst.Do(impl.Req{Method: "GET", Path: "/" + h.bucket + "/" + key})
	if r.Panic != "" {
		return 599, nil, "panic", ""
	}
	return r.Status, r.Body, r.Header.Get("X-Amz-Meta-K"), strings.Trim(r.Header.Get("ETag"), `"`)
}

// diskCut names the state of the disk-level model (Model/FsDisk PutCut / DelCut) the storage is
// in after the operation on `key` was cut: which of its calls completed is read off the logs of
// the crash-point file systems (the last entry of a dead one is the call that was cut).
func (h *crashHarness) diskCut(kind, key string, bodyLen int) string {
	isObj := func(name string) bool {
		name = filepath.ToSlash(name)
		return name == key || strings.HasSuffix(name, "/"+h.bucket+"/"+key) || name == h.bucket+"/"+key
	}
	isMeta := func(name string) bool {
		name = filepath.ToSlash(name)
		flat := strings.NewReplacer("/", "_", "\\", "_").Replace(key)
		base := name[strings.LastIndex(name, "/")+1:]
		return strings.HasPrefix(base, flat+"-") && !isObj(name)
	}
	type call struct {
		verb, name string
		cut, meta  bool
	}
	var calls []call
	add := func(f *faultfs.Fs, meta bool) {
		if f == nil {
			return
		}
		for i, e := range f.Log {
			p := strings.SplitN(e, " ", 2)
			if len(p) != 2 {
				continue
			}
			calls = append(calls, call{p[0], p[1], f.Crashed && i == len(f.Log)-1, meta})
		}
	}
	add(h.ffs, false)
	add(h.fmeta, true)
	done := func(verb string, pred func(string) bool) bool {
		for _, c := range calls {
			if !c.cut && c.verb == verb && pred(c.name) {
				return true
			}
		}
		return false
	}
	cutIs := func(verb string, pred func(string) bool) bool {
		for _, c := range calls {
			if c.cut && c.verb == verb && pred(c.name) {
				return true
			}
		}
		return false
	}
	if kind == "del" {
		switch {
		case !done("remove", isObj):
			return "beforeRemove"
		case !done("remove", isMeta):
			return "afterRemove"
		}
		return "done"
	}
	switch {
	case cutIs("write", isObj):
		return fmt.Sprintf("midWrite:%d", bodyLen/2)
	case done("write", isObj):
		if cutIs("write", isMeta) {
			return "metaTruncated"
		}
		if done("write", isMeta) {
			return "done"
		}
		return "afterWrite"
	case done("create", isObj):
		return "afterCreate"
	}
	return "beforeCreate"
}

func (h *crashHarness) get(key string) (int, []byte, string) {
	r := h.inst.Do(impl.Req{Method: "GET", Path: "/" + h.bucket + "/" + key})
	if r.Panic != "" {
		return 599, nil, "panic"
	}
	return r.Status, r.Body, r.Header.Get("ETag")
}

// getMeta: status, body and the user metadata header every upload of the crash scenario sends
func (h *crashHarness) getMeta(key string) (int, []byte, string) {
	r := h.inst.Do(impl.Req{Method: "GET", Path: "/" + h.bucket + "/" + key})
	if r.Panic != "" {
		return 599, nil, "panic"
	}
	return r.Status, r.Body, r.Header.Get("X-Amz-Meta-K")
}

func newCrashHarness(c *Ctx, kind string) (*crashHarness, error) {
	h := &crashHarness{kind: kind, bucket: impl.SingleBucketName}
	if strings.HasSuffix(kind, "-mem") {
		h.base = afero.NewMemMapFs()
		if strings.HasPrefix(kind, "fsS") {
			h.meta = afero.NewMemMapFs()
		}
	} else {
		dir, err := os.MkdirTemp(c.Tmp, "crash-"+kind+"-")
		if err != nil {
			return nil, err
		}
		h.dir = dir
		os.MkdirAll(filepath.Join(dir, "data"), 0755)
		h.base = afero.NewBasePathFs(afero.NewOsFs(), filepath.Join(dir, "data"))
		if strings.HasPrefix(kind, "fsS") {
			os.MkdirAll(filepath.Join(dir, "meta"), 0755)
			h.meta = afero.NewBasePathFs(afero.NewOsFs(), filepath.Join(dir, "meta"))
		}
	}
	return h, nil
}

func c15Crash(c *Ctx, kind string) {
	big := bytes.Repeat([]byte("0123456789abcdef"), 5000) // 80 kB: more than one copy buffer
	ops := []crashOp{
		{name: "put-first", keys: []string{"a"}, kind: "put", body: []byte("first-a")},
		{name: "put-nested", keys: []string{"b/c"}, kind: "put", body: []byte("nested")},
		{name: "overwrite", keys: []string{"a"}, kind: "put", body: []byte("second-version-of-a")},
		{name: "overwrite-big", keys: []string{"a"}, kind: "put", body: big},
		{name: "overwrite-empty", keys: []string{"a"}, kind: "put", body: nil},
		{name: "overwrite-one-byte", keys: []string{"a"}, kind: "put", body: []byte("x")},
		{name: "overwrite-same-size", keys: []string{"a"}, kind: "put", body: []byte("y")},
		{name: "delete", keys: []string{"b/c"}, kind: "del", run: func(h *crashHarness) int {
			return h.inst.Do(impl.Req{Method: "DELETE", Path: "/" + h.bucket + "/b/c"}).Status
		}},
		{name: "put-again", keys: []string{"b/c"}, kind: "put", body: []byte("again")},
		{name: "copy", keys: []string{"d"}, run: func(h *crashHarness) int {
			return h.inst.Do(impl.Req{Method: "PUT", Path: "/" + h.bucket + "/d", Header: map[string]string{"X-Amz-Copy-Source": "/" + h.bucket + "/a"}}).Status
		}},
		{name: "multi-delete", keys: []string{"a", "d"}, run: func(h *crashHarness) int {
			return h.inst.Do(impl.Req{Method: "POST", Path: "/" + h.bucket, Query: "delete", Body: bytes.NewReader([]byte("<Delete><Object><Key>a</Key></Object><Object><Key>d</Key></Object></Delete>"))}).Status
		}},
	}
	for i := range ops {
		if ops[i].kind == "put" {
			op := ops[i]
			ops[i].run = func(h *crashHarness) int { return h.putTag(op.keys[0], op.body, op.name) }
		}
	}
	allKeys := []string{"a", "b/c", "d"}
	type kv struct {
		st   int
		body string
		meta string
		etag string
	}
	hexOr := func(s string) string {
		if s == "" {
			return "-"
		}
		return hx(s)
	}
	mdLine := func(v string) string {
		if v == "" {
			return "-"
		}
		return hx("X-Amz-Meta-K") + "=" + hx(v)
	}
	observe := func(h *crashHarness) (map[string]kv, string) {
		out := map[string]kv{}
		for _, k := range allKeys {
			st, body, md, etag := h.getFull(k)
			out[k] = kv{st, string(body), md, etag}
		}
		lr := h.inst.Do(impl.Req{Method: "GET", Path: "/" + h.bucket})
		listing := fmt.Sprint(lr.Status)
		if lr.Panic != "" {
			listing = "panic"
		}
		return out, listing
	}
	replay := func(upto int) (*crashHarness, error) {
		h, err := newCrashHarness(c, kind)
		if err != nil {
			return nil, err
		}
		if err := h.open(false); err != nil {
			return nil, err
		}
		if strings.HasPrefix(kind, "fsM") {
			h.inst.Do(impl.Req{Method: "PUT", Path: "/" + h.bucket})
		}
		for i := 0; i < upto; i++ {
			ops[i].run(h)
		}
		return h, nil
	}
	for i, op := range ops {
		// how many mutating calls does the operation make?
		h, err := replay(i)
		if err != nil {
			c.mismatch(Mismatch{Kind: "model", Backend: kind, Finger: "setup", Impl: err.Error()})
			return
		}
		before, _ := observe(h)
		h.open(true)
		status := op.run(h)
		nCalls := h.ffs.Count
		objCalls[kind+"|"+op.name] = h.ffs.Count
		if h.fmeta != nil {
			nCalls += h.fmeta.Count
		}
		h.open(false)
		after, _ := observe(h)
		if h.dir != "" {
			os.RemoveAll(h.dir)
		}
		c.hist(fmt.Sprintf("crash-points:%s:%s=%d", kind, op.name, nCalls))
		if status >= 300 {
			c.mismatch(Mismatch{Kind: "model", Backend: kind, Finger: "c15:crash-setup", Impl: fmt.Sprintf("%s answered %d without faults", op.name, status)})
			continue
		}
		touched := map[string]bool{}
		for _, k := range op.keys {
			touched[k] = true
		}
		for k := 0; k < nCalls; k++ {
			h, err := replay(i)
			if err != nil {
				return
			}
			h.open(true)
			// the crash counter is shared between the object and the metadata storage in call order:
			// approximate by cutting the object storage first, then the metadata storage
			if k < countObj(h, op) {
				h.ffs.CrashAt = k
			} else if h.fmeta != nil {
				h.fmeta.CrashAt = k - countObj(h, op)
			} else {
				h.ffs.CrashAt = k
			}
			st := op.run(h)
			cutName := ""
			if op.kind != "" {
				cutName = h.diskCut(op.kind, op.keys[0], len(op.body))
			}
			var logTail string
			if n := len(h.ffs.Log); n > 0 {
				logTail = h.ffs.Log[n-1]
			}
			// restart on the storage
			if err := h.open(false); err != nil {
				c.mismatch(Mismatch{Kind: "spec", Backend: kind, Case: []string{fmt.Sprintf("%s cut at filesystem call %d (%s)", op.name, k, logTail)}, Impl: "the store does not open: " + err.Error(), Spec: "the store opens", Finger: "c15:crash:store-does-not-open"})
				continue
			}
			got, listing := observe(h)
			c.R.Evaluations++
			desc := fmt.Sprintf("%s cut at filesystem call %d of %d (%s); the request answered %d", op.name, k, nCalls, logTail, st)
			if op.kind != "" {
				// the disk-level model: exactly what a server started on this storage reads for the key
				key := op.keys[0]
				oldB, oldMd := "~", "-"
				if before[key].st == 200 {
					oldB, oldMd = hexOr(before[key].body), mdLine(before[key].meta)
				}
				line := fmt.Sprintf("diskcut %s %s %s %s %s %s", op.kind, cutName, oldB, oldMd, hexOr(string(op.body)), mdLine(key+":"+op.name))
				model, _, err := c.D.Ask(line)
				if err != nil {
					panic(err)
				}
				g := got[key]
				obs := fmt.Sprintf("status %d", g.st)
				if g.st == 200 {
					obs = fmt.Sprintf("obj %s %s meta=%s", hexOr(g.body), g.etag, mdLine(g.meta))
				} else if g.st == 404 {
					obs = "err NoSuchKey"
				}
				c.R.Evaluations++
				c.hist("disk-model-cuts:" + op.kind + ":" + strings.SplitN(cutName, ":", 2)[0])
				if obs != model {
					c.mismatch(Mismatch{Kind: "model", Backend: kind, Case: []string{desc, line}, Impl: trunc(obs, 160), Model: trunc(model, 160),
						Spec: "the disk-level model of the fs backends (Model/FsDisk, Props/C15D.crash_put_outcomes) describes what is read after the cut", Finger: "c15:crash:outside-disk-model:" + op.kind})
				}
			}
			viol := ""
			fp := ""
			for _, key := range allKeys {
				g := got[key]
				if g.st >= 500 {
					viol, fp = fmt.Sprintf("GET %s answers %d after restart", key, g.st), "c15:crash:5xx-after-restart"
					break
				}
				if !touched[key] {
					if g != before[key] {
						viol, fp = fmt.Sprintf("acknowledged %s changed: %d %q -> %d %q", key, before[key].st, trunc(before[key].body, 30), g.st, trunc(g.body, 30)), "c15:crash:acknowledged-write-lost"
						break
					}
				} else if g != before[key] && g != after[key] {
					viol, fp = fmt.Sprintf("in-flight %s is neither the old (%d %q meta %q) nor the new (%d %q meta %q) state: %d %q meta %q", key, before[key].st, trunc(before[key].body, 24), before[key].meta, after[key].st, trunc(after[key].body, 24), after[key].meta, g.st, trunc(g.body, 24), g.meta), "c15:crash:in-flight-torn"
					if strings.Contains(op.name, "delete") {
						// a delete has no new bytes to tear: anything but "still there, whole" / "gone" is its own failure
						fp = "c15:crash:delete-torn"
					}
					break
				}
			}
			if viol == "" && listing != "200" {
				viol, fp = "listing answers "+listing+" after restart", "c15:crash:5xx-after-restart"
			}
			if viol != "" {
				c.mismatch(Mismatch{Kind: "spec", Backend: kind, Case: []string{desc}, Impl: viol, Spec: "acknowledged writes intact; in-flight wholly present or absent; no 5xx", Finger: fp})
			}
			c.nontrivial(fmt.Sprintf("%s|%s|%d", kind, op.name, k))
			if h.dir != "" {
				os.RemoveAll(h.dir)
			}
		}
	}
	_ = sort.Strings
}

// countObj: number of mutating calls the operation makes on the object storage (the rest go to
// the separate metadata storage of the single-bucket backend)
func countObj(h *crashHarness, op crashOp) int {
	if h.fmeta == nil {
		return 1 << 30
	}
	return objCalls[h.kind+"|"+op.name]
}

var objCalls = map[string]int{}

// c15Options: every constructor configuration of an fs backend opens the storage it created, again and again.
func c15Options(c *Ctx, kind string) {
	type cfg struct {
		name string
		mk   func(base, meta afero.Fs) (gofakes3.Backend, error)
	}
	var cfgs []cfg
	if strings.HasPrefix(kind, "fsM") {
		for _, f := range []struct {
			name  string
			flags s3afero.FsFlags
			set   bool
		}{{"default", 0, false}, {"MultiFsFlags(0)", 0, true}, {"MultiFsFlags(FsPathCreate)", s3afero.FsPathCreate, true}, {"MultiFsFlags(FsPathCreateAll)", s3afero.FsPathCreateAll, true}, {"MultiFsFlags(FsPathCreate|FsPathCreateAll)", s3afero.FsPathCreate | s3afero.FsPathCreateAll, true}} {
			f := f
			cfgs = append(cfgs, cfg{f.name, func(base, meta afero.Fs) (gofakes3.Backend, error) {
				if !f.set {
					return s3afero.MultiBucket(base)
				}
				return s3afero.MultiBucket(base, s3afero.MultiFsFlags(f.flags))
			}})
			if strings.HasSuffix(kind, "-mem") {
				cfgs = append(cfgs, cfg{f.name + "+MultiWithMetaFs", func(base, meta afero.Fs) (gofakes3.Backend, error) {
					if !f.set {
						return s3afero.MultiBucket(base, s3afero.MultiWithMetaFs(meta))
					}
					return s3afero.MultiBucket(base, s3afero.MultiFsFlags(f.flags), s3afero.MultiWithMetaFs(meta))
				}})
			}
		}
	} else {
		cfgs = append(cfgs, cfg{"SingleBucket", func(base, meta afero.Fs) (gofakes3.Backend, error) {
			return s3afero.SingleBucket(impl.SingleBucketName, base, meta)
		}})
	}
	for _, cf := range cfgs {
		h, err := newCrashHarness(c, kind)
		if err != nil {
			return
		}
		if h.meta == nil {
			h.meta = afero.NewMemMapFs()
		}
		var first string
		for start := 0; start < 3; start++ {
			c.R.Evaluations++
			backend, err := cf.mk(h.base, h.meta)
			if err != nil {
				c.mismatch(Mismatch{Kind: "spec", Backend: kind, Case: []string{fmt.Sprintf("%s: start %d on the same storage", cf.name, start+1)}, Impl: "the store does not open: " + err.Error(), Spec: "the store opens", Finger: "c15:options:store-does-not-open"})
				break
			}
			g := gofakes3.New(backend, gofakes3.WithTimeSkewLimit(0))
			h.inst = &impl.Instance{Kind: kind, Backend: backend, G: g, H: g.Server()}
			if start == 0 {
				if strings.HasPrefix(kind, "fsM") {
					h.inst.Do(impl.Req{Method: "PUT", Path: "/" + h.bucket})
				}
				h.putTag("a", []byte("first-a"), "options")
				h.putTag("dir/b", []byte("nested-b"), "options")
			}
			var obs []string
			for _, k := range []string{"a", "dir/b", "absent"} {
				st, body, md, etag := h.getFull(k)
				obs = append(obs, fmt.Sprintf("%s: %d %q %s %s", k, st, body, md, etag))
			}
			lr := h.inst.Do(impl.Req{Method: "GET", Path: "/" + h.bucket})
			obs = append(obs, fmt.Sprintf("list: %d %s", lr.Status, strings.Join(allBetween(string(lr.Body), "<Key>", "</Key>"), ",")))
			now := strings.Join(obs, " ; ")
			if start == 0 {
				first = now
				if !strings.Contains(now, `a: 200 "first-a"`) {
					c.mismatch(Mismatch{Kind: "model", Backend: kind, Case: []string{cf.name}, Impl: now, Finger: "c15:options:setup"})
					break
				}
			} else if now != first {
				c.mismatch(Mismatch{Kind: "spec", Backend: kind, Case: []string{fmt.Sprintf("%s: start %d on the same storage", cf.name, start+1)}, Impl: now, Spec: first, Finger: "c15:options:state-differs-after-restart"})
				break
			}
			c.nontrivial(fmt.Sprintf("%s|options|%s|%d", kind, cf.name, start))
		}
		c.hist("options-restarts:" + kind)
		if h.dir != "" {
			os.RemoveAll(h.dir)
		}
	}
}

func allBetween(s, a, b string) []string {
	var out []string
	for {
		i := strings.Index(s, a)
		if i < 0 {
			return out
		}
		s = s[i+len(a):]
		j := strings.Index(s, b)
		if j < 0 {
			return out
		}
		out = append(out, s[:j])
		s = s[j+len(b):]
	}
}
