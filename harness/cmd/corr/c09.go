package main

import (
	"bytes"
	"os"
	"encoding/base64"
	"encoding/xml"
	"fmt"
	"io"
	"mime/multipart"
	"net/url"
	"regexp"
	"strings"

	"github.com/johannesboyne/gofakes3"

	"verifharness/internal/impl"
)

func init() { props["C09"] = runC09 }

type c09State struct {
	bucket    string
	keys      []string
	versionID string // a real version id, if any
	uploadID  string // a pending upload id, if any
	hostStyle bool   // the multipart canary addresses the bucket through the Host header
	mpInst    *impl.Instance
}

// prepare brings the store into one of the reachable state classes
func c09Prepare(c *Ctx, inst *impl.Instance, r *Runner, class string) c09State {
	st := c09State{bucket: "bk1"}
	if inst.IsSingle() {
		st.bucket = impl.SingleBucketName
	} else {
		inst.Do(impl.Req{Method: "PUT", Path: "/bk1"})
		inst.Do(impl.Req{Method: "PUT", Path: "/bk2"})
	}
	if class == "empty" {
		return st
	}
	put := func(k, body string) {
		inst.Do(impl.Req{Method: "PUT", Path: r.path(st.bucket, k), Body: bytes.NewReader([]byte(body))})
		st.keys = append(st.keys, k)
	}
	put("k1", "hello world")
	put("dir/k2", "0123456789")
	put("dir/sub/k3", "")
	if class == "versioned" && inst.Kind == "mem" {
		inst.Do(impl.Req{Method: "PUT", Path: r.path(st.bucket, ""), Query: "versioning", Body: bytes.NewReader([]byte("<VersioningConfiguration><Status>Enabled</Status></VersioningConfiguration>"))})
		put("k1", "second version")
		resp := inst.Do(impl.Req{Method: "PUT", Path: r.path(st.bucket, "k1"), Body: bytes.NewReader([]byte("third version"))})
		st.versionID = resp.Header.Get("X-Amz-Version-Id")
		inst.Do(impl.Req{Method: "DELETE", Path: r.path(st.bucket, "dir/k2")})                                                  // delete marker
		inst.Do(impl.Req{Method: "DELETE", Path: r.path(st.bucket, "k1"), Query: "versionId=" + url.QueryEscape(st.versionID)}) // deleted current version
	}
	if class == "uploads" {
		resp := inst.Do(impl.Req{Method: "POST", Path: r.path(st.bucket, "mp/obj"), Query: "uploads"})
		var d xmlInitiate
		xml.Unmarshal(resp.Body, &d)
		st.uploadID = d.UploadID
		for _, pn := range []string{"1", "3", "7"} {
			inst.Do(impl.Req{Method: "PUT", Path: r.path(st.bucket, "mp/obj"), Query: "uploadId=" + st.uploadID + "&partNumber=" + pn, Body: bytes.NewReader([]byte("part-" + pn))})
		}
		inst.Do(impl.Req{Method: "POST", Path: r.path(st.bucket, "other"), Query: "uploads"})
	}
	return st
}

func pick(c *Ctx, xs []string) string { return xs[c.Rng.Intn(len(xs))] }

var c09Ints = []string{"-9223372036854775808", "-1", "0", "1", "2", "999", "1000", "1001", "10000", "10001", "2147483648", "9223372036854775807", "9223372036854775808", "99999999999999999999", "abc", "", "1.5", "0x10", " 1", "+1"}

// c09NearValid draws a request from the mostly-valid stream: a well-formed S3 operation on the
// prepared state (real keys, the real pending upload, the real version id) with at most one
// deviation (a wrong ETag, a descending or empty part list, an absurd part number, a torn body).
func c09NearValid(c *Ctx, st c09State, hostMode bool) (impl.Req, string) {
	rq := impl.Req{Header: map[string]string{}}
	keys := append([]string{"k1", "dir/k2", "missing", "mp/obj"}, st.keys...)
	k := pick(c, keys)
	q := url.Values{}
	var body []byte
	part := func(n int, etag string) string {
		return fmt.Sprintf("<Part><PartNumber>%d</PartNumber><ETag>%s</ETag></Part>", n, etag)
	}
	e := func(n int) string { return "\"" + etagOf([]byte(fmt.Sprintf("part-%d", n))) + "\"" }
	up := st.uploadID
	if up == "" || c.Rng.Intn(8) == 0 {
		up = pick(c, []string{"99999", "1", "abc"})
	}
	switch c.Rng.Intn(18) {
	case 16, 17:
		rq.Method = "PUT"
		body = c09Chunked(c, rq.Header, c.randBytes(1+c.Rng.Intn(64)))
	case 0:
		rq.Method = "PUT"
		body = c.randBytes(c.Rng.Intn(64))
	case 1:
		rq.Method = "GET"
		if c.Rng.Intn(2) == 0 {
			rq.Header["Range"] = pick(c, c11Boundary)
		}
	case 2:
		rq.Method = pick(c, []string{"HEAD", "DELETE"})
	case 3:
		rq.Method = "PUT"
		rq.Header["X-Amz-Copy-Source"] = "/" + st.bucket + "/" + pick(c, keys)
	case 4:
		rq.Method, k = "GET", ""
		q.Set("prefix", pick(c, []string{"", "dir/", "d"}))
		if c.Rng.Intn(2) == 0 {
			q.Set("delimiter", "/")
		}
		if c.Rng.Intn(2) == 0 {
			q.Set("list-type", "2")
		}
		q.Set("max-keys", pick(c, []string{"1", "2", "1000", "0"}))
	case 5:
		rq.Method, k = "GET", ""
		q.Set("versions", "")
		q.Set("key-marker", pick(c, []string{"", "k1", "dir/k2"}))
	case 6:
		rq.Method = "POST"
		q.Set("uploads", "")
	case 7, 8:
		rq.Method, k = "PUT", "mp/obj"
		q.Set("uploadId", up)
		q.Set("partNumber", pick(c, []string{"1", "2", "3", "5", "10000", "10001", "0", "-1", "x"}))
		body = []byte("part-" + q.Get("partNumber"))
		if c.Rng.Intn(6) == 0 {
			rq.Header["Content-Length"] = "99"
		}
		if c.Rng.Intn(5) == 0 {
			body = c09Chunked(c, rq.Header, body)
		}
	case 9, 10, 11:
		// complete: mostly rejected variants (the pending upload must stay usable afterwards)
		rq.Method, k = "POST", "mp/obj"
		q.Set("uploadId", up)
		var ps string
		switch c.Rng.Intn(9) {
		case 0:
			ps = part(1, e(1)) + part(3, e(3)) + part(7, e(7)) // acceptable when untouched
		case 1:
			ps = part(3, e(3)) + part(1, e(1)) // descending
		case 2:
			ps = part(1, e(1)) + part(2, e(2)) // never uploaded
		case 3:
			ps = part(1, "\"00000000000000000000000000000000\"") // wrong ETag
		case 4:
			ps = "" // empty list
		case 5:
			ps = part(1, e(1)) + part(1, e(1)) // repeated
		case 6:
			ps = part(1, e(1)) + part(3, e(3)) + part(7, e(7)) + part(9, e(9)) + part(11, e(11)) // more than uploaded
		case 7:
			ps = part(0, e(1)) + part(10001, e(3))
		default:
			ps = part(1, e(1)) + "<Part><PartNumber>3</Part"
		}
		body = []byte("<CompleteMultipartUpload>" + ps + "</CompleteMultipartUpload>")
	case 12:
		rq.Method, k = "GET", "mp/obj"
		q.Set("uploadId", up)
		q.Set("max-parts", pick(c, []string{"1", "2", "1000", "0"}))
		q.Set("part-number-marker", pick(c, []string{"", "0", "1", "3", "9999"}))
	case 13:
		rq.Method, k = "GET", ""
		q.Set("uploads", "")
		q.Set("prefix", pick(c, []string{"", "mp/", "o"}))
	case 14:
		rq.Method, k = "POST", ""
		q.Set("delete", "")
		body = []byte("<Delete><Object><Key>" + pick(c, keys) + "</Key></Object><Object><Key>missing</Key></Object></Delete>")
	default:
		if c.Rng.Intn(4) == 0 {
			rq.Method, k = "DELETE", "mp/obj" // abort (the canary re-creates the pending upload)
			q.Set("uploadId", up)
		} else {
			rq.Method = "GET"
			if st.versionID != "" {
				q.Set("versionId", st.versionID)
			}
		}
	}
	rq.Path = "/" + impl.EscapePath(st.bucket)
	if k != "" {
		rq.Path += "/" + impl.EscapePath(k)
	}
	if hostMode {
		rq.Host = st.bucket + ".s3.test"
		rq.Path = "/" + impl.EscapePath(k)
	}
	rq.Query = q.Encode()
	if body != nil {
		rq.Body = bytes.NewReader(body)
	}
	desc := fmt.Sprintf("%s %s?%s host=%q hdr=%v body=%q", rq.Method, trunc(rq.Path, 60), trunc(rq.Query, 120), rq.Host, hdrDesc(rq.Header), trunc(string(body), 200))
	return rq, desc
}

// c09Chunked frames a payload as an aws-chunked upload whose size fields, separators and declared
// decoded length are mostly slightly wrong (signed, huge, prefixed, missing): the decoder sits in
// front of every upload path and must answer with an error, never panic
func c09Chunked(c *Ctx, hdr map[string]string, payload []byte) []byte {
	sig := strings.Repeat("a", 64)
	size := fmt.Sprintf("%x", len(payload))
	sep := ";chunk-signature="
	last := "0"
	decoded := fmt.Sprint(len(payload))
	// one deviation at a time (two would mostly be refused for the other reason)
	switch c.Rng.Intn(5) {
	case 0, 1:
		size = pick(c, []string{"-1", fmt.Sprintf("-%x", len(payload)+1), fmt.Sprintf("-%x", len(payload)), "ffffffffffffffff", "7fffffffffffffff", "8000000000000000",
			"+" + size, "0x" + size, "", fmt.Sprintf("%x", len(payload)+3), "-0", "-7fffffffffffffff", "-8000000000000000"})
	case 2:
		sep = pick(c, []string{";", ";chunk-signature", "", ";chunk-signature=" + sig + ";x="})
	case 3:
		decoded = pick(c, []string{"0", "-1", "", "x", fmt.Sprint(len(payload) + 1), fmt.Sprint(len(payload) - 1)})
	case 4:
		last = pick(c, []string{"", "-0", "00", "-1", "1"})
	}
	var b []byte
	b = append(b, []byte(size+sep+sig+"\r\n")...)
	b = append(b, payload...)
	b = append(b, []byte("\r\n")...)
	if last != "" {
		b = append(b, []byte(last+";chunk-signature="+sig+"\r\n\r\n")...)
	}
	hdr["X-Amz-Content-Sha256"] = "STREAMING-AWS4-HMAC-SHA256-PAYLOAD"
	hdr["X-Amz-Decoded-Content-Length"] = decoded
	return b
}

// c09Request draws one request from the grammar of the routed surface.
func c09Request(c *Ctx, st c09State, hostMode bool) (impl.Req, string) {
	if c.Rng.Intn(3) == 0 {
		return c09NearValid(c, st, hostMode)
	}
	methods := []string{"GET", "GET", "GET", "PUT", "PUT", "POST", "DELETE", "HEAD", "PATCH", "OPTIONS", "FOO"}
	keys := append([]string{"k1", "dir/k2", "dir/sub/k3", "missing", "mp/obj", "dir/", "a/../b", "..", ".", "%zz", "k 1", "ü", strings.Repeat("x", 1025), "_meta", "k1/under"}, st.keys...)
	buckets := []string{st.bucket, st.bucket, st.bucket, "bk2", "nosuchbucket", "_meta", ".", "UPPER", "ab", strings.Repeat("b", 70)}
	rq := impl.Req{Method: pick(c, methods), Header: map[string]string{}}
	b := pick(c, buckets)
	k := pick(c, keys)
	shape := c.Rng.Intn(10)
	switch {
	case shape == 0:
		rq.Path = "/"
	case shape <= 3:
		rq.Path = "/" + impl.EscapePath(b)
		if c.Rng.Intn(3) == 0 {
			rq.Path += "/"
		}
	default:
		rq.Path = "/" + impl.EscapePath(b) + "/" + impl.EscapePath(k)
		if k == "%zz" {
			rq.Path = "/" + impl.EscapePath(b) + "/%zz"
		}
	}
	if hostMode {
		rq.Host = b + ".s3.test"
		if shape > 3 {
			rq.Path = "/" + impl.EscapePath(k)
		} else {
			rq.Path = "/"
		}
	}
	// sub-resources and parameters
	q := url.Values{}
	nq := c.Rng.Intn(4)
	if c.Rng.Intn(3) == 0 {
		nq = 0
	}
	vid := st.versionID
	for i := 0; i < nq; i++ {
		switch c.Rng.Intn(22) {
		case 0:
			q.Set("uploads", "")
		case 1:
			q.Set("uploadId", pick(c, []string{st.uploadID, st.uploadID, "99999", "", "abc", "-1", "0"}))
		case 2:
			q.Set("partNumber", pick(c, c09Ints))
		case 3:
			q.Set("versioning", "")
		case 4:
			q.Set("versions", "")
		case 5:
			q.Set("versionId", pick(c, []string{vid, vid, "null", "", "junk", "3/AAAA", "3/" + strings.Repeat("0", 80)}))
		case 6:
			q.Set("delete", "")
		case 7:
			q.Set("location", "")
		case 8:
			q.Set("list-type", pick(c, []string{"2", "1", "x"}))
		case 9:
			q.Set("prefix", pick(c, []string{"", "d", "dir/", "dir/s", "/", "zz", "\xff"}))
		case 10:
			q.Set("delimiter", pick(c, []string{"/", "", "i", "//", "ir"}))
		case 11:
			q.Set("marker", pick(c, []string{"", "a", "dir/k2", "zzzz", "\x00", "dir/"}))
		case 12:
			q.Set("max-keys", pick(c, c09Ints))
		case 13:
			q.Set("continuation-token", pick(c, []string{"", "!!!", base64.URLEncoding.EncodeToString([]byte("dir/k2")), "YQ", "YQ=="}))
		case 14:
			q.Set("start-after", pick(c, []string{"", "dir/k2", "zz"}))
		case 15:
			q.Set("key-marker", pick(c, []string{"", "k1", "dir/k2", "missing", "zz", "a"}))
		case 16:
			q.Set("version-id-marker", pick(c, []string{"", vid, "junk", "null"}))
		case 17:
			q.Set("upload-id-marker", pick(c, []string{"", st.uploadID, "5", "abc"}))
		case 18:
			q.Set("max-uploads", pick(c, c09Ints))
		case 19:
			q.Set("max-parts", pick(c, c09Ints))
		case 20:
			q.Set("part-number-marker", pick(c, c09Ints))
		default:
			q.Set(pick(c, []string{"acl", "tagging", "policy", "unknown", "fetch-owner", "encoding-type"}), pick(c, []string{"", "1", "url"}))
		}
	}
	rq.Query = q.Encode()
	// headers
	if c.Rng.Intn(4) == 0 {
		rq.Header["Range"] = pick(c, c11Boundary)
	}
	if c.Rng.Intn(5) == 0 {
		rq.Header["X-Amz-Copy-Source"] = pick(c, []string{"nokey", "/" + st.bucket + "/k1", st.bucket + "/k1", "/" + st.bucket + "/missing", "/nosuchbucket/k", "/" + st.bucket + "/k1?versionId=x", "/" + st.bucket + "/%zz", "", "/", "//", "/" + st.bucket + "/", "/" + st.bucket + "/dir%2Fk2"})
	}
	if c.Rng.Intn(6) == 0 {
		rq.Header["Content-MD5"] = pick(c, []string{"", "!!", "AAAA", "1B2M2Y8AsgTpgAmY7PhCfg==", "XUFAKrxLKna5cZ2REBfFkg=="})
	}
	if c.Rng.Intn(6) == 0 {
		rq.Header["X-Amz-Content-Sha256"] = "STREAMING-AWS4-HMAC-SHA256-PAYLOAD"
		rq.Header["X-Amz-Decoded-Content-Length"] = pick(c, []string{"-1", "0", "5", "abc", "", "1048576", "-9223372036854775808"})
	}
	if c.Rng.Intn(8) == 0 {
		rq.Header["If-None-Match"] = pick(c, []string{`"5eb63bbbe01eeed093cb22bb8f5acdc3"`, "*", "junk"})
	}
	if c.Rng.Intn(8) == 0 {
		rq.Header["If-Modified-Since"] = pick(c, []string{"junk", "Mon, 02 Jan 2006 15:04:05 GMT", "Thu, 02 Jan 2020 03:04:05 GMT", "Fri, 01 Jan 2100 00:00:00 GMT"})
	}
	if c.Rng.Intn(10) == 0 {
		rq.Header["x-minio-force-delete"] = "true"
	}
	if c.Rng.Intn(8) == 0 {
		rq.Header["X-Amz-Meta-Big"] = strings.Repeat("m", []int{10, 1950, 2100}[c.Rng.Intn(3)])
	}
	// body
	var body []byte
	switch c.Rng.Intn(9) {
	case 0:
		body = nil
	case 1:
		body = c.randBytes(c.Rng.Intn(200))
	case 2:
		body = []byte("<Delete><Object><Key>k1</Key></Object><Object><Key>missing</Key><VersionId>" + vid + "</VersionId></Object></Delete>")
	case 3:
		body = []byte("<CompleteMultipartUpload><Part><PartNumber>" + pick(c, c09Ints) + "</PartNumber><ETag>\"x\"</ETag></Part></CompleteMultipartUpload>")
	case 4:
		body = []byte("<VersioningConfiguration><Status>" + pick(c, []string{"Enabled", "Suspended", "", "Bogus"}) + "</Status><MfaDelete>" + pick(c, []string{"", "Enabled", "Disabled"}) + "</MfaDelete></VersioningConfiguration>")
	case 5:
		body = []byte("<Delete><Object><Key>k1</Key></Obj")
	case 6:
		body = []byte("\xff\xfe<?xml")
	case 7:
		var buf bytes.Buffer
		w := multipart.NewWriter(&buf)
		if c.Rng.Intn(4) != 0 {
			w.WriteField("key", pick(c, []string{"form-key", "", strings.Repeat("k", 1025)}))
		}
		for i := 0; i < c.Rng.Intn(3); i++ {
			fw, _ := w.CreateFormFile("file", "f.bin")
			fw.Write(c.randBytes(10))
		}
		w.Close()
		body = buf.Bytes()
		rq.Header["Content-Type"] = w.FormDataContentType()
	default:
		body = []byte("<CompleteMultipartUpload><Part><PartNumber>1</PartNumber><ETag>\"" + etagOf([]byte("part-1")) + "\"</ETag></Part><Part><PartNumber>3</PartNumber><ETag>" + etagOf([]byte("part-3")) + "</ETag></Part></CompleteMultipartUpload>")
	}
	if body != nil {
		rq.Body = bytes.NewReader(body)
	}
	if c.Rng.Intn(7) == 0 {
		rq.Header["Content-Length"] = pick(c, []string{"-1", "0", "5", "abc", "", "1048576", "+3", " 3"})
	}
	desc := fmt.Sprintf("%s %s?%s host=%q hdr=%v body=%dB", rq.Method, trunc(rq.Path, 60), trunc(rq.Query, 120), rq.Host, hdrDesc(rq.Header), len(body))
	return rq, desc
}

func hdrDesc(h map[string]string) string {
	var s []string
	for k, v := range h {
		s = append(s, k+":"+trunc(v, 30))
	}
	return strings.Join(s, ";")
}

// c09Wellformed: the specification of one answer
func c09Wellformed(c *Ctx, method string, resp impl.Resp) (bool, string) {
	switch {
	case resp.Panic != "":
		return false, "panic: " + trunc(strings.SplitN(resp.Panic, "\n", 2)[0], 120)
	case resp.Hang:
		return false, "hang"
	}
	if resp.Status >= 200 && resp.Status < 300 || resp.Status == 304 {
		return true, ""
	}
	if resp.Status < 300 || resp.Status > 599 {
		return false, fmt.Sprintf("status %d", resp.Status)
	}
	if len(bytes.TrimSpace(resp.Body)) == 0 {
		return true, "" // HEAD, or a bare error status
	}
	code := resp.ErrCode()
	if code == "" {
		return false, fmt.Sprintf("status %d with a body that is not an S3 error document: %q", resp.Status, trunc(string(resp.Body), 60))
	}
	want, _, err := c.D.Ask("status " + code)
	if err != nil {
		panic(err)
	}
	if want != fmt.Sprint(resp.Status) {
		return false, fmt.Sprintf("error code %s answered with status %d, the table says %s", code, resp.Status, want)
	}
	return true, ""
}

// canary: afterwards the server still answers correct requests on this and on another bucket
func c09Canary(c *Ctx, inst *impl.Instance, st *c09State, n int) string {
	bucket := st.bucket
	bs := []string{bucket}
	if !inst.IsSingle() {
		bs = append(bs, "canary-bkt")
		inst.Do(impl.Req{Method: "PUT", Path: "/canary-bkt"})
		inst.Do(impl.Req{Method: "PUT", Path: "/" + bucket})
	}
	if bad := c09MultipartCanary(inst, st, n); bad != "" {
		return bad
	}
	for _, b := range bs {
		key := fmt.Sprintf("canary/%d", n%3)
		body := []byte(fmt.Sprintf("canary-%d", n))
		r := inst.Do(impl.Req{Method: "PUT", Path: "/" + b + "/" + key, Body: bytes.NewReader(body)})
		if r.Status != 200 {
			return fmt.Sprintf("canary PUT %s/%s -> %d %s %s", b, key, r.Status, r.ErrCode(), trunc(r.Panic, 80))
		}
		r = inst.Do(impl.Req{Method: "GET", Path: "/" + b + "/" + key})
		if r.Status != 200 || !bytes.Equal(r.Body, body) {
			return fmt.Sprintf("canary GET %s/%s -> %d %q %s", b, key, r.Status, trunc(string(r.Body), 40), trunc(r.Panic, 80))
		}
		r = inst.Do(impl.Req{Method: "GET", Path: "/" + b, Query: "prefix=canary%2F"})
		if r.Status != 200 || !bytes.Contains(r.Body, []byte(key)) {
			return fmt.Sprintf("canary LIST %s -> %d %s %s", b, r.Status, r.ErrCode(), trunc(r.Panic, 80))
		}
		r = inst.Do(impl.Req{Method: "DELETE", Path: "/" + b + "/" + key})
		if r.Status != 204 {
			return fmt.Sprintf("canary DELETE %s/%s -> %d", b, key, r.Status)
		}
	}
	return ""
}

// c09Styled sends path-style requests as they are, or rewrites them to host style
type c09Styled struct {
	inst  *impl.Instance
	host  string
	strip string
}

func (s *c09Styled) Do(rq impl.Req) impl.Resp {
	if s.host != "" {
		rq.Host = s.host
		rq.Path = strings.TrimPrefix(rq.Path, s.strip)
		if rq.Path == "" {
			rq.Path = "/"
		}
	}
	return s.inst.Do(rq)
}

// the multipart part of the canary: the prepared pending upload (when the state has one) still
// accepts a part and lists its parts, or is gone for a legitimate reason and is re-created; a
// fresh upload on another key can be initiated, fed, completed and read back.
func c09MultipartCanary(inst0 *impl.Instance, st *c09State, n int) string {
	b := "/" + impl.EscapePath(st.bucket)
	inst := &c09Styled{inst: inst0}
	if st.hostStyle {
		// pending uploads live in the gofakes3 instance under test, not in the backend
		inst = &c09Styled{inst: st.mpInst, host: st.bucket + ".s3.test", strip: b}
	}
	mk := func() string {
		resp := inst.Do(impl.Req{Method: "POST", Path: b + "/mp/obj", Query: "uploads"})
		var d xmlInitiate
		xml.Unmarshal(resp.Body, &d)
		if resp.Status != 200 || d.UploadID == "" {
			return ""
		}
		for _, pn := range []string{"1", "3", "7"} {
			inst.Do(impl.Req{Method: "PUT", Path: b + "/mp/obj", Query: "uploadId=" + d.UploadID + "&partNumber=" + pn, Body: bytes.NewReader([]byte("part-" + pn))})
		}
		return d.UploadID
	}
	if st.uploadID != "" {
		r := inst.Do(impl.Req{Method: "PUT", Path: b + "/mp/obj", Query: "uploadId=" + st.uploadID + "&partNumber=9000", Body: bytes.NewReader([]byte("canary-part"))})
		switch {
		case r.Hang || r.Panic != "":
			return fmt.Sprintf("canary UploadPart on the pending upload -> hang=%v %s", r.Hang, trunc(r.Panic, 80))
		case r.Status == 404 && r.ErrCode() == "NoSuchUpload":
			// completed or aborted by the request under test: a new pending upload takes its place
			if st.uploadID = mk(); st.uploadID == "" {
				return "canary: cannot initiate a new multipart upload"
			}
		case r.Status != 200:
			return fmt.Sprintf("canary UploadPart on the pending upload -> %d %s", r.Status, r.ErrCode())
		default:
			r = inst.Do(impl.Req{Method: "GET", Path: b + "/mp/obj", Query: "uploadId=" + st.uploadID})
			if r.Status != 200 || !bytes.Contains(r.Body, []byte("<PartNumber>9000</PartNumber>")) {
				return fmt.Sprintf("canary ListParts on the pending upload -> %d hang=%v %s", r.Status, r.Hang, r.ErrCode())
			}
		}
	}
	if n%4 != 0 {
		return ""
	}
	key := b + "/canary-mp"
	resp := inst.Do(impl.Req{Method: "POST", Path: key, Query: "uploads"})
	var d xmlInitiate
	xml.Unmarshal(resp.Body, &d)
	if resp.Status != 200 || d.UploadID == "" {
		return fmt.Sprintf("canary InitiateMultipartUpload -> %d hang=%v %s", resp.Status, resp.Hang, resp.ErrCode())
	}
	r := inst.Do(impl.Req{Method: "PUT", Path: key, Query: "uploadId=" + d.UploadID + "&partNumber=1", Body: bytes.NewReader([]byte("cp1"))})
	if r.Status != 200 {
		return fmt.Sprintf("canary UploadPart -> %d hang=%v %s", r.Status, r.Hang, r.ErrCode())
	}
	// a rejected complete, then the accepted one
	r = inst.Do(impl.Req{Method: "POST", Path: key, Query: "uploadId=" + d.UploadID, Body: bytes.NewReader([]byte("<CompleteMultipartUpload><Part><PartNumber>1</PartNumber><ETag>\"0\"</ETag></Part></CompleteMultipartUpload>"))})
	if r.Status != 400 {
		return fmt.Sprintf("canary rejected CompleteMultipartUpload -> %d hang=%v %s", r.Status, r.Hang, r.ErrCode())
	}
	r = inst.Do(impl.Req{Method: "POST", Path: key, Query: "uploadId=" + d.UploadID, Body: bytes.NewReader([]byte("<CompleteMultipartUpload><Part><PartNumber>1</PartNumber><ETag>\"" + etagOf([]byte("cp1")) + "\"</ETag></Part></CompleteMultipartUpload>"))})
	if r.Status != 200 {
		return fmt.Sprintf("canary CompleteMultipartUpload -> %d hang=%v %s", r.Status, r.Hang, r.ErrCode())
	}
	r = inst.Do(impl.Req{Method: "GET", Path: key})
	if r.Status != 200 || string(r.Body) != "cp1" {
		return fmt.Sprintf("canary GET of the completed object -> %d %q", r.Status, trunc(string(r.Body), 20))
	}
	r = inst.Do(impl.Req{Method: "DELETE", Path: key})
	if r.Status != 204 {
		return fmt.Sprintf("canary DELETE of the completed object -> %d", r.Status)
	}
	return ""
}

func runC09(c *Ctx) {
	nReq := 1500
	if c.Thorough() {
		nReq = 40000
	}
	c.R.Rule = fmt.Sprintf("%d requests per backend instance drawn from a grammar of the routed surface (methods incl. unknown ones; service/bucket/object paths incl. hostile keys and names; sub-resources uploads, uploadId, partNumber, versioning, versions, versionId, delete, location, list-type, prefix, delimiter, marker, max-keys, continuation-token, start-after, key-marker, version-id-marker, upload-id-marker, max-uploads, max-parts, part-number-marker with absurd numeric and junk values; Range, copy-source, Content-MD5, streaming/decoded-length, conditional, force-delete and oversized metadata headers; empty, random, valid and malformed XML and multipart-form bodies; mismatching Content-Length), issued against stores in the states {empty, objects, versioned with a delete marker and a deleted current version, pending uploads with gaps} with the options {default, host-bucket, auto-bucket, no-versioning}; each answer must be a complete response (no panic, no hang) that is a success or an error whose body is empty or an S3 error document with a code whose table status (re-read from error.go, evaluated by the Lean driver) equals the response status; before them a deterministic sweep of every listing (V1 marker, V2 start-after / continuation token / both, versions key-marker with version-id-marker, uploads key-marker with upload-id-marker) with markers before all keys, on keys, between keys, beyond the last key and absurd, with and without prefix, delimiter and page sizes; one request in three comes from a mostly-valid stream (a well-formed operation on the prepared keys, version and pending upload with at most one deviation: rejected and accepted Complete variants, part uploads, aborts, ranged reads, copies, listings); every request is followed by a canary (a part upload and ListParts on the pending upload, every fourth time a whole initiate/part/rejected-complete/complete/GET/DELETE cycle, then PUT/GET/LIST/DELETE on the same and on another bucket); at the end of every instance the store is drained through legitimate requests (every version deleted by id, every key deleted, the pending upload aborted) and listed and read once more; fs backends additionally over a storage whose read-side calls start failing in the middle of a request (18 request kinds × failure after 0..7 calls): still a well-formed answer, no panic, and normal service once the storage answers again; declared lengths are capped at 1 MiB (resource exhaustion is outside the property); non-trivial = distinct request answered with an error", nReq)
	type optSet struct {
		name string
		opts []gofakes3.Option
	}
	sets := []optSet{{"default", nil}, {"host-bucket", []gofakes3.Option{gofakes3.WithHostBucket(true)}}, {"auto-bucket", []gofakes3.Option{gofakes3.WithAutoBucket(true)}}, {"no-versioning", []gofakes3.Option{gofakes3.WithoutVersioning()}}}
	classes := []string{"empty", "objects", "versioned", "uploads"}
	for _, kind := range c.kinds(impl.AllKinds) {
		per := nReq / (len(sets) * len(classes))
		for _, os := range sets {
			for _, class := range classes {
				inst, err := impl.New(kind, c.Tmp, os.opts...)
				if err != nil {
					c.mismatch(Mismatch{Kind: "model", Backend: kind, Finger: "setup", Impl: err.Error()})
					continue
				}
				r := &Runner{c: c, inst: inst}
				hostMode := os.name == "host-bucket"
				var st c09State
				if hostMode {
					// prepare through a path-style twin on the same backend
					twin := &impl.Instance{Kind: kind, Backend: inst.Backend, G: gofakes3.New(inst.Backend, gofakes3.WithTimeSkewLimit(0))}
					twin.H = twin.G.Server()
					st = c09Prepare(c, twin, &Runner{c: c, inst: twin}, class)
				} else {
					st = c09Prepare(c, inst, r, class)
				}
				canaryInst := inst
				if hostMode {
					st.hostStyle, st.mpInst = true, inst
					if st.uploadID != "" {
						st.uploadID = "0" // the twin's upload is unknown to this instance: the canary re-creates it
					}
					canaryInst = &impl.Instance{Kind: kind, Backend: inst.Backend, G: gofakes3.New(inst.Backend, gofakes3.WithTimeSkewLimit(0))}
					canaryInst.H = canaryInst.G.Server()
				}
				if !hostMode {
					c09MarkerSweep(c, kind, inst, st, os.name, class)
				}
				var history []string
				for i := 0; i < per; i++ {
					rq, desc := c09Request(c, st, hostMode)
					history = append(history, desc)
					if len(history) > 6 {
						history = history[1:]
					}
					r.noteOp(desc)
					resp := inst.Do(rq)
					c.R.Evaluations++
					ok, why := c09Wellformed(c, rq.Method, resp)
					if !ok {
						fp := "c09:malformed-answer"
						if strings.HasPrefix(why, "panic") {
							fp = "c09:panic"
						} else if why == "hang" {
							fp = "c09:hang"
						}
						c.mismatch(Mismatch{Kind: "spec", Backend: kind, Case: append([]string{"options=" + os.name + " state=" + class}, history...), Impl: why,
							Spec: "a complete, well-formed answer", Finger: fp + ":" + c09Class(rq)})
						break
					}
					if resp.Status >= 400 {
						c.nontrivial(kind + "|" + desc)
					}
					c.hist(fmt.Sprintf("status:%d", resp.Status))
					if bad := c09Canary(c, canaryInst, &st, i); bad != "" {
						c.mismatch(Mismatch{Kind: "spec", Backend: kind, Case: append([]string{"options=" + os.name + " state=" + class}, history...), Impl: bad,
							Spec: "afterwards the server still answers correct requests correctly", Finger: "c09:wedged:" + c09Class(rq)})
						break
					}
					if len(c.R.Samples) < 6 && resp.Status >= 400 && i%7 == 0 {
						c.sample(fmt.Sprintf("%s [%s/%s] %s -> %d %s", kind, os.name, class, desc, resp.Status, resp.ErrCode()))
					}
				}
				if !hostMode && c.NMism == 0 {
					if bad, fp := c09PartNumbers(c, inst, canaryInst, &st); bad != "" {
						c.mismatch(Mismatch{Kind: "spec", Backend: kind, Case: []string{"options=" + os.name + " state=" + class, "part uploads to the pending upload with every absurd part number"}, Impl: bad,
							Spec: "a complete, well-formed answer; afterwards the server still answers", Finger: fp})
					}
				}
				if !hostMode && c.NMism == 0 {
					if bad, fp := c09LongKeys(c, inst, canaryInst, &st); bad != "" {
						c.mismatch(Mismatch{Kind: "spec", Backend: kind, Case: []string{"options=" + os.name + " state=" + class, "PUT / GET / HEAD / DELETE of keys of 200 … 1100 bytes (one segment and nested)"}, Impl: bad,
							Spec: "a complete, well-formed answer; afterwards the server still answers", Finger: fp})
					}
				}
				// drain: bring the store to the state "everything deleted" through legitimate requests
				// (every version by id, every key, every pending upload) and look at it once more
				if !hostMode {
					if bad := c09Drain(c, inst, st); bad != "" {
						c.mismatch(Mismatch{Kind: "spec", Backend: kind, Case: append([]string{"options=" + os.name + " state=" + class, "drain: delete every version by id, every key, abort every upload; then list and read"}, history...), Impl: bad,
							Spec: "the emptied store still answers every request", Finger: "c09:drained:" + class})
					}
				}
				if !hostMode && c.NMism == 0 {
					if bad, fp := c09ForceDelete(c, inst, st); bad != "" {
						c.mismatch(Mismatch{Kind: "spec", Backend: kind, Case: []string{"options=" + os.name + " state=" + class, "PUT two objects; DELETE bucket with x-minio-force-delete: true; list buckets; list the bucket; PUT/GET an object"}, Impl: bad,
							Spec: "every request is answered; afterwards the server still answers", Finger: fp})
					}
				}
				inst.Close()
			}
		}
	}
	for _, kind := range c.kinds([]string{"fsM-mem", "fsS-mem", "fsM-dir", "fsS-dir"}) {
		c09IOFaults(c, kind)
	}
	_ = io.EOF
}

// c09MarkerSweep: every listing of the prepared store with every kind of marker placed before all
// keys, on a key, between keys, beyond the last key, and absurd — with and without prefix,
// delimiter and page size.  Deterministic (the grammar draws such requests only by chance).
func c09MarkerSweep(c *Ctx, kind string, inst *impl.Instance, st c09State, opt, class string) bool {
	b := st.bucket
	markers := []string{"", "!", "dir/", "dir/k2", "dir/k2x", "k1", "k2", "mp/obj", "zzzz", "~~~~", "\x00", "\xff\xff"}
	tok := func(m string) string { return base64.URLEncoding.EncodeToString([]byte(m)) }
	bad := false
	do := func(desc, query string) {
		if bad {
			return
		}
		rq := impl.Req{Method: "GET", Path: "/" + b, Query: query}
		resp := inst.Do(rq)
		c.R.Evaluations++
		if ok, why := c09Wellformed(c, "GET", resp); !ok {
			fp := "c09:malformed-answer"
			if strings.HasPrefix(why, "panic") {
				fp = "c09:panic"
			} else if why == "hang" {
				fp = "c09:hang"
			}
			c.mismatch(Mismatch{Kind: "spec", Backend: kind, Case: []string{"options=" + opt + " state=" + class, "GET /" + b + "?" + query + "   (" + desc + ")"}, Impl: why,
				Spec: "a complete, well-formed answer", Finger: fp + ":marker-sweep"})
			bad = true
		}
	}
	for _, m := range markers {
		me := url.QueryEscape(m)
		for _, extra := range []string{"", "&max-keys=1", "&max-keys=2&delimiter=%2F", "&prefix=dir%2F", "&prefix=dir%2F&delimiter=%2F&max-keys=1"} {
			do("V1 marker", "marker="+me+extra)
			do("V2 start-after", "list-type=2&start-after="+me+extra)
			do("V2 continuation-token", "list-type=2&continuation-token="+url.QueryEscape(tok(m))+extra)
			do("V2 token and start-after", "list-type=2&continuation-token="+url.QueryEscape(tok(m))+"&start-after=k1"+extra)
		}
		for _, extra := range []string{"", "&max-keys=1", "&prefix=dir%2F&delimiter=%2F", "&version-id-marker=null", "&version-id-marker=junk&max-keys=1"} {
			do("versions key-marker", "versions&key-marker="+me+extra)
		}
		for _, extra := range []string{"", "&max-uploads=1", "&max-uploads=2&delimiter=%2F", "&upload-id-marker=1", "&upload-id-marker=999&max-uploads=1", "&prefix=mp%2F&max-uploads=1"} {
			do("uploads key-marker", "uploads&key-marker="+me+extra)
		}
	}
	if class == "uploads" && !bad {
		// an upload on the LAST key that is gone again (aborted), one on a middle key that was
		// completed: the index must not keep anything of them that a paged listing trips over
		for _, k := range []string{"zz-last", "n-middle"} {
			resp := inst.Do(impl.Req{Method: "POST", Path: "/" + b + "/" + k, Query: "uploads"})
			var d xmlInitiate
			xml.Unmarshal(resp.Body, &d)
			if d.UploadID == "" {
				continue
			}
			if k == "zz-last" {
				inst.Do(impl.Req{Method: "DELETE", Path: "/" + b + "/" + k, Query: "uploadId=" + d.UploadID})
			} else {
				inst.Do(impl.Req{Method: "PUT", Path: "/" + b + "/" + k, Query: "uploadId=" + d.UploadID + "&partNumber=1", Body: bytes.NewReader([]byte("p"))})
				body := "<CompleteMultipartUpload><Part><PartNumber>1</PartNumber><ETag>\"" + etagOf([]byte("p")) + "\"</ETag></Part></CompleteMultipartUpload>"
				inst.Do(impl.Req{Method: "POST", Path: "/" + b + "/" + k, Query: "uploadId=" + d.UploadID, Body: bytes.NewReader([]byte(body))})
			}
		}
		for n := 1; n <= 4; n++ {
			for _, km := range []string{"", "mp/obj", "n-middle", "other", "zz-last"} {
				do("uploads after an abort and a complete", fmt.Sprintf("uploads&max-uploads=%d&key-marker=%s", n, url.QueryEscape(km)))
				do("uploads after an abort and a complete", fmt.Sprintf("uploads&max-uploads=%d&delimiter=%%2F&key-marker=%s", n, url.QueryEscape(km)))
			}
		}
	}
	return !bad
}

// c09IOFaults: the storage below an fs backend stops answering in the middle of a request (the
// k-th read-side file-system call and all later ones fail).  Whatever the request, the answer
// must still be a complete, well-formed response — in practice a 500 with an S3 error document —
// never a panic, and once the storage answers again so does the server.
func c09IOFaults(c *Ctx, kind string) {
	h, err := newCrashHarness(c, kind)
	if err != nil {
		c.mismatch(Mismatch{Kind: "model", Backend: kind, Finger: "setup", Impl: err.Error()})
		return
	}
	defer func() {
		if h.dir != "" {
			os.RemoveAll(h.dir)
		}
	}()
	if err := h.open(true); err != nil {
		c.mismatch(Mismatch{Kind: "model", Backend: kind, Finger: "setup", Impl: err.Error()})
		return
	}
	b := h.bucket
	if strings.HasPrefix(kind, "fsM") {
		h.inst.Do(impl.Req{Method: "PUT", Path: "/" + b})
	}
	for _, k := range []string{"a", "d/e", "d/f/g", "z"} {
		h.put(k, []byte("body-of-"+k))
	}
	type rqd struct {
		desc string
		mk   func() impl.Req
	}
	reqs := []rqd{
		{"GET object", func() impl.Req { return impl.Req{Method: "GET", Path: "/" + b + "/d/e"} }},
		{"GET object range", func() impl.Req {
			return impl.Req{Method: "GET", Path: "/" + b + "/d/e", Header: map[string]string{"Range": "bytes=1-3"}}
		}},
		{"HEAD object", func() impl.Req { return impl.Req{Method: "HEAD", Path: "/" + b + "/a"} }},
		{"HEAD bucket", func() impl.Req { return impl.Req{Method: "HEAD", Path: "/" + b} }},
		{"list", func() impl.Req { return impl.Req{Method: "GET", Path: "/" + b} }},
		{"list delimiter", func() impl.Req { return impl.Req{Method: "GET", Path: "/" + b, Query: "delimiter=%2F&prefix=d%2F"} }},
		{"list max-keys (un-paged retry)", func() impl.Req { return impl.Req{Method: "GET", Path: "/" + b, Query: "max-keys=2"} }},
		{"list V2 max-keys delimiter", func() impl.Req {
			return impl.Req{Method: "GET", Path: "/" + b, Query: "list-type=2&max-keys=1&delimiter=%2F"}
		}},
		{"list marker", func() impl.Req { return impl.Req{Method: "GET", Path: "/" + b, Query: "marker=a"} }},
		{"list buckets", func() impl.Req { return impl.Req{Method: "GET", Path: "/"} }},
		{"PUT object", func() impl.Req {
			return impl.Req{Method: "PUT", Path: "/" + b + "/new", Body: bytes.NewReader([]byte("new-body"))}
		}},
		{"PUT overwrite", func() impl.Req {
			return impl.Req{Method: "PUT", Path: "/" + b + "/a", Body: bytes.NewReader([]byte("over"))}
		}},
		{"copy", func() impl.Req {
			return impl.Req{Method: "PUT", Path: "/" + b + "/copy", Header: map[string]string{"X-Amz-Copy-Source": "/" + b + "/d/e"}}
		}},
		{"DELETE object", func() impl.Req { return impl.Req{Method: "DELETE", Path: "/" + b + "/z"} }},
		{"multi-delete", func() impl.Req {
			return impl.Req{Method: "POST", Path: "/" + b, Query: "delete", Body: bytes.NewReader([]byte("<Delete><Object><Key>z</Key></Object><Object><Key>nope</Key></Object></Delete>"))}
		}},
		{"versions listing", func() impl.Req { return impl.Req{Method: "GET", Path: "/" + b, Query: "versions"} }},
		{"initiate upload", func() impl.Req { return impl.Req{Method: "POST", Path: "/" + b + "/mp", Query: "uploads"} }},
		{"DELETE bucket", func() impl.Req { return impl.Req{Method: "DELETE", Path: "/" + b} }},
	}
	setFault := func(n int) {
		h.ffs.ReadFailAfter, h.ffs.Reads = n, 0
		if h.fmeta != nil {
			h.fmeta.ReadFailAfter, h.fmeta.Reads = n, 0
		}
	}
	for _, rq := range reqs {
		for n := 0; n <= 7; n++ {
			setFault(n)
			resp := h.inst.Do(rq.mk())
			setFault(-1)
			c.R.Evaluations++
			ok, why := c09Wellformed(c, rq.mk().Method, resp)
			desc := fmt.Sprintf("%s with every read-side file-system call after the first %d failing (input/output error)", rq.desc, n)
			if !ok {
				fp := "c09:io-fault:malformed-answer"
				if strings.HasPrefix(why, "panic") {
					fp = "c09:io-fault:panic"
				} else if why == "hang" {
					fp = "c09:io-fault:hang"
				}
				c.mismatch(Mismatch{Kind: "spec", Backend: kind, Case: []string{desc}, Impl: why, Spec: "a complete, well-formed answer", Finger: fp})
				return
			}
			c.hist(fmt.Sprintf("io-fault:status:%d", resp.Status))
			if resp.Status >= 500 {
				c.nontrivial(fmt.Sprintf("%s|io|%s|%d", kind, rq.desc, n))
			}
			// the storage answers again: so does the server
			g := h.inst.Do(impl.Req{Method: "GET", Path: "/" + b + "/d/f/g"})
			l := h.inst.Do(impl.Req{Method: "GET", Path: "/" + b})
			if g.Status != 200 || string(g.Body) != "body-of-d/f/g" || l.Status != 200 {
				c.mismatch(Mismatch{Kind: "spec", Backend: kind, Case: []string{desc, "then, with the storage answering again: GET d/f/g and a listing"},
					Impl: fmt.Sprintf("GET -> %d %q %s; list -> %d %s", g.Status, trunc(string(g.Body), 30), g.Panic, l.Status, l.Panic), Spec: "the server still answers correct requests correctly", Finger: "c09:io-fault:wedged"})
				return
			}
		}
	}
}

var c09VerRe = regexp.MustCompile(`<Key>([^<]*)</Key><VersionId>([^<]*)</VersionId>`)
var c09KeyRe = regexp.MustCompile(`<Key>([^<]*)</Key>`)

func c09Drain(c *Ctx, inst *impl.Instance, st c09State) string {
	b := "/" + impl.EscapePath(st.bucket)
	answered := func(what string, r impl.Resp) string {
		c.R.Evaluations++
		if ok, why := c09Wellformed(c, "", r); !ok {
			return what + " -> " + why
		}
		return ""
	}
	seen := map[string]bool{}
	for round := 0; round < 3; round++ {
		r := inst.Do(impl.Req{Method: "GET", Path: b, Query: "versions"})
		if bad := answered("GET ?versions", r); bad != "" {
			return bad
		}
		body := strings.ReplaceAll(strings.ReplaceAll(string(r.Body), "\n", ""), " ", "")
		ms := c09VerRe.FindAllStringSubmatch(body, -1)
		if len(ms) == 0 {
			break
		}
		for _, m := range ms {
			seen[m[1]] = true
			q := "versionId=" + url.QueryEscape(m[2])
			if m[2] == "null" || m[2] == "" {
				q = ""
			}
			rr := inst.Do(impl.Req{Method: "DELETE", Path: b + "/" + impl.EscapePath(xmlUnescape(m[1])), Query: q})
			if bad := answered("DELETE "+m[1]+"?"+q, rr); bad != "" {
				return bad
			}
		}
	}
	r := inst.Do(impl.Req{Method: "GET", Path: b})
	if bad := answered("GET bucket", r); bad != "" {
		return bad
	}
	for _, m := range c09KeyRe.FindAllStringSubmatch(string(r.Body), -1) {
		seen[m[1]] = true
		rr := inst.Do(impl.Req{Method: "DELETE", Path: b + "/" + impl.EscapePath(xmlUnescape(m[1]))})
		if bad := answered("DELETE "+m[1], rr); bad != "" {
			return bad
		}
	}
	if st.uploadID != "" {
		rr := inst.Do(impl.Req{Method: "DELETE", Path: b + "/mp/obj", Query: "uploadId=" + st.uploadID})
		if bad := answered("abort", rr); bad != "" {
			return bad
		}
	}
	for _, k := range append([]string{"k1", "dir/k2"}, st.keys...) {
		seen[k] = true
	}
	for _, q := range []string{"", "versions", "uploads", "list-type=2", "delimiter=%2F"} {
		if bad := answered("GET bucket?"+q, inst.Do(impl.Req{Method: "GET", Path: b, Query: q})); bad != "" {
			return bad
		}
	}
	for k := range seen {
		p := b + "/" + impl.EscapePath(xmlUnescape(k))
		if bad := answered("GET "+k, inst.Do(impl.Req{Method: "GET", Path: p})); bad != "" {
			return bad
		}
		if bad := answered("HEAD "+k, inst.Do(impl.Req{Method: "HEAD", Path: p})); bad != "" {
			return bad
		}
	}
	return ""
}

func xmlUnescape(s string) string {
	for _, p := range [][2]string{{"&amp;", "&"}, {"&lt;", "<"}, {"&gt;", ">"}, {"&#34;", "\""}, {"&#39;", "'"}, {"&quot;", "\""}, {"&apos;", "'"}} {
		s = strings.ReplaceAll(s, p[0], p[1])
	}
	return s
}

// c09Class: a coarse class of the request for fingerprints
func c09Class(rq impl.Req) string {
	q := rq.Query
	switch {
	case strings.Contains(q, "uploadId"):
		return "multipart"
	case strings.Contains(q, "uploads"):
		return "uploads"
	case strings.Contains(q, "versions"):
		return "versions"
	case strings.Contains(q, "versionId"):
		return "version"
	case strings.Contains(q, "versioning"):
		return "versioning"
	case rq.Header["X-Amz-Copy-Source"] != "":
		return "copy"
	case rq.Header["Range"] != "":
		return "range"
	case strings.Contains(q, "delete"):
		return "multi-delete"
	}
	return strings.ToLower(rq.Method)
}

// c09PartNumbers: a part upload to the real pending upload with every absurd part number (the
// largest first): each is answered well-formedly and the upload stays usable.
func c09PartNumbers(c *Ctx, inst, canary *impl.Instance, st *c09State) (string, string) {
	if st.uploadID == "" {
		return "", ""
	}
	nums := append([]string{"9223372036854775807", "-9223372036854775808", "10001", "10000"}, c09Ints...)
	for i, pn := range nums {
		q := url.Values{}
		q.Set("uploadId", st.uploadID)
		q.Set("partNumber", pn)
		r := inst.Do(impl.Req{Method: "PUT", Path: "/" + impl.EscapePath(st.bucket) + "/mp/obj", Query: q.Encode(), Body: bytes.NewReader([]byte("part-x"))})
		c.R.Evaluations++
		if ok, why := c09Wellformed(c, "PUT", r); !ok {
			fp := "c09:malformed-answer:part-number"
			if strings.HasPrefix(why, "panic") {
				fp = "c09:panic:part-number"
			} else if why == "hang" {
				fp = "c09:hang:part-number"
			}
			return "PUT ?partNumber=" + pn + " -> " + why, fp
		}
		c.hist(fmt.Sprintf("part-number-sweep:status:%d", r.Status))
		if bad := c09Canary(c, canary, st, i); bad != "" {
			return "after PUT ?partNumber=" + pn + ": " + bad, "c09:wedged:part-number"
		}
	}
	return "", ""
}

// c09LongKeys: keys around the limits of the storage below (255-byte file names, the fs backends'
// metadata file names of key + 33 bytes, the 1024-byte key limit): every request is answered —
// an error is fine — and the server keeps answering (a failure path that leaves a lock held shows
// as the next request hanging).
func c09LongKeys(c *Ctx, inst, canary *impl.Instance, st *c09State) (string, string) {
	n := 0
	for _, l := range []int{200, 221, 222, 223, 224, 240, 254, 255, 256, 300, 1023, 1024, 1025, 1100} {
		for _, nested := range []bool{false, true} {
			key := strings.Repeat("k", l)
			if nested {
				if l > 255 {
					key = strings.Repeat("d", 100) + "/" + strings.Repeat("k", l-101)
				} else {
					key = "dir/" + strings.Repeat("k", l-4)
				}
			}
			p := "/" + impl.EscapePath(st.bucket) + "/" + key
			putStatus := 0
			for _, rq := range []impl.Req{
				{Method: "PUT", Path: p, Body: bytes.NewReader([]byte("long-key")), Header: map[string]string{"X-Amz-Meta-L": fmt.Sprint(l)}},
				{Method: "GET", Path: p},
				{Method: "HEAD", Path: p},
				{Method: "PUT", Path: p, Header: map[string]string{"X-Amz-Copy-Source": "/" + st.bucket + "/" + key}},
				{Method: "DELETE", Path: p},
			} {
				r := inst.Do(rq)
				if rq.Method == "PUT" && rq.Body != nil {
					putStatus = r.Status
				}
				c.R.Evaluations++
				if ok, why := c09Wellformed(c, rq.Method, r); !ok {
					fp := "c09:malformed-answer:long-key"
					if strings.HasPrefix(why, "panic") {
						fp = "c09:panic:long-key"
					} else if why == "hang" {
						fp = "c09:hang:long-key"
					}
					return fmt.Sprintf("%s of a %d-byte key (nested=%v) -> %s", rq.Method, l, nested, why), fp
				}
				c.hist(fmt.Sprintf("long-key-sweep:%s:status:%d", rq.Method, r.Status))
				if rq.Method == "PUT" && rq.Header["X-Amz-Copy-Source"] != "" {
					// whatever the upload was answered: the bucket can still be listed (a refused upload that
					// left its object file behind without metadata made every listing fail)
					for _, q := range []string{"", "delimiter=%2F", "list-type=2"} {
						lr := inst.Do(impl.Req{Method: "GET", Path: "/" + impl.EscapePath(st.bucket), Query: q})
						c.R.Evaluations++
						if lr.Status != 200 {
							return fmt.Sprintf("after PUT/GET/HEAD/copy of a %d-byte key (nested=%v; the PUT was answered %d): GET /%s?%s -> %d %s", l, nested, putStatus, st.bucket, q, lr.Status, lr.ErrCode()), "c09:wedged:long-key-listing"
						}
					}
				}
			}
			n++
			if bad := c09Canary(c, canary, st, n); bad != "" {
				return fmt.Sprintf("after the requests on a %d-byte key (nested=%v): %s", l, nested, bad), "c09:wedged:long-key"
			}
		}
	}
	return "", ""
}

// c09ForceDelete: the Minio force-delete extension on a bucket that holds objects, on every
// backend: answered (whatever the backend's answer is), and the server keeps answering.
func c09ForceDelete(c *Ctx, inst *impl.Instance, st c09State) (string, string) {
	b := "/" + impl.EscapePath(st.bucket)
	steps := []impl.Req{
		{Method: "PUT", Path: b},
		{Method: "PUT", Path: b + "/force/one", Body: bytes.NewReader([]byte("1"))},
		{Method: "PUT", Path: b + "/force-two", Body: bytes.NewReader([]byte("2"))},
		{Method: "DELETE", Path: b, Header: map[string]string{"x-minio-force-delete": "true"}},
		{Method: "GET", Path: "/"},
		{Method: "GET", Path: b},
		{Method: "PUT", Path: b},
		{Method: "PUT", Path: b + "/after", Body: bytes.NewReader([]byte("3"))},
		{Method: "GET", Path: b + "/after"},
		{Method: "DELETE", Path: b, Header: map[string]string{"x-minio-force-delete": "true"}},
		{Method: "GET", Path: "/"},
	}
	for i, rq := range steps {
		r := inst.Do(rq)
		c.R.Evaluations++
		if ok, why := c09Wellformed(c, rq.Method, r); !ok {
			fp := "c09:malformed-answer:force-delete"
			if strings.HasPrefix(why, "panic") {
				fp = "c09:panic:force-delete"
			} else if why == "hang" {
				fp = "c09:hang:force-delete"
			}
			return fmt.Sprintf("step %d (%s %s) -> %s", i, rq.Method, rq.Path, why), fp
		}
		c.hist(fmt.Sprintf("force-delete-sweep:%s:status:%d", rq.Method, r.Status))
	}
	return "", ""
}
