package main

// corpus.go: the witnesses of past findings (corpus/<property>/*.txt), replayed first on every
// run.  A file is a list of driver lines (the same lines a replay file carries): `reset`, then
// `cfg <backend> <auto> <failpage> <novers>`, then operations.  Every operation is issued against
// a fresh instance of each backend kind the cfg line names and judged like any generated
// operation (against the Lean model and the reference models).  Lines the replayer does not know
// (comments, narrative) are skipped; a file without a cfg line is documentation only.

import (
	"encoding/hex"
	"os"
	"path/filepath"
	"sort"
	"strings"

	"github.com/johannesboyne/gofakes3"

	"verifharness/internal/impl"
)

func unhx(s string) string {
	if s == "-" {
		return ""
	}
	b, err := hex.DecodeString(s)
	if err != nil {
		return ""
	}
	return string(b)
}

func parseMetaLine(s string) map[string]string {
	md := map[string]string{}
	if s == "-" || s == "" {
		return md
	}
	for _, kv := range strings.Split(s, ",") {
		p := strings.SplitN(kv, "=", 2)
		if len(p) == 2 {
			md[unhx(p[0])] = unhx(p[1])
		}
	}
	return md
}

func corpusKinds(backend string) []string {
	switch backend {
	case "mem":
		return []string{"mem"}
	case "bolt":
		return []string{"bolt"}
	case "fsM":
		return []string{"fsM-mem", "fsM-dir"}
	case "fsS":
		return []string{"fsS-mem", "fsS-dir"}
	}
	return nil
}

// runCorpus replays every witness of the property; returns the number of operations judged.
func runCorpus(c *Ctx, prop, verifDir string) int {
	files, _ := filepath.Glob(filepath.Join(verifDir, "corpus", prop, "*.txt"))
	sort.Strings(files)
	judged := 0
	for _, f := range files {
		raw, err := os.ReadFile(f)
		if err != nil {
			continue
		}
		var lines []string
		backend, auto, novers := "", false, false
		for _, l := range strings.Split(string(raw), "\n") {
			l = strings.TrimSpace(l)
			if l == "" || strings.HasPrefix(l, "#") {
				continue
			}
			t := strings.Fields(l)
			if t[0] == "cfg" && len(t) == 5 {
				backend, auto, novers = t[1], t[2] == "1", t[4] == "1"
				continue
			}
			if t[0] == "reset" {
				continue
			}
			lines = append(lines, l)
		}
		if backend == "" {
			continue
		}
		for _, kind := range c.kinds(corpusKinds(backend)) {
			opts := []gofakes3.Option{}
			if auto {
				opts = append(opts, gofakes3.WithAutoBucket(true))
			}
			if novers {
				opts = append(opts, gofakes3.WithoutVersioning())
			}
			inst, err := impl.New(kind, c.Tmp, opts...)
			if err != nil {
				continue
			}
			r := newRunner(c, inst, auto, false, novers)
			if inst.IsSingle() {
				r.tell("mkbucket " + hx(impl.SingleBucketName))
			}
			finger := "corpus:" + filepath.Base(f)
			for _, l := range lines {
				t := strings.Fields(l)
				var line, obs string
				switch {
				case t[0] == "mkbucket" && len(t) == 2:
					if inst.IsSingle() {
						continue
					}
					line, obs = r.MkBucket(unhx(t[1]))
				case t[0] == "rmbucket" && len(t) == 2:
					if inst.IsSingle() {
						continue
					}
					line, obs = r.RmBucket(unhx(t[1]), false)
				case t[0] == "headbucket" && len(t) == 2:
					line, obs = r.HeadBucket(unhx(t[1]))
				case t[0] == "buckets":
					line, obs = r.Buckets()
				case t[0] == "put" && len(t) == 5:
					line, obs = r.Put(unhx(t[1]), unhx(t[2]), parseMetaLine(t[3]), []byte(unhx(t[4])))
				case t[0] == "get" && len(t) == 3:
					line, obs = r.Get(unhx(t[1]), unhx(t[2]))
				case t[0] == "head" && len(t) == 3:
					line, obs = r.Head(unhx(t[1]), unhx(t[2]))
				case t[0] == "del" && len(t) == 3:
					line, obs = r.Del(unhx(t[1]), unhx(t[2]))
				case t[0] == "copy" && len(t) == 6:
					md := parseMetaLine(t[5])
					delete(md, "X-Amz-Copy-Source")
					line, obs = r.Copy(unhx(t[1]), unhx(t[2]), unhx(t[3]), unhx(t[4]), md)
				case t[0] == "delmulti" && len(t) == 3:
					var objs []ObjID
					if t[2] != "~" {
						for _, k := range strings.Split(t[2], ",") {
							objs = append(objs, ObjID{Key: unhx(strings.SplitN(k, "@", 2)[0])})
						}
					}
					line, obs = r.DelMulti(unhx(t[1]), objs)
				case t[0] == "list" && len(t) == 10:
					// list <bucket> <hasP> <pfx> <hasD> <delim> <hasMarker> <marker> <maxkeys> <v2>
					q := ListReq{Bucket: unhx(t[1]), HasPrefix: t[2] == "1", Prefix: unhx(t[3]), HasDelim: t[4] == "1", Delim: unhx(t[5]), V2: t[9] == "1", ClampedMaxKeys: 1000}
					if t[6] == "1" || t[8] != "1000" {
						continue // paged listings are replayed by the C04 walks
					}
					var lo ListObs
					line, lo = r.List(q)
					obs = lo.Obs
				default:
					continue
				}
				if inst.IsFs() && (t[0] == "put" || t[0] == "copy" || t[0] == "del") {
					// an fs backend may refuse a key that is no clean relative path or conflicts with the
					// directories of other keys (C10); a refused request is not shown to the model.  File
					// names beyond NAME_MAX are outside the key domain of a real directory.
					long := false
					for _, seg := range strings.Split(unhx(t[len(t)-3]), "/") {
						if len(seg) > 200 {
							long = true
						}
					}
					if obs == "err InvalidArgument" || (long && strings.HasSuffix(kind, "-dir")) {
						c.hist("corpus:fs-refusals")
						continue
					}
				}
				before := c.NMism
				r.judgeProj(line, obs, finger, ident, specProjC07)
				judged++
				if c.NMism > before {
					break
				}
			}
			inst.Close()
		}
	}
	return judged
}
