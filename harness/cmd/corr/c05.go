package main

import (
	"fmt"
	"sort"
	"strings"
	"sync"
	"time"

	"github.com/johannesboyne/gofakes3"

	"verifharness/internal/impl"
)

func init() { props["C05"] = runC05; props["C13"] = runC13 }

type verRef struct {
	key, raw, counter string
	marker            bool
	bornEnabled       bool
}

type vHist struct {
	c            *Ctx
	r            *Runner
	bucket       string
	status       string // "N", "E", "S"
	vers         []verRef
	maxID        int
	d5Keys       map[string]bool // keys hit by a write while Suspended after having had Enabled-born versions
	bornAny      map[string]bool
	trace        []string
	dead         bool
	walkDiverged bool // a page of a versions walk differed from the model only
	prop         string
	// after a model-only mismatch the model is no longer consulted for this history; the
	// specification still is (the failing input may only show a few operations later)
	modelOff bool
	firstObs map[string]string // version counter -> first observation by id
	noSpec   bool              // the next judgement is against the model only (multipart bookkeeping)
	pending  []pendUpload
}

type pendUpload struct{ key, id string }

func newVHist(c *Ctx, prop string, opts ...gofakes3.Option) (*vHist, *impl.Instance) {
	inst, err := impl.New("mem", c.Tmp, opts...)
	if err != nil {
		c.mismatch(Mismatch{Kind: "model", Backend: "mem", Finger: "setup", Impl: err.Error()})
		return nil, nil
	}
	r := newRunner(c, inst, false, false, false)
	r.tell("vmode 1")
	h := &vHist{c: c, r: r, bucket: "bkt", status: "N", d5Keys: map[string]bool{}, bornAny: map[string]bool{}, prop: prop}
	l, o := r.MkBucket(h.bucket)
	h.judge(l, o, "setup", "")
	return h, inst
}

// projection of an observation to what Spec.Versions speaks about
func vSpecProj(s string) string {
	f := strings.Fields(s)
	if len(f) == 0 {
		return s
	}
	switch f[0] {
	case "obj", "hobj":
		return f[0] + " " + f[1]
	case "stored", "deleted", "multideleted", "copied", "completed":
		return "ok"
	case "delete-marker":
		return "delete-marker"
	case "versions":
		return "versions" // compared separately
	}
	return s
}

func (h *vHist) judge(line, obs, finger, key string) {
	if h.dead {
		return
	}
	before := h.c.NMism
	fp := h.prop + ":" + finger
	model, spec, err := h.c.D.Ask(line)
	if err != nil {
		panic(err)
	}
	h.c.R.Evaluations++
	cs := append(append([]string{}, h.r.Lines...), line)
	h.r.Lines = append(h.r.Lines, line)
	io, mo := normObs(obs, model)
	is, so := normObs(obs, spec)
	if spec != "-" && !h.noSpec && !strings.HasPrefix(spec, "specversions") && vSpecProj(is) != vSpecProj(so) {
		// the known finding D5 is the behaviour the model reproduces: only an answer that agrees
		// with the model is attributed to it
		if key != "" && h.d5Keys[key] && io == mo {
			fp = h.prop + ":suspended-write-over-enabled-version"
		}
		h.c.mismatch(Mismatch{Kind: "spec", Backend: "mem", Case: cs, Impl: obs, Model: model, Spec: spec, Finger: fp})
	} else if io != mo && !h.modelOff {
		h.c.mismatch(Mismatch{Kind: "model", Backend: "mem", Case: cs, Impl: obs, Model: model, Spec: spec, Finger: fp})
		h.modelOff = true
		before = h.c.NMism // the history goes on, judged by the specification alone
	}
	if h.c.NMism > before {
		h.dead = true
	}
	h.trace = append(h.trace, line)
}

// fresh: while Enabled every upload and every delete marker gets an id above every id issued
// before in this history (statement: "a fresh, unique version ID")
func (h *vHist) fresh(obs, what string) {
	if h.status != "E" || !strings.Contains(obs, "vid=") {
		return
	}
	v := obs[strings.Index(obs, "vid=")+4:]
	var n int
	if _, err := fmt.Sscan(v, &n); err != nil {
		return
	}
	h.c.R.Evaluations++
	if n <= h.maxID {
		h.c.mismatch(Mismatch{Kind: "spec", Backend: "mem", Case: append([]string{}, h.r.Lines...), Impl: fmt.Sprintf("%s returned version id %d, ids up to %d were issued before", what, n, h.maxID),
			Spec: "a fresh version id", Finger: h.prop + ":version-id-not-fresh"})
		h.dead = true
	}
	if n > h.maxID {
		h.maxID = n
	}
}

func (h *vHist) noteWrite(key string) {
	if h.status == "S" && h.bornAny[key] {
		h.d5Keys[key] = true
	}
}

func (h *vHist) put(key string, body []byte) {
	h.noteWrite(key)
	l, o := h.r.Put(h.bucket, key, nil, body)
	h.fresh(o, "put")
	h.judge(l, o, "put", key)
	// remember the version (id from the response when Enabled; otherwise unknown to the client)
	if strings.HasPrefix(o, "stored ") && strings.Contains(o, "vid=") {
		v := o[strings.Index(o, "vid=")+4:]
		if v != "-" {
			h.vers = append(h.vers, verRef{key: key, counter: v, raw: h.rawOf(v), bornEnabled: true})
			h.bornAny[key] = true
		}
	}
}

// putMd: an upload that carries headers (a user header and an ACL header, which the server
// stores with the version like any other X-Amz- header)
func (h *vHist) putMd(key string, body []byte, n int) {
	h.noteWrite(key)
	md := map[string]string{"X-Amz-Meta-V": fmt.Sprint(n), "X-Amz-Acl": "public-read"}
	l, o := h.r.Put(h.bucket, key, md, body)
	h.fresh(o, "put")
	h.judge(l, o, "put", key)
	if strings.HasPrefix(o, "stored ") && strings.Contains(o, "vid=") {
		v := o[strings.Index(o, "vid=")+4:]
		if v != "-" {
			h.vers = append(h.vers, verRef{key: key, counter: v, raw: h.rawOf(v), bornEnabled: true})
			h.bornAny[key] = true
		}
	}
}

// copy src -> dst inside the bucket; the version it creates is found through the listing
func (h *vHist) copy(src, dst string, n int) {
	h.noteWrite(dst)
	if h.d5Keys[src] {
		// the copy carries over what the source reads as — which known finding D5 (a write while
		// Suspended over a version created while Enabled) has already made differ from the
		// specification; an answer is attributed to it only while implementation and model agree
		h.d5Keys[dst] = true
	}
	l, o := h.r.Copy(h.bucket, src, h.bucket, dst, map[string]string{"X-Amz-Meta-C": fmt.Sprint(n)})
	h.judge(l, o, "copy", dst)
	_, lo := h.r.ListVersions(VerListReq{Bucket: h.bucket, ClampedMaxKeys: 1000})
	known := map[string]bool{}
	for _, v := range h.vers {
		known[v.counter] = true
	}
	for _, e := range lo.Entries {
		if e.Vid != "-" && !known[e.Vid] {
			h.vers = append(h.vers, verRef{key: e.Key, counter: e.Vid, raw: e.RawVid, marker: e.Marker, bornEnabled: true})
			h.bornAny[e.Key] = true
		}
	}
}

// mpInit: a multipart upload is initiated (its Last-Modified header is fixed now); mpComplete
// uploads one part to the oldest pending upload and completes it: a version created through the
// third write path, possibly long after it was initiated
func (h *vHist) mpInit(key string) {
	if h.dead {
		return
	}
	l, o, id := h.r.MpInit(h.bucket, key, nil)
	h.noSpec = true
	h.judge(l, o, "mpinit", "")
	h.noSpec = false
	if id != "" {
		h.pending = append(h.pending, pendUpload{key, id})
	}
}

func (h *vHist) mpComplete(n int) {
	if h.dead || len(h.pending) == 0 {
		return
	}
	p := h.pending[0]
	h.pending = h.pending[1:]
	body := []byte(fmt.Sprintf("assembled-%d", n))
	l, o := h.r.MpPart(h.bucket, p.key, p.id, "1", body, "", nil)
	h.noSpec = true
	h.judge(l, o, "mppart", "")
	h.noSpec = false
	h.noteWrite(p.key)
	l, o = h.r.MpComplete(h.bucket, p.key, p.id, []cpart{{1, etagOf(body)}})
	h.fresh(o, "complete")
	h.judge(l, o, "mpcomplete", p.key)
	if strings.HasPrefix(o, "completed ") && strings.Contains(o, "vid=") {
		v := strings.Fields(o[strings.Index(o, "vid=")+4:])[0]
		if v != "-" {
			h.vers = append(h.vers, verRef{key: p.key, counter: v, raw: h.rawOf(v), bornEnabled: true})
			h.bornAny[p.key] = true
		}
	}
}

// rawOf finds the real id string for a counter by listing versions (ids are opaque to clients)
func (h *vHist) rawOf(counter string) string {
	_, lo := h.r.ListVersions(VerListReq{Bucket: h.bucket, ClampedMaxKeys: 1000})
	// the listing request is not judged here; undo its line bookkeeping
	for _, e := range lo.Entries {
		if e.Vid == counter {
			return e.RawVid
		}
	}
	return "3/unknown"
}

func (h *vHist) del(key string) {
	h.noteWrite(key)
	l, o := h.r.Del(h.bucket, key)
	if strings.Contains(o, "marker=1") {
		h.fresh(o, "delete")
	}
	h.judge(l, o, "delete", key)
	if strings.Contains(o, "marker=1") {
		v := o[strings.Index(o, "vid=")+4:]
		h.vers = append(h.vers, verRef{key: key, counter: v, raw: h.rawOf(v), marker: true, bornEnabled: true})
		h.bornAny[key] = true
	}
}

func (h *vHist) setver(s string) {
	l, o := h.r.SetVer(h.bucket, s)
	h.judge(l, o, "setVersioning", "")
	if o == "ok" {
		if s == "E" {
			h.status = "E"
		} else if h.status == "E" {
			h.status = "S"
		}
	}
}

func (h *vHist) pick(key, which string) (verRef, bool) {
	var ks []verRef
	for _, v := range h.vers {
		if v.key == key {
			ks = append(ks, v)
		}
	}
	switch which {
	case "unknown":
		return verRef{key: key, raw: "3/60O30C1G60O30C1G60O30C1G60O30C1G60O30C1G60O30C1H00000000000000000000000000000000000000000000000000000000000000000000000", counter: "999"}, true
	case "newest":
		if len(ks) > 0 {
			return ks[len(ks)-1], true
		}
	case "oldest":
		if len(ks) > 0 {
			return ks[0], true
		}
	case "marker":
		for i := len(ks) - 1; i >= 0; i-- {
			if ks[i].marker {
				return ks[i], true
			}
		}
	}
	return verRef{}, false
}

func (h *vHist) delv(key, which string) {
	v, ok := h.pick(key, which)
	if !ok {
		return
	}
	l, o := h.r.DelV(h.bucket, key, v.raw, v.counter)
	h.judge(l, o, "deleteVersion:"+which, key)
}

func (h *vHist) readBack(keys []string) {
	for _, k := range keys {
		l, o := h.r.Get(h.bucket, k)
		h.judge(l, o, "get", k)
		l, o = h.r.Head(h.bucket, k)
		h.judge(l, o, "head", k)
	}
	for _, v := range h.vers {
		l, o := h.r.GetV(h.bucket, v.key, v.raw, v.counter)
		h.judge(l, o, "getVersion", v.key)
		// the statement itself: a version read by id never changes (bytes, ETag, metadata) while it exists
		if strings.HasPrefix(o, "obj ") {
			if h.firstObs == nil {
				h.firstObs = map[string]string{}
			}
			if first, seen := h.firstObs[v.counter]; !seen {
				h.firstObs[v.counter] = o
			} else if first != o && !h.dead {
				h.c.mismatch(Mismatch{Kind: "spec", Backend: "mem", Case: append(append([]string{}, h.r.Lines...), l), Impl: trunc(o, 300),
					Spec: "version " + v.counter + " of " + v.key + " reads as when it was first read: " + trunc(first, 300), Finger: "c05:version-changed"})
				h.dead = true
			}
		}
		l, o = h.r.HeadV(h.bucket, v.key, v.raw, v.counter)
		h.judge(l, o, "headVersion", v.key)
	}
}

func (h *vHist) multiDel(k1, k2 string) {
	var objs []ObjID
	if v, ok := h.pick(k1, "newest"); ok {
		objs = append(objs, ObjID{Key: k1, Version: v.raw, Counter: v.counter})
		// the same key once more with another version id (what bucket-emptying tools send)
		if w, ok := h.pick(k1, "oldest"); ok && w.counter != v.counter && h.c.Rng.Intn(2) == 0 {
			objs = append(objs, ObjID{Key: k1, Version: w.raw, Counter: w.counter})
		}
	}
	objs = append(objs, ObjID{Key: k2})
	h.noteWrite(k2)
	l, o := h.r.DelMulti(h.bucket, objs)
	h.judge(l, o, "multiDelete", k2)
	// a marker may have been created for k2: discover it through the listing
	_, lo := h.r.ListVersions(VerListReq{Bucket: h.bucket, ClampedMaxKeys: 1000})
	known := map[string]bool{}
	for _, v := range h.vers {
		known[v.counter] = true
	}
	for _, e := range lo.Entries {
		if e.Vid != "-" && !known[e.Vid] && e.Marker {
			h.vers = append(h.vers, verRef{key: e.Key, counter: e.Vid, raw: e.RawVid, marker: true, bornEnabled: true})
			h.bornAny[e.Key] = true
		}
	}
}

var c05Alphabet = []string{"putK", "putK2", "delK", "delK2", "delvNewest", "delvOldest", "delvMarker", "delvUnknown", "multi", "E", "S", "read"}

func (h *vHist) apply(op string, n int) {
	k, k2 := "k", "k/2"
	switch op {
	case "putK":
		h.put(k, []byte(fmt.Sprintf("body-%d", n)))
	case "putK2":
		h.put(k2, []byte(fmt.Sprintf("other-%d", n)))
	case "delK":
		h.del(k)
	case "delK2":
		h.del(k2)
	case "delvNewest":
		h.delv(k, "newest")
	case "delvOldest":
		h.delv(k, "oldest")
	case "delvMarker":
		h.delv(k, "marker")
	case "delvUnknown":
		h.delv(k, "unknown")
	case "multi":
		h.multiDel(k, k2)
	case "E":
		h.setver("E")
	case "S":
		h.setver("S")
	case "read":
		h.readBack([]string{k, k2})
	case "putKmeta":
		h.putMd(k, []byte(fmt.Sprintf("mbody-%d", n)), n)
	case "copyK":
		h.copy(k, k2, n)
	case "copyKself":
		h.copy(k, k, n)
	case "mpInitK":
		h.mpInit(k)
	case "mpCompleteK":
		h.mpComplete(n)
	}
}

func runC05(c *Ctx) {
	depth := 4
	nRand, randLen := 300, 40
	if c.Thorough() {
		depth = 5
		nRand, randLen = 3000, 80
	}
	c.R.Exhaustive = true
	c.R.Rule = fmt.Sprintf("s3mem over HTTP: every history of length ≤ %d over the alphabet %v (ids referred to positionally), each followed by a read-back of the unqualified key and of every version and marker ever created, by GET and HEAD; plus %d random histories of length ≤ %d with a read-back after every step; every answer is compared with the Lean model (complete observation incl. version ids) and with Spec.Versions (what must remain retrievable); WithoutVersioning: versioned requests answer NotImplemented; non-trivial = distinct history containing at least one delete while versions exist", depth, c05Alphabet, nRand, randLen)
	var rec func(prefix []string)
	count := 0
	rec = func(prefix []string) {
		if len(prefix) > 0 {
			h, inst := newVHist(c, "c05")
			if h == nil {
				return
			}
			for i, op := range prefix {
				h.apply(op, i)
			}
			h.readBack([]string{"k", "k/2"})
			inst.Close()
			count++
			if strings.Contains(strings.Join(prefix, ","), "del") && strings.Contains(strings.Join(prefix, ","), "put") {
				c.nontrivial(strings.Join(prefix, ","))
			}
			if len(c.R.Samples) < 3 && len(prefix) == depth && strings.Contains(strings.Join(prefix, ","), "delvNewest") {
				c.sample(strings.Join(prefix, " ; ") + " ; read-back")
			}
		}
		if len(prefix) == depth {
			return
		}
		for _, op := range c05Alphabet {
			if op == "read" {
				continue // a read-back follows every history anyway
			}
			// prune histories that cannot differ: versioned deletes before any put
			if len(prefix) == 0 && strings.HasPrefix(op, "delv") {
				continue
			}
			rec(append(append([]string{}, prefix...), op))
		}
	}
	rec(nil)
	c.hist(fmt.Sprintf("exhaustive-histories"))
	c.R.Hist["exhaustive-histories"] = count
	for i := 0; i < nRand; i++ {
		h, inst := newVHist(c, "c05")
		if h == nil {
			continue
		}
		n := 3 + c.Rng.Intn(randLen)
		var ops []string
		for j := 0; j < n && !h.dead; j++ {
			op := c05Alphabet[c.Rng.Intn(len(c05Alphabet))]
			if c.Rng.Intn(4) == 0 {
				op = "putK"
			}
			if c.Rng.Intn(6) == 0 {
				op = []string{"putKmeta", "putKmeta", "copyK", "copyK", "copyKself", "mpInitK", "mpCompleteK", "mpCompleteK"}[c.Rng.Intn(8)]
			}
			h.apply(op, j)
			ops = append(ops, op)
			if c.Rng.Intn(3) == 0 {
				h.readBack([]string{"k", "k/2"})
			}
		}
		h.readBack([]string{"k", "k/2"})
		inst.Close()
		c.nontrivial(strings.Join(ops, ","))
	}
	// versions created by completing a multipart upload that was initiated before other versions
	// of the key were stored, under a front-end clock that advances one second per reading
	impl.FrontTimeSource = &stepTS{at: impl.FixedTime}
	for _, ops := range [][]string{
		{"E", "mpInitK", "putK", "mpCompleteK", "putK", "delvNewest", "read", "delvNewest", "read", "delvNewest", "read"},
		{"E", "putK", "mpInitK", "putK", "putK", "mpCompleteK", "delvNewest", "read", "delK", "delvMarker", "read"},
		{"mpInitK", "putK", "E", "mpInitK", "putK", "mpCompleteK", "mpCompleteK", "delvNewest", "read", "delvNewest", "read"},
		{"E", "mpInitK", "putK", "S", "E", "mpCompleteK", "putK", "delvNewest", "read", "delvOldest", "read"},
	} {
		h, inst := newVHist(c, "c05")
		if h == nil {
			continue
		}
		for i, op := range ops {
			h.apply(op, i)
		}
		h.readBack([]string{"k", "k/2"})
		inst.Close()
		c.nontrivial(strings.Join(ops, ","))
		c.hist("multipart-version-histories")
	}
	impl.FrontTimeSource = nil
	// versioning switched off: every versioned request → NotImplemented
	h, inst := newVHist(c, "c05", gofakes3.WithoutVersioning())
	if h != nil {
		h.r.tell("cfg mem 0 0 1")
		h.r.tell("vmode 0")
		h.put("k", []byte("x"))
		l, o := h.r.GetV(h.bucket, "k", "3/abc", "1")
		h.judge(l, o, "noversioning:getv", "")
		l, o = h.r.DelV(h.bucket, "k", "3/abc", "1")
		h.judge(l, o, "noversioning:delv", "")
		l, o = h.r.SetVer(h.bucket, "E")
		h.judge(l, o, "noversioning:setver", "")
		l, o = h.r.GetVer(h.bucket)
		h.judge(l, o, "noversioning:getver", "")
		l2, lo := h.r.ListVersions(VerListReq{Bucket: h.bucket, ClampedMaxKeys: 1000})
		h.judge(l2, lo.Obs, "noversioning:listv", "")
		inst.Close()
	}
}

// ---------------------------------------------------------------------------
// C13

func sortedVerEntries(lo VerListObs) string {
	var es []string
	for _, e := range lo.Entries {
		kind := "V"
		if e.Marker {
			kind = "D"
		}
		es = append(es, fmt.Sprintf("%s:%s:%s:%s", hx(e.Key), e.Vid, kind, b01(e.Latest)))
	}
	sort.Slice(es, func(i, j int) bool {
		a, b := strings.SplitN(es[i], ":", 3), strings.SplitN(es[j], ":", 3)
		if a[0] != b[0] {
			return a[0] < b[0]
		}
		var x, y int
		fmt.Sscan(a[1], &x)
		fmt.Sscan(b[1], &y)
		return x < y
	})
	if len(es) == 0 {
		return "specversions -"
	}
	return "specversions " + strings.Join(es, ",")
}

func (h *vHist) listv(q VerListReq, finger string) VerListObs {
	q.Bucket = h.bucket
	line, lo := h.r.ListVersions(q)
	if h.dead {
		return lo
	}
	before := h.c.NMism
	beforeSpec := h.c.NSpecMism
	model, spec, err := h.c.D.Ask(line)
	if err != nil {
		panic(err)
	}
	h.c.R.Evaluations++
	cs := append(append([]string{}, h.r.Lines...), line)
	h.r.Lines = append(h.r.Lines, line)
	fp := "c13:" + finger
	d5 := false
	for k := range h.d5Keys {
		_ = k
		d5 = true
	}
	if lo.Obs == "err InternalError" && !strings.HasPrefix(model, "err ") {
		h.c.mismatch(Mismatch{Kind: "spec", Backend: "mem", Case: cs, Impl: lo.Obs, Model: model, Spec: "a listing, not an internal error", Finger: fp})
	} else if lo.Obs != model {
		h.c.mismatch(Mismatch{Kind: "model", Backend: "mem", Case: cs, Impl: lo.Obs, Model: model, Spec: spec, Finger: fp})
	}
	if lo.OK && !(q.HasDelim && q.Delim != "") && q.KeyMarker == "" && q.ClampedMaxKeys >= 1000 && strings.HasPrefix(spec, "specversions") {
		// unpaginated: exactly the remaining versions and markers, one latest per key, the right one
		got := sortedVerEntries(lo)
		want := spec
		if h.status == "N" {
			// never versioned: ids are reported as "null"
			want = nullIds(spec)
		}
		if got != want {
			if d5 && lo.Obs == model {
				// the known finding D5 is the behaviour the model reproduces
				fp = "c13:suspended-write-over-enabled-version"
			}
			h.c.mismatch(Mismatch{Kind: "spec", Backend: "mem", Case: cs, Impl: got, Model: model, Spec: want, Finger: fp})
		}
	}
	if lo.OK && !(q.HasDelim && q.Delim != "") && !q.HasPrefix && q.KeyMarker == "" && strings.HasPrefix(spec, "specversions") {
		// a first page: truncated exactly when entries remain beyond it
		nSpec := 0
		if body := strings.TrimPrefix(spec, "specversions "); body != "-" {
			nSpec = len(strings.Split(body, ","))
		}
		if !d5 && lo.Trunc != (len(lo.Entries) < nSpec) {
			h.c.mismatch(Mismatch{Kind: "spec", Backend: "mem", Case: cs, Impl: fmt.Sprintf("%d entries returned, IsTruncated=%v", len(lo.Entries), lo.Trunc), Model: model,
				Spec: fmt.Sprintf("%d entries exist: IsTruncated=%v", nSpec, len(lo.Entries) < nSpec), Finger: "c13:truncation-flag"})
		}
	}
	if lo.OK && lo.Trunc && (lo.NextKey == "" || lo.NextVer == "") {
		// the statement: a truncated result supplies key and version markers
		h.c.mismatch(Mismatch{Kind: "spec", Backend: "mem", Case: cs, Impl: fmt.Sprintf("IsTruncated=true NextKeyMarker=%q NextVersionIdMarker=%q", lo.NextKey, lo.NextVer),
			Model: model, Spec: "a truncated page supplies NextKeyMarker and NextVersionIdMarker", Finger: "c13:truncated-without-markers"})
	}
	if h.c.NMism > before {
		if finger == "walk-page" && h.c.NSpecMism == beforeSpec {
			// only the model differs: the walk goes on along the implementation's markers so that the
			// partition specification still judges it; the history ends after the walk
			h.walkDiverged = true
		} else {
			h.dead = true
		}
	}
	return lo
}

// walkv follows NextKeyMarker / NextVersionIdMarker from a first page to the end: the pages'
// entries concatenated must be exactly the unpaginated listing (none skipped or repeated), every
// common prefix reported exactly once, no page larger than max-keys, and the walk must end
func (h *vHist) walkv(q VerListReq, full VerListObs) {
	if h.dead || !full.OK {
		return
	}
	fmtE := func(es []VerEntry) string {
		var out []string
		for _, e := range es {
			out = append(out, fmt.Sprintf("%s:%s:%v:%v", hx(e.Key), e.Vid, e.Marker, e.Latest))
		}
		return strings.Join(out, ",")
	}
	var got []VerEntry
	var gotP []string
	pages := 0
	cur := q
	for {
		lo := h.listv(cur, "walk-page")
		if h.dead || !lo.OK {
			return
		}
		pages++
		h.c.R.Evaluations++
		cs := append([]string{}, h.r.Lines...)
		fail := func(fp, what string) {
			h.c.mismatch(Mismatch{Kind: "spec", Backend: "mem", Case: cs, Impl: what, Spec: "the pages of a walk partition the unpaginated listing " + fmtE(full.Entries) + " P=" + keysLine(full.Prefixes),
				Finger: "c13:" + fp, Note: fmt.Sprintf("walk prefix=%q delim=%q max-keys=%s page=%d", q.Prefix, q.Delim, q.MaxKeys, pages)})
			h.dead = true
		}
		if int64(len(lo.Entries)) > q.ClampedMaxKeys {
			fail("walk:page-too-large", fmt.Sprintf("%d entries on a page of max-keys %d", len(lo.Entries), q.ClampedMaxKeys))
			return
		}
		got = append(got, lo.Entries...)
		gotP = append(gotP, lo.Prefixes...)
		if !lo.Trunc {
			break
		}
		if lo.NextKey == "" || lo.NextVer == "" {
			fail("truncated-without-markers", fmt.Sprintf("IsTruncated=true NextKeyMarker=%q NextVersionIdMarker=%q", lo.NextKey, lo.NextVer))
			return
		}
		if pages > len(full.Entries)+len(full.Prefixes)+3 {
			fail("walk:does-not-terminate", fmt.Sprintf("%d pages for %d entries", pages, len(full.Entries)))
			return
		}
		cur.HasKeyMarker, cur.KeyMarker, cur.VerMarker, cur.VerCounter = true, lo.NextKey, lo.NextVer, vidOf(lo.NextVer)
	}
	if fmtE(got) != fmtE(full.Entries) || keysLine(gotP) != keysLine(full.Prefixes) {
		h.c.mismatch(Mismatch{Kind: "spec", Backend: "mem", Case: append([]string{}, h.r.Lines...), Impl: fmtE(got) + " P=" + keysLine(gotP),
			Spec: "the unpaginated listing: " + fmtE(full.Entries) + " P=" + keysLine(full.Prefixes), Finger: "c13:walk:pages-not-a-partition",
			Note: fmt.Sprintf("walk prefix=%q delim=%q max-keys=%s pages=%d", q.Prefix, q.Delim, q.MaxKeys, pages)})
		h.dead = true
	}
	h.c.hist(fmt.Sprintf("versions-walk:pages=%d", min(pages, 6)))
	if h.walkDiverged {
		h.dead = true
	}
}

func nullIds(spec string) string {
	body := strings.TrimPrefix(spec, "specversions ")
	if body == "-" {
		return spec
	}
	var out []string
	for _, e := range strings.Split(body, ",") {
		p := strings.Split(e, ":")
		p[1] = "-"
		out = append(out, strings.Join(p, ":"))
	}
	return "specversions " + strings.Join(out, ",")
}

func runC13(c *Ctx) {
	nRand := 250
	if c.Thorough() {
		nRand = 4000
	}
	c.R.Rule = fmt.Sprintf("s3mem over HTTP: %d random version histories (put/delete/delete-version/multi-delete/set-versioning over 4 keys, incl. single-version keys, keys whose latest is a delete marker, never-versioned and suspended buckets), each followed by ListObjectVersions unpaginated (compared entry for entry with the Lean model and, as a set with IsLatest flags, with Spec.Versions), with prefixes and delimiters, with every max-keys 1..n+1 and with marker pairs naming existing (key, version) pairs; non-trivial = distinct history with at least two versions of one key", nRand)
	keys := []string{"k", "k/2", "j", "m/x"}
	for i := 0; i < nRand; i++ {
		h, inst := newVHist(c, "c13")
		if h == nil {
			continue
		}
		n := 2 + c.Rng.Intn(14)
		var ops []string
		mode := c.Rng.Intn(4) // 0: never versioned
		if mode != 0 {
			h.setver("E")
		}
		for j := 0; j < n && !h.dead; j++ {
			k := keys[c.Rng.Intn(len(keys))]
			switch x := c.Rng.Intn(12); {
			case x < 6:
				h.put(k, []byte(fmt.Sprintf("b%d", j)))
				ops = append(ops, "put "+k)
			case x < 8:
				h.del(k)
				ops = append(ops, "del "+k)
			case x < 10:
				h.delv(k, []string{"newest", "oldest", "marker"}[c.Rng.Intn(3)])
				ops = append(ops, "delv "+k)
			case x < 11:
				if mode == 2 {
					h.setver([]string{"E", "S"}[c.Rng.Intn(2)])
					ops = append(ops, "setver")
				}
			default:
				h.multiDel(k, keys[c.Rng.Intn(len(keys))])
				ops = append(ops, "multi "+k)
			}
		}
		// listings are also taken while versioning is suspended (ids stay as issued)
		if mode != 0 && c.Rng.Intn(3) == 0 {
			h.setver("S")
			ops = append(ops, "suspend")
		}
		// unpaginated
		lo := h.listv(VerListReq{ClampedMaxKeys: 1000}, "list")
		total := len(lo.Entries)
		// prefixes / delimiters
		for _, pd := range [][2]string{{"k", ""}, {"", "/"}, {"k", "/"}, {"m/", "/"}, {"zz", ""}} {
			h.listv(VerListReq{HasPrefix: pd[0] != "", Prefix: pd[0], HasDelim: pd[1] != "" || h.c.Rng.Intn(2) == 0, Delim: pd[1], ClampedMaxKeys: 1000}, "list-prefix")
		}
		// page sizes: every walk along the returned markers, without and with prefix / delimiter
		for mk := 1; mk <= total+1 && mk <= 6; mk++ {
			h.walkv(VerListReq{MaxKeys: fmt.Sprint(mk), ClampedMaxKeys: int64(mk)}, lo)
		}
		for _, pd := range [][2]string{{"k", ""}, {"", "/"}, {"k", "/"}} {
			fq := VerListReq{HasPrefix: pd[0] != "", Prefix: pd[0], HasDelim: pd[1] != "", Delim: pd[1], ClampedMaxKeys: 1000}
			fl := h.listv(fq, "list-prefix")
			for _, mk := range []int{1, 2, 3} {
				fq.MaxKeys, fq.ClampedMaxKeys = fmt.Sprint(mk), int64(mk)
				h.walkv(fq, fl)
			}
		}
		// marker pairs naming existing versions
		for vi, v := range h.vers {
			if vi > 5 {
				break
			}
			h.listv(VerListReq{HasKeyMarker: true, KeyMarker: v.key, VerMarker: v.raw, VerCounter: v.counter, MaxKeys: "2", ClampedMaxKeys: 2}, "marker-pair")
			h.listv(VerListReq{HasKeyMarker: true, KeyMarker: v.key, ClampedMaxKeys: 1000}, "key-marker")
		}
		inst.Close()
		if len(h.vers) >= 2 {
			c.nontrivial(strings.Join(ops, ","))
		}
		if len(c.R.Samples) < 3 {
			c.sample(strings.Join(ops, " ; ") + " ; listv × prefixes × max-keys × markers")
		}
	}
}

// stepTS: a clock that advances one second every time it is read
type stepTS struct {
	mu sync.Mutex
	at time.Time
}

func (t *stepTS) Now() time.Time {
	t.mu.Lock()
	defer t.mu.Unlock()
	t.at = t.at.Add(time.Second)
	return t.at
}
func (t *stepTS) Since(x time.Time) time.Duration { return t.Now().Sub(x) }
