package main

import (
	"bytes"
	"encoding/base32"
	"encoding/base64"
	"encoding/xml"
	"fmt"
	"net/http"
	"net/url"
	"os"
	"sort"
	"strconv"
	"strings"

	"github.com/johannesboyne/gofakes3"

	"verifharness/internal/drv"
	"verifharness/internal/impl"
)

// Runner issues S3 operations against one backend instance over HTTP and renders each
// response in the canonical observation syntax of the Lean driver (Driver/State.lean).
type Runner struct {
	c     *Ctx
	inst  *impl.Instance
	Lines []string // the driver lines issued so far (replay prefix)
	Host  string
	// fsTrack: on the fs backends, keep the Lean model of the bucket directory tree (Model/FsTree)
	// in step with every bucket/object operation issued through this Runner and compare the
	// directories and files really present, and every refusal, with it
	fsTrack bool
	fsBad   bool
}

// EnableFsTrack switches the directory-tree comparison on (fs backends only; every mutating
// request of the run must go through the Runner)
func (r *Runner) EnableFsTrack() {
	if !r.inst.IsFs() {
		return
	}
	r.fsTrack = true
	if r.inst.IsSingle() {
		r.tell("fsmk " + hx(impl.SingleBucketName))
	}
}

func (r *Runner) fsAsk(line string) string {
	m, _, err := r.c.D.Ask(line)
	if err != nil {
		panic(err)
	}
	return m
}

// fsNote: called after a mutating request; `line` is the request as the replay shows it
func (r *Runner) fsNote(op, b, k string, body []byte, keys []string, obs, line string) {
	if !r.fsTrack || r.fsBad {
		return
	}
	bad := ""
	refused := strings.HasPrefix(obs, "err InvalidArgument")
	switch op {
	case "mkbucket":
		if obs == "ok" {
			r.fsAsk("fsmk " + hx(b))
		}
	case "rmbucket":
		if obs == "ok" {
			r.fsAsk("fsrm " + hx(b))
		}
		return
	case "put":
		switch {
		case strings.HasPrefix(obs, "stored"), strings.HasPrefix(obs, "copied"):
			r.fsAsk("fsmk " + hx(b)) // idempotent; the bucket may have been auto-created
			if m := r.fsAsk(fmt.Sprintf("fsput %s %s %s", hx(b), hx(k), drv.Hex(body))); m == "refused" {
				bad = fmt.Sprintf("%s of %q: implementation %s, the model refuses the key", op, k, obs)
			}
		case refused:
			if m := r.fsAsk(fmt.Sprintf("fscheck %s %s", hx(b), hx(k))); m == "ok" {
				bad = fmt.Sprintf("%s of %q: implementation %s, the model accepts the key", op, k, obs)
			}
		}
	case "del":
		switch {
		case strings.HasPrefix(obs, "deleted"):
			if m := r.fsAsk(fmt.Sprintf("fsdel %s %s", hx(b), hx(k))); m == "refused" {
				bad = fmt.Sprintf("DELETE of %q: implementation %s, the model refuses the key", k, obs)
			}
		case refused:
			if m := r.fsAsk(fmt.Sprintf("fscheck %s %s", hx(b), hx(k))); m == "ok" {
				bad = fmt.Sprintf("DELETE of %q: implementation %s, the model takes the key as valid", k, obs)
			}
		}
	case "delmulti":
		if strings.HasPrefix(obs, "multideleted") {
			for _, kk := range keys {
				r.fsAsk(fmt.Sprintf("fsdel %s %s", hx(b), hx(kk)))
			}
		}
	}
	if bad == "" {
		r.c.R.Evaluations++
		dirs, files, err := r.inst.BucketTree(b)
		m := r.fsAsk("fstree " + hx(b))
		if err == nil && strings.HasPrefix(m, "tree ") {
			var md, mf []string
			for _, part := range strings.Fields(m)[1:] {
				kind, list := part[:2], part[2:]
				if list == "-" {
					continue
				}
				for _, e := range strings.Split(list, ",") {
					if kind == "D=" {
						d, _ := hexDecode(e)
						md = append(md, d)
					} else {
						d, _ := hexDecode(strings.SplitN(e, ":", 2)[0])
						mf = append(mf, d)
					}
				}
			}
			sort.Strings(md)
			sort.Strings(mf)
			if strings.Join(dirs, "\x00") != strings.Join(md, "\x00") || strings.Join(files, "\x00") != strings.Join(mf, "\x00") {
				bad = fmt.Sprintf("after %s %q the bucket holds dirs %q files %q; the model's tree has dirs %q files %q", op, k, dirs, files, md, mf)
			}
		}
	}
	if bad != "" {
		r.fsBad = true
		r.c.mismatch(Mismatch{Kind: "model", Backend: r.inst.Kind, Case: append(append([]string{}, r.Lines...), line), Impl: bad,
			Model: "the directory tree of the fs model (Model/FsTree)", Finger: "fs-tree:" + op})
	}
}

func newRunner(c *Ctx, inst *impl.Instance, auto, failpage, novers bool) *Runner {
	r := &Runner{c: c, inst: inst}
	b := "mem"
	switch {
	case inst.Kind == "bolt":
		b = "bolt"
	case strings.HasPrefix(inst.Kind, "fsM"):
		b = "fsM"
	case strings.HasPrefix(inst.Kind, "fsS"):
		b = "fsS"
	}
	r.tell("reset")
	r.tell(fmt.Sprintf("cfg %s %s %s %s", b, b01(auto), b01(failpage), b01(novers)))
	return r
}

func b01(b bool) string {
	if b {
		return "1"
	}
	return "0"
}

func (r *Runner) tell(line string) {
	r.c.tell(line)
	r.Lines = append(r.Lines, line)
}

// judge sends the op to the driver, compares, records.
func (r *Runner) judge(line, obs, finger string) (model, spec string) {
	model, spec = r.c.check(r.inst.Kind, r.Lines, line, obs, finger)
	r.Lines = append(r.Lines, line)
	return
}

// judgeProj compares projections of the observations. Before projecting, the three
// observations are normalised against each other (normObs): a HEAD error carries no body, so
// an expected "err Code" is compared through its HTTP status; a Content-Type the recorder
// sniffed (none was stored) is dropped.
func (r *Runner) judgeProj(line, obs, finger string, proj func(string) string, specProj func(string) string) (model, spec string) {
	model, spec, err := r.c.D.Ask(line)
	if err != nil {
		panic(err)
	}
	r.c.R.Evaluations++
	cs := append(append([]string{}, r.Lines...), line)
	r.Lines = append(r.Lines, line)
	io, mo := normObs(obs, model)
	is, so := normObs(obs, spec)
	if obs == "hang" || obs == "panic" {
		// no answer at all: the implementation fails on this input whatever the reference says
		r.c.mismatch(Mismatch{Kind: "spec", Backend: r.inst.Kind, Case: cs, Impl: obs, Model: model, Spec: "an answer (" + spec + ")", Finger: finger + ":" + obs})
	} else if (obs == "err InternalError" || obs == "hstatus 500" || obs == "status 500") && !strings.HasPrefix(model, "err ") && !strings.HasPrefix(model, "panic") {
		// a 500 where the reference answers normally: no property's statement admits it
		r.c.mismatch(Mismatch{Kind: "spec", Backend: r.inst.Kind, Case: cs, Impl: obs, Model: model, Spec: "not an internal error (" + spec + ")", Finger: finger})
	} else if spec != "-" && specProj != nil && specProj(is) != specProj(so) {
		r.c.mismatch(Mismatch{Kind: "spec", Backend: r.inst.Kind, Case: cs, Impl: obs, Model: model, Spec: spec, Finger: finger})
	} else if proj(io) != proj(mo) {
		r.c.mismatch(Mismatch{Kind: "model", Backend: r.inst.Kind, Case: cs, Impl: obs, Model: model, Spec: spec, Finger: finger})
	}
	return
}

func normObs(impl, ref string) (string, string) {
	if strings.HasPrefix(impl, "hstatus ") && strings.HasPrefix(ref, "err ") {
		code := strings.TrimPrefix(ref, "err ")
		return impl, fmt.Sprintf("hstatus %d", gofakes3.ErrorCode(code).Status())
	}
	if strings.HasPrefix(impl, "hstatus ") && strings.HasPrefix(ref, "delete-marker") {
		return "hstatus 404", "hstatus 404"
	}
	if i := strings.Index(impl, " meta="); i >= 0 {
		if j := strings.Index(ref, " meta="); j >= 0 {
			ct := hx("Content-Type") + "="
			if !strings.Contains(ref[j:], ct) && strings.Contains(impl[i:], ct) {
				var keep []string
				for _, kv := range strings.Split(impl[i+6:], ",") {
					if !strings.HasPrefix(kv, ct) {
						keep = append(keep, kv)
					}
				}
				m := "-"
				if len(keep) > 0 {
					m = strings.Join(keep, ",")
				}
				impl = impl[:i] + " meta=" + m
			}
		}
	}
	return impl, ref
}

func hx(s string) string { return drv.HexS(s) }

func errObs(resp impl.Resp) string {
	switch {
	case resp.Panic != "":
		return "panic"
	case resp.Hang:
		return "hang"
	}
	if resp.Status == 404 && resp.Header.Get("X-Amz-Delete-Marker") == "true" {
		return "delete-marker vid=" + vidOf(resp.Header.Get("X-Amz-Version-Id"))
	}
	code := resp.ErrCode()
	if code == "" {
		return fmt.Sprintf("status %d", resp.Status)
	}
	return "err " + code
}

// vidOf decodes a gofakes3 s3mem version id into the generator's counter.
func vidOf(v string) string {
	if v == "" {
		return "-"
	}
	if v == "null" {
		return "-"
	}
	raw := strings.TrimPrefix(v, "3/")
	b, err := base32.HexEncoding.DecodeString(raw)
	if err != nil || len(b) < 30 {
		return "?" + v
	}
	n, err := strconv.ParseUint(strings.TrimLeft(string(b[:30]), "0"), 10, 64)
	if err != nil {
		return "?" + v
	}
	return fmt.Sprint(n)
}

func metaLine(md map[string]string) string {
	if len(md) == 0 {
		return "-"
	}
	var ks []string
	for k := range md {
		ks = append(ks, k)
	}
	sort.Strings(ks)
	parts := make([]string, len(ks))
	for i, k := range ks {
		parts[i] = hx(k) + "=" + hx(md[k])
	}
	return strings.Join(parts, ",")
}

var volatileHeaders = map[string]bool{
	"X-Amz-Id-2": true, "X-Amz-Request-Id": true, "X-Amz-Version-Id": true, "X-Amz-Delete-Marker": true,
	"X-Amz-Copy-Source-Version-Id": true,
}

// respMeta extracts the stored-metadata headers of a GET/HEAD response.
func respMeta(h http.Header) string {
	md := map[string]string{}
	for k, v := range h {
		if volatileHeaders[k] {
			continue
		}
		if strings.HasPrefix(k, "X-Amz-") || k == "Content-Type" || k == "Content-Disposition" || k == "Content-Encoding" {
			md[k] = v[0]
		}
	}
	return metaLine(md)
}

func etagHex(e string) string {
	e = strings.Trim(e, `"`)
	if e == "" {
		return "-"
	}
	return e
}

// noteOp records the operation about to be issued (crash attribution for isolated runs)
func (r *Runner) noteOp(what string) {
	if r.c.Only != "" && r.c.Tmp != "" && isolateProps[r.c.R.Property] {
		os.WriteFile(fmt.Sprintf("%s/lastop-%s.txt", r.c.Tmp, r.c.Only), []byte(what), 0644)
	}
}

func (r *Runner) path(bucket, key string) string {
	r.noteOp(fmt.Sprintf("bucket=%q key=%q (request on this path follows)", bucket, key))
	p := "/" + impl.EscapePath(bucket)
	if key != "" {
		p += "/" + impl.EscapePath(key)
	}
	return p
}

func (r *Runner) MkBucket(b string) (string, string) {
	resp := r.inst.Do(impl.Req{Method: "PUT", Path: r.path(b, "")})
	obs := errObs(resp)
	if resp.Status == 200 && resp.Panic == "" {
		obs = "ok"
	}
	r.fsNote("mkbucket", b, "", nil, nil, obs, "mkbucket "+hx(b))
	return "mkbucket " + hx(b), obs
}

func (r *Runner) HeadBucket(b string) (string, string) {
	resp := r.inst.Do(impl.Req{Method: "HEAD", Path: r.path(b, "")})
	obs := ""
	switch {
	case resp.Panic != "":
		obs = "panic"
	case resp.Status == 200:
		obs = "ok"
	case resp.Status == 404:
		obs = "err NoSuchBucket" // HEAD answers carry no body
	default:
		obs = fmt.Sprintf("status %d", resp.Status)
	}
	return "headbucket " + hx(b), obs
}

func (r *Runner) RmBucket(b string, force bool) (string, string) {
	rq := impl.Req{Method: "DELETE", Path: r.path(b, "")}
	if force {
		rq.Header = map[string]string{"x-minio-force-delete": "true"}
	}
	resp := r.inst.Do(rq)
	obs := errObs(resp)
	if resp.Status == 204 && resp.Panic == "" {
		obs = "ok"
	}
	r.fsNote("rmbucket", b, "", nil, nil, obs, "rmbucket "+hx(b))
	if force {
		return "forcerm " + hx(b), obs
	}
	return "rmbucket " + hx(b), obs
}

func (r *Runner) Buckets() (string, string) {
	resp := r.inst.Do(impl.Req{Method: "GET", Path: "/"})
	if resp.Status != 200 || resp.Panic != "" {
		return "buckets", errObs(resp)
	}
	names := listBucketNames(resp.Body)
	sort.Strings(names)
	return "buckets", "buckets " + keysLine(names)
}

func keysLine(ks []string) string {
	if len(ks) == 0 {
		return "-"
	}
	s := make([]string, len(ks))
	for i, k := range ks {
		s[i] = hx(k)
	}
	return strings.Join(s, ",")
}

func (r *Runner) Put(b, k string, md map[string]string, body []byte) (string, string) {
	rq := impl.Req{Method: "PUT", Path: r.path(b, k), Body: bytes.NewReader(body), Header: md}
	resp := r.inst.Do(rq)
	obs := errObs(resp)
	if resp.Status == 200 && resp.Panic == "" {
		obs = "stored " + etagHex(resp.Header.Get("ETag")) + " vid=" + vidOf(resp.Header.Get("X-Amz-Version-Id"))
	}
	r.fsNote("put", b, k, body, nil, obs, fmt.Sprintf("put %s %s", hx(b), hx(k)))
	return fmt.Sprintf("put %s %s %s %s", hx(b), hx(k), metaLine(md), drv.Hex(body)), obs
}

func (r *Runner) getLike(method, b, k, vid string) string {
	rq := impl.Req{Method: method, Path: r.path(b, k)}
	if vid != "" {
		rq.Query = "versionId=" + url.QueryEscape(vid)
	}
	resp := r.inst.Do(rq)
	if resp.Panic != "" || resp.Hang {
		return errObs(resp)
	}
	if resp.Status != 200 {
		if method == "HEAD" {
			if resp.Status == 404 && resp.Header.Get("X-Amz-Delete-Marker") == "true" {
				return "delete-marker vid=" + vidOf(resp.Header.Get("X-Amz-Version-Id"))
			}
			return fmt.Sprintf("hstatus %d", resp.Status)
		}
		return errObs(resp)
	}
	v := vidOf(resp.Header.Get("X-Amz-Version-Id"))
	if method == "HEAD" {
		if len(resp.Body) != 0 {
			return fmt.Sprintf("head-with-body %d", len(resp.Body))
		}
		return fmt.Sprintf("hobj %s %s vid=%s meta=%s", resp.Header.Get("Content-Length"), etagHex(resp.Header.Get("ETag")), v, respMeta(resp.Header))
	}
	if cl := resp.Header.Get("Content-Length"); cl != fmt.Sprint(len(resp.Body)) {
		return fmt.Sprintf("obj-bad-content-length CL=%s len=%d", cl, len(resp.Body))
	}
	return fmt.Sprintf("obj %s %s vid=%s meta=%s", drv.Hex(resp.Body), etagHex(resp.Header.Get("ETag")), v, respMeta(resp.Header))
}

func (r *Runner) Get(b, k string) (string, string) {
	return fmt.Sprintf("get %s %s", hx(b), hx(k)), r.getLike("GET", b, k, "")
}

func (r *Runner) Head(b, k string) (string, string) {
	return fmt.Sprintf("head %s %s", hx(b), hx(k)), r.getLike("HEAD", b, k, "")
}

func (r *Runner) Del(b, k string) (string, string) {
	resp := r.inst.Do(impl.Req{Method: "DELETE", Path: r.path(b, k)})
	obs := errObs(resp)
	if resp.Status == 204 && resp.Panic == "" {
		obs = fmt.Sprintf("deleted marker=%s vid=%s", b01(resp.Header.Get("X-Amz-Delete-Marker") == "true"), vidOf(resp.Header.Get("X-Amz-Version-Id")))
	}
	r.fsNote("del", b, k, nil, nil, obs, fmt.Sprintf("del %s %s", hx(b), hx(k)))
	return fmt.Sprintf("del %s %s", hx(b), hx(k)), obs
}

type xmlDeleteResult struct {
	Deleted []struct {
		Key       string `xml:"Key"`
		VersionID string `xml:"VersionId"`
	} `xml:"Deleted"`
	Error []struct {
		Key  string `xml:"Key"`
		Code string `xml:"Code"`
	} `xml:"Error"`
}

// ObjID is a key with an optional version (real id string) and the counter the model uses.
type ObjID struct {
	Key, Version string
	Counter      string
}

func (r *Runner) DelMulti(b string, objs []ObjID) (string, string) {
	var body bytes.Buffer
	body.WriteString("<Delete>")
	var ids []string
	for _, o := range objs {
		body.WriteString("<Object><Key>")
		xml.EscapeText(&body, []byte(o.Key))
		body.WriteString("</Key>")
		if o.Version == "null" {
			// the only version of a key that has none: for the model a plain delete
			body.WriteString("<VersionId>null</VersionId>")
			ids = append(ids, hx(o.Key))
		} else if o.Version != "" {
			body.WriteString("<VersionId>" + o.Version + "</VersionId>")
			ids = append(ids, hx(o.Key)+"@"+o.Counter)
		} else {
			ids = append(ids, hx(o.Key))
		}
		body.WriteString("</Object>")
	}
	body.WriteString("</Delete>")
	resp := r.inst.Do(impl.Req{Method: "POST", Path: r.path(b, ""), Query: "delete", Body: bytes.NewReader(body.Bytes())})
	obs := errObs(resp)
	if resp.Status == 200 && resp.Panic == "" {
		var d xmlDeleteResult
		if err := xml.Unmarshal(resp.Body, &d); err != nil {
			obs = "unparsable"
		} else {
			var ks []string
			for _, x := range d.Deleted {
				ks = append(ks, x.Key)
			}
			obs = "multideleted " + keysLine(ks)
			if len(d.Error) > 0 {
				obs += fmt.Sprintf(" errors=%d", len(d.Error))
			}
		}
	}
	l := "~"
	if len(ids) > 0 {
		l = strings.Join(ids, ",")
	}
	if r.fsTrack {
		var ks []string
		for _, o := range objs {
			ks = append(ks, o.Key)
		}
		r.fsNote("delmulti", b, "", nil, ks, obs, fmt.Sprintf("delmulti %s %s", hx(b), l))
	}
	return fmt.Sprintf("delmulti %s %s", hx(b), l), obs
}

type xmlCopyResult struct {
	ETag string `xml:"ETag"`
}

func (r *Runner) Copy(sb, sk, db, dk string, md map[string]string) (string, string) {
	h := map[string]string{}
	for k, v := range md {
		h[k] = v
	}
	src := "/" + sb + "/" + url.QueryEscape(sk)
	h["X-Amz-Copy-Source"] = src
	resp := r.inst.Do(impl.Req{Method: "PUT", Path: r.path(db, dk), Header: h})
	obs := errObs(resp)
	if resp.Status == 200 && resp.Panic == "" {
		var d xmlCopyResult
		xml.Unmarshal(resp.Body, &d)
		obs = "copied " + etagHex(d.ETag) + " srcvid=" + vidOf(resp.Header.Get("X-Amz-Copy-Source-Version-Id"))
	}
	if r.fsTrack {
		var body []byte
		if strings.HasPrefix(obs, "copied") {
			g := r.inst.Do(impl.Req{Method: "GET", Path: r.path(db, dk)})
			body = g.Body
		}
		r.fsNote("put", db, dk, body, nil, obs, fmt.Sprintf("copy %s %s %s %s", hx(sb), hx(sk), hx(db), hx(dk)))
	}
	return fmt.Sprintf("copy %s %s %s %s %s", hx(sb), hx(sk), hx(db), hx(dk), metaLine(h)), obs
}

func (r *Runner) SetVer(b, status string) (string, string) {
	body := "<VersioningConfiguration>"
	switch status {
	case "E":
		body += "<Status>Enabled</Status>"
	case "S":
		body += "<Status>Suspended</Status>"
	}
	body += "</VersioningConfiguration>"
	resp := r.inst.Do(impl.Req{Method: "PUT", Path: r.path(b, ""), Query: "versioning", Body: bytes.NewReader([]byte(body))})
	obs := errObs(resp)
	if resp.Status == 200 && resp.Panic == "" {
		obs = "ok"
	}
	return fmt.Sprintf("setver %s %s", hx(b), status), obs
}

type xmlVersioning struct {
	Status string `xml:"Status"`
}

func (r *Runner) GetVer(b string) (string, string) {
	resp := r.inst.Do(impl.Req{Method: "GET", Path: r.path(b, ""), Query: "versioning"})
	obs := errObs(resp)
	if resp.Status == 200 && resp.Panic == "" {
		var d xmlVersioning
		xml.Unmarshal(resp.Body, &d)
		if d.Status == "" {
			d.Status = "None"
		}
		obs = "versioning " + d.Status
	}
	return "getver " + hx(b), obs
}

func (r *Runner) GetV(b, k, vid, counter string) (string, string) {
	return fmt.Sprintf("getv %s %s %s", hx(b), hx(k), counter), r.getLike("GET", b, k, vid)
}

func (r *Runner) HeadV(b, k, vid, counter string) (string, string) {
	return fmt.Sprintf("headv %s %s %s", hx(b), hx(k), counter), r.getLike("HEAD", b, k, vid)
}

func (r *Runner) DelV(b, k, vid, counter string) (string, string) {
	resp := r.inst.Do(impl.Req{Method: "DELETE", Path: r.path(b, k), Query: "versionId=" + url.QueryEscape(vid)})
	obs := errObs(resp)
	if resp.Status == 204 && resp.Panic == "" {
		obs = fmt.Sprintf("deleted marker=%s vid=%s", b01(resp.Header.Get("X-Amz-Delete-Marker") == "true"), vidOf(resp.Header.Get("X-Amz-Version-Id")))
	}
	return fmt.Sprintf("delv %s %s %s", hx(b), hx(k), counter), obs
}

type xmlList struct {
	IsTruncated           bool   `xml:"IsTruncated"`
	NextMarker            string `xml:"NextMarker"`
	NextContinuationToken string `xml:"NextContinuationToken"`
	KeyCount              int    `xml:"KeyCount"`
	Contents              []struct {
		Key  string `xml:"Key"`
		Size int64  `xml:"Size"`
		ETag string `xml:"ETag"`
	} `xml:"Contents"`
	CommonPrefixes []struct {
		Prefix string `xml:"Prefix"`
	} `xml:"CommonPrefixes"`
}

// ListReq describes a ListObjects request.
type ListReq struct {
	Bucket         string
	HasPrefix      bool
	Prefix         string
	HasDelim       bool
	Delim          string
	MarkerKind     string // "", "marker", "token", "start-after"
	Marker         string
	AlsoStartAfter string // V2 with a token: the start-after of the first request sent along again (as SDK paginators do); the token decides
	MaxKeys        string // raw query value, "" = absent
	V2             bool
	ClampedMaxKeys int64
}

type ListObs struct {
	Obs      string
	Keys     []string
	Prefixes []string
	Trunc    bool
	Next     string // decoded continuation ("" none)
	OK       bool
}

func (r *Runner) List(q ListReq) (string, ListObs) {
	v := url.Values{}
	if q.HasPrefix {
		v.Set("prefix", q.Prefix)
	}
	if q.HasDelim {
		v.Set("delimiter", q.Delim)
	}
	if q.V2 {
		v.Set("list-type", "2")
	}
	switch q.MarkerKind {
	case "marker":
		v.Set("marker", q.Marker)
	case "token":
		v.Set("continuation-token", base64.URLEncoding.EncodeToString([]byte(q.Marker)))
		if q.AlsoStartAfter != "" {
			v.Set("start-after", q.AlsoStartAfter)
		}
	case "start-after":
		v.Set("start-after", q.Marker)
	}
	if q.MaxKeys != "" {
		v.Set("max-keys", q.MaxKeys)
	}
	resp := r.inst.Do(impl.Req{Method: "GET", Path: r.path(q.Bucket, ""), Query: v.Encode()})
	line := fmt.Sprintf("list %s %s %s %s %s %s %s %d %s", hx(q.Bucket), b01(q.HasPrefix), hx(q.Prefix), b01(q.HasDelim), hx(q.Delim),
		b01(q.MarkerKind != ""), hx(q.Marker), q.ClampedMaxKeys, b01(q.V2))
	var lo ListObs
	if resp.Status != 200 || resp.Panic != "" {
		lo.Obs = errObs(resp)
		return line, lo
	}
	var d xmlList
	if err := xml.Unmarshal(resp.Body, &d); err != nil {
		lo.Obs = "unparsable"
		return line, lo
	}
	lo.OK = true
	var cs []string
	for _, c := range d.Contents {
		cs = append(cs, fmt.Sprintf("%s:%d:%s", hx(c.Key), c.Size, etagHex(c.ETag)))
		lo.Keys = append(lo.Keys, c.Key)
	}
	for _, p := range d.CommonPrefixes {
		lo.Prefixes = append(lo.Prefixes, p.Prefix)
	}
	next := d.NextMarker
	if q.V2 {
		if d.NextContinuationToken != "" {
			tok, err := base64.URLEncoding.DecodeString(d.NextContinuationToken)
			if err != nil {
				next = "?undecodable"
			} else {
				next = string(tok)
			}
		}
		if d.KeyCount != len(d.Contents)+len(d.CommonPrefixes) {
			lo.Obs = fmt.Sprintf("keycount-mismatch %d", d.KeyCount)
			return line, lo
		}
	}
	lo.Trunc = d.IsTruncated
	lo.Next = next
	cl := "-"
	if len(cs) > 0 {
		cl = strings.Join(cs, ",")
	}
	lo.Obs = fmt.Sprintf("list trunc=%s next=%s C=%s P=%s", b01(d.IsTruncated), hx(next), cl, keysLine(lo.Prefixes))
	return line, lo
}

type xmlVersionEntry struct {
	XMLName   xml.Name
	Key       string `xml:"Key"`
	VersionID string `xml:"VersionId"`
	IsLatest  bool   `xml:"IsLatest"`
	Size      int64  `xml:"Size"`
	ETag      string `xml:"ETag"`
}

type xmlVersions struct {
	IsTruncated         bool              `xml:"IsTruncated"`
	NextKeyMarker       string            `xml:"NextKeyMarker"`
	NextVersionIDMarker string            `xml:"NextVersionIdMarker"`
	Entries             []xmlVersionEntry `xml:",any"`
}

type VerEntry struct {
	Key, Vid, RawVid string
	Marker, Latest   bool
	Size             int64
	ETag             string
}

type VerListObs struct {
	Obs      string
	Entries  []VerEntry
	Prefixes []string
	Trunc    bool
	NextKey  string
	NextVer  string
	OK       bool
}

type VerListReq struct {
	Bucket         string
	HasPrefix      bool
	Prefix         string
	HasDelim       bool
	Delim          string
	KeyMarker      string
	HasKeyMarker   bool
	VerMarker      string // raw id
	VerCounter     string // counter for the model ("-" none)
	MaxKeys        string
	ClampedMaxKeys int64
}

func (r *Runner) ListVersions(q VerListReq) (string, VerListObs) {
	v := url.Values{}
	v.Set("versions", "")
	if q.HasPrefix {
		v.Set("prefix", q.Prefix)
	}
	if q.HasDelim {
		v.Set("delimiter", q.Delim)
	}
	if q.HasKeyMarker {
		v.Set("key-marker", q.KeyMarker)
	}
	if q.VerMarker != "" {
		v.Set("version-id-marker", q.VerMarker)
	}
	if q.MaxKeys != "" {
		v.Set("max-keys", q.MaxKeys)
	}
	resp := r.inst.Do(impl.Req{Method: "GET", Path: r.path(q.Bucket, ""), Query: v.Encode()})
	vc := q.VerCounter
	if vc == "" {
		vc = "-"
	}
	line := fmt.Sprintf("listv %s %s %s %s %s %s %s %d", hx(q.Bucket), b01(q.HasPrefix), hx(q.Prefix), b01(q.HasDelim), hx(q.Delim),
		hx(q.KeyMarker), vc, q.ClampedMaxKeys)
	var lo VerListObs
	if resp.Status != 200 || resp.Panic != "" {
		lo.Obs = errObs(resp)
		return line, lo
	}
	var d xmlVersions
	if err := xml.Unmarshal(resp.Body, &d); err != nil {
		lo.Obs = "unparsable " + err.Error()
		return line, lo
	}
	lo.OK = true
	var es []string
	for _, e := range d.Entries {
		switch e.XMLName.Local {
		case "Version", "DeleteMarker":
			ve := VerEntry{Key: e.Key, RawVid: e.VersionID, Vid: vidOf(e.VersionID), Marker: e.XMLName.Local == "DeleteMarker", Latest: e.IsLatest, Size: e.Size, ETag: etagHex(e.ETag)}
			lo.Entries = append(lo.Entries, ve)
			kind, et := "V", ve.ETag
			if ve.Marker {
				kind, et = "D", "-"
			}
			es = append(es, fmt.Sprintf("%s:%s:%s:%s:%d:%s", hx(e.Key), ve.Vid, kind, b01(e.IsLatest), e.Size, et))
		case "CommonPrefixes":
			// decoded below
		}
	}
	var cp struct {
		CommonPrefixes []struct {
			Prefix string `xml:"Prefix"`
		} `xml:"CommonPrefixes"`
	}
	xml.Unmarshal(resp.Body, &cp)
	for _, p := range cp.CommonPrefixes {
		lo.Prefixes = append(lo.Prefixes, p.Prefix)
	}
	lo.Trunc = d.IsTruncated
	lo.NextKey = d.NextKeyMarker
	lo.NextVer = d.NextVersionIDMarker
	el := "-"
	if len(es) > 0 {
		el = strings.Join(es, ",")
	}
	next := "-"
	if lo.NextKey != "" || lo.NextVer != "" {
		next = hx(lo.NextKey) + ":" + vidOf(lo.NextVer)
	}
	lo.Obs = fmt.Sprintf("versions trunc=%s next=%s E=%s P=%s", b01(d.IsTruncated), next, el, keysLine(lo.Prefixes))
	return line, lo
}
