package main

import (
	"fmt"
	"strings"

	"github.com/johannesboyne/gofakes3"

	"verifharness/internal/impl"
)

func init() { props["C02"] = runC02 }

// headProj: the specification does not carry ETag/metadata/version; compare the parts it has.
func specProjC02(s string) string {
	f := strings.Fields(s)
	if len(f) == 0 {
		return s
	}
	switch f[0] {
	case "obj", "hobj":
		return f[0] + " " + f[1]
	case "stored", "deleted", "multideleted", "copied":
		return "ok"
	}
	return s
}

func ident(s string) string { return s }

// dropVidMeta removes the version and metadata fields (used on backends/configurations where
// the model's bookkeeping is not what is being compared)
func dropMeta(s string) string {
	if i := strings.Index(s, " meta="); i >= 0 {
		return s[:i]
	}
	return s
}

type c02Universe struct {
	buckets []string
	keys    []string
	label   string
}

func runC02(c *Ctx) {
	nSeq, maxLen := 40, 40
	if c.Thorough() {
		nSeq, maxLen = 400, 200
	}
	c.R.Rule = fmt.Sprintf("random operation sequences (createBucket/headBucket/deleteBucket/listBuckets/put/get/head/delete/multiDelete/copy incl. self-copy and cross-bucket copy), %d sequences of length ≤ %d per backend instance and configuration (auto-bucket on/off), over 2–3 buckets × 6 keys chosen to collide (nested keys sharing prefixes; on the fs backends a second universe without file/directory conflicts); every response is compared with the Lean model and with the Lean reference model Spec.S3; non-trivial = distinct (backend, sequence) containing at least one overwrite, delete or copy", nSeq, maxLen)
	colliding := c02Universe{[]string{"bk1", "bk2", "bk3"}, []string{"a", "a/b", "a/b/c", "ab", "a.b", "b"}, "colliding"}
	// incl. keys with a path segment that equals a bucket's own name
	nested := c02Universe{[]string{"bk1", "bk2", "bk3"}, []string{"x", "d/e", "d/f/g", "d-e", "d.e", "h/i", "arc/bk1/f", "arc/bk2/g/h", "arc/" + impl.SingleBucketName + "/f"}, "nested"}
	// the Backend interface itself (no HTTP) against the backend's own Lean model (Model/Bolt)
	for _, kind := range c.kinds(impl.AllKinds) {
		apiSequences(c, kind, nSeq*2, maxLen)
	}
	for _, kind := range c.kinds(impl.AllKinds) {
		for _, auto := range []bool{false, true} {
			universes := []c02Universe{colliding}
			if strings.HasPrefix(kind, "fs") {
				// file/directory conflicts between keys are the business of C10 (an fs backend may
				// refuse such keys); C02 judges the fs backends on keys that do not conflict
				universes = []c02Universe{nested}
			}
			for _, u := range universes {
				n := nSeq
				if u.label == "colliding" && strings.HasPrefix(kind, "fs") {
					n = nSeq / 4
				}
				for s := 0; s < n; s++ {
					c02Sequence(c, kind, auto, u, 1+c.Rng.Intn(maxLen))
				}
				for s := 0; s < n/2+1; s++ {
					c02FillAndEmpty(c, kind, auto, u)
				}
			}
		}
	}
}

func c02Sequence(c *Ctx, kind string, auto bool, u c02Universe, length int) {
	opts := []gofakes3.Option{}
	if auto {
		opts = append(opts, gofakes3.WithAutoBucket(true))
	}
	inst, err := impl.New(kind, c.Tmp, opts...)
	if err != nil {
		c.mismatch(Mismatch{Kind: "model", Backend: kind, Finger: "setup", Impl: err.Error()})
		return
	}
	defer inst.Close()
	r := newRunner(c, inst, auto, false, false)
	r.EnableFsTrack()
	buckets := u.buckets
	if inst.IsSingle() {
		buckets = []string{impl.SingleBucketName}
		if !auto {
			buckets = append(buckets, "other")
		}
		// the single-bucket backend's one bucket always exists
		r.tell("mkbucket " + hx(impl.SingleBucketName))
	}
	interesting := false
	var trace []string
	pickB := func() string { return buckets[c.Rng.Intn(len(buckets))] }
	pickK := func() string { return u.keys[c.Rng.Intn(len(u.keys))] }
	// never-written keys that lie BELOW a key of the universe ("x/y" when "x" is an object): only
	// read and deleted, never written — the reference model answers NoSuchKey / an idempotent delete
	below := func() string {
		k := u.keys[c.Rng.Intn(len(u.keys))]
		return k + []string{"/y", "/y/z", "/"}[c.Rng.Intn(3)] + []string{"", "w"}[c.Rng.Intn(2)]
	}
	pickRead := func() string {
		if c.Rng.Intn(4) == 0 {
			if k := below(); !strings.HasSuffix(k, "/") {
				return k
			}
		}
		return pickK()
	}
	for i := 0; i < length; i++ {
		var line, obs, finger string
		proj := ident
		switch op := c.Rng.Intn(20); {
		case op < 2:
			if inst.IsSingle() {
				continue
			}
			line, obs = r.MkBucket(pickB())
			finger = "createBucket"
		case op < 3:
			line, obs = r.HeadBucket(pickB())
			finger = "headBucket"
		case op < 5:
			if inst.IsSingle() {
				continue
			}
			line, obs = r.RmBucket(pickB(), false)
			finger = "deleteBucket"
		case op < 6:
			if inst.IsSingle() {
				continue
			}
			line, obs = r.Buckets()
			finger = "listBuckets"
		case op < 11:
			md := map[string]string{}
			if c.Rng.Intn(3) == 0 {
				md["X-Amz-Meta-Tag"] = fmt.Sprintf("v%d", c.Rng.Intn(3))
			}
			if c.Rng.Intn(4) == 0 {
				md["Content-Type"] = "text/plain"
			}
			body := c.randBytes(c.Rng.Intn(12))
			line, obs = r.Put(pickB(), pickK(), md, body)
			finger = "put"
		case op < 14:
			line, obs = r.Get(pickB(), pickRead())
			finger = "get"
		case op < 15:
			line, obs = r.Head(pickB(), pickRead())
			finger = "head"
		case op < 17:
			line, obs = r.Del(pickB(), pickRead())
			finger = "delete"
			interesting = true
		case op < 18:
			n := c.Rng.Intn(4)
			var objs []ObjID
			for j := 0; j < n; j++ {
				o := ObjID{Key: pickRead()}
				if kind != "mem" && c.Rng.Intn(2) == 0 {
					// "null" names the only version of a key of an unversioned bucket (what S3 clients send)
					o.Version = "null"
				}
				objs = append(objs, o)
			}
			line, obs = r.DelMulti(pickB(), objs)
			finger = "deleteMulti"
			interesting = true
		default:
			sb, db := pickB(), pickB()
			sk, dk := pickK(), pickK()
			if c.Rng.Intn(4) == 0 {
				db, dk = sb, sk // self-copy
			}
			line, obs = r.Copy(sb, sk, db, dk, nil)
			finger = "copy"
			interesting = true
		}
		if inst.IsFs() {
			finger = "fs:" + fsTrigger(u.label) + ":" + finger
		}
		if inst.IsSingle() && strings.Contains(line, hx("other")) {
			finger += ":other-bucket"
		}
		before := c.NMism
		r.judgeProj(line, obs, finger, proj, specProjC02)
		if c.NMism > before {
			break // model and implementation have diverged; what follows would be noise
		}
		c.hist("op:" + strings.SplitN(line, " ", 2)[0])
		c.hist("answer:" + strings.SplitN(obs, " ", 3)[0] + ":" + errKind(obs))
		trace = append(trace, line)
	}
	if interesting {
		c.nontrivial(kind + "|" + strings.Join(trace, ";"))
	}
	if len(c.R.Samples) < 3 {
		c.sample(fmt.Sprintf("%s auto=%v: %s", kind, auto, trunc(strings.Join(trace, " ; "), 400)))
	}
}

func fsTrigger(label string) string { return label }

func errKind(obs string) string {
	if strings.HasPrefix(obs, "err ") {
		return strings.TrimPrefix(obs, "err ")
	}
	return ""
}

// c02FillAndEmpty: "a bucket whose objects have all been deleted can be deleted" — fill a bucket
// with a random subset of the keys, empty it through a random partition into single deletes and
// multi-object deletes (in shuffled order), then head/list/delete the bucket and re-create it.
func c02FillAndEmpty(c *Ctx, kind string, auto bool, u c02Universe) {
	opts := []gofakes3.Option{}
	if auto {
		opts = append(opts, gofakes3.WithAutoBucket(true))
	}
	inst, err := impl.New(kind, c.Tmp, opts...)
	if err != nil {
		c.mismatch(Mismatch{Kind: "model", Backend: kind, Finger: "setup", Impl: err.Error()})
		return
	}
	defer inst.Close()
	r := newRunner(c, inst, auto, false, false)
	r.EnableFsTrack()
	bucket := "bk1"
	if inst.IsSingle() {
		bucket = impl.SingleBucketName
		r.tell("mkbucket " + hx(bucket))
	} else {
		l, o := r.MkBucket(bucket)
		r.judgeProj(l, o, "fill:createBucket", ident, specProjC02)
	}
	var keys []string
	for _, k := range u.keys {
		if c.Rng.Intn(3) != 0 {
			keys = append(keys, k)
		}
	}
	if inst.IsFs() && fsConflict(keys) {
		return
	}
	step := func(line, obs, finger string) bool {
		before := c.NMism
		r.judgeProj(line, obs, "fill:"+finger, ident, specProjC02)
		return c.NMism == before
	}
	for _, k := range keys {
		l, o := r.Put(bucket, k, nil, []byte("v"+k))
		if !step(l, o, "put") {
			return
		}
	}
	perm := c.Rng.Perm(len(keys))
	for i := 0; i < len(perm); {
		n := 1 + c.Rng.Intn(3)
		if i+n > len(perm) {
			n = len(perm) - i
		}
		if n == 1 && c.Rng.Intn(2) == 0 {
			l, o := r.Del(bucket, keys[perm[i]])
			if !step(l, o, "delete") {
				return
			}
		} else {
			var objs []ObjID
			for _, j := range perm[i : i+n] {
				objs = append(objs, ObjID{Key: keys[j]})
			}
			l, o := r.DelMulti(bucket, objs)
			if !step(l, o, "deleteMulti") {
				return
			}
		}
		i += n
	}
	// nothing may be left: listing with and without delimiter, then the bucket goes
	for _, d := range []string{"", "/"} {
		line, lo := r.List(ListReq{Bucket: bucket, HasDelim: d != "", Delim: d, ClampedMaxKeys: 1000})
		before := c.NMism
		r.judgeProj(line, lo.Obs, "fill:list-after-empty", ident, listProj)
		if c.NMism > before {
			return
		}
	}
	if !inst.IsSingle() {
		l, o := r.RmBucket(bucket, false)
		if !step(l, o, "deleteBucket-after-empty") {
			return
		}
		l, o = r.MkBucket(bucket)
		step(l, o, "recreate")
	}
	c.nontrivial(fmt.Sprintf("fill|%s|%v|%v", kind, keys, perm))
	c.hist("fill-and-empty")
}
