package main

import (
	"bytes"
	"fmt"
	"io"
	"net/url"
	"strings"
	"sync"
	"time"

	"github.com/anishathalye/porcupine"
	"github.com/johannesboyne/gofakes3"

	"verifharness/internal/drv"
	"verifharness/internal/impl"
)

func init() { props["C07"] = runC07 }

// ---------------------------------------------------------------------------
// (A) gate-controlled schedules: exactly one client goroutine runs at a time, between the
// lock-free micro-step boundaries the verif build exposes; the Lean model executes the same
// micro-steps in the same order and every answer must agree.

type gEvent struct {
	tid  int
	kind string // "gate" | "done"
	gate string
	obs  string
}

type gOp struct {
	kind    string // put | get | head | del | list | part | complete | init
	bucket  string
	key     string
	md      map[string]string
	body    []byte
	upload  int // index into uploads
	partNum int
}

type gThread struct {
	id      int
	prog    []gOp
	pc      int
	state   string // idle | gate | done
	gate    string
	release chan struct{}
	atomic  bool // the current request runs without yielding at its gates
	started bool
}

type gSched struct {
	c       *Ctx
	r       *Runner
	threads []*gThread
	events  chan gEvent
	mu      sync.Mutex
	cur     *gThread
	uploads []*mpUpload
}

func (s *gSched) gateHook(name string) {
	s.mu.Lock()
	t := s.cur
	s.mu.Unlock()
	if t == nil || t.atomic {
		return
	}
	s.events <- gEvent{tid: t.id, kind: "gate", gate: name}
	<-t.release
}

func (s *gSched) wait() (gEvent, bool) {
	select {
	case e := <-s.events:
		return e, true
	case <-time.After(15 * time.Second):
		return gEvent{}, false
	}
}

// run one op of the real server; returns (driver line for an atomic op, observation)
func (s *gSched) exec(t *gThread, op gOp) (string, string) {
	r := s.r
	switch op.kind {
	case "put":
		h := map[string]string{}
		for k, v := range op.md {
			h[k] = v
		}
		_, o := r.Put(op.bucket, op.key, h, op.body)
		return "", o
	case "get":
		return r.Get(op.bucket, op.key)
	case "head":
		return r.Head(op.bucket, op.key)
	case "del":
		return r.Del(op.bucket, op.key)
	case "list":
		l, lo := r.List(ListReq{Bucket: op.bucket, ClampedMaxKeys: 1000})
		return l, lo.Obs
	case "part":
		u := s.uploads[op.upload]
		return r.MpPart(u.bucket, u.key, u.id, fmt.Sprint(op.partNum), op.body, "", nil)
	case "complete":
		u := s.uploads[op.upload]
		var list []cpart
		for pn := 1; pn <= 3; pn++ {
			if e, ok := u.etags[pn]; ok {
				list = append(list, cpart{pn, e})
			}
		}
		return r.MpComplete(u.bucket, u.key, u.id, list)
	}
	return "", "?"
}

// specProjC07: the projections of the reference models for the operations of a gated schedule
func specProjC07(s string) string {
	switch {
	case strings.HasPrefix(s, "list ") || strings.HasPrefix(s, "speclist "):
		return listProj(s)
	case strings.HasPrefix(s, "completed") || s == "rejected" || strings.HasPrefix(s, "err Invalid"):
		return mpSpecProj(s)
	}
	return specProjC02(s)
}

func c07Gated(c *Ctx, kind string, nThreads, nOps int) {
	inst, err := impl.New(kind, c.Tmp)
	if err != nil {
		c.mismatch(Mismatch{Kind: "model", Backend: kind, Finger: "setup", Impl: err.Error()})
		return
	}
	defer inst.Close()
	r := newRunner(c, inst, false, false, false)
	bucket := impl.SingleBucketName
	if inst.IsSingle() {
		r.tell("mkbucket " + hx(bucket))
	} else {
		l, o := r.MkBucket(bucket)
		r.judgeProj(l, o, "setup", ident, nil)
	}
	s := &gSched{c: c, r: r, events: make(chan gEvent, 4)}
	keys := []string{"k1", "k2", "d/k3"}[:1+c.Rng.Intn(3)]
	// two pending uploads for the multipart operations
	for i := 0; i < 2; i++ {
		l, o, id := r.MpInit(bucket, "mp-obj", nil)
		r.judgeProj(l, o, "setup", ident, nil)
		s.uploads = append(s.uploads, &mpUpload{bucket: bucket, key: "mp-obj", id: id, parts: map[int][]byte{}, etags: map[int]string{}})
	}
	for i := 0; i < nThreads; i++ {
		t := &gThread{id: i, state: "idle", release: make(chan struct{})}
		for j := 0; j < nOps; j++ {
			k := keys[c.Rng.Intn(len(keys))]
			switch x := c.Rng.Intn(14); {
			case x < 6:
				md := map[string]string{}
				if c.Rng.Intn(2) == 0 {
					md[fmt.Sprintf("X-Amz-Meta-T%d", i)] = fmt.Sprint(j)
				}
				t.prog = append(t.prog, gOp{kind: "put", bucket: bucket, key: k, md: md, body: []byte(fmt.Sprintf("t%d-op%d-%s", i, j, strings.Repeat("x", c.Rng.Intn(5))))})
			case x < 9:
				t.prog = append(t.prog, gOp{kind: "get", bucket: bucket, key: k})
			case x < 10:
				t.prog = append(t.prog, gOp{kind: "head", bucket: bucket, key: k})
			case x < 11:
				t.prog = append(t.prog, gOp{kind: "del", bucket: bucket, key: k})
			case x < 12:
				t.prog = append(t.prog, gOp{kind: "list", bucket: bucket})
			case x < 13:
				t.prog = append(t.prog, gOp{kind: "part", upload: c.Rng.Intn(2), partNum: 1 + c.Rng.Intn(3), body: []byte(fmt.Sprintf("part-t%d-%d", i, j))})
			default:
				t.prog = append(t.prog, gOp{kind: "complete", upload: c.Rng.Intn(2)})
			}
		}
		s.threads = append(s.threads, t)
	}
	gofakes3.VerifSetGate(s.gateHook)
	defer gofakes3.VerifSetGate(nil)
	dead := false
	judge := func(line, obs, finger string) {
		if dead {
			return
		}
		before := c.NMism
		r.judgeProj(line, obs, "c07:gated:"+finger, ident, specProjC07)
		if c.NMism > before {
			dead = true
		}
	}
	var schedule []string
	for !dead {
		var enabled []*gThread
		for _, t := range s.threads {
			if t.state != "done" {
				enabled = append(enabled, t)
			}
		}
		if len(enabled) == 0 {
			break
		}
		t := enabled[c.Rng.Intn(len(enabled))]
		op := t.prog[t.pc]
		schedule = append(schedule, fmt.Sprintf("T%d", t.id))
		s.mu.Lock()
		s.cur = t
		s.mu.Unlock()
		if t.state == "idle" {
			t.atomic = op.kind == "complete"
			go func(t *gThread, op gOp) {
				line, obs := s.exec(t, op)
				s.events <- gEvent{tid: t.id, kind: "done", obs: obs, gate: line}
			}(t, op)
		} else {
			t.release <- struct{}{}
		}
		e, ok := s.wait()
		if !ok {
			c.mismatch(Mismatch{Kind: "spec", Backend: kind, Case: append(append([]string{}, r.Lines...), "schedule "+strings.Join(schedule, ",")), Impl: fmt.Sprintf("thread T%d did not reach its next step within 15 s (%s %s)", t.id, op.kind, op.key), Spec: "no deadlock", Finger: "c07:gated:hang"})
			return
		}
		if e.kind == "gate" {
			t.state, t.gate = "gate", e.gate
			switch {
			case op.kind == "put" && strings.HasSuffix(e.gate, ".afterRead"):
				judge(fmt.Sprintf("cbegin %d %s %s %s", t.id, hx(op.bucket), hx(op.key), metaLine(op.md)), "gate", "put-begin")
			case op.kind == "put" && strings.HasSuffix(e.gate, ".afterMerge"):
				if inst.IsFs() {
					judge(fmt.Sprintf("cbegin %d %s %s %s", t.id, hx(op.bucket), hx(op.key), metaLine(op.md)), "gate", "put-begin")
				}
				judge(fmt.Sprintf("cmerge %d", t.id), "gate", "put-merge")
			case op.kind == "part":
				// nothing of the state has been read yet
			default:
				c.mismatch(Mismatch{Kind: "model", Backend: kind, Case: append([]string{}, r.Lines...), Impl: "unexpected gate " + e.gate + " in " + op.kind, Model: "no gate", Finger: "c07:gated:unexpected-gate"})
				dead = true
			}
			continue
		}
		// the request completed
		switch op.kind {
		case "put":
			if t.state == "idle" && !strings.HasPrefix(e.obs, "stored") {
				// refused before the first gate
				judge(fmt.Sprintf("cbegin %d %s %s %s", t.id, hx(op.bucket), hx(op.key), metaLine(op.md)), e.obs, "put-refused")
			} else {
				judge(fmt.Sprintf("ccommit %d %s", t.id, drv.Hex(op.body)), e.obs, "put-commit")
			}
		case "part":
			judge(e.gate, e.obs, "part")
			if strings.HasPrefix(e.obs, "part ") {
				u := s.uploads[op.upload]
				u.etags[op.partNum] = etagOf(op.body)
			}
		case "complete":
			judge(e.gate, e.obs, "complete")
			if strings.HasPrefix(e.obs, "completed") {
				s.uploads[op.upload].etags = map[int]string{}
			}
		default:
			judge(e.gate, e.obs, op.kind)
		}
		t.state = "idle"
		t.pc++
		if t.pc >= len(t.prog) {
			t.state = "done"
		}
	}
	// let paused goroutines finish
	for _, t := range s.threads {
		if t.state == "gate" {
			s.mu.Lock()
			s.cur = t
			t.atomic = true
			s.mu.Unlock()
			close(t.release)
			<-s.events
		}
	}
	c.nontrivial(kind + "|" + strings.Join(schedule, ","))
	c.hist("gated-schedules:" + kind)
	if len(c.R.Samples) < 3 {
		c.sample(fmt.Sprintf("%s %d threads, schedule %s", kind, nThreads, trunc(strings.Join(schedule, ","), 200)))
	}
}

// ---------------------------------------------------------------------------
// (B) free-running clients; the recorded history is checked for linearizability against a
// per-key register (search for a failing schedule; support, not what the claim rests on).

type regIn struct {
	op   int // 0 put, 1 get, 2 delete
	key  string
	body string
}

type regOut struct {
	body  string
	found bool
	etag  string
	ok    bool
}

var regModel = porcupine.Model{
	Partition: func(history []porcupine.Operation) [][]porcupine.Operation {
		m := map[string][]porcupine.Operation{}
		for _, o := range history {
			k := o.Input.(regIn).key
			m[k] = append(m[k], o)
		}
		var out [][]porcupine.Operation
		for _, v := range m {
			out = append(out, v)
		}
		return out
	},
	Init: func() interface{} { return "\x00absent" },
	Step: func(state, input, output interface{}) (bool, interface{}) {
		st := state.(string)
		in := input.(regIn)
		out := output.(regOut)
		switch in.op {
		case 0:
			if !out.ok {
				return true, st // a refused upload changes nothing
			}
			return true, in.body
		case 1:
			if !out.ok {
				return false, st
			}
			if !out.found {
				return st == "\x00absent", st
			}
			return st == out.body, st
		default:
			return true, "\x00absent"
		}
	},
	Equal: func(a, b interface{}) bool { return a == b },
}

// slowReader delivers its data in small pieces with pauses (a slow uploader)
type slowReader struct {
	data []byte
	pos  int
}

func (s *slowReader) Read(p []byte) (int, error) {
	if s.pos >= len(s.data) {
		return 0, io.EOF
	}
	time.Sleep(200 * time.Microsecond)
	n := 1 + len(s.data)/8
	if n > len(p) {
		n = len(p)
	}
	if s.pos+n > len(s.data) {
		n = len(s.data) - s.pos
	}
	copy(p, s.data[s.pos:s.pos+n])
	s.pos += n
	return n, nil
}

func c07Free(c *Ctx, kind string, nClients, nOps int) {
	inst, err := impl.New(kind, c.Tmp)
	if err != nil {
		c.mismatch(Mismatch{Kind: "model", Backend: kind, Finger: "setup", Impl: err.Error()})
		return
	}
	defer inst.Close()
	bucket := impl.SingleBucketName
	inst.EnsureBucket(bucket)
	keys := []string{"k1", "k2", "d/k3"}[:1+c.Rng.Intn(3)]
	versioned := kind == "mem" && c.Rng.Intn(2) == 0
	if versioned {
		inst.Do(impl.Req{Method: "PUT", Path: "/" + bucket, Query: "versioning", Body: bytes.NewReader([]byte("<VersioningConfiguration><Status>Enabled</Status></VersioningConfiguration>"))})
	}
	type ack struct{ key, vid, body string }
	var acks []ack
	var mu sync.Mutex
	var ops []porcupine.Operation
	var bad []string
	var wg sync.WaitGroup
	seeds := make([]int64, nClients)
	for i := range seeds {
		seeds[i] = c.Rng.Int63()
	}
	start := time.Now()
	for cl := 0; cl < nClients; cl++ {
		wg.Add(1)
		go func(cl int) {
			defer wg.Done()
			rng := newRand(seeds[cl])
			for j := 0; j < nOps; j++ {
				k := keys[rng.Intn(len(keys))]
				in := regIn{key: k}
				var out regOut
				call := time.Since(start).Nanoseconds()
				switch x := rng.Intn(10); {
				case x < 5:
					in.op = 0
					in.body = fmt.Sprintf("c%d-%d-%s", cl, j, strings.Repeat("y", rng.Intn(3000)))
					var body io.Reader = bytes.NewReader([]byte(in.body))
					rq := impl.Req{Method: "PUT", Path: "/" + bucket + "/" + k}
					if rng.Intn(4) == 0 {
						body = &slowReader{data: []byte(in.body)}
						rq.Header = map[string]string{"Content-Length": fmt.Sprint(len(in.body))}
					}
					rq.Body = body
					resp := inst.Do(rq)
					out.ok = resp.Status == 200
					if resp.Panic != "" {
						mu.Lock()
						bad = append(bad, "panic in PUT: "+trunc(resp.Panic, 200))
						mu.Unlock()
					}
					if versioned && out.ok {
						mu.Lock()
						acks = append(acks, ack{k, resp.Header.Get("X-Amz-Version-Id"), in.body})
						mu.Unlock()
					}
				case x < 9:
					in.op = 1
					resp := inst.Do(impl.Req{Method: "GET", Path: "/" + bucket + "/" + k})
					if resp.Panic != "" {
						mu.Lock()
						bad = append(bad, "panic in GET: "+trunc(resp.Panic, 200))
						mu.Unlock()
					}
					switch resp.Status {
					case 200:
						out.ok, out.found, out.body = true, true, string(resp.Body)
						// body, length and ETag belong together
						if resp.Header.Get("Content-Length") != fmt.Sprint(len(resp.Body)) || strings.Trim(resp.Header.Get("ETag"), `"`) != etagOf(resp.Body) {
							mu.Lock()
							bad = append(bad, fmt.Sprintf("GET %s: body of %d bytes with Content-Length %s and ETag %s (md5 of the body is %s)", k, len(resp.Body), resp.Header.Get("Content-Length"), resp.Header.Get("ETag"), etagOf(resp.Body)))
							mu.Unlock()
						}
					case 404:
						out.ok, out.found = true, false
					default:
						out.ok = false
						mu.Lock()
						bad = append(bad, fmt.Sprintf("GET %s answered %d %s", k, resp.Status, resp.ErrCode()))
						mu.Unlock()
					}
				default:
					in.op = 2
					resp := inst.Do(impl.Req{Method: "DELETE", Path: "/" + bucket + "/" + k})
					out.ok = resp.Status == 204
				}
				ret := time.Since(start).Nanoseconds()
				mu.Lock()
				ops = append(ops, porcupine.Operation{ClientId: cl, Input: in, Call: call, Output: out, Return: ret})
				mu.Unlock()
			}
		}(cl)
	}
	done := make(chan struct{})
	go func() { wg.Wait(); close(done) }()
	select {
	case <-done:
	case <-time.After(60 * time.Second):
		c.mismatch(Mismatch{Kind: "spec", Backend: kind, Case: []string{fmt.Sprintf("%d free-running clients × %d operations on keys %v", nClients, nOps, keys)}, Impl: "clients did not finish within 60 s", Spec: "no deadlock", Finger: "c07:free:hang"})
		return
	}
	c.R.Evaluations += len(ops)
	for _, b := range bad {
		fp := "c07:free:inconsistent-read"
		if strings.HasPrefix(b, "panic") {
			fp = "c07:free:panic"
		} else if strings.Contains(b, "answered 5") {
			fp = "c07:free:5xx"
		}
		c.mismatch(Mismatch{Kind: "spec", Backend: kind, Case: []string{fmt.Sprintf("%d free-running clients × %d operations on keys %v (seed-derived programs)", nClients, nOps, keys)}, Impl: b, Spec: "a read returns one whole upload", Finger: fp})
	}
	if versioned {
		// every acknowledged versioned upload got its own id, and that id reads back its bytes
		seen := map[string]int{}
		for i, a := range acks {
			c.R.Evaluations++
			if a.vid == "" {
				c.mismatch(Mismatch{Kind: "spec", Backend: kind, Case: []string{fmt.Sprintf("%d free-running clients on a versioned bucket", nClients)}, Impl: "an acknowledged upload without a version id", Spec: "a fresh version id per upload", Finger: "c07:free:version-ids"})
				break
			}
			if j, dup := seen[a.key+"\x00"+a.vid]; dup {
				c.mismatch(Mismatch{Kind: "spec", Backend: kind, Case: []string{fmt.Sprintf("%d free-running clients × %d operations on a versioned bucket, keys %v", nClients, nOps, keys)},
					Impl: fmt.Sprintf("uploads #%d and #%d of %s were both given version id %s", j, i, a.key, a.vid), Spec: "distinct version ids", Finger: "c07:free:version-ids"})
				break
			}
			seen[a.key+"\x00"+a.vid] = i
		}
		for i, a := range acks {
			if i%7 != 0 && len(acks) > 200 {
				continue
			}
			resp := inst.Do(impl.Req{Method: "GET", Path: "/" + bucket + "/" + a.key, Query: "versionId=" + url.QueryEscape(a.vid)})
			c.R.Evaluations++
			// a later plain DELETE only adds markers, so every uploaded version is still there
			if resp.Status != 200 || string(resp.Body) != a.body {
				c.mismatch(Mismatch{Kind: "spec", Backend: kind, Case: []string{fmt.Sprintf("%d free-running clients × %d operations on a versioned bucket, keys %v", nClients, nOps, keys)},
					Impl: fmt.Sprintf("GET %s?versionId=%s -> %d, %d bytes %q…", a.key, a.vid, resp.Status, len(resp.Body), trunc(string(resp.Body), 16)),
					Spec: fmt.Sprintf("the %d bytes uploaded under that id (%q…)", len(a.body), trunc(a.body, 16)), Finger: "c07:free:version-readback"})
				break
			}
		}
	}
	res := porcupine.CheckOperationsTimeout(regModel, ops, 4*time.Second)
	if res == porcupine.Illegal {
		c.mismatch(Mismatch{Kind: "spec", Backend: kind, Case: []string{fmt.Sprintf("%d free-running clients × %d operations on keys %v", nClients, nOps, keys), historyText(ops)}, Impl: "the recorded history is not linearizable", Spec: "consistent with a sequential order respecting real time", Finger: "c07:free:not-linearizable"})
	}
	c.hist("free-histories:" + kind + ":" + map[porcupine.CheckResult]string{porcupine.Ok: "linearizable", porcupine.Illegal: "illegal", porcupine.Unknown: "unknown"}[res])
	c.nontrivial(fmt.Sprintf("free|%s|%d|%d|%d", kind, nClients, nOps, len(ops)))
}

func historyText(ops []porcupine.Operation) string {
	var sb strings.Builder
	for i, o := range ops {
		if i > 60 {
			sb.WriteString("…")
			break
		}
		in := o.Input.(regIn)
		out := o.Output.(regOut)
		fmt.Fprintf(&sb, "[c%d %d-%d %s %s in=%s out=%v/%s] ", o.ClientId, o.Call/1000, o.Return/1000, []string{"put", "get", "del"}[in.op], in.key, trunc(in.body, 12), out.found, trunc(out.body, 12))
	}
	return sb.String()
}

func runC07(c *Ctx) {
	nGated, nFree, nPairs := 40, 6, 160
	if c.Thorough() {
		nGated, nFree, nPairs = 600, 60, 100000
	}
	c.R.Rule = fmt.Sprintf("(A) %d gate-controlled schedules per backend instance: 2–4 client threads with programs of put/get/head/delete/list/upload-part/complete over 1–3 keys; exactly one thread runs at a time, from one lock-free micro-step boundary (after the body is read, after the metadata merge) to the next, the thread to advance drawn from the seed; the Lean model executes the same micro-steps (cbegin/cmerge/ccommit, atomic steps for the rest) in the same order and every answer — body, length, ETag, version id, metadata, listing — must agree, and agree with the reference model that applies each upload at its commit step; (C) CompleteMultipartUpload parked inside the backend's PutObject while part uploads, ListParts and abort on the same upload are started, then released: every request must be answered (lock-order inversions show as requests that never return) and a completed object is the listed part; (E) pairs of overlapping requests: request A (put, overwrite, delete, copy, multi-delete, get, create/delete bucket) is parked at a verif gate or inside its critical section at the backend's TimeSource.Now() call, request B is started (it completes at once or waits for A's lock), A is released; the two answers and the state read back (bucket, both keys, listing) must equal those of one of the sequential orders A;B / B;A evaluated in the Lean model from a snapshot — over 5 pre-states × all request pairs × 3 park points (quick tier: a seeded sample); (E-v) on the memory backend additionally pairs of overlapping uploads / plain deletes onto ONE key of a versioned bucket under a clock that advances with every reading, 4 park points each, followed by 'upload once more, delete that newest version by id, read and list versions' — version ids, the order of the version stack and the version promoted must be those of a sequential order; (F) a slow reader on every backend instance: a download of a 40 KiB and of a 6 MiB object whose client stalls after the first 4 KiB while the key is overwritten must deliver one of the two bodies in full with that body's ETag and length; (D) contention on the memory backend: 16 clients × 1000 Backend-API uploads onto two keys of a versioned bucket, every acknowledged upload with its own version id that reads back exactly its bytes; (B) %d free-running histories per instance with 2–16 clients incl. slow uploaders, checked for linearizability against a per-key register (porcupine), on the memory backend half of them with versioning enabled (every acknowledged upload has its own version id and that id reads back exactly its bytes) and for body/length/ETag agreement of every read; non-trivial = distinct schedule", nGated, nFree)
	for _, kind := range c.kinds(impl.AllKinds) {
		for i := 0; i < nGated; i++ {
			c07Gated(c, kind, 2+c.Rng.Intn(3), 2+c.Rng.Intn(4))
		}
		for i := 0; i < nFree; i++ {
			c07Free(c, kind, 2+c.Rng.Intn(15), 4+c.Rng.Intn(6))
		}
		for i := 0; i < 3; i++ {
			c07Blocked(c, kind, i)
		}
		if kind == "mem" || kind == "bolt" {
			// the backends whose critical sections can be entered through their TimeSource: the full product
			c07Pairs(c, kind, 100000)
		} else {
			c07Pairs(c, kind, nPairs)
		}
		c07SlowReader(c, kind)
		if kind == "mem" {
			c07PairsVersioned(c)
			rounds := 2
			if c.Thorough() {
				rounds = 12
			}
			for i := 0; i < rounds; i++ {
				c07Stress(c, 16, 1000)
			}
		}
	}
}

// (D) contention: many clients upload small objects to two keys of a versioned memory bucket
// through the Backend API (no HTTP in between, so the lock-free parts of PutObject really
// overlap); every acknowledged upload must have its own version id and that id must read back
// exactly its bytes, and the version listing must show them all.
func c07Stress(c *Ctx, nClients, nPuts int) {
	inst, err := impl.New("mem", c.Tmp)
	if err != nil {
		return
	}
	defer inst.Close()
	vb, ok := inst.Backend.(gofakes3.VersionedBackend)
	if !ok {
		return
	}
	bucket := "stress"
	if err := inst.Backend.CreateBucket(bucket); err != nil {
		return
	}
	vb.SetVersioningConfiguration(bucket, gofakes3.VersioningConfiguration{Status: gofakes3.VersioningEnabled})
	type ack struct{ key, vid, body string }
	acks := make([][]ack, nClients)
	var wg sync.WaitGroup
	for cl := 0; cl < nClients; cl++ {
		wg.Add(1)
		go func(cl int) {
			defer wg.Done()
			defer func() { recover() }()
			for j := 0; j < nPuts; j++ {
				key := []string{"s1", "s2"}[(cl+j)%2]
				body := fmt.Sprintf("c%d-%d", cl, j)
				res, err := inst.Backend.PutObject(bucket, key, map[string]string{}, strings.NewReader(body), int64(len(body)))
				if err == nil {
					acks[cl] = append(acks[cl], ack{key, string(res.VersionID), body})
				}
			}
		}(cl)
	}
	done := make(chan struct{})
	go func() { wg.Wait(); close(done) }()
	desc := []string{fmt.Sprintf("%d clients × %d PutObject calls on 2 keys of a versioned memory bucket (Backend API)", nClients, nPuts)}
	select {
	case <-done:
	case <-time.After(60 * time.Second):
		c.mismatch(Mismatch{Kind: "spec", Backend: "mem", Case: desc, Impl: "clients did not finish within 60 s", Spec: "no deadlock", Finger: "c07:stress:hang"})
		return
	}
	seen := map[string]string{}
	total := 0
	for _, as := range acks {
		for _, a := range as {
			total++
			c.R.Evaluations++
			if a.vid == "" {
				c.mismatch(Mismatch{Kind: "spec", Backend: "mem", Case: desc, Impl: "an acknowledged upload without a version id", Spec: "a fresh version id per upload", Finger: "c07:stress:version-ids"})
				return
			}
			if other, dup := seen[a.vid]; dup {
				c.mismatch(Mismatch{Kind: "spec", Backend: "mem", Case: desc, Impl: fmt.Sprintf("uploads %q and %q were both given version id %q", other, a.body, a.vid), Spec: "distinct version ids", Finger: "c07:stress:version-ids"})
				return
			}
			seen[a.vid] = a.body
		}
	}
	n := 0
	for _, as := range acks {
		for i, a := range as {
			if i%5 != 0 {
				continue
			}
			n++
			obj, err := vb.GetObjectVersion(bucket, a.key, gofakes3.VersionID(a.vid), nil)
			c.R.Evaluations++
			got := ""
			if err == nil {
				b, _ := io.ReadAll(obj.Contents)
				obj.Contents.Close()
				got = string(b)
			}
			if err != nil || got != a.body {
				c.mismatch(Mismatch{Kind: "spec", Backend: "mem", Case: desc, Impl: fmt.Sprintf("version %q of %s reads %q (err %v)", a.vid, a.key, trunc(got, 30), err), Spec: fmt.Sprintf("the bytes uploaded under that id: %q", a.body), Finger: "c07:stress:version-readback"})
				return
			}
		}
	}
	c.nontrivial(fmt.Sprintf("stress|%d|%d", nClients, total))
	c.hist("stress-rounds")
}

// (C) requests that must wait: CompleteMultipartUpload is parked inside the backend's PutObject
// (at the first gate there) while other multipart requests on the same upload are started; they
// may block until the complete goes on, but once it does everything must be answered — a lock
// order inversion between the uploader's locks shows as requests that never return.
func c07Blocked(c *Ctx, kind string, variant int) {
	inst, err := impl.New(kind, c.Tmp)
	if err != nil {
		return
	}
	defer inst.Close()
	r := &Runner{c: c, inst: inst}
	bucket := impl.SingleBucketName
	if !inst.IsSingle() {
		inst.Do(impl.Req{Method: "PUT", Path: "/" + bucket})
	}
	_, _, id := r.MpInit(bucket, "blk", nil)
	if id == "" {
		return
	}
	p1 := []byte("first-part-body")
	r.MpPart(bucket, "blk", id, "1", p1, "", nil)
	parked := make(chan string, 1)
	release := make(chan struct{})
	var once sync.Once
	gofakes3.VerifSetGate(func(name string) {
		if strings.Contains(name, ".PutObject.") {
			first := false
			once.Do(func() { first = true })
			if first {
				parked <- name
				<-release
			}
		}
	})
	defer gofakes3.VerifSetGate(nil)
	type res struct{ who, obs string }
	done := make(chan res, 8)
	go func() {
		_, o := r.MpComplete(bucket, "blk", id, []cpart{{1, etagOf(p1)}})
		done <- res{"complete", o}
	}()
	desc := []string{"backend " + kind, "initiate; upload part 1; CompleteMultipartUpload parked inside PutObject"}
	select {
	case g := <-parked:
		desc = append(desc, "parked at "+g)
	case rr := <-done:
		// no gate inside this backend's PutObject was reached: nothing to test
		_ = rr
		return
	case <-time.After(10 * time.Second):
		c.mismatch(Mismatch{Kind: "spec", Backend: kind, Case: desc, Impl: "CompleteMultipartUpload neither reached PutObject nor answered within 10 s", Spec: "an answer", Finger: "c07:blocked:hang"})
		close(release)
		return
	}
	n := 1
	others := [][]string{{"part"}, {"part", "parts"}, {"part", "abort", "parts"}}[variant%3]
	for _, w := range others {
		n++
		go func(w string) {
			var o string
			switch w {
			case "part":
				_, o = r.MpPart(bucket, "blk", id, "2", []byte("second"), "", nil)
			case "parts":
				_, po := r.MpParts(bucket, "blk", id, "", "", 0, 1000)
				o = po.Obs
			case "abort":
				_, o = r.MpAbort(bucket, "blk", id)
			}
			done <- res{w, o}
		}(w)
	}
	desc = append(desc, "started meanwhile: "+strings.Join(others, ", ")+"; then the complete is released")
	time.Sleep(300 * time.Millisecond)
	close(release)
	got := map[string]string{}
	deadline := time.After(15 * time.Second)
	for len(got) < n {
		select {
		case rr := <-done:
			got[rr.who] = rr.obs
		case <-deadline:
			c.R.Evaluations++
			c.mismatch(Mismatch{Kind: "spec", Backend: kind, Case: desc, Impl: fmt.Sprintf("after 15 s only %v were answered", got), Spec: "every request is answered", Finger: "c07:blocked:hang"})
			return
		}
	}
	c.R.Evaluations++
	for w, o := range got {
		if o == "hang" || o == "panic" {
			c.mismatch(Mismatch{Kind: "spec", Backend: kind, Case: desc, Impl: w + ": " + o, Spec: "every request is answered", Finger: "c07:blocked:hang"})
			return
		}
	}
	// whatever the order, the object a successful complete stored is exactly part 1
	if strings.HasPrefix(got["complete"], "completed") {
		_, g := r.Get(bucket, "blk")
		if !strings.HasPrefix(g, "obj "+drv.Hex(p1)+" ") {
			c.mismatch(Mismatch{Kind: "spec", Backend: kind, Case: desc, Impl: trunc(g, 120), Spec: "the completed object is the listed part", Finger: "c07:blocked:object"})
		}
	} else if !strings.HasPrefix(got["complete"], "err NoSuchUpload") {
		c.mismatch(Mismatch{Kind: "spec", Backend: kind, Case: desc, Impl: "complete: " + got["complete"], Spec: "completed, or NoSuchUpload when an abort came first", Finger: "c07:blocked:complete"})
	}
	c.nontrivial(fmt.Sprintf("blocked|%s|%d", kind, variant))
	c.hist("blocked-requests:" + kind)
}
