package main

import (
	"bytes"
	"fmt"
	"sort"
	"strings"

	"github.com/johannesboyne/gofakes3"

	"verifharness/internal/impl"
)

func init() { props["C03"] = runC03; props["C04"] = runC04 }

// small-alphabet keys: strings over {a,b,/} of length ≤ 3 neither starting nor ending with '/'
func smallKeys() []string {
	var out []string
	allStrings([]byte("ab/"), 3, func(s string) {
		if s != "" && s[0] != '/' && s[len(s)-1] != '/' {
			out = append(out, s)
		}
	})
	sort.Strings(out)
	return out
}

func smallPrefixes() []string {
	var out []string
	allStrings([]byte("ab/"), 3, func(s string) {
		if s == "" || s[0] != '/' {
			out = append(out, s)
		}
	})
	return out
}

// keySets enumerates all subsets of keys with at most maxSize members.
func keySets(keys []string, maxSize int) [][]string {
	var out [][]string
	var rec func(start int, cur []string)
	rec = func(start int, cur []string) {
		out = append(out, append([]string{}, cur...))
		if len(cur) == maxSize {
			return
		}
		for i := start; i < len(keys); i++ {
			rec(i+1, append(cur, keys[i]))
		}
	}
	rec(0, nil)
	return out
}

// fsConflict: a key is a proper path prefix of another ("a" and "a/b"), or has an empty segment
func fsConflict(set []string) bool {
	for _, k := range set {
		if strings.Contains(k, "//") {
			return true
		}
		for _, j := range set {
			if k != j && strings.HasPrefix(j, k+"/") {
				return true
			}
		}
	}
	return false
}

// moveTo brings the bucket from key set cur to key set want by deletes and puts (judged ops).
func moveTo(c *Ctx, r *Runner, bucket string, cur map[string]bool, want []string, finger string) bool {
	w := map[string]bool{}
	for _, k := range want {
		w[k] = true
	}
	var dels, puts []string
	for k := range cur {
		if !w[k] {
			dels = append(dels, k)
		}
	}
	for _, k := range want {
		if !cur[k] {
			puts = append(puts, k)
		}
	}
	sort.Strings(dels)
	// delete deeper keys first so that fs directories empty out
	sort.Slice(dels, func(i, j int) bool { return len(dels[i]) > len(dels[j]) })
	if len(dels) >= 2 && c.Rng.Intn(3) == 0 {
		// one multi-object delete instead of single deletes (shuffled order)
		var objs []ObjID
		for _, i := range c.Rng.Perm(len(dels)) {
			objs = append(objs, ObjID{Key: dels[i]})
		}
		before := c.NMism
		l, o := r.DelMulti(bucket, objs)
		r.judgeProj(l, o, finger+":multidelete", ident, specProjC02)
		for _, k := range dels {
			delete(cur, k)
		}
		dels = nil
		if c.NMism > before {
			return false
		}
	}
	for _, k := range dels {
		before := c.NMism
		l, o := r.Del(bucket, k)
		r.judgeProj(l, o, finger+":delete", ident, specProjC02)
		delete(cur, k)
		if c.NMism > before {
			return false
		}
	}
	for _, k := range puts {
		before := c.NMism
		l, o := r.Put(bucket, k, nil, []byte("v:"+k))
		r.judgeProj(l, o, finger+":put", ident, specProjC02)
		cur[k] = true
		if c.NMism > before {
			return false
		}
	}
	return true
}

func listProj(s string) string {
	// compare Contents and CommonPrefixes (and nothing else) with the specification
	i := strings.Index(s, " C=")
	if i < 0 {
		return s
	}
	return s[i:]
}

func runC03(c *Ctx) {
	maxSet := 2
	nRand := 150
	if c.Thorough() {
		maxSet = 3
		nRand = 2000
	}
	keys := smallKeys()
	prefixes := smallPrefixes()
	sets := keySets(keys, maxSet)
	c.R.Exhaustive = true
	c.R.Rule = fmt.Sprintf("exhaustive: all %d key sets of size ≤ %d over the %d keys in {a,b,/}^≤3 (not starting/ending with '/'), each reached by a put/delete history from the previous set, × all %d prefixes in {a,b,/}^≤3 not starting with '/' × delimiter {none,'/','a'} × {V1,V2}; plus a fixed four-level key tree listed under every prefix at every depth, and %d random listings over richer keys (UTF-8, '-', '.', spaces, '//' on key-value backends); fs backends: key sets without file/directory conflicts; every listing is compared with the Lean model and with Spec.Listing over the reference store; non-trivial = distinct (backend, key set, prefix, delimiter) whose specified listing is non-empty", len(sets), maxSet, len(keys), len(prefixes), nRand)
	for _, kind := range c.kinds(impl.AllKinds) {
		inst, err := impl.New(kind, c.Tmp)
		if err != nil {
			c.mismatch(Mismatch{Kind: "model", Backend: kind, Finger: "setup", Impl: err.Error()})
			continue
		}
		r := newRunner(c, inst, false, false, false)
		r.EnableFsTrack()
		bucket := impl.SingleBucketName
		if inst.IsSingle() {
			r.tell("mkbucket " + hx(bucket))
		} else {
			l, o := r.MkBucket(bucket)
			r.judgeProj(l, o, "setup", ident, nil)
		}
		// every backend groups by whatever single-character delimiter the request names
		delims := []string{"", "/", "a"}
		cur := map[string]bool{}
		ok := true
		doList := func(set []string, pfx, d string, v2 bool, finger string) {
			q := ListReq{Bucket: bucket, HasPrefix: pfx != "" || c.Rng.Intn(2) == 0, Prefix: pfx, HasDelim: d != "" || c.Rng.Intn(2) == 0, Delim: d, V2: v2, ClampedMaxKeys: 1000}
			line, lo := r.List(q)
			before := c.NMism
			_, spec := r.judgeProj(line, lo.Obs, finger, ident, listProj)
			if c.NMism > before {
				return
			}
			if strings.Contains(spec, "C=") && !strings.HasSuffix(spec, "C=- P=-") {
				c.nontrivial(fmt.Sprintf("%s|%v|%s|%s", kind, set, pfx, d))
			}
			c.hist("list:" + map[bool]string{false: "V1", true: "V2"}[v2] + ":delim=" + d)
		}
		for _, set := range sets {
			if inst.IsFs() && fsConflict(set) {
				continue
			}
			if !moveTo(c, r, bucket, cur, set, "c03:history") {
				ok = false
				break
			}
			for _, pfx := range prefixes {
				for _, d := range delims {
					for _, v2 := range []bool{false, true} {
						if !inDomain(set, pfx, d) {
							continue
						}
						if len(set) > 1 && len(pfx) == 3 && v2 {
							continue // V2 differs from V1 only in the envelope; thin out the deepest prefixes
						}
						doList(set, pfx, d, v2, "c03:list:"+fsClass(inst, pfx, d))
					}
				}
			}
			if len(c.R.Samples) < 4 && len(set) == 2 {
				c.sample(fmt.Sprintf("%s keys=%v × %d prefixes × delimiters %q", kind, set, len(prefixes), delims))
			}
		}
		if ok {
			// richer keys
			rich := []string{"x", "x/y", "x/y/z", "x-y", "x.y", "x y", "ü/ö", "ü", "dir/sub/leaf", "dir/sub2/leaf", "dir/file", "dir-file", "zz"}
			if !inst.IsFs() {
				rich = append(rich, "x//y")
			}
			for i := 0; i < nRand && ok; i++ {
				n := 1 + c.Rng.Intn(5)
				var set []string
				for j := 0; j < n; j++ {
					set = append(set, rich[c.Rng.Intn(len(rich))])
				}
				set = uniq(set)
				if inst.IsFs() && fsConflict(set) {
					continue
				}
				if !moveTo(c, r, bucket, cur, set, "c03:history") {
					break
				}
				pf := []string{"", "x", "x/", "x/y", "dir/", "dir/s", "dir/sub/", "ü", "z", "d"}[c.Rng.Intn(10)]
				d := delims[c.Rng.Intn(len(delims))]
				// the statement's domain: keys neither start nor end with the delimiter, the prefix does not start with it
				skip := false
				if d != "" {
					for _, k := range set {
						if strings.HasPrefix(k, d) || strings.HasSuffix(k, d) {
							skip = true
						}
					}
					if strings.HasPrefix(pf, d) {
						skip = true
					}
				}
				if skip {
					continue
				}
				doList(set, pf, d, c.Rng.Intn(2) == 0, "c03:list-rich:"+fsClass(inst, pf, d))
			}
		}
		if ok {
			// a fixed deep tree: every prefix at every depth, with and without delimiter, V1 and V2
			deep := []string{"a/b/c", "a/d", "a/e/f/g", "top", "x/y/z/w", "x/y2"}
			if moveTo(c, r, bucket, cur, deep, "c03:history") {
				for _, pf := range []string{"", "a", "a/", "a/b", "a/e/", "a/e/f", "a/e/f/", "x/y", "x/y/", "x/y/z/", "t", "a/e/f/g",
					// prefixes that run THROUGH an object ("top" and "a/d" are objects): nothing starts with them
					"top/", "top/x/", "top/x/y", "a/d/", "a/d/q/", "a/e/f/g/h/"} {
					for _, d := range delims {
						if d != "" && d != "/" {
							continue
						}
						doList(deep, pf, d, false, "c03:list-deep:"+fsClass(inst, pf, d))
						doList(deep, pf, d, true, "c03:list-deep:"+fsClass(inst, pf, d))
					}
				}
				// copies: the destination is listed under its own key (once), the source stays listed
				// under its own, and a source deleted afterwards is gone from every listing
				cp := func(sk, dk string) {
					l, o := r.Copy(bucket, sk, bucket, dk, nil)
					before := c.NMism
					r.judgeProj(l, o, "c03:history:copy", dropVid, specProjC02)
					if c.NMism == before {
						cur[dk] = true
					} else {
						ok = false
					}
				}
				cp("a/d", "archive/a-d")
				cp("top", "a/b/copied")
				cp("a/b/c", "a/b/c")
				if ok {
					l, o := r.Del(bucket, "top")
					r.judgeProj(l, o, "c03:history:delete", dropVid, specProjC02)
					delete(cur, "top")
					after := []string{"a/b/c", "a/b/copied", "a/d", "a/e/f/g", "archive/a-d", "x/y/z/w", "x/y2"}
					for _, pf := range []string{"", "a", "a/", "a/b/", "archive/", "arch", "t", "top"} {
						for _, d := range []string{"", "/"} {
							doList(after, pf, d, false, "c03:list-after-copy:"+fsClass(inst, pf, d))
						}
					}
					if strings.HasSuffix(kind, "-dir") {
						// an upload the file system refuses (a path segment beyond NAME_MAX) leaves nothing
						// behind: neither the key nor the directories made for it
						long := "refused/sub/" + strings.Repeat("x", 300)
						resp := inst.Do(impl.Req{Method: "PUT", Path: "/" + bucket + "/" + long, Body: bytes.NewReader([]byte("never stored"))})
						if resp.Status == 200 {
							c.hist("c03:long-segment-accepted")
							inst.Do(impl.Req{Method: "DELETE", Path: "/" + bucket + "/" + long})
						} else {
							c.hist("c03:long-segment-refused")
						}
						for _, pf := range []string{"", "r", "refused/", "refused/sub/"} {
							for _, d := range []string{"", "/"} {
								doList(after, pf, d, false, "c03:list-after-refused-upload")
							}
						}
					}
				}
			} else {
				ok = false
			}
		}
		if ok && kind == "mem" {
			// delete-marked keys: a versioned bucket in which plain deletes leave markers behind
			moveTo(c, r, bucket, cur, nil, "c03:history")
			l, o := r.SetVer(bucket, "E")
			r.judgeProj(l, o, "c03:setver", ident, nil)
			vkeys := []string{"a/x", "a/y", "b/x", "c", "c/d/e", "ab"}
			nv := 40
			if c.Thorough() {
				nv = 400
			}
			for i := 0; i < nv; i++ {
				k := vkeys[c.Rng.Intn(len(vkeys))]
				before := c.NMism
				if c.Rng.Intn(2) == 0 {
					l, o = r.Put(bucket, k, nil, []byte(fmt.Sprint("v", i)))
					r.judgeProj(l, o, "c03:versioned:put", dropVid, specProjC02)
				} else {
					l, o = r.Del(bucket, k)
					r.judgeProj(l, o, "c03:versioned:delete", dropVid, specProjC02)
				}
				if c.NMism > before {
					break
				}
				for _, pd := range [][2]string{{"", ""}, {"", "/"}, {"a", "/"}, {"a/", "/"}, {"c", "/"}, {"c/", "/"}, {"a", ""}} {
					doList(vkeys, pd[0], pd[1], c.Rng.Intn(2) == 0, "c03:list-versioned")
				}
			}
		}
		inst.Close()
	}
}

// inDomain: the quantifier of C03 — keys neither start nor end with the delimiter and the
// prefix does not start with it
func inDomain(set []string, pfx, d string) bool {
	if d == "" {
		return true
	}
	if strings.HasPrefix(pfx, d) {
		return false
	}
	for _, k := range set {
		if strings.HasPrefix(k, d) || strings.HasSuffix(k, d) {
			return false
		}
	}
	return true
}

func uniq(xs []string) []string {
	m := map[string]bool{}
	var out []string
	for _, x := range xs {
		if !m[x] {
			m[x] = true
			out = append(out, x)
		}
	}
	sort.Strings(out)
	return out
}

// fsClass names which fs listing path a request takes (ReadDir for '/'-delimited, Walk otherwise)
func fsClass(inst *impl.Instance, pfx, d string) string {
	if !inst.IsFs() {
		return "kv"
	}
	if d == "/" {
		if strings.Contains(pfx, "//") {
			return "fs-prefix-empty-segment"
		}
		if strings.Contains(pfx, "/") {
			return "fs-readdir-nested"
		}
		return "fs-readdir"
	}
	return "fs-walk"
}

// ---------------------------------------------------------------------------
// C04

func runC04(c *Ctx) {
	maxSet := 3
	if c.Thorough() {
		maxSet = 4
	}
	keys := smallKeys()
	// a smaller key universe for walks: the keys that interact (shared prefixes)
	walkKeys := []string{"a", "a/a", "a/b", "ab", "b", "b/a", "a/a/", "ba"}
	_ = keys
	walkKeys = []string{"a", "a/a", "a/b", "ab", "b", "b/a", "ba"}
	sets := keySets(walkKeys, maxSet)
	c.R.Exhaustive = true
	c.R.Rule = fmt.Sprintf("exhaustive walks on s3mem: all %d key sets of size ≤ %d over %v (some members delete-marked via a versioned delete), × prefix/delimiter combinations × max-keys 1..n+1 × start markers {none, every key, every proper prefix of a key, '~'} × {V1 (NextMarker or last key), V2 (continuation token, start-after, and the token together with the repeated start-after)}; every page is compared with the Lean model; the pages of a walk are concatenated and compared with Spec.Listing's unpaginated listing after the start marker (none skipped/repeated, each common prefix once, page size ≤ max-keys, IsTruncated=false only at the end, termination within n+2 pages); bolt/fs: the fallback path with the unimplemented-page option off and on; non-trivial = distinct walk with at least two pages", len(sets), maxSet, walkKeys)
	combos := []struct{ pfx, d string }{{"", ""}, {"", "/"}, {"a", ""}, {"a", "/"}, {"a/", "/"}, {"b", "/"}}
	// paginating backend
	for _, kind := range c.kinds([]string{"mem"}) {
		inst, err := impl.New(kind, c.Tmp)
		if err != nil {
			c.mismatch(Mismatch{Kind: "model", Backend: kind, Finger: "setup", Impl: err.Error()})
			continue
		}
		r := newRunner(c, inst, false, false, false)
		r.EnableFsTrack()
		bucket := impl.SingleBucketName
		l, o := r.MkBucket(bucket)
		r.judgeProj(l, o, "setup", ident, nil)
		cur := map[string]bool{}
		for si, set := range sets {
			if !moveTo(c, r, bucket, cur, set, "c04:history") {
				break
			}
			markers := []string{"", "~"}
			for _, k := range set {
				markers = append(markers, k)
				for i := 1; i < len(k); i++ {
					markers = append(markers, k[:i])
				}
			}
			markers = uniq(markers)
			for _, cb := range combos {
				for mk := 1; mk <= len(set)+1; mk++ {
					for _, start := range markers {
						for _, v2 := range []bool{false, true} {
							if si%3 != 0 && v2 && start != "" {
								continue
							}
							c04Walk(c, r, bucket, set, cb.pfx, cb.d, mk, start, v2)
						}
					}
				}
			}
		}
		// delete-marked members: a versioned bucket where some keys' latest version is a marker
		l, o = r.SetVer(bucket, "E")
		r.judgeProj(l, o, "c04:setver", ident, nil)
		// delete-marked keys before, between and after live keys of one common prefix, and alone
		// under a prefix
		for _, k := range []string{"a", "a/a", "a/b", "a/c", "a/d", "a/e", "b", "b/x", "c/x", "c/y", "d/x"} {
			l, o = r.Put(bucket, k, nil, []byte(k))
			r.judgeProj(l, o, "c04:put", dropVid, nil)
		}
		for _, k := range []string{"a/a", "a/c", "a/e", "b", "c/x", "d/x"} {
			l, o = r.Del(bucket, k)
			r.judgeProj(l, o, "c04:del", ident, nil)
		}
		liveSet := []string{"a", "a/b", "a/d", "b/x", "c/y"}
		for _, cb := range combos {
			for mk := 1; mk <= 6; mk++ {
				for _, v2 := range []bool{false, true} {
					c04Walk(c, r, bucket, liveSet, cb.pfx, cb.d, mk, "", v2)
				}
			}
		}
		for _, cb := range []struct{ pfx, d string }{{"", "/"}, {"a/", "/"}, {"a/", ""}, {"c", "/"}} {
			for mk := 1; mk <= 3; mk++ {
				for _, start := range []string{"a", "a/a", "a/b", "a/c", "b", "c/x"} {
					c04Walk(c, r, bucket, liveSet, cb.pfx, cb.d, mk, start, false)
					c04Walk(c, r, bucket, liveSet, cb.pfx, cb.d, mk, start, true)
				}
			}
		}
		// keys whose continuation tokens need the URL-safe alphabet ('+' and '/' in standard base64),
		// multi-byte keys, keys with characters that must be escaped in a query
		{
			odd := []string{"aa0", "ab~", "ab?x", "ac>", "ad\x7f", "ü~ö", "q?~>", "zz zz", "z&=z"}
			for _, k := range odd {
				l, o = r.Put(bucket, "tok/"+k, nil, []byte(k))
				r.judgeProj(l, o, "c04:put-odd", dropVid, nil)
			}
			var full []string
			for _, k := range odd {
				full = append(full, "tok/"+k)
			}
			for mk := 1; mk <= 3; mk++ {
				for _, v2 := range []bool{false, true} {
					c04Walk(c, r, bucket, full, "tok/", "", mk, "", v2)
					c04Walk(c, r, bucket, full, "tok/", "/", mk, "", v2)
				}
			}
			for _, k := range odd {
				c04Walk(c, r, bucket, full, "tok/", "", 2, "tok/"+k, true)
			}
		}
		// crossing the 1000 clamp
		if c.Thorough() {
			for i := 0; i < 1205; i++ {
				l, o = r.Put(bucket, fmt.Sprintf("big/%04d", i), nil, []byte("x"))
				r.judgeProj(l, o, "c04:put-big", dropVid, nil)
			}
			c04WalkRaw(c, r, bucket, "big/", "", "", "5000", 1000, "", false, 1205)
			c04WalkRaw(c, r, bucket, "big/", "", "", "", 1000, "", true, 1205)
		}
		inst.Close()
	}
	// non-paginating backends: fallback
	for _, kind := range c.kinds([]string{"bolt", "fsM-mem", "fsM-dir", "fsS-mem", "fsS-dir"}) {
		for _, fail := range []bool{false, true} {
			var opts []gofakes3.Option
			if fail {
				opts = append(opts, gofakes3.WithUnimplementedPageError())
			}
			inst, err := impl.New(kind, c.Tmp, opts...)
			if err != nil {
				c.mismatch(Mismatch{Kind: "model", Backend: kind, Finger: "setup", Impl: err.Error()})
				continue
			}
			r := newRunner(c, inst, false, fail, false)
			r.EnableFsTrack()
			bucket := impl.SingleBucketName
			if inst.IsSingle() {
				r.tell("mkbucket " + hx(bucket))
			} else {
				l, o := r.MkBucket(bucket)
				r.judgeProj(l, o, "setup", ident, nil)
			}
			cur := map[string]bool{}
			for _, set := range [][]string{{}, {"a"}, {"a", "b"}, {"a/a", "a/b", "b"}, {"ab", "b/a", "ba"}} {
				if !moveTo(c, r, bucket, cur, set, "c04:history") {
					break
				}
				for _, cb := range combos {
					for _, mkq := range []string{"", "1", "2", "0", "1000"} {
						for _, start := range []string{"", "a", "~"} {
							for _, v2 := range []bool{false, true} {
								clamp := int64(1000)
								if mkq != "" {
									fmt.Sscan(mkq, &clamp)
								}
								kindM := ""
								if start != "" {
									kindM = "marker"
									if v2 {
										kindM = "start-after"
									}
								}
								q := ListReq{Bucket: bucket, HasPrefix: cb.pfx != "", Prefix: cb.pfx, HasDelim: cb.d != "", Delim: cb.d,
									MarkerKind: kindM, Marker: start, MaxKeys: mkq, V2: v2, ClampedMaxKeys: clamp}
								line, lo := r.List(q)
								// the fallback ignores the page: the specification to compare with is the complete listing
								r.judgeProj(line, lo.Obs, "c04:fallback:"+fsClass(inst, cb.pfx, cb.d), ident, nil)
								if lo.OK && lo.Trunc {
									c.mismatch(Mismatch{Kind: "spec", Backend: kind, Case: append(append([]string{}, r.Lines...)), Finger: "c04:fallback-truncated", Impl: lo.Obs, Spec: "IsTruncated=false"})
								}
								c.hist(fmt.Sprintf("fallback:fail=%v", fail))
							}
						}
					}
				}
			}
			inst.Close()
		}
	}
}

func dropVid(s string) string {
	if i := strings.Index(s, " vid="); i >= 0 {
		return s[:i]
	}
	return s
}

func c04Walk(c *Ctx, r *Runner, bucket string, set []string, pfx, d string, maxKeys int, start string, v2 bool) {
	c04WalkRaw(c, r, bucket, pfx, d, start, fmt.Sprint(maxKeys), int64(maxKeys), fmt.Sprintf("%v", set), v2, len(set))
}

func c04WalkRaw(c *Ctx, r *Runner, bucket, pfx, d, start, maxKeysQ string, clamped int64, label string, v2 bool, n int) {
	marker := start
	markerKind := ""
	if start != "" {
		markerKind = "marker"
		if v2 {
			markerKind = "start-after"
		}
	}
	var allC, allP []string
	var specFull string
	pages := 0
	// SDK paginators repeat every parameter of the first request and add the token: a V2 walk that
	// began with start-after keeps sending it (the token decides where the page starts)
	keepStartAfter := ""
	if v2 && start != "" && c.Rng.Intn(2) == 0 {
		keepStartAfter = start
	}
	for {
		q := ListReq{Bucket: bucket, HasPrefix: pfx != "", Prefix: pfx, HasDelim: d != "", Delim: d,
			MarkerKind: markerKind, Marker: marker, MaxKeys: maxKeysQ, V2: v2, ClampedMaxKeys: clamped}
		if markerKind == "token" {
			q.AlsoStartAfter = keepStartAfter
		}
		line, lo := r.List(q)
		_, spec := r.judgeProj(line, lo.Obs, "c04:page", ident, nil)
		if !lo.OK {
			return
		}
		if pages == 0 {
			specFull = spec
		}
		pages++
		c.R.Evaluations++
		fail := func(what string) {
			c.mismatch(Mismatch{Kind: "spec", Backend: r.inst.Kind, Case: append(append([]string{}, r.Lines...)), Finger: "c04:" + what,
				Impl: lo.Obs, Spec: specFull, Note: fmt.Sprintf("walk keys=%s prefix=%q delim=%q max-keys=%s start=%q v2=%v page=%d", label, pfx, d, maxKeysQ, start, v2, pages)})
		}
		if int64(len(lo.Keys)+len(lo.Prefixes)) > clamped {
			fail("page-too-large")
			return
		}
		allC = append(allC, lo.Keys...)
		allP = append(allP, lo.Prefixes...)
		if !lo.Trunc {
			break
		}
		if pages > n+3 {
			fail("walk-does-not-terminate")
			return
		}
		// the continuation the client derives
		next := lo.Next
		if !v2 && next == "" {
			// V1 without delimiter: the last key
			if len(lo.Keys) == 0 {
				fail("truncated-without-continuation")
				return
			}
			next = lo.Keys[len(lo.Keys)-1]
		}
		if v2 && next == "" {
			fail("truncated-without-continuation")
			return
		}
		marker = next
		if v2 {
			markerKind = "token"
		} else {
			markerKind = "marker"
		}
	}
	// concatenation of the pages = the specification's unpaginated listing after the start marker
	want := listProj(specFull)
	var cs []string
	// sizes/etags: compare keys only here (sizes and ETags were compared page by page with the model)
	got := " C=" + keysOnly(allC) + " P=" + keysLine(allP)
	_ = cs
	if keysOfSpec(want) != got {
		c.mismatch(Mismatch{Kind: "spec", Backend: r.inst.Kind, Case: append(append([]string{}, r.Lines...)), Finger: "c04:pages-not-a-partition",
			Impl: got, Spec: keysOfSpec(want), Note: fmt.Sprintf("walk keys=%s prefix=%q delim=%q max-keys=%s start=%q v2=%v pages=%d", label, pfx, d, maxKeysQ, start, v2, pages)})
	}
	if pages >= 2 {
		c.nontrivial(fmt.Sprintf("%s|%s|%s|%s|%s|%v", label, pfx, d, maxKeysQ, start, v2))
	}
	c.hist(fmt.Sprintf("walk:pages=%d", min(pages, 6)))
}

func min(a, b int) int {
	if a < b {
		return a
	}
	return b
}

func keysOnly(ks []string) string { return keysLine(ks) }

// keysOfSpec turns " C=k:size:etag,… P=…" into " C=k,… P=…"
func keysOfSpec(s string) string {
	i := strings.Index(s, " C=")
	j := strings.Index(s, " P=")
	if i < 0 || j < 0 {
		return s
	}
	cs := s[i+3 : j]
	if cs == "-" {
		return s
	}
	var ks []string
	for _, e := range strings.Split(cs, ",") {
		ks = append(ks, strings.SplitN(e, ":", 2)[0])
	}
	return " C=" + strings.Join(ks, ",") + s[j:]
}
