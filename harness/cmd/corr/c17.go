package main

import (
	"bytes"
	"fmt"
	"sort"
	"strings"

	"github.com/johannesboyne/gofakes3"

	"verifharness/internal/drv"
	"verifharness/internal/impl"
)

func init() { props["C17"] = runC17 }

var c17Alphabet = []byte{'a', 'z', '0', '9', '-', '.', 'A', '_'}

func allStrings(alpha []byte, maxLen int, f func(string)) {
	var rec func(prefix []byte)
	rec = func(prefix []byte) {
		f(string(prefix))
		if len(prefix) == maxLen {
			return
		}
		for _, c := range alpha {
			rec(append(prefix, c))
		}
	}
	rec(nil)
}

func c17Special() []string {
	var out []string
	// lengths 1..70 of valid characters
	for n := 1; n <= 70; n++ {
		out = append(out, strings.Repeat("a", n))
		if n >= 3 {
			out = append(out, "a"+strings.Repeat("-", n-2)+"b", "abc"+strings.Repeat(".abc", (n-3)/4))
		}
	}
	octs := []string{"0", "1", "9", "10", "99", "100", "199", "255", "256", "999", "000", "001", "010", "0xx", "1a1"}
	for _, a := range octs {
		for _, b := range []string{"100", "255", "256", "0", "012"} {
			out = append(out, a+"."+b+"."+"100"+"."+"200", "100.200."+a+"."+b, a+"."+b+".100", a+"."+b+".100.200.100")
		}
	}
	out = append(out, "192.168.5.4", "100.100.100.100", "255.255.255.255", "256.256.256.256", "100.100.100", "100.100.100.100.100",
		"::1", "fe80::1", "1::", "abc:def", "100.100.100.1000", "100.100.100.-10", "1e1.100.100.100", "100.100.100.100.",
		".100.100.100.100", "abc", "ab", "a", "", "abc.def", "abc..def", ".abc", "abc.", "abc.de", "ab.cde", "a-b", "-ab", "ab-", "a--b",
		"abc-.def", "abc.-def", "ABC", "aBc", "abc_def", "abc def", "abc/def", "abc\n", "\nabc", "abc\x00", "ab\xc3\xa9", "xn--abc", "my-bucket.data1",
		"aaa.bbb.ccc.ddd.eee", "0a0", "000", "0-0", "9.9.9.9", "a1.b2.c3", strings.Repeat("abc.", 15)+"abc", strings.Repeat("abc.", 15)+"abcd")
	return out
}

func runC17(c *Ctx) {
	maxLen := 5
	if c.Thorough() {
		maxLen = 6
	}
	c.R.Exhaustive = true
	c.R.Rule = fmt.Sprintf("function level: every string over {a,z,0,9,-,.,A,_} of length ≤ %d against the real ValidateBucketName, plus lengths 1..70, IP-looking and hostile names, plus random names; HTTP level: PUT /<name> then ListBuckets on mem (all strings of length ≤ 4 that are routable), bolt and fsM (sampled); non-trivial = distinct name of length ≥ 3 (the length window does not decide alone)", maxLen)
	judge := func(backend, name, obs string) {
		line := "validate " + drv.HexS(name)
		model, _ := c.check(backend, nil, line, obs, "validate:"+classifyName(name))
		c.hist("validate:" + model)
		if len(name) >= 3 && len(name) <= 63 {
			c.nontrivial(name)
		}
	}
	fn := func(name string) {
		obs := "ok"
		if err := gofakes3.ValidateBucketName(name); err != nil {
			if gofakes3.HasErrorCode(err, gofakes3.ErrInvalidBucketName) {
				obs = "err InvalidBucketName"
			} else {
				obs = "err other:" + err.Error()
			}
		}
		judge("func", name, obs)
	}
	allStrings(c17Alphabet, maxLen, fn)
	for _, s := range c17Special() {
		fn(s)
		c.sample(fmt.Sprintf("%q", s))
	}
	// random names from a richer alphabet, biased towards nearly-valid ones
	nrand := 20000
	if c.Thorough() {
		nrand = 300000
	}
	rich := []byte("abcxyz0189-.._AZ")
	for i := 0; i < nrand; i++ {
		n := 1 + c.Rng.Intn(20)
		if c.Rng.Intn(10) == 0 {
			n = 55 + c.Rng.Intn(15)
		}
		b := make([]byte, n)
		for j := range b {
			if c.Rng.Intn(8) == 0 {
				b[j] = rich[c.Rng.Intn(len(rich))]
			} else {
				b[j] = rich[c.Rng.Intn(11)]
			}
		}
		fn(string(b))
	}

	// HTTP level
	for _, kind := range c.kinds([]string{"mem", "bolt", "fsM-mem", "fsM-dir"}) {
		inst, err := impl.New(kind, c.Tmp)
		if err != nil {
			c.mismatch(Mismatch{Kind: "model", Backend: kind, Finger: "setup", Impl: err.Error()})
			continue
		}
		var names []string
		if kind == "mem" {
			allStrings(c17Alphabet, 4, func(s string) { names = append(names, s) })
		} else {
			allStrings(c17Alphabet, 3, func(s string) { names = append(names, s) })
			k := 1500
			if c.Thorough() {
				k = 8000
			}
			var l4 []string
			allStrings(c17Alphabet[:6], 5, func(s string) {
				if len(s) >= 4 {
					l4 = append(l4, s)
				}
			})
			for i := 0; i < k; i++ {
				names = append(names, l4[c.Rng.Intn(len(l4))])
			}
		}
		names = append(names, c17Special()...)
		created := map[string]bool{}
		seen := map[string]bool{}
		for _, name := range names {
			// names that cannot be the bucket segment of a path are outside the HTTP domain
			if name == "" || strings.ContainsAny(name, "/?#\x00\n ") || seen[name] || strings.Trim(name, "/") != name {
				continue
			}
			seen[name] = true
			r := inst.Do(impl.Req{Method: "PUT", Path: "/" + impl.EscapePath(name)})
			obs := ""
			switch {
			case r.Panic != "":
				obs = "panic"
			case r.Status == 200:
				obs = "ok"
				created[name] = true
			default:
				obs = "err " + r.ErrCode()
			}
			judge(kind, name, obs)
		}
		// no backend lists a bucket that was not created, and lists every created one
		r := inst.Do(impl.Req{Method: "GET", Path: "/"})
		listed := listBucketNames(r.Body)
		var want []string
		for n := range created {
			want = append(want, n)
		}
		sort.Strings(want)
		sort.Strings(listed)
		c.R.Evaluations++
		if strings.Join(want, ",") != strings.Join(listed, ",") {
			c.mismatch(Mismatch{Kind: "spec", Backend: kind, Finger: "listbuckets", Case: []string{"PUT of every generated name, then GET /"},
				Impl: fmt.Sprintf("%d listed", len(listed)) + " " + diffSets(want, listed), Spec: fmt.Sprintf("%d created", len(want))})
		}
		c.hist(fmt.Sprintf("http:%s:created", kind))
		inst.Close()
	}
	// the decision does not depend on what happened to the name before: a valid name is accepted
	// again after its bucket was deleted or force-deleted (also across a restart of the persistent
	// backends), and a bucket comes into being through create-bucket only — not through an upload
	// completed after its bucket was deleted
	for _, kind := range c.kinds([]string{"mem", "bolt", "fsM-mem", "fsM-dir"}) {
		inst, err := impl.New(kind, c.Tmp)
		if err != nil {
			c.mismatch(Mismatch{Kind: "model", Backend: kind, Finger: "setup", Impl: err.Error()})
			continue
		}
		var trace []string
		do := func(rq impl.Req) impl.Resp {
			trace = append(trace, rq.Method+" "+rq.Path+map[bool]string{true: "?" + rq.Query, false: ""}[rq.Query != ""])
			return inst.Do(rq)
		}
		fail := func(fp, got, want string) {
			c.mismatch(Mismatch{Kind: "spec", Backend: kind, Finger: fp, Case: append([]string{}, trace...), Impl: got, Spec: want})
		}
		listed := func() string {
			ns := listBucketNames(inst.Do(impl.Req{Method: "GET", Path: "/"}).Body)
			sort.Strings(ns)
			return strings.Join(ns, ",")
		}
		for _, name := range []string{"seed-bucket.one", "abc", "a1.b2-c3", "my.bucket-3", "xn--abc"} {
			if _, spec, err := c.D.Ask("validate " + drv.HexS(name)); err != nil || spec != "ok" {
				c.hist("lifecycle:name-not-valid:" + name)
				continue
			}
			p := "/" + name
			for round, how := range []string{"delete", "force-delete", "force-delete-nonempty", "reopen-force-delete"} {
				c.R.Evaluations++
				if r := do(impl.Req{Method: "PUT", Path: p}); r.Status != 200 {
					fail("lifecycle:valid-name-refused", fmt.Sprintf("create of %q (round %d, after %s) -> %d %s", name, round, how, r.Status, r.ErrCode()), "a valid name that names no bucket is accepted")
					break
				}
				if got := listed(); got != name {
					fail("lifecycle:listbuckets", "listed: "+got, "listed: "+name)
					break
				}
				switch how {
				case "delete":
					do(impl.Req{Method: "DELETE", Path: p})
				case "force-delete":
					do(impl.Req{Method: "DELETE", Path: p, Header: map[string]string{"x-minio-force-delete": "true"}})
				case "force-delete-nonempty":
					do(impl.Req{Method: "PUT", Path: p + "/obj", Body: bytes.NewReader([]byte("x"))})
					do(impl.Req{Method: "DELETE", Path: p, Header: map[string]string{"x-minio-force-delete": "true"}})
				case "reopen-force-delete":
					do(impl.Req{Method: "PUT", Path: p + "/obj", Body: bytes.NewReader([]byte("x"))})
					do(impl.Req{Method: "DELETE", Path: p, Header: map[string]string{"x-minio-force-delete": "true"}})
					if kind != "mem" && kind != "fsM-mem" {
						trace = append(trace, "reopen")
						if err := inst.Reopen(); err != nil {
							fail("lifecycle:reopen", err.Error(), "the store opens")
						}
					}
				}
				if got := listed(); got != "" {
					fail("lifecycle:listbuckets", "after "+how+" listed: "+got, "no bucket")
					break
				}
			}
			// keys that climb out of the bucket create no bucket
			c.R.Evaluations++
			do(impl.Req{Method: "PUT", Path: p})
			for _, k := range []string{"../ghost-bucket/key", "../../ghost-two/key", "./../ghost-three/key", "..%2Fghost-four%2Fkey"} {
				do(impl.Req{Method: "PUT", Path: p + "/" + k, Body: bytes.NewReader([]byte("g"))})
			}
			if got := listed(); got != name {
				fail("lifecycle:bucket-not-created", "after uploads of keys beginning with ../ listed: "+got, "listed: "+name+" (no other bucket was created)")
			}
			do(impl.Req{Method: "DELETE", Path: p, Header: map[string]string{"x-minio-force-delete": "true"}})
			// an upload completed after its bucket was deleted creates no bucket
			c.R.Evaluations++
			do(impl.Req{Method: "PUT", Path: p})
			ir := do(impl.Req{Method: "POST", Path: p + "/mp/obj", Query: "uploads"})
			id := between(string(ir.Body), "<UploadId>", "</UploadId>")
			if id != "" {
				body := []byte("part-one")
				pr := do(impl.Req{Method: "PUT", Path: p + "/mp/obj", Query: "uploadId=" + id + "&partNumber=1", Body: bytes.NewReader(body)})
				do(impl.Req{Method: "DELETE", Path: p})
				etag := pr.Header.Get("ETag")
				cr := do(impl.Req{Method: "POST", Path: p + "/mp/obj", Query: "uploadId=" + id, Body: bytes.NewReader([]byte("<CompleteMultipartUpload><Part><PartNumber>1</PartNumber><ETag>" + etag + "</ETag></Part></CompleteMultipartUpload>"))})
				if got := listed(); got != "" {
					fail("lifecycle:bucket-not-created", fmt.Sprintf("complete answered %d %s; listed: %s", cr.Status, cr.ErrCode(), got), "no bucket: the only one was deleted")
				}
				if hr := do(impl.Req{Method: "HEAD", Path: p}); hr.Status == 200 {
					fail("lifecycle:bucket-not-created", "HEAD bucket -> 200", "the deleted bucket stays deleted")
				}
			}
			do(impl.Req{Method: "DELETE", Path: p, Header: map[string]string{"x-minio-force-delete": "true"}})
		}
		c.hist(fmt.Sprintf("http:%s:lifecycle", kind))
		inst.Close()
	}
	// auto-bucket: an upload into a bucket that does not exist creates it — a bucket all the
	// same: whatever then shows in the bucket list must have a name the rules accept
	for _, kind := range c.kinds([]string{"mem", "bolt", "fsM-mem", "fsM-dir"}) {
		inst, err := impl.New(kind, c.Tmp, gofakes3.WithAutoBucket(true))
		if err != nil {
			c.mismatch(Mismatch{Kind: "model", Backend: kind, Finger: "setup", Impl: err.Error()})
			continue
		}
		var names []string
		allStrings(c17Alphabet, 3, func(s string) { names = append(names, s) })
		names = append(names, c17Special()...)
		seen := map[string]bool{}
		for _, name := range names {
			if name == "" || strings.ContainsAny(name, "/?#\x00\n ") || seen[name] || strings.Trim(name, "/") != name {
				continue
			}
			seen[name] = true
			inst.Do(impl.Req{Method: "PUT", Path: "/" + impl.EscapePath(name) + "/obj", Body: bytes.NewReader([]byte("x"))})
		}
		// the create-bucket operation itself decides as without the option
		nExplicit := 0
		for name := range seen {
			if nExplicit >= 400 && !c.Thorough() {
				break
			}
			nExplicit++
			_, spec, err := c.D.Ask("validate " + drv.HexS(name))
			if err != nil {
				panic(err)
			}
			cr := inst.Do(impl.Req{Method: "PUT", Path: "/" + impl.EscapePath(name)})
			c.R.Evaluations++
			got := "ok"
			if cr.Status != 200 {
				got = "err " + cr.ErrCode()
			}
			// a valid name may exist already (created by the upload above)
			if (spec == "ok" && got != "ok" && got != "err BucketAlreadyExists") || (spec != "ok" && got != "err InvalidBucketName") {
				c.mismatch(Mismatch{Kind: "spec", Backend: kind, Finger: "autobucket-create:" + classifyName(name), Case: []string{"WithAutoBucket(true)", fmt.Sprintf("PUT /%s", name)},
					Impl: got, Spec: map[bool]string{true: "ok (or BucketAlreadyExists)", false: "err InvalidBucketName"}[spec == "ok"]})
				break
			}
		}
		r := inst.Do(impl.Req{Method: "GET", Path: "/"})
		for _, n := range listBucketNames(r.Body) {
			_, spec, err := c.D.Ask("validate " + drv.HexS(n))
			if err != nil {
				panic(err)
			}
			c.R.Evaluations++
			if spec != "ok" {
				c.mismatch(Mismatch{Kind: "spec", Backend: kind, Finger: "autobucket-invalid-name", Case: []string{"WithAutoBucket(true)", fmt.Sprintf("PUT /%s/obj", n), "GET /"},
					Impl: fmt.Sprintf("bucket %q exists and is listed", n), Spec: "no bucket with a name the rules refuse"})
				break
			}
		}
		c.hist(fmt.Sprintf("http:%s:autobucket", kind))
		inst.Close()
	}
}

func diffSets(want, got []string) string {
	w := map[string]bool{}
	for _, x := range want {
		w[x] = true
	}
	g := map[string]bool{}
	for _, x := range got {
		g[x] = true
	}
	var extra, missing []string
	for _, x := range got {
		if !w[x] {
			extra = append(extra, x)
		}
	}
	for _, x := range want {
		if !g[x] {
			missing = append(missing, x)
		}
	}
	if len(extra) > 5 {
		extra = extra[:5]
	}
	if len(missing) > 5 {
		missing = missing[:5]
	}
	return fmt.Sprintf("extra=%q missing=%q", extra, missing)
}

func classifyName(n string) string {
	switch {
	case len(n) < 3 || len(n) > 63:
		return "length"
	case strings.Count(n, ".") == 3 && strings.Trim(n, "0123456789.") == "":
		return "ip-like"
	case strings.Contains(n, "."):
		return "labels"
	default:
		return "single-label"
	}
}

