package main

import (
	"bytes"
	"crypto/md5"
	"encoding/hex"
	"encoding/xml"
	"fmt"
	"net/url"
	"sort"
	"strings"

	"verifharness/internal/drv"
	"verifharness/internal/impl"
)

func init() { props["C06"] = runC06; props["C14"] = runC14 }

type mpUpload struct {
	bucket, key, id string
	parts           map[int][]byte // latest body per part number (harness bookkeeping for generating lists)
	etags           map[int]string
	stale           map[int]string // an ETag of an overwritten upload of that number, if any
}

type xmlInitiate struct {
	UploadID string `xml:"UploadId"`
}

func (r *Runner) MpInit(b, k string, md map[string]string) (string, string, string) {
	resp := r.inst.Do(impl.Req{Method: "POST", Path: r.path(b, k), Query: "uploads", Header: md})
	obs := errObs(resp)
	id := ""
	if resp.Status == 200 && resp.Panic == "" {
		var d xmlInitiate
		xml.Unmarshal(resp.Body, &d)
		id = d.UploadID
		obs = "upload " + id
	}
	return fmt.Sprintf("mpinit %s %s %s", hx(b), hx(k), metaLine(md)), obs, id
}

func (r *Runner) MpPart(b, k, id, n string, body []byte, declared string, hdr map[string]string) (string, string) {
	h := map[string]string{}
	for kk, v := range hdr {
		h[kk] = v
	}
	if declared != "" {
		h["Content-Length"] = declared
	}
	resp := r.inst.Do(impl.Req{Method: "PUT", Path: r.path(b, k), Query: "uploadId=" + url.QueryEscape(id) + "&partNumber=" + url.QueryEscape(n),
		Body: bytes.NewReader(body), Header: h})
	obs := errObs(resp)
	if resp.Status == 200 && resp.Panic == "" {
		obs = "part " + drv.HexS(strings.Trim(resp.Header.Get("ETag"), `"`))
	}
	d := declared
	if d == "" {
		d = fmt.Sprint(len(body))
	}
	return fmt.Sprintf("mppart %s %s %s %s %s %s", hx(b), hx(k), id, n, d, drv.Hex(body)), obs
}

type cpart struct {
	n    int
	etag string
}

type xmlComplete struct {
	ETag string `xml:"ETag"`
}

func (r *Runner) MpComplete(b, k, id string, parts []cpart) (string, string) {
	var body bytes.Buffer
	body.WriteString("<CompleteMultipartUpload>")
	var ls []string
	for _, p := range parts {
		fmt.Fprintf(&body, "<Part><PartNumber>%d</PartNumber><ETag>", p.n)
		xml.EscapeText(&body, []byte(p.etag))
		body.WriteString("</ETag></Part>")
		ls = append(ls, fmt.Sprintf("%d:%s", p.n, hx(p.etag)))
	}
	body.WriteString("</CompleteMultipartUpload>")
	resp := r.inst.Do(impl.Req{Method: "POST", Path: r.path(b, k), Query: "uploadId=" + url.QueryEscape(id), Body: bytes.NewReader(body.Bytes())})
	obs := errObs(resp)
	if resp.Status == 200 && resp.Panic == "" {
		var d xmlComplete
		xml.Unmarshal(resp.Body, &d)
		obs = "completed " + drv.HexS(strings.Trim(d.ETag, `"`)) + " vid=" + vidOf(resp.Header.Get("X-Amz-Version-Id"))
	}
	l := "~"
	if len(ls) > 0 {
		l = strings.Join(ls, ",")
	}
	return fmt.Sprintf("mpcomplete %s %s %s %s", hx(b), hx(k), id, l), obs
}

func (r *Runner) MpAbort(b, k, id string) (string, string) {
	resp := r.inst.Do(impl.Req{Method: "DELETE", Path: r.path(b, k), Query: "uploadId=" + url.QueryEscape(id)})
	obs := errObs(resp)
	if resp.Status == 204 && resp.Panic == "" {
		obs = "ok"
	}
	return fmt.Sprintf("mpabort %s %s %s", hx(b), hx(k), id), obs
}

type xmlParts struct {
	IsTruncated          bool `xml:"IsTruncated"`
	NextPartNumberMarker int  `xml:"NextPartNumberMarker"`
	Parts                []struct {
		PartNumber int    `xml:"PartNumber"`
		Size       int64  `xml:"Size"`
		ETag       string `xml:"ETag"`
	} `xml:"Part"`
}

type PartsObs struct {
	Obs   string
	Items []string // n:size:etag
	Trunc bool
	Next  int
	OK    bool
}

func (r *Runner) MpParts(b, k, id, marker, maxParts string, clampMarker int64, clampLimit int64) (string, PartsObs) {
	v := url.Values{}
	v.Set("uploadId", id)
	if marker != "" {
		v.Set("part-number-marker", marker)
	}
	if maxParts != "" {
		v.Set("max-parts", maxParts)
	}
	resp := r.inst.Do(impl.Req{Method: "GET", Path: r.path(b, k), Query: v.Encode()})
	line := fmt.Sprintf("mpparts %s %s %s %d %d", hx(b), hx(k), id, clampMarker, clampLimit)
	var po PartsObs
	if resp.Status != 200 || resp.Panic != "" {
		po.Obs = errObs(resp)
		return line, po
	}
	var d xmlParts
	if err := xml.Unmarshal(resp.Body, &d); err != nil {
		po.Obs = "unparsable"
		return line, po
	}
	po.OK = true
	for _, p := range d.Parts {
		po.Items = append(po.Items, fmt.Sprintf("%d:%d:%s", p.PartNumber, p.Size, strings.Trim(p.ETag, `"`)))
	}
	po.Trunc, po.Next = d.IsTruncated, d.NextPartNumberMarker
	l := "-"
	if len(po.Items) > 0 {
		l = strings.Join(po.Items, ",")
	}
	po.Obs = fmt.Sprintf("parts trunc=%s next=%d L=%s", b01(d.IsTruncated), d.NextPartNumberMarker, l)
	return line, po
}

type xmlUploads struct {
	IsTruncated        bool   `xml:"IsTruncated"`
	NextKeyMarker      string `xml:"NextKeyMarker"`
	NextUploadIDMarker string `xml:"NextUploadIdMarker"`
	Uploads            []struct {
		Key      string `xml:"Key"`
		UploadID string `xml:"UploadId"`
	} `xml:"Upload"`
	CommonPrefixes []struct {
		Prefix string `xml:"Prefix"`
	} `xml:"CommonPrefixes"`
}

type UploadsObs struct {
	Obs      string
	Items    []string
	Prefixes []string
	Trunc    bool
	NextKey  string
	NextID   string
	OK       bool
}

func (r *Runner) MpUploads(b string, hasP bool, pfx string, hasD bool, d, km, im, maxUploads string, clamp int64) (string, UploadsObs) {
	v := url.Values{}
	v.Set("uploads", "")
	if hasP {
		v.Set("prefix", pfx)
	}
	if hasD {
		v.Set("delimiter", d)
	}
	if km != "" {
		v.Set("key-marker", km)
	}
	if im != "" {
		v.Set("upload-id-marker", im)
	}
	if maxUploads != "" {
		v.Set("max-uploads", maxUploads)
	}
	resp := r.inst.Do(impl.Req{Method: "GET", Path: r.path(b, ""), Query: v.Encode()})
	imL := im
	if imL == "" || km == "" {
		imL = "-"
	}
	line := fmt.Sprintf("mpuploads %s %s %s %s %s %s %s %d", hx(b), b01(hasP), hx(pfx), b01(hasD), hx(d), hx(km), imL, clamp)
	var uo UploadsObs
	if resp.Status != 200 || resp.Panic != "" {
		uo.Obs = errObs(resp)
		return line, uo
	}
	var x xmlUploads
	if err := xml.Unmarshal(resp.Body, &x); err != nil {
		uo.Obs = "unparsable"
		return line, uo
	}
	uo.OK = true
	for _, u := range x.Uploads {
		uo.Items = append(uo.Items, hx(u.Key)+":"+u.UploadID)
	}
	for _, p := range x.CommonPrefixes {
		uo.Prefixes = append(uo.Prefixes, p.Prefix)
	}
	uo.Trunc, uo.NextKey, uo.NextID = x.IsTruncated, x.NextKeyMarker, x.NextUploadIDMarker
	l := "-"
	if len(uo.Items) > 0 {
		l = strings.Join(uo.Items, ",")
	}
	ni := x.NextUploadIDMarker
	if ni == "" {
		ni = "-"
	}
	uo.Obs = fmt.Sprintf("uploads trunc=%s nextkey=%s nextid=%s U=%s P=%s", b01(x.IsTruncated), hx(x.NextKeyMarker), ni, l, keysLine(uo.Prefixes))
	return line, uo
}

func etagOf(b []byte) string { s := md5.Sum(b); return hex.EncodeToString(s[:]) }

// mpSpecProj: what Spec.Multipart speaks about
func mpSpecProj(s string) string {
	f := strings.Fields(s)
	if len(f) == 0 {
		return s
	}
	switch f[0] {
	case "completed":
		return "completed " + f[1]
	case "err":
		if f[1] == "InvalidPart" || f[1] == "InvalidPartOrder" {
			return "rejected"
		}
	case "obj", "hobj":
		return f[0] + " " + f[1]
	case "parts":
		if i := strings.Index(s, " L="); i >= 0 {
			return "specparts " + s[i+3:]
		}
	}
	return s
}

func runC06(c *Ctx) {
	nHist := 60
	if c.Thorough() {
		nHist = 1000
	}
	c.R.Rule = fmt.Sprintf("%d random multipart histories per backend instance: interleavings of initiate / upload-part / complete / abort / get over 1–2 keys with up to 3 concurrent uploads per key, part numbers from {1,2,3,5,9,10000} plus rejected {0,-1,10001}, re-uploads, bodies 1 B–64 KiB; part lists: subsets, permutations (out of order), duplicates, unknown numbers, stale/wrong/unquoted ETags, empty; after every complete/abort the object is read back and further operations on the upload id are tried; compared with the Lean uploader model and with Spec.Multipart; fs backends: a complete whose store is refused (the key needs a directory where an object is) leaves upload, parts and objects untouched and succeeds once the obstacle is removed; non-trivial = distinct history with a complete attempt", nHist)
	for _, kind := range c.kinds(impl.AllKinds) {
		for hI := 0; hI < nHist; hI++ {
			c06History(c, kind)
		}
		if strings.HasPrefix(kind, "fs") {
			c06FailedStore(c, kind, "c06")
		}
		if strings.HasSuffix(kind, "-dir") {
			c06FailedStoreLong(c, kind, "c06")
		}
	}
}

// c06FailedStore: a complete request that is in order but whose final PutObject is refused by
// the backend (fs backends: the key needs a directory where an object is) must leave the
// pending upload, its parts and the stored objects as they were; once the obstacle is gone the
// same request succeeds.  Judged against the statement only (the memory model never refuses).
func c06FailedStore(c *Ctx, kind, prop string) {
	inst, err := impl.New(kind, c.Tmp)
	if err != nil {
		c.mismatch(Mismatch{Kind: "model", Backend: kind, Finger: "setup", Impl: err.Error()})
		return
	}
	defer inst.Close()
	r := newRunner(c, inst, false, false, false)
	b := "bk1"
	if inst.IsSingle() {
		b = impl.SingleBucketName
	} else {
		r.MkBucket(b)
	}
	key, blocker := "cf/child", "cf"
	part := []byte("PARTDATA")
	var trace []string
	note := func(l, o string) { trace = append(trace, l+" -> "+trunc(o, 80)) }
	fail := func(what, obs, want string) {
		c.mismatch(Mismatch{Kind: "spec", Backend: kind, Case: append([]string{}, trace...), Impl: what + ": " + trunc(obs, 200), Spec: want, Finger: prop + ":refused-complete-changed-upload"})
	}
	l, o, id := r.MpInit(b, key, map[string]string{"X-Amz-Meta-U": "1"})
	note(l, o)
	if id == "" {
		return
	}
	l, o = r.MpPart(b, key, id, "1", part, "", nil)
	note(l, o)
	etag := etagOf(part)
	l, o = r.Put(b, blocker, nil, []byte("blocker"))
	note(l, o)
	l, o = r.MpComplete(b, key, id, []cpart{{1, etag}})
	note(l, o)
	c.R.Evaluations++
	if !strings.HasPrefix(o, "err ") {
		c.hist(prop + ":failed-store:not-refused")
		return
	}
	c.hist(prop + ":failed-store:refused")
	c.nontrivial(prop + "|failed-store|" + kind)
	lu, uo := r.MpUploads(b, false, "", false, "", "", "", "", 1000)
	note(lu, uo.Obs)
	found := false
	for _, it := range uo.Items {
		if it == hx(key)+":"+id {
			found = true
		}
	}
	if !found {
		fail("ListMultipartUploads after the refused complete", uo.Obs, "the upload is still pending (neither completed nor aborted)")
		return
	}
	lp, po := r.MpParts(b, key, id, "", "", 0, 1000)
	note(lp, po.Obs)
	if !po.OK || len(po.Items) != 1 || !strings.HasPrefix(po.Items[0], fmt.Sprintf("1:%d:", len(part))) {
		fail("ListParts after the refused complete", po.Obs, "part 1 is still held with its size and ETag")
		return
	}
	l, o = r.Get(b, blocker)
	note(l, o)
	if !strings.HasPrefix(o, "obj "+drv.Hex([]byte("blocker"))+" ") {
		fail("GET of the other object", o, "unchanged")
		return
	}
	l, o = r.Get(b, key)
	note(l, o)
	if strings.HasPrefix(o, "obj ") {
		fail("GET of the key of the refused complete", o, "no object was stored")
		return
	}
	// the obstacle goes away: the very same request now succeeds
	l, o = r.Del(b, blocker)
	note(l, o)
	l, o = r.MpComplete(b, key, id, []cpart{{1, etag}})
	note(l, o)
	if !strings.HasPrefix(o, "completed ") {
		fail("the same complete after the obstacle was removed", o, "completed")
		return
	}
	l, o = r.Get(b, key)
	note(l, o)
	if !strings.HasPrefix(o, "obj "+drv.Hex(part)+" ") {
		fail("GET after the complete", o, "the part's bytes")
	}
}

func c06History(c *Ctx, kind string) {
	inst, err := impl.New(kind, c.Tmp)
	if err != nil {
		c.mismatch(Mismatch{Kind: "model", Backend: kind, Finger: "setup", Impl: err.Error()})
		return
	}
	defer inst.Close()
	r := newRunner(c, inst, false, false, false)
	bucket := impl.SingleBucketName
	if inst.IsSingle() {
		r.tell("mkbucket " + hx(bucket))
	} else {
		l, o := r.MkBucket(bucket)
		r.judgeProj(l, o, "setup", ident, nil)
	}
	keys := []string{"obj", "dir/obj2"}
	var ups []*mpUpload
	dead := false
	step := func(line, obs, finger string) {
		if dead {
			return
		}
		before := c.NMism
		r.judgeProj(line, obs, "c06:"+finger, ident, mpSpecProj)
		if c.NMism > before {
			dead = true
		}
	}
	nums := []int{1, 2, 3, 5, 9, 10000}
	issued := map[string]bool{}
	var trace []string
	completes := 0
	n := 4 + c.Rng.Intn(25)
	for i := 0; i < n && !dead; i++ {
		switch x := c.Rng.Intn(20); {
		case x < 3 || len(ups) == 0:
			k := keys[c.Rng.Intn(len(keys))]
			md := map[string]string{}
			if c.Rng.Intn(2) == 0 {
				md["X-Amz-Meta-Mp"] = fmt.Sprint("m", i)
			}
			l, o, id := r.MpInit(bucket, k, md)
			step(l, o, "initiate")
			if id != "" {
				c.R.Evaluations++
				if issued[id] {
					c.mismatch(Mismatch{Kind: "spec", Backend: kind, Case: append([]string{}, r.Lines...), Impl: "initiate returned upload id " + id + " which an earlier upload of this history had",
						Spec: "a completed or aborted upload id stops existing: ids are never issued twice", Finger: "c06:upload-id-reused"})
					dead = true
				}
				issued[id] = true
				ups = append(ups, &mpUpload{bucket: bucket, key: k, id: id, parts: map[int][]byte{}, etags: map[int]string{}, stale: map[int]string{}})
			}
			trace = append(trace, "init "+k)
		case x < 11:
			u := ups[c.Rng.Intn(len(ups))]
			pn := nums[c.Rng.Intn(len(nums))]
			if c.Rng.Intn(10) == 0 {
				pn = []int{0, -1, 10001}[c.Rng.Intn(3)]
			}
			sz := 1 + c.Rng.Intn(40)
			if c.Rng.Intn(8) == 0 {
				sz = 1 + c.Rng.Intn(65536)
			}
			body := c.randBytes(sz)
			l, o := r.MpPart(u.bucket, u.key, u.id, fmt.Sprint(pn), body, "", nil)
			step(l, o, "uploadPart")
			if strings.HasPrefix(o, "part ") {
				if old, ok := u.etags[pn]; ok {
					u.stale[pn] = old
				}
				u.parts[pn] = body
				u.etags[pn] = etagOf(body)
			}
			trace = append(trace, fmt.Sprintf("part %s#%d", u.id, pn))
		case x < 15:
			ui := c.Rng.Intn(len(ups))
			u := ups[ui]
			var have []int
			for pn := range u.parts {
				have = append(have, pn)
			}
			sort.Ints(have)
			var list []cpart
			variant := []string{"all", "subset", "permuted", "unknown", "stale", "wrong", "unquoted", "empty", "duplicate", "negative"}[c.Rng.Intn(10)]
			for _, pn := range have {
				if variant == "subset" && c.Rng.Intn(2) == 0 {
					continue
				}
				list = append(list, cpart{pn, `"` + u.etags[pn] + `"`})
			}
			switch variant {
			case "permuted":
				c.Rng.Shuffle(len(list), func(a, b int) { list[a], list[b] = list[b], list[a] })
			case "unknown":
				list = append(list, cpart{7, `"` + etagOf([]byte("nope")) + `"`})
				sort.Slice(list, func(a, b int) bool { return list[a].n < list[b].n })
			case "stale":
				for j := range list {
					if s, ok := u.stale[list[j].n]; ok {
						list[j].etag = `"` + s + `"`
					}
				}
			case "wrong":
				if len(list) > 0 {
					list[c.Rng.Intn(len(list))].etag = `"` + etagOf([]byte("wrong")) + `"`
				}
			case "unquoted":
				for j := range list {
					list[j].etag = strings.Trim(list[j].etag, `"`)
				}
			case "empty":
				list = nil
			case "duplicate":
				if len(list) > 0 {
					list = append(list[:1], list...)
				}
			case "negative":
				list = append([]cpart{{-1, `"x"`}}, list...)
			}
			l, o := r.MpComplete(u.bucket, u.key, u.id, list)
			step(l, o, "complete:"+variant)
			completes++
			// the object as it is now
			lg, og := r.Get(u.bucket, u.key)
			step(lg, og, "get-after-complete:"+variant)
			if strings.HasPrefix(o, "completed") {
				// the upload id stops existing
				l2, o2 := r.MpPart(u.bucket, u.key, u.id, "1", []byte("late"), "", nil)
				step(l2, o2, "part-after-complete")
				l2, o2 = r.MpAbort(u.bucket, u.key, u.id)
				step(l2, o2, "abort-after-complete")
				ups = append(ups[:ui], ups[ui+1:]...)
			} else {
				// the pending upload is untouched: its parts are still listed
				l3, po := r.MpParts(u.bucket, u.key, u.id, "", "", 0, 1000)
				step(l3, po.Obs, "parts-after-rejected-complete")
			}
			trace = append(trace, fmt.Sprintf("complete %s %s", u.id, variant))
		case x < 17:
			ui := c.Rng.Intn(len(ups))
			u := ups[ui]
			lg0, og0 := r.Get(u.bucket, u.key)
			step(lg0, og0, "get-before-abort")
			l, o := r.MpAbort(u.bucket, u.key, u.id)
			step(l, o, "abort")
			lg, og := r.Get(u.bucket, u.key)
			step(lg, og, "get-after-abort")
			l2, o2 := r.MpComplete(u.bucket, u.key, u.id, nil)
			step(l2, o2, "complete-after-abort")
			ups = append(ups[:ui], ups[ui+1:]...)
			trace = append(trace, "abort "+u.id)
		case x < 18:
			// wrong key / unknown id
			u := ups[c.Rng.Intn(len(ups))]
			l, o := r.MpPart(u.bucket, "other-key", u.id, "1", []byte("x"), "", nil)
			step(l, o, "part-wrong-key")
			l, o = r.MpComplete(u.bucket, u.key, "99999", nil)
			step(l, o, "complete-unknown-id")
		default:
			k := keys[c.Rng.Intn(len(keys))]
			l, o := r.Get(bucket, k)
			step(l, o, "get")
		}
	}
	if completes > 0 {
		c.nontrivial(kind + "|" + strings.Join(trace, ";"))
	}
	if len(c.R.Samples) < 3 && completes > 0 {
		c.sample(kind + ": " + trunc(strings.Join(trace, " ; "), 300))
	}
	c.hist("histories:" + kind)
}

// ---------------------------------------------------------------------------
// C14

func runC14(c *Ctx) {
	nHist := 120
	if c.Thorough() {
		nHist = 2500
	}
	c.R.Rule = fmt.Sprintf("%d random histories (s3mem store; the uploader is shared by all backends) of initiate / upload-part / overwrite / abort / complete over keys {a, d/x, d/y, e/z, f} with 1–3 uploads per key and part numbers with gaps up to 10000 (incl. 999…1200); then ListMultipartUploads for every max-uploads 1..n+1 following the returned (key, upload-id) markers, with and without prefix/delimiter, and ListParts for every max-parts 1..n+1 following NextPartNumberMarker, plus arbitrary numeric part-number markers (0, existing, gaps, highest, highest+1, 10000, 2^63-1); each page is compared with the Lean model, the concatenation of a walk with the specification (exactly the pending uploads by key then initiation / exactly the held parts ascending with true numbers); an upload whose complete the backend refuses stays listed with its parts (fs backends); non-trivial = distinct history with at least 3 pending uploads or 3 parts", nHist)
	for hI := 0; hI < nHist; hI++ {
		c14History(c)
	}
	// an upload whose complete is refused by the backend stays listed
	for _, kind := range c.kinds([]string{"fsM-mem", "fsM-dir", "fsS-mem", "fsS-dir"}) {
		c06FailedStore(c, kind, "c14")
	}
	for _, kind := range c.kinds([]string{"fsM-dir", "fsS-dir"}) {
		c06FailedStoreLong(c, kind, "c14")
	}
}

func c14History(c *Ctx) {
	inst, err := impl.New("mem", c.Tmp)
	if err != nil {
		c.mismatch(Mismatch{Kind: "model", Backend: "mem", Finger: "setup", Impl: err.Error()})
		return
	}
	defer inst.Close()
	r := newRunner(c, inst, false, false, false)
	bucket := "bkt"
	l, o := r.MkBucket(bucket)
	r.judgeProj(l, o, "setup", ident, nil)
	keys := []string{"a", "d/x", "d/y", "e/z", "f"}
	combos := [][3]string{{"", "", "0"}, {"d", "", "1"}, {"", "/", "0"}, {"d/", "/", "1"}}
	leading := c.Rng.Intn(3) == 0
	if leading {
		// keys and prefixes that begin with the delimiter (Prefix.Match trims leading delimiters),
		// keys that sort before the prefix, a prefix beyond every key
		keys = []string{"+p_q", "_t_x", "t_y", "t_z_w", "a"}
		combos = [][3]string{{"", "", "0"}, {"t_", "_", "1"}, {"_t", "_", "1"}, {"t", "", "1"}, {"zz", "", "1"}, {"zz", "_", "1"}, {"", "_", "0"}}
	}
	issued := map[string]bool{}
	var ups []*mpUpload
	dead := false
	step := func(line, obs, finger string) {
		if dead {
			return
		}
		before := c.NMism
		r.judgeProj(line, obs, "c14:"+finger, ident, nil)
		if c.NMism > before {
			dead = true
		}
	}
	n := 3 + c.Rng.Intn(20)
	for i := 0; i < n && !dead; i++ {
		switch x := c.Rng.Intn(10); {
		case x < 4 || len(ups) == 0:
			k := keys[c.Rng.Intn(len(keys))]
			l, o, id := r.MpInit(bucket, k, nil)
			step(l, o, "initiate")
			if id != "" {
				c.R.Evaluations++
				if issued[id] {
					c.mismatch(Mismatch{Kind: "spec", Backend: "mem", Case: append([]string{}, r.Lines...), Impl: "initiate returned upload id " + id + " which an earlier upload of this history had",
						Spec: "a completed or aborted upload id stops existing: ids are never issued twice", Finger: "c14:upload-id-reused"})
					dead = true
				}
				issued[id] = true
				ups = append(ups, &mpUpload{bucket: bucket, key: k, id: id, parts: map[int][]byte{}, etags: map[int]string{}})
			}
		case x < 8:
			u := ups[c.Rng.Intn(len(ups))]
			pn := []int{1, 2, 3, 4, 6, 9, 12, 999, 1000, 1001, 1200, 4097, 10000}[c.Rng.Intn(13)]
			body := c.randBytes(1 + c.Rng.Intn(9))
			l, o := r.MpPart(u.bucket, u.key, u.id, fmt.Sprint(pn), body, "", nil)
			step(l, o, "uploadPart")
			u.parts[pn] = body
			u.etags[pn] = etagOf(body)
		case x < 9:
			ui := c.Rng.Intn(len(ups))
			u := ups[ui]
			l, o := r.MpAbort(u.bucket, u.key, u.id)
			step(l, o, "abort")
			ups = append(ups[:ui], ups[ui+1:]...)
		default:
			ui := c.Rng.Intn(len(ups))
			u := ups[ui]
			var list []cpart
			var have []int
			for pn := range u.parts {
				have = append(have, pn)
			}
			sort.Ints(have)
			for _, pn := range have {
				list = append(list, cpart{pn, u.etags[pn]})
			}
			l, o := r.MpComplete(u.bucket, u.key, u.id, list)
			step(l, o, "complete")
			if strings.HasPrefix(o, "completed") {
				ups = append(ups[:ui], ups[ui+1:]...)
			}
		}
	}
	if dead {
		return
	}
	// ---- ListMultipartUploads walks
	for _, pd := range combos {
		hasP := pd[2] == "1"
		emptyDelim := pd[1] == "" && c.Rng.Intn(2) == 0 // delimiter= present but empty: no delimiter
		for lim := 1; lim <= len(ups)+1 && !dead; lim++ {
			km, im := "", ""
			var all, allP []string
			var specFull string
			for page := 0; ; page++ {
				line, uo := r.MpUploads(bucket, hasP, pd[0], pd[1] != "" || emptyDelim, pd[1], km, im, fmt.Sprint(lim), int64(lim))
				_, spec := r.judgeProj(line, uo.Obs, "c14:uploads-page", ident, nil)
				if !uo.OK {
					dead = true
					break
				}
				if page == 0 {
					specFull = spec
				}
				if len(uo.Items) > lim {
					c.mismatch(Mismatch{Kind: "spec", Backend: "mem", Case: append([]string{}, r.Lines...), Finger: "c14:uploads-page-too-large", Impl: uo.Obs})
				}
				all = append(all, uo.Items...)
				allP = append(allP, uo.Prefixes...)
				if !uo.Trunc {
					break
				}
				if page > len(ups)+3 {
					c.mismatch(Mismatch{Kind: "spec", Backend: "mem", Case: append([]string{}, r.Lines...), Finger: "c14:uploads-walk-does-not-terminate", Impl: uo.Obs})
					dead = true
					break
				}
				km, im = uo.NextKey, uo.NextID
			}
			if dead {
				break
			}
			c.R.Evaluations++
			got := "specuploads -"
			if len(all) > 0 {
				got = "specuploads " + strings.Join(all, ",")
			}
			if got != specFull {
				fp := "c14:uploads-walk-not-exact"
				if pd[1] != "" {
					fp = "c14:uploads-walk-not-exact-delimited"
				}
				c.mismatch(Mismatch{Kind: "spec", Backend: "mem", Case: append([]string{}, r.Lines...), Finger: fp, Impl: got, Spec: specFull,
					Note: fmt.Sprintf("prefix=%q delimiter=%q max-uploads=%d", pd[0], pd[1], lim)})
			}
			// with a delimiter every grouped prefix must be reported (once) somewhere in the walk
			if pd[1] != "" && !leading {
				want := map[string]bool{}
				for _, u := range ups {
					if strings.HasPrefix(u.key, pd[0]) {
						rest := u.key[len(pd[0]):]
						if i := strings.Index(rest, pd[1]); i >= 0 {
							want[pd[0]+rest[:i+1]] = true
						}
					}
				}
				gotP := map[string]int{}
				for _, p := range allP {
					gotP[p]++
				}
				okP := len(gotP) == len(want)
				for p := range want {
					if gotP[p] != 1 {
						okP = false
					}
				}
				c.R.Evaluations++
				if !okP {
					c.mismatch(Mismatch{Kind: "spec", Backend: "mem", Case: append([]string{}, r.Lines...), Finger: "c14:uploads-prefixes-dropped-or-repeated",
						Impl: fmt.Sprint(allP), Spec: fmt.Sprint(want), Note: fmt.Sprintf("prefix=%q delimiter=%q max-uploads=%d", pd[0], pd[1], lim)})
				}
			}
		}
	}
	// ---- key markers that are no key: beyond the last key nothing remains; between keys the rest is listed
	if !dead {
		for _, km := range []string{"zzzz", "c", "d/xx", "0"} {
			line, uo := r.MpUploads(bucket, false, "", false, "", km, "", "1000", 1000)
			r.judgeProj(line, uo.Obs, "c14:uploads-marker-absent", ident, nil)
			if !uo.OK {
				break
			}
			c.R.Evaluations++
			var want []string
			for _, u := range ups {
				if u.key >= km {
					want = append(want, u.key)
				}
			}
			sort.Strings(want)
			var gotKeys []string
			for _, it := range uo.Items {
				gotKeys = append(gotKeys, strings.SplitN(it, ":", 2)[0])
			}
			if uo.Trunc || len(uo.Items) != len(want) {
				c.mismatch(Mismatch{Kind: "spec", Backend: "mem", Case: append([]string{}, r.Lines...), Finger: "c14:uploads-marker-absent",
					Impl: fmt.Sprintf("key-marker=%q (no such key): IsTruncated=%v NextKeyMarker=%q uploads=%v", km, uo.Trunc, uo.NextKey, uo.Items),
					Spec: fmt.Sprintf("exactly the %d uploads of the keys from the marker on, not truncated", len(want))})
				dead = true
				break
			}
		}
	}
	// ---- ListParts walks
	for _, u := range ups {
		if dead {
			break
		}
		np := len(u.parts)
		for lim := 1; lim <= np+1 && !dead; lim++ {
			marker := ""
			var all []string
			var specFull string
			for page := 0; ; page++ {
				mk := int64(0)
				if marker != "" {
					fmt.Sscan(marker, &mk)
				}
				line, po := r.MpParts(u.bucket, u.key, u.id, marker, fmt.Sprint(lim), mk, int64(lim))
				_, spec := r.judgeProj(line, po.Obs, "c14:parts-page", ident, nil)
				if !po.OK {
					dead = true
					break
				}
				if page == 0 {
					specFull = spec
				}
				all = append(all, po.Items...)
				if !po.Trunc {
					break
				}
				if page > np+3 {
					c.mismatch(Mismatch{Kind: "spec", Backend: "mem", Case: append([]string{}, r.Lines...), Finger: "c14:parts-walk-does-not-terminate", Impl: po.Obs})
					dead = true
					break
				}
				marker = fmt.Sprint(po.Next)
			}
			if dead {
				break
			}
			c.R.Evaluations++
			got := "specparts -"
			if len(all) > 0 {
				got = "specparts " + strings.Join(all, ",")
			}
			if got != specFull {
				c.mismatch(Mismatch{Kind: "spec", Backend: "mem", Case: append([]string{}, r.Lines...), Finger: "c14:parts-walk-not-exact", Impl: got, Spec: specFull, Note: fmt.Sprintf("max-parts=%d", lim)})
			}
		}
		// arbitrary numeric markers
		for _, mk := range []string{"0", "1", "2", "5", "12", "13", "999", "1000", "1001", "1200", "5000", "10000", "10001", "9223372036854775807", "99999999999999999999", "-1", "x"} {
			var v int64
			if _, err := fmt.Sscan(mk, &v); err != nil || v < 0 {
				v = 0
			}
			line, po := r.MpParts(u.bucket, u.key, u.id, mk, "", v, 1000)
			if mk == "99999999999999999999" || mk == "x" {
				// not a number the handler accepts: InvalidURI, the model is not consulted
				c.R.Evaluations++
				if po.Obs != "err InvalidURI" {
					c.mismatch(Mismatch{Kind: "spec", Backend: "mem", Case: []string{line}, Finger: "c14:bad-marker", Impl: po.Obs, Spec: "err InvalidURI"})
				}
				continue
			}
			step(line, po.Obs, "parts-arbitrary-marker")
		}
	}
	if len(ups) >= 3 {
		c.nontrivial(fmt.Sprint(r.Lines))
	}
	c.hist("histories")
}
