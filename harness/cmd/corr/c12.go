package main

import (
	"bytes"
	"crypto/md5"
	"encoding/hex"
	"fmt"
	"io"
	"strings"

	"github.com/johannesboyne/gofakes3"

	"verifharness/internal/drv"
	"verifharness/internal/impl"
)

func init() { props["C12"] = runC12 }

// fragReader delivers a byte stream in prescribed fragments.
type fragReader struct {
	data        []byte
	frags       []int // fragment lengths; the remainder after they are used up is one fragment
	pos, fi, fo int
	tailFail    bool
	endWithData bool
}

var errConn = fmt.Errorf("connection reset")

func (f *fragReader) Read(p []byte) (int, error) {
	if f.pos >= len(f.data) {
		if f.tailFail {
			return 0, errConn
		}
		return 0, io.EOF
	}
	if len(p) == 0 {
		return 0, nil
	}
	// remaining length of the current fragment
	avail := len(f.data) - f.pos
	for f.fi < len(f.frags) && f.frags[f.fi]-f.fo <= 0 {
		f.fi++
		f.fo = 0
	}
	if f.fi < len(f.frags) && f.frags[f.fi]-f.fo < avail {
		avail = f.frags[f.fi] - f.fo
	}
	n := len(p)
	if n > avail {
		n = avail
	}
	copy(p, f.data[f.pos:f.pos+n])
	f.pos += n
	f.fo += n
	if f.pos >= len(f.data) && f.endWithData {
		if f.tailFail {
			return n, errConn
		}
		return n, io.EOF
	}
	return n, nil
}

type chunkDesc struct{ digits, ext, payload, trailer []byte }

func (c chunkDesc) encode() []byte {
	var b []byte
	b = append(b, c.digits...)
	b = append(b, ';')
	b = append(b, c.ext...)
	b = append(b, c.payload...)
	b = append(b, c.trailer...)
	return b
}

func (c chunkDesc) desc() string {
	return drv.Hex(c.digits) + ":" + drv.Hex(c.ext) + ":" + drv.Hex(c.payload) + ":" + drv.Hex(c.trailer)
}

func (c *Ctx) mkChunk(payload []byte) chunkDesc {
	sig := make([]byte, 64)
	for i := range sig {
		sig[i] = "0123456789abcdef"[c.Rng.Intn(16)]
	}
	ext := append([]byte("chunk-signature="), sig...)
	ext = append(ext, '\r', '\n')
	digits := fmt.Sprintf("%x", len(payload))
	switch c.Rng.Intn(6) {
	case 0:
		digits = strings.ToUpper(digits)
	case 1:
		digits = "0" + digits
	case 2:
		digits = "000" + digits
	}
	return chunkDesc{[]byte(digits), ext, payload, []byte("\r\n")}
}

func (c *Ctx) randBytes(n int) []byte {
	b := make([]byte, n)
	c.Rng.Read(b)
	return b
}

func intsCSV(xs []int) string {
	if len(xs) == 0 {
		return "-"
	}
	s := make([]string, len(xs))
	for i, x := range xs {
		s[i] = fmt.Sprint(x)
	}
	return strings.Join(s, ",")
}

// runDecoder drives the real chunkedReader with the given buffer sizes.
func runDecoder(input []byte, frags, bufs []int, tailFail, ewd bool) string {
	fr := &fragReader{data: input, frags: frags, tailFail: tailFail, endWithData: ewd}
	r := gofakes3.VerifNewChunkedReader(fr)
	var out []byte
	end := "none"
	for _, b := range bufs {
		p := make([]byte, b)
		n, err := r.Read(p)
		out = append(out, p[:n]...)
		if err != nil {
			if err == io.EOF {
				end = "eof"
			} else {
				end = "error"
			}
			break
		}
	}
	return drv.Hex(out) + " " + end
}

func (c *Ctx) fragmentation(total int) []int {
	if total > 5000 {
		// large streams: coarse fragmentations only (the Lean model is list-based and slows down
		// quadratically with the number of fragments)
		switch c.Rng.Intn(3) {
		case 0:
			return nil
		case 1:
			return []int{total / 2}
		default:
			var f []int
			for s := 0; s < total; {
				k := 1 + c.Rng.Intn(1+total/3+1)
				f = append(f, k)
				s += k
			}
			return f
		}
	}
	switch c.Rng.Intn(6) {
	case 0:
		return nil // one piece
	case 1: // one byte at a time
		f := make([]int, total)
		for i := range f {
			f[i] = 1
		}
		return f
	case 2: // halves
		return []int{total / 2}
	case 3: // fixed small size
		k := 1 + c.Rng.Intn(7)
		var f []int
		for s := 0; s < total; s += k {
			f = append(f, k)
		}
		return f
	default: // random split points
		var f []int
		for s := 0; s < total; {
			k := 1 + c.Rng.Intn(1+total/3+1)
			if c.Rng.Intn(3) == 0 {
				k = 1 + c.Rng.Intn(4)
			}
			f = append(f, k)
			s += k
		}
		return f
	}
}

func (c *Ctx) bufSchedule(payloadLen int) []int {
	var bufs []int
	need := payloadLen + 1
	mode := c.Rng.Intn(5)
	if payloadLen > 5000 {
		mode = []int{0, 3}[c.Rng.Intn(2)]
	}
	for sum := 0; sum < need; {
		var b int
		switch mode {
		case 0:
			b = need // ReadAll-like: one big read
		case 1:
			b = 1
		case 2:
			b = 1 + c.Rng.Intn(4)
		case 3:
			b = 1 + c.Rng.Intn(payloadLen+2)
			if payloadLen > 5000 && b < payloadLen/8 {
				b = payloadLen / 8
			}
		default:
			b = 3
		}
		bufs = append(bufs, b)
		sum += b
	}
	// a few more reads to observe what follows the end
	return append(bufs, 2, 2)
}

func runC12(c *Ctx) {
	nWF, nBad, nHTTP := 1500, 1500, 60
	if c.Thorough() {
		nWF, nBad, nHTTP = 30000, 30000, 600
	}
	c.R.Rule = "decoder level: random well-formed aws-chunked streams (1–5 chunks, sizes from {1,2,3,15,16,17,255,256,…}, hex in lower/upper case and with leading zeros) × fragmentation (one piece, 1-byte, halves, fixed, random) × consumer buffer schedules × EOF with/without data, and malformed streams (every truncation point, non-hex/signed/blank/newline size fields, failing reader); handler level: the same streams PUT through HTTP on all 6 backend instances followed by GET; non-trivial = distinct (stream, fragmentation, buffers) with at least one chunk boundary crossed by a read"
	sizes := []int{1, 2, 3, 15, 16, 17, 31, 255, 256, 257}
	if c.Thorough() {
		sizes = append(sizes, 4095, 4096, 4097, 32767, 32768, 32769, 65537)
	}
	mkStream := func() ([]chunkDesc, chunkDesc, []byte, []byte) {
		n := 1 + c.Rng.Intn(5)
		if c.Rng.Intn(10) == 0 {
			n = 0
		}
		var cs []chunkDesc
		var input, payload []byte
		for i := 0; i < n; i++ {
			sz := sizes[c.Rng.Intn(len(sizes))]
			if sz > 300 && i > 0 {
				sz = sizes[c.Rng.Intn(8)]
			}
			// the Lean model appends list by list (quadratic under 1-byte fragmentation): large
			// chunks are drawn rarely so that the thorough tier stays within minutes
			if sz > 4000 && c.Rng.Intn(10) != 0 || sz > 30000 && c.Rng.Intn(5) != 0 {
				sz = sizes[c.Rng.Intn(10)]
			}
			ch := c.mkChunk(c.randBytes(sz))
			cs = append(cs, ch)
			input = append(input, ch.encode()...)
			payload = append(payload, ch.payload...)
		}
		fin := c.mkChunk(nil)
		input = append(input, fin.encode()...)
		return cs, fin, input, payload
	}
	descs := func(cs []chunkDesc) string {
		if len(cs) == 0 {
			return "-"
		}
		s := make([]string, len(cs))
		for i, ch := range cs {
			s[i] = ch.desc()
		}
		return strings.Join(s, ",")
	}
	// (a) decoder level, well-formed
	for i := 0; i < nWF; i++ {
		cs, fin, input, payload := mkStream()
		frags := c.fragmentation(len(input))
		bufs := c.bufSchedule(len(payload))
		ewd := c.Rng.Intn(2) == 0
		obs := runDecoder(input, frags, bufs, false, ewd)
		e := "0"
		if ewd {
			e = "1"
		}
		line := fmt.Sprintf("chunkwf eof %s %s %s %s %s", e, intsCSV(bufs), intsCSV(frags), descs(cs), fin.desc())
		model, _ := c.check("decoder", nil, line, obs, "decode-wellformed")
		if model == "unknown" {
			c.R.Skipped++
		}
		c.hist(fmt.Sprintf("wf:chunks=%d", len(cs)))
		c.nontrivial(fmt.Sprintf("wf|%x|%v|%v", md5.Sum(input), frags, bufs))
		if i < 3 {
			c.sample(fmt.Sprintf("well-formed: %d chunks payload=%dB frags=%s bufs=%s -> %s", len(cs), len(payload), trunc(intsCSV(frags), 40), trunc(intsCSV(bufs), 40), trunc(obs, 60)))
		}
	}
	// (b) decoder level, malformed
	badHeaders := []string{"", ";", "g;", "-a;", "+a;", " a;", "\ta;", "a ;", "\na;", "\r\na;", "\ra;", "0x10;", "1_0;", "a", "a:", "ffffffffffffffff;", "7fffffffffffffff;", "8000000000000000;", "-8000000000000000;", "-8000000000000001;", "--1;", "+;", "-", "A;", "aB;", "00;", "0;", "\x0ba;", "\x0ca;"}
	for i := 0; i < nBad; i++ {
		_, _, input, payload := mkStream()
		var bad []byte
		kind := ""
		switch c.Rng.Intn(4) {
		case 0: // truncate anywhere
			cut := c.Rng.Intn(len(input) + 1)
			bad = input[:cut]
			kind = "truncated"
		case 1: // replace first header
			h := badHeaders[c.Rng.Intn(len(badHeaders))]
			idx := bytes.IndexByte(input, ';')
			bad = append([]byte(h), input[idx+1:]...)
			kind = "header"
		case 2: // corrupt a byte somewhere in the first 8 bytes or at a random place
			bad = append([]byte{}, input...)
			p := c.Rng.Intn(len(bad))
			if c.Rng.Intn(2) == 0 && len(bad) > 4 {
				p = c.Rng.Intn(4)
			}
			bad[p] = byte(c.Rng.Intn(128))
			kind = "corrupt-byte"
		default: // second header replaced
			h := badHeaders[c.Rng.Intn(len(badHeaders))]
			idx := bytes.IndexByte(input, ';')
			j := idx + 1 + 82
			if j < len(input) {
				k := bytes.IndexByte(input[j:], ';')
				_ = k
			}
			bad = append(append([]byte{}, input...), []byte(h)...)
			kind = "trailing-garbage"
		}
		frags := c.fragmentation(len(bad))
		bufs := c.bufSchedule(len(payload) + 20)
		tailFail := c.Rng.Intn(4) == 0
		ewd := c.Rng.Intn(2) == 0
		obs := runDecoder(bad, frags, bufs, tailFail, ewd)
		t, e := "eof", "0"
		if tailFail {
			t = "fail"
		}
		if ewd {
			e = "1"
		}
		line := fmt.Sprintf("chunk %s %s %s %s %s", t, e, intsCSV(bufs), intsCSV(frags), drv.Hex(bad))
		model, _ := c.check("decoder", nil, line, obs, "decode-malformed:"+kind)
		if model == "unknown" {
			c.R.Skipped++
			// not judged: remove from the mismatch list if it was added
			if n := len(c.R.Mismatches); n > 0 && c.R.Mismatches[n-1].Model == "unknown" {
				c.R.Mismatches = c.R.Mismatches[:n-1]
			}
		}
		c.hist("bad:" + kind)
		c.nontrivial(fmt.Sprintf("bad|%x|%v|%v|%v", md5.Sum(bad), frags, tailFail, ewd))
	}
	// (c) handler level
	for _, kind := range c.kinds(impl.AllKinds) {
		inst, err := impl.New(kind, c.Tmp)
		if err != nil {
			c.mismatch(Mismatch{Kind: "model", Backend: kind, Finger: "setup", Impl: err.Error()})
			continue
		}
		bucket := impl.SingleBucketName
		inst.EnsureBucket(bucket)
		for i := 0; i < nHTTP; i++ {
			_, _, input, payload := mkStream()
			key := fmt.Sprintf("k%d", i%7)
			declared := len(payload)
			body := input
			variant := "wellformed"
			switch c.Rng.Intn(7) {
			case 5, 6:
				// a proper prefix of the well-formed stream whose declared decoded length is exactly
				// what the decoder delivers before the stream breaks off: only the framing tells
				if len(input) > 0 {
					body = input[:c.Rng.Intn(len(input))]
					if c.Rng.Intn(2) == 0 && len(input) > 90 {
						// cut inside the terminating zero-size chunk
						body = input[:len(input)-1-c.Rng.Intn(88)]
					}
					got, _ := io.ReadAll(gofakes3.VerifNewChunkedReader(bytes.NewReader(body)))
					declared = len(got)
					variant = "truncated-declared-as-delivered"
				}
			case 0:
				declared = len(payload) + 1 + c.Rng.Intn(3)
				variant = "declared-longer"
			case 1:
				if len(payload) > 0 {
					declared = c.Rng.Intn(len(payload))
					variant = "declared-shorter"
				}
			case 2:
				body = input[:c.Rng.Intn(len(input))]
				variant = "truncated"
			}
			// previous state of the key
			before := getObs(inst, bucket, key)
			frags := c.fragmentation(len(body))
			rq := impl.Req{Method: "PUT", Path: "/" + bucket + "/" + key,
				Body: &fragReader{data: body, frags: frags},
				Header: map[string]string{
					"X-Amz-Content-Sha256":         "STREAMING-AWS4-HMAC-SHA256-PAYLOAD",
					"X-Amz-Decoded-Content-Length": fmt.Sprint(declared),
					"Content-Length":               fmt.Sprint(len(body)),
				}}
			r := inst.Do(rq)
			after := getObs(inst, bucket, key)
			obs := ""
			switch {
			case r.Panic != "":
				obs = "panic"
			case r.Status == 200:
				want := `"` + hex.EncodeToString(md5sum(payload)) + `"`
				if after == "obj "+drv.Hex(payload)+" "+want || declared != len(payload) {
					obs = strings.Replace(after, "obj ", "stored ", 1)
					obs = strings.SplitN(obs, " \"", 2)[0]
				} else {
					obs = "stored-but-get-differs " + trunc(after, 80)
				}
			default:
				if after == before {
					obs = "rejected"
				} else {
					obs = "rejected-but-state-changed"
				}
			}
			line := fmt.Sprintf("chunkput %d eof %s", declared, drv.Hex(body))
			finger := "put-chunked:" + variant
			if obs == "rejected-but-state-changed" {
				finger = "rejected-upload-changed-state"
				if variant == "wellformed" {
					finger = "rejected-upload-changed-state:wellformed" // not what D16 describes
				}
			}
			if obs != "rejected" && !strings.HasPrefix(obs, "stored ") {
				// keep fingerprint
			}
			// the statement itself: a stream that breaks off before its end is refused, whatever it declares
			if strings.HasPrefix(variant, "truncated") && len(body) < len(input) && obs != "rejected" {
				c.R.Evaluations++
				c.mismatch(Mismatch{Kind: "spec", Backend: kind, Case: []string{line, fmt.Sprintf("# the first %d of the %d bytes of a well-formed stream, X-Amz-Decoded-Content-Length: %d", len(body), len(input), declared)},
					Impl: trunc(obs, 200), Spec: "rejected: the framing is incomplete (the terminating zero-size chunk was not received to its end)", Finger: "accepted-truncated-stream"})
				continue
			}
			model, _, err := c.D.Ask(line)
			if err != nil {
				panic(err)
			}
			c.R.Evaluations++
			if model == "unknown" {
				c.R.Skipped++
				continue
			}
			if model != obs {
				// the model's verdict *is* the specification here (payload stored iff the stream is
				// complete and its decoded length is the declared one)
				if r.Status == 200 && model == "rejected" {
					finger = "accepted-bad-chunked-upload"
					if variant != "declared-longer" && variant != "declared-shorter" && variant != "truncated" {
						finger = "accepted-bad-chunked-upload:" + variant // D16 is about lengths only
					}
				}
				c.mismatch(Mismatch{Kind: "spec", Backend: kind, Case: []string{line}, Impl: trunc(obs, 200), Model: trunc(model, 200), Spec: trunc(model, 200), Finger: finger})
			}
			c.hist("http:" + variant + ":" + strings.SplitN(model, " ", 2)[0])
			// right after an accepted streaming upload: a streaming upload WITHOUT any framing (an empty
			// body declared as 0 bytes) has no terminating chunk and is refused — whatever state the
			// previous request left in the decoder
			if r.Status == 200 && c.Rng.Intn(3) == 0 {
				er := inst.Do(impl.Req{Method: "PUT", Path: "/" + bucket + "/empty-after-good", Body: &fragReader{data: nil, frags: nil},
					Header: map[string]string{"X-Amz-Content-Sha256": "STREAMING-AWS4-HMAC-SHA256-PAYLOAD", "X-Amz-Decoded-Content-Length": "0", "Content-Length": "0"}})
				c.R.Evaluations++
				if er.Status == 200 || er.Panic != "" {
					c.mismatch(Mismatch{Kind: "spec", Backend: kind, Case: []string{line, "# then: PUT with STREAMING-AWS4-HMAC-SHA256-PAYLOAD, X-Amz-Decoded-Content-Length: 0 and an empty body"},
						Impl: fmt.Sprintf("status %d %s", er.Status, trunc(er.Panic, 60)), Spec: "rejected: the framing is incomplete (no terminating zero-size chunk)", Finger: "accepted-empty-stream-after-upload"})
				}
				c.hist("http:empty-stream-after-good-upload")
			}
		}
		inst.Close()
	}
}

func md5sum(b []byte) []byte { s := md5.Sum(b); return s[:] }

func trunc(s string, n int) string {
	if len(s) > n {
		return s[:n] + "…"
	}
	return s
}

// getObs reads an object back: "obj <hexbody> <etag>" or "err <code>".
func getObs(inst *impl.Instance, bucket, key string) string {
	r := inst.Do(impl.Req{Method: "GET", Path: "/" + bucket + "/" + impl.EscapePath(key)})
	switch {
	case r.Panic != "":
		return "panic"
	case r.Status == 200:
		return "obj " + drv.Hex(r.Body) + " " + r.Header.Get("ETag")
	default:
		c := r.ErrCode()
		if c == "" {
			return fmt.Sprintf("status %d", r.Status)
		}
		return "err " + c
	}
}
