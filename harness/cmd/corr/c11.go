package main

import (
	"bytes"
	"fmt"
	"net/url"
	"strings"

	"verifharness/internal/drv"
	"verifharness/internal/impl"
)

func init() { props["C11"] = runC11 }

func patternBytes(n int) []byte {
	b := make([]byte, n)
	for i := range b {
		b[i] = byte((i*7 + 3) % 256)
	}
	return b
}

// rangeObs canonicalises a GET response for C11.
func rangeObs(r impl.Resp) string {
	switch {
	case r.Panic != "":
		return "panic"
	case r.Hang:
		return "hang"
	case (r.Status == 200 || r.Status == 206) && r.Header.Get("Content-Range") != "":
		// the status line is not part of C11's statement (the code answers 200 with a
		// Content-Range); a ranged answer is recognised by its Content-Range header
		cr := strings.TrimPrefix(r.Header.Get("Content-Range"), "bytes ")
		return fmt.Sprintf("206 %s %s %s", cr, r.Header.Get("Content-Length"), drv.Hex(r.Body))
	case r.Status == 200:
		cl := r.Header.Get("Content-Length")
		if cl != fmt.Sprint(len(r.Body)) {
			return fmt.Sprintf("200 CL=%s len=%d", cl, len(r.Body))
		}
		return fmt.Sprintf("200 %d %s", len(r.Body), drv.Hex(r.Body))
	case r.Status == 206:
		cr := strings.TrimPrefix(r.Header.Get("Content-Range"), "bytes ")
		return fmt.Sprintf("206 %s %s %s", cr, r.Header.Get("Content-Length"), drv.Hex(r.Body))
	default:
		code := r.ErrCode()
		if code == "" {
			return fmt.Sprintf("status %d", r.Status)
		}
		return "err " + code
	}
}

func c11Headers(size int, thorough bool) []string {
	var hs []string
	lo, hi := -1, size+2
	for a := lo; a <= hi; a++ {
		hs = append(hs, fmt.Sprintf("bytes=%d-", a), fmt.Sprintf("bytes=-%d", a))
		for b := lo; b <= hi; b++ {
			hs = append(hs, fmt.Sprintf("bytes=%d-%d", a, b))
		}
	}
	return hs
}

var c11Boundary = []string{
	"", "bytes=", "bytes=-", "bytes=--", "bytes=0", "bytes", "byte=0-1", "boats=0-0", "Bytes=0-1", "bytes =0-1",
	"bytes=0-2147483647", "bytes=0-2147483648", "bytes=2147483647-", "bytes=2147483648-", "bytes=-2147483648",
	"bytes=0-9223372036854775806", "bytes=0-9223372036854775807", "bytes=1-9223372036854775807",
	"bytes=2-9223372036854775807", "bytes=0-9223372036854775808", "bytes=9223372036854775807-",
	"bytes=9223372036854775807-9223372036854775807", "bytes=9223372036854775808-", "bytes=-9223372036854775807",
	"bytes=-9223372036854775808", "bytes=-9223372036854775809", "bytes=--9223372036854775808",
	"bytes=0-18446744073709551615", "bytes=0-18446744073709551616", "bytes=99999999999999999999-",
	"bytes=-99999999999999999999", "bytes=0-99999999999999999999",
	"bytes= 0-1", "bytes=0-1 ", "bytes= 0 - 1 ", "bytes=0 -1", "bytes=0- 1", "bytes=\t0-1", "bytes=0-\t", "bytes= -2", "bytes=- 2", "bytes=-2 ",
	"bytes=  1-  ", "bytes=1 - ", "bytes=\n1-2", "bytes=1-2\r", "bytes=1\v-2", "bytes=1-\f2",
	"bytes=0-1,2-3", "bytes=0-1,", "bytes=,", "bytes=,0-1", "bytes=0-0,-1", "bytes=a-b,c",
	"bytes=+1-+2", "bytes=+0-", "bytes=-+2", "bytes=1-+3", "bytes=-0", "bytes=0-0", "bytes=00-01", "bytes=-00", "bytes=-01",
	"bytes=0x1-2", "bytes=1_0-2", "bytes=1-2-3", "bytes=1--2", "bytes=a-", "bytes=-a", "bytes=1-a", "bytes=a-1", "bytes=1.0-2", "bytes=1e1-",
	"bytes=0-−1", "bytes=٣-٤", "bytes=1-2;", "bytes=;1-2", "bytes==1-2", "bytes=1=2",
}

func runC11(c *Ctx) {
	maxSize := 8
	if c.Thorough() {
		maxSize = 24
	}
	c.R.Rule = fmt.Sprintf("exhaustive: object sizes 0..%d × Range headers 'bytes=a-b','bytes=a-','bytes=-n' with a,b,n in -1..size+2, plus %d boundary/whitespace/multi-range/unit headers per size class, on every backend instance; memory backend additionally: the current and an archived version of a key in a versioned bucket read with ?versionId and every such header; fs backends additionally: object files placed into the bucket's directory directly (no stored metadata), each read for the first time by a ranged GET; a case is non-trivial when the model's answer is a 206 or a 416 and distinct by (size, header)", maxSize, len(c11Boundary))
	c.R.Exhaustive = true
	for _, kind := range c.kinds(impl.AllKinds) {
		inst, err := impl.New(kind, c.Tmp)
		if err != nil {
			c.R.Notes = append(c.R.Notes, "cannot create "+kind+": "+err.Error())
			c.mismatch(Mismatch{Kind: "model", Backend: kind, Finger: "setup", Impl: err.Error()})
			continue
		}
		bucket := impl.SingleBucketName
		inst.EnsureBucket(bucket)
		fs := "0"
		if inst.IsFs() {
			fs = "1"
		}
		for size := 0; size <= maxSize; size++ {
			data := patternBytes(size)
			key := fmt.Sprintf("obj%d", size)
			pr := inst.Do(impl.Req{Method: "PUT", Path: "/" + bucket + "/" + key, Body: bytes.NewReader(data)})
			if pr.Status != 200 {
				c.mismatch(Mismatch{Kind: "model", Backend: kind, Finger: "setup-put", Impl: fmt.Sprintf("PUT status %d %s", pr.Status, pr.Panic)})
				continue
			}
			hs := c11Headers(size, c.Thorough())
			if size <= 3 || size == maxSize || size == 5 {
				hs = append(hs, c11Boundary...)
			}
			for _, h := range hs {
				rq := impl.Req{Method: "GET", Path: "/" + bucket + "/" + key}
				if h != "" {
					rq.Header = map[string]string{"Range": h}
				}
				obs := rangeObs(inst.Do(rq))
				line := fmt.Sprintf("getrange %s %s %s", fs, drv.HexS(h), drv.Hex(data))
				model, _ := c.check(kind, nil, line, obs, "range:"+classifyRange(h))
				c.hist("answer:" + strings.Join(strings.SplitN(model+"  ", " ", 3)[:1], " ") + ":" + classifyRange(h))
				if strings.HasPrefix(model, "206") || strings.HasPrefix(model, "err") {
					c.nontrivial(fmt.Sprintf("%d|%s", size, h))
				}
				if size == 5 && kind == "mem" {
					c.sample(fmt.Sprintf("size=5 Range=%q -> %s", h, obs))
				}
			}
		}
		// memory backend: a specific version (current and archived) read with ?versionId and a Range
		if kind == "mem" {
			vb := "vrange"
			inst.Do(impl.Req{Method: "PUT", Path: "/" + vb})
			inst.Do(impl.Req{Method: "PUT", Path: "/" + vb, Query: "versioning", Body: strings.NewReader(`<VersioningConfiguration xmlns="http://s3.amazonaws.com/doc/2006-03-01/"><Status>Enabled</Status></VersioningConfiguration>`)})
			var vids []string
			var datas [][]byte
			for _, size := range []int{6, 9} {
				d := patternBytes(size)
				pr := inst.Do(impl.Req{Method: "PUT", Path: "/" + vb + "/vk", Body: bytes.NewReader(d)})
				vids = append(vids, pr.Header.Get("X-Amz-Version-Id"))
				datas = append(datas, d)
			}
			for i, vid := range vids {
				if vid == "" {
					c.mismatch(Mismatch{Kind: "model", Backend: kind, Finger: "setup-version", Impl: "no version id on a versioned upload"})
					break
				}
				for _, h := range append(c11Headers(len(datas[i]), false), "", "bytes=0-", "bytes=-0", "bytes=9-", "bytes=-10", "bytes=0-9223372036854775807") {
					rq := impl.Req{Method: "GET", Path: "/" + vb + "/vk", Query: "versionId=" + url.QueryEscape(vid)}
					if h != "" {
						rq.Header = map[string]string{"Range": h}
					}
					obs := rangeObs(inst.Do(rq))
					line := fmt.Sprintf("getrange %s %s %s", fs, drv.HexS(h), drv.Hex(datas[i]))
					c.check(kind, nil, line, obs, "range-of-version:"+classifyRange(h))
					c.hist("version-read:" + classifyRange(h))
				}
			}
		}
		// fs backends: object files that were put into the bucket's directory directly (no stored
		// metadata: the backend computes the digest on first access); the ranged GET is the FIRST
		// access to each file
		if inst.IsFs() {
			data := patternBytes(7)
			n := 0
			for _, h := range append(c11Headers(7, false), "", "bytes=0-", "bytes=3-", "bytes=-2", "bytes=1-1", "bytes=6-100", "bytes=7-") {
				key := fmt.Sprintf("ext%d", n)
				n++
				if err := inst.WriteObjectFile(bucket, key, data); err != nil {
					c.mismatch(Mismatch{Kind: "model", Backend: kind, Finger: "setup-extfile", Impl: err.Error()})
					break
				}
				rq := impl.Req{Method: "GET", Path: "/" + bucket + "/" + key}
				if h != "" {
					rq.Header = map[string]string{"Range": h}
				}
				obs := rangeObs(inst.Do(rq))
				line := fmt.Sprintf("getrange %s %s %s", fs, drv.HexS(h), drv.Hex(data))
				c.check(kind, nil, line, obs, "range-first-access:"+classifyRange(h))
				c.hist("first-access:" + classifyRange(h))
			}
		}
		inst.Close()
	}
}

func classifyRange(h string) string {
	switch {
	case strings.Contains(h, ","):
		return "multi"
	case strings.Contains(h, "92233720368547758") || strings.Contains(h, "18446744073709551") || strings.Contains(h, "99999999999"):
		return "int64-boundary"
	case strings.HasPrefix(h, "bytes=-"):
		return "suffix"
	case strings.HasSuffix(strings.TrimSpace(h), "-"):
		return "open"
	default:
		return "first-last"
	}
}
