package main

import (
	"strings"

	"verifharness/internal/impl"
)

// c06FailedStoreLong: on a real directory, a complete whose store the file system refuses because
// the (slash-free) key is no file name it can hold — in a bucket that holds NO object yet — must
// leave the bucket, the pending upload and its parts as they were.
func c06FailedStoreLong(c *Ctx, kind, prop string) {
	inst, err := impl.New(kind, c.Tmp)
	if err != nil {
		c.mismatch(Mismatch{Kind: "model", Backend: kind, Finger: "setup", Impl: err.Error()})
		return
	}
	defer inst.Close()
	r := newRunner(c, inst, false, false, false)
	b := "bk1"
	if inst.IsSingle() {
		b = impl.SingleBucketName
	} else {
		r.MkBucket(b)
	}
	key := strings.Repeat("L", 300)
	part := []byte("PARTDATA")
	var trace []string
	note := func(l, o string) { trace = append(trace, trunc(l, 120)+" -> "+trunc(o, 80)) }
	fail := func(what, obs, want string) {
		c.mismatch(Mismatch{Kind: "spec", Backend: kind, Case: append([]string{}, trace...), Impl: what + ": " + trunc(obs, 200), Spec: want, Finger: prop + ":refused-complete-changed-upload:empty-bucket"})
	}
	l, o, id := r.MpInit(b, key, nil)
	note(l, o)
	if id == "" {
		return
	}
	l, o = r.MpPart(b, key, id, "1", part, "", nil)
	note(l, o)
	l, o = r.MpComplete(b, key, id, []cpart{{1, etagOf(part)}})
	note(l, o)
	c.R.Evaluations++
	if !strings.HasPrefix(o, "err ") {
		c.hist(prop + ":failed-store-long:not-refused")
		return
	}
	c.hist(prop + ":failed-store-long:refused")
	c.nontrivial(prop + "|failed-store-long|" + kind)
	l, o = r.HeadBucket(b)
	note(l, o)
	if o != "ok" {
		fail("HEAD of the bucket after the refused complete", o, "the bucket is still there")
		return
	}
	lu, uo := r.MpUploads(b, false, "", false, "", "", "", "", 1000)
	note(lu, uo.Obs)
	found := false
	for _, it := range uo.Items {
		if it == hx(key)+":"+id {
			found = true
		}
	}
	if !found {
		fail("ListMultipartUploads after the refused complete", uo.Obs, "the upload is still pending (neither completed nor aborted)")
		return
	}
	lp, po := r.MpParts(b, key, id, "", "", 0, 1000)
	note(lp, po.Obs)
	if !po.OK || len(po.Items) != 1 {
		fail("ListParts after the refused complete", po.Obs, "part 1 is still held")
		return
	}
	ll, lo := r.List(ListReq{Bucket: b, ClampedMaxKeys: 1000})
	note(ll, lo.Obs)
	if !lo.OK || len(lo.Keys) != 0 {
		fail("listing of the bucket after the refused complete", lo.Obs, "an empty listing")
	}
}
