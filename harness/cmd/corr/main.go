// corr: correspondence between the real gofakes3 code (built from /repo's working
// tree with -tags verif) and the Lean model/spec (gfsdriver), one property at a time.
package main

import (
	"bytes"
	"path/filepath"
	"encoding/json"
	"flag"
	"fmt"
	"math/rand"
	"os"
	"os/exec"
	"sort"
	"strings"

	"verifharness/internal/drv"
)

type Mismatch struct {
	Kind    string   `json:"kind"` // "spec" (implementation violates the spec predicate) or "model" (implementation ≠ model)
	Backend string   `json:"backend"`
	Case    []string `json:"case"` // the driver lines that reproduce it
	Impl    string   `json:"impl"`
	Model   string   `json:"model"`
	Spec    string   `json:"spec"`
	Finger  string   `json:"fingerprint"`
	Note    string   `json:"note,omitempty"`
}

type Report struct {
	Property    string         `json:"property"`
	Tier        string         `json:"tier"`
	Seed        int64          `json:"seed"`
	Evaluations int            `json:"evaluations"`
	Distinct    int            `json:"distinct_nontrivial"`
	Rule        string         `json:"rule"`
	Samples     []string       `json:"samples"`
	Exhaustive  bool           `json:"exhaustive"`
	Mismatches  []Mismatch     `json:"mismatches"`
	Hist        map[string]int `json:"histogram"`
	Notes       []string       `json:"notes"`
	DriverLines int            `json:"driver_lines"`
	Skipped     int            `json:"skipped_unknown"`
}

type Ctx struct {
	Tier      string
	Seed      int64
	Rng       *rand.Rand
	Tmp       string
	D         *drv.Driver
	R         *Report
	seen      map[string]bool
	Only      string // restrict to one backend kind (replay)
	Replay    string
	maxMism   int
	perFinger map[string]int
	NMism     int // total mismatches recorded (also beyond maxMism)
	NSpecMism int // those of kind "spec"
}

func (c *Ctx) Thorough() bool { return c.Tier == "thorough" }

func (c *Ctx) hist(k string) { c.R.Hist[k]++ }

func (c *Ctx) sample(s string) {
	if len(c.R.Samples) < 12 {
		c.R.Samples = append(c.R.Samples, s)
	}
}

// nontrivial registers a distinct non-trivial case fingerprint.
func (c *Ctx) nontrivial(fp string) {
	if !c.seen[fp] {
		c.seen[fp] = true
		c.R.Distinct++
	}
}

func (c *Ctx) mismatch(m Mismatch) {
	c.NMism++
	if m.Kind == "spec" {
		c.NSpecMism++
	}
	// keep at most 4 witnesses per (backend, kind, fingerprint) so that a frequent (possibly known)
	// mismatch never crowds a different one out of the report
	if c.perFinger == nil {
		c.perFinger = map[string]int{}
	}
	fk := m.Backend + "|" + m.Kind + "|" + m.Finger
	c.perFinger[fk]++
	if c.perFinger[fk] <= 4 && len(c.R.Mismatches) < c.maxMism {
		c.R.Mismatches = append(c.R.Mismatches, m)
	}
	c.hist("mismatch:" + m.Kind + ":" + m.Finger)
}

// check compares one implementation observation with the model and the spec.
// `prefix` are the driver lines needed to reach the state (replay), `line` the judged op.
func (c *Ctx) check(backend string, prefix []string, line, impl, finger string) (model, spec string) {
	model, spec, err := c.D.Ask(line)
	if err != nil {
		fmt.Fprintln(os.Stderr, "corr:", err)
		os.Exit(3)
	}
	c.R.Evaluations++
	cs := append(append([]string{}, prefix...), line)
	if spec != "-" && impl != spec {
		c.mismatch(Mismatch{Kind: "spec", Backend: backend, Case: cs, Impl: impl, Model: model, Spec: spec, Finger: finger})
	} else if impl != model {
		c.mismatch(Mismatch{Kind: "model", Backend: backend, Case: cs, Impl: impl, Model: model, Spec: spec, Finger: finger})
	}
	return
}

func (c *Ctx) tell(line string) {
	if _, _, err := c.D.Ask(line); err != nil {
		fmt.Fprintln(os.Stderr, "corr:", err)
		os.Exit(3)
	}
}

var props = map[string]func(*Ctx){}

func main() {
	prop := flag.String("prop", "", "property id")
	tier := flag.String("tier", "quick", "quick|thorough")
	seed := flag.Int64("seed", 1, "PRNG seed")
	driver := flag.String("driver", "", "path to gfsdriver")
	out := flag.String("out", "", "report file (JSON)")
	tmp := flag.String("tmp", "", "scratch directory")
	only := flag.String("backend", "", "restrict to one backend kind")
	replay := flag.String("replay", "", "replay file")
	corpus := flag.String("corpus", "", "directory holding corpus/<property>/*.txt (default: derived from the driver path)")
	flag.Parse()
	if *corpus == "" && *driver != "" {
		// <verif>/lean/.lake/build/bin/gfsdriver
		d := *driver
		for i := 0; i < 5; i++ {
			d = filepath.Dir(d)
		}
		*corpus = d
	}
	f, ok := props[*prop]
	if !ok {
		var ks []string
		for k := range props {
			ks = append(ks, k)
		}
		sort.Strings(ks)
		fmt.Fprintf(os.Stderr, "corr: unknown property %q (have %s)\n", *prop, strings.Join(ks, " "))
		os.Exit(2)
	}
	if isolateProps[*prop] && *only == "" && *replay == "" {
		runIsolated(*prop, *tier, *seed, *driver, *out, *tmp)
		return
	}
	d, err := drv.Start(*driver)
	if err != nil {
		fmt.Fprintln(os.Stderr, "corr: cannot start driver:", err)
		os.Exit(3)
	}
	ctx := &Ctx{Tier: *tier, Seed: *seed, Rng: rand.New(rand.NewSource(*seed)), Tmp: *tmp, D: d,
		R: &Report{Property: *prop, Tier: *tier, Seed: *seed, Hist: map[string]int{}}, seen: map[string]bool{},
		Only: *only, Replay: *replay, maxMism: 400}
	// the witnesses of past findings first
	if *corpus != "" {
		if n := runCorpus(ctx, *prop, *corpus); n > 0 {
			ctx.R.Hist["corpus:operations-replayed"] = n
		}
	}
	f(ctx)
	d.Close()
	ctx.R.DriverLines = d.N
	if ctx.R.Mismatches == nil {
		ctx.R.Mismatches = []Mismatch{}
	}
	b, _ := json.MarshalIndent(ctx.R, "", " ")
	if *out == "" {
		os.Stdout.Write(b)
	} else if err := os.WriteFile(*out, b, 0644); err != nil {
		fmt.Fprintln(os.Stderr, "corr:", err)
		os.Exit(3)
	}
}

// Properties whose generators feed hostile input to the real code run every backend kind in its
// own child process: a fatal runtime error (stack overflow, SIGBUS) then costs one child, is
// reported as a finding, and does not take the other backends' results with it.
var isolateProps = map[string]bool{"C09": true, "C10": true}

func runIsolated(prop, tier string, seed int64, driver, out, tmp string) {
	merged := &Report{Property: prop, Tier: tier, Seed: seed, Hist: map[string]int{}, Exhaustive: false}
	for _, kind := range []string{"mem", "bolt", "fsM-mem", "fsM-dir", "fsS-mem", "fsS-dir"} {
		childOut := fmt.Sprintf("%s/child-%s.json", tmp, kind)
		os.Remove(childOut)
		cmd := exec.Command(os.Args[0], "-prop", prop, "-tier", tier, "-seed", fmt.Sprint(seed), "-driver", driver, "-tmp", tmp, "-backend", kind, "-out", childOut)
		var stderr bytes.Buffer
		cmd.Stderr = &stderr
		err := cmd.Run()
		var rep Report
		if b, rerr := os.ReadFile(childOut); rerr == nil && json.Unmarshal(b, &rep) == nil && err == nil {
			merged.Evaluations += rep.Evaluations
			merged.Distinct += rep.Distinct
			merged.DriverLines += rep.DriverLines
			merged.Skipped += rep.Skipped
			merged.Rule = rep.Rule
			merged.Notes = append(merged.Notes, rep.Notes...)
			if len(merged.Samples) < 12 {
				merged.Samples = append(merged.Samples, rep.Samples...)
			}
			merged.Mismatches = append(merged.Mismatches, rep.Mismatches...)
			for k, v := range rep.Hist {
				merged.Hist[k] += v
			}
			continue
		}
		// the child died: find what it was
		tail := stderr.String()
		what := "fatal runtime error"
		for _, l := range strings.Split(tail, "\n") {
			if strings.HasPrefix(l, "fatal error:") || strings.HasPrefix(l, "panic:") || strings.Contains(l, "signal SIG") {
				what = strings.TrimSpace(l)
				break
			}
		}
		frames := ""
		for _, l := range strings.Split(tail, "\n") {
			if strings.Contains(l, "github.com/") && !strings.HasPrefix(l, "\t") && len(frames) < 600 {
				frames += strings.TrimSpace(l) + " <- "
			}
		}
		last := ""
		if b, rerr := os.ReadFile(fmt.Sprintf("%s/lastop-%s.txt", tmp, kind)); rerr == nil {
			last = string(b)
		}
		merged.Mismatches = append(merged.Mismatches, Mismatch{Kind: "spec", Backend: kind, Finger: "process-crash", Impl: what + " ; " + trunc(frames, 500),
			Spec: "the server process survives every request", Case: []string{"last operation before the crash: " + last}})
		merged.Hist["process-crash:"+kind]++
	}
	if merged.Mismatches == nil {
		merged.Mismatches = []Mismatch{}
	}
	b, _ := json.MarshalIndent(merged, "", " ")
	if out == "" {
		os.Stdout.Write(b)
	} else {
		os.WriteFile(out, b, 0644)
	}
}

func (c *Ctx) kinds(all []string) []string {
	if c.Only == "" {
		return all
	}
	for _, k := range all {
		if k == c.Only {
			return []string{k}
		}
	}
	return nil
}
