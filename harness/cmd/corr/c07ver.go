package main

// (E-v) pairs of overlapping writes onto ONE key of a versioned bucket of the memory backend,
// under a clock that advances with every reading, followed by "upload once more, delete that
// newest version by id, read": the version served afterwards must be the one a sequential order
// of the pair leaves newest — version ids, the order of the version stack and what `promote`
// picks are all part of the observation.
// (F) a slow reader: a download whose client stalls after the first piece of the body while the
// key is overwritten must deliver, in full, one of the two bodies with that body's ETag and length.

import (
	"bytes"
	"crypto/md5"
	"encoding/hex"
	"fmt"
	"net/http"
	"net/http/httptest"
	"strings"
	"sync/atomic"
	"time"

	"github.com/johannesboyne/gofakes3"

	"verifharness/internal/impl"
)

// tickTS advances by one second per reading; the reading is taken BEFORE the call parks (it is
// the instant the code asked for the time)
type tickTS struct {
	p    *parkCtl
	name string
	n    *int64
}

func (t tickTS) Now() time.Time {
	v := atomic.AddInt64(t.n, 1)
	t.p.hook(t.name)
	return impl.FixedTime.Add(time.Duration(v) * time.Second)
}
func (t tickTS) Since(x time.Time) time.Duration { return impl.FixedTime.Sub(x) }

func c07PairsVersioned(c *Ctx) {
	kind := "mem"
	b, k := "bk1", "d/k"
	pc := &parkCtl{parked: make(chan string, 1), release: make(chan struct{})}
	var ticks int64
	impl.BackendTimeSource = tickTS{pc, "backend.timeSource.Now", &ticks}
	gofakes3.VerifSetGate(pc.hook)
	defer func() {
		impl.BackendTimeSource = nil
		gofakes3.VerifSetGate(nil)
	}()
	ops := []pairOp{
		{"put1", func(r *Runner) (string, string) { return r.Put(b, k, nil, []byte("one")) }},
		{"put2", func(r *Runner) (string, string) { return r.Put(b, k, nil, []byte("second")) }},
		{"del", func(r *Runner) (string, string) { return r.Del(b, k) }},
	}
	full := VerListReq{Bucket: b, ClampedMaxKeys: 1000}
	for ai := range ops {
		for bi := range ops {
			for skip := 0; skip < 4; skip++ {
				inst, err := impl.New(kind, c.Tmp)
				if err != nil {
					c.mismatch(Mismatch{Kind: "model", Backend: kind, Finger: "setup", Impl: err.Error()})
					return
				}
				r := newRunner(c, inst, false, false, false)
				ok := true
				setup := func(l, o string) {
					before := c.NMism
					r.judgeProj(l, o, "c07:pairv:setup", ident, nil)
					ok = ok && c.NMism == before
				}
				setup(r.MkBucket(b))
				setup(r.SetVer(b, "E"))
				setup(r.Put(b, k, nil, []byte("old-k")))
				if ok {
					reads := func() []pairRead {
						var reads []pairRead
						l, o := r.Get(b, k)
						reads = append(reads, pairRead{l, o})
						ll, lo := r.ListVersions(full)
						reads = append(reads, pairRead{ll, lo.Obs})
						// once more, and that newest version away again: what is promoted?
						l, o = r.Put(b, k, nil, []byte("third"))
						reads = append(reads, pairRead{l, o})
						_, lo = r.ListVersions(full)
						for _, e := range lo.Entries {
							if e.Key == k && e.Latest && !e.Marker {
								l, o = r.DelV(b, k, e.RawVid, e.Vid)
								reads = append(reads, pairRead{l, o})
							}
						}
						l, o = r.Get(b, k)
						reads = append(reads, pairRead{l, o})
						ll, lo = r.ListVersions(full)
						reads = append(reads, pairRead{ll, lo.Obs})
						return reads
					}
					runPair(c, kind, pc, r, "versioned", ops[ai], ops[bi], skip, reads, nil)
				}
				inst.Close()
			}
		}
	}
}

// stallWriter is a ResponseWriter whose first body Write signals `first` and waits for `release`
type stallWriter struct {
	rec     *httptest.ResponseRecorder
	first   chan struct{}
	release chan struct{}
	stalled bool
}

func (w *stallWriter) Header() http.Header { return w.rec.Header() }
func (w *stallWriter) WriteHeader(s int)   { w.rec.WriteHeader(s) }
func (w *stallWriter) Write(p []byte) (int, error) {
	if !w.stalled {
		w.stalled = true
		// the client has taken the first piece and now stalls
		n := len(p)
		if n > 4096 {
			n = 4096
		}
		w.rec.Write(p[:n])
		close(w.first)
		<-w.release
		m, err := w.rec.Write(p[n:])
		return n + m, err
	}
	return w.rec.Write(p)
}

func c07SlowReader(c *Ctx, kind string) {
	sizes := []int{40 << 10, 6 << 20}
	for _, size := range sizes {
		inst, err := impl.New(kind, c.Tmp)
		if err != nil {
			c.mismatch(Mismatch{Kind: "model", Backend: kind, Finger: "setup", Impl: err.Error()})
			return
		}
		b := impl.SingleBucketName
		inst.EnsureBucket(b)
		oldBody := bytes.Repeat([]byte("OLD-body-"), size/9+1)[:size]
		newBody := bytes.Repeat([]byte("new+BODY+!"), size/10+1)[:size*2/3]
		sumOf := func(x []byte) string { s := md5.Sum(x); return hex.EncodeToString(s[:]) }
		desc := []string{fmt.Sprintf("%s: PUT /%s/slow (%d bytes); GET whose client stalls after the first 4 KiB; PUT /%s/slow (%d other bytes) is acknowledged; the client reads on", kind, b, size, b, len(newBody))}
		if st := inst.Do(impl.Req{Method: "PUT", Path: "/" + b + "/slow", Body: bytes.NewReader(oldBody)}).Status; st != 200 {
			c.mismatch(Mismatch{Kind: "model", Backend: kind, Finger: "c07:slow-reader:setup", Impl: fmt.Sprintf("PUT -> %d", st)})
			inst.Close()
			continue
		}
		w := &stallWriter{rec: httptest.NewRecorder(), first: make(chan struct{}), release: make(chan struct{})}
		done := make(chan string, 1)
		go func() {
			defer func() {
				if p := recover(); p != nil {
					done <- fmt.Sprintf("panic: %v", p)
				}
			}()
			rq, _ := http.NewRequest("GET", "http://s3.test/"+b+"/slow", nil)
			rq.RequestURI = "/" + b + "/slow"
			inst.H.ServeHTTP(w, rq)
			done <- ""
		}()
		readerDone := false
		select {
		case <-w.first:
		case p := <-done:
			readerDone = true
			if p != "" {
				c.mismatch(Mismatch{Kind: "spec", Backend: kind, Case: desc, Impl: p, Spec: "an answer", Finger: "c07:slow-reader:panic"})
			}
		case <-time.After(20 * time.Second):
			c.mismatch(Mismatch{Kind: "spec", Backend: kind, Case: desc, Impl: "the download neither wrote nor returned", Spec: "an answer", Finger: "c07:slow-reader:hang"})
			inst.Close()
			continue
		}
		// the overwrite: it may have to wait for a lock the reader holds; it is given a moment, then
		// the reader goes on
		putDone := make(chan int, 1)
		go func() {
			putDone <- inst.Do(impl.Req{Method: "PUT", Path: "/" + b + "/slow", Body: bytes.NewReader(newBody)}).Status
		}()
		overtook := false
		select {
		case st := <-putDone:
			overtook = true
			putDone <- st
		case <-time.After(300 * time.Millisecond):
		}
		if !readerDone {
			close(w.release)
			select {
			case <-done:
			case <-time.After(20 * time.Second):
				c.mismatch(Mismatch{Kind: "spec", Backend: kind, Case: desc, Impl: "the download did not finish", Spec: "an answer", Finger: "c07:slow-reader:hang"})
				inst.Close()
				continue
			}
		}
		st := 0
		select {
		case st = <-putDone:
		case <-time.After(20 * time.Second):
		}
		c.R.Evaluations++
		res := w.rec.Result()
		got := w.rec.Body.Bytes()
		etag := strings.Trim(res.Header.Get("ETag"), `"`)
		viol := ""
		switch {
		case st != 200:
			viol = fmt.Sprintf("the overwrite was answered %d", st)
		case res.StatusCode != 200:
			viol = fmt.Sprintf("the download was answered %d", res.StatusCode)
		case !bytes.Equal(got, oldBody) && !bytes.Equal(got, newBody):
			viol = fmt.Sprintf("the download delivered %d bytes that are neither upload (old %d bytes, new %d bytes; first difference from the old body at offset %d)", len(got), len(oldBody), len(newBody), firstDiff(got, oldBody))
		case etag != sumOf(got):
			viol = fmt.Sprintf("the download delivered the %d-byte body with ETag %s (its MD5 is %s)", len(got), etag, sumOf(got))
		case res.Header.Get("Content-Length") != fmt.Sprint(len(got)):
			viol = fmt.Sprintf("Content-Length %s for %d bytes", res.Header.Get("Content-Length"), len(got))
		}
		if viol != "" {
			c.mismatch(Mismatch{Kind: "spec", Backend: kind, Case: desc, Impl: viol, Spec: "a read returns, in full, the body of one upload that could have been current, with that body's ETag and length", Finger: "c07:slow-reader"})
		}
		c.hist(fmt.Sprintf("slow-reader:%s:size=%d:overtook=%v", kind, size, overtook))
		c.nontrivial(fmt.Sprintf("slow-reader|%s|%d", kind, size))
		inst.Close()
	}
}

func firstDiff(a, b []byte) int {
	n := len(a)
	if len(b) < n {
		n = len(b)
	}
	for i := 0; i < n; i++ {
		if a[i] != b[i] {
			return i
		}
	}
	return n
}
