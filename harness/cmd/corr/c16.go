package main

import (
	"bytes"
	"fmt"
	"io"
	"net/http"
	"net/http/httptest"
	"net/url"
	"os"
	"strings"

	"github.com/johannesboyne/gofakes3"
	"github.com/johannesboyne/gofakes3/backend/s3mem"

	"verifharness/internal/impl"
)

func init() { props["C16"] = runC16 }

type hostCfg struct {
	hostBucket bool
	bases      []string
}

func (h hostCfg) opts() []gofakes3.Option {
	o := []gofakes3.Option{gofakes3.WithTimeSource(gofakes3.FixedTimeSource(impl.FixedTime)), gofakes3.WithTimeSkewLimit(0)}
	if h.hostBucket {
		o = append(o, gofakes3.WithHostBucket(true))
	}
	if len(h.bases) > 0 {
		o = append(o, gofakes3.WithHostBucketBase(h.bases...))
	}
	return o
}

func (h hostCfg) line(host, path string) string {
	bs := "~"
	if len(h.bases) > 0 {
		var x []string
		for _, b := range h.bases {
			x = append(x, hx(b))
		}
		bs = strings.Join(x, ",")
	}
	return fmt.Sprintf("hostrewrite %s %s %s %s", b01(h.hostBucket), bs, hx(host), hx(path))
}

// serveRaw runs one request and returns (status, body, rewritten URL.Path, panic?)
func serveRaw(h http.Handler, method, host, path, rawQuery string, hdr map[string]string, body []byte) (int, []byte, http.Header, string, bool) {
	var rd io.Reader
	if body != nil {
		rd = bytes.NewReader(body)
	}
	hr, _ := http.NewRequest(method, "http://placeholder/", rd)
	hr.URL = &url.URL{Scheme: "http", Host: host, Path: path, RawQuery: rawQuery}
	// what net/http makes of the request line an SDK sends (everything but unreserved characters
	// and '/' percent-encoded): URL.Path is the decoded path and URL.RawPath keeps the wire form
	// whenever that is not Go's own encoding of the path ('+', ':', '@', '(', "'" ...)
	if u, err := url.ParseRequestURI(sdkEscapePath(path)); err == nil && u.Path == path && path != "" {
		hr.URL.RawPath = u.RawPath
	}
	hr.Host = host
	if body != nil {
		hr.ContentLength = int64(len(body))
		hr.Header.Set("Content-Length", fmt.Sprint(len(body)))
	}
	for k, v := range hdr {
		hr.Header.Set(k, v)
	}
	rec := httptest.NewRecorder()
	panicked := false
	func() {
		defer func() {
			if p := recover(); p != nil {
				panicked = true
			}
		}()
		h.ServeHTTP(rec, hr)
	}()
	res := rec.Result()
	b, _ := io.ReadAll(res.Body)
	return res.StatusCode, b, res.Header, hr.URL.Path, panicked
}

// sdkEscapePath: the AWS SDKs' URI encoding of a path: unreserved characters and '/' stay
func sdkEscapePath(p string) string {
	var b strings.Builder
	for i := 0; i < len(p); i++ {
		ch := p[i]
		switch {
		case ch >= 'a' && ch <= 'z', ch >= 'A' && ch <= 'Z', ch >= '0' && ch <= '9', ch == '-', ch == '_', ch == '.', ch == '~', ch == '/':
			b.WriteByte(ch)
		default:
			fmt.Fprintf(&b, "%%%02X", ch)
		}
	}
	return b.String()
}

func canonResp(status int, body []byte, hdr http.Header) string {
	var hs []string
	for _, k := range []string{"Etag", "Content-Length", "Content-Type", "X-Amz-Version-Id", "X-Amz-Delete-Marker", "Content-Range", "Location", "X-Amz-Meta-T"} {
		if v := hdr.Get(k); v != "" {
			hs = append(hs, k+"="+v)
		}
	}
	return fmt.Sprintf("%d [%s] %s", status, strings.Join(hs, ";"), trunc(string(body), 600))
}

func runC16(c *Ctx) {
	defer c16Binary(c)
	cfgs := []hostCfg{
		{hostBucket: true},
		{bases: []string{"s3.example.com"}},
		{bases: []string{"s3.example.com", "other.test"}},
		{bases: []string{"localhost:9000"}},
		{bases: []string{".dotted.base."}},
		{hostBucket: true, bases: []string{"s3.example.com"}},
		{bases: []string{"localhost", "s3.localhost"}}, // an earlier base is a suffix of a later one
		{bases: []string{"s3.localhost", "localhost"}},
		{bases: []string{"example.com", "s3.example.com", "eu.s3.example.com"}},
		{},
	}
	labels := []string{"mybucket", "abc", "b-2", "a1b"}
	paths := []string{"", "/", "/key", "/dir/key", "/key/", "//key", "/a%2Fb", "/k with space", "/日本", "/a+b", "/dir/u@x:1"}
	c.R.Rule = "function level: the URL path the real middleware chain hands to the router (read back from the request after ServeHTTP) for every combination of 7 option sets × hosts {label.base for every configured base, label.otherbase, base itself, x.label.base, unrelated, with and without :port, empty} × 11 paths (sent as an SDK encodes them, so that net/http retains URL.RawPath where the wire form is not its own encoding), compared with the Lean model (HostBucket.serverRewrite) and the specification (path-style equivalent); behaviour level: one memory backend shared by a path-style and a host-style server, every operation (PUT, GET, HEAD, DELETE, list V1/V2, versioning, multipart initiate/abort, multi-delete, copy) issued in one style and observed in the other, and reads issued in both styles compared response for response; outer-slash variants of the path; non-trivial = distinct (options, host, path)"
	// (a) function level
	for _, cfg := range cfgs {
		g := gofakes3.New(s3mem.New(), cfg.opts()...)
		h := g.Server()
		var hosts []string
		for _, l := range labels[:2] {
			for _, b := range append(append([]string{}, cfg.bases...), "s3.example.com", "unrelated.org", "localhost", "localhost:9000", "s3.localhost", "eu.s3.example.com") {
				nb := strings.Trim(b, ".")
				hosts = append(hosts, l+"."+nb, l+"."+nb+":8080", "x."+l+"."+nb, nb, l, l+".", "."+nb, l+".."+nb)
			}
		}
		hosts = append(hosts, "", "127.0.0.1:9000", "[::1]:9000", "mybucket.S3.EXAMPLE.COM")
		hosts = uniq(hosts)
		for _, host := range hosts {
			for _, p := range paths {
				_, _, _, got, panicked := serveRaw(h, "GET", host, p, "", nil, nil)
				obs := "path=" + hx(got)
				if panicked {
					obs = "panic"
				}
				line := cfg.line(host, p)
				model, spec, err := c.D.Ask(line)
				if err != nil {
					panic(err)
				}
				c.R.Evaluations++
				mp := strings.SplitN(model, " ", 2)
				if obs != mp[0] {
					// where does the router take the path the implementation produced?  (the split is
					// the model's route split, proved in C16 and checked in part (c))
					kind, implSplit := "model", ""
					if !panicked {
						m2, _, _ := c.D.Ask(fmt.Sprintf("hostrewrite 0 ~ %s %s", hx("h"), hx(got)))
						if f := strings.SplitN(m2, " ", 2); len(f) == 2 {
							implSplit = f[1]
							if implSplit != spec {
								kind = "spec"
							}
						}
					} else {
						kind = "spec"
					}
					c.mismatch(Mismatch{Kind: kind, Backend: "mem", Case: []string{line}, Impl: obs + " " + implSplit, Model: model, Spec: spec, Finger: "c16:rewrite"})
				} else if len(mp) == 2 && mp[1] != spec {
					c.mismatch(Mismatch{Kind: "spec", Backend: "mem", Case: []string{line}, Impl: obs + " " + mp[1], Model: model, Spec: spec, Finger: "c16:rewrite-vs-path-style"})
				}
				c.nontrivial(fmt.Sprintf("%v|%s|%s", cfg, host, p))
				if len(c.R.Samples) < 5 && strings.Contains(host, "mybucket.s3") {
					c.sample(fmt.Sprintf("opts=%+v Host=%q path=%q -> %q", cfg, host, p, got))
				}
			}
		}
		c.hist("rewrite-configs")
	}
	// (b) behaviour level: shared backend
	for _, cfg := range cfgs[:9] {
		backend := s3mem.New(s3mem.WithTimeSource(gofakes3.FixedTimeSource(impl.FixedTime)), s3mem.WithVersionSeed(1))
		pathSrv := gofakes3.New(backend, hostCfg{}.opts()...).Server()
		hostSrv := gofakes3.New(backend, cfg.opts()...).Server()
		basesToTry := []string{"s3.example.com"}
		if len(cfg.bases) > 0 {
			basesToTry = nil
			for _, bb := range cfg.bases {
				basesToTry = append(basesToTry, strings.Trim(bb, "."))
			}
		}
		base := basesToTry[0]
		for li, b := range labels {
			base = basesToTry[li%len(basesToTry)]
			host := b + "." + base
			pair := func(name, method, keyPath, query string, hdr map[string]string, body []byte, mutating bool) {
				// path style
				ps, pb, ph, _, pp := serveRaw(pathSrv, method, "plain.host", "/"+b+keyPath, query, hdr, body)
				// host style
				hs, hb, hh, _, hp := serveRaw(hostSrv, method, host, keyPath, query, hdr, body)
				c.R.Evaluations++
				a, bb := canonResp(ps, pb, ph), canonResp(hs, hb, hh)
				if pp || hp {
					a, bb = fmt.Sprint("panic=", pp), fmt.Sprint("panic=", hp)
				}
				if mutating {
					// the second request of a mutating pair sees the effect of the first; compare status only
					a, bb = fmt.Sprint(ps), fmt.Sprint(hs)
					if name == "createBucket" || name == "deleteBucket" || name == "abort" {
						return
					}
				}
				if a != bb {
					c.mismatch(Mismatch{Kind: "spec", Backend: "mem", Case: []string{fmt.Sprintf("%s %s host=%s path=%s?%s vs /%s%s", name, method, host, keyPath, query, b, keyPath)},
						Impl: "host-style: " + bb, Spec: "path-style: " + a, Finger: "c16:pair:" + name})
				}
				c.hist("pair:" + name)
			}
			// create through host style, observe through path style
			s, _, _, _, _ := serveRaw(hostSrv, "PUT", host, "/", "", nil, nil)
			c.R.Evaluations++
			s2, _, _, _, _ := serveRaw(pathSrv, "HEAD", "plain.host", "/"+b, "", nil, nil)
			if s != 200 || s2 != 200 {
				c.mismatch(Mismatch{Kind: "spec", Backend: "mem", Case: []string{"PUT / host=" + host + " then HEAD /" + b}, Impl: fmt.Sprint(s, s2), Spec: "200 200", Finger: "c16:cross:createBucket"})
			}
			keys := []string{"/k1", "/dir/k2", "/k 3", "/ü", "/dir//k4", "/a/./b", "/a/../c", "/a+b.txt", "/dir/user@example.com", "/2024-01-01T10:00.jpg", "/it's (1)!*"}
			for i, k := range keys {
				body := []byte(fmt.Sprintf("content-%s-%d", b, i))
				// write host-style, read path-style
				serveRaw(hostSrv, "PUT", host, k, "", map[string]string{"X-Amz-Meta-T": "h"}, body)
				st, got, _, _, _ := serveRaw(pathSrv, "GET", "plain.host", "/"+b+k, "", nil, nil)
				c.R.Evaluations++
				if st != 200 || !bytes.Equal(got, body) {
					c.mismatch(Mismatch{Kind: "spec", Backend: "mem", Case: []string{"PUT host=" + host + " path=" + k + " then GET /" + b + k}, Impl: fmt.Sprint(st, " ", trunc(string(got), 80)), Spec: "200 " + string(body), Finger: "c16:cross:put-host-get-path"})
				}
				// write path-style, read host-style
				body2 := append(body, '!')
				serveRaw(pathSrv, "PUT", "plain.host", "/"+b+k, "", nil, body2)
				st, got, _, _, _ = serveRaw(hostSrv, "GET", host, k, "", nil, nil)
				c.R.Evaluations++
				if st != 200 || !bytes.Equal(got, body2) {
					c.mismatch(Mismatch{Kind: "spec", Backend: "mem", Case: []string{"PUT /" + b + k + " then GET host=" + host + " path=" + k}, Impl: fmt.Sprint(st, " ", trunc(string(got), 80)), Spec: "200 " + string(body2), Finger: "c16:cross:put-path-get-host"})
				}
				pair("get", "GET", k, "", nil, nil, false)
				pair("head", "HEAD", k, "", nil, nil, false)
				pair("get-range", "GET", k, "", map[string]string{"Range": "bytes=1-3"}, nil, false)
				pair("get-missing", "GET", k+"-missing", "", nil, nil, false)
			}
			pair("list-v1", "GET", "/", "", nil, nil, false)
			pair("list-v1-noslash", "GET", "", "", nil, nil, false)
			pair("list-v2", "GET", "/", "list-type=2&prefix=dir&delimiter=%2F", nil, nil, false)
			pair("list-delim", "GET", "/", "delimiter=%2F&max-keys=1", nil, nil, false)
			pair("location", "GET", "/", "location", nil, nil, false)
			pair("versioning-get", "GET", "/", "versioning", nil, nil, false)
			pair("versions", "GET", "/", "versions", nil, nil, false)
			pair("uploads", "GET", "/", "uploads", nil, nil, false)
			pair("head-bucket", "HEAD", "/", "", nil, nil, false)
			pair("versioning-put", "PUT", "/", "versioning", nil, []byte("<VersioningConfiguration><Status>Enabled</Status></VersioningConfiguration>"), true)
			pair("copy", "PUT", "/copied", "", map[string]string{"X-Amz-Copy-Source": "/" + b + "/k1"}, nil, true)
			pair("multi-delete", "POST", "/", "delete", nil, []byte("<Delete><Object><Key>nope</Key></Object></Delete>"), true)
			pair("mp-initiate", "POST", "/mp", "uploads", nil, nil, true)
			pair("delete", "DELETE", "/k1", "", nil, nil, true)
			pair("method-not-allowed", "PATCH", "/k1", "", nil, nil, false)
			// host-style delete is visible path-style
			serveRaw(hostSrv, "DELETE", host, "/dir/k2", "", nil, nil)
			st, _, _, _, _ := serveRaw(pathSrv, "GET", "plain.host", "/"+b+"/dir/k2", "", nil, nil)
			c.R.Evaluations++
			if st != 404 {
				c.mismatch(Mismatch{Kind: "spec", Backend: "mem", Case: []string{"DELETE host=" + host + " /dir/k2 then GET /" + b + "/dir/k2"}, Impl: fmt.Sprint(st), Spec: "404", Finger: "c16:cross:delete-host-get-path"})
			}
		}
		// hosts that are not <single label>.<base> fall back to path style (base lists only)
		if len(cfg.bases) > 0 {
			for _, host := range []string{base, "a.b." + base, "unrelated.org", "mybucket." + base + ".evil.org", "mybucket." + base + ":1234"} {
				// with overlapping bases a host may be <label>.<other base>: then it is not a fallback host
				isLabelBase := false
				for _, bb := range cfg.bases {
					nb := "." + strings.Trim(bb, ".")
					if strings.HasSuffix(host, nb) && !strings.Contains(strings.TrimSuffix(host, nb), ".") {
						isLabelBase = true
					}
				}
				if isLabelBase {
					continue
				}
				serveRaw(pathSrv, "PUT", "plain.host", "/fallback/obj", "", nil, []byte("fb"))
				serveRaw(pathSrv, "PUT", "plain.host", "/fallback", "", nil, nil)
				serveRaw(pathSrv, "PUT", "plain.host", "/fallback/obj", "", nil, []byte("fb"))
				st, got, _, _, _ := serveRaw(hostSrv, "GET", host, "/fallback/obj", "", nil, nil)
				c.R.Evaluations++
				if st != 200 || string(got) != "fb" {
					c.mismatch(Mismatch{Kind: "spec", Backend: "mem", Case: []string{"GET host=" + host + " /fallback/obj (bases " + strings.Join(cfg.bases, ",") + ")"}, Impl: fmt.Sprint(st, " ", trunc(string(got), 60)), Spec: "200 fb (path-style fallback)", Finger: "c16:fallback"})
				}
			}
		}
	}
	// (c) outer slashes
	backend := s3mem.New()
	srv := gofakes3.New(backend, hostCfg{}.opts()...).Server()
	serveRaw(srv, "PUT", "h", "/slashes", "", nil, nil)
	for i := 1; i <= 3; i++ {
		for j := 0; j <= 3; j++ {
			for _, k := range []string{"k", "d/k", "d//k"} {
				p := strings.Repeat("/", i) + "slashes/" + k + strings.Repeat("/", j)
				body := []byte(fmt.Sprintf("s%d%d%s", i, j, k))
				serveRaw(srv, "PUT", "h", p, "", nil, body)
				st, got, _, _, _ := serveRaw(srv, "GET", "h", "/slashes/"+k, "", nil, nil)
				c.R.Evaluations++
				if st != 200 || !bytes.Equal(got, body) {
					c.mismatch(Mismatch{Kind: "spec", Backend: "mem", Case: []string{"PUT " + p + " then GET /slashes/" + k}, Impl: fmt.Sprint(st, " ", string(got)), Spec: "200 " + string(body), Finger: "c16:outer-slashes"})
				}
				line := fmt.Sprintf("hostrewrite 0 ~ %s %s", hx("h"), hx(p))
				model, _, _ := c.D.Ask(line)
				want := fmt.Sprintf("bucket=%s key=%s", hx("slashes"), hx(k))
				c.R.Evaluations++
				if !strings.HasSuffix(model, want) {
					c.mismatch(Mismatch{Kind: "model", Backend: "mem", Case: []string{line}, Impl: want, Model: model, Finger: "c16:route-split"})
				}
			}
		}
	}
}


// (c) the shipped binary: its -hostbucket / -hostbucketbase flags (given once, repeated, or as a
// comma-separated list) must configure the same addressing as the library options: an object
// stored path-style is read host-style under every configured base with the same answer.
func c16Binary(c *Ctx) {
	if c.Only != "" && c.Only != "mem" {
		return
	}
	bin, err := buildServerBinary(c.Tmp)
	if err != nil {
		c.mismatch(Mismatch{Kind: "model", Backend: "binary", Finger: "c16:binary:build", Impl: err.Error()})
		return
	}
	defer os.Remove(bin)
	type variant struct {
		args  []string
		hosts []string // hosts that must address bucket "mybucket"
	}
	variants := []variant{
		{[]string{"-hostbucketbase", "s3.one.test"}, []string{"mybucket.s3.one.test"}},
		{[]string{"-hostbucketbase", "s3.one.test", "-hostbucketbase", "s3.two.test"}, []string{"mybucket.s3.one.test", "mybucket.s3.two.test"}},
		{[]string{"-hostbucketbase", "s3.one.test,s3.two.test"}, []string{"mybucket.s3.one.test", "mybucket.s3.two.test"}},
		{[]string{"-hostbucketbase", "s3.one.test", "-hostbucketbase", "s3.two.test", "-hostbucketbase", "three.test"}, []string{"mybucket.s3.one.test", "mybucket.s3.two.test", "mybucket.three.test"}},
		{[]string{"-hostbucket"}, []string{"mybucket.anything.test", "mybucket.localhost"}},
	}
	for _, v := range variants {
		args := append([]string{"-backend", "mem"}, v.args...)
		p, err := startServer(bin, args)
		if err != nil {
			c.mismatch(Mismatch{Kind: "model", Backend: "binary", Finger: "c16:binary:start", Impl: err.Error(), Case: args})
			continue
		}
		do := func(method, host, path string, body []byte) (int, string) {
			req, _ := http.NewRequest(method, "http://127.0.0.1:"+p.port+path, bytes.NewReader(body))
			if host != "" {
				req.Host = host
			}
			resp, err := binClient.Do(req)
			if err != nil {
				return 0, err.Error()
			}
			defer resp.Body.Close()
			b, _ := io.ReadAll(resp.Body)
			return resp.StatusCode, string(b)
		}
		// path-style needs a host that matches no base (with -hostbucket every host is a bucket host:
		// the object is then written host-style)
		pathHost := "127.0.0.1:" + p.port
		if v.args[0] == "-hostbucket" {
			do("PUT", v.hosts[0], "/", nil)
			do("PUT", v.hosts[0], "/dir/key", []byte("binary-body"))
		} else {
			do("PUT", pathHost, "/mybucket", nil)
			do("PUT", pathHost, "/mybucket/dir/key", []byte("binary-body"))
		}
		for _, h := range v.hosts {
			st, body := do("GET", h, "/dir/key", nil)
			c.R.Evaluations++
			c.nontrivial("binary|" + strings.Join(v.args, " ") + "|" + h)
			if st != 200 || body != "binary-body" {
				c.mismatch(Mismatch{Kind: "spec", Backend: "binary", Case: []string{"gofakes3 " + strings.Join(args, " "), "PUT /mybucket ; PUT /mybucket/dir/key (path-style)", "GET /dir/key with Host: " + h},
					Impl: fmt.Sprintf("%d %s", st, trunc(body, 120)), Spec: "200 binary-body (the object of bucket mybucket, as path-style /mybucket/dir/key answers)", Finger: "c16:binary:host-style"})
			}
		}
		p.kill()
	}
}
