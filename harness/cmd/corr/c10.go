package main

import (
	"fmt"
	"os"
	"path/filepath"
	"sort"
	"strings"

	"verifharness/internal/drv"
	"verifharness/internal/impl"
)

func init() { props["C10"] = runC10 }

// storeSnap: every bucket, every key (through the Backend API listing, unpaginated, no delimiter) and
// every object's bytes and ETag, plus — on the real-directory instances — the file tree below the base path.
type storeSnap struct {
	buckets []string
	objs    map[string]string // "bucket\x00key" -> "etag:hexbody" or "ERR <what>"
	listErr map[string]string
	tree    []string
}

func takeSnap(r *Runner, known []string) storeSnap {
	s := storeSnap{objs: map[string]string{}, listErr: map[string]string{}}
	_, bo := r.Buckets()
	if strings.HasPrefix(bo, "buckets ") {
		f := strings.TrimPrefix(bo, "buckets ")
		if f != "-" {
			for _, h := range strings.Split(f, ",") {
				b, _ := hexDecode(h)
				s.buckets = append(s.buckets, b)
			}
		}
	} else {
		s.listErr["<buckets>"] = bo
	}
	seen := map[string]bool{}
	for _, b := range append(append([]string{}, s.buckets...), known...) {
		if seen[b] {
			continue
		}
		seen[b] = true
		_, lo := r.List(ListReq{Bucket: b, ClampedMaxKeys: 1000})
		if !lo.OK {
			s.listErr[b] = lo.Obs
			continue
		}
		for _, k := range lo.Keys {
			_, g := r.Get(b, k)
			s.objs[b+"\x00"+k] = dropMeta(g)
		}
	}
	if r.inst.Dir != "" && strings.HasSuffix(r.inst.Kind, "-dir") {
		filepath.Walk(r.inst.Dir, func(p string, info os.FileInfo, err error) error {
			if err == nil && !info.IsDir() {
				rel, _ := filepath.Rel(r.inst.Dir, p)
				if !strings.Contains(rel, "metadata") && !strings.HasPrefix(rel, "meta") {
					s.tree = append(s.tree, fmt.Sprintf("%s:%d", rel, info.Size()))
				}
			}
			return nil
		})
		sort.Strings(s.tree)
	}
	return s
}

func hexDecode(h string) (string, error) {
	if h == "-" {
		return "", nil
	}
	b := make([]byte, len(h)/2)
	_, err := fmt.Sscanf(h, "%x", &b)
	return string(b), err
}

// frameViolations: what changed outside the address set
func frameViolations(before, after storeSnap, addr map[string]bool, bucketOp string) []string {
	var v []string
	for k, x := range before.objs {
		if addr[k] {
			continue
		}
		if bucketOp != "" && strings.HasPrefix(k, bucketOp+"\x00") {
			continue
		}
		if y, ok := after.objs[k]; !ok {
			v = append(v, "disappeared: "+strings.Replace(k, "\x00", "/", 1))
		} else if y != x {
			v = append(v, "changed: "+strings.Replace(k, "\x00", "/", 1)+" "+trunc(x, 40)+" -> "+trunc(y, 40))
		}
	}
	for k := range after.objs {
		if addr[k] {
			continue
		}
		if bucketOp != "" && strings.HasPrefix(k, bucketOp+"\x00") {
			continue
		}
		if _, ok := before.objs[k]; !ok {
			v = append(v, "appeared: "+strings.Replace(k, "\x00", "/", 1))
		}
	}
	for b, e := range after.listErr {
		if before.listErr[b] != e && b != bucketOp {
			v = append(v, "unlistable: "+b+" "+e)
		}
	}
	if bucketOp == "" && strings.Join(before.buckets, ",") != strings.Join(after.buckets, ",") {
		v = append(v, fmt.Sprintf("buckets changed: %v -> %v", before.buckets, after.buckets))
	}
	sort.Strings(v)
	return v
}

var c10HostileKeys = []string{
	".", "..", "a/../b", "../bk2/k", "../bk2/secret", "../../etc", "a/./b", "a//b", "/lead", ".hidden", "..hidden", "a\\b", "a\\..\\b", "%2e%2e/x", "%2e%2e%2fbk2%2fk",
	"_meta", "bucket/bk2", "metadata", "buckets", "buckets/bk2/k", ".modtime-resolution", "metadata/bk1/x", "k", "k/sub", "k/sub/deep", "kk", "secret",
	"x/../../bk2/secret", "...", "a/..", "a/../..", "..\\bk2\\k", "con", "sp ace", "ü/../ö", "dir_file", "dir\\file", "dir/file", "dir_file_x", "k_sub", "k/sub_deep", "k_sub/deep",
	"k/.", "k/x/..", "secret/.", "secret/x/..", "dir/file/.", "dir/file/y/..", "dir/.", "dir/./file", "./k",
}

func runC10(c *Ctx) {
	nSeq := 14
	if c.Thorough() {
		nSeq = 400
	}
	long := strings.Repeat("L", 300)
	// 240 bytes: a file name the file system takes, but too long once the fs backends append their
	// 33-byte suffix to it for the metadata file
	mid := strings.Repeat("M", 240)
	keys := append(append([]string{}, c10HostileKeys...), long, "d/"+long, long+"/x", mid, "d/"+mid)
	c.R.Rule = fmt.Sprintf("%d sequences per backend instance over buckets {bk1,bk2,bk3} with related contents (bk2/secret, bk2/k, bk1/k, …) and %d hostile keys ('.', '..', 'a/../b', '../bk2/k', empty segments, leading dots, backslashes, percent-encoded dots, 300-byte and 240-byte segments, names equal to backend internals (_meta, bucket/x, metadata, buckets, .modtime-resolution), keys that are path prefixes of others); deterministic stages: buckets whose names are string prefixes of each other (pre, prefix, pre-fix) around a delete and a force delete of the shortest, and every kind of listing addressed to a name of the backend's own storage ('.', '..', _meta, metadata, buckets, bucket); every operation kind (put, get, head, delete, multi-delete, copy, list, bucket create/delete incl. internal names) is framed by a whole-store snapshot (all buckets, all keys, all bodies and ETags; on real-directory instances also the file tree): nothing outside the addressed (bucket,key) set may change, appear, disappear or become unlistable; mem/bolt: every answer is also compared with the Lean model (keys are opaque); fs: a refusal is allowed; non-trivial = distinct (backend, operation, key)", nSeq, len(keys))
	for _, kind := range c.kinds(impl.AllKinds) {
		for s := 0; s < nSeq; s++ {
			c10Sequence(c, kind, keys, s)
		}
	}
}

func c10Sequence(c *Ctx, kind string, keys []string, seqIdx int) {
	inst, err := impl.New(kind, c.Tmp)
	if err != nil {
		c.mismatch(Mismatch{Kind: "model", Backend: kind, Finger: "setup", Impl: err.Error()})
		return
	}
	defer inst.Close()
	r := newRunner(c, inst, false, false, false)
	r.EnableFsTrack()
	buckets := []string{"bk1", "bk2", "bk3"}
	if inst.IsSingle() {
		buckets = []string{impl.SingleBucketName}
		r.tell("mkbucket " + hx(impl.SingleBucketName))
	}
	modelled := !inst.IsFs() // the Lean model is compared on the key-value backends only
	live := true
	judge := func(line, obs, finger string) {
		if !modelled || !live {
			return
		}
		before := c.NMism
		r.judgeProj(line, obs, "c10:"+finger, dropMeta, nil)
		if c.NMism > before {
			live = false
		}
	}
	tellModel := func(line string) {
		if modelled && live {
			r.tell(line)
		}
	}
	_ = tellModel
	// setup: related contents
	if !inst.IsSingle() {
		for _, b := range buckets {
			l, o := r.MkBucket(b)
			judge(l, o, "setup")
		}
	}
	for _, b := range buckets {
		for _, k := range []string{"k", "secret", "dir/file"} {
			l, o := r.Put(b, k, nil, []byte("orig:"+b+"/"+k))
			judge(l, o, "setup")
		}
	}
	// deterministic (first sequences of every backend): sibling keys that differ only in '/', '_' (and
	// '\\' off the file systems) are written, overwritten and deleted one after the other; the others must not move
	if seqIdx < 3 {
		sibs := []string{"sib/ling", "sib_ling"}
		if !inst.IsFs() {
			sibs = append(sibs, "sib\\ling")
		}
		b := buckets[0]
		for round := 0; round < 2; round++ {
			for _, k := range sibs {
				before := takeSnap(r, buckets)
				line, obs := r.Put(b, k, map[string]string{"X-Amz-Meta-Sib": k}, []byte(fmt.Sprintf("sib:%s:%d", k, round)))
				after := takeSnap(r, buckets)
				c.R.Evaluations++
				if v := frameViolations(before, after, map[string]bool{b + "\x00" + k: true}, ""); len(v) > 0 {
					c.mismatch(Mismatch{Kind: "spec", Backend: kind, Case: append(append([]string{}, r.Lines...), line), Impl: obs + " ; " + strings.Join(v, " ; "),
						Spec: "writing " + k + " changes no sibling key", Finger: "c10:frame:sibling-keys"})
					return
				}
				judge(line, obs, "sibling-put")
				// the metadata of every sibling is its own
				for _, k2 := range sibs {
					_, g := r.Get(b, k2)
					if strings.HasPrefix(g, "obj ") && !strings.Contains(g, hx("X-Amz-Meta-Sib")+"="+hx(k2)) {
						c.mismatch(Mismatch{Kind: "spec", Backend: kind, Case: append(append([]string{}, r.Lines...), line), Impl: trunc(g, 200),
							Spec: "key " + k2 + " carries its own headers", Finger: "c10:frame:sibling-keys"})
						return
					}
				}
			}
		}
		before := takeSnap(r, buckets)
		line, obs := r.Del(b, sibs[1])
		after := takeSnap(r, buckets)
		if v := frameViolations(before, after, map[string]bool{b + "\x00" + sibs[1]: true}, ""); len(v) > 0 {
			c.mismatch(Mismatch{Kind: "spec", Backend: kind, Case: append(append([]string{}, r.Lines...), line), Impl: obs + " ; " + strings.Join(v, " ; "),
				Spec: "deleting " + sibs[1] + " changes no sibling key", Finger: "c10:frame:sibling-keys"})
			return
		}
		judge(line, obs, "sibling-del")
		_, g := r.Get(b, sibs[0])
		if !strings.Contains(g, hx("X-Amz-Meta-Sib")+"="+hx(sibs[0])) {
			c.mismatch(Mismatch{Kind: "spec", Backend: kind, Case: append(append([]string{}, r.Lines...), line), Impl: trunc(g, 200),
				Spec: "key " + sibs[0] + " keeps its headers when its sibling is deleted", Finger: "c10:frame:sibling-keys"})
			return
		}
	}
	// deterministic (first sequence of every multi-bucket backend): buckets whose names are string
	// prefixes of each other; deleting / force-deleting the shorter one must not touch the others
	if seqIdx == 0 && !inst.IsSingle() {
		all := append(append([]string{}, buckets...), "pre", "prefix", "pre-fix")
		for _, nb := range []string{"prefix", "pre-fix", "pre"} {
			l, o := r.MkBucket(nb)
			judge(l, o, "prefix-buckets-setup")
		}
		for _, nb := range []string{"prefix", "pre-fix"} {
			l, o := r.Put(nb, "k", map[string]string{"X-Amz-Meta-Own": nb}, []byte("in:"+nb))
			judge(l, o, "prefix-buckets-setup")
			l, o = r.Put(nb, "d/e", nil, []byte("in:"+nb+"/d/e"))
			judge(l, o, "prefix-buckets-setup")
		}
		for _, force := range []bool{false, true} {
			if force {
				l, o := r.Put("pre", "x/y", nil, []byte("doomed"))
				judge(l, o, "prefix-buckets-setup")
			}
			before := takeSnap(r, all)
			line, obs := r.RmBucket("pre", force)
			if _, hb := r.HeadBucket("pre"); obs != "ok" && r.fsTrack && strings.HasPrefix(hb, "err ") {
				// a force delete that removed the bucket and then answered the error of the plain delete after it
				r.fsAsk("fsrm " + hx("pre"))
			}
			after := takeSnap(r, all)
			c.R.Evaluations++
			v := frameViolations(before, after, map[string]bool{}, "pre")
			for _, nb := range []string{"prefix", "pre-fix"} {
				if _, g := r.Get(nb, "k"); !strings.HasPrefix(g, "obj ") || !strings.Contains(g, hx("X-Amz-Meta-Own")+"="+hx(nb)) {
					v = append(v, "after the delete "+nb+"/k reads "+trunc(g, 120))
				}
			}
			if len(v) > 0 {
				c.mismatch(Mismatch{Kind: "spec", Backend: kind, Case: append(append([]string{}, r.Lines...), line), Impl: obs + " ; " + strings.Join(v, " ; "),
					Spec: "deleting bucket pre changes nothing in buckets prefix and pre-fix", Finger: "c10:frame:bucket-op:prefix-named-buckets"})
				return
			}
			judge(line, obs, "prefix-buckets-delete")
			l, o := r.MkBucket("pre")
			judge(l, o, "prefix-buckets-setup")
		}
		l, o := r.RmBucket("pre", false)
		judge(l, o, "prefix-buckets-setup")
		for _, nb := range []string{"prefix", "pre-fix"} {
			l, o = r.RmBucket(nb, true)
			judge(l, o, "prefix-buckets-setup")
		}
	}
	// deterministic (first sequence of every backend): a multi-delete of percent-encoded spellings of
	// existing keys deletes keys of exactly those names (which do not exist), not the keys they decode to
	if seqIdx == 0 {
		b := buckets[0]
		alias := []string{"dir%2Ffile", "%6b", "secre%74", "dir%2ffile"}
		addr := map[string]bool{}
		var objs []ObjID
		for _, k := range alias {
			addr[b+"\x00"+k] = true
			objs = append(objs, ObjID{Key: k})
		}
		before := takeSnap(r, buckets)
		line, obs := r.DelMulti(b, objs)
		after := takeSnap(r, buckets)
		c.R.Evaluations++
		if v := frameViolations(before, after, addr, ""); len(v) > 0 {
			c.mismatch(Mismatch{Kind: "spec", Backend: kind, Case: append(append([]string{}, r.Lines...), line), Impl: obs + " ; " + strings.Join(v, " ; "),
				Spec: "a multi-delete of dir%2Ffile, %6b, secre%74 changes no other key (dir/file, k, secret stay)", Finger: "c10:frame:deleteMulti:percent-encoded"})
			return
		}
		judge(line, obs, "percent-encoded-multi-delete")
	}
	// deterministic (first sequence of every backend): names of the backend's own storage never read
	// as a bucket, whatever the kind of listing
	if seqIdx == 0 {
		for _, nb := range []string{".", "..", "_meta", "metadata", "buckets", "bucket", "./bk2", "bk1/.."} {
			for _, q := range []ListReq{
				{Bucket: nb, ClampedMaxKeys: 1000},
				{Bucket: nb, ClampedMaxKeys: 1000, V2: true},
				{Bucket: nb, ClampedMaxKeys: 1000, HasDelim: true, Delim: "/"},
				{Bucket: nb, ClampedMaxKeys: 1000, HasDelim: true, Delim: "|"},
				{Bucket: nb, ClampedMaxKeys: 1000, HasPrefix: true, Prefix: "bk2/"},
				{Bucket: nb, ClampedMaxKeys: 1000, HasPrefix: true, Prefix: "bk2/", HasDelim: true, Delim: "/"},
			} {
				if strings.Contains(nb, "/") && inst.IsSingle() {
					continue
				}
				line, lo := r.List(q)
				c.R.Evaluations++
				if lo.OK {
					c.mismatch(Mismatch{Kind: "spec", Backend: kind, Case: append(append([]string{}, r.Lines...), line), Impl: trunc(lo.Obs, 300),
						Spec: "no bucket of that name was created: the listing is refused", Finger: "c10:internal-name-listed:" + nb})
					return
				}
				if !strings.Contains(nb, "/") {
					judge(line, lo.Obs, "internal-name-listing")
				}
			}
		}
	}
	// deterministic (first sequence of every backend): copies whose SOURCE bucket is a name of the
	// backend's own storage or an alias of it ("." / ".." / "bk1/.." would reach the directory that
	// holds the buckets) — they name no bucket and must be refused, whatever the source key
	if seqIdx == 0 {
		for _, sb := range []string{".", "..", "_meta", "metadata", "buckets", "bk2/..", "bk1/../bk2", "./bk2"} {
			for _, sk := range []string{"bk2/secret", "secret", "bucket/bk1", "bk1/k", "k"} {
				before := takeSnap(r, buckets)
				line, obs := r.Copy(sb, sk, buckets[0], "stolen", nil)
				after := takeSnap(r, buckets)
				c.R.Evaluations++
				refused := strings.HasPrefix(obs, "err ") || strings.HasPrefix(obs, "status ")
				if !refused {
					c.mismatch(Mismatch{Kind: "spec", Backend: kind, Case: append(append([]string{}, r.Lines...), line), Impl: trunc(obs, 120),
						Spec: fmt.Sprintf("copy source %q names no bucket of the store: refused", sb+"/"+sk), Finger: "c10:internal-addressable:copy-source"})
					return
				}
				if v := frameViolations(before, after, map[string]bool{}, ""); len(v) > 0 {
					c.mismatch(Mismatch{Kind: "spec", Backend: kind, Case: append(append([]string{}, r.Lines...), line), Impl: obs + " ; " + strings.Join(v, " ; "),
						Spec: "a refused copy changes nothing", Finger: "c10:frame:copy-from-internal"})
					return
				}
			}
		}
	}
	judge2 := func(line, obs string) { judge(line, obs, "multipart-sweep") }
	// deterministic: a multipart upload belongs to the (bucket, key) it was initiated for: part
	// uploads, part listings, completes and aborts addressed to another key or another bucket with
	// its upload id touch neither that key nor the upload's own key
	if seqIdx == 0 && len(buckets) > 0 {
		b0 := buckets[0]
		own, other := "mp-own", "mp-other"
		judge2(r.Put(b0, own, nil, []byte("own-before")))
		judge2(r.Put(b0, other, nil, []byte("other-before")))
		li, oi, id := r.MpInit(b0, own, nil)
		judge2(li, oi)
		_ = judge2
		body := []byte("mp-part-one")
		if id != "" {
			judge2(r.MpPart(b0, own, id, "1", body, "", nil))
			type tgt struct{ b, k string }
			tgts := []tgt{{b0, other}}
			if len(buckets) > 1 {
				tgts = append(tgts, tgt{buckets[1], own}, tgt{buckets[1], other})
			}
			for _, t := range tgts {
				for _, what := range []string{"part", "parts", "complete", "abort"} {
					before := takeSnap(r, buckets)
					var line, obs string
					switch what {
					case "part":
						line, obs = r.MpPart(t.b, t.k, id, "1", []byte("foreign-part"), "", nil)
					case "parts":
						var po PartsObs
						line, po = r.MpParts(t.b, t.k, id, "", "", 0, 1000)
						obs = po.Obs
					case "complete":
						line, obs = r.MpComplete(t.b, t.k, id, []cpart{{1, etagOf(body)}})
					case "abort":
						line, obs = r.MpAbort(t.b, t.k, id)
					}
					judge2(line, obs)
					after := takeSnap(r, buckets)
					c.R.Evaluations++
					if !strings.HasPrefix(obs, "err ") && !strings.HasPrefix(obs, "status ") {
						c.mismatch(Mismatch{Kind: "spec", Backend: kind, Case: append(append([]string{}, r.Lines...), line), Impl: trunc(obs, 120),
							Spec: fmt.Sprintf("upload %s was initiated for %s/%s: a %s addressed to %s/%s is refused", id, b0, own, what, t.b, t.k), Finger: "c10:upload-through-other-key:" + what})
						return
					}
					if v := frameViolations(before, after, map[string]bool{}, ""); len(v) > 0 {
						c.mismatch(Mismatch{Kind: "spec", Backend: kind, Case: append(append([]string{}, r.Lines...), line), Impl: obs + " ; " + strings.Join(v, " ; "),
							Spec: "a refused multipart request changes nothing", Finger: "c10:frame:upload-through-other-key"})
						return
					}
				}
			}
			// the upload is still whole: completing it through its own key stores exactly its part
			before := takeSnap(r, buckets)
			line, obs := r.MpComplete(b0, own, id, []cpart{{1, etagOf(body)}})
			judge2(line, obs)
			after := takeSnap(r, buckets)
			c.R.Evaluations++
			if !strings.HasPrefix(obs, "completed ") {
				c.mismatch(Mismatch{Kind: "spec", Backend: kind, Case: append(append([]string{}, r.Lines...), line), Impl: trunc(obs, 120),
					Spec: "the upload, untouched by the foreign requests, completes through its own key", Finger: "c10:upload-through-other-key:own-complete"})
				return
			}
			if v := frameViolations(before, after, map[string]bool{b0 + "\x00" + own: true}, ""); len(v) > 0 {
				c.mismatch(Mismatch{Kind: "spec", Backend: kind, Case: append(append([]string{}, r.Lines...), line), Impl: obs + " ; " + strings.Join(v, " ; "),
					Spec: "completing an upload changes its own key only", Finger: "c10:frame:complete"})
				return
			}
			c.hist("upload-through-other-key-sweeps")
		}
		judge2(r.Del(b0, own))
		judge2(r.Del(b0, other))
	}
	n := 12 + c.Rng.Intn(14)
	for i := 0; i < n; i++ {
		b := buckets[c.Rng.Intn(len(buckets))]
		k := keys[c.Rng.Intn(len(keys))]
		before := takeSnap(r, buckets)
		addr := map[string]bool{b + "\x00" + k: true}
		bucketOp := ""
		copyInternal := ""
		var line, obs, opName string
		switch x := c.Rng.Intn(15); {
		case x < 5:
			opName = "put"
			line, obs = r.Put(b, k, nil, []byte(fmt.Sprintf("new:%d", i)))
		case x < 7:
			opName = "get"
			line, obs = r.Get(b, k)
		case x < 8:
			opName = "head"
			line, obs = r.Head(b, k)
		case x < 10:
			opName = "delete"
			line, obs = r.Del(b, k)
		case x < 11:
			opName = "multi-delete"
			k2 := keys[c.Rng.Intn(len(keys))]
			addr[b+"\x00"+k2] = true
			line, obs = r.DelMulti(b, []ObjID{{Key: k}, {Key: k2}})
		case x < 12:
			opName = "copy"
			sb := buckets[c.Rng.Intn(len(buckets))]
			line, obs = r.Copy(sb, "secret", b, k, nil)
		case x < 13:
			opName = "list"
			var lo ListObs
			line, lo = r.List(ListReq{Bucket: b, HasPrefix: true, Prefix: k, HasDelim: c.Rng.Intn(2) == 0, Delim: "/", ClampedMaxKeys: 1000})
			obs = lo.Obs
			addr = map[string]bool{}
		case x < 14:
			// the backend's own bookkeeping named as the SOURCE of a copy (the handler checks the
			// destination bucket only): it must not read as an object
			opName = "copy-from-internal"
			sb := []string{"_meta", "_meta", "metadata", "buckets", ".", ".."}[c.Rng.Intn(6)]
			sk := []string{"bucket/bk1", "bucket/bk2", "bucket/" + impl.SingleBucketName, "bk1/k", "bk2/secret", "k", ".modtime-resolution"}[c.Rng.Intn(7)]
			line, obs = r.Copy(sb, sk, b, k, nil)
			copyInternal = sb + "/" + sk
		default:
			// bucket-level operations with internal / hostile names
			nb := []string{"_meta", "metadata", "buckets", ".", "..", "bk9", "bucket", ".modtime-resolution"}[c.Rng.Intn(8)]
			opName = "bucket-op"
			bucketOp = nb
			addr = map[string]bool{}
			switch c.Rng.Intn(4) {
			case 0:
				line, obs = r.MkBucket(nb)
			case 1:
				line, obs = r.RmBucket(nb, false)
			case 2:
				line, obs = r.HeadBucket(nb)
			default:
				var lo ListObs
				line, lo = r.List(ListReq{Bucket: nb, ClampedMaxKeys: 1000})
				obs = lo.Obs
			}
		}
		after := takeSnap(r, buckets)
		c.R.Evaluations++
		refused := strings.HasPrefix(obs, "err ") || strings.HasPrefix(obs, "status ") || strings.HasPrefix(obs, "hstatus ")
		// specification: the frame
		if v := frameViolations(before, after, addr, bucketOp); len(v) > 0 {
			fp := "c10:frame:" + opName + ":" + c10KeyClass(k)
			if bucketOp != "" {
				fp = "c10:frame:bucket-op:" + bucketOp
			}
			c.mismatch(Mismatch{Kind: "spec", Backend: kind, Case: append(append([]string{}, r.Lines...), line), Impl: obs + " ; " + strings.Join(v, " ; "),
				Spec: "nothing outside " + fmt.Sprint(strings.Replace(fmt.Sprint(addr), "\x00", "/", -1)) + " changes", Finger: fp})
			return
		}
		if obs == "panic" {
			c.mismatch(Mismatch{Kind: "spec", Backend: kind, Case: append(append([]string{}, r.Lines...), line), Impl: obs, Spec: "no panic", Finger: "c10:panic:" + opName + ":" + c10KeyClass(k)})
			return
		}
		// keys that differ as byte strings name different objects: a key the bucket does not hold
		// (it is not in the full listing taken just before) must not read as an object
		if (opName == "get" || opName == "head") && (strings.HasPrefix(obs, "obj ") || strings.HasPrefix(obs, "hobj ")) {
			if _, held := before.objs[b+"\x00"+k]; !held {
				c.mismatch(Mismatch{Kind: "spec", Backend: kind, Case: append(append([]string{}, r.Lines...), line), Impl: trunc(obs, 80),
					Spec: fmt.Sprintf("key %q is not among the bucket's keys: NoSuchKey (or a refusal)", k), Finger: "c10:phantom-key:" + c10KeyClass(k)})
				return
			}
		}
		if copyInternal != "" && !refused {
			c.mismatch(Mismatch{Kind: "spec", Backend: kind, Case: append(append([]string{}, r.Lines...), line), Impl: trunc(obs, 120),
				Spec: fmt.Sprintf("copy source %q names no bucket of the store: refused", copyInternal), Finger: "c10:internal-addressable:copy-source"})
			return
		}
		// internals must not be addressable as buckets
		if bucketOp != "" && !refused && (bucketOp == "_meta" || bucketOp == "." || bucketOp == ".." || bucketOp == "metadata" && false) {
			c.mismatch(Mismatch{Kind: "spec", Backend: kind, Case: append(append([]string{}, r.Lines...), line), Impl: obs, Spec: "internal storage is not a bucket", Finger: "c10:internal-addressable:" + bucketOp})
			return
		}
		if inst.IsFs() {
			c.hist(fmt.Sprintf("fs:%s:refused=%v", opName, refused))
			if r.fsBad {
				return
			}
		} else if bucketOp == "" || (bucketOp != "_meta") {
			judge(line, obs, opName)
		}
		c.nontrivial(kind + "|" + opName + "|" + k)
		if len(c.R.Samples) < 6 && c10KeyClass(k) != "plain" {
			c.sample(fmt.Sprintf("%s %s %s/%q -> %s", kind, opName, b, trunc(k, 40), trunc(obs, 60)))
		}
	}
	_ = drv.Hex
}

func c10KeyClass(k string) string {
	switch {
	case strings.Contains(k, ".."):
		return "dotdot"
	case k == "." || strings.Contains(k, "/./"):
		return "dot"
	case strings.Contains(k, "//") || strings.HasPrefix(k, "/"):
		return "empty-segment"
	case strings.Contains(k, "\\"):
		return "backslash"
	case k == "_meta" || strings.HasPrefix(k, "bucket/") || strings.HasPrefix(k, "metadata") || strings.HasPrefix(k, "buckets") || k == ".modtime-resolution":
		return "internal-name"
	case len(k) >= 300:
		return "long"
	case strings.HasPrefix(k, "k"):
		return "path-prefix"
	}
	return "plain"
}

