package main

import (
	"crypto/md5"
	"encoding/base64"
	"fmt"
	"io"
	"strings"

	"github.com/johannesboyne/gofakes3"

	"verifharness/internal/drv"
	"verifharness/internal/impl"
)

func init() { props["C08"] = runC08 }

// failReader delivers data[:k] and then fails (or ends with EOF).
type failReader struct {
	data        []byte
	pos         int
	fail        bool
	eofWithData bool // the read that delivers the last bytes also reports io.EOF (as net/http bodies do)
}

func (f *failReader) Read(p []byte) (int, error) {
	if f.pos >= len(f.data) {
		if f.fail {
			return 0, errConn
		}
		return 0, io.EOF
	}
	n := copy(p, f.data[f.pos:])
	f.pos += n
	if f.eofWithData && !f.fail && f.pos >= len(f.data) {
		return n, io.EOF
	}
	return n, nil
}

// snapshot of everything C08 says must not change: the object (GET+HEAD), the bucket listing
func c08Snapshot(r *Runner, bucket, key string) string {
	_, g := r.Get(bucket, key)
	_, h := r.Head(bucket, key)
	_, lo := r.List(ListReq{Bucket: bucket, ClampedMaxKeys: 1000})
	// the '/'-delimited listing too: on the fs backends a directory left behind shows as a common prefix
	_, ld := r.List(ListReq{Bucket: bucket, HasDelim: true, Delim: "/", ClampedMaxKeys: 1000})
	return g + " | " + h + " | " + lo.Obs + " | " + ld.Obs
}

func runC08(c *Ctx) {
	nCases := 220
	if c.Thorough() {
		nCases = 4000
	}
	c.R.Rule = fmt.Sprintf("%d upload cases per backend instance and integrity setting drawn from the matrix body (0–3000 B) × Content-MD5 {absent, right, wrong, malformed base64, 15/17-byte digest, empty} × declared length {=, −1, +1, 0, absent, non-numeric, negative} × key length {short, 1023, 1024, 1025 bytes; multi-byte keys of 1024, 1025 and 1200 bytes (600 characters)} × metadata size {small, limit−1, limit, limit+1} × {plain, aws-chunked with right/wrong decoded length} × {over an existing object, absent key} × reader {EOF, failing after k bytes, k ∈ {0,1,len/2,len−1,len}}; each case snapshots GET+HEAD+listing (plain and '/'-delimited; keys also in directories of their own) before and after; compared with the Lean model (Front.createObject) and the specification (acknowledged, or rejected with the snapshot unchanged); the last bytes arrive with or before io.EOF; then %d part uploads per instance over the matrix body × Content-MD5 × declared length × part number {1, 2, 10000, 10001, 0, junk} against a pending upload (ListParts + the object snapshotted before and after; model Front.uploadPartReq; specification: acknowledged with the MD5 of the bytes iff digest and length are right, otherwise refused and nothing changed); non-trivial = distinct case the model rejects", nCases, nCases/4)
	for _, kind := range c.kinds(impl.AllKinds) {
		for _, integ := range []bool{true, false} {
			limit := 300
			inst, err := impl.New(kind, c.Tmp, gofakes3.WithIntegrityCheck(integ), gofakes3.WithMetadataSizeLimit(limit))
			if err != nil {
				c.mismatch(Mismatch{Kind: "model", Backend: kind, Finger: "setup", Impl: err.Error()})
				continue
			}
			r := newRunner(c, inst, false, false, false)
			r.tell(fmt.Sprintf("ucfg %s %d", b01(integ), limit))
			bucket := impl.SingleBucketName
			if inst.IsSingle() {
				r.tell("mkbucket " + hx(bucket))
			} else {
				l, o := r.MkBucket(bucket)
				r.judgeProj(l, o, "setup", ident, nil)
			}
			// an existing object to upload over
			l, o := r.Put(bucket, "existing", map[string]string{"X-Amz-Meta-Keep": "1"}, []byte("previous-content"))
			r.judgeProj(l, o, "setup-put", ident, nil)
			for i := 0; i < nCases; i++ {
				c08Case(c, r, inst, bucket, integ, limit)
			}
			c08Parts(c, r, inst, bucket, integ, nCases/4)
			inst.Close()
		}
	}
}

func c08Case(c *Ctx, r *Runner, inst *impl.Instance, bucket string, integ bool, limit int) {
	kind := inst.Kind
	sz := []int{0, 1, 2, 10, 64, 300, 3000}[c.Rng.Intn(7)]
	body := c.randBytes(sz)
	key := "existing"
	if c.Rng.Intn(2) == 0 {
		key = fmt.Sprintf("fresh-%d", c.Rng.Intn(4))
		if c.Rng.Intn(3) == 0 {
			// a key in directories nothing else lives in
			key = fmt.Sprintf("newdir-%d/sub/obj", c.Rng.Intn(1000))
		}
	}
	keyVariant := "short"
	switch c.Rng.Intn(12) {
	case 0:
		key, keyVariant = strings.Repeat("k", 1023), "1023"
	case 1:
		key, keyVariant = strings.Repeat("k", 1024), "1024"
	case 2:
		key, keyVariant = strings.Repeat("k", 1025), "1025"
	case 3:
		// the limit counts bytes of the key, not characters
		key, keyVariant = strings.Repeat("é", 512), "1024-bytes-utf8"
	case 4:
		key, keyVariant = strings.Repeat("é", 512)+"x", "1025-bytes-utf8"
	case 5:
		key, keyVariant = strings.Repeat("é", 600), "1200-bytes-600-chars"
	}
	if inst.IsFs() && len(key) > 200 {
		// the fs backends cannot hold such file names; the limit itself is checked before the backend is reached
		if len(key) <= 1024 {
			key, keyVariant = "existing", "short"
		}
	}
	// metadata
	md := map[string]string{}
	mdVariant := "small"
	switch c.Rng.Intn(8) {
	case 0, 1, 2:
		// "X-Amz-Meta-Pad" (14) + value ; total = 14 + len(v) + 42
		for _, tgt := range []int{limit - 1, limit, limit + 1} {
			if c.Rng.Intn(3) == 0 {
				md["X-Amz-Meta-Pad"] = strings.Repeat("p", tgt-14-42)
				mdVariant = fmt.Sprintf("size=%d", tgt)
				break
			}
		}
	case 3:
		md["Content-Type"] = "text/plain"
	}
	// Content-MD5
	sum := md5.Sum(body)
	md5Variant := []string{"absent", "right", "wrong", "malformed", "short", "long", "empty"}[c.Rng.Intn(7)]
	hdr := map[string]string{}
	multi := map[string][]string{}
	md5Class := "A"
	switch md5Variant {
	case "right":
		hdr["Content-MD5"] = base64.StdEncoding.EncodeToString(sum[:])
		md5Class = "D:" + drv.Hex(sum[:])
	case "wrong":
		w := md5.Sum(append([]byte("x"), body...))
		hdr["Content-MD5"] = base64.StdEncoding.EncodeToString(w[:])
		md5Class = "D:" + drv.Hex(w[:])
	case "malformed":
		hdr["Content-MD5"] = "!!not-base64!!"
		md5Class = "M"
	case "short":
		hdr["Content-MD5"] = base64.StdEncoding.EncodeToString(sum[:15])
		md5Class = "M"
	case "long":
		hdr["Content-MD5"] = base64.StdEncoding.EncodeToString(append(sum[:], 1))
		md5Class = "M"
	case "empty":
		multi["Content-MD5"] = []string{""}
		md5Class = "E"
	}
	for k, v := range md {
		hdr[k] = v
	}
	// declared length
	clVariant := []string{"=", "=", "=", "-1", "+1", "0", "absent", "nonnumeric", "negative"}[c.Rng.Intn(9)]
	cl := fmt.Sprint(len(body))
	switch clVariant {
	case "-1":
		if len(body) > 0 {
			cl = fmt.Sprint(len(body) - 1)
		}
	case "+1":
		cl = fmt.Sprint(len(body) + 1)
	case "0":
		cl = "0"
	case "nonnumeric":
		cl = "12x"
	case "negative":
		cl = "-5"
	}
	// streaming
	streaming := c.Rng.Intn(5) == 0
	wire := body
	decoded := "~"
	if streaming {
		var chunks []byte
		rest := body
		for len(rest) > 0 {
			n := 1 + c.Rng.Intn(len(rest))
			chunks = append(chunks, c.mkChunk(rest[:n]).encode()...)
			rest = rest[n:]
		}
		chunks = append(chunks, c.mkChunk(nil).encode()...)
		wire = chunks
		hdr["X-Amz-Content-Sha256"] = "STREAMING-AWS4-HMAC-SHA256-PAYLOAD"
		dl := fmt.Sprint(len(body))
		switch c.Rng.Intn(5) {
		case 0:
			dl = fmt.Sprint(len(body) + 1)
		case 1:
			dl = "abc"
		}
		hdr["X-Amz-Decoded-Content-Length"] = dl
		decoded = hx(dl)
		if clVariant != "absent" && clVariant != "nonnumeric" && clVariant != "negative" {
			cl = fmt.Sprint(len(wire)) // the declared Content-Length of the wire format is not what is compared with the payload
		}
	}
	// reader
	tail := "eof"
	sent := wire
	if c.Rng.Intn(5) == 0 {
		tail = "fail"
		ks := []int{0, 1, len(wire) / 2, len(wire) - 1, len(wire)}
		k := ks[c.Rng.Intn(len(ks))]
		if k < 0 {
			k = 0
		}
		if k > len(wire) {
			k = len(wire)
		}
		sent = wire[:k]
	}
	rq := impl.Req{Method: "PUT", Path: r.path(bucket, key), Body: &failReader{data: sent, fail: tail == "fail", eofWithData: c.Rng.Intn(2) == 0}, Header: hdr, MultiH: multi, NoCL: true}
	clTok := "~"
	if clVariant != "absent" {
		rq.Header["Content-Length"] = cl
		clTok = hx(cl)
	}
	// the metadata the handler stores: every X-Amz-* header and the three content headers
	stored := map[string]string{}
	for k, v := range hdr {
		if strings.HasPrefix(k, "X-Amz-") || k == "Content-Type" || k == "Content-Disposition" || k == "Content-Encoding" {
			stored[k] = v
		}
	}
	before := c08Snapshot(r, bucket, key)
	resp := inst.Do(rq)
	after := c08Snapshot(r, bucket, key)
	obs := errObs(resp)
	if resp.Status == 200 && resp.Panic == "" {
		obs = "stored " + etagHex(resp.Header.Get("ETag")) + " vid=" + vidOf(resp.Header.Get("X-Amz-Version-Id"))
	} else if resp.Status == 400 && resp.ErrCode() == "" && resp.Panic == "" {
		obs = "err -"
	}
	line := fmt.Sprintf("upload %s %s %s %s %s %s %s %s %s", hx(bucket), hx(key), clTok, md5Class, b01(streaming), decoded, tail, metaLine(stored), drv.Hex(sent))
	model, spec, err := c.D.Ask(line)
	if err != nil {
		panic(err)
	}
	r.Lines = append(r.Lines, line)
	c.R.Evaluations++
	if spec == "unknown" {
		c.R.Skipped++
		return
	}
	variant := fmt.Sprintf("md5=%s cl=%s key=%s meta=%s streaming=%v tail=%s", md5Variant, clVariant, keyVariant, mdVariant, streaming, tail)
	cs := append(append([]string{}, r.Lines[:3]...), line)
	accepted := strings.HasPrefix(obs, "stored ")
	// why the specification refuses, coarsely: the known findings D16 are about what can only be
	// seen while or after the body is read (its length, its digest, a failing reader)
	early := mdVariant == fmt.Sprintf("size=%d", limit+1) ||
		clVariant == "absent" || clVariant == "nonnumeric" || clVariant == "negative" || len(key) > 1024 ||
		integ && (md5Variant == "empty" || md5Variant == "malformed" || md5Variant == "short" || md5Variant == "long")
	cls := ":streamed"
	if early {
		cls = ":early"
	}
	lengthOnly := !(integ && md5Variant == "wrong")
	// specification first: a rejected upload leaves the snapshot unchanged; an acknowledged one is what the model accepts
	switch {
	case !accepted && before != after:
		c.mismatch(Mismatch{Kind: "spec", Backend: kind, Case: cs, Impl: obs + " ; before: " + trunc(before, 200) + " ; after: " + trunc(after, 200), Model: model, Spec: "rejected ⇒ unchanged",
			Finger: "c08:rejected-upload-changed-state" + map[bool]string{true: "", false: ":early"}[cls == ":streamed"], Note: variant})
	case accepted && spec == "rejected-unchanged":
		c.mismatch(Mismatch{Kind: "spec", Backend: kind, Case: cs, Impl: obs, Model: model, Spec: "must be rejected (" + model + ")",
			Finger: "c08:accepted-bad-upload" + map[bool]string{true: "", false: ":not-length"}[lengthOnly && !early], Note: variant})
	case !accepted && spec == "stored":
		c.mismatch(Mismatch{Kind: "spec", Backend: kind, Case: cs, Impl: obs, Model: model, Spec: "must be accepted", Finger: "c08:rejected-good-upload", Note: variant})
	case obs != model:
		c.mismatch(Mismatch{Kind: "model", Backend: kind, Case: cs, Impl: obs, Model: model, Spec: spec, Finger: "c08:answer", Note: variant})
	}
	// keep model and implementation in step: a divergence resets the key on both sides
	if accepted != (spec == "stored") || (!accepted && before != after) {
		inst.Do(impl.Req{Method: "DELETE", Path: r.path(bucket, key)})
		r.tell(fmt.Sprintf("del %s %s", hx(bucket), hx(key)))
	}
	if spec != "stored" {
		c.nontrivial(kind + "|" + variant + fmt.Sprint(sz))
	}
	c.hist("answer:" + strings.SplitN(model, " ", 3)[0] + ":" + errKind(model))
	if len(c.R.Samples) < 5 && spec != "stored" {
		c.sample(fmt.Sprintf("%s integrity=%v %s size=%d -> %s", kind, integ, variant, sz, obs))
	}
}

// c08Parts: the part-upload half of C08
func c08Parts(c *Ctx, r *Runner, inst *impl.Instance, bucket string, integ bool, n int) {
	kind := inst.Kind
	l, o, id := r.MpInit(bucket, "existing", map[string]string{"X-Amz-Meta-Mp": "1"})
	r.judgeProj(l, o, "setup-mpinit", ident, nil)
	if id == "" {
		return
	}
	l, o = r.MpPart(bucket, "existing", id, "1", []byte("first-part"), "", nil)
	r.judgeProj(l, o, "setup-part", ident, nil)
	snap := func() string {
		_, po := r.MpParts(bucket, "existing", id, "", "", 0, 1000)
		_, g := r.Get(bucket, "existing")
		return po.Obs + " | " + g
	}
	for i := 0; i < n; i++ {
		sz := []int{1, 2, 10, 64, 300}[c.Rng.Intn(5)]
		body := c.randBytes(sz)
		sum := md5.Sum(body)
		md5Variant := []string{"absent", "right", "wrong", "wrong", "malformed", "short", "empty"}[c.Rng.Intn(7)]
		hdr := map[string]string{}
		multi := map[string][]string{}
		md5Class := "A"
		switch md5Variant {
		case "right":
			hdr["Content-MD5"] = base64.StdEncoding.EncodeToString(sum[:])
			md5Class = "D:" + drv.Hex(sum[:])
		case "wrong":
			w := md5.Sum(append([]byte("x"), body...))
			hdr["Content-MD5"] = base64.StdEncoding.EncodeToString(w[:])
			md5Class = "D:" + drv.Hex(w[:])
		case "malformed":
			hdr["Content-MD5"] = "!!not-base64!!"
			md5Class = "M"
		case "short":
			hdr["Content-MD5"] = base64.StdEncoding.EncodeToString(sum[:15])
			md5Class = "M"
		case "empty":
			multi["Content-MD5"] = []string{""}
			md5Class = "E"
		}
		clVariant := []string{"=", "=", "=", "=", "-1", "+1", "0", "absent", "nonnumeric"}[c.Rng.Intn(9)]
		cl := fmt.Sprint(len(body))
		switch clVariant {
		case "-1":
			cl = fmt.Sprint(len(body) - 1)
		case "+1":
			cl = fmt.Sprint(len(body) + 1)
		case "0":
			cl = "0"
		case "nonnumeric":
			cl = "12x"
		}
		pn := []string{"1", "1", "2", "2", "10000", "10001", "0", "x"}[c.Rng.Intn(8)]
		ewd := c.Rng.Intn(2) == 0
		rq := impl.Req{Method: "PUT", Path: r.path(bucket, "existing"), Query: "uploadId=" + id + "&partNumber=" + pn,
			Body: &failReader{data: body, eofWithData: ewd}, Header: hdr, MultiH: multi, NoCL: true}
		clTok := "~"
		if clVariant != "absent" {
			rq.Header["Content-Length"] = cl
			clTok = hx(cl)
		}
		before := snap()
		resp := inst.Do(rq)
		after := snap()
		obs := errObs(resp)
		if resp.Status == 200 && resp.Panic == "" {
			obs = "part " + drv.HexS(strings.Trim(resp.Header.Get("ETag"), `"`))
		}
		line := fmt.Sprintf("mppartx %s %s %s %s %s %s %s", hx(bucket), hx("existing"), id, hx(pn), clTok, md5Class, drv.Hex(body))
		model, spec, err := c.D.Ask(line)
		if err != nil {
			panic(err)
		}
		r.Lines = append(r.Lines, line)
		c.R.Evaluations++
		variant := fmt.Sprintf("part md5=%s cl=%s pn=%s eofWithData=%v", md5Variant, clVariant, pn, ewd)
		cs := append(append([]string{}, r.Lines[:3]...), line)
		accepted := strings.HasPrefix(obs, "part ")
		switch {
		case obs == "hang" || obs == "panic":
			c.mismatch(Mismatch{Kind: "spec", Backend: kind, Case: cs, Impl: obs, Model: model, Spec: "an answer", Finger: "c08:part:" + obs, Note: variant})
		case !accepted && before != after:
			c.mismatch(Mismatch{Kind: "spec", Backend: kind, Case: cs, Impl: obs + " ; before: " + trunc(before, 200) + " ; after: " + trunc(after, 200), Model: model, Spec: "rejected ⇒ pending upload and object unchanged",
				Finger: "c08:rejected-part-changed-state", Note: variant})
		case accepted && spec == "rejected":
			c.mismatch(Mismatch{Kind: "spec", Backend: kind, Case: cs, Impl: obs, Model: model, Spec: "must be refused (" + model + ")", Finger: "c08:accepted-bad-part", Note: variant})
		case strings.HasPrefix(spec, "part ") && obs != spec:
			c.mismatch(Mismatch{Kind: "spec", Backend: kind, Case: cs, Impl: obs, Model: model, Spec: spec, Finger: "c08:rejected-good-part", Note: variant})
		case obs != model:
			c.mismatch(Mismatch{Kind: "model", Backend: kind, Case: cs, Impl: obs, Model: model, Spec: spec, Finger: "c08:part-answer", Note: variant})
		}
		if accepted != strings.HasPrefix(model, "part ") {
			return // model and implementation are out of step for this upload
		}
		if !strings.HasPrefix(model, "part ") {
			c.nontrivial(kind + "|" + variant)
		}
		c.hist("part-answer:" + errKind(model))
	}
}
