#!/bin/bash
# refactest.sh <patch> <name>: applies a behaviour-preserving refactoring to /repo, runs every check (quick), reverts.
# Expected outcome: every check exits 0 (no alarm on code where the properties hold).
set -u
P=$1; NAME=$2
OUT=/verif/refactored/$NAME
mkdir -p $OUT
cp $P $OUT/patch.diff
git -C /repo apply $P || { echo "cannot apply"; exit 1; }
RES=""
for p in C01 C02 C03 C04 C05 C06 C07 C08 C09 C10 C11 C12 C13 C14 C15 C16 C17; do
  ( cd /verif && timeout 1500 ./check $p --tier quick > $OUT/check_$p.log 2>&1 ); RC=$?
  if [ $RC -ne 0 ]; then RES="$RES $p:rc=$RC"; grep '^VIOLATION' $OUT/check_$p.log | head -2; RP=$(grep -o 'replay=[^ ]*' $OUT/check_$p.log | head -1 | cut -d= -f2); [ -n "$RP" ] && [ -f "$RP" ] && cp $RP $OUT/replay_$p.json; else rm -f $OUT/check_$p.log; fi
done
git -C /repo checkout -- .
( cd /verif && git checkout -- evidence 2>/dev/null )
echo "alarms:${RES:- none}"
echo "{\"name\": \"$NAME\", \"alarms\": \"${RES:- none}\"}" > $OUT/meta.json
