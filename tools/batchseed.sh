#!/bin/bash
# batchseed.sh Cxx... : for each property takes /tmp/seedwt-Cxx/.seed/{a,b}, confirms and runs the property's check (tools/seedtest.sh), sequentially
for P in "$@"; do
  for S in a b; do
    D=/tmp/seedwt-$P/.seed/$S
    [ -f $D/patch.diff ] || { echo "$P/$S: no patch"; continue; }
    NAME=$(/verif/tools/nextseed.sh $P)
    echo "== $P/$S -> $NAME"
    /verif/tools/seedtest.sh $D $NAME $P 2>&1 | grep -v conda | tail -4
    python3 - $NAME <<'PY'
import json,sys
p='/verif/seeded/%s/meta.json'%sys.argv[1]
m=json.load(open(p)); m["batch"]=15; json.dump(m,open(p,'w'),indent=1)
PY
  done
done
