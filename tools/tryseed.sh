#!/bin/bash
# tryseed.sh <seeded-name> <prop...>: apply seeded/<name>/patch.diff to /repo, run the quick checks, revert.
N=$1; shift
git -C /repo apply /verif/seeded/$N/patch.diff || exit 2
RES=""
for P in "$@"; do
  ( cd /verif && timeout 1500 ./check $P --tier quick > /verif/seeded/$N/check_$P.log 2>&1 ); RC=$?
  V=$(grep -c '^VIOLATION' /verif/seeded/$N/check_$P.log)
  grep '^VIOLATION' /verif/seeded/$N/check_$P.log | head -2
  RES="$RES $P:rc=$RC:violations=$V"
  RP=$(grep -o 'replay=[^ ]*' /verif/seeded/$N/check_$P.log | head -1 | cut -d= -f2)
  [ -n "$RP" ] && [ -f "$RP" ] && cp $RP /verif/seeded/$N/replay_$P.json
done
git -C /repo checkout -- .
( cd /verif && git checkout -- evidence lean/GFS/Generated 2>/dev/null )
echo "checks:$RES"
python3 - "$N" "$RES" <<'PY'
import json,sys
p='/verif/seeded/%s/meta.json'%sys.argv[1]
m=json.load(open(p)); m['check_results_after_strengthening']=sys.argv[2]; json.dump(m,open(p,'w'),indent=1)
PY
