#!/bin/bash
# nextseed.sh Cxx : prints the next free seeded/<Cxx>-<n> name
P=$1
N=$(ls /verif/seeded | grep "^$P-" | sed "s/^$P-//" | sort -n | tail -1)
echo "$P-$((N+1))"
