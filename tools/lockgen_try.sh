#!/bin/bash
# lockgen_try.sh <patch>... : applies each patch to /repo, regenerates Generated/LockFacts and rebuilds Props/C07Gen; prints which theorems fail
for P in "$@"; do
  git -C /repo apply --check $P 2>/dev/null || { echo "$P: does not apply"; continue; }
  git -C /repo apply $P
  /verif/bin/extract /repo /verif/lean/GFS/Generated >/dev/null 2>&1
  OUT=$(cd /verif/lean && lake build GFS.Props.C07Gen GFS.Props.C08Gen GFS.Props.C02Gen 2>&1)
  FAILED=$(echo "$OUT" | grep -o "C0[278]Gen.lean:[0-9]*" | sort -u | tr '\n' ' ')
  echo "$P: ${FAILED:-no theorem fails}"
  git -C /repo checkout -- .
done
/verif/bin/extract /repo /verif/lean/GFS/Generated >/dev/null 2>&1
(cd /verif && git checkout -- lean/GFS/Generated 2>/dev/null; cd lean && lake build GFS.Props.C07Gen GFS.Props.C08Gen GFS.Props.C02Gen >/dev/null 2>&1)
