#!/bin/bash
# regress_seeds.sh [name...]: apply every seeded change to /repo in turn, run the quick checks that are recorded
# as catching it (or the property it breaks), revert; prints one line per seed.
cd /verif
NAMES="$@"; [ -z "$NAMES" ] && NAMES=$(ls seeded)
for N in $NAMES; do
  D=seeded/$N
  [ -f $D/patch.diff ] || continue
  PROPS=$(python3 - "$D" <<'PY'
import json,sys,re
m=json.load(open(sys.argv[1]+'/meta.json'))
res=(m.get('check_results_after_strengthening') or '')+' '+(m.get('check_results') or '')
caught=sorted(set(re.findall(r'(C\d\d):rc=1',res)))
print(' '.join(caught) if caught else m.get('breaks_property','').split()[0] if m.get('breaks_property') else '')
PY
)
  [ -z "$PROPS" ] && { echo "$N: no property recorded"; continue; }
  if ! git -C /repo apply --check $PWD/$D/patch.diff 2>/dev/null; then echo "$N: patch no longer applies (code changed since)"; continue; fi
  git -C /repo apply $PWD/$D/patch.diff
  OUT=""
  for P in $PROPS; do
    timeout 1500 ./check $P --tier quick > /tmp/regress_$N_$P.log 2>&1; RC=$?
    OUT="$OUT $P:rc=$RC"
  done
  git -C /repo checkout -- .
  git checkout -- evidence lean/GFS/Generated 2>/dev/null
  echo "$N:$OUT"
done
echo REGRESS-DONE
