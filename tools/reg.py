#!/usr/bin/env python3
"""reg.py <Cxx> <Module> --partial-idx N --partial TEXT --text-after MARK --text TEXT
   registers a Lean module for a property in props.json / manifest_text.json / lean/GFS.lean and regenerates MANIFEST.json."""
import json,sys,argparse,subprocess
ap=argparse.ArgumentParser()
ap.add_argument('prop'); ap.add_argument('module')
ap.add_argument('--partial-idx',type=int,default=None)   # replace this partial entry (or append when None and --partial given)
ap.add_argument('--partial',default=None)
ap.add_argument('--text-before',default=None)             # insert --text before this marker in the manifest text
ap.add_argument('--text',default=None)
a=ap.parse_args()
V='/verif/'
p=json.load(open(V+'props.json'))
if a.module not in p[a.prop]['modules']: p[a.prop]['modules'].append(a.module)
if a.partial is not None:
    if a.partial_idx is None: p[a.prop]['partial'].append(a.partial)
    else: p[a.prop]['partial'][a.partial_idx]=a.partial
json.dump(p,open(V+'props.json','w'),indent=1)
m=json.load(open(V+'manifest_text.json'))
if a.text:
    t=m['checks'][a.prop]['text']
    if a.text_before and a.text_before in t: t=t.replace(a.text_before,a.text+a.text_before,1)
    else: t=t+' '+a.text
    m['checks'][a.prop]['text']=t
json.dump(m,open(V+'manifest_text.json','w'),indent=1,ensure_ascii=False)
s=open(V+'lean/GFS.lean').read()
if 'import '+a.module+'\n' not in s:
    s=s.rstrip('\n')+'\nimport '+a.module+'\n'; open(V+'lean/GFS.lean','w').write(s)
subprocess.check_call(['python3',V+'gen_manifest.py'])
