#!/bin/bash
# seedtest.sh <seed-dir> <name> <prop> [more props...]
#   seed-dir holds patch.diff and a demo *_test.go (as produced by a seeding agent under <worktree>/.seed).
# 1. confirms in a scratch worktree: patch applies, builds, full suite passes, demo fails with / passes without it
# 2. applies the patch to /repo, runs ./check for the given properties, reverts /repo
# 3. stores everything under /verif/seeded/<name>/
set -u
SEED=$1; NAME=$2; shift 2
export GOFLAGS=-mod=mod GOPROXY=off GOSUMDB=off GOTOOLCHAIN=local
OUT=/verif/seeded/$NAME
mkdir -p $OUT
cp $SEED/patch.diff $OUT/patch.diff
DEMO=$(ls $SEED/*_test.go | head -1)
cp $DEMO $OUT/
[ -f $SEED/notes.md ] && cp $SEED/notes.md $OUT/agent_notes.md
PKGDIR=$(grep -m1 '^package ' $DEMO | awk '{print $2}')
case "$PKGDIR" in
  gofakes3|gofakes3_test) SUB=. ;;
  s3mem|s3mem_test) SUB=backend/s3mem ;;
  s3afero|s3afero_test) SUB=backend/s3afero ;;
  s3bolt|s3bolt_test) SUB=backend/s3bolt ;;
  main) SUB=cmd/gofakes3 ;;
  *) SUB=. ;;
esac
W=/tmp/seedverify-$NAME
git -C /repo worktree remove --force $W 2>/dev/null
git -C /repo worktree add -q --detach $W HEAD
R="{}"
( cd $W && git apply $OUT/patch.diff ) || { echo "PATCH DOES NOT APPLY"; git -C /repo worktree remove --force $W; exit 1; }
( cd $W && go build ./... ) && BUILD=ok || BUILD=fail
( cd $W && go test -vet=off -count=1 ./... > $OUT/suite.log 2>&1 ) && SUITE=ok || SUITE=fail
cp $DEMO $W/$SUB/
( cd $W/$SUB && go test -vet=off -count=1 -run 'Seed|Demo' . > $OUT/demo_with.log 2>&1 ) && DWITH=pass || DWITH=fail
( cd $W && git apply -R $OUT/patch.diff )
( cd $W/$SUB && go test -vet=off -count=1 -run 'Seed|Demo' . > $OUT/demo_without.log 2>&1 ) && DWITHOUT=pass || DWITHOUT=fail
git -C /repo worktree remove --force $W
echo "confirm: build=$BUILD suite=$SUITE demo_with_change=$DWITH demo_without_change=$DWITHOUT"
# run the checks against it
git -C /repo apply $OUT/patch.diff || { echo "cannot apply to /repo"; exit 1; }
RESULTS=""
for P in "$@"; do
  ( cd /verif && timeout 1500 ./check $P --tier quick > $OUT/check_$P.log 2>&1 ); RC=$?
  V=$(grep -c '^VIOLATION' $OUT/check_$P.log)
  RESULTS="$RESULTS $P:rc=$RC:violations=$V"
  grep '^VIOLATION' $OUT/check_$P.log | head -2
  RP=$(grep -o 'replay=[^ ]*' $OUT/check_$P.log | head -1 | cut -d= -f2)
  [ -n "$RP" ] && [ -f "$RP" ] && cp $RP $OUT/replay_$P.json
done
git -C /repo checkout -- .
( cd /verif && git checkout -- evidence lean/GFS/Generated 2>/dev/null )
echo "checks:$RESULTS"
cat > $OUT/meta.json <<JSON
{"name": "$NAME", "breaks_property": "$1", "confirmed": {"build": "$BUILD", "existing_suite": "$SUITE", "demo_with_change": "$DWITH", "demo_without_change": "$DWITHOUT"},
 "ran": "tools/seedtest.sh: scratch worktree of /repo HEAD (apply patch, go build, go test ./..., demo with/without), then git -C /repo apply, ./check for:$*, git -C /repo checkout -- .",
 "check_results": "$RESULTS"}
JSON
