#!/usr/bin/env python3
"""Writes MANIFEST.json from props.json + manifest_text.json (kept separate so the prose is easy to edit)."""
import json, os
V = os.path.dirname(os.path.abspath(__file__))
props = json.load(open(os.path.join(V, "props.json")))
text = json.load(open(os.path.join(V, "manifest_text.json")))
all_ids = [json.loads(l)["id"] for l in open(os.path.join(V, "properties.jsonl"))]
checks = []
for pid in all_ids:
    if pid not in props:
        continue
    t = text["checks"][pid]
    checks.append({
        "property_id": pid,
        "quick_cmd": "./check %s --tier quick" % pid,
        "thorough_cmd": "./check %s --tier thorough" % pid,
        "evidence_file": "/verif/evidence/%s.json" % pid,
        "replay_cmd_template": "./check %s --replay {path}" % pid,
        "engine": "lean4-proof+correspondence",
        "level_claimed": {"category": "proof", "text": t["text"], "design_ref": t.get("design_ref", "DESIGN.md section 5, " + pid)},
        "level_note": t["note"],
        "technique": t["technique"],
    })
na = [{"property_id": p, "reason": text["not_applicable"].get(p, "check not built yet")} for p in all_ids if p not in props]
m = {
    "version": 1,
    "setup_cmd": "./setup.sh",
    "hooks": {
        "guard": "verif",
        "enable": "go build -tags verif (the harness module replaces github.com/johannesboyne/gofakes3 with /repo)",
        "baseline_off_cmd": "cd /repo && go test -mod=mod -vet=off -count=1 -timeout 25m ./...",
        "source_commits": text["hook_commits"],
        "add_only": True,
    },
    "engines": [{
        "name": "lean4-proof+correspondence", "path": "/verif/check",
        "serves_properties": [c["property_id"] for c in checks],
        "kind_free_text": "Lean 4 theorems about a hand-written executable model (lean/GFS), tied to /repo on every run by (a) a go/ast extractor+translator that regenerates GFS/Generated/*.lean and (b) a Go harness that runs the real code and the compiled Lean model/spec (gfsdriver) on the same inputs and diffs canonical observations",
    }],
    "checks": checks,
    "not_applicable": na,
    "notes": text["notes"],
}
json.dump(m, open(os.path.join(V, "MANIFEST.json"), "w"), indent=1)
print("MANIFEST.json: %d checks, %d not claimed" % (len(checks), len(na)))
