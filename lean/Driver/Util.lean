import GFS.Base.Bytes
/- helpers for the line protocol: hex encoding of byte strings, integer parsing -/
namespace Driver
open GFS

def hexDigit (n : Nat) : Char :=
  if n < 10 then Char.ofNat (48 + n) else Char.ofNat (87 + n)

def toHex (b : Bytes) : String :=
  if b.isEmpty then "-" else
  String.ofList (b.foldr (fun c acc => hexDigit (c.toNat / 16) :: hexDigit (c.toNat % 16) :: acc) [])

def hexVal (c : Char) : Nat :=
  let n := c.toNat
  if 48 ≤ n && n ≤ 57 then n - 48
  else if 97 ≤ n && n ≤ 102 then n - 87
  else if 65 ≤ n && n ≤ 70 then n - 55
  else 0

partial def fromHexChars : List Char → Bytes
  | a :: b :: rest => (UInt8.ofNat (hexVal a * 16 + hexVal b)) :: fromHexChars rest
  | _ => []

def fromHex (s : String) : Bytes :=
  if s == "-" then [] else fromHexChars s.toList

def parseInt (s : String) : Int :=
  match s.toInt? with
  | some v => v
  | none => 0

def parseNat (s : String) : Nat :=
  match s.toNat? with
  | some v => v
  | none => 0

end Driver
