import Driver.Util
import GFS.Model.Range
import GFS.Model.RangeHeader
import GFS.Spec.RangeSpec
/-
  gfsdriver: one request per input line, one answer per output line.
  Answer format:  <model observation> TAB <spec observation or "-">
-/
namespace Driver
open GFS GFS.Model GFS.Spec

def showRange : Option (Int × Int) → String
  | none => "invalid"
  | some (s, l) => s!"ok {s} {l}"

def showReq : Res (Option RangeReq) → String
  | .ok none => "none"
  | .ok (some r) => s!"req {r.start} {r.«end»} {if r.fromEnd then 1 else 0}"
  | .err c => s!"err {c.name}"
  | .panic _ => "panic"

/-- GET with a Range header against an object holding `data`, as the memory/bolt
    backends extract it (slice) — `fs=true`: as the fs backends do (seek+limit) -/
def getRangeModel (hdr data : Bytes) (fs : Bool) : String :=
  match parseRangeHeader hdr with
  | .err c => s!"err {c.name}"
  | .panic _ => "panic"
  | .ok none => s!"200 {data.length} {toHex data}"
  | .ok (some r) =>
    let size : Int := data.length
    match range size r with
    | none => "err InvalidRange"
    | some (s, l) =>
      let last := subW (addW s l) 1
      if fs then
        s!"206 {s}-{last}/{size} {l} {toHex (seekLimit data s l)}"
      else match sliceGo data s l with
        | none => "panic"
        | some b => s!"206 {s}-{last}/{size} {l} {toHex b}"

/-- the same request judged by the specification alone -/
def getRangeSpec (hdr data : Bytes) : String :=
  match parseRangeHeader hdr with
  | .err c => s!"err {c.name}"
  | .panic _ => "panic"
  | .ok none => s!"200 {data.length} {toHex data}"
  | .ok (some r) =>
    let size : Int := data.length
    match clip size r with
    | none => "err InvalidRange"
    | some (f, l) =>
      s!"206 {f}-{l}/{size} {l - f + 1} {toHex ((data.drop f.toNat).take (l - f + 1).toNat)}"

def handle (toks : List String) : String :=
  match toks with
  | ["range", size, st, en, fe] =>
    let r : RangeReq := ⟨parseInt st, parseInt en, fe == "1"⟩
    showRange (range (parseInt size) r) ++ "\t" ++ showRange (clipSL (parseInt size) r)
  | ["parserange", h] => showReq (parseRangeHeader (fromHex h)) ++ "\t-"
  | ["getrange", fs, h, d] =>
    getRangeModel (fromHex h) (fromHex d) (fs == "1") ++ "\t" ++ getRangeSpec (fromHex h) (fromHex d)
  | _ => "bad-op\t-"

partial def loop (h : IO.FS.Stream) (out : IO.FS.Stream) : IO Unit := do
  let line ← h.getLine
  if line.isEmpty then return ()
  let toks := (line.trimAscii.toString.splitOn " ").filter (· ≠ "")
  out.putStrLn (handle toks)
  out.flush
  loop h out

end Driver

def main : IO Unit := do
  let stdin ← IO.getStdin
  let stdout ← IO.getStdout
  Driver.loop stdin stdout
