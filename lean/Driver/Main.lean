import Driver.Util
import Driver.State
import Driver.Api
import GFS.Model.Range
import GFS.Model.RangeHeader
import GFS.Spec.RangeSpec
import GFS.Spec.NameSpec
import GFS.Spec.ChunkSpec
import GFS.Model.HostBucket
import GFS.Generated.Facts
import GFS.Model.FsDisk
/-
  gfsdriver: one request per input line, one answer per output line.
  Answer format:  <model observation> TAB <spec observation or "-">
-/
namespace Driver
open GFS GFS.Model GFS.Spec

def showRange : Option (Int × Int) → String
  | none => "invalid"
  | some (s, l) => s!"ok {s} {l}"

def showReq : Res (Option RangeReq) → String
  | .ok none => "none"
  | .ok (some r) => s!"req {r.start} {r.«end»} {if r.fromEnd then 1 else 0}"
  | .err c => s!"err {c.name}"
  | .panic _ => "panic"

/-- GET with a Range header against an object holding `data`, as the memory/bolt
    backends extract it (slice) — `fs=true`: as the fs backends do (seek+limit) -/
def getRangeModel (hdr data : Bytes) (fs : Bool) : String :=
  match parseRangeHeader hdr with
  | .err c => s!"err {c.name}"
  | .panic _ => "panic"
  | .ok none => s!"200 {data.length} {toHex data}"
  | .ok (some r) =>
    let size : Int := data.length
    match range size r with
    | none => "err InvalidRange"
    | some (s, l) =>
      let last := subW (addW s l) 1
      if fs then
        s!"206 {s}-{last}/{size} {l} {toHex (seekLimit data s l)}"
      else match sliceGo data s l with
        | none => "panic"
        | some b => s!"206 {s}-{last}/{size} {l} {toHex b}"

/-- the same request judged by the specification alone -/
def getRangeSpec (hdr data : Bytes) : String :=
  match parseRangeHeader hdr with
  | .err c => s!"err {c.name}"
  | .panic _ => "panic"
  | .ok none => s!"200 {data.length} {toHex data}"
  | .ok (some r) =>
    let size : Int := data.length
    match clip size r with
    | none => "err InvalidRange"
    | some (f, l) =>
      s!"206 {f}-{l}/{size} {l - f + 1} {toHex ((data.drop f.toNat).take (l - f + 1).toNat)}"

def natList (s : String) : List Nat :=
  if s == "-" then [] else (s.splitOn ",").map parseNat

/-- fragment lengths → "a read leaving r bytes stops there" -/
def cutOf (total : Nat) (fragLens : List Nat) : Nat → Bool :=
  let rems := (fragLens.foldl (fun (acc : Nat × List Nat) l => (acc.1 + l, (total - (acc.1 + l)) :: acc.2)) (0, [])).2
  fun r => rems.contains r

def showEnd : Option Chunk.End → String
  | none => "none"
  | some .eof => "eof"
  | some _ => "error"

def chunkCfg (tail ewd : String) (total : Nat) (frags : String) : Chunk.Cfg :=
  { cut := cutOf total (natList frags), tail := if tail == "fail" then .fail else .eof, endWithData := ewd == "1" }

def runChunk (tail ewd bufs frags : String) (input : Bytes) : String :=
  let (out, e, unk) := Chunk.decode (chunkCfg tail ewd input.length frags) (natList bufs) input
  if unk then "unknown" else s!"{toHex out} {showEnd e}"

def parseChunks (s : String) : List ChunkSpec.Chunk :=
  if s == "-" then [] else
  (s.splitOn ",").map fun c =>
    match c.splitOn ":" with
    | [d, e, p, t] => ⟨fromHex d, fromHex e, fromHex p, fromHex t⟩
    | _ => ⟨[], [], [], []⟩

def handle (toks : List String) : String :=
  match toks with
  | ["range", size, st, en, fe] =>
    let r : RangeReq := ⟨parseInt st, parseInt en, fe == "1"⟩
    showRange (range (parseInt size) r) ++ "\t" ++ showRange (clipSL (parseInt size) r)
  | ["parserange", h] => showReq (parseRangeHeader (fromHex h)) ++ "\t-"
  | ["getrange", fs, h, d] =>
    getRangeModel (fromHex h) (fromHex d) (fs == "1") ++ "\t" ++ getRangeSpec (fromHex h) (fromHex d)
  | ["validate", n] =>
    let b := fromHex n
    (if validateBucketName b then "ok" else "err InvalidBucketName") ++ "\t" ++
    (if decide (NameOk b) then "ok" else "err InvalidBucketName")
  | ["chunk", tail, ewd, bufs, frags, inp] =>
    runChunk tail ewd bufs frags (fromHex inp) ++ "\t-"
  | ["hostrewrite", hb, bases, host, path] =>
    let bs := if bases == "~" then [] else (bases.splitOn ",").map fromHex
    let h := fromHex host
    let p := fromHex path
    let rw := serverRewrite (hb == "1") bs h p
    let (b, k) := routeSplit rw
    -- specification: host "<label>.<base>" (label without dots) is addressed as path-style "/<label><path>";
    -- every other host as the path itself
    let specPath :=
      if !bs.isEmpty then
        (match bs.findSome? (fun base =>
            let nb := normBase base
            if Bytes.hasSuffix h nb && !(h.take (h.length - nb.length)).contains 46 then some (h.take (h.length - nb.length)) else none) with
         | some label => (47 :: label) ++ (if p == [47] then [] else p)
         | none => p)
      else if hb == "1" then (47 :: firstLabel h) ++ (if p == [47] then [] else p)
      else p
    let (sb, sk) := routeSplit specPath
    s!"path={toHex rw} bucket={toHex b} key={toHex k}\tbucket={toHex sb} key={toHex sk}"
  | ["diskcut", op, cut, oldBody, oldMd, newBody, newMd] =>
    -- Model/FsDisk: what a server started after a kill reads for the key of the operation in
    -- flight.  old = "~": the key had no object; otherwise an acknowledged upload (body, headers)
    -- made at clock 1; the operation in flight runs at clock 100, resolution 3 (Props/C15D.Fresh).
    let md5 := Md5.md5
    let k : Bytes := [107]
    let d0 : FsDisk.Disk := if oldBody == "~" then [] else
      FsDisk.step md5 3 [] (.put k (fromHex oldBody) (parseMeta oldMd) 1)
    let showObs (r : Res FsDisk.Obs) : String := match r with
      | .ok o => s!"obj {toHex o.body} {toHex o.hash} meta={showMeta o.md}"
      | .err c => s!"err {c.name}"
      | .panic _ => "panic"
    let cutOf : Option FsDisk.Cut :=
      if op == "put" then
        let pc : Option FsDisk.PutCut := match cut.splitOn ":" with
          | ["beforeCreate"] => some .beforeCreate
          | ["afterCreate"] => some .afterCreate
          | ["midWrite", n] => some (.midWrite (parseNat n))
          | ["afterWrite"] => some .afterWrite
          | ["metaTruncated"] => some .metaTruncated
          | ["done"] => some .done
          | _ => none
        pc.map fun c => FsDisk.Cut.put k (fromHex newBody) (parseMeta newMd) 100 c
      else if op == "del" then
        let dc : Option FsDisk.DelCut := match cut with
          | "beforeRemove" => some .beforeRemove
          | "afterRemove" => some .afterRemove
          | "done" => some .done
          | _ => none
        dc.map fun c => FsDisk.Cut.del k c
      else none
    match cutOf with
    | none => "bad-op\t-"
    | some c =>
      let got := FsDisk.readKey md5 3 (FsDisk.crash md5 d0 c) k
      let old := FsDisk.readKey md5 3 d0 k
      let fin := match c with
        | .put k b m now _ => FsDisk.readKey md5 3 (FsDisk.crash md5 d0 (.put k b m now .done)) k
        | .del k _ => FsDisk.readKey md5 3 (FsDisk.crash md5 d0 (.del k .done)) k
      showObs got ++ "\t" ++ (if got == old || got == fin then "atomic" else "torn")
  | ["status", code] =>
    -- the HTTP status `ErrorCode.Status()` assigns to a code, from the table re-read from error.go
    (match GFS.Generated.statusTable.find? (fun p => p.1 == code) with
     | some p => toString p.2
     | none => toString GFS.Generated.statusDefault) ++ "\t-"
  | ["chunkput", declared, tail, inp] =>
    -- handler level: what a backend that enforces the declared decoded length stores
    let input := fromHex inp
    let cfg : Chunk.Cfg := { cut := fun _ => false, tail := if tail == "fail" then .fail else .eof, endWithData := false }
    let (out, e, unk) := Chunk.decode cfg [input.length + 1] input
    if unk then "unknown\t-"
    else if e == some .eof && out.length == parseNat declared && (parseInt declared) ≥ 0 then s!"stored {toHex out}\t-"
    else "rejected\t-"
  | ["chunkwf", tail, ewd, bufs, frags, chunks, final] =>
    -- a well-formed stream given as chunk descriptors; the specification encodes it
    let cs := parseChunks chunks
    match parseChunks final with
    | [f] =>
      if decide (ChunkSpec.StreamWF cs f) then
        let input := ChunkSpec.encode cs f
        let need := (ChunkSpec.payload cs).length + 1
        let have_ := (natList bufs).foldl (· + ·) 0
        let spec := if tail == "eof" && have_ ≥ need then s!"{toHex (ChunkSpec.payload cs)} eof" else "-"
        runChunk tail ewd bufs frags input ++ "\t" ++ spec
      else "not-wellformed\t-"
    | _ => "bad-op\t-"
  | _ => "bad-op\t-"

partial def loop (h : IO.FS.Stream) (out : IO.FS.Stream) (st : DState) (ap : ApiState) (saved : DState := {}) : IO Unit := do
  let line ← h.getLine
  if line.isEmpty then return ()
  let toks := (line.trimAscii.toString.splitOn " ").filter (· ≠ "")
  -- `snapshot` keeps a copy of the model and reference stores, `rollback` returns to it (the
  -- harness evaluates several orders of the same requests from one state)
  if toks == ["snapshot"] then
    out.putStrLn "ok\t-"; out.flush
    loop h out st ap st
  else if toks == ["rollback"] then
    out.putStrLn "ok\t-"; out.flush
    loop h out saved ap saved
  else
  match stepApi ap toks with
  | some (ap', m, s) =>
    out.putStrLn (m ++ "\t" ++ s)
    out.flush
    loop h out st ap' saved
  | none =>
  match stepState st toks with
  | some (st', m, s) =>
    out.putStrLn (m ++ "\t" ++ s)
    out.flush
    loop h out st' ap saved
  | none =>
    out.putStrLn (handle toks)
    out.flush
    loop h out st ap saved

end Driver

def main : IO Unit := do
  let stdin ← IO.getStdin
  let stdout ← IO.getStdout
  Driver.loop stdin stdout {} {}
