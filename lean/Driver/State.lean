import Driver.Util
import GFS.Base.Md5
import GFS.Model.Front
import GFS.Model.Uploader
import GFS.Model.Upload
import GFS.Model.UploadPart
import GFS.Model.FrontMp
import GFS.Model.FsTree
import GFS.Spec.Multipart
import GFS.Spec.S3
import GFS.Spec.Listing
import GFS.Spec.Versions
/-
  stateful part of the driver: one model store and one specification store, driven by the
  same operation lines.
-/
namespace Driver
open GFS GFS.Model

structure DState where
  cfg  : Cfg := {}
  mem  : Mem := Mem.empty
  spec : Spec.S3.Store := []
  backend : String := "mem"
  vmode : Bool := false                       -- spec column from Spec.Versions
  vspec : SMap Spec.Versions.VBucket := []
  upl   : Upl := Upl.empty
  ucfg  : UploadCfg := {}
  pend  : List (Nat × Bytes × Bytes × Meta) := []     -- uploads between their steps: tid ↦ (bucket, key, metadata as merged so far)
  mspec : List Spec.Multipart.Upload := []
  fst   : SMap GFS.Model.Fs.Tree := []          -- the fs backends' directory trees, per bucket

def optNat (o : Option Nat) : String := match o with | some n => toString n | none => "-"

def parseOptNat (s : String) : Option Nat := if s == "-" then none else s.toNat?

def showMeta (m : Meta) : String :=
  if m.isEmpty then "-" else ",".intercalate (m.map fun (k, v) => toHex k ++ "=" ++ toHex v)

def parseMeta (s : String) : Meta :=
  if s == "-" then [] else
  (s.splitOn ",").foldl (fun acc kv =>
    match kv.splitOn "=" with
    | [k, v] => SMap.insert acc (fromHex k) (fromHex v)
    | _ => acc) []

def parseKeys (s : String) : List Bytes :=
  if s == "~" then [] else (s.splitOn ",").map fromHex

/-- `key[@vid]` list for multi-delete -/
def parseObjIds (s : String) : List (Bytes × Option Nat) :=
  if s == "~" then [] else
  (s.splitOn ",").map fun e =>
    match e.splitOn "@" with
    | [k, v] => (fromHex k, v.toNat?)
    | _ => (fromHex e, none)

def hexHash (h : Bytes) : String := toHex h

def showContents (cs : List Content) : String :=
  if cs.isEmpty then "-" else ",".intercalate (cs.map fun c => s!"{toHex c.key}:{c.size}:{toHex c.hash}")

def showKeys (ks : List Bytes) : String :=
  if ks.isEmpty then "-" else ",".intercalate (ks.map toHex)

def showVStatus : VStatus → String
  | .none => "None" | .enabled => "Enabled" | .suspended => "Suspended"

def showOut : Out → String
  | .ok => "ok"
  | .err c => s!"err {c.name}"
  | .panic _ => "panic"
  | .object body hash vid md => s!"obj {toHex body} {toHex hash} vid={optNat vid} meta={showMeta md}"
  | .deleteMarker vid => s!"delete-marker vid={vid}"
  | .stored hash vid => s!"stored {toHex hash} vid={optNat vid}"
  | .deleted mk vid => s!"deleted marker={if mk then 1 else 0} vid={optNat vid}"
  | .multiDeleted ks => s!"multideleted {showKeys ks}"
  | .buckets ns => s!"buckets {showKeys ns}"
  | .listing l v2 hasDelim =>
    -- V1 hands out NextMarker only when a delimiter was given; V2 wraps it in a token
    let next := if v2 || hasDelim then toHex l.next else "-"
    s!"list trunc={if l.truncated then 1 else 0} next={next} C={showContents l.contents} P={showKeys l.prefixes}"
  | .versions l =>
    let es := if l.entries.isEmpty then "-" else ",".intercalate (l.entries.map fun e =>
      let kind := if e.marker then "D" else "V"
      let latest := if e.isLatest then "1" else "0"
      let size := if e.marker then 0 else e.size
      let hash := if e.marker then "-" else toHex e.hash
      s!"{toHex e.key}:{optNat e.vid}:{kind}:{latest}:{size}:{hash}")
    let next := if l.nextKey.isEmpty && l.nextVer.isNone then "-" else s!"{toHex l.nextKey}:{optNat l.nextVer}"
    s!"versions trunc={if l.truncated then 1 else 0} next={next} E={es} P={showKeys l.prefixes}"
  | .versioning s => s!"versioning {showVStatus s}"
  | .copied hash vid => s!"copied {toHex hash} srcvid={optNat vid}"

/-- HEAD: same entity headers, no body -/
def showHead : Out → String
  | .object body hash vid md => s!"hobj {body.length} {toHex hash} vid={optNat vid} meta={showMeta md}"
  | o => showOut o

def showHeadAns (s : String) : String :=
  match s.splitOn " " with
  | ["obj", h] => s!"hobj {(fromHex h).length}"
  | _ => s

def showAns : Spec.S3.Ans → String
  | .ok => "ok"
  | .err c => s!"err {c.name}"
  | .object body => s!"obj {toHex body}"
  | .buckets ns => s!"buckets {showKeys ns}"

def parsePrefix (hasP pfx hasD d : String) : Prefix :=
  let pb := fromHex pfx
  { hasPrefix := hasP == "1" && !pb.isEmpty, pfx := pb,
    hasDelim := hasD == "1" && !(fromHex d).isEmpty, delim := (fromHex d).headD 0 }

/-- the bucket an operation must find (auto-bucket mode creates it first) -/
def opBucket : Spec.S3.Op → Option Bytes
  | .headBucket b | .deleteBucket b | .put b _ _ | .get b _ | .head b _ | .delete b _ | .deleteMulti b _ => some b
  | .copy _ _ db _ => some db
  | _ => none

def specStep (st : DState) (op : Spec.S3.Op) : DState × String :=
  -- with auto-bucket creation the reference behaviour is "create the bucket, then the operation"
  let s0 := match st.cfg.autoBucket, opBucket op with
    | true, some b => (Spec.S3.step st.spec (.createBucket b)).1
    | _, _ => st.spec
  let (s', a) := Spec.S3.step s0 op
  ({ st with spec := s' }, showAns a)

def vb (st : DState) (b : Bytes) : Option Spec.Versions.VBucket := SMap.find st.vspec b

def setVb (st : DState) (b : Bytes) (v : Spec.Versions.VBucket) : DState := { st with vspec := SMap.insert st.vspec b v }

/-- the id the model drew for an acknowledged write (the implementation's is compared with it) -/
def vidOfOut : Out → Option Nat
  | .stored _ v => v
  | .deleted _ v => v
  | _ => none

def showVGet (r : Res Bytes) (head : Bool) : String :=
  match r with
  | .ok body => if head then s!"hobj {body.length}" else s!"obj {toHex body}"
  | .err c => s!"err {c.name}"
  | .panic _ => "panic"

def showVGetV (r : Res (Option Bytes)) (head : Bool) : String :=
  match r with
  | .ok (some body) => if head then s!"hobj {body.length}" else s!"obj {toHex body}"
  | .ok none => "delete-marker"
  | .err c => s!"err {c.name}"
  | .panic _ => "panic"

def showSpecVersions (v : Spec.Versions.VBucket) (p : Prefix) : String :=
  let es := v.keys.foldl (fun acc (kv : Bytes × List Spec.Versions.VEntry) =>
    -- only keys listed under Contents-like entries (no delimiter grouping in the spec column)
    if (p.match_ kv.1).isSome then
      acc ++ kv.2.map (fun e =>
        let kind := if e.marker then "D" else "V"
        let latest := if (kv.2.getLast?.map (·.id)) == some e.id then "1" else "0"
        s!"{toHex kv.1}:{e.id}:{kind}:{latest}")
    else acc) []
  "specversions " ++ (if es.isEmpty then "-" else ",".intercalate es)

/-- the Spec.Versions column for one operation (after the model step, whose ids it reuses) -/
def vspecStep (st : DState) (toks : List String) (o : Out) (nextVerBefore : Nat) : DState × String :=
  match toks with
  | ["mkbucket", b] =>
    (match o with
     | .ok => (setVb st (fromHex b) ⟨.never, []⟩, "ok")
     | _ => (st, "-"))
  | ["setver", b, s] =>
    (match vb st (fromHex b) with
     | some v => (setVb st (fromHex b) (Spec.Versions.setStatus v (s == "E")), "ok")
     | none => (st, "err NoSuchBucket"))
  | ["put", b, k, _, body] =>
    (match vb st (fromHex b) with
     | some v => (setVb st (fromHex b) (Spec.Versions.put v (fromHex k) (nextVerBefore + 1) (fromHex body)), "ok")
     | none => (st, "err NoSuchBucket"))
  | ["copy", sb, sk, db_, dk, _] =>
    -- a copy inside one bucket is an upload of the source's current bytes to the destination
    if sb != db_ then (st, "?") else
    (match vb st (fromHex sb) with
     | some v =>
       (match Spec.Versions.get v (fromHex sk) with
        | .ok body => (setVb st (fromHex sb) (Spec.Versions.put v (fromHex dk) (nextVerBefore + 1) body), "ok")
        | .err c => (st, s!"err {c.name}")
        | .panic _ => (st, "panic"))
     | none => (st, "err NoSuchBucket"))
  | ["mpcomplete", b, k, _, _] =>
    -- an accepted complete is an upload of the assembled object (what is assembled is C06's
    -- subject: the bytes are read from the store the complete has just written)
    (match o with
     | .ok =>
       (match vb st (fromHex b), Mem.get st.mem (fromHex b) (fromHex k) with
        | some v, .ok cur => (setVb st (fromHex b) (Spec.Versions.put v (fromHex k) (nextVerBefore + 1) cur.body), "ok")
        | _, _ => (st, "-"))
     | _ => (st, "-"))
  | ["del", b, k] =>
    (match vb st (fromHex b) with
     | some v => (setVb st (fromHex b) (Spec.Versions.delete v (fromHex k) (nextVerBefore + 1)), "ok")
     | none => (st, "err NoSuchBucket"))
  | ["delv", b, k, vid] =>
    (match vb st (fromHex b) with
     | some v => (setVb st (fromHex b) (Spec.Versions.deleteVersion v (fromHex k) (parseNat vid)), "ok")
     | none => (st, "err NoSuchBucket"))
  | ["delmulti", b, ks] =>
    (match vb st (fromHex b) with
     | some v =>
       -- marker ids are drawn in order, one per plain delete of an existing key while Enabled
       let (v', _) := (parseObjIds ks).foldl (fun (acc : Spec.Versions.VBucket × Nat) (p : Bytes × Option Nat) =>
         match p.2 with
         | some id => (Spec.Versions.deleteVersion acc.1 p.1 id, acc.2)
         | none =>
           let draws := acc.1.status == .enabled && !(Spec.Versions.entriesOf acc.1 p.1).isEmpty
           (Spec.Versions.delete acc.1 p.1 (acc.2 + 1), if draws then acc.2 + 1 else acc.2)) (v, nextVerBefore)
       (setVb st (fromHex b) v', "ok")
     | none => (st, "err NoSuchBucket"))
  | ["get", b, k] =>
    (match vb st (fromHex b) with
     | some v => (st, showVGet (Spec.Versions.get v (fromHex k)) false)
     | none => (st, "err NoSuchBucket"))
  | ["head", b, k] =>
    (match vb st (fromHex b) with
     | some v => (st, showVGet (Spec.Versions.get v (fromHex k)) true)
     | none => (st, "err NoSuchBucket"))
  | ["getv", b, k, vid] =>
    (match vb st (fromHex b) with
     | some v => (st, showVGetV (Spec.Versions.getVersion v (fromHex k) (parseNat vid)) false)
     | none => (st, "err NoSuchBucket"))
  | ["headv", b, k, vid] =>
    (match vb st (fromHex b) with
     | some v => (st, showVGetV (Spec.Versions.getVersion v (fromHex k) (parseNat vid)) true)
     | none => (st, "err NoSuchBucket"))
  | ["listv", b, hasP, pfx, hasD, d, _, _, _] =>
    (match vb st (fromHex b) with
     | some v => (st, showSpecVersions v (parsePrefix hasP pfx hasD d))
     | none => (st, "err NoSuchBucket"))
  | _ => (st, "-")

/-- one stateful operation: (new state, model observation, spec observation or "-") -/
def stepState0 (st : DState) (toks : List String) : Option (DState × Out × String × String) :=
  let md5 := Md5.md5
  match toks with
  | ["reset"] => some ({ st with mem := Mem.empty, spec := [], vspec := [], upl := Upl.empty, mspec := [], fst := [] }, Out.ok, "ok", "-")
  | ["fsmk", b] =>
    (match SMap.find st.fst (fromHex b) with
     | some _ => some (st, Out.ok, "exists", "-")
     | none => some ({ st with fst := SMap.insert st.fst (fromHex b) GFS.Model.Fs.Tree.empty }, Out.ok, "ok", "-"))
  | ["fsrm", b] => some ({ st with fst := SMap.erase st.fst (fromHex b) }, Out.ok, "ok", "-")
  | ["fsput", b, k, body] =>
    (match SMap.find st.fst (fromHex b) with
     | none => some (st, Out.ok, "nobucket", "-")
     | some t =>
       match GFS.Model.Fs.putKey t (fromHex k) (fromHex body) with
       | none => some (st, Out.ok, "refused", "-")
       | some t' => some ({ st with fst := SMap.insert st.fst (fromHex b) t' }, Out.ok, "ok", "-"))
  | ["fscheck", b, k] =>
    -- would the model accept an upload to this key (no state change)
    (match SMap.find st.fst (fromHex b) with
     | none => some (st, Out.ok, "nobucket", "-")
     | some t =>
       match GFS.Model.Fs.putKey t (fromHex k) [] with
       | none => some (st, Out.ok, "refused", "-")
       | some _ => some (st, Out.ok, "ok", "-"))
  | ["fsdel", b, k] =>
    (match SMap.find st.fst (fromHex b) with
     | none => some (st, Out.ok, "nobucket", "-")
     | some t =>
       match GFS.Model.Fs.deleteKey t (fromHex k) with
       | none => some (st, Out.ok, "refused", "-")
       | some t' => some ({ st with fst := SMap.insert st.fst (fromHex b) t' }, Out.ok, "ok", "-"))
  | ["fsget", b, k] =>
    (match SMap.find st.fst (fromHex b) with
     | none => some (st, Out.ok, "nobucket", "-")
     | some t =>
       match GFS.Model.Fs.getKey t (fromHex k) with
       | none => some (st, Out.ok, "none", "-")
       | some body => some (st, Out.ok, "obj " ++ toHex body, "-"))
  | ["fstree", b] =>
    (match SMap.find st.fst (fromHex b) with
     | none => some (st, Out.ok, "nobucket", "-")
     | some t =>
       let ds := t.dirs.map fun d => toHex (Bytes.join1 47 d)
       let fs := t.files.map fun f => toHex (Bytes.join1 47 f.1) ++ ":" ++ toString f.2.length
       let j (xs : List String) : String := if xs.isEmpty then "-" else ",".intercalate xs
       some (st, Out.ok, "tree D=" ++ j ds ++ " F=" ++ j fs, "-"))
  | ["cfg", backend, auto, failpage, novers] =>
    let versioned := backend == "mem" && novers != "1"
    let pag := backend == "mem"
    let ab := auto == "1"
    let fp := failpage == "1"
    let c : Cfg := { versioned := versioned, paginates := pag, autoBucket := ab, failOnPage := fp, isMem := pag }
    some ({ st with backend := backend, cfg := c }, Out.ok, "ok", "-")
  | ["mkbucket", b] =>
    let (m, o) := Front.createBucket st.mem (fromHex b)
    -- the specification's create presupposes a name the create-bucket rule (C17) accepts
    let (st', sp) := if validateBucketName (fromHex b) then specStep { st with mem := m } (.createBucket (fromHex b))
                     else ({ st with mem := m }, "err InvalidBucketName")
    some (st', o, showOut o, sp)
  | ["headbucket", b] =>
    let (m, o) := Front.headBucket st.cfg st.mem (fromHex b)
    let (st', sp) := specStep { st with mem := m } (.headBucket (fromHex b))
    some (st', o, showOut o, sp)
  | ["rmbucket", b] =>
    let (m, o) := Front.deleteBucket st.cfg st.mem (fromHex b) false
    let (st', sp) := specStep { st with mem := m } (.deleteBucket (fromHex b))
    some (st', o, showOut o, sp)
  | ["forcerm", b] =>
    let (m, o) := Front.deleteBucket st.cfg st.mem (fromHex b) true
    some ({ st with mem := m, spec := SMap.erase st.spec (fromHex b) }, o, showOut o, "-")
  | ["buckets"] =>
    let (m, o) := Front.listBuckets st.mem
    let (st', sp) := specStep { st with mem := m } .listBuckets
    some (st', o, showOut o, sp)
  | ["put", b, k, md, body] =>
    let (m, o) := Front.putObject md5 st.cfg st.mem (fromHex b) (fromHex k) (parseMeta md) (fromHex body)
    let (st', sp) := specStep { st with mem := m } (.put (fromHex b) (fromHex k) (fromHex body))
    some (st', o, showOut o, sp)
  | ["get", b, k] =>
    let (m, o) := Front.getObject st.cfg st.mem (fromHex b) (fromHex k) none false
    let (st', sp) := specStep { st with mem := m } (.get (fromHex b) (fromHex k))
    some (st', o, showOut o, sp)
  | ["head", b, k] =>
    let (m, o) := Front.getObject st.cfg st.mem (fromHex b) (fromHex k) none true
    let (st', sp) := specStep { st with mem := m } (.head (fromHex b) (fromHex k))
    some (st', o, showHead o, showHeadAns sp)
  | ["del", b, k] =>
    let (m, o) := Front.deleteObject st.cfg st.mem (fromHex b) (fromHex k)
    let (st', sp) := specStep { st with mem := m } (.delete (fromHex b) (fromHex k))
    some (st', o, showOut o, sp)
  | ["delmulti", b, ks] =>
    let objs := parseObjIds ks
    let (m, o) := Front.deleteMulti st.cfg st.mem (fromHex b) objs
    let (st', sp) := specStep { st with mem := m } (.deleteMulti (fromHex b) (objs.map (·.1)))
    some (st', o, showOut o, sp)
  | ["copy", sb, sk, db, dk, md] =>
    let (m, o) := Front.copyObject md5 st.cfg st.mem (fromHex sb) (fromHex sk) (fromHex db) (fromHex dk) (parseMeta md)
    let (st', sp) := specStep { st with mem := m } (.copy (fromHex sb) (fromHex sk) (fromHex db) (fromHex dk))
    some (st', o, showOut o, sp)
  | ["getv", b, k, vid] =>
    let (m, o) := Front.getObject st.cfg st.mem (fromHex b) (fromHex k) (some (parseNat vid)) false
    some ({ st with mem := m }, o, showOut o, "-")
  | ["headv", b, k, vid] =>
    let (m, o) := Front.getObject st.cfg st.mem (fromHex b) (fromHex k) (some (parseNat vid)) true
    some ({ st with mem := m }, o, showHead o, "-")
  | ["delv", b, k, vid] =>
    let (m, o) := Front.deleteObjectVersion st.cfg st.mem (fromHex b) (fromHex k) (parseNat vid)
    some ({ st with mem := m }, o, showOut o, "-")
  | ["setver", b, s] =>
    let status := if s == "E" then some true else if s == "S" then some false else none
    let (m, o) := Front.putVersioning st.cfg st.mem (fromHex b) status false
    some ({ st with mem := m }, o, showOut o, "-")
  | ["getver", b] =>
    let (m, o) := Front.getVersioning st.cfg st.mem (fromHex b)
    some ({ st with mem := m }, o, showOut o, "-")
  | ["list", b, hasP, pfx, hasD, d, hasM, marker, maxKeys, v2] =>
    let (m, o) := Front.listBucket st.cfg st.mem (fromHex b) (parsePrefix hasP pfx hasD d) (hasM == "1") (fromHex marker)
      (parseInt maxKeys) (v2 == "1")
    -- the specification's unpaginated listing over the reference store's live keys after the marker
    let sp := match SMap.find st.spec (fromHex b) with
      | none => "err NoSuchBucket"
      | some objs =>
        let pr := parsePrefix hasP pfx hasD d
        let live := objs.filter (fun q => (fromHex marker).isEmpty || Bytes.lt (fromHex marker) q.1)
        let es := Spec.Listing.entries (if pr.hasPrefix then pr.pfx else []) (if pr.hasDelim then some pr.delim else none) (live.map (·.1))
        let cs := (Spec.Listing.contents es).map fun k =>
          match SMap.find objs k with
          | some body => s!"{toHex k}:{body.length}:{toHex (Md5.md5 body)}"
          | none => s!"{toHex k}:?:?"
        let cl := if cs.isEmpty then "-" else ",".intercalate cs
        s!"speclist C={cl} P={showKeys (Spec.Listing.prefixes es)}"
    some ({ st with mem := m }, o, showOut o, sp)
  | ["listv", b, hasP, pfx, hasD, d, km, vm, maxKeys] =>
    let (m, o) := Front.listVersions st.cfg st.mem (fromHex b) (parsePrefix hasP pfx hasD d) (fromHex km) (parseOptNat vm)
      (parseInt maxKeys)
    some ({ st with mem := m }, o, showOut o, "-")
  | ["mpinit", b, k, md] =>
    (match Front.ensureBucket st.cfg st.mem (fromHex b) with
     | (m, .ok _) =>
       let (u, id) : Upl × Nat := match Front.initiateUpload st.cfg ⟨st.mem, st.upl⟩ (fromHex b) (fromHex k) (parseMeta md) with
         | (s', .ok i) => (s'.upl, i)
         | (s', _) => (s'.upl, 0)
       some ({ st with mem := m, upl := u, mspec := st.mspec ++ [⟨id, fromHex b, fromHex k, []⟩] }, Out.ok, s!"upload {id}", "-")
     | (m, .err c) => some ({ st with mem := m }, Out.err c, s!"err {c.name}", "-")
     | (m, .panic _) => some ({ st with mem := m }, Out.ok, "panic", "-"))
  | ["mppart", b, k, id, n, declared, body] =>
    let nI := parseInt n
    let bodyB := fromHex body
    if nI ≤ 0 || nI > 10000 then some (st, Out.err .InvalidPart, "err InvalidPart", "-")
    else if parseInt declared ≤ 0 then some (st, Out.err .MissingContentLength, "err MissingContentLength", "-")
    else
      let (u, r) := st.upl.uploadPart md5 (fromHex b) (fromHex k) (parseNat id) nI.toNat (parseInt declared) bodyB
      -- specification: a part sent to a pending upload is acknowledged with the digest of its
      -- bytes; an upload that was completed, aborted or never started is NoSuchUpload
      let known := st.mspec.any (fun s => s.id == parseNat id && s.bucket == fromHex b && s.key == fromHex k)
      let sp := if !known then "err NoSuchUpload"
                else if parseInt declared == (bodyB.length : Int) then "part " ++ toHex (Bytes.hexLower (md5 bodyB))
                else "-"
      (match r with
       | .ok h =>
         let ms := st.mspec.map fun s => if s.id == parseNat id then Spec.Multipart.setLatest s nI.toNat bodyB else s
         some ({ st with upl := u, mspec := ms }, Out.ok, s!"part {toHex (Bytes.hexLower h)}", sp)
       | .err c => some ({ st with upl := u }, Out.err c, s!"err {c.name}", sp)
       | .panic _ => some ({ st with upl := u }, Out.ok, "panic", sp))
  | ["mppartx", b, k, id, pn, cl, md5c, body] =>
    -- the whole handler: part number and Content-Length as sent, Content-MD5 classified by the harness
    let mh : Md5Hdr := if md5c == "A" then .absent else if md5c == "E" then .empty else if md5c == "M" then .malformed
      else .digest (fromHex (md5c.drop 2).toString)
    let bodyB := fromHex body
    let clv : Option Bytes := if cl == "~" then none else some (fromHex cl)
    let rq : PartReq := ⟨parseInt64 (fromHex pn), clv, mh, bodyB⟩
    let (u, r) : Upl × Res Bytes := match Front.uploadPartSrv md5 st.ucfg ⟨st.mem, st.upl⟩ (fromHex b) (fromHex k) (parseNat id) rq with
      | (s', r') => (s'.upl, r')
    -- specification (C08): refused when the digest does not match the bytes, the digest header is
    -- malformed or empty (integrity on), or the length differs from the declared one; otherwise a
    -- part sent to a pending upload is acknowledged with the MD5 of its bytes
    let known := st.mspec.any (fun s => s.id == parseNat id && s.bucket == fromHex b && s.key == fromHex k)
    let wellFormed := match rq.partNumber, clv.bind parseInt64 with
      | some n, some sz => decide (1 ≤ n) && decide (n ≤ 10000) && decide (0 < sz)
      | _, _ => false
    let badDigest := st.ucfg.integrity && (match mh with
      | .digest d => !(d == md5 bodyB)
      | .malformed => true
      | .empty => true
      | .absent => false)
    let badLen := match clv.bind parseInt64 with
      | some sz => !(decide ((bodyB.length : Int) = sz))
      | none => true
    let sp := if !wellFormed then "-"
              else if badDigest || badLen then "rejected"
              else if known then "part " ++ toHex (Bytes.hexLower (md5 bodyB))
              else "err NoSuchUpload"
    (match r with
     | .ok h =>
       let ms := st.mspec.map fun s => if s.id == parseNat id then
         Spec.Multipart.setLatest s ((parseInt64 (fromHex pn)).getD 0).toNat bodyB else s
       some ({ st with upl := u, mspec := ms }, Out.ok, s!"part {toHex (Bytes.hexLower h)}", sp)
     | .err c => some ({ st with upl := u }, Out.err c, s!"err {c.name}", sp)
     | .panic _ => some ({ st with upl := u }, Out.ok, "panic", sp))
  | ["mpcomplete", b, k, id, listed] =>
    let ls : List (Int × Bytes) := if listed == "~" then [] else
      (listed.splitOn ",").map fun e => match e.splitOn ":" with
        | [n, t] => (parseInt n, fromHex t)
        | _ => (0, [])
    let (u, m, r) : Upl × Mem × Res (Option Nat × Bytes) := match Front.completeUpload md5 ⟨st.mem, st.upl⟩ (fromHex b) (fromHex k) (parseNat id) ls with
      | (s', r') => (s'.upl, s'.mem, r')
    -- specification: accepted iff ascending, all parts uploaded, ETags of the most recent uploads
    let su := st.mspec.find? (fun s => s.id == parseNat id && s.bucket == fromHex b && s.key == fromHex k)
    let verdict := match su with
      | none => none
      | some s => Spec.Multipart.accepted md5 s ls
    let bucketThere := (SMap.find st.spec (fromHex b)).isSome
    let (spec', mspec', sp) := match su, verdict with
      | none, _ => (st.spec, st.mspec, "err NoSuchUpload")
      | some _, none => (st.spec, st.mspec, "rejected")
      | some s, some bodies =>
        if bucketThere then
          ((Spec.S3.step st.spec (.put (fromHex b) (fromHex k) (Spec.Multipart.assemble bodies))).1,
            st.mspec.filter (fun x => !(x.id == s.id)),
            s!"completed {toHex (Spec.Multipart.etag md5 bodies)}")
        else (st.spec, st.mspec, "err NoSuchBucket")
    (match r with
     | .ok (vid, etag) => some ({ st with upl := u, mem := m, spec := spec', mspec := mspec' }, Out.ok, s!"completed {toHex etag} vid={optNat vid}", sp)
     | .err c => some ({ st with upl := u, mem := m, spec := spec', mspec := mspec' }, Out.err c, s!"err {c.name}", sp)
     | .panic _ => some ({ st with upl := u, mem := m }, Out.ok, "panic", sp))
  | ["mpabort", b, k, id] =>
    let (u, r) : Upl × Res Unit := match Front.abortUpload ⟨st.mem, st.upl⟩ (fromHex b) (fromHex k) (parseNat id) with
      | (s', r') => (s'.upl, r')
    let known := st.mspec.any (fun s => s.id == parseNat id && s.bucket == fromHex b && s.key == fromHex k)
    (match r with
     | .ok _ => some ({ st with upl := u, mspec := st.mspec.filter (fun x => !(x.id == parseNat id)) }, Out.ok, "ok", if known then "ok" else "err NoSuchUpload")
     | .err c => some ({ st with upl := u }, Out.err c, s!"err {c.name}", if known then "ok" else "err NoSuchUpload")
     | .panic _ => some (st, Out.ok, "panic", "-"))
  | ["mpparts", b, k, id, marker, limit] =>
    (match Front.ensureBucket st.cfg st.mem (fromHex b) with
     | (m, .ok _) =>
       let r := (Front.listPartsReq st.cfg ⟨st.mem, st.upl⟩ (fromHex b) (fromHex k) (parseNat id) (parseNat marker) (parseInt limit)).2
       -- specification: the held parts with their true numbers, ascending
       let sp := match st.mspec.find? (fun s => s.id == parseNat id && s.bucket == fromHex b && s.key == fromHex k) with
         | none => "err NoSuchUpload"
         | some s =>
           let sorted := (s.latest.toArray.qsort (fun a c => a.1 < c.1)).toList.filter (fun q => q.1 ≥ parseNat marker)
           let ps := sorted.map fun q => s!"{q.1}:{q.2.length}:{toHex (md5 q.2)}"
           "specparts " ++ (if ps.isEmpty then "-" else ",".intercalate ps)
       (match r with
        | .ok l =>
          let ps := l.parts.map fun q => s!"{q.number}:{q.size}:{toHex q.hash}"
          let pl := if ps.isEmpty then "-" else ",".intercalate ps
          let tr := if l.truncated then "1" else "0"
          some ({ st with mem := m }, Out.ok, s!"parts trunc={tr} next={l.next} L={pl}", sp)
        | .err c => some ({ st with mem := m }, Out.err c, s!"err {c.name}", sp)
        | .panic _ => some ({ st with mem := m }, Out.ok, "panic", sp))
     | (m, .err c) => some ({ st with mem := m }, Out.err c, s!"err {c.name}", "-")
     | (m, .panic _) => some ({ st with mem := m }, Out.ok, "panic", "-"))
  | ["mpuploads", b, hasP, pfx, hasD, d, km, im, limit] =>
    (match Front.ensureBucket st.cfg st.mem (fromHex b) with
     | (m, .ok _) =>
       let pr := parsePrefix hasP pfx hasD d
       let r := (Front.listUploadsReq st.cfg ⟨st.mem, st.upl⟩ (fromHex b) pr (fromHex km) (parseOptNat im) (parseInt limit)).2
       -- specification: pending uploads of the bucket matching the prefix, by key then initiation
       let pend := (st.mspec.filter (fun s => s.bucket == fromHex b)).toArray.qsort
         (fun a c => Bytes.lt a.key c.key || (a.key == c.key && a.id < c.id))
       let items := pend.toList.filterMap fun s =>
         match pr.match_ s.key with
         | some (false, _) => some s!"{toHex s.key}:{s.id}"
         | _ => none
       let sp := "specuploads " ++ (if items.isEmpty then "-" else ",".intercalate items)
       (match r with
        | .ok l =>
          let us := l.uploads.map fun q => s!"{toHex q.key}:{q.id}"
          let ul := if us.isEmpty then "-" else ",".intercalate us
          let tr := if l.truncated then "1" else "0"
          some ({ st with mem := m }, Out.ok, s!"uploads trunc={tr} nextkey={toHex l.nextKey} nextid={optNat l.nextId} U={ul} P={showKeys l.prefixes}", sp)
        | .err c => some ({ st with mem := m }, Out.err c, s!"err {c.name}", sp)
        | .panic _ => some ({ st with mem := m }, Out.ok, "panic", sp))
     | (m, .err c) => some ({ st with mem := m }, Out.err c, s!"err {c.name}", "-")
     | (m, .panic _) => some ({ st with mem := m }, Out.ok, "panic", "-"))
  | ["ucfg", integ, limit] =>
    let ig := integ == "1"
    let uc : UploadCfg := ⟨ig, parseNat limit⟩
    some ({ st with ucfg := uc }, Out.ok, "ok", "-")
  | ["upload", b, k, cl, md5c, streaming, decoded, tail, md, body] =>
    let mh : Md5Hdr := if md5c == "A" then .absent else if md5c == "E" then .empty else if md5c == "M" then .malformed
      else .digest (fromHex (md5c.drop 2).toString)
    let clv : Option Bytes := if cl == "~" then none else some (fromHex cl)
    let dlv : Option Bytes := if decoded == "~" then none else some (fromHex decoded)
    let isStreaming := streaming == "1"
    let tl : BodyEnd := if tail == "fail" then .fail else .eof
    let rq : UploadReq := ⟨clv, mh, isStreaming, dlv, parseMeta md, fromHex body, tl⟩
    let (m, o) := Front.createObject md5 st.cfg st.ucfg st.mem (fromHex b) (fromHex k) rq
    -- specification: either acknowledged (then the object is the body that arrived) or nothing changed
    let sp := match o with
      | .stored _ _ => "stored"
      | .err .NotImplemented => "unknown"
      | _ => "rejected-unchanged"
    let spec' := match o with
      | .stored _ _ => (Spec.S3.step st.spec (.put (fromHex b) (fromHex k) (match Front.uploadChecks md5 st.ucfg (fromHex k) rq with | .ok bs => bs | _ => []))).1
      | _ => st.spec
    some ({ st with mem := m, spec := spec' }, o, showOut o, sp)
  | ["cbegin", tid, b, k, md] =>
    -- the handler up to the first unlocked point: ensureBucketExists, key length
    (match Front.ensureBucket st.cfg st.mem (fromHex b) with
     | (m, .ok _) =>
       if (fromHex k).length > Front.KeySizeLimit then some ({ st with mem := m }, Out.err .KeyTooLong, "err KeyTooLongError", "-")
       else
         let p := (parseNat tid, fromHex b, fromHex k, parseMeta md)
         some ({ st with mem := m, pend := st.pend.filter (fun q => !(q.1 == parseNat tid)) ++ [p] }, Out.ok, "gate", "-")
     | (m, .err c) => some ({ st with mem := m }, Out.err c, s!"err {c.name}", "-")
     | (m, .panic _) => some ({ st with mem := m }, Out.ok, "panic", "-"))
  | ["cmerge", tid] =>
    -- MergeMetadata: reads the current object's metadata (read lock), outside the write lock
    (match st.pend.find? (fun q => q.1 == parseNat tid) with
     | some (t, b, k, md) =>
       let md' := st.mem.mergedMeta b k md
       some ({ st with pend := st.pend.map (fun q => if q.1 == t then (t, b, k, md') else q) }, Out.ok, "gate", "-")
     | none => some (st, Out.ok, "no-pending-upload", "-"))
  | ["ccommit", tid, body] =>
    (match st.pend.find? (fun q => q.1 == parseNat tid) with
     | some (t, b, k, md') =>
       let (m, r) := st.mem.putCommit md5 b k md' (fromHex body)
       let st' := { st with mem := m, pend := st.pend.filter (fun q => !(q.1 == t)) }
       -- reference model: the upload takes effect atomically at its commit step
       let (st'', sp) := specStep st' (.put b k (fromHex body))
       (match r with
        | .ok vid => some (st'', Out.ok, s!"stored {toHex (md5 (fromHex body))} vid={optNat vid}", sp)
        | .err c => some (st'', Out.err c, s!"err {c.name}", sp)
        | .panic _ => some (st'', Out.ok, "panic", sp))
     | none => some (st, Out.ok, "no-pending-upload", "-"))
  | ["vmode", v] => some ({ st with vmode := v == "1" }, Out.ok, "ok", "-")
  | _ => none

def stepState (st : DState) (toks : List String) : Option (DState × String × String) :=
  match stepState0 st toks with
  | none => none
  | some (st', o, m, sp) =>
    if st.vmode then
      let (st'', vs) := vspecStep st' toks o st.mem.nextVer
      some (st'', m, if vs == "-" then sp else vs)
    else some (st', m, sp)

end Driver
