import Driver.Util
import Driver.State
import GFS.Base.Md5
import GFS.Model.Bolt
import GFS.Model.FsBackend
import GFS.Spec.S3
import GFS.Spec.Listing
/-
  `api.*` lines: the `gofakes3.Backend` interface itself (no HTTP, no handler), one model per
  backend kind, driven by the same lines as the real Backend value.
  Answer columns: the backend model's answer; the reference model's (Spec.S3 / Spec.Listing)
  answer where the interface method and the reference operation mean the same.
-/
namespace Driver
open GFS GFS.Model

structure ApiState where
  kind : String := "bolt"
  bolt : Bolt.DB := []
  fs   : FsB.FsS := ⟨[]⟩
  single : Bytes := []          -- the bucket of a single-bucket fs backend
  ref  : Spec.S3.Store := []

def showRes {α} (r : Res α) (f : α → String) : String :=
  match r with
  | .ok a => f a
  | .err c => s!"err {c.name}"
  | .panic _ => "panic"

def showAnsApi : Spec.S3.Ans → String
  | .ok => "ok"
  | .err c => s!"err {c.name}"
  | .object b => s!"obj {toHex b}"
  | .buckets ns => "buckets " ++ showKeys ns

def refStep (st : ApiState) (op : Spec.S3.Op) : ApiState × String :=
  let (s', a) := Spec.S3.step st.ref op
  ({ st with ref := s' }, showAnsApi a)

def showListing (l : ObjectList) : String :=
  s!"list C={showContents l.contents} P={showKeys l.prefixes}"

/-- the reference listing of a bucket of the reference store: keys (and common prefixes) only -/
def refListing (st : ApiState) (b : Bytes) (p : Prefix) : String :=
  match SMap.find st.ref b with
  | none => "err NoSuchBucket"
  | some objs =>
    -- domain of the grouping rule (C03): no key starts or ends with the delimiter, nor does the prefix start with it
    if p.hasDelim && ((SMap.keys objs).any (fun k => k.head? == some p.delim || k.getLast? == some p.delim) || p.pfx.head? == some p.delim) then "-" else
    let es := Spec.Listing.entries p.pfx (if p.hasDelim then some p.delim else none) (SMap.keys objs)
    s!"list C={showKeys (Spec.Listing.contents es)} P={showKeys (Spec.Listing.prefixes es)}"

/-- projection of a model/implementation listing line to what the reference listing carries -/
def projListing (l : ObjectList) : String :=
  s!"list C={showKeys (l.contents.map (·.key))} P={showKeys l.prefixes}"

/-- the multi-bucket file-system backend (Model/FsBackend); a request whose key the backend
    refuses is not shown to the reference store -/
def stepApiFs (st : ApiState) (toks : List String) : Option (ApiState × String × String) :=
  let md5 := Md5.md5
  let refused {α} (r : Res α) : Bool := match r with | .err .InvalidArgument => true | _ => false
  match toks with
  | ["api.mk", b] =>
    let (fs, r) := FsB.createBucket st.fs (fromHex b)
    let (st', sp) := refStep { st with fs := fs } (.createBucket (fromHex b))
    some (st', showRes r fun _ => "ok", sp)
  | ["api.rm", b] =>
    let (fs, r) := FsB.deleteBucket st.fs (fromHex b)
    let existed := (SMap.find st.ref (fromHex b)).isSome
    let (st', sp) := refStep { st with fs := fs } (.deleteBucket (fromHex b))
    -- an absent bucket surfaces the raw file-system error at the interface (NoSuchBucket over HTTP)
    some (st', showRes r fun _ => "ok", if existed then sp else "-")
  | ["api.force", b] =>
    let (fs, r) := FsB.forceDeleteBucket st.fs (fromHex b)
    let existed := (SMap.find st.ref (fromHex b)).isSome
    some ({ st with fs := fs, ref := SMap.erase st.ref (fromHex b) }, showRes r fun _ => "ok", if existed then "ok" else "-")
  | ["api.exists", b] =>
    some (st, toString (FsB.bucketExists st.fs (fromHex b)), toString (SMap.find st.ref (fromHex b)).isSome)
  | ["api.buckets"] =>
    some (st, "buckets " ++ showKeys (FsB.listBuckets st.fs), "buckets " ++ showKeys (SMap.keys st.ref))
  | ["api.put", b, k, md, body] =>
    let (fs, r) := FsB.putObject md5 st.fs (fromHex b) (fromHex k) (parseMeta md) (fromHex body)
    if refused r then some ({ st with fs := fs }, showRes r fun _ => "ok", "-") else
    let (st', sp) := refStep { st with fs := fs } (.put (fromHex b) (fromHex k) (fromHex body))
    some (st', showRes r fun _ => "ok", sp)
  | ["api.get", b, k] =>
    let r := FsB.getObject md5 st.fs (fromHex b) (fromHex k)
    let (st', sp) := refStep st (.get (fromHex b) (fromHex k))
    some (st', showRes r fun o => s!"obj {toHex o.body} {toHex o.hash} meta={showMeta o.md}", sp)
  | ["api.head", b, k] =>
    let r := FsB.getObject md5 st.fs (fromHex b) (fromHex k)
    let (_, sp) := refStep st (.head (fromHex b) (fromHex k))
    some (st, showRes r fun o => s!"hobj {o.body.length} {toHex o.hash} meta={showMeta o.md}", if sp.startsWith "obj" then "-" else sp)
  | ["api.del", b, k] =>
    let (fs, r) := FsB.deleteObject st.fs (fromHex b) (fromHex k)
    if refused r then some ({ st with fs := fs }, showRes r fun _ => "ok", "-") else
    let (st', sp) := refStep { st with fs := fs } (.delete (fromHex b) (fromHex k))
    some (st', showRes r fun _ => "ok", sp)
  | ["api.delmulti", b, ks] =>
    let (fs, r) := FsB.deleteMulti st.fs (fromHex b) (parseKeys ks)
    let (st', sp) := refStep { st with fs := fs } (.deleteMulti (fromHex b) (parseKeys ks))
    some (st', showRes r fun (d, f) => "deleted " ++ showKeys d ++ (if f.isEmpty then "" else s!" errors={f.length}"), sp)
  | ["api.copy", sb, sk, db_, dk, md] =>
    let (fs, r) := FsB.copyObject md5 st.fs (fromHex sb) (fromHex sk) (fromHex db_) (fromHex dk) (parseMeta md)
    if refused r then some ({ st with fs := fs }, showRes r fun h => s!"copied {toHex h}", "-") else
    let dstThere := (SMap.find st.ref (fromHex db_)).isSome
    let (st', sp) := refStep { st with fs := fs } (.copy (fromHex sb) (fromHex sk) (fromHex db_) (fromHex dk))
    some (st', showRes r fun h => s!"copied {toHex h}", if dstThere then sp else "-")
  | ["api.list", b, hasP, pfx, hasD, d] =>
    -- `ListBucket`: the name is validated, then the ReadDir listing for delimiter '/', the Walk listing otherwise
    let p := parsePrefix hasP pfx hasD d
    let r : Res ObjectList :=
      if !validateBucketName (fromHex b) then .err .NoSuchBucket else
      match SMap.find st.fs.buckets (fromHex b) with
      | none => .err .NoSuchBucket
      | some bk => .ok (if p.hasDelim && p.delim == 47 then FsB.listDir md5 bk p else FsB.listWalk md5 bk p)
    some (st, showRes r showListing, refListing st (fromHex b) p)
  | _ => none

/-- the single-bucket file-system backend (Model/FsBackend, `Single`) -/
def stepApiFsS (st : ApiState) (toks : List String) : Option (ApiState × String × String) :=
  let md5 := Md5.md5
  let name := st.single
  let refused {α} (r : Res α) : Bool := match r with | .err .InvalidArgument => true | _ => false
  match toks with
  | ["api.mk", _] => some (st, showRes (FsB.Single.createBucket st.fs).2 fun _ => "ok", "-")
  | ["api.rm", _] => some (st, showRes (FsB.Single.deleteBucket st.fs).2 fun _ => "ok", "-")
  | ["api.force", b] =>
    let (fs, r) := FsB.Single.forceDeleteBucket name st.fs (fromHex b)
    let isIt := fromHex b == name
    some ({ st with fs := fs, ref := if isIt then SMap.insert st.ref name [] else st.ref }, showRes r fun _ => "ok", if isIt then "ok" else "err NoSuchBucket")
  | ["api.exists", b] =>
    some (st, toString (FsB.Single.bucketExists name (fromHex b)), toString (SMap.find st.ref (fromHex b)).isSome)
  | ["api.buckets"] =>
    some (st, "buckets " ++ showKeys (FsB.Single.listBuckets name), "buckets " ++ showKeys (SMap.keys st.ref))
  | ["api.put", b, k, md, body] =>
    let (fs, r) := FsB.Single.putObject md5 name st.fs (fromHex b) (fromHex k) (parseMeta md) (fromHex body)
    if refused r then some ({ st with fs := fs }, showRes r fun _ => "ok", "-") else
    let (st', sp) := refStep { st with fs := fs } (.put (fromHex b) (fromHex k) (fromHex body))
    some (st', showRes r fun _ => "ok", sp)
  | ["api.get", b, k] =>
    let r := FsB.Single.getObject md5 name st.fs (fromHex b) (fromHex k)
    let (st', sp) := refStep st (.get (fromHex b) (fromHex k))
    some (st', showRes r fun o => s!"obj {toHex o.body} {toHex o.hash} meta={showMeta o.md}", sp)
  | ["api.head", b, k] =>
    let r := FsB.Single.getObject md5 name st.fs (fromHex b) (fromHex k)
    let (_, sp) := refStep st (.head (fromHex b) (fromHex k))
    some (st, showRes r fun o => s!"hobj {o.body.length} {toHex o.hash} meta={showMeta o.md}", if sp.startsWith "obj" then "-" else sp)
  | ["api.del", b, k] =>
    let (fs, r) := FsB.Single.deleteObject name st.fs (fromHex b) (fromHex k)
    if refused r then some ({ st with fs := fs }, showRes r fun _ => "ok", "-") else
    let (st', sp) := refStep { st with fs := fs } (.delete (fromHex b) (fromHex k))
    some (st', showRes r fun _ => "ok", sp)
  | ["api.delmulti", b, ks] =>
    let (fs, r) := FsB.Single.deleteMulti name st.fs (fromHex b) (parseKeys ks)
    let (st', sp) := refStep { st with fs := fs } (.deleteMulti (fromHex b) (parseKeys ks))
    some (st', showRes r fun (d, f) => "deleted " ++ showKeys d ++ (if f.isEmpty then "" else s!" errors={f.length}"), sp)
  | ["api.copy", sb, sk, db_, dk, md] =>
    let (fs, r) := FsB.Single.copyObject md5 name st.fs (fromHex sb) (fromHex sk) (fromHex db_) (fromHex dk) (parseMeta md)
    if refused r then some ({ st with fs := fs }, showRes r fun h => s!"copied {toHex h}", "-") else
    let dstThere := (SMap.find st.ref (fromHex db_)).isSome
    let (st', sp) := refStep { st with fs := fs } (.copy (fromHex sb) (fromHex sk) (fromHex db_) (fromHex dk))
    some (st', showRes r fun h => s!"copied {toHex h}", if dstThere then sp else "-")
  | ["api.list", b, hasP, pfx, hasD, d] =>
    let p := parsePrefix hasP pfx hasD d
    let r : Res ObjectList :=
      if fromHex b != name then .err .NoSuchBucket else
      match SMap.find st.fs.buckets name with
      | none => .err .NoSuchBucket
      | some bk => .ok (if p.hasDelim && p.delim == 47 then FsB.listDir md5 bk p else FsB.listWalk md5 bk p)
    some (st, showRes r showListing, refListing st (fromHex b) p)
  | _ => none

def stepApi (st : ApiState) (toks : List String) : Option (ApiState × String × String) :=
  let md5 := Md5.md5
  if st.kind == "fsM" && toks.head? != some "api.reset" then stepApiFs st toks else
  if st.kind == "fsS" && toks.head? != some "api.reset" then stepApiFsS st toks else
  match toks with
  | ["api.reset", "fsS", name] =>
    some ({ kind := "fsS", single := fromHex name, fs := FsB.Single.init (fromHex name), ref := [(fromHex name, [])] }, "ok", "-")
  | ["api.reset", kind] => some ({ kind := kind }, "ok", "-")
  | ["api.mk", b] =>
    let (db, r) := Bolt.createBucket st.bolt (fromHex b)
    -- the reference model's create presupposes a name that can name a bucket at all
    if (fromHex b).isEmpty || fromHex b == Bolt.metaName then some ({ st with bolt := db }, showRes r fun _ => "ok", "-")
    else
    let (st', sp) := refStep { st with bolt := db } (.createBucket (fromHex b))
    some (st', showRes r fun _ => "ok", sp)
  | ["api.rm", b] =>
    let (db, r) := Bolt.deleteBucket st.bolt (fromHex b)
    let (st', sp) := refStep { st with bolt := db } (.deleteBucket (fromHex b))
    -- the bookkeeping bucket's name is refused as such (InvalidBucketName), not as an absent bucket
    some (st', showRes r fun _ => "ok", if fromHex b == Bolt.metaName then "-" else sp)
  | ["api.force", b] =>
    let (db, r) := Bolt.forceDeleteBucket st.bolt (fromHex b)
    let existed := (SMap.find st.ref (fromHex b)).isSome
    some ({ st with bolt := db, ref := SMap.erase st.ref (fromHex b) }, showRes r fun _ => "ok",
          if fromHex b == Bolt.metaName then "-" else if existed then "ok" else "err NoSuchBucket")
  | ["api.exists", b] =>
    some (st, toString (Bolt.bucketExists st.bolt (fromHex b)), toString (SMap.find st.ref (fromHex b)).isSome)
  | ["api.buckets"] =>
    some (st, "buckets " ++ showKeys (Bolt.listBuckets st.bolt), "buckets " ++ showKeys (SMap.keys st.ref))
  | ["api.put", b, k, md, body] =>
    let (db, r) := Bolt.putObject md5 st.bolt (fromHex b) (fromHex k) (parseMeta md) (fromHex body)
    -- an empty key (or one above bbolt's MaxKeySize) names no object
    if (fromHex k).isEmpty || (fromHex k).length > Bolt.maxKeySize then some ({ st with bolt := db }, showRes r fun _ => "ok", "-")
    else
    let (st', sp) := refStep { st with bolt := db } (.put (fromHex b) (fromHex k) (fromHex body))
    some (st', showRes r fun _ => "ok", sp)
  | ["api.get", b, k] =>
    let r := Bolt.getObject st.bolt (fromHex b) (fromHex k)
    let (st', sp) := refStep st (.get (fromHex b) (fromHex k))
    some (st', showRes r fun o => s!"obj {toHex o.body} {toHex o.hash} meta={showMeta o.md}", sp)
  | ["api.head", b, k] =>
    let r := Bolt.getObject st.bolt (fromHex b) (fromHex k)
    let (_, sp) := refStep st (.head (fromHex b) (fromHex k))
    some (st, showRes r fun o => s!"hobj {o.body.length} {toHex o.hash} meta={showMeta o.md}", if sp.startsWith "obj" then "-" else sp)
  | ["api.del", b, k] =>
    let (db, r) := Bolt.deleteObject st.bolt (fromHex b) (fromHex k)
    let (st', sp) := refStep { st with bolt := db } (.delete (fromHex b) (fromHex k))
    some (st', showRes r fun _ => "ok", sp)
  | ["api.delmulti", b, ks] =>
    let (db, r) := Bolt.deleteMulti st.bolt (fromHex b) (parseKeys ks)
    let (st', sp) := refStep { st with bolt := db } (.deleteMulti (fromHex b) (parseKeys ks))
    some (st', showRes r fun l => "deleted " ++ showKeys l, sp)
  | ["api.copy", sb, sk, db_, dk, md] =>
    let (db, r) := Bolt.copyObject md5 st.bolt (fromHex sb) (fromHex sk) (fromHex db_) (fromHex dk) (parseMeta md)
    -- the interface method looks at the source first, the reference operation at the destination
    -- bucket first: the reference answer is used when the destination bucket exists
    if (fromHex dk).isEmpty then some ({ st with bolt := db }, showRes r fun h => s!"copied {toHex h}", "-") else
    let dstThere := (SMap.find st.ref (fromHex db_)).isSome
    let (st', sp) := refStep { st with bolt := db } (.copy (fromHex sb) (fromHex sk) (fromHex db_) (fromHex dk))
    some (st', showRes r fun h => s!"copied {toHex h}", if dstThere then sp else "-")
  | ["api.list", b, hasP, pfx, hasD, d] =>
    let p := parsePrefix hasP pfx hasD d
    let r := Bolt.listBucket st.bolt (fromHex b) p
    some (st, showRes r showListing, refListing st (fromHex b) p)
  | _ => none

end Driver
