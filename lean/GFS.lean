import GFS.Props.C11
import GFS.Props.C11Gen
import GFS.Props.C17
import GFS.Props.C12
import GFS.Props.C02
import GFS.Props.C01
import GFS.Props.C03
import GFS.Props.C04
