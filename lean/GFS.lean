import GFS.Props.C11
import GFS.Props.C11Gen
