import GFS.Model.Mem
/-
  s3mem `ListBucket` (with pagination, after the D6 repair) and `ListBucketVersions`.
-/
namespace GFS.Model
open GFS

structure Content where
  key  : Key
  size : Nat
  hash : Bytes
deriving Repr, DecidableEq

structure ObjectList where
  contents  : List Content
  prefixes  : List Bytes
  truncated : Bool
  next      : Bytes          -- NextMarker ("" = none)
deriving Repr, DecidableEq

/-- the loop that, after a page ended on a common prefix, advances past the following keys
    covered by the same prefix.  Returns (NextMarker, IsTruncated). -/
def skipCovered (p : Prefix) (last : Bytes) : List (Key × Obj) → Bytes → Res (Bytes × Bool)
  | [], nm => .ok (nm, false)
  | (k, o) :: rest, nm =>
    match o.data with
    | none => .panic .nilDeref
    | some _ =>
      match p.match_ k with
      | some (true, mp) => if mp == last then skipCovered p last rest k else .ok (nm, true)
      | _ => .ok (nm, true)

/-- `response.AddPrefix(mp)` (de-duplicated) or `response.Add(content)` -/
def addEntry (acc : ObjectList) (cp : Bool) (mp : Bytes) (c : Content) : ObjectList :=
  if cp then (if acc.prefixes.contains mp then acc else { acc with prefixes := acc.prefixes ++ [mp] })
  else { acc with contents := acc.contents ++ [c] }

/-- the `for iter.Next()` loop of `ListBucket` over the objects that follow the marker -/
def listLoop (p : Prefix) (maxKeys : Int) :
    List (Key × Obj) → (cnt : Int) → (last : Bytes) → ObjectList → Res ObjectList
  | [], _, _, acc => .ok acc
  | (k, o) :: rest, cnt, last, acc =>
    match o.data with
    | none => .panic .nilDeref
    | some d =>
      match p.match_ k with
      | none => listLoop p maxKeys rest cnt last acc
      | some (cp, mp) =>
        if d.marker then listLoop p maxKeys rest cnt last acc
        else if cp && mp == last then listLoop p maxKeys rest cnt last acc
        else
          let acc' : ObjectList := addEntry acc cp mp ⟨k, d.body.length, d.hash⟩
          let last' := if cp then mp else last
          let cnt' := cnt + 1
          if maxKeys > 0 ∧ cnt' ≥ maxKeys then
            if cp then
              match skipCovered p last' rest k with
              | .ok (nm, more) => .ok { acc' with next := nm, truncated := more }
              | .err e => .err e
              | .panic s => .panic s
            else .ok { acc' with next := k, truncated := !rest.isEmpty }
          else listLoop p maxKeys rest cnt' last' acc'

/-- `Seek(marker)` followed by "skip the marker itself": the objects strictly after it -/
def afterMarker (objs : List (Key × Obj)) (marker : Bytes) : List (Key × Obj) :=
  if marker.isEmpty then objs else objs.filter (fun p => Bytes.lt marker p.1)

/-- `Backend.ListBucket(name, prefix, page)` -/
def Mem.listBucket (m : Mem) (b : Bytes) (p : Prefix) (marker : Bytes) (maxKeys : Int) : Res ObjectList :=
  match SMap.find m.buckets b with
  | none => .err .NoSuchBucket
  | some bk => listLoop p maxKeys (afterMarker bk.objects marker) 0 [] ⟨[], [], false, []⟩

/-! ### ListBucketVersions -/

structure VerEntry where
  key      : Key
  vid      : Option Nat      -- `none` = reported as "null"
  marker   : Bool
  isLatest : Bool
  size     : Nat
  hash     : Bytes
deriving Repr, DecidableEq

structure VersionList where
  entries   : List VerEntry
  prefixes  : List Bytes
  truncated : Bool
  /-- `NextKeyMarker` / `NextVersionIdMarker`: the first entry NOT returned (`[]` / `none` = absent) -/
  nextKey   : Bytes := []
  nextVer   : Option Nat := none
deriving Repr, DecidableEq

/-- `bucketObjectIterator`: archived versions ascending, then the current one -/
def Obj.allVersions (o : Obj) : List (Ver × Bool) :=
  o.versions.map (·, false) ++ (match o.data with | some d => [(d, true)] | none => [])

/-- `bucketObjectIterator.Seek(marker)` then `Next`…: the listing resumes AT the version sought
    (the first archived id ≥ vid, else the current one if it has that id); `none` = the marker
    was not found (ErrInternal) -/
def Obj.versionsFrom (o : Obj) (vid : Nat) : Option (List (Ver × Bool)) :=
  match o.versions.dropWhile (fun v => v.id < vid) with
  | v :: rest => some ((v :: rest).map (·, false) ++ (match o.data with | some d => [(d, true)] | none => []))
  | [] =>
    match o.data with
    | some d => if d.id == vid then some [(d, true)] else none
    | none => none

/-- the result of the inner loop: `none` = the key's versions are exhausted below the limit;
    `some none` = the limit was reached with the key's last version; `some (some id)` = the limit
    was reached and `id` is the first version of this key not returned -/
def verLoopInner (k : Key) (masked : Bool) (maxKeys : Int) :
    List (Ver × Bool) → Int → List VerEntry → (List VerEntry × Int × Option (Option Nat))
  | [], cnt, acc => (acc, cnt, none)
  | (v, isCur) :: rest, cnt, acc =>
    let e : VerEntry := ⟨k, if masked then none else some v.id, v.marker, isCur, v.body.length, v.hash⟩
    let cnt' := cnt + 1
    if maxKeys > 0 ∧ cnt' ≥ maxKeys then (acc ++ [e], cnt', some (rest.head?.map (·.1.id)))
    else verLoopInner k masked maxKeys rest cnt' (acc ++ [e])

/-- the `done:` loop: the first following key that matches the prefix, with its first version -/
def nextMatching (p : Prefix) : List (Key × Obj) → Option (Key × Nat)
  | [] => none
  | (k, o) :: rest =>
    match p.match_ k with
    | none => nextMatching p rest
    | some _ =>
      match o.allVersions.head? with
      | some v => some (k, v.1.id)
      | none => nextMatching p rest

/-- the outer loop of `ListBucketVersions`; the version-id marker applies to the marker key only -/
def verLoop (p : Prefix) (masked : Bool) (maxKeys : Int) (keyMarker : Bytes) (verMarker : Option Nat) :
    List (Key × Obj) → Int → VersionList → Res VersionList
  | [], _, acc => .ok acc
  | (k, o) :: rest, cnt, acc =>
    match p.match_ k with
    | none => verLoop p masked maxKeys keyMarker verMarker rest cnt acc
    | some (true, mp) =>
      verLoop p masked maxKeys keyMarker verMarker rest cnt
        (if acc.prefixes.contains mp then acc else { acc with prefixes := acc.prefixes ++ [mp] })
    | some (false, _) =>
      let vs? : Option (List (Ver × Bool)) :=
        match verMarker with
        | some vid => if k == keyMarker then o.versionsFrom vid else some o.allVersions
        | none => some o.allVersions
      match vs? with
      | none => .err .Internal
      | some vs =>
        let (entries, cnt', stop) := verLoopInner k masked maxKeys vs cnt acc.entries
        match stop with
        | some (some vid) => .ok { acc with entries := entries, truncated := true, nextKey := k, nextVer := some vid }
        | some none =>
          (match nextMatching p rest with
           | some (nk, nv) => .ok { acc with entries := entries, truncated := true, nextKey := nk, nextVer := some nv }
           | none => .ok { acc with entries := entries })
        | none => verLoop p masked maxKeys keyMarker verMarker rest cnt' { acc with entries := entries }

/-- `Backend.ListBucketVersions`; `keyMarker = []` = none (then the version marker is ignored) -/
def Mem.listVersions (m : Mem) (b : Bytes) (p : Prefix) (keyMarker : Bytes) (verMarker : Option Nat)
    (maxKeys : Int) : Res VersionList :=
  match SMap.find m.buckets b with
  | none => .err .NoSuchBucket
  | some bk =>
    let masked := bk.versioning == .none
    if keyMarker.isEmpty then
      verLoop p masked maxKeys [] none bk.objects 0 ⟨[], [], false, [], none⟩
    else
      match p.match_ keyMarker with
      | none => .err .Internal
      | some _ =>
        -- inclusive seek: objects with key ≥ keyMarker; nothing there = an empty, complete listing
        verLoop p masked maxKeys keyMarker verMarker (bk.objects.filter (fun q => !Bytes.lt q.1 keyMarker)) 0 ⟨[], [], false, [], none⟩

end GFS.Model
