import GFS.Model.Mem
/-
  s3mem `ListBucket` (with pagination, after the D6 repair) and `ListBucketVersions`.
-/
namespace GFS.Model
open GFS

structure Content where
  key  : Key
  size : Nat
  hash : Bytes
deriving Repr, DecidableEq

structure ObjectList where
  contents  : List Content
  prefixes  : List Bytes
  truncated : Bool
  next      : Bytes          -- NextMarker ("" = none)
deriving Repr, DecidableEq

/-- the loop that, after a page ended on a common prefix, advances past the following keys
    covered by the same prefix.  Returns (NextMarker, IsTruncated). -/
def skipCovered (p : Prefix) (last : Bytes) : List (Key × Obj) → Bytes → Res (Bytes × Bool)
  | [], nm => .ok (nm, false)
  | (k, o) :: rest, nm =>
    match o.data with
    | none => .panic .nilDeref
    | some _ =>
      match p.match_ k with
      | some (true, mp) => if mp == last then skipCovered p last rest k else .ok (nm, true)
      | _ => .ok (nm, true)

/-- `response.AddPrefix(mp)` (de-duplicated) or `response.Add(content)` -/
def addEntry (acc : ObjectList) (cp : Bool) (mp : Bytes) (c : Content) : ObjectList :=
  if cp then (if acc.prefixes.contains mp then acc else { acc with prefixes := acc.prefixes ++ [mp] })
  else { acc with contents := acc.contents ++ [c] }

/-- the `for iter.Next()` loop of `ListBucket` over the objects that follow the marker -/
def listLoop (p : Prefix) (maxKeys : Int) :
    List (Key × Obj) → (cnt : Int) → (last : Bytes) → ObjectList → Res ObjectList
  | [], _, _, acc => .ok acc
  | (k, o) :: rest, cnt, last, acc =>
    match o.data with
    | none => .panic .nilDeref
    | some d =>
      match p.match_ k with
      | none => listLoop p maxKeys rest cnt last acc
      | some (cp, mp) =>
        if d.marker then listLoop p maxKeys rest cnt last acc
        else if cp && mp == last then listLoop p maxKeys rest cnt last acc
        else
          let acc' : ObjectList := addEntry acc cp mp ⟨k, d.body.length, d.hash⟩
          let last' := if cp then mp else last
          let cnt' := cnt + 1
          if maxKeys > 0 ∧ cnt' ≥ maxKeys then
            if cp then
              match skipCovered p last' rest k with
              | .ok (nm, more) => .ok { acc' with next := nm, truncated := more }
              | .err e => .err e
              | .panic s => .panic s
            else .ok { acc' with next := k, truncated := !rest.isEmpty }
          else listLoop p maxKeys rest cnt' last' acc'

/-- `Seek(marker)` followed by "skip the marker itself": the objects strictly after it -/
def afterMarker (objs : List (Key × Obj)) (marker : Bytes) : List (Key × Obj) :=
  if marker.isEmpty then objs else objs.filter (fun p => Bytes.lt marker p.1)

/-- `Backend.ListBucket(name, prefix, page)` -/
def Mem.listBucket (m : Mem) (b : Bytes) (p : Prefix) (marker : Bytes) (maxKeys : Int) : Res ObjectList :=
  match SMap.find m.buckets b with
  | none => .err .NoSuchBucket
  | some bk => listLoop p maxKeys (afterMarker bk.objects marker) 0 [] ⟨[], [], false, []⟩

/-! ### ListBucketVersions -/

structure VerEntry where
  key      : Key
  vid      : Option Nat      -- `none` = reported as "null"
  marker   : Bool
  isLatest : Bool
  size     : Nat
  hash     : Bytes
deriving Repr, DecidableEq

structure VersionList where
  entries   : List VerEntry
  prefixes  : List Bytes
  truncated : Bool
deriving Repr, DecidableEq

/-- `bucketObjectIterator`: archived versions ascending, then the current one -/
def Obj.allVersions (o : Obj) : List (Ver × Bool) :=
  o.versions.map (·, false) ++ (match o.data with | some d => [(d, true)] | none => [])

/-- `bucketObjectIterator.Seek(marker)` then `Next`…: exclusive on archived versions,
    inclusive on the current one; `none` = the marker was not found (ErrInternal) -/
def Obj.versionsAfter (o : Obj) (vid : Nat) : Option (List (Ver × Bool)) :=
  -- skiplist Seek positions at the first archived id ≥ vid; the following Next() skips it
  match o.versions.dropWhile (fun v => v.id < vid) with
  | _ :: rest => some (rest.map (·, false) ++ (match o.data with | some d => [(d, true)] | none => []))
  | [] =>
    match o.data with
    | some d => if d.id == vid then some [(d, true)] else none
    | none => none

def verLoopInner (k : Key) (masked : Bool) (maxKeys : Int) :
    List (Ver × Bool) → Int → List VerEntry → (List VerEntry × Int × Option Bool)
  | [], cnt, acc => (acc, cnt, none)
  | (v, isCur) :: rest, cnt, acc =>
    let e : VerEntry := ⟨k, if masked then none else some v.id, v.marker, isCur, v.body.length, v.hash⟩
    let cnt' := cnt + 1
    if maxKeys > 0 ∧ cnt' ≥ maxKeys then (acc ++ [e], cnt', some (!rest.isEmpty))
    else verLoopInner k masked maxKeys rest cnt' (acc ++ [e])

/-- the outer loop of `ListBucketVersions`; `first` carries the version-id marker for the
    first object visited -/
def verLoop (p : Prefix) (masked : Bool) (maxKeys : Int) :
    List (Key × Obj) → (first : Option Nat) → Int → VersionList → Res VersionList
  | [], _, _, acc => .ok acc
  | (k, o) :: rest, first, cnt, acc =>
    match p.match_ k with
    | none => verLoop p masked maxKeys rest first cnt acc
    | some (true, mp) =>
      verLoop p masked maxKeys rest first cnt
        (if acc.prefixes.contains mp then acc else { acc with prefixes := acc.prefixes ++ [mp] })
    | some (false, _) =>
      let vs? : Option (List (Ver × Bool)) :=
        match first with
        | some vid => o.versionsAfter vid
        | none => some o.allVersions
      match vs? with
      | none => .err .Internal
      | some vs =>
        let (entries, cnt', stop) := verLoopInner k masked maxKeys vs cnt acc.entries
        match stop with
        | some more => .ok { acc with entries := entries, truncated := more || !rest.isEmpty }
        | none => verLoop p masked maxKeys rest none cnt' { acc with entries := entries }

/-- `Backend.ListBucketVersions`; `keyMarker = []` = none (then the version marker is ignored) -/
def Mem.listVersions (m : Mem) (b : Bytes) (p : Prefix) (keyMarker : Bytes) (verMarker : Option Nat)
    (maxKeys : Int) : Res VersionList :=
  match SMap.find m.buckets b with
  | none => .err .NoSuchBucket
  | some bk =>
    let masked := bk.versioning == .none
    if keyMarker.isEmpty then
      verLoop p masked maxKeys bk.objects verMarker 0 ⟨[], [], false⟩
    else
      match p.match_ keyMarker with
      | none => .err .Internal
      | some _ =>
        -- inclusive seek: objects with key ≥ keyMarker
        let from_ := bk.objects.filter (fun q => !Bytes.lt q.1 keyMarker)
        if from_.isEmpty then
          -- the seek failed; the loop does not run, and the final `iter.Next()` restarts from the
          -- head of the list: IsTruncated is reported although nothing follows
          .ok ⟨[], [], !bk.objects.isEmpty⟩
        else verLoop p masked maxKeys from_ verMarker 0 ⟨[], [], false⟩

end GFS.Model
