import GFS.Model.UploadPart
/-
  gofakes3.go multipart handlers over the backend model and the uploader model: the server state
  is the store plus the (volatile) multipart bookkeeping.
-/
namespace GFS.Model
open GFS

structure Srv where
  mem : Mem
  upl : Upl

namespace Front

/-- `initiateMultipartUpload`: ensureBucketExists, then a new upload id -/
def initiateUpload (cfg : Cfg) (s : Srv) (b : Bytes) (k : Key) (md : Meta) : Srv × Res Nat :=
  match ensureBucket cfg s.mem b with
  | (m, .ok _) => let r := s.upl.create b k md; (⟨m, r.1⟩, .ok r.2)
  | (m, .err c) => (⟨m, s.upl⟩, .err c)
  | (m, .panic p) => (⟨m, s.upl⟩, .panic p)

/-- `putMultipartUploadPart` -/
def uploadPartSrv (md5 : Bytes → Bytes) (ucfg : UploadCfg) (s : Srv) (b : Bytes) (k : Key) (id : Nat) (rq : PartReq) : Srv × Res Bytes :=
  let r := uploadPartReq md5 ucfg s.upl b k id rq
  (⟨s.mem, r.1⟩, r.2)

/-- `completeMultipartUpload` -/
def completeUpload (md5 : Bytes → Bytes) (s : Srv) (b : Bytes) (k : Key) (id : Nat) (listed : List (Int × Bytes)) :
    Srv × Res (Option Nat × Bytes) :=
  let r := s.upl.complete md5 s.mem b k id listed
  (⟨r.2.1, r.1⟩, r.2.2)

/-- `abortMultipartUpload` -/
def abortUpload (s : Srv) (b : Bytes) (k : Key) (id : Nat) : Srv × Res Unit :=
  let r := s.upl.abort b k id
  (⟨s.mem, r.1⟩, r.2)

/-- `listMultipartUploadParts`: ensureBucketExists, then the uploader's listing -/
def listPartsReq (cfg : Cfg) (s : Srv) (b : Bytes) (k : Key) (id : Nat) (marker : Nat) (limit : Int) : Srv × Res Upl.PartList :=
  match ensureBucket cfg s.mem b with
  | (m, .ok _) => (⟨m, s.upl⟩, s.upl.listParts b k id marker limit)
  | (m, .err c) => (⟨m, s.upl⟩, .err c)
  | (m, .panic p) => (⟨m, s.upl⟩, .panic p)

/-- `listMultipartUploads` -/
def listUploadsReq (cfg : Cfg) (s : Srv) (b : Bytes) (p : Prefix) (km : Bytes) (im : Option Nat) (limit : Int) :
    Srv × Res Upl.UploadList :=
  match ensureBucket cfg s.mem b with
  | (m, .ok _) => (⟨m, s.upl⟩, s.upl.listUploads b p km im limit)
  | (m, .err c) => (⟨m, s.upl⟩, .err c)
  | (m, .panic p) => (⟨m, s.upl⟩, .panic p)

end Front
end GFS.Model
