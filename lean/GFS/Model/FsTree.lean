import GFS.Base.Bytes
/-
  backend/s3afero: the directory tree below one bucket, as the object handlers shape it
  (multi.go / single.go PutObject, deleteObjectLocked; util.go validKey, checkKeyConflict).
  A key that passed `validKey` is a clean relative path; it is modelled as its list of segments.
  The metadata files live in a separate tree and are not part of this model.
-/
namespace GFS.Model.Fs
open GFS

abbrev Path := List Bytes

/-- the tree below a bucket's directory: regular files with their bytes, and directories -/
structure Tree where
  files : List (Path × Bytes)
  dirs  : List Path
deriving Repr

def Tree.empty : Tree := ⟨[], []⟩

def isFile (t : Tree) (p : Path) : Bool := t.files.any (fun f => f.1 == p)
def isDir (t : Tree) (p : Path) : Bool := t.dirs.contains p
def content (t : Tree) (p : Path) : Option Bytes := (t.files.find? (fun f => f.1 == p)).map (·.2)

/-- `ReadDir(p)` is non-empty: some file or directory has `p` as its parent -/
def hasEntries (t : Tree) (p : Path) : Bool :=
  t.files.any (fun f => !f.1.isEmpty && f.1.dropLast == p) || t.dirs.any (fun d => !d.isEmpty && d.dropLast == p)

/-- the directories a path needs: its proper, non-empty prefixes (`path.Dir` repeatedly, up to
    but not including the bucket's own directory) -/
def ancestors : Path → List Path
  | [] => []
  | s :: rest => (ancestors rest |>.map (s :: ·)) ++ (if rest.isEmpty then [] else [[s]])

/-- `checkKeyConflict`, `MkdirAll`, `Create` (truncating), write: `none` = refused as
    InvalidArgument (the key is a directory, or one of its parents is an object) -/
def put (t : Tree) (k : Path) (body : Bytes) : Option Tree :=
  if k.isEmpty then none
  else if isDir t k then none
  else if (ancestors k).any (isFile t) then none
  else some { files := t.files.filter (fun f => !(f.1 == k)) ++ [(k, body)],
              dirs := t.dirs ++ (ancestors k).filter (fun a => !isDir t a) }

/-- the pruning loop of `deleteObjectLocked`: remove `dir` while it is below the bucket and empty -/
def prune (t : Tree) : (fuel : Nat) → Path → Tree
  | 0, _ => t
  | fuel + 1, dir =>
    if dir.isEmpty then t
    else if hasEntries t dir then t
    else prune { t with dirs := t.dirs.filter (fun d => !(d == dir)) } fuel dir.dropLast

/-- `deleteObjectLocked`: a directory is not an object (nothing happens); the file is removed if
    it is there; then the directories it leaves empty are removed -/
def delete (t : Tree) (k : Path) : Tree :=
  if k.isEmpty then t
  else if isDir t k then t
  else prune { t with files := t.files.filter (fun f => !(f.1 == k)) } k.length k.dropLast

end GFS.Model.Fs

namespace GFS.Model.Fs
open GFS

/-- `validKey` (util.go): not empty, not "." or "..", no leading "../" or "/", and
    `path.Clean(key) == key` — for such keys: every '/'-separated segment is non-empty and is
    neither "." nor ".." -/
def keyPath (k : Bytes) : Option Path :=
  if k.isEmpty then none
  else
    let segs := Bytes.splitOn1 47 k
    if segs.all (fun s => !s.isEmpty && s != [46] && s != [46, 46]) then some segs else none

/-- `PutObject` on a bucket's tree: InvalidArgument for an invalid or conflicting key -/
def putKey (t : Tree) (k : Bytes) (body : Bytes) : Option Tree :=
  match keyPath k with
  | none => none
  | some p => put t p body

/-- `deleteObjectLocked`: `none` = InvalidArgument (invalid key) -/
def deleteKey (t : Tree) (k : Bytes) : Option Tree :=
  match keyPath k with
  | none => none
  | some p => some (delete t p)

/-- GET: the bytes of the object file, if the key is valid and names a regular file -/
def getKey (t : Tree) (k : Bytes) : Option Bytes :=
  match keyPath k with
  | none => none
  | some p => content t p

end GFS.Model.Fs
