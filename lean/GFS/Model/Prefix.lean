import GFS.Base.Bytes
/-
  prefix.go: `Prefix.Match` for a single-byte delimiter (multi-byte delimiters are
  outside the modelled domain; the statement of C03 names '/' and other single characters).
-/
namespace GFS.Model
open GFS GFS.Bytes

structure Prefix where
  hasPrefix : Bool
  pfx       : Bytes
  hasDelim  : Bool
  delim     : UInt8
deriving Repr, DecidableEq

/-- `prefixFromQuery`: a present-but-empty prefix or delimiter counts as absent -/
def Prefix.ofQuery (pfx : Option Bytes) (delim : Option UInt8) : Prefix :=
  { hasPrefix := match pfx with | some p => !p.isEmpty | none => false
    pfx := pfx.getD []
    hasDelim := delim.isSome
    delim := delim.getD 0 }

/-- the `for i := 0; i < len(preParts); i++` loop of `Match`: all but the last prefix part
    must equal the key part, the last must be a string prefix of it -/
def partsMatch : List Bytes → List Bytes → Bool
  | _, [] => true
  | [], _ :: _ => false
  | k :: _, [p] => Bytes.hasPrefix k p
  | k :: ks, p :: q :: ps => k == p && partsMatch ks (q :: ps)

/-- `Prefix.Match(key, &match)`: `none` = no match, `some (commonPrefix, matchedPart)` -/
def Prefix.match_ (p : Prefix) (key : Bytes) : Option (Bool × Bytes) :=
  if !p.hasPrefix && !p.hasDelim then some (false, key)
  else if !p.hasDelim then
    if Bytes.hasPrefix key p.pfx then some (false, p.pfx) else none
  else
    let d := p.delim
    let keyParts := splitOn1 d (trimLeft1 d key)
    let preParts := splitOn1 d (trimLeft1 d p.pfx)
    if keyParts.length < preParts.length then none
    else if !partsMatch keyParts preParts then none
    else
      let out := join1 d (keyParts.take preParts.length) ++
        (if keyParts.length != preParts.length then [d] else [])
      some (out != key, out)

end GFS.Model
