import GFS.Model.Front
/-
  uploader.go: the in-memory multipart bookkeeping every backend shares (after the repairs of
  D7, D8, D20).  Upload ids are the decimal counter.
-/
namespace GFS.Model
open GFS

structure Part where
  body : Bytes
  hash : Bytes        -- md5 of the body; the ETag is its quoted hex form
deriving Repr, DecidableEq

structure MPU where
  id     : Nat
  bucket : Bytes
  key    : Key
  md     : Meta
  parts  : List (Option Part)     -- indexed by part number; index 0 is never filled
deriving Repr, DecidableEq

/-- `bucketUploads`: uploads by id, and per object key the ids in initiation order -/
structure BUps where
  uploads : List (Nat × MPU)
  index   : SMap (List Nat)
deriving Repr

structure Upl where
  buckets : SMap BUps
  nextId  : Nat
deriving Repr

def Upl.empty : Upl := ⟨[], 0⟩

def MaxUploadPartNumber : Nat := 10000

namespace BUps
def find (bu : BUps) (id : Nat) : Option MPU := (bu.uploads.find? (·.1 == id)).map (·.2)

def add (bu : BUps) (m : MPU) : BUps :=
  { uploads := bu.uploads.filter (fun p => !(p.1 == m.id)) ++ [(m.id, m)]
    index := SMap.insert bu.index m.key ((SMap.find bu.index m.key).getD [] ++ [m.id]) }

def set (bu : BUps) (m : MPU) : BUps :=
  { bu with uploads := bu.uploads.map (fun p => if p.1 == m.id then (p.1, m) else p) }

def remove (bu : BUps) (m : MPU) : BUps :=
  let ids := ((SMap.find bu.index m.key).getD []).filter (fun i => !(i == m.id))
  { uploads := bu.uploads.filter (fun p => !(p.1 == m.id))
    index := if ids.isEmpty then SMap.erase bu.index m.key else SMap.insert bu.index m.key ids }
end BUps

namespace Upl

/-- `getUnlocked` -/
def get (u : Upl) (b : Bytes) (k : Key) (id : Nat) : Res (BUps × MPU) :=
  match SMap.find u.buckets b with
  | none => .err .NoSuchUpload
  | some bu =>
    match bu.find id with
    | none => .err .NoSuchUpload
    | some m => if m.bucket == b && m.key == k then .ok (bu, m) else .err .NoSuchUpload

def create (u : Upl) (b : Bytes) (k : Key) (md : Meta) : Upl × Nat :=
  let id := u.nextId + 1
  let bu := (SMap.find u.buckets b).getD ⟨[], []⟩
  ({ buckets := SMap.insert u.buckets b (bu.add ⟨id, b, k, md, []⟩), nextId := id }, id)

/-- grow the slice so that index `n` exists, then store the part -/
def setPart (parts : List (Option Part)) (n : Nat) (p : Part) : List (Option Part) :=
  let grown := if n ≥ parts.length then parts ++ List.replicate (n - parts.length + 1) none else parts
  grown.set n (some p)

/-- `UploadPart` (the body already read; `declared` = Content-Length) -/
def uploadPart (md5 : Bytes → Bytes) (u : Upl) (b : Bytes) (k : Key) (id : Nat) (n : Nat) (declared : Int) (body : Bytes) :
    Upl × Res Bytes :=
  if n > MaxUploadPartNumber then (u, .err .InvalidPart)
  else if (body.length : Int) ≠ declared then (u, .err .IncompleteBody)
  else match u.get b k id with
    | .err c => (u, .err c)
    | .panic s => (u, .panic s)
    | .ok (bu, m) =>
      let m' := { m with parts := setPart m.parts n ⟨body, md5 body⟩ }
      ({ u with buckets := SMap.insert u.buckets b (bu.set m') }, .ok (md5 body))

def abort (u : Upl) (b : Bytes) (k : Key) (id : Nat) : Upl × Res Unit :=
  match u.get b k id with
  | .err c => (u, .err c)
  | .panic s => (u, .panic s)
  | .ok (bu, m) => ({ u with buckets := SMap.insert u.buckets b (bu.remove m) }, .ok ())

/-- `sort.IntsAreSorted` on the listed part numbers (non-decreasing) -/
def sortedInts : List Int → Bool
  | a :: b :: rest => decide (a ≤ b) && sortedInts (b :: rest)
  | _ => true

/-- `strings.Trim(etag, "\"")` -/
def trimQuotes (e : Bytes) : Bytes := Bytes.trim1 34 e

/-- the check loop of `CompleteMultipartUpload`: every listed part exists with that ETag -/
def checkParts (parts : List (Option Part)) : List (Int × Bytes) → Res (List Part)
  | [] => .ok []
  | (n, etag) :: rest =>
    if n < 1 ∨ n ≥ parts.length then .err .InvalidPart
    else match parts[n.toNat]? with
      | some (some p) =>
        if trimQuotes etag != Bytes.hexLower p.hash then .err .InvalidPart
        else match checkParts parts rest with
          | .ok ps => .ok (p :: ps)
          | e => e
      | _ => .err .InvalidPart

/-- decimal digits of a count, as bytes -/
def natBytes (n : Nat) : Bytes := (toString n).toUTF8.toList

/-- ETag of the assembled object: hex(md5(md5(p1)…md5(pn))) "-" n -/
def mpEtag (md5 : Bytes → Bytes) (ps : List Part) : Bytes :=
  Bytes.hexLower (md5 (ps.map (·.hash)).flatten) ++ [45] ++ natBytes ps.length

/-- the checks `CompleteMultipartUpload` makes before touching anything -/
def validate (m : MPU) (listed : List (Int × Bytes)) : Res (List Part) :=
  if listed.length > m.parts.length then .err .InvalidPart
  else if !sortedInts (listed.map (·.1)) then .err .InvalidPartOrder
  else checkParts m.parts listed

/-- `CompleteMultipartUpload`: returns (version id, ETag) -/
def complete (md5 : Bytes → Bytes) (u : Upl) (mem : Mem) (b : Bytes) (k : Key) (id : Nat) (listed : List (Int × Bytes)) :
    Upl × Mem × Res (Option Nat × Bytes) :=
  match u.get b k id with
  | .err c => (u, mem, .err c)
  | .panic s => (u, mem, .panic s)
  | .ok (bu, m) =>
    match validate m listed with
    | .err c => (u, mem, .err c)
    | .panic s => (u, mem, .panic s)
    | .ok ps =>
      match mem.put md5 b k m.md (ps.map (·.body)).flatten with
      | (mem', .ok vid) =>
        ({ u with buckets := SMap.insert u.buckets b (bu.remove m) }, mem', .ok (vid, mpEtag md5 ps))
      | (mem', .err c) => (u, mem', .err c)
      | (mem', .panic s) => (u, mem', .panic s)

/-! ### listings -/

structure PartItem where
  number : Nat
  size   : Nat
  hash   : Bytes
deriving Repr, DecidableEq

structure PartList where
  parts     : List PartItem
  truncated : Bool
  next      : Nat
deriving Repr, DecidableEq

/-- the `for idx, part := range mpu.parts[marker:]` loop -/
def listPartsLoop (limit : Int) : List (Option Part) → (number : Nat) → (cnt : Int) → List PartItem → PartList
  | [], _, _, acc => ⟨acc, false, 0⟩
  | none :: rest, n, cnt, acc => listPartsLoop limit rest (n + 1) cnt acc
  | some p :: rest, n, cnt, acc =>
    if cnt ≥ limit then ⟨acc, true, n⟩
    else listPartsLoop limit rest (n + 1) (cnt + 1) (acc ++ [⟨n, p.body.length, p.hash⟩])

def listParts (u : Upl) (b : Bytes) (k : Key) (id : Nat) (marker : Nat) (limit : Int) : Res PartList :=
  match u.get b k id with
  | .err c => .err c
  | .panic s => .panic s
  | .ok (_, m) =>
    let mk := if marker > m.parts.length then m.parts.length else marker
    .ok (listPartsLoop limit (m.parts.drop mk) mk 0 [])

structure UploadItem where
  key : Key
  id  : Nat
deriving Repr, DecidableEq

structure UploadList where
  uploads   : List UploadItem
  prefixes  : List Bytes
  truncated : Bool
  nextKey   : Bytes
  nextId    : Option Nat
deriving Repr, DecidableEq

/-- the `done:` loop: is there a further matching key that would add something to the listing —
    an upload, or a common prefix not reported yet (`seen`)? -/
def moreAfter (p : Prefix) (seen : List Bytes) : List (Key × List Nat) → Option (Key × Option Nat)
  | [] => none
  | (k, ids) :: rest =>
    match p.match_ k with
    | some (false, _) => some (k, ids.head?)
    | some (true, mp) => if seen.contains mp then moreAfter p seen rest else some (k, ids.head?)
    | none => moreAfter p seen rest

/-- the main loop of `ListMultipartUploads`.  `pending` = the upload id the marker names and
    that has not been reached yet (`firstFound = false`). -/
def listUploadsLoop (p : Prefix) (limit : Int) :
    List (Key × List Nat) → (pending : Option Nat) → (cnt : Int) → UploadList → UploadList
  | [], _, _, acc => acc
  | (k, ids) :: rest, pending, cnt, acc =>
    match p.match_ k with
    | none => listUploadsLoop p limit rest pending cnt acc
    | some (cp, mp) =>
      -- resolve the marker id inside this key's uploads (the `goto retry`)
      let (ids', pending', skip) : List Nat × Option Nat × Bool :=
        match pending with
        | none => (ids, none, false)
        | some pid =>
          if ids.contains pid then (ids.dropWhile (fun i => !(i == pid)), none, false)
          else (ids, some pid, true)
      if skip then listUploadsLoop p limit rest pending' cnt acc
      else if cp then
        listUploadsLoop p limit rest pending' cnt
          (if acc.prefixes.contains mp then acc else { acc with prefixes := acc.prefixes ++ [mp] })
      else
        -- append this key's uploads until the limit is hit
        let rec take (is : List Nat) (cnt : Int) (acc : UploadList) : UploadList × Int × Bool :=
          match is with
          | [] => (acc, cnt, false)
          | i :: more =>
            let acc1 := { acc with uploads := acc.uploads ++ [⟨k, i⟩] }
            if cnt + 1 ≥ limit then
              match more with
              | [] => (acc1, cnt + 1, true)
              | j :: _ => ({ acc1 with truncated := true, nextKey := k, nextId := some j }, cnt + 1, true)
            else take more (cnt + 1) acc1
        let (acc2, cnt2, stop) := take ids' cnt acc
        if stop then
          if acc2.truncated then acc2
          else match moreAfter p acc2.prefixes rest with
            | some (nk, nid) => { acc2 with truncated := true, nextKey := nk, nextId := nid }
            | none => acc2
        else listUploadsLoop p limit rest pending' cnt2 acc2

/-- `ListMultipartUploads(bucket, marker, prefix, limit)`; `markerKey = []` = no marker -/
def listUploads (u : Upl) (b : Bytes) (p : Prefix) (markerKey : Bytes) (markerId : Option Nat) (limit : Int) : Res UploadList :=
  match SMap.find u.buckets b with
  | none => .err .NoSuchUpload
  | some bu =>
    let entries := if markerKey.isEmpty then bu.index else bu.index.filter (fun q => !Bytes.lt q.1 markerKey)
    let pending := if markerKey.isEmpty then none else markerId
    .ok (listUploadsLoop p limit entries pending 0 ⟨[], [], false, [], none⟩)

end Upl
end GFS.Model
