import GFS.Base.SMap
import GFS.Base.Res
import GFS.Model.Prefix
import GFS.Model.Range
/-
  backend/s3mem (backend.go, bucket.go) as a state machine.  Mutation through pointers
  becomes a new value; `obj.data == nil` is representable so that the nil dereferences of
  the Go code are explicit `Res.panic` outcomes; the version-id generator is a counter.
-/
namespace GFS.Model
open GFS

abbrev Key := Bytes
abbrev Meta := SMap Bytes

/-- `bucketData` (time dropped) -/
structure Ver where
  id     : Nat
  marker : Bool
  body   : Bytes
  hash   : Bytes
  md   : Meta
deriving Repr, DecidableEq

/-- `bucketObject`: current version and archived versions (ascending by id) -/
structure Obj where
  data     : Option Ver
  versions : List Ver
deriving Repr, DecidableEq

inductive VStatus where
  | none | enabled | suspended
deriving Repr, DecidableEq

structure Bucket where
  versioning : VStatus
  objects    : SMap Obj
deriving Repr, DecidableEq

structure Mem where
  buckets : SMap Bucket
  nextVer : Nat          -- `versionGenerator.next`
deriving Repr

def Mem.empty : Mem := ⟨[], 0⟩

/-- `MergeMetadata`: new headers win, the existing object's other headers are carried over -/
def mergeMeta (new old : Meta) : Meta :=
  old.foldl (fun acc (p : Bytes × Bytes) => if (SMap.find acc p.1).isSome then acc else SMap.insert acc p.1 p.2) new

/-- insert into the ascending list of archived versions (`versions.Set(id, data)`) -/
def insertVer (vs : List Ver) (v : Ver) : List Ver :=
  match vs with
  | [] => [v]
  | w :: ws => if w.id == v.id then v :: ws else if v.id < w.id then v :: w :: ws else w :: insertVer ws v

/-- `bucketObject.promote` (after the D4 repair): when the current version is gone, the newest
    archived version becomes current -/
def Obj.promote (o : Obj) : Obj :=
  match o.data with
  | some _ => o
  | none =>
    match o.versions.getLast? with
    | none => o
    | some last => { data := some last, versions := o.versions.dropLast }

namespace Bucket

/-- `bucket.put`: always draws a fresh id; archives the current version only when Enabled -/
def put (b : Bucket) (name : Key) (item : Ver) : Bucket :=
  let object : Obj := (SMap.find b.objects name).getD ⟨none, []⟩
  let versions :=
    if b.versioning == .enabled then
      match object.data with
      | some d => insertVer object.versions d
      | none => object.versions
    else object.versions
  { b with objects := SMap.insert b.objects name ⟨some item, versions⟩ }

/-- `bucket.rm`: result = (isDeleteMarker, versionId) and whether an id was drawn -/
def rm (b : Bucket) (name : Key) (freshId : Nat) : Bucket × Bool × Option Nat × Bool :=
  match SMap.find b.objects name with
  | none => (b, false, none, false)
  | some object =>
    if b.versioning == .enabled then
      (b.put name ⟨freshId, true, [], [], []⟩, true, some freshId, true)
    else
      let o' := ({ object with data := none } : Obj).promote
      match o'.data with
      | none => ({ b with objects := SMap.erase b.objects name }, false, none, false)
      | some _ => ({ b with objects := SMap.insert b.objects name o' }, false, none, false)

/-- put an updated object back, or drop the key when nothing of it is left -/
def storeObj (b : Bucket) (name : Key) (o : Obj) : Bucket :=
  if o.data.isNone && o.versions.isEmpty then { b with objects := SMap.erase b.objects name }
  else { b with objects := SMap.insert b.objects name o }

/-- `bucket.rmVersion`: result = (isDeleteMarker, versionId) -/
def rmVersion (b : Bucket) (name : Key) (vid : Nat) : Bucket × Bool × Option Nat :=
  match SMap.find b.objects name with
  | none => (b, false, none)
  | some object =>
    let (o1, res) : Obj × (Bool × Option Nat) :=
      match object.data with
      | some d =>
        if d.id == vid then (({ object with data := none } : Obj).promote, (d.marker, some vid))
        else match object.versions.find? (·.id == vid) with
          | some v => ({ object with versions := object.versions.filter (fun w => !(w.id == vid)) }, (v.marker, some vid))
          | none => (object, (false, none))
      | none =>
        match object.versions.find? (·.id == vid) with
        | some v => ({ object with versions := object.versions.filter (fun w => !(w.id == vid)) }, (v.marker, some vid))
        | none => (object, (false, none))
    (b.storeObj name o1, res.1, res.2)

/-- `bucket.objectVersion` for a non-empty version id -/
def objectVersion (b : Bucket) (name : Key) (vid : Nat) : Res Ver :=
  match SMap.find b.objects name with
  | none => .err .NoSuchKey
  | some o =>
    match o.data with
    | some d => if d.id == vid then .ok d else
        match o.versions.find? (·.id == vid) with
        | some v => .ok v
        | none => .err .NoSuchVersion
    | none =>
        match o.versions.find? (·.id == vid) with
        | some v => .ok v
        | none => .err .NoSuchVersion

end Bucket

namespace Mem

def bucketExists (m : Mem) (b : Bytes) : Bool := (SMap.find m.buckets b).isSome

def createBucket (m : Mem) (b : Bytes) : Mem × Res Unit :=
  if (SMap.find m.buckets b).isSome then (m, .err .BucketAlreadyExists)
  else ({ m with buckets := SMap.insert m.buckets b ⟨.none, []⟩ }, .ok ())

def deleteBucket (m : Mem) (b : Bytes) : Mem × Res Unit :=
  match SMap.find m.buckets b with
  | none => (m, .err .NoSuchBucket)
  | some bk =>
    if !bk.objects.isEmpty then (m, .err .BucketNotEmpty)
    else ({ m with buckets := SMap.erase m.buckets b }, .ok ())

def forceDeleteBucket (m : Mem) (b : Bytes) : Mem × Res Unit :=
  match SMap.find m.buckets b with
  | none => (m, .err .NoSuchBucket)
  | some _ => ({ m with buckets := SMap.erase m.buckets b }, .ok ())

def listBuckets (m : Mem) : List Bytes := SMap.keys m.buckets

/-- the current version as `HeadObject`/`GetObject` find it; `obj.data == nil` is a nil
    dereference in the Go code -/
def current (m : Mem) (b : Bytes) (k : Key) : Res Ver :=
  match SMap.find m.buckets b with
  | none => .err .NoSuchBucket
  | some bk =>
    match SMap.find bk.objects k with
    | none => .err .NoSuchKey
    | some o =>
      match o.data with
      | none => .panic .nilDeref
      | some d => if d.marker then .err .NoSuchKey else .ok d

/-- `HeadObject` -/
def head (m : Mem) (b : Bytes) (k : Key) : Res Ver := current m b k

/-- the version id `GetObject` reports: masked unless versioning is Enabled -/
def visibleVid (m : Mem) (b : Bytes) (v : Ver) : Option Nat :=
  match SMap.find m.buckets b with
  | some bk => if bk.versioning == .enabled then some v.id else none
  | none => none

/-- `GetObject` without a range -/
def get (m : Mem) (b : Bytes) (k : Key) : Res Ver := current m b k

/-- `MergeMetadata(db, bucket, key, meta)`: errors of the lookup are ignored -/
def mergedMeta (m : Mem) (b : Bytes) (k : Key) (md : Meta) : Meta :=
  match current m b k with
  | .ok old => mergeMeta md old.md
  | _ => md

/-- the part of `PutObject` that runs under the write lock: draw the id, store the item -/
def putCommit (md5 : Bytes → Bytes) (m : Mem) (b : Bytes) (k : Key) (md' : Meta) (body : Bytes) :
    Mem × Res (Option Nat) :=
  match SMap.find m.buckets b with
  | none => (m, .err .NoSuchBucket)
  | some bk =>
    let id := m.nextVer + 1
    let bk' := bk.put k ⟨id, false, body, md5 body, md'⟩
    ({ buckets := SMap.insert m.buckets b bk', nextVer := id },
      .ok (if bk.versioning == .enabled then some id else none))

/-- `PutObject` once the body has been read: merge metadata (before the lock), commit -/
def put (md5 : Bytes → Bytes) (m : Mem) (b : Bytes) (k : Key) (md : Meta) (body : Bytes) :
    Mem × Res (Option Nat) :=
  putCommit md5 m b k (mergedMeta m b k md) body

/-- `DeleteObject`: (isDeleteMarker, versionId) -/
def delete (m : Mem) (b : Bytes) (k : Key) : Mem × Res (Bool × Option Nat) :=
  match SMap.find m.buckets b with
  | none => (m, .err .NoSuchBucket)
  | some bk =>
    let (bk', isMk, vid, drew) := bk.rm k (m.nextVer + 1)
    ({ buckets := SMap.insert m.buckets b bk', nextVer := if drew then m.nextVer + 1 else m.nextVer }, .ok (isMk, vid))

/-- `DeleteMulti`: every key is reported as deleted -/
def deleteMulti (m : Mem) (b : Bytes) (ks : List Key) : Mem × Res (List Key) :=
  match SMap.find m.buckets b with
  | none => (m, .err .NoSuchBucket)
  | some _ =>
    (ks.foldl (fun acc k => (delete acc b k).1) m, .ok ks)

/-- `DeleteObjectVersion` -/
def deleteVersion (m : Mem) (b : Bytes) (k : Key) (vid : Nat) : Mem × Res (Bool × Option Nat) :=
  match SMap.find m.buckets b with
  | none => (m, .err .NoSuchBucket)
  | some bk =>
    let (bk', isMk, v) := bk.rmVersion k vid
    ({ m with buckets := SMap.insert m.buckets b bk' }, .ok (isMk, v))

/-- `DeleteMultiVersions` -/
def deleteMultiVersions (m : Mem) (b : Bytes) (objs : List (Key × Option Nat)) : Mem × Res Unit :=
  match SMap.find m.buckets b with
  | none => (m, .err .NoSuchBucket)
  | some _ =>
    (objs.foldl (fun acc (p : Key × Option Nat) =>
        match p.2 with
        | some vid => (deleteVersion acc b p.1 vid).1
        | none => (delete acc b p.1).1) m, .ok ())

def versioning (m : Mem) (b : Bytes) : Res VStatus :=
  match SMap.find m.buckets b with
  | none => .err .NoSuchBucket
  | some bk => .ok bk.versioning

/-- `SetVersioningConfiguration` / `bucket.setVersioning` -/
def setVersioning (m : Mem) (b : Bytes) (enabled : Bool) : Mem × Res Unit :=
  match SMap.find m.buckets b with
  | none => (m, .err .NoSuchBucket)
  | some bk =>
    let v := if enabled then VStatus.enabled
             else if bk.versioning == .enabled then VStatus.suspended else bk.versioning
    ({ m with buckets := SMap.insert m.buckets b { bk with versioning := v } }, .ok ())

/-- `GetObjectVersion` / `HeadObjectVersion` with a non-empty version id -/
def getVersion (m : Mem) (b : Bytes) (k : Key) (vid : Nat) : Res Ver :=
  match SMap.find m.buckets b with
  | none => .err .NoSuchBucket
  | some bk => bk.objectVersion k vid

end Mem
end GFS.Model
