import GFS.Model.FsTree
import GFS.Model.Front
import GFS.Spec.S3
import GFS.Model.Bolt
/-
  backend/s3afero MultiBucketBackend (multi.go, meta.go, util.go) at the level of the
  `gofakes3.Backend` interface, for bucket names that pass the create-bucket rule (the HTTP
  front end admits no others; `BucketExists`, `ListBuckets` and `ListBucket` validate the name
  themselves).

  A bucket is its directory tree (Model/FsTree: object files with their bytes, directories) and
  the bucket's part of the metadata store.  The metadata store is keyed here by the object key
  itself: the file name the code derives (flattened key + FNV-128a of the key) is assumed
  injective (DESIGN.md, trusted base).  A stored digest is always the MD5 of the object file
  (written by PutObject, recomputed by loadMeta whenever size or mtime disagree), so it is not
  kept: it is `md5 body`.  JSON encoding is the identity.
-/
namespace GFS.Model.FsB
open GFS GFS.Model

structure Bkt where
  tree : Fs.Tree
  mds  : SMap Meta          -- object key ↦ stored headers

/-- the file system below `buckets/` and `metadata/` -/
structure FsS where
  buckets : SMap Bkt

def FsS.empty : FsS := ⟨[]⟩

structure FObj where
  body : Bytes
  hash : Bytes
  md   : Meta
deriving DecidableEq

/-- `BucketExists`: the name is validated first ("." and ".." would alias the root) -/
def bucketExists (s : FsS) (b : Bytes) : Bool :=
  validateBucketName b && (SMap.find s.buckets b).isSome

/-- `ListBuckets`: the directories below `buckets/` whose names are bucket names, by name -/
def listBuckets (s : FsS) : List Bytes := (SMap.keys s.buckets).filter validateBucketName

/-- `CreateBucket` -/
def createBucket (s : FsS) (b : Bytes) : FsS × Res Unit :=
  match SMap.find s.buckets b with
  | some _ => (s, .err .BucketAlreadyExists)
  | none => (⟨SMap.insert s.buckets b ⟨Fs.Tree.empty, []⟩⟩, .ok ())

/-- `ReadDir(bucket)` is non-empty: some object file or directory sits directly in the bucket -/
def hasTopEntries (t : Fs.Tree) : Bool :=
  t.files.any (fun f => f.1.length == 1) || t.dirs.any (fun d => d.length == 1)

/-- `DeleteBucket`: an absent bucket surfaces the raw error of ReadDir (an internal error at the
    interface; over HTTP `ensureBucketExists` answers NoSuchBucket first) -/
def deleteBucket (s : FsS) (b : Bytes) : FsS × Res Unit :=
  match SMap.find s.buckets b with
  | none => (s, .err .Internal)
  | some bk =>
    if hasTopEntries bk.tree then (s, .err .BucketNotEmpty)
    else (⟨SMap.erase s.buckets b⟩, .ok ())

/-- `ForceDeleteBucket` -/
def forceDeleteBucket (s : FsS) (b : Bytes) : FsS × Res Unit :=
  match SMap.find s.buckets b with
  | none => (s, .err .Internal)
  | some _ => (⟨SMap.erase s.buckets b⟩, .ok ())

/-- `HeadObject` / `GetObject` without a range: an invalid key, a missing file and a directory
    are all NoSuchKey; missing metadata reads as no headers -/
def getObject (md5 : Bytes → Bytes) (s : FsS) (b k : Bytes) : Res FObj :=
  match SMap.find s.buckets b with
  | none => .err .NoSuchBucket
  | some bk =>
    match Fs.getKey bk.tree k with
    | none => .err .NoSuchKey
    | some body => .ok ⟨body, md5 body, (SMap.find bk.mds k).getD []⟩

/-- `MergeMetadata`: errors of the lookup are ignored -/
def mergedMeta (md5 : Bytes → Bytes) (s : FsS) (b k : Bytes) (md : Meta) : Meta :=
  match getObject md5 s b k with
  | .ok old => mergeMeta md old.md
  | _ => md

/-- `PutObject` once the body has been read: key validity first, then the metadata merge, then
    (under the lock) bucket existence, the conflict check, MkdirAll, Create, write, saveMeta -/
def putObject (md5 : Bytes → Bytes) (s : FsS) (b k : Bytes) (md : Meta) (body : Bytes) : FsS × Res Unit :=
  match Fs.keyPath k with
  | none => (s, .err .InvalidArgument)
  | some p =>
    let md' := mergedMeta md5 s b k md
    match SMap.find s.buckets b with
    | none => (s, .err .NoSuchBucket)
    | some bk =>
      match Fs.put bk.tree p body with
      | none => (s, .err .InvalidArgument)
      | some t' => (⟨SMap.insert s.buckets b ⟨t', SMap.insert bk.mds k md'⟩⟩, .ok ())

/-- `deleteObjectLocked`: `none` = InvalidArgument; a directory is not an object (nothing
    happens, the metadata store is not touched either) -/
def deleteIn (bk : Bkt) (k : Bytes) : Option Bkt :=
  match Fs.keyPath k with
  | none => none
  | some p =>
    if Fs.isDir bk.tree p then some bk
    else some ⟨Fs.delete bk.tree p, SMap.erase bk.mds k⟩

/-- `DeleteObject` -/
def deleteObject (s : FsS) (b k : Bytes) : FsS × Res Unit :=
  match SMap.find s.buckets b with
  | none => (s, .err .NoSuchBucket)
  | some bk =>
    match deleteIn bk k with
    | none => (s, .err .InvalidArgument)
    | some bk' => (⟨SMap.insert s.buckets b bk'⟩, .ok ())

/-- `DeleteMulti`: (keys reported deleted, keys reported with an error) -/
def deleteMulti (s : FsS) (b : Bytes) (ks : List Bytes) : FsS × Res (List Bytes × List Bytes) :=
  match SMap.find s.buckets b with
  | none => (s, .err .NoSuchBucket)
  | some bk =>
    let r := ks.foldl (fun (acc : Bkt × List Bytes × List Bytes) k =>
      match deleteIn acc.1 k with
      | none => (acc.1, acc.2.1, acc.2.2 ++ [k])
      | some bk' => (bk', acc.2.1 ++ [k], acc.2.2)) (bk, [], [])
    (⟨SMap.insert s.buckets b r.1⟩, .ok (r.2.1, r.2.2))

/-- `CopyObject` = the `gofakes3.CopyObject` helper -/
def copyObject (md5 : Bytes → Bytes) (s : FsS) (sb sk dstB dstK : Bytes) (md : Meta) : FsS × Res Bytes :=
  match getObject md5 s sb sk with
  | .err c => (s, .err c)
  | .panic x => (s, .panic x)
  | .ok src =>
    match putObject md5 s dstB dstK md src.body with
    | (s', .ok _) => (s', .ok src.hash)
    | (s', .err c) => (s', .err c)
    | (s', .panic x) => (s', .panic x)

end GFS.Model.FsB

/-! ### the gofakes3.go handlers over this backend, for the alphabet of the reference model -/
namespace GFS.Model.FsB
open GFS GFS.Model

def withBucket {α} (s : FsS) (b : Bytes) (f : Unit → FsS × Res α) : FsS × Res α :=
  if bucketExists s b then f () else (s, .err .NoSuchBucket)

inductive HOut where
  | unit
  | object (o : FObj)
  | names (l : List Bytes)
  | keys (deleted failed : List Bytes)
  | hash (h : Bytes)
deriving DecidableEq

def lift {α} (r : FsS × Res α) (f : α → HOut) : FsS × Res HOut :=
  match r with
  | (s, .ok a) => (s, .ok (f a))
  | (s, .err c) => (s, .err c)
  | (s, .panic x) => (s, .panic x)

/-- one request of the reference alphabet as gofakes3.go serves it on the multi-bucket fs backend -/
def handle (md5 : Bytes → Bytes) (s : FsS) : Spec.S3.Op → FsS × Res HOut
  | .createBucket b =>
    if !validateBucketName b then (s, .err .InvalidBucketName) else lift (createBucket s b) fun _ => .unit
  | .headBucket b => withBucket s b fun _ => (s, .ok .unit)
  | .deleteBucket b => withBucket s b fun _ => lift (deleteBucket s b) fun _ => .unit
  | .listBuckets => (s, .ok (.names (listBuckets s)))
  | .put b k body => withBucket s b fun _ =>
      if k.length > Front.KeySizeLimit then (s, .err .KeyTooLong)
      else lift (putObject md5 s b k [] body) fun _ => .hash (md5 body)
  | .get b k | .head b k => withBucket s b fun _ => lift (s, getObject md5 s b k) fun o => .object o
  | .delete b k => withBucket s b fun _ => lift (deleteObject s b k) fun _ => .unit
  | .deleteMulti b ks => withBucket s b fun _ => lift (deleteMulti s b ks) fun r => .keys r.1 r.2
  | .copy sb sk dstB dstK => withBucket s dstB fun _ =>
      if dstK.length > Front.KeySizeLimit then (s, .err .KeyTooLong)
      else match getObject md5 s sb sk with
        | .err c => (s, .err c)
        | .panic x => (s, .panic x)
        | .ok src =>
          lift (copyObject md5 s sb sk dstB dstK (mergeMeta [] (src.md.filter (fun p => !(p.1 == Front.aclKey))))) fun h => .hash h

end GFS.Model.FsB

/-! ### listings -/
namespace GFS.Model.FsB
open GFS GFS.Model

/-- the key of an object file: its path joined with '/' -/
def keyOf (p : Fs.Path) : Bytes := Bytes.join1 47 p

/-- the object files of a bucket by key, in ascending key order — what `afero.Walk` visits,
    after the `sort.Slice` that follows; the digest is the one `loadMeta` answers with -/
def objMap (md5 : Bytes → Bytes) (bk : Bkt) : SMap Bolt.BVal :=
  bk.tree.files.foldl (fun m f => SMap.insert m (keyOf f.1) (.obj ⟨f.2, md5 f.2, []⟩)) []

/-- `sort.Slice(response.CommonPrefixes, …)` on the de-duplicated prefixes -/
def sortBytes (l : List Bytes) : List Bytes := SMap.keys (l.foldl (fun (m : SMap Unit) x => SMap.insert m x ()) [])

/-- `getBucketWithArbitraryPrefixLocked` (no delimiter, or a delimiter other than '/'; after
    fix 721d405): every object file is matched against the prefix, a key with the delimiter
    after the prefix goes to the common prefixes, then both lists are sorted -/
def listWalk (md5 : Bytes → Bytes) (bk : Bkt) (p : Prefix) : ObjectList :=
  let r := Bolt.listLoop p (objMap md5 bk) ⟨[], [], false, []⟩
  { r with prefixes := sortBytes r.prefixes }

end GFS.Model.FsB

namespace GFS.Model.FsB
open GFS GFS.Model

/-- `strings.LastIndexByte(s, c)` -/
def lastIndexOf (c : UInt8) : Bytes → Option Nat
  | [] => none
  | x :: xs =>
    match lastIndexOf c xs with
    | some i => some (i + 1)
    | none => if x == c then some 0 else none

/-- `Prefix.FilePrefix()` when the delimiter is '/': the directory part and the remaining part
    of the prefix -/
def filePrefix (p : Prefix) : Bytes × Bytes :=
  if !p.hasPrefix then ([], [])
  else match lastIndexOf 47 p.pfx with
    | none => ([], p.pfx)
    | some i => (p.pfx.take i, p.pfx.drop (i + 1))

/-- `getBucketWithFilePrefixLocked` (delimiter '/'): the directory part of the prefix must be a
    clean relative path (else nothing is listed) and a directory (else nothing is listed); its
    entries whose names start with the remaining part are listed — files as Contents (ReadDir
    returns them by name, i.e. by key), directories as CommonPrefixes `path/name/` (sorted) -/
def listDir (md5 : Bytes → Bytes) (bk : Bkt) (p : Prefix) : ObjectList :=
  let pp := (filePrefix p).1
  let part := (filePrefix p).2
  let dir : Option Fs.Path := if pp.isEmpty then some [] else Fs.keyPath pp
  match dir with
  | none => ⟨[], [], false, []⟩
  | some P =>
    if !(P.isEmpty || Fs.isDir bk.tree P) then ⟨[], [], false, []⟩
    else
      let inDir (f : Fs.Path) : Bool := !f.isEmpty && f.dropLast == P && Bytes.hasPrefix (f.getLast?.getD []) part
      { contents := (objMap md5 bk).filterMap (fun q =>
          if inDir (Bytes.splitOn1 47 q.1) then
            (match q.2 with
             | .obj o => some ⟨q.1, o.body.length, o.hash⟩
             | .bucketRec => none)
          else none),
        prefixes := sortBytes ((bk.tree.dirs.filter inDir).map (fun d => keyOf d ++ [47])),
        truncated := false, next := [] }

end GFS.Model.FsB

/-! ### SingleBucketBackend (single.go): one fixed bucket whose directory is the root of the file
    system it was given; the object code is a copy of the multi-bucket backend's with the bucket
    test `bucketName != db.name` in front -/
namespace GFS.Model.FsB.Single
open GFS GFS.Model GFS.Model.FsB

/-- the store of a single-bucket backend named `name` -/
def init (name : Bytes) : FsS := ⟨[(name, ⟨Fs.Tree.empty, []⟩)]⟩

def bucketExists (name b : Bytes) : Bool := b == name
def listBuckets (name : Bytes) : List Bytes := [name]
/-- `CreateBucket` / `DeleteBucket` cannot be implemented by this backend -/
def createBucket (s : FsS) : FsS × Res Unit := (s, .err .NotImplemented)
def deleteBucket (s : FsS) : FsS × Res Unit := (s, .err .NotImplemented)

/-- `ForceDeleteBucket`: every object is deleted (with its metadata), the root stays -/
def forceDeleteBucket (name : Bytes) (s : FsS) (b : Bytes) : FsS × Res Unit :=
  if b != name then (s, .err .NoSuchBucket) else (⟨SMap.insert s.buckets name ⟨Fs.Tree.empty, []⟩⟩, .ok ())

def getObject (md5 : Bytes → Bytes) (name : Bytes) (s : FsS) (b k : Bytes) : Res FObj :=
  if b != name then .err .NoSuchBucket else FsB.getObject md5 s b k

def putObject (md5 : Bytes → Bytes) (name : Bytes) (s : FsS) (b k : Bytes) (md : Meta) (body : Bytes) : FsS × Res Unit :=
  if b != name then (s, .err .NoSuchBucket) else FsB.putObject md5 s b k md body

def deleteObject (name : Bytes) (s : FsS) (b k : Bytes) : FsS × Res Unit :=
  if b != name then (s, .err .NoSuchBucket) else FsB.deleteObject s b k

def deleteMulti (name : Bytes) (s : FsS) (b : Bytes) (ks : List Bytes) : FsS × Res (List Bytes × List Bytes) :=
  if b != name then (s, .err .NoSuchBucket) else FsB.deleteMulti s b ks

/-- `CopyObject` = the helper over this backend's own GetObject and PutObject -/
def copyObject (md5 : Bytes → Bytes) (name : Bytes) (s : FsS) (sb sk dstB dstK : Bytes) (md : Meta) : FsS × Res Bytes :=
  match getObject md5 name s sb sk with
  | .err c => (s, .err c)
  | .panic x => (s, .panic x)
  | .ok src =>
    match putObject md5 name s dstB dstK md src.body with
    | (s', .ok _) => (s', .ok src.hash)
    | (s', .err c) => (s', .err c)
    | (s', .panic x) => (s', .panic x)

end GFS.Model.FsB.Single
