import GFS.Base.Bytes
/-
  gofakes3.go `hostBucketMiddleware`, `hostBucketBaseMiddleware`, and the path split of
  routing.go `routeBase`.
-/
namespace GFS.Model
open GFS GFS.Bytes

/-- `strings.SplitN(host, ".", 2)[0]` -/
def firstLabel (host : Bytes) : Bytes := host.takeWhile (fun c => !(c == 46))

/-- "/" + bucket, plus the original path unless it is exactly "/" -/
def withBucket (bucket path : Bytes) : Bytes :=
  47 :: bucket ++ (if path == [47] then [] else path)

/-- `hostBucketMiddleware`: every request is rewritten -/
def hostRewrite (host path : Bytes) : Bytes := withBucket (firstLabel host) path

/-- bases are normalised to "." + strings.Trim(base, ".") -/
def normBase (base : Bytes) : Bytes := 46 :: trim1 46 base

/-- `matchBucket`: the first configured base that is a suffix of the host and leaves a dot-free
    label -/
def matchBucket (bases : List Bytes) (host : Bytes) : Option Bytes :=
  match bases with
  | [] => none
  | base :: rest =>
    let nb := normBase base
    if hasSuffix host nb then
      let bucket := host.take (host.length - nb.length)
      if bucket.contains 46 then matchBucket rest host else some bucket
    else matchBucket rest host

/-- `hostBucketBaseMiddleware` -/
def baseRewrite (bases : List Bytes) (host path : Bytes) : Bytes :=
  match matchBucket bases host with
  | some bucket => withBucket bucket path
  | none => path

/-- the precedence in `Server()`: bases win over the plain host-bucket option -/
def serverRewrite (hostBucket : Bool) (bases : List Bytes) (host path : Bytes) : Bytes :=
  if !bases.isEmpty then baseRewrite bases host path
  else if hostBucket then hostRewrite host path
  else path

/-- `routeBase`: `strings.Trim(path, "/")`, then `SplitN(…, "/", 2)` → (bucket, object) -/
def routeSplit (path : Bytes) : Bytes × Bytes :=
  let p := trim1 47 path
  match indexOf 47 p with
  | none => (p, [])
  | some i => (p.take i, p.drop (i + 1))

end GFS.Model
