import GFS.Base.SMap
import GFS.Base.Res
import GFS.Model.Mem
/-
  backend/s3afero at the level of what is on disk for one object key: the object file (bytes and
  modification time) and the key's record in the metadata store (meta.go `Metadata`: Size,
  ModTime, Hash, Meta).  `PutObject` and `deleteObjectLocked` are sequences of file-system calls;
  a killed process leaves the state after a prefix of them (`PutCut`, `DelCut`), the last call
  possibly half done (a write that delivered only a prefix of its buffer).  `load` is
  `metaStore.loadMeta` as `GetObject`/`HeadObject`/the listings call it after a restart: a record
  that is missing, unparsable, without a hash, or whose size or mod time disagrees with the file
  (beyond the resolution `r` of the file system's clock) is rebuilt from the file; the user
  headers of the old record are kept.

  Time is whatever the file system's clock says: a natural number per call, no assumption of
  monotonicity in the model; theorems that need "the new write is later than the old record by
  more than the resolution" say so.
-/
namespace GFS.Model.FsDisk
open GFS GFS.Model

structure FileSt where
  body  : Bytes
  mtime : Nat
deriving Repr, DecidableEq

/-- meta.go `Metadata` (File is informational only) -/
structure MetaRec where
  size  : Nat
  mtime : Nat
  hash  : Bytes
  md    : Meta
deriving Repr, DecidableEq

/-- what the disk holds for one key; `mrec = none`: no record, or one that does not parse -/
structure Slot where
  file : Option FileSt
  mrec : Option MetaRec
deriving Repr, DecidableEq

def Slot.absent : Slot := ⟨none, none⟩

/-- what a read reports -/
structure Obs where
  body : Bytes
  hash : Bytes
  md   : Meta
deriving Repr, DecidableEq

/-- the zero `Metadata` value loadMeta starts from when nothing could be read -/
def MetaRec.zero : MetaRec := ⟨0, 0, [], []⟩

/-- the staleness test of loadMeta: `len(meta.Hash) == 0 || meta.Size != size ||
    modDiff < -modRes || modDiff > modRes` -/
def stale (r : Nat) (f : FileSt) (m : MetaRec) : Bool :=
  m.hash.isEmpty || m.size != f.body.length || decide (m.mtime + r < f.mtime) || decide (f.mtime + r < m.mtime)

/-- `GetObject`/`HeadObject` on the slot: the file's bytes with the record's hash and headers,
    the record rebuilt (and saved) first when it is stale -/
def load (md5 : Bytes → Bytes) (r : Nat) (s : Slot) : Slot × Res Obs :=
  match s.file with
  | none => (s, .err .NoSuchKey)
  | some f =>
    let m0 := s.mrec.getD MetaRec.zero
    if stale r f m0 then
      let m1 : MetaRec := { m0 with size := f.body.length, mtime := f.mtime, hash := md5 f.body }
      (⟨some f, some m1⟩, .ok ⟨f.body, m1.hash, m1.md⟩)
    else (s, .ok ⟨f.body, m0.hash, m0.md⟩)

/-- how far a `PutObject` got (multi.go / single.go: Create, Write, Close, Stat, saveMeta =
    WriteFile = OpenFile(O_TRUNC) + Write) -/
inductive PutCut where
  | beforeCreate            -- checks, MkdirAll
  | afterCreate             -- the destination is truncated
  | midWrite (n : Nat)      -- the write delivered only the first n bytes
  | afterWrite              -- the object file is complete, the old record still in place
  | metaTruncated           -- the record file is truncated or half written
  | done
deriving Repr, DecidableEq

/-- the slot a `PutObject body md` cut at `c` leaves (`now`: the clock at the last call that
    touched the object file) -/
def putCut (md5 : Bytes → Bytes) (now : Nat) (s : Slot) (body : Bytes) (md : Meta) : PutCut → Slot
  | .beforeCreate => s
  | .afterCreate => ⟨some ⟨[], now⟩, s.mrec⟩
  | .midWrite n => ⟨some ⟨body.take n, now⟩, s.mrec⟩
  | .afterWrite => ⟨some ⟨body, now⟩, s.mrec⟩
  | .metaTruncated => ⟨some ⟨body, now⟩, none⟩
  | .done => ⟨some ⟨body, now⟩, some ⟨body.length, now, md5 body, md⟩⟩

/-- how far a `deleteObjectLocked` got (Remove the file, then deleteMeta) -/
inductive DelCut where
  | beforeRemove | afterRemove | done
deriving Repr, DecidableEq

def delCut (s : Slot) : DelCut → Slot
  | .beforeRemove => s
  | .afterRemove => ⟨none, s.mrec⟩
  | .done => ⟨none, none⟩

/-! ### a bucket on disk: key ↦ slot -/

abbrev Disk := SMap Slot

def slotOf (d : Disk) (k : Bytes) : Slot := (SMap.find d k).getD Slot.absent

inductive Op where
  | put (k : Bytes) (body : Bytes) (md : Meta) (now : Nat)
  | del (k : Bytes)
  | get (k : Bytes)          -- a read may rewrite the record
deriving Repr

/-- one completed (acknowledged) operation -/
def step (md5 : Bytes → Bytes) (r : Nat) (d : Disk) : Op → Disk
  | .put k body md now => SMap.insert d k (putCut md5 now (slotOf d k) body md .done)
  | .del k => SMap.insert d k (delCut (slotOf d k) .done)
  | .get k => SMap.insert d k (load md5 r (slotOf d k)).1

def run (md5 : Bytes → Bytes) (r : Nat) (d : Disk) (ops : List Op) : Disk := ops.foldl (step md5 r) d

/-- an operation the kill interrupted -/
inductive Cut where
  | put (k : Bytes) (body : Bytes) (md : Meta) (now : Nat) (c : PutCut)
  | del (k : Bytes) (c : DelCut)

def Cut.key : Cut → Bytes
  | .put k _ _ _ _ => k
  | .del k _ => k

def crash (md5 : Bytes → Bytes) (d : Disk) : Cut → Disk
  | .put k body md now c => SMap.insert d k (putCut md5 now (slotOf d k) body md c)
  | .del k c => SMap.insert d k (delCut (slotOf d k) c)

/-- what a client reads for `k` once a server has been started on the disk -/
def readKey (md5 : Bytes → Bytes) (r : Nat) (d : Disk) (k : Bytes) : Res Obs := (load md5 r (slotOf d k)).2

end GFS.Model.FsDisk
