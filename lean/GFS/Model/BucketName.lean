import GFS.Base.Bytes
import GFS.Base.Res
import GFS.Model.ParseInt
/-
  validation.go `ValidateBucketName`, check for check.
-/
namespace GFS.Model
open GFS GFS.Bytes

def isLower (c : UInt8) : Bool := 97 ≤ c && c ≤ 122
def alnum (c : UInt8) : Bool := isLower c || isDigit c
/-- the middle class of the pattern, `[a-z0-9\.-]` -/
def midc (c : UInt8) : Bool := alnum c || c == 46 || c == 45

/-- `bucketNamePattern.MatchString`: `^[a-z0-9]([a-z0-9\.-]+)[a-z0-9]$` -/
def patMatch (s : Bytes) : Bool :=
  decide (3 ≤ s.length) && s.head?.any alnum && s.getLast?.any alnum && s.all midc

/-- one field of a dotted quad as Go's `net.ParseIP` accepts it: 1–3 digits, no leading
    zero unless the field is "0", value ≤ 255 -/
def octet (f : Bytes) : Bool :=
  !f.isEmpty && decide (f.length ≤ 3) && f.all isDigit &&
  (decide (f.length = 1) || f.head? != some 48) &&
  (match digitsVal f 0 with | some v => decide (v ≤ 255) | none => false)

/-- `net.ParseIP(name) != nil` on the alphabet the pattern lets through (no ':'):
    exactly four dot-separated octets -/
def isIPv4 (s : Bytes) : Bool :=
  let fs := splitOn1 46 s
  decide (fs.length = 4) && fs.all octet

/-- `ValidateBucketName(name) == nil` -/
def validateBucketName (s : Bytes) : Bool :=
  if s.length < 3 ∨ s.length > 63 then false
  else if !patMatch s then false
  else if isIPv4 s then false
  else (splitOn1 46 s).all patMatch

end GFS.Model
