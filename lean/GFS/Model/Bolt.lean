import GFS.Model.Front
import GFS.Spec.S3
/-
  backend/s3bolt (backend.go, schema.go) at the level of the `gofakes3.Backend` interface.

  The bolt database is modelled as what the code sees of it: a sorted map of top-level bolt
  buckets, each a sorted map from keys to values; `Update(fn)` commits what `fn` did only
  when `fn` returns nil (rollback otherwise) and `View(fn)` never changes anything.  One of
  the top-level buckets, `_meta`, is the backend's own bookkeeping: it holds a record under
  `bucket/<name>` for every S3 bucket.  BSON encoding of the values is the identity here
  (trusted: exercised by the correspondence, not modelled).

  bbolt's own rules that the code relies on or runs into are explicit: a bucket cannot be
  created with an empty name or twice, `Put` refuses an empty key (and a key above
  `MaxKeySize`), `Get`/`Delete` of an absent key are not errors, cursors run in byte order.
-/
namespace GFS.Model.Bolt
open GFS GFS.Model

/-- `boltObject` (Name, LastModified dropped; Size is the length of Contents) -/
structure BObj where
  body : Bytes
  hash : Bytes
  md   : Meta
deriving Repr, DecidableEq

/-- a value stored in a bolt bucket: an object, or the record of an S3 bucket in `_meta` -/
inductive BVal where
  | obj (o : BObj)
  | bucketRec
deriving Repr, DecidableEq

/-- the database file: top-level bolt buckets by name -/
abbrev DB := SMap (SMap BVal)

def DB.empty : DB := []

/-- `metaBucketName` -/
def metaName : Bytes := [95, 109, 101, 116, 97]                      -- "_meta"
/-- `bucketMetaKey(name)` = "bucket/" + name -/
def metaKey (name : Bytes) : Bytes := [98, 117, 99, 107, 101, 116, 47] ++ name

/-- bbolt `MaxKeySize` -/
def maxKeySize : Nat := 32768

/-- `db.bolt.Update(fn)`: the changes are kept only when `fn` succeeds -/
def update {α} (db : DB) (fn : DB → DB × Res α) : DB × Res α :=
  match fn db with
  | (db', .ok a) => (db', .ok a)
  | (_, .err c) => (db, .err c)
  | (_, .panic s) => (db, .panic s)

/-- `tx.CreateBucketIfNotExists(name)` for a non-empty name -/
def ensureTop (db : DB) (name : Bytes) : DB :=
  match SMap.find db name with
  | some _ => db
  | none => SMap.insert db name []

/-- `bucket.Put(key, value)` of bbolt inside top-level bucket `top` (which exists) -/
def boltPut (db : DB) (top : Bytes) (key : Bytes) (v : BVal) : DB × Res Unit :=
  match SMap.find db top with
  | none => (db, .panic .nilDeref)
  | some kv =>
    if key.isEmpty || key.length > maxKeySize then (db, .err .Internal)
    else (SMap.insert db top (SMap.insert kv key v), .ok ())

/-- `bucket.Delete(key)` of bbolt: an absent key is not an error -/
def boltDelete (db : DB) (top : Bytes) (key : Bytes) : DB :=
  match SMap.find db top with
  | none => db
  | some kv => SMap.insert db top (SMap.erase kv key)

/-- `s3Bucket(tx, name)`: the bolt bucket holding the objects of S3 bucket `name`; the
    bookkeeping bucket is not an S3 bucket (fix: 0b7eacc) -/
def s3Bucket (db : DB) (name : Bytes) : Option (SMap BVal) :=
  if name == metaName then none else SMap.find db name

/-- `ListBuckets`: every top-level bucket except the bookkeeping one, in cursor order -/
def listBuckets (db : DB) : List Bytes := (SMap.keys db).filter (fun n => !(n == metaName))

/-- `BucketExists` -/
def bucketExists (db : DB) (name : Bytes) : Bool :=
  if name == metaName then false else (SMap.find db name).isSome

/-- `CreateBucket`: the record in `_meta` is written first, the existence check follows; the
    rollback of `Update` undoes the record when the bucket exists -/
def createBucket (db : DB) (name : Bytes) : DB × Res Unit :=
  update db fun db =>
    let db1 := ensureTop db metaName
    match boltPut db1 metaName (metaKey name) .bucketRec with
    | (db2, .ok _) =>
      if (SMap.find db2 name).isSome then (db2, .err .BucketAlreadyExists)
      else if name.isEmpty then (db2, .err .Internal)          -- bbolt: ErrBucketNameRequired
      else (SMap.insert db2 name [], .ok ())
    | (db2, .err c) => (db2, .err c)
    | (db2, .panic s) => (db2, .panic s)

/-- the "delete bucket metadata" block: in a writable transaction `metaBucket` creates `_meta`
    when it is missing, then the record is deleted -/
def dropRecord (db : DB) (name : Bytes) : DB :=
  boltDelete (ensureTop db metaName) metaName (metaKey name)

/-- `DeleteBucket` -/
def deleteBucket (db : DB) (name : Bytes) : DB × Res Unit :=
  if name == metaName then (db, .err .InvalidBucketName)
  else update db fun db =>
    match SMap.find db name with
    | none => (db, .err .NoSuchBucket)
    | some kv =>
      if !kv.isEmpty then (db, .err .BucketNotEmpty)
      else (SMap.erase (dropRecord db name) name, .ok ())

/-- `ForceDeleteBucket` -/
def forceDeleteBucket (db : DB) (name : Bytes) : DB × Res Unit :=
  if name == metaName then (db, .err .InvalidBucketName)
  else update db fun db =>
    match SMap.find db name with
    | none => (db, .err .NoSuchBucket)
    | some _ => (SMap.erase (dropRecord db name) name, .ok ())

/-- `GetObject` (no range) / `HeadObject` -/
def getObject (db : DB) (bucket key : Bytes) : Res BObj :=
  match s3Bucket db bucket with
  | none => .err .NoSuchBucket
  | some kv =>
    match SMap.find kv key with
    | none => .err .NoSuchKey
    | some (.obj o) => .ok o
    | some .bucketRec => .ok ⟨[], [], []⟩          -- a bucket record decoded as an object: all fields zero (unreachable, see BoltR.Inv)

/-- `MergeMetadata(db, bucket, key, meta)`; the lookup's errors are ignored -/
def mergedMeta (db : DB) (bucket key : Bytes) (md : Meta) : Meta :=
  match getObject db bucket key with
  | .ok old => mergeMeta md old.md
  | _ => md

/-- `PutObject` once the body has been read (`ReadAll` is modelled in Model/Upload) -/
def putObject (md5 : Bytes → Bytes) (db : DB) (bucket key : Bytes) (md : Meta) (body : Bytes) : DB × Res Unit :=
  let md' := mergedMeta db bucket key md
  update db fun db =>
    match s3Bucket db bucket with
    | none => (db, .err .NoSuchBucket)
    | some _ => boltPut db bucket key (.obj ⟨body, md5 body, md'⟩)

/-- `DeleteObject` -/
def deleteObject (db : DB) (bucket key : Bytes) : DB × Res Unit :=
  update db fun db =>
    match s3Bucket db bucket with
    | none => (db, .err .NoSuchBucket)
    | some _ => (boltDelete db bucket key, .ok ())

/-- `DeleteMulti`: every key is reported as deleted -/
def deleteMulti (db : DB) (bucket : Bytes) (keys : List Bytes) : DB × Res (List Bytes) :=
  update db fun db =>
    match s3Bucket db bucket with
    | none => (db, .err .NoSuchBucket)
    | some _ => (keys.foldl (fun acc k => boltDelete acc bucket k) db, .ok keys)

/-- `CopyObject` = the `gofakes3.CopyObject` helper: GetObject then PutObject; answers the
    source's stored digest -/
def copyObject (md5 : Bytes → Bytes) (db : DB) (sb sk dstB dstK : Bytes) (md : Meta) : DB × Res Bytes :=
  match getObject db sb sk with
  | .err c => (db, .err c)
  | .panic s => (db, .panic s)
  | .ok src =>
    match putObject md5 db dstB dstK md src.body with
    | (db', .ok _) => (db', .ok src.hash)
    | (db', .err c) => (db', .err c)
    | (db', .panic s) => (db', .panic s)

/-- the cursor loop of `ListBucket` -/
def listLoop (p : Prefix) : List (Bytes × BVal) → ObjectList → ObjectList
  | [], acc => acc
  | (k, v) :: rest, acc =>
    match p.match_ k with
    | none => listLoop p rest acc
    | some (cp, mp) =>
      let o : BObj := match v with | .obj o => o | .bucketRec => ⟨[], [], []⟩
      listLoop p rest (addEntry acc cp mp ⟨k, o.body.length, o.hash⟩)

/-- `ListBucket` with an empty page (a non-empty page is refused before anything is read) -/
def listBucket (db : DB) (bucket : Bytes) (p : Prefix) : Res ObjectList :=
  match s3Bucket db bucket with
  | none => .err .NoSuchBucket
  | some kv => .ok (listLoop p kv ⟨[], [], false, []⟩)

end GFS.Model.Bolt

/-! ### the gofakes3.go handlers over this backend, for the alphabet of the reference model -/
namespace GFS.Model.Bolt
open GFS GFS.Model

/-- `ensureBucketExists` without auto-bucket -/
def withBucket {α} (db : DB) (b : Bytes) (f : Unit → DB × Res α) : DB × Res α :=
  if bucketExists db b then f () else (db, .err .NoSuchBucket)

inductive HOut where
  | unit
  | object (o : BObj)
  | names (l : List Bytes)
  | keys (l : List Bytes)
  | hash (h : Bytes)
deriving Repr, DecidableEq

def lift {α} (r : DB × Res α) (f : α → HOut) : DB × Res HOut :=
  match r with
  | (db, .ok a) => (db, .ok (f a))
  | (db, .err c) => (db, .err c)
  | (db, .panic s) => (db, .panic s)

/-- one request of the reference alphabet (Spec.S3.Op), as gofakes3.go serves it on s3bolt:
    `createBucket` validates the name, every other bucket-addressed handler starts with
    `ensureBucketExists`; copy heads the source and merges its metadata first -/
def handle (md5 : Bytes → Bytes) (db : DB) : Spec.S3.Op → DB × Res HOut
  | .createBucket b =>
    if !validateBucketName b then (db, .err .InvalidBucketName) else lift (createBucket db b) fun _ => .unit
  | .headBucket b => withBucket db b fun _ => (db, .ok .unit)
  | .deleteBucket b => withBucket db b fun _ => lift (deleteBucket db b) fun _ => .unit
  | .listBuckets => (db, .ok (.names (listBuckets db)))
  | .put b k body => withBucket db b fun _ =>
      if k.length > Front.KeySizeLimit then (db, .err .KeyTooLong)
      else lift (putObject md5 db b k [] body) fun _ => .hash (md5 body)
  | .get b k | .head b k => withBucket db b fun _ => lift (db, getObject db b k) fun o => .object o
  | .delete b k => withBucket db b fun _ => lift (deleteObject db b k) fun _ => .unit
  | .deleteMulti b ks => withBucket db b fun _ => lift (deleteMulti db b ks) fun l => .keys l
  | .copy sb sk dstB dstK => withBucket db dstB fun _ =>
      if dstK.length > Front.KeySizeLimit then (db, .err .KeyTooLong)
      else match getObject db sb sk with
        | .err c => (db, .err c)
        | .panic s => (db, .panic s)
        | .ok src =>
          lift (copyObject md5 db sb sk dstB dstK (mergeMeta [] (src.md.filter (fun p => !(p.1 == Front.aclKey))))) fun h => .hash h

end GFS.Model.Bolt
