import GFS.Model.Upload
import GFS.Model.Uploader
/-
  gofakes3.go `putMultipartUploadPart` down to `uploader.UploadPart`, in source order: part
  number, Content-Length, the Content-MD5 header (integrity checking on), then the body read
  through the hashing reader (`io.ReadAll`: the digest is compared when the body ends), the
  length check, and only then the lookup of the pending upload.
-/
namespace GFS.Model
open GFS

structure PartReq where
  partNumber    : Option Int       -- `strconv.ParseInt(partNumber)`; `none` = not a number
  contentLength : Option Bytes     -- raw Content-Length header
  md5           : Md5Hdr
  body          : Bytes
deriving Repr

namespace Front

/-- the digest the hashing reader will verify: only with integrity checking on, only when the
    header carries a well-formed digest -/
def expectedOf (ucfg : UploadCfg) (mh : Md5Hdr) : Option Bytes :=
  if ucfg.integrity then (match mh with | .digest d => some d | _ => none) else none

/-- everything decided before the uploader's state is looked at -/
def partChecks (md5 : Bytes → Bytes) (ucfg : UploadCfg) (rq : PartReq) : Res (Nat × Int) :=
  match rq.partNumber with
  | none => .err .InvalidPart
  | some n =>
    if n ≤ 0 ∨ n > MaxUploadPartNumber then .err .InvalidPart
    else match rq.contentLength.bind parseInt64 with
      | none => .err .MissingContentLength
      | some size =>
        if size ≤ 0 then .err .MissingContentLength
        else if ucfg.integrity && rq.md5 == .empty then .err .InvalidDigest
        else if ucfg.integrity && rq.md5 == .malformed then .err .InvalidDigest
        else
          if !digestOk md5 rq.body (expectedOf ucfg rq.md5) then .err .BadDigest
          else if (rq.body.length : Int) ≠ size then .err .IncompleteBody
          else .ok (n.toNat, size)

/-- `putMultipartUploadPart` -/
def uploadPartReq (md5 : Bytes → Bytes) (ucfg : UploadCfg) (u : Upl) (b : Bytes) (k : Key) (id : Nat) (rq : PartReq) :
    Upl × Res Bytes :=
  match partChecks md5 ucfg rq with
  | .err c => (u, .err c)
  | .panic s => (u, .panic s)
  | .ok (n, size) => u.uploadPart md5 b k id n size rq.body

end Front
end GFS.Model
