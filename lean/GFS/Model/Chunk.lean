import GFS.Base.Bytes
import GFS.Base.I64
/-
  chunk.go `chunkedReader.Read`, branch for branch, over an inner reader whose
  fragmentation (how the transport splits the byte stream into reads) is an arbitrary
  parameter.

  Inner reader: the remaining input is a flat byte string; `cut r = true` means "a read
  that would leave exactly `r` bytes unread stops there" (a fragment boundary).  A read
  asking for `k > 0` bytes returns the bytes up to the first boundary, `k` bytes or the
  end of input, whichever comes first — never 0 bytes unless the input is exhausted.
-/
namespace GFS.Model.Chunk
open GFS

/-- how the stream ends once all input is consumed -/
inductive Tail where
  | eof      -- io.EOF
  | fail     -- any other error (connection reset, …)
deriving Repr, DecidableEq

/-- error a `Read` can end with -/
inductive End where
  | eof | fail | scan   -- scan = malformed chunk header (non-EOF error of Fscanf)
  | short               -- ErrIncompleteBody: the stream ended before its terminating zero-size chunk was read to its end
deriving Repr, DecidableEq

def Tail.toEnd : Tail → End
  | .eof => .eof
  | .fail => .fail

structure Cfg where
  cut  : Nat → Bool
  tail : Tail
  /-- the read that drains the input reports the end together with its data -/
  endWithData : Bool

/-- number of bytes an inner `Read` of `k` bytes returns when `input` is left:
    at least 1 (for non-empty input, `k>0`), at most `k`, stopping at a boundary -/
def readLen (cut : Nat → Bool) : (avail k : Nat) → Nat
  | 0, _ => 0
  | _, 0 => 0
  | a + 1, k + 1 => if cut a then 1 else 1 + readLen cut a k

/-- `io.CopyN(ioutil.Discard, inner, k)`: `none` = fewer than `k` bytes were available -/
def skip (k : Nat) (input : Bytes) : Option Bytes :=
  if k ≤ input.length then some (input.drop k) else none

def isHex (c : UInt8) : Bool :=
  (48 ≤ c && c ≤ 57) || (97 ≤ c && c ≤ 102) || (65 ≤ c && c ≤ 70)

def hexDigitVal (c : UInt8) : Nat :=
  if 48 ≤ c && c ≤ 57 then c.toNat - 48
  else if 97 ≤ c && c ≤ 102 then c.toNat - 87
  else c.toNat - 55

/-- the white space `Fscanf` skips before a verb (ASCII; '\n' is an error instead) -/
def isScanSpace (c : UInt8) : Bool := c == 9 || c == 11 || c == 12 || c == 13 || c == 32

inductive ScanRes where
  | ok (v : Int) (rest : Bytes)
  | eof                       -- io.EOF: no more input where a number should start
  | err                       -- any other error
  | unknown                   -- a byte ≥ 0x80 where the model does not follow `fmt`
deriving Repr, DecidableEq

def skipScanSpace : Bytes → Bytes
  | [] => []
  | c :: cs => if isScanSpace c then skipScanSpace cs else c :: cs

/-- hex digits, accumulating -/
def scanDigits : Bytes → Nat → Nat × Bytes
  | [], acc => (acc, [])
  | c :: cs, acc => if isHex c then scanDigits cs (acc * 16 + hexDigitVal c) else (acc, c :: cs)

/-- `fmt.Fscanf(inner, "%x;", &chunkSize)`: leading blanks, optional sign, one or more hex
    digits, value in int64, then a literal ';'.  Consumes exactly up to and including ';'. -/
def scanHexSemi (input : Bytes) : ScanRes :=
  match skipScanSpace input with
  | [] => .eof
  | c :: cs =>
    if c ≥ 128 then .unknown
    else if c == 10 then .err
    else
      let (neg, body) := if c == 43 then (false, cs) else if c == 45 then (true, cs) else (false, c :: cs)
      match body with
      | [] => .eof
      | d :: ds =>
        if d ≥ 128 then .unknown
        else if !isHex d then .err
        else
          let (v, rest) := scanDigits (d :: ds) 0
          let ok := if neg then v ≤ 9223372036854775808 else v ≤ 9223372036854775807
          if !ok then .err
          else match rest with
            | [] => .err
            | s :: rest' =>
              if s ≥ 128 then .unknown
              else if s == 59 then .ok (if neg then -(v : Int) else v) rest'
              else .err

structure St where
  remain   : Int
  notFirst : Bool
  /-- `lastChunkSize`: the size field of the chunk header read last -/
  last     : Int := -1
  /-- `complete`: the terminating zero-size chunk has been read to its end -/
  complete : Bool := false
deriving Repr, DecidableEq

def St.init : St := { remain := 0, notFirst := false }

/-- result of one `Read(p)` call -/
structure ReadRes where
  out   : Bytes          -- the `n` bytes placed in `p`
  st    : St
  input : Bytes          -- what is left of the inner stream
  err   : Option End     -- `none` = nil error
  unk   : Bool           -- the model gave up on a header (`unknown`)

/-- `chunkedReader.Read(p)` with `len(p) = want`.  `fuel` bounds the loop; `Read`
    terminates because every iteration consumes input or returns. -/
def read (cfg : Cfg) : (fuel : Nat) → St → Bytes → (want : Nat) → Bytes → ReadRes
  | 0, st, input, _, acc => ⟨acc, st, input, none, false⟩
  | fuel + 1, st, input, want, acc =>
    if want = 0 then ⟨acc, st, input, none, false⟩
    else if st.remain > 0 then
      -- both data branches: ask for min(want, remain) bytes
      let k := if st.remain > want then want else st.remain.toNat
      match input with
      | [] => ⟨acc, st, input, some cfg.tail.toEnd, false⟩
      | _ :: _ =>
        let n := readLen cfg.cut input.length k
        let got := input.take n
        let rest := input.drop n
        let st' : St := { st with remain := st.remain - n }
        if rest.isEmpty && cfg.endWithData then
          ⟨acc ++ got, st', rest, some cfg.tail.toEnd, false⟩
        else
          read cfg fuel st' rest (want - n) (acc ++ got)
    else
      -- header branch
      let afterTrailer : Option Bytes := if st.notFirst then skip 2 input else some input
      match afterTrailer with
      | none => ⟨acc, { st with notFirst := true }, [], some cfg.tail.toEnd, false⟩
      | some inp1 =>
        -- after the CRLF of a zero-size chunk the stream is complete (`r.complete = r.lastChunkSize == 0`)
        let st1 : St := if st.notFirst then { st with complete := st.last == 0 } else st
        match scanHexSemi inp1 with
        | .unknown => ⟨acc, st1, inp1, some .scan, true⟩
        | .eof => ⟨acc, { st1 with notFirst := true }, [], some cfg.tail.toEnd, false⟩
        | .err => ⟨acc, { st1 with notFirst := true }, [], some .scan, false⟩
        | .ok v inp2 =>
          -- a further chunk header: `r.lastChunkSize = chunkSize; r.complete = false`
          match skip 82 inp2 with
          | none => ⟨acc, { remain := v, notFirst := true, last := v, complete := false }, [], some cfg.tail.toEnd, false⟩
          | some inp3 => read cfg fuel { remain := v, notFirst := true, last := v, complete := false } inp3 want acc

/-- `chunkedReader.Read`: the loop above (`r.read`), and an end of the inner stream before the
    terminating zero-size chunk has been read to its end is an incomplete body -/
def readF (cfg : Cfg) (fuel : Nat) (st : St) (input : Bytes) (want : Nat) (acc : Bytes) : ReadRes :=
  let r := read cfg fuel st input want acc
  if r.err = some .eof ∧ r.st.complete = false then { r with err := some .short } else r

/-- a consumer that calls `Read` with the given buffer sizes until an error is returned
    (or the sizes run out): everything delivered, and how it ended -/
def consume (cfg : Cfg) : List Nat → St → Bytes → Bytes → Bytes × Option End × Bool
  | [], _, _, acc => (acc, none, false)
  | b :: bs, st, input, acc =>
    let r := readF cfg (input.length + 2) st input b []
    match r.err with
    | some e => (acc ++ r.out, some e, r.unk)
    | none => consume cfg bs r.st r.input (acc ++ r.out)

def decode (cfg : Cfg) (bufs : List Nat) (input : Bytes) : Bytes × Option End × Bool :=
  consume cfg bufs St.init input []

end GFS.Model.Chunk
