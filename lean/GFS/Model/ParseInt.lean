import GFS.Base.Bytes
import GFS.Base.I64
/-
  `strconv.ParseInt(s, 10, 64)` (and bit size 0 on a 64-bit platform):
  optional sign, one or more decimal digits, value in int64.  `none` = error.
-/
namespace GFS.Model
open GFS

def isDigit (c : UInt8) : Bool := 48 ≤ c && c ≤ 57

/-- value of a non-empty all-digit string, accumulating left to right -/
def digitsVal : Bytes → Nat → Option Nat
  | [], acc => some acc
  | c :: cs, acc => if isDigit c then digitsVal cs (acc * 10 + (c.toNat - 48)) else none

def parseUDec (s : Bytes) : Option Nat :=
  if s.isEmpty then none else digitsVal s 0

/-- range check of `ParseInt` after the magnitude is known -/
def applySign (neg : Bool) (n : Nat) : Option Int :=
  if neg then
    if n ≤ 9223372036854775808 then some (-(n : Int)) else none
  else
    if n ≤ 9223372036854775807 then some (n : Int) else none

def parseInt64 (s : Bytes) : Option Int :=
  match s with
  | [] => none
  | c :: cs =>
    if c == 43 then (parseUDec cs).bind (applySign false)
    else if c == 45 then (parseUDec cs).bind (applySign true)
    else (parseUDec (c :: cs)).bind (applySign false)

/-- util.go `parseClampedInt`: `none` = ErrInvalidArgument -/
def parseClampedInt (s : Bytes) (dflt lo hi : Int) : Option Int :=
  let v? := if s.isEmpty then some dflt else parseInt64 s
  match v? with
  | none => none
  | some v => some (if v < lo then lo else if v > hi then hi else v)

end GFS.Model
