import GFS.Model.Front
import GFS.Model.Chunk
/-
  gofakes3.go `createObject` at the level of the request's headers and body stream, in source
  order, down to `PutObject` of the memory/bolt backends (`ReadAll` + the hashing reader).
-/
namespace GFS.Model
open GFS

/-- how the Content-MD5 header looks after `base64.StdEncoding.DecodeString` (the decoding
    itself is the library's; the harness classifies) -/
inductive Md5Hdr where
  | absent
  | empty                 -- header present with an empty value
  | malformed             -- not base64, or not 16 bytes
  | digest (d : Bytes)    -- 16 decoded bytes
deriving Repr, DecidableEq

inductive BodyEnd where
  | eof
  | fail                  -- the reader fails after the given bytes
deriving Repr, DecidableEq

structure UploadReq where
  contentLength : Option Bytes     -- raw Content-Length header, `none` = absent
  md5      : Md5Hdr
  streaming : Bool                  -- X-Amz-Content-Sha256: STREAMING-AWS4-HMAC-SHA256-PAYLOAD
  decodedLen : Option Bytes        -- raw X-Amz-Decoded-Content-Length
  md       : Meta                  -- the metadata headers of the request
  body     : Bytes                 -- what the body reader delivers …
  tail     : BodyEnd               -- … and how it ends
deriving Repr

structure UploadCfg where
  integrity : Bool := true
  metaLimit : Nat := 2000

/-- `metadataSize` including the injected Last-Modified header (13 + 29 bytes) -/
def metaSize (md : Meta) : Nat := md.foldl (fun acc p => acc + p.1.length + p.2.length) 0 + 42

/-- the EOF-time check of the hashing reader -/
def digestOk (md5 : Bytes → Bytes) (body : Bytes) (expected : Option Bytes) : Bool :=
  match expected with
  | none => true
  | some d => d == md5 body

/-- `ReadAll(r, size)` over the hashing reader: what PutObject of mem/bolt receives.
    `expected` = digest to verify at EOF. -/
def readAllHashing (md5 : Bytes → Bytes) (size : Int) (body : Bytes) (tail : BodyEnd) (expected : Option Bytes) : Res Bytes :=
  if size < 0 then .panic .makeLen
  else match tail with
    | .fail => .err .Internal                       -- the reader's own error surfaces, whatever was read
    | .eof =>
      if !digestOk md5 body expected then .err .BadDigest             -- the hashing reader reports at EOF, before lengths are compared
      else if (body.length : Int) = size then .ok body
      else if body.isEmpty then .err .Internal      -- io.EOF from ReadFull with nothing read
      else .err .IncompleteBody                     -- short (ErrUnexpectedEOF) or extra bytes

namespace Front

/-- everything `createObject` decides before any state is touched: header checks in source
    order, then the body as `ReadAll` over the hashing reader accepts it -/
def uploadChecks (md5 : Bytes → Bytes) (ucfg : UploadCfg) (k : Key) (rq : UploadReq) : Res Bytes :=
  if ucfg.metaLimit > 0 ∧ metaSize rq.md > ucfg.metaLimit then .err .MetadataTooLarge
  else match rq.contentLength with
    | none => .err .MissingContentLength
    | some cl =>
      match parseInt64 cl with
      | none => .err .BadRequestNoCode
      | some size0 =>
        if size0 < 0 then .err .BadRequestNoCode
        else if k.length > KeySizeLimit then .err .KeyTooLong
        else if ucfg.integrity && rq.md5 == .empty then .err .InvalidDigest
        else
          -- the streaming branch replaces the size by the declared decoded length
          let size? : Option Int :=
            if rq.streaming then
              match rq.decodedLen.bind parseInt64 with
              | some n => if n < 0 then none else some n
              | none => none
            else some size0
          match size? with
          | none => .err .BadRequestNoCode
          | some size =>
            let expected? : Res (Option Bytes) :=
              if !ucfg.integrity then .ok none
              else match rq.md5 with
                | .absent => .ok none
                | .empty => .ok none
                | .malformed => .err .InvalidDigest
                | .digest d => .ok (some d)
            match expected? with
            | .err c => .err c
            | .panic s => .panic s
            | .ok expected =>
              -- the body as the backend sees it: decoded when streaming
              let (payload, tail, unk) : Bytes × BodyEnd × Bool :=
                if rq.streaming then
                  let cfgc : Chunk.Cfg := { cut := fun _ => false, tail := (match rq.tail with | .eof => .eof | .fail => .fail), endWithData := false }
                  let (out, e, unk) := Chunk.decode cfgc [rq.body.length + 1] rq.body
                  (out, (if e == some .eof then BodyEnd.eof else BodyEnd.fail), unk)
                else (rq.body, rq.tail, false)
              if unk then .err .NotImplemented   -- the model does not follow (header byte ≥ 0x80)
              else readAllHashing md5 size payload tail expected

/-- `createObject` for a non-copy upload on a backend that reads the body before touching
    state (memory, bolt) -/
def createObject (md5 : Bytes → Bytes) (cfg : Cfg) (ucfg : UploadCfg) (m : Mem) (b : Bytes) (k : Key) (rq : UploadReq) : Mem × Out :=
  withBucket cfg m b fun m =>
    match uploadChecks md5 ucfg k rq with
    | .err c => (m, .err c)
    | .panic s => (m, .panic s)
    | .ok bytes =>
      match m.put md5 b k rq.md bytes with
      | (m', .ok vid) => (m', .stored (md5 bytes) vid)
      | (m', .err c) => (m', .err c)
      | (m', .panic s) => (m', .panic s)

end Front
end GFS.Model
