import GFS.Model.MemList
import GFS.Model.BucketName
import GFS.Model.ParseInt
/-
  gofakes3.go handlers, at the level of already-parsed parameters, over the backend model.
  `Cfg.versioned` = the backend implements VersionedBackend and versioning was not switched
  off; `Cfg.paginates` = the backend honours ListBucketPage (only s3mem does).
-/
namespace GFS.Model
open GFS

structure Cfg where
  versioned  : Bool := true
  paginates  : Bool := true
  autoBucket : Bool := false
  failOnPage : Bool := false
  /-- s3mem reports a version id from HeadObject even when versioning is off -/
  isMem      : Bool := true
deriving Repr, DecidableEq

/-- what a handler answers -/
inductive Out where
  | ok
  | err (c : ErrCode)
  | panic (s : PanicSite)
  | object (body : Bytes) (hash : Bytes) (vid : Option Nat) (md : Meta)
  | deleteMarker (vid : Nat)                       -- 404 NoSuchKey with x-amz-delete-marker
  | stored (hash : Bytes) (vid : Option Nat)
  | deleted (marker : Bool) (vid : Option Nat)
  | multiDeleted (keys : List Key)
  | buckets (names : List Bytes)
  | listing (l : ObjectList) (v2 : Bool) (hasDelim : Bool)
  | versions (l : VersionList)
  | versioning (s : VStatus)
  | copied (hash : Bytes) (srcVid : Option Nat)
deriving Repr, DecidableEq

def Out.ofRes {α} (r : Res α) (f : α → Out) : Out :=
  match r with
  | .ok a => f a
  | .err c => .err c
  | .panic s => .panic s

namespace Front

def KeySizeLimit : Nat := 1024

/-- `ensureBucketExists` -/
def ensureBucket (cfg : Cfg) (m : Mem) (b : Bytes) : Mem × Res Unit :=
  if m.bucketExists b then (m, .ok ())
  else if cfg.autoBucket then
    -- a bucket created on the fly is a bucket like any other (fix: D38): the name is validated
    if !validateBucketName b then (m, .err .InvalidBucketName) else
    match m.createBucket b with
    | (m', .ok _) => (m', .ok ())
    | (m', _) => (m', .err .NoSuchBucket)
  else (m, .err .NoSuchBucket)

/-- run `f` after `ensureBucketExists` -/
def withBucket (cfg : Cfg) (m : Mem) (b : Bytes) (f : Mem → Mem × Out) : Mem × Out :=
  match ensureBucket cfg m b with
  | (m', .ok _) => f m'
  | (m', .err c) => (m', .err c)
  | (m', .panic s) => (m', .panic s)

def createBucket (m : Mem) (b : Bytes) : Mem × Out :=
  if !validateBucketName b then (m, .err .InvalidBucketName)
  else match m.createBucket b with
    | (m', r) => (m', Out.ofRes r fun _ => .ok)

def headBucket (cfg : Cfg) (m : Mem) (b : Bytes) : Mem × Out :=
  withBucket cfg m b fun m => (m, .ok)

def deleteBucket (cfg : Cfg) (m : Mem) (b : Bytes) (force : Bool) : Mem × Out :=
  withBucket cfg m b fun m =>
    if force then
      match m.forceDeleteBucket b with
      | (m1, .ok _) =>
        -- the handler goes on to DeleteBucket, which now finds nothing
        match m1.deleteBucket b with
        | (m2, r) => (m2, Out.ofRes r fun _ => .ok)
      | (m1, r) => (m1, Out.ofRes r fun _ => .ok)
    else match m.deleteBucket b with
      | (m', r) => (m', Out.ofRes r fun _ => .ok)

def listBuckets (m : Mem) : Mem × Out := (m, .buckets m.listBuckets)

/-- `createObject` after the request-level checks: key length, then `PutObject` -/
def putObject (md5 : Bytes → Bytes) (cfg : Cfg) (m : Mem) (b : Bytes) (k : Key) (md : Meta) (body : Bytes) : Mem × Out :=
  withBucket cfg m b fun m =>
    if k.length > KeySizeLimit then (m, .err .KeyTooLong)
    else match m.put md5 b k md body with
      | (m', .ok vid) => (m', .stored (md5 body) vid)
      | (m', .err c) => (m', .err c)
      | (m', .panic s) => (m', .panic s)

/-- `getObject` (no range) / `headObject`, optionally for a version -/
def getObject (cfg : Cfg) (m : Mem) (b : Bytes) (k : Key) (vid : Option Nat) (isHead : Bool) : Mem × Out :=
  withBucket cfg m b fun m =>
    match vid with
    | none =>
      match m.get b k with
      | .ok v => (m, .object v.body v.hash (if isHead then (if cfg.isMem then some v.id else none) else m.visibleVid b v) v.md)
      | .err c => (m, .err c)
      | .panic s => (m, .panic s)
    | some id =>
      if !cfg.versioned then (m, .err .NotImplemented)
      else match m.getVersion b k id with
        | .ok v => if v.marker then (m, .deleteMarker v.id) else (m, .object v.body v.hash (some v.id) v.md)
        | .err c => (m, .err c)
        | .panic s => (m, .panic s)

def deleteObject (cfg : Cfg) (m : Mem) (b : Bytes) (k : Key) : Mem × Out :=
  withBucket cfg m b fun m =>
    match m.delete b k with
    | (m', r) => (m', Out.ofRes r fun (mk, v) => .deleted mk v)

def deleteObjectVersion (cfg : Cfg) (m : Mem) (b : Bytes) (k : Key) (vid : Nat) : Mem × Out :=
  if !cfg.versioned then (m, .err .NotImplemented)
  else withBucket cfg m b fun m =>
    match m.deleteVersion b k vid with
    | (m', r) => (m', Out.ofRes r fun (mk, v) => .deleted mk v)

/-- `deleteMulti`: plain keys on an unversioned backend, (key, version) pairs otherwise -/
def deleteMulti (cfg : Cfg) (m : Mem) (b : Bytes) (objs : List (Key × Option Nat)) : Mem × Out :=
  withBucket cfg m b fun m =>
    if cfg.versioned then
      match m.deleteMultiVersions b objs with
      | (m', r) => (m', Out.ofRes r fun _ => .multiDeleted (objs.map (·.1)))
    else
      match m.deleteMulti b (objs.map (·.1)) with
      | (m', r) => (m', Out.ofRes r fun ks => .multiDeleted ks)

/-- `copyObject`: HEAD the source, merge its metadata (except X-Amz-Acl) under the request's,
    then the `CopyObject` helper = GetObject + PutObject -/
def aclKey : Bytes := [88, 45, 65, 109, 122, 45, 65, 99, 108]   -- "X-Amz-Acl"

def copyObject (md5 : Bytes → Bytes) (cfg : Cfg) (m : Mem) (sb : Bytes) (sk : Key) (db : Bytes) (dk : Key) (md : Meta) : Mem × Out :=
  withBucket cfg m db fun m =>
    if dk.length > KeySizeLimit then (m, .err .KeyTooLong)
    else match m.head sb sk with
      | .err c => (m, .err c)
      | .panic s => (m, .panic s)
      | .ok src =>
        let md' := mergeMeta md (src.md.filter (fun p => !(p.1 == aclKey)))
        match m.get sb sk with
        | .err c => (m, .err c)
        | .panic s => (m, .panic s)
        | .ok c =>
          match m.put md5 db dk md' c.body with
          | (m', .ok _) => (m', .copied c.hash (if cfg.isMem then some src.id else none))
          | (m', .err e) => (m', .err e)
          | (m', .panic s) => (m', .panic s)

/-- `listBucket` (V1 and V2): `maxKeys` is the clamped value, `marker` the decoded marker -/
def listBucket (cfg : Cfg) (m : Mem) (b : Bytes) (p : Prefix) (hasMarker : Bool) (marker : Bytes) (maxKeys : Int) (v2 : Bool) : Mem × Out :=
  withBucket cfg m b fun m =>
    let pageEmpty := !hasMarker && marker.isEmpty && maxKeys == 0
    let r := if cfg.paginates || pageEmpty then m.listBucket b p marker maxKeys
             else if cfg.failOnPage then .err .NotImplemented
             else m.listBucket b p [] 0
    (m, Out.ofRes r fun l => .listing l v2 p.hasDelim)

def getVersioning (cfg : Cfg) (m : Mem) (b : Bytes) : Mem × Out :=
  withBucket cfg m b fun m =>
    if cfg.versioned then (m, Out.ofRes (m.versioning b) fun s => .versioning s)
    else (m, .versioning .none)

/-- `putBucketVersioning`; `status`: some true = Enabled, some false = Suspended, none = empty -/
def putVersioning (cfg : Cfg) (m : Mem) (b : Bytes) (status : Option Bool) (mfa : Bool) : Mem × Out :=
  withBucket cfg m b fun m =>
    if !cfg.versioned then
      if mfa || status == some true then (m, .err .NotImplemented) else (m, .ok)
    else if mfa then (m, .err .NotImplemented)
    else match m.setVersioning b (status == some true) with
      | (m', r) => (m', Out.ofRes r fun _ => .ok)

def listVersions (cfg : Cfg) (m : Mem) (b : Bytes) (p : Prefix) (keyMarker : Bytes) (verMarker : Option Nat)
    (maxKeys : Int) : Mem × Out :=
  if !cfg.versioned then (m, .err .NotImplemented)
  else withBucket cfg m b fun m =>
    (m, Out.ofRes (m.listVersions b p keyMarker verMarker maxKeys) fun l => .versions l)

end Front
end GFS.Model
