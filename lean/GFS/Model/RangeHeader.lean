import GFS.Base.Res
import GFS.Model.ParseInt
import GFS.Model.Range
/-
  range.go `parseRangeHeader`, statement for statement.
-/
namespace GFS.Model
open GFS GFS.Bytes

def bytesEq : Bytes := [98, 121, 116, 101, 115, 61]   -- "bytes="

/-- `ok none` = no Range header; `err .InvalidRange`, `err .NotImplemented` -/
def parseRangeHeader (s : Bytes) : Res (Option RangeReq) :=
  if s.isEmpty then .ok none
  else if !hasPrefix s bytesEq then .err .InvalidRange
  else
    let ranges := splitOn1 44 (s.drop 6)
    if ranges.length > 1 then .err .NotImplemented
    else
      let rnge := trimSpace (ranges.headD [])
      if rnge.isEmpty then .err .InvalidRange
      else match indexOf 45 rnge with
        | none => .err .InvalidRange
        | some i =>
          let start := trimSpace (rnge.take i)
          let e := trimSpace (rnge.drop (i + 1))
          if start.isEmpty then
            match parseInt64 e with
            | none => .err .InvalidRange
            | some n => .ok (some ⟨0, n, true⟩)
          else
            match parseInt64 start with
            | none => .err .InvalidRange
            | some st =>
              if st < 0 then .err .InvalidRange
              else if !e.isEmpty then
                match parseInt64 e with
                | none => .err .InvalidRange
                | some en => if st > en then .err .InvalidRange else .ok (some ⟨st, en, false⟩)
              else .ok (some ⟨st, RangeNoEnd, false⟩)

end GFS.Model
