import GFS.Base.I64
/-
  Hand-written model of `ObjectRangeRequest.Range` (range.go) and of the two
  body extractions the backends perform with its result.
-/
namespace GFS.Model

/-- `ObjectRangeRequest` -/
structure RangeReq where
  start   : Int
  «end»   : Int
  fromEnd : Bool
deriving Repr, DecidableEq

def RangeNoEnd : Int := -1

/-- outcome of `Range(size)` on a non-nil request: `none` = ErrInvalidRange -/
abbrev RangeOut := Option (Int × Int)

/-- range.go `func (o *ObjectRangeRequest) Range(size int64)` — branch for branch,
    every `+`/`-` wrapped. -/
def range (size : Int) (o : RangeReq) : RangeOut :=
  let (start, length) :=
    if !o.fromEnd then
      let start := o.start
      let e := o.«end»
      if o.«end» == RangeNoEnd then
        (start, subW size start)
      else
        let e := if e ≥ size then subW size 1 else e
        (start, addW (subW e start) 1)
    else
      let e := o.«end»
      let start := subW size e
      (start, subW size start)
  if start < 0 ∨ length < 0 ∨ start ≥ size then none
  else if addW start length > size then some (start, subW size start)
  else some (start, length)

/-- Go slice expression `data[s : s+l]` on a slice of length `n`:
    `none` = run-time panic (slice bounds out of range). -/
def sliceGo (data : List UInt8) (s l : Int) : Option (List UInt8) :=
  let hi := addW s l
  if 0 ≤ s ∧ s ≤ hi ∧ hi ≤ data.length then
    some ((data.drop s.toNat).take (hi - s).toNat)
  else none

/-- Seek(start) + LimitReader(length) as the afero backends do -/
def seekLimit (data : List UInt8) (s l : Int) : List UInt8 :=
  (data.drop s.toNat).take l.toNat

end GFS.Model
