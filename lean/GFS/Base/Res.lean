/-
  Outcome of a modelled Go call: value, S3 error code, or a run-time panic.
-/
namespace GFS

/-- the S3 error codes of error.go (the `statusOf` table in `Generated/Facts` is checked
    against this enumeration on every run) -/
inductive ErrCode where
  | BadDigest | BucketAlreadyExists | BucketNotEmpty | IllegalVersioningConfiguration
  | IncompleteBody | IncorrectNumberOfFilesInPostRequest | InlineDataTooLarge
  | InvalidArgument | InvalidBucketName | InvalidDigest | InvalidRange | InvalidToken
  | KeyTooLong | MalformedPOSTRequest | InvalidPart | InvalidPartOrder | InvalidURI
  | MetadataTooLarge | MethodNotAllowed | MalformedXML | MissingContentLength
  | NoSuchBucket | NonExistentBucket | NoSuchKey | NoSuchUpload | NoSuchVersion
  | NotModified | RequestTimeTooSkewed | TooManyBuckets | NotImplemented | Internal
  | BadRequestNoCode   -- the two bare `WriteHeader(400)` sites
deriving Repr, DecidableEq, Inhabited

def ErrCode.name : ErrCode → String
  | .BadDigest => "BadDigest" | .BucketAlreadyExists => "BucketAlreadyExists"
  | .BucketNotEmpty => "BucketNotEmpty"
  | .IllegalVersioningConfiguration => "IllegalVersioningConfigurationException"
  | .IncompleteBody => "IncompleteBody"
  | .IncorrectNumberOfFilesInPostRequest => "IncorrectNumberOfFilesInPostRequest"
  | .InlineDataTooLarge => "InlineDataTooLarge" | .InvalidArgument => "InvalidArgument"
  | .InvalidBucketName => "InvalidBucketName" | .InvalidDigest => "InvalidDigest"
  | .InvalidRange => "InvalidRange" | .InvalidToken => "InvalidToken"
  | .KeyTooLong => "KeyTooLongError" | .MalformedPOSTRequest => "MalformedPOSTRequest"
  | .InvalidPart => "InvalidPart" | .InvalidPartOrder => "InvalidPartOrder"
  | .InvalidURI => "InvalidURI" | .MetadataTooLarge => "MetadataTooLarge"
  | .MethodNotAllowed => "MethodNotAllowed" | .MalformedXML => "MalformedXML"
  | .MissingContentLength => "MissingContentLength" | .NoSuchBucket => "NoSuchBucket"
  | .NonExistentBucket => "NonExistentBucket" | .NoSuchKey => "NoSuchKey"
  | .NoSuchUpload => "NoSuchUpload" | .NoSuchVersion => "NoSuchVersion"
  | .NotModified => "NotModified" | .RequestTimeTooSkewed => "RequestTimeTooSkewed"
  | .TooManyBuckets => "TooManyBuckets" | .NotImplemented => "NotImplemented"
  | .Internal => "InternalError" | .BadRequestNoCode => "-"

def ErrCode.all : List ErrCode :=
  [.BadDigest, .BucketAlreadyExists, .BucketNotEmpty, .IllegalVersioningConfiguration,
   .IncompleteBody, .IncorrectNumberOfFilesInPostRequest, .InlineDataTooLarge,
   .InvalidArgument, .InvalidBucketName, .InvalidDigest, .InvalidRange, .InvalidToken,
   .KeyTooLong, .MalformedPOSTRequest, .InvalidPart, .InvalidPartOrder, .InvalidURI,
   .MetadataTooLarge, .MethodNotAllowed, .MalformedXML, .MissingContentLength,
   .NoSuchBucket, .NonExistentBucket, .NoSuchKey, .NoSuchUpload, .NoSuchVersion,
   .NotModified, .RequestTimeTooSkewed, .TooManyBuckets, .NotImplemented, .Internal]

/-- where a modelled Go operation can panic -/
inductive PanicSite where
  | sliceBounds | nilDeref | indexRange | makeLen | nilIter
deriving Repr, DecidableEq, Inhabited

inductive Res (α : Type) where
  | ok (a : α)
  | err (code : ErrCode)
  | panic (site : PanicSite)
deriving Repr, DecidableEq

namespace Res
def bind {α β} (r : Res α) (f : α → Res β) : Res β :=
  match r with
  | ok a => f a
  | err c => err c
  | panic s => panic s
instance : Monad Res where
  pure := ok
  bind := bind
def isPanic {α} : Res α → Bool
  | panic _ => true
  | _ => false
end Res
end GFS
