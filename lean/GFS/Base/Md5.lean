import GFS.Base.Bytes
/-
  An executable MD5 for the driver (so that ETags can be compared byte for byte).
  No theorem unfolds it: every property theorem takes the digest as an opaque
  `md5 : Bytes → Bytes`.  It is checked against crypto/md5 by the correspondence on every
  body the harness sends.
-/
namespace GFS.Md5

def sTab : Array UInt32 := #[
  7, 12, 17, 22, 7, 12, 17, 22, 7, 12, 17, 22, 7, 12, 17, 22,
  5, 9, 14, 20, 5, 9, 14, 20, 5, 9, 14, 20, 5, 9, 14, 20,
  4, 11, 16, 23, 4, 11, 16, 23, 4, 11, 16, 23, 4, 11, 16, 23,
  6, 10, 15, 21, 6, 10, 15, 21, 6, 10, 15, 21, 6, 10, 15, 21]

def kTab : Array UInt32 := #[
  0xd76aa478, 0xe8c7b756, 0x242070db, 0xc1bdceee, 0xf57c0faf, 0x4787c62a, 0xa8304613, 0xfd469501,
  0x698098d8, 0x8b44f7af, 0xffff5bb1, 0x895cd7be, 0x6b901122, 0xfd987193, 0xa679438e, 0x49b40821,
  0xf61e2562, 0xc040b340, 0x265e5a51, 0xe9b6c7aa, 0xd62f105d, 0x02441453, 0xd8a1e681, 0xe7d3fbc8,
  0x21e1cde6, 0xc33707d6, 0xf4d50d87, 0x455a14ed, 0xa9e3e905, 0xfcefa3f8, 0x676f02d9, 0x8d2a4c8a,
  0xfffa3942, 0x8771f681, 0x6d9d6122, 0xfde5380c, 0xa4beea44, 0x4bdecfa9, 0xf6bb4b60, 0xbebfbc70,
  0x289b7ec6, 0xeaa127fa, 0xd4ef3085, 0x04881d05, 0xd9d4d039, 0xe6db99e5, 0x1fa27cf8, 0xc4ac5665,
  0xf4292244, 0x432aff97, 0xab9423a7, 0xfc93a039, 0x655b59c3, 0x8f0ccc92, 0xffeff47d, 0x85845dd1,
  0x6fa87e4f, 0xfe2ce6e0, 0xa3014314, 0x4e0811a1, 0xf7537e82, 0xbd3af235, 0x2ad7d2bb, 0xeb86d391]

def rotl (x : UInt32) (c : UInt32) : UInt32 := (x <<< c) ||| (x >>> (32 - c))

def le32 (b : Array UInt8) (off : Nat) : UInt32 :=
  (b[off]!).toUInt32 ||| ((b[off+1]!).toUInt32 <<< 8) ||| ((b[off+2]!).toUInt32 <<< 16) ||| ((b[off+3]!).toUInt32 <<< 24)

def out32 (x : UInt32) : List UInt8 :=
  [x.toUInt8, (x >>> 8).toUInt8, (x >>> 16).toUInt8, (x >>> 24).toUInt8]

def block (st : UInt32 × UInt32 × UInt32 × UInt32) (m : Array UInt8) (off : Nat) :
    UInt32 × UInt32 × UInt32 × UInt32 := Id.run do
  let (a0, b0, c0, d0) := st
  let mut a := a0
  let mut b := b0
  let mut c := c0
  let mut d := d0
  for i in [0:64] do
    let (f, g) :=
      if i < 16 then ((b &&& c) ||| ((~~~ b) &&& d), i)
      else if i < 32 then ((d &&& b) ||| ((~~~ d) &&& c), (5 * i + 1) % 16)
      else if i < 48 then (b ^^^ c ^^^ d, (3 * i + 5) % 16)
      else (c ^^^ (b ||| (~~~ d)), (7 * i) % 16)
    let f' := f + a + kTab[i]! + le32 m (off + 4 * g)
    a := d
    d := c
    c := b
    b := b + rotl f' sTab[i]!
  return (a0 + a, b0 + b, c0 + c, d0 + d)

def md5 (msg : Bytes) : Bytes := Id.run do
  let n := msg.length
  let padLen := (55 + 64 - n % 64) % 64
  let bits : UInt64 := (n * 8).toUInt64
  let lenBytes : List UInt8 := (List.range 8).map fun i => (bits >>> (8 * i).toUInt64).toUInt8
  let padded : Array UInt8 := (msg ++ [0x80] ++ List.replicate padLen 0 ++ lenBytes).toArray
  let mut st : UInt32 × UInt32 × UInt32 × UInt32 := (0x67452301, 0xefcdab89, 0x98badcfe, 0x10325476)
  for i in [0:padded.size / 64] do
    st := block st padded (i * 64)
  let (a, b, c, d) := st
  return out32 a ++ out32 b ++ out32 c ++ out32 d

def hexOf (b : Bytes) : Bytes :=
  b.foldr (fun c acc =>
    let h (n : UInt8) : UInt8 := if n < 10 then 48 + n else 87 + n
    h (c / 16) :: h (c % 16) :: acc) []

end GFS.Md5
