/-
  Go strings are byte strings.  `Bytes := List UInt8` with the handful of
  `strings.*` functions the modelled code uses, defined structurally so that the
  theorems can do induction over them.  Core Lean only.
-/
namespace GFS

abbrev Bytes := List UInt8

namespace Bytes

/-- `strings.HasPrefix s p` -/
def hasPrefix : Bytes → Bytes → Bool
  | _, [] => true
  | [], _ :: _ => false
  | a :: s, b :: p => a == b && hasPrefix s p

/-- `strings.HasSuffix s p` -/
def hasSuffix (s p : Bytes) : Bool := hasPrefix s.reverse p.reverse

/-- `strings.Split s (string d)` for a single-byte separator: never empty. -/
def splitOn1 (d : UInt8) : Bytes → List Bytes
  | [] => [[]]
  | c :: cs =>
    if c == d then [] :: splitOn1 d cs
    else match splitOn1 d cs with
      | [] => [[c]]          -- unreachable (splitOn1 is never empty)
      | p :: ps => (c :: p) :: ps

/-- `strings.Join parts (string d)` for a single-byte separator -/
def join1 (d : UInt8) : List Bytes → Bytes
  | [] => []
  | [p] => p
  | p :: q :: ps => p ++ d :: join1 d (q :: ps)

/-- `strings.TrimLeft s (string d)` for a one-byte cutset -/
def trimLeft1 (d : UInt8) : Bytes → Bytes
  | [] => []
  | c :: cs => if c == d then trimLeft1 d cs else c :: cs

/-- `strings.Trim s (string d)` for a one-byte cutset -/
def trim1 (d : UInt8) (s : Bytes) : Bytes :=
  (trimLeft1 d (trimLeft1 d s).reverse).reverse

/-- `strings.IndexByte` -/
def indexOf (d : UInt8) : Bytes → Option Nat
  | [] => none
  | c :: cs => if c == d then some 0 else (indexOf d cs).map (· + 1)

/-- ASCII white space as `strings.TrimSpace` sees it (the non-ASCII Unicode
    spaces are outside the modelled input domain) -/
def isSpace (c : UInt8) : Bool :=
  c == 9 || c == 10 || c == 11 || c == 12 || c == 13 || c == 32

def trimSpaceLeft : Bytes → Bytes
  | [] => []
  | c :: cs => if isSpace c then trimSpaceLeft cs else c :: cs

/-- `strings.TrimSpace` (ASCII) -/
def trimSpace (s : Bytes) : Bytes :=
  (trimSpaceLeft (trimSpaceLeft s).reverse).reverse

/-- `strings.SplitN s (string d) 2` -/
def splitN2 (d : UInt8) (s : Bytes) : List Bytes :=
  match indexOf d s with
  | none => [s]
  | some i => [s.take i, s.drop (i + 1)]

def ofString (s : String) : Bytes := s.toUTF8.toList

/-- lexicographic `<` on bytes = Go's string `<` -/
def lt : Bytes → Bytes → Bool
  | [], [] => false
  | [], _ :: _ => true
  | _ :: _, [] => false
  | a :: s, b :: t => if a < b then true else if b < a then false else lt s t

def le (a b : Bytes) : Bool := !lt b a

/-- `hex.EncodeToString` (lower case) -/
def hexLower (b : Bytes) : Bytes :=
  b.foldr (fun c acc =>
    let h (n : UInt8) : UInt8 := if n < 10 then 48 + n else 87 + n
    h (c / 16) :: h (c % 16) :: acc) []

end Bytes

/-- a Boolean predicate on bytes holds of every byte if it holds of the 256 of them
    (lets `decide` settle finite byte-class facts) -/
theorem forall_u8 (P : UInt8 → Bool) (h : (List.range 256).all (fun n => P (UInt8.ofNat n)) = true) :
    ∀ c, P c = true := by
  intro c
  rw [List.all_eq_true] at h
  have := h c.toNat (by simp [List.mem_range]; exact c.toNat_lt)
  simpa using this

end GFS
