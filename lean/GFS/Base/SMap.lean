import GFS.Base.Bytes
/-
  Association list keyed by byte strings, kept in ascending key order by `insert`.
  It models Go maps (order unobservable), goskiplist string maps and bolt buckets (ordered).
  Lookup laws need no invariant; order theorems use `Sorted`.
-/
namespace GFS

abbrev SMap (α : Type) := List (Bytes × α)

namespace SMap
variable {α : Type}

def find (m : SMap α) (k : Bytes) : Option α :=
  match m with
  | [] => none
  | (k', v) :: rest => if k' == k then some v else find rest k

/-- ordered insert, replacing the value of an existing key -/
def insert (m : SMap α) (k : Bytes) (v : α) : SMap α :=
  match m with
  | [] => [(k, v)]
  | (k', v') :: rest =>
    if k' == k then (k, v) :: rest
    else if Bytes.lt k k' then (k, v) :: (k', v') :: rest
    else (k', v') :: insert rest k v

def erase (m : SMap α) (k : Bytes) : SMap α := m.filter (fun p => !(p.1 == k))

def keys (m : SMap α) : List Bytes := m.map (·.1)

def contains (m : SMap α) (k : Bytes) : Bool := (find m k).isSome

@[simp] theorem find_nil (k : Bytes) : find ([] : SMap α) k = none := rfl

theorem find_insert_self (m : SMap α) (k : Bytes) (v : α) : find (insert m k v) k = some v := by
  induction m with
  | nil => simp [insert, find]
  | cons p rest ih =>
    obtain ⟨k', v'⟩ := p
    unfold insert
    split
    · simp [find]
    · rename_i hne
      split
      · simp [find]
      · simp only [find, hne, Bool.false_eq_true, if_false]; exact ih

theorem find_insert_ne (m : SMap α) (k j : Bytes) (v : α) (h : k ≠ j) :
    find (insert m k v) j = find m j := by
  induction m with
  | nil =>
    have : (k == j) = false := by simpa using h
    simp [insert, find, this]
  | cons p rest ih =>
    obtain ⟨k', v'⟩ := p
    have hkj : (k == j) = false := by simpa using h
    unfold insert
    split
    · rename_i heq
      have : k' = k := by simpa using heq
      subst this
      simp [find, hkj]
    · split
      · simp [find, hkj]
      · simp only [find]; rw [ih]

theorem find_erase_self (m : SMap α) (k : Bytes) : find (erase m k) k = none := by
  induction m with
  | nil => rfl
  | cons p rest ih =>
    obtain ⟨k', v'⟩ := p
    unfold erase
    simp only [List.filter]
    cases h : (k' == k)
    · simp only [Bool.not_false, find, h, Bool.false_eq_true, if_false]; exact ih
    · simp only [Bool.not_true]; exact ih

theorem find_erase_ne (m : SMap α) (k j : Bytes) (h : k ≠ j) : find (erase m k) j = find m j := by
  induction m with
  | nil => rfl
  | cons p rest ih =>
    obtain ⟨k', v'⟩ := p
    unfold erase
    simp only [List.filter]
    cases h1 : (k' == k)
    · simp only [Bool.not_false, find]
      cases h2 : (k' == j)
      · simp only [Bool.false_eq_true, if_false]; exact ih
      · simp
    · simp only [Bool.not_true, find]
      have hk : k' = k := by simpa using h1
      have : (k' == j) = false := by rw [hk]; simpa using h
      simp only [this, Bool.false_eq_true, if_false]; exact ih

end SMap
end GFS
