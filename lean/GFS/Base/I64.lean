/-
  Go `int64` arithmetic as `Int` with an explicit two's-complement wrap after
  every `+`/`-`.  Core Lean only.
-/
namespace GFS

def I64.min : Int := -9223372036854775808
def I64.max : Int := 9223372036854775807

/-- the value Go stores after an int64 operation whose mathematical result is `x` -/
def wrap (x : Int) : Int := (x + 9223372036854775808) % 18446744073709551616 - 9223372036854775808

def InI64 (x : Int) : Prop := -9223372036854775808 ≤ x ∧ x ≤ 9223372036854775807

instance (x : Int) : Decidable (InI64 x) := by unfold InI64; exact inferInstance

theorem wrap_id {x : Int} (h : InI64 x) : wrap x = x := by
  unfold wrap; unfold InI64 at h; omega

theorem wrap_in (x : Int) : InI64 (wrap x) := by
  unfold wrap InI64; omega

def addW (a b : Int) : Int := wrap (a + b)
def subW (a b : Int) : Int := wrap (a - b)

end GFS
