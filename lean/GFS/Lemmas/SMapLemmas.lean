import GFS.Base.SMap
/- helper lemmas about membership in association lists after insert / erase / find -/
namespace GFS.SMapL
open GFS

theorem mem_insert {α} (m : SMap α) (k : Bytes) (v : α) : ∀ p ∈ SMap.insert m k v, p = (k, v) ∨ p ∈ m := by
  induction m with
  | nil => intro p hp; simp [SMap.insert] at hp; exact Or.inl hp
  | cons q rest ih =>
    obtain ⟨k', v'⟩ := q
    intro p hp
    unfold SMap.insert at hp
    split at hp
    · rcases List.mem_cons.mp hp with h | h
      · exact Or.inl h
      · exact Or.inr (List.mem_cons_of_mem _ h)
    · split at hp
      · rcases List.mem_cons.mp hp with h | h
        · exact Or.inl h
        · exact Or.inr h
      · rcases List.mem_cons.mp hp with h | h
        · exact Or.inr (h ▸ List.mem_cons_self ..)
        · rcases ih p h with h2 | h2
          · exact Or.inl h2
          · exact Or.inr (List.mem_cons_of_mem _ h2)

theorem mem_erase {α} (m : SMap α) (k : Bytes) : ∀ p ∈ SMap.erase m k, p ∈ m := by
  intro p hp
  unfold SMap.erase at hp
  exact (List.mem_filter.mp hp).1

theorem find_mem {α} (m : SMap α) (k : Bytes) (v : α) (h : SMap.find m k = some v) : ∃ k', (k', v) ∈ m := by
  induction m with
  | nil => simp at h
  | cons q rest ih =>
    obtain ⟨k', v'⟩ := q
    unfold SMap.find at h
    split at h
    · simp only [Option.some.injEq] at h; subst h; exact ⟨k', List.mem_cons_self ..⟩
    · obtain ⟨k2, h2⟩ := ih h; exact ⟨k2, List.mem_cons_of_mem _ h2⟩


/-- mapping the values commutes with `insert` -/
def mapV {α β} (f : α → β) (m : SMap α) : SMap β := m.map (fun p => (p.1, f p.2))

theorem mapV_insert {α β} (f : α → β) (m : SMap α) (k : Bytes) (v : α) :
    mapV f (SMap.insert m k v) = SMap.insert (mapV f m) k (f v) := by
  induction m with
  | nil => rfl
  | cons q rest ih =>
    obtain ⟨k', v'⟩ := q
    simp only [SMap.insert, mapV, List.map_cons]
    split
    · simp
    · split
      · simp
      · simp only [List.map_cons, List.cons.injEq, true_and]
        exact ih

theorem find_mapV {α β} (f : α → β) (m : SMap α) (k : Bytes) :
    SMap.find (mapV f m) k = (SMap.find m k).map f := by
  induction m with
  | nil => rfl
  | cons q rest ih =>
    obtain ⟨k', v'⟩ := q
    simp only [mapV, List.map_cons, SMap.find]
    split
    · rfl
    · exact ih

theorem mapV_erase {α β} (f : α → β) (m : SMap α) (k : Bytes) :
    mapV f (SMap.erase m k) = SMap.erase (mapV f m) k := by
  induction m with
  | nil => rfl
  | cons q rest ih =>
    obtain ⟨k', v'⟩ := q
    simp only [SMap.erase, mapV, List.map_cons, List.filter_cons]
    split
    · simp only [List.map_cons, List.cons.injEq, true_and]; exact ih
    · exact ih

theorem keys_mapV {α β} (f : α → β) (m : SMap α) : SMap.keys (mapV f m) = SMap.keys m := by
  simp [SMap.keys, mapV, List.map_map, Function.comp_def]

theorem isEmpty_mapV {α β} (f : α → β) (m : SMap α) : (mapV f m).isEmpty = m.isEmpty := by
  cases m <;> simp [mapV]

theorem erase_absent {α} (m : SMap α) (k : Bytes) (h : SMap.find m k = none) : SMap.erase m k = m := by
  induction m with
  | nil => rfl
  | cons q rest ih =>
    obtain ⟨k', v'⟩ := q
    unfold SMap.find at h
    split at h
    · simp at h
    · rename_i hne
      simp only [SMap.erase, List.filter_cons, hne, Bool.not_false, if_true, List.cons.injEq, true_and]
      exact ih h

end GFS.SMapL
