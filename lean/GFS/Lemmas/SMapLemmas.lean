import GFS.Base.SMap
/- helper lemmas about membership in association lists after insert / erase / find -/
namespace GFS.SMapL
open GFS

theorem mem_insert {α} (m : SMap α) (k : Bytes) (v : α) : ∀ p ∈ SMap.insert m k v, p = (k, v) ∨ p ∈ m := by
  induction m with
  | nil => intro p hp; simp [SMap.insert] at hp; exact Or.inl hp
  | cons q rest ih =>
    obtain ⟨k', v'⟩ := q
    intro p hp
    unfold SMap.insert at hp
    split at hp
    · rcases List.mem_cons.mp hp with h | h
      · exact Or.inl h
      · exact Or.inr (List.mem_cons_of_mem _ h)
    · split at hp
      · rcases List.mem_cons.mp hp with h | h
        · exact Or.inl h
        · exact Or.inr h
      · rcases List.mem_cons.mp hp with h | h
        · exact Or.inr (h ▸ List.mem_cons_self ..)
        · rcases ih p h with h2 | h2
          · exact Or.inl h2
          · exact Or.inr (List.mem_cons_of_mem _ h2)

theorem mem_erase {α} (m : SMap α) (k : Bytes) : ∀ p ∈ SMap.erase m k, p ∈ m := by
  intro p hp
  unfold SMap.erase at hp
  exact (List.mem_filter.mp hp).1

theorem find_mem {α} (m : SMap α) (k : Bytes) (v : α) (h : SMap.find m k = some v) : ∃ k', (k', v) ∈ m := by
  induction m with
  | nil => simp at h
  | cons q rest ih =>
    obtain ⟨k', v'⟩ := q
    unfold SMap.find at h
    split at h
    · simp only [Option.some.injEq] at h; subst h; exact ⟨k', List.mem_cons_self ..⟩
    · obtain ⟨k2, h2⟩ := ih h; exact ⟨k2, List.mem_cons_of_mem _ h2⟩


/-- mapping the values commutes with `insert` -/
def mapV {α β} (f : α → β) (m : SMap α) : SMap β := m.map (fun p => (p.1, f p.2))

theorem mapV_insert {α β} (f : α → β) (m : SMap α) (k : Bytes) (v : α) :
    mapV f (SMap.insert m k v) = SMap.insert (mapV f m) k (f v) := by
  induction m with
  | nil => rfl
  | cons q rest ih =>
    obtain ⟨k', v'⟩ := q
    simp only [SMap.insert, mapV, List.map_cons]
    split
    · simp
    · split
      · simp
      · simp only [List.map_cons, List.cons.injEq, true_and]
        exact ih

end GFS.SMapL
