import GFS.Lemmas.Order
set_option linter.unusedSimpArgs false
set_option linter.unusedVariables false
/- Extensionality of sorted maps: two strictly ascending association lists that answer every
   lookup alike are the same list.  (Lets refinement proofs reason through `find` only.) -/
namespace GFS.SMap
open GFS.Bytes
variable {α : Type}

theorem find_some_mem (m : SMap α) (k : Bytes) (v : α) (h : find m k = some v) : (k, v) ∈ m := by
  induction m with
  | nil => simp [find] at h
  | cons p rest ih =>
    obtain ⟨k', v'⟩ := p
    unfold find at h
    by_cases he : (k' == k) = true
    · have e : k' = k := by simpa using he
      simp only [he, if_true, Option.some.injEq] at h
      subst e; subst h
      exact List.mem_cons_self ..
    · simp only [he, if_false] at h
      exact List.mem_cons_of_mem _ (ih h)

theorem find_none_of_lt (m : SMap α) (k : Bytes) (h : ∀ q ∈ m, lt k q.1 = true) : find m k = none := by
  cases hf : find m k with
  | none => rfl
  | some v =>
    have := h (k, v) (find_some_mem m k v hf)
    simp [lt_irrefl] at this

theorem find_cons_self (k : Bytes) (v : α) (m : SMap α) : find ((k, v) :: m) k = some v := by
  simp [find]

theorem find_cons_ne (k j : Bytes) (v : α) (m : SMap α) (h : k ≠ j) : find ((k, v) :: m) j = find m j := by
  have : (k == j) = false := by simpa using h
  simp [find, this]

theorem sorted_ext (m n : SMap α) (hm : Sorted m) (hn : Sorted n) (h : ∀ k, find m k = find n k) : m = n := by
  induction m generalizing n with
  | nil =>
    cases n with
    | nil => rfl
    | cons q n' =>
      obtain ⟨k2, v2⟩ := q
      have := h k2
      rw [find_cons_self] at this
      simp [find] at this
  | cons p m' ih =>
    obtain ⟨k, v⟩ := p
    cases n with
    | nil =>
      have := h k
      rw [find_cons_self] at this
      simp [find] at this
    | cons q n' =>
      obtain ⟨k2, v2⟩ := q
      have hm' : Sorted m' := (List.pairwise_cons.mp hm).2
      have hn' : Sorted n' := (List.pairwise_cons.mp hn).2
      have hkm : ∀ q ∈ m', lt k q.1 = true := (List.pairwise_cons.mp hm).1
      have hkn : ∀ q ∈ n', lt k2 q.1 = true := (List.pairwise_cons.mp hn).1
      have hk : k = k2 := by
        by_cases e : k = k2
        · exact e
        · exfalso
          have h1 := h k
          rw [find_cons_self, find_cons_ne k2 k v2 n' (fun x => e x.symm)] at h1
          have l1 := hkn (k, v) (find_some_mem n' k v h1.symm)
          have h2 := h k2
          rw [find_cons_self, find_cons_ne k k2 v m' e] at h2
          have l2 := hkm (k2, v2) (find_some_mem m' k2 v2 h2)
          simp only at l1 l2
          have := lt_asymm _ _ l1
          rw [this] at l2
          exact Bool.noConfusion l2
      subst hk
      have hv : v = v2 := by
        have := h k
        rw [find_cons_self, find_cons_self] at this
        exact Option.some.inj this
      subst hv
      have : m' = n' := by
        apply ih n' hm' hn'
        intro j
        by_cases e : k = j
        · subst e
          rw [find_none_of_lt m' k hkm, find_none_of_lt n' k hkn]
        · have := h j
          rwa [find_cons_ne k j v m' e, find_cons_ne k j v n' e] at this
      rw [this]

theorem sorted_mapV {β} (f : α → β) (m : SMap α) (h : Sorted m) : Sorted (GFS.SMapL.mapV f m) := by
  unfold Sorted GFS.SMapL.mapV
  exact List.pairwise_map.mpr h

end GFS.SMap
