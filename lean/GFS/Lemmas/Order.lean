import GFS.Base.SMap
import GFS.Lemmas.SMapLemmas
set_option linter.unusedSimpArgs false
set_option linter.unusedVariables false
/- Go's string `<` on byte strings is a strict total order; `SMap.insert`/`erase` keep a map sorted. -/
namespace GFS.Bytes

theorem u8_lt_irrefl (a : UInt8) : ¬ a < a := by
  rw [UInt8.lt_iff_toNat_lt]; omega
theorem u8_lt_asymm {a b : UInt8} (h : a < b) : ¬ b < a := by
  rw [UInt8.lt_iff_toNat_lt] at *; omega
theorem u8_lt_trans {a b c : UInt8} (h1 : a < b) (h2 : b < c) : a < c := by
  rw [UInt8.lt_iff_toNat_lt] at *; omega
theorem u8_eq_of_not_lt {a b : UInt8} (h1 : ¬ a < b) (h2 : ¬ b < a) : a = b := by
  rw [UInt8.lt_iff_toNat_lt] at *
  apply UInt8.toNat_inj.mp; omega

theorem lt_irrefl (a : Bytes) : lt a a = false := by
  induction a with
  | nil => rfl
  | cons x xs ih => simp [lt, u8_lt_irrefl, ih]

theorem lt_asymm : ∀ (a b : Bytes), lt a b = true → lt b a = false := by
  intro a
  induction a with
  | nil => intro b h; cases b <;> simp_all [lt]
  | cons x xs ih =>
    intro b h
    cases b with
    | nil => simp [lt] at h
    | cons y ys =>
      unfold lt at h ⊢
      by_cases h1 : x < y
      · simp [u8_lt_asymm h1, h1]
      · by_cases h2 : y < x
        · simp [h1, h2] at h
        · simp only [h1, h2, if_false] at h ⊢
          exact ih ys h

theorem lt_trans : ∀ (a b c : Bytes), lt a b = true → lt b c = true → lt a c = true := by
  intro a
  induction a with
  | nil =>
    intro b c h1 h2
    cases b with
    | nil => simp [lt] at h1
    | cons y ys => cases c with
      | nil => simp [lt] at h2
      | cons z zs => simp [lt]
  | cons x xs ih =>
    intro b c h1 h2
    cases b with
    | nil => simp [lt] at h1
    | cons y ys =>
      cases c with
      | nil => simp [lt] at h2
      | cons z zs =>
        unfold lt at h1 h2 ⊢
        by_cases hxy : x < y
        · by_cases hyz : y < z
          · simp [u8_lt_trans hxy hyz]
          · by_cases hzy : z < y
            · simp [hyz, hzy] at h2
            · have : y = z := u8_eq_of_not_lt hyz hzy
              subst this; simp [hxy]
        · by_cases hyx : y < x
          · simp [hxy, hyx] at h1
          · have hxy' : x = y := u8_eq_of_not_lt hxy hyx
            subst hxy'
            simp only [hxy, if_false] at h1
            by_cases hxz : x < z
            · simp [hxz]
            · by_cases hzx : z < x
              · simp [hxz, hzx] at h2
              · simp only [hxz, hzx, if_false] at h2 ⊢
                exact ih ys zs h1 h2

theorem lt_total : ∀ (a b : Bytes), a ≠ b → lt a b = false → lt b a = true := by
  intro a
  induction a with
  | nil => intro b hne h; cases b with
    | nil => exact absurd rfl hne
    | cons y ys => simp [lt] at h
  | cons x xs ih =>
    intro b hne h
    cases b with
    | nil => simp [lt]
    | cons y ys =>
      unfold lt at h ⊢
      by_cases hxy : x < y
      · simp [hxy] at h
      · by_cases hyx : y < x
        · simp [hyx]
        · have : x = y := u8_eq_of_not_lt hxy hyx
          subst this
          simp only [hxy, if_false] at h ⊢
          exact ih ys (fun e => hne (by rw [e])) h

end GFS.Bytes

namespace GFS.SMap
open GFS.Bytes
variable {α : Type}

/-- strictly ascending keys -/
def Sorted (m : SMap α) : Prop := m.Pairwise (fun a b => lt a.1 b.1 = true)

theorem sorted_nil : Sorted ([] : SMap α) := List.Pairwise.nil

theorem sorted_erase (m : SMap α) (k : Bytes) (h : Sorted m) : Sorted (erase m k) :=
  List.Pairwise.filter _ h

theorem sorted_insert (m : SMap α) (k : Bytes) (v : α) (h : Sorted m) : Sorted (insert m k v) := by
  induction m with
  | nil => simp [insert, Sorted]
  | cons p rest ih =>
    obtain ⟨k', v'⟩ := p
    have hr : Sorted rest := (List.pairwise_cons.mp h).2
    have hk' : ∀ q ∈ rest, lt k' q.1 = true := (List.pairwise_cons.mp h).1
    unfold insert
    by_cases he : (k' == k) = true
    · have : k' = k := by simpa using he
      subst this
      simp only [he, if_true]
      exact List.pairwise_cons.mpr ⟨hk', hr⟩
    · simp only [he, if_false]
      by_cases hl : lt k k' = true
      · simp only [hl, if_true]
        refine List.pairwise_cons.mpr ⟨?_, h⟩
        intro q hq
        rcases List.mem_cons.mp hq with rfl | hq
        · exact hl
        · exact lt_trans _ _ _ hl (hk' q hq)
      · simp only [hl, if_false]
        have hne : k ≠ k' := fun e => he (by simp [e])
        have hgt : lt k' k = true := lt_total k k' hne (by simpa using hl)
        refine List.pairwise_cons.mpr ⟨?_, ih hr⟩
        intro q hq
        have : q = (k, v) ∨ q ∈ rest := GFS.SMapL.mem_insert rest k v q hq
        rcases this with rfl | hq
        · exact hgt
        · exact hk' q hq

end GFS.SMap
