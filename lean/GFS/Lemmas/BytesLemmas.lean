import GFS.Base.Bytes
/- helper lemmas about the `strings.*` models -/
namespace GFS.Bytes

theorem splitOn1_ne_nil (d : UInt8) (s : Bytes) : splitOn1 d s ≠ [] := by
  induction s with
  | nil => simp [splitOn1]
  | cons c cs ih =>
    unfold splitOn1
    split
    · simp
    · split
      · simp
      · simp

/-- no piece of a split contains the separator -/
theorem splitOn1_no_sep (d : UInt8) (s : Bytes) : ∀ l ∈ splitOn1 d s, d ∉ l := by
  induction s with
  | nil => intro l hl; simp [splitOn1] at hl; subst hl; simp
  | cons c cs ih =>
    intro l hl
    unfold splitOn1 at hl
    split at hl
    · rcases List.mem_cons.mp hl with h | h
      · subst h; simp
      · exact ih l h
    · rename_i hc
      split at hl
      · rename_i heq; exact absurd heq (splitOn1_ne_nil d cs)
      · rename_i p ps heq
        rcases List.mem_cons.mp hl with h | h
        · subst h
          have hp : d ∉ p := ih p (by rw [heq]; simp)
          intro hm
          rcases List.mem_cons.mp hm with h1 | h1
          · subst h1; simp at hc
          · exact hp h1
        · exact ih l (by rw [heq]; simp [h])

/-- a predicate that holds of the separator holds of every byte iff it holds of every
    byte of every piece -/
theorem all_splitOn1 (p : UInt8 → Bool) (d : UInt8) (hd : p d = true) (s : Bytes) :
    s.all p = (splitOn1 d s).all (fun l => l.all p) := by
  induction s with
  | nil => simp [splitOn1]
  | cons c cs ih =>
    unfold splitOn1
    split
    · rename_i hc
      have : c = d := by simpa using hc
      subst this
      simp [hd, ih]
    · split
      · rename_i heq; exact absurd heq (splitOn1_ne_nil d cs)
      · rename_i q qs heq
        rw [heq] at ih
        simp only [List.all_cons] at ih ⊢
        rw [ih, Bool.and_assoc]

/-- the first byte of a string is the first byte of its first piece, when that is non-empty -/
theorem head_splitOn1 (d : UInt8) (s : Bytes) (l : Bytes) (ls : List Bytes)
    (h : splitOn1 d s = l :: ls) (hl : l ≠ []) : s.head? = l.head? := by
  cases s with
  | nil => simp [splitOn1] at h; exact absurd h.1 hl
  | cons c cs =>
    unfold splitOn1 at h
    split at h
    · simp at h; exact absurd h.1 hl
    · split at h
      · rename_i heq; exact absurd heq (splitOn1_ne_nil d cs)
      · simp at h; rw [← h.1]; simp

/-- the last byte of a string is the last byte of its last piece, when that is non-empty -/
theorem getLast_splitOn1 (d : UInt8) (s : Bytes) :
    (splitOn1 d s).getLast?.bind (fun l => l.getLast?) = 
      (if (splitOn1 d s).getLast?.any (fun l => !l.isEmpty) then s.getLast? else none) := by
  induction s with
  | nil => simp [splitOn1]
  | cons c cs ih =>
    unfold splitOn1
    split
    · rename_i hc
      have hne := splitOn1_ne_nil d cs
      rw [List.getLast?_cons_of_ne_nil hne] at *
      rw [ih]
      split
      · rename_i h
        -- cs is non-empty here
        cases cs with
        | nil => simp [splitOn1] at h
        | cons x xs => simp
      · rfl
    · split
      · rename_i heq; exact absurd heq (splitOn1_ne_nil d cs)
      · rename_i q qs heq
        rw [heq] at ih
        cases qs with
        | nil =>
          simp only [List.getLast?_singleton, Option.bind_some] at ih ⊢
          cases q with
          | nil =>
            have : cs = [] := by
              cases cs with
              | nil => rfl
              | cons x xs =>
                exfalso
                unfold splitOn1 at heq
                split at heq
                · simp at heq; exact absurd heq (splitOn1_ne_nil d xs)
                · split at heq
                  · rename_i h2; exact absurd h2 (splitOn1_ne_nil d xs)
                  · simp at heq
            subst this; simp
          | cons y ys =>
            simp at ih ⊢
            cases cs with
            | nil => simp [splitOn1] at heq
            | cons x xs => simp at ih ⊢; exact ih
        | cons r rs =>
          rw [List.getLast?_cons_cons] at ih ⊢
          rw [ih]
          split
          · rename_i h
            cases cs with
            | nil => simp [splitOn1] at heq
            | cons x xs => simp
          · rfl

end GFS.Bytes
