import GFS.Model.HostBucket
set_option linter.unusedSimpArgs false
set_option linter.unusedVariables false
/-
  C16 — path-style and virtual-host-style addressing reach the same bucket and key.
-/
namespace GFS.Props.C16
open GFS GFS.Bytes GFS.Model

/-! ### trimming lemmas -/

theorem trimLeft1_replicate (d : UInt8) (n : Nat) (s : Bytes) :
    trimLeft1 d (List.replicate n d ++ s) = trimLeft1 d s := by
  induction n with
  | zero => simp
  | succ n ih => simp [List.replicate_succ, trimLeft1, ih]

theorem trimLeft1_of_head_ne (d c : UInt8) (s : Bytes) (h : c ≠ d) : trimLeft1 d (c :: s) = c :: s := by
  have : (c == d) = false := by simpa using h
  simp [trimLeft1, this]

/-- stripping leading and trailing separators from `d^i ++ core ++ d^j` gives `core` when `core`
    neither starts nor ends with the separator (and is not empty) -/
theorem trim1_core (d : UInt8) (i j : Nat) (core : Bytes) (c0 cl : UInt8) (mid : Bytes)
    (hcore : core = c0 :: mid ∨ True) (hs : core.head? = some c0) (he : core.getLast? = some cl)
    (h0 : c0 ≠ d) (hl : cl ≠ d) :
    trim1 d (List.replicate i d ++ core ++ List.replicate j d) = core := by
  unfold trim1
  rw [List.append_assoc, trimLeft1_replicate]
  -- core starts with c0 ≠ d
  cases core with
  | nil => simp at hs
  | cons a rest =>
    simp only [List.head?_cons, Option.some.injEq] at hs
    subst hs
    rw [List.cons_append, trimLeft1_of_head_ne d a _ h0]
    -- now reverse: replicate j d ++ reverse (a :: rest)
    have hrev : (a :: (rest ++ List.replicate j d)).reverse = List.replicate j d ++ (a :: rest).reverse := by
      simp [List.reverse_append, List.reverse_replicate]
    rw [hrev, trimLeft1_replicate]
    -- reverse (a :: rest) starts with cl ≠ d
    have hne : (a :: rest).reverse ≠ [] := by simp
    obtain ⟨x, xs, hx⟩ := List.exists_cons_of_ne_nil hne
    have hxl : x = cl := by
      have : (a :: rest).getLast? = some x := by
        rw [List.getLast?_eq_head?_reverse, hx]; rfl
      rw [this] at he; exact Option.some.inj he
    rw [hx, trimLeft1_of_head_ne d x xs (hxl ▸ hl), ← hx, List.reverse_reverse]

theorem indexOf_append (d : UInt8) (b rest : Bytes) (h : d ∉ b) : indexOf d (b ++ d :: rest) = some b.length := by
  induction b with
  | nil => simp [indexOf]
  | cons c cs ih =>
    have hc : (c == d) = false := by
      have : c ≠ d := fun e => h (e ▸ List.mem_cons_self ..)
      simpa using this
    have : d ∉ cs := fun m => h (List.mem_cons_of_mem _ m)
    simp [indexOf, hc, ih this]

theorem indexOf_none (d : UInt8) (b : Bytes) (h : d ∉ b) : indexOf d b = none := by
  induction b with
  | nil => rfl
  | cons c cs ih =>
    have hc : (c == d) = false := by
      have : c ≠ d := fun e => h (e ▸ List.mem_cons_self ..)
      simpa using this
    have : d ∉ cs := fun m => h (List.mem_cons_of_mem _ m)
    simp [indexOf, hc, ih this]

/-! ### the router -/

/-- **outer_slashes_irrelevant**: any number of extra slashes before the bucket and after the
    key addresses the same (bucket, key), for a bucket name without '/' and a key that neither
    starts nor ends with '/'. -/
theorem outer_slashes_irrelevant (i j : Nat) (b k : Bytes) (b0 : UInt8) (bs : Bytes) (kl : UInt8)
    (hb : b = b0 :: bs) (hbs : (47 : UInt8) ∉ b) (hkl : k.getLast? = some kl) (hkl47 : kl ≠ 47) :
    routeSplit (List.replicate i 47 ++ (b ++ 47 :: k) ++ List.replicate j 47) = (b, k) := by
  have hb0 : b0 ≠ 47 := by
    intro e; apply hbs; rw [hb, e]; exact List.mem_cons_self ..
  have hcore := trim1_core 47 i j (b ++ 47 :: k) b0 kl [] (Or.inr trivial)
    (by rw [hb]; rfl)
    (by
      rw [List.getLast?_append]
      cases k with
      | nil => simp at hkl
      | cons x xs => simp [List.getLast?_cons_cons] at hkl ⊢; simpa using hkl)
    hb0 hkl47
  unfold routeSplit
  simp only [hcore, indexOf_append 47 b k hbs]
  simp

/-- a bucket alone (with or without trailing slashes) is routed to the bucket with no key -/
theorem bucket_only (i j : Nat) (b : Bytes) (b0 bl : UInt8) (hh : b.head? = some b0) (hl : b.getLast? = some bl)
    (hbs : (47 : UInt8) ∉ b) :
    routeSplit (List.replicate i 47 ++ b ++ List.replicate j 47) = (b, []) := by
  have h0 : b0 ≠ 47 := by
    intro e; apply hbs
    cases b with
    | nil => simp at hh
    | cons x xs => simp at hh; rw [hh, e]; exact List.mem_cons_self ..
  have h1 : bl ≠ 47 := by
    intro e; apply hbs
    rw [← e]; exact List.mem_of_getLast? hl
  have := trim1_core 47 i j b b0 bl [] (Or.inr trivial) hh hl h0 h1
  unfold routeSplit
  simp only [this, indexOf_none 47 b hbs]

/-! ### host-style rewriting -/

theorem firstLabel_label (b rest : Bytes) (h : (46 : UInt8) ∉ b) : firstLabel (b ++ 46 :: rest) = b := by
  unfold firstLabel
  induction b with
  | nil => simp [List.takeWhile]
  | cons c cs ih =>
    have hc : (c == 46) = false := by
      have : c ≠ 46 := fun e => h (e ▸ List.mem_cons_self ..)
      simpa using this
    have : (46 : UInt8) ∉ cs := fun m => h (List.mem_cons_of_mem _ m)
    simp [List.takeWhile, hc, ih this]

/-- **host_eq_path**: with host-bucket routing, a request for host `<bucket>.<anything>` and path
    `p` reaches the router with exactly the path `/<bucket>` ++ p of the path-style request
    (and with `/<bucket>` when p is "/", which the router treats like `/<bucket>/`): the two
    requests address the same bucket and key, whatever the method, query, headers and body,
    because everything after the rewrite is the same handler on the same request. -/
theorem host_eq_path (b rest p : Bytes) (b0 bl : UInt8) (hdot : (46 : UInt8) ∉ b)
    (hh : b.head? = some b0) (hl : b.getLast? = some bl) (hslash : (47 : UInt8) ∉ b) :
    hostRewrite (b ++ 46 :: rest) p = (if p = [47] then 47 :: b else 47 :: b ++ p) ∧
    routeSplit (hostRewrite (b ++ 46 :: rest) p) = routeSplit (47 :: b ++ p) := by
  unfold hostRewrite withBucket
  rw [firstLabel_label b rest hdot]
  by_cases hp : p = [47]
  · subst hp
    refine ⟨by simp, ?_⟩
    simp only [beq_self_eq_true, if_true, List.append_nil]
    have e1 := bucket_only 1 0 b b0 bl hh hl hslash
    have e2 := bucket_only 1 1 b b0 bl hh hl hslash
    simp only [List.replicate_one, List.replicate_zero, List.append_nil] at e1 e2
    have a1 : [(47 : UInt8)] ++ b = 47 :: b := rfl
    have a2 : [(47 : UInt8)] ++ b ++ [47] = 47 :: b ++ [47] := rfl
    rw [a1] at e1
    rw [a2] at e2
    rw [e1, e2]
  · have : (p == [47]) = false := by simpa using hp
    simp [this, hp]

/-- **base_fallback**: with a list of bases, a host for which no base matches is routed exactly
    as in path-style mode; and a match means the host really is `<label><"."+base>` for a
    configured base with a dot-free label. -/
theorem base_fallback (bases : List Bytes) (host path : Bytes) (h : matchBucket bases host = none) :
    baseRewrite bases host path = path := by
  unfold baseRewrite; rw [h]

theorem hasPrefix_eq (s p : Bytes) (h : hasPrefix s p = true) : s = p ++ s.drop p.length := by
  induction p generalizing s with
  | nil => simp
  | cons c cs ih =>
    cases s with
    | nil => simp [hasPrefix] at h
    | cons a as =>
      simp only [hasPrefix, Bool.and_eq_true, beq_iff_eq] at h
      obtain ⟨e, h2⟩ := h
      subst e
      simp only [List.cons_append, List.length_cons, List.drop_succ_cons]
      rw [← ih as h2]

theorem matchBucket_sound (bases : List Bytes) (host bucket : Bytes) (h : matchBucket bases host = some bucket) :
    ∃ base ∈ bases, host = bucket ++ normBase base ∧ (46 : UInt8) ∉ bucket := by
  induction bases with
  | nil => simp [matchBucket] at h
  | cons base rest ih =>
    unfold matchBucket at h
    simp only at h
    split at h
    · rename_i hsuf
      split at h
      · obtain ⟨b', hb', e⟩ := ih h
        exact ⟨b', List.mem_cons_of_mem _ hb', e⟩
      · rename_i hdot
        simp only [Option.some.injEq] at h
        subst h
        refine ⟨base, List.mem_cons_self .., ?_, by simpa using hdot⟩
        -- host = take ++ suffix
        unfold hasSuffix at hsuf
        have := hasPrefix_eq _ _ hsuf
        have hrev := congrArg List.reverse this
        simp only [List.reverse_reverse, List.reverse_append] at hrev
        have hlen : (normBase base).length ≤ host.length := by
          have := congrArg List.length this
          simp at this; omega
        have htake : List.take (host.length - (normBase base).length) host =
            (List.drop (List.reverse (normBase base)).length (List.reverse host)).reverse := by
          rw [List.length_reverse, List.drop_reverse, List.reverse_reverse]
        rw [htake]
        exact hrev
    · obtain ⟨b', hb', e⟩ := ih h
      exact ⟨b', List.mem_cons_of_mem _ hb', e⟩

/-! Non-vacuity -/
example : hostRewrite [109, 121, 98, 46, 108, 111, 99] [47, 107] = [47, 109, 121, 98, 47, 107] := by decide
example : routeSplit [47, 47, 98, 47, 107, 47, 47] = ([98], [107]) := by decide
example : matchBucket [[101, 120]] [98, 46, 101, 120] = some [98] := by decide

end GFS.Props.C16
