import GFS.Props.C06R
import GFS.Props.C14W
set_option linter.unusedSimpArgs false
set_option linter.unusedVariables false
/-
  C14 over whole histories: what ListParts shows IS what the history of part uploads leaves behind.
  Props/C14 / C14W relate the listing (and every paged walk) to `held parts 0`, the filled slots
  with their true numbers; Props/C06R relates the slots of a pending upload to the specification's
  record of the most recent body per part number after EVERY interleaving of multipart requests.
  Composed: the parts listed are exactly the part numbers that have been uploaded, each once, in
  ascending order, each with the size and digest of its MOST RECENT upload.
-/
namespace GFS.Props.C14R
open GFS GFS.Model GFS.Model.Upl GFS.Props.C14 GFS.Props.C06R GFS.Props.C06F
open GFS.Spec.Multipart (Upload)

/-- the held parts are exactly the filled slots, under their true numbers -/
theorem mem_held (parts : List (Option Part)) (n : Nat) (it : PartItem) :
    it ∈ held parts n ↔ ∃ j p, parts[j]? = some (some p) ∧ it = ⟨n + j, p.body.length, p.hash⟩ := by
  induction parts generalizing n with
  | nil => simp [held]
  | cons x rest ih =>
    cases x with
    | none =>
      simp only [held]
      rw [ih (n + 1)]
      constructor
      · rintro ⟨j, p, hj, rfl⟩
        exact ⟨j + 1, p, by simpa using hj, by simp; omega⟩
      · rintro ⟨j, p, hj, rfl⟩
        cases j with
        | zero => simp at hj
        | succ j => exact ⟨j, p, by simpa using hj, by simp; omega⟩
    | some q =>
      simp only [held, List.mem_cons]
      rw [ih (n + 1)]
      constructor
      · rintro (rfl | ⟨j, p, hj, rfl⟩)
        · exact ⟨0, q, by simp, by simp⟩
        · exact ⟨j + 1, p, by simpa using hj, by simp; omega⟩
      · rintro ⟨j, p, hj, rfl⟩
        cases j with
        | zero =>
          left
          simp only [List.getElem?_cons_zero, Option.some.injEq] at hj
          subst hj; simp
        | succ j => right; exact ⟨j, p, by simpa using hj, by simp; omega⟩

/-- every listed number is at least the number of the first slot -/
theorem held_ge (parts : List (Option Part)) (n : Nat) : ∀ it ∈ held parts n, n ≤ it.number := by
  intro it hit
  obtain ⟨j, p, _, rfl⟩ := (mem_held parts n it).mp hit
  simp

/-- **held_ascending**: the listed part numbers are strictly ascending — each part once -/
theorem held_ascending (parts : List (Option Part)) (n : Nat) : (held parts n).Pairwise (fun a b => a.number < b.number) := by
  induction parts generalizing n with
  | nil => simp [held]
  | cons x rest ih =>
    cases x with
    | none => simp only [held]; exact ih (n + 1)
    | some q =>
      simp only [held, List.pairwise_cons]
      refine ⟨?_, ih (n + 1)⟩
      intro it hit
      have := held_ge rest (n + 1) it hit
      simp; omega

/-- **parts_listing_is_history**: when the slots are related to the specification's record (every
    state an interleaving of requests reaches, `C06R.tracked_parts_exact`), a part number ≥ 1 is
    listed exactly when a body has been uploaded under it, with the length of the MOST RECENT such
    body as size and its MD5 as digest. -/
theorem parts_listing_is_history (md5 : Bytes → Bytes) (parts : List (Option Part)) (latest : List (Nat × Bytes))
    (h : PartsRel md5 parts latest) (it : PartItem) (hn : 1 ≤ it.number) :
    it ∈ held parts 0 ↔
      ∃ body, (latest.find? (·.1 == it.number)).map (·.2) = some body ∧ it.size = body.length ∧ it.hash = md5 body := by
  rw [mem_held]
  constructor
  · rintro ⟨j, p, hj, rfl⟩
    have hs : slot parts j = some p := by simp [slot, hj]
    have hb := h.bodies j (by simpa using hn)
    rw [hs] at hb
    refine ⟨p.body, ?_, by simp, ?_⟩
    · simpa using hb.symm
    · simpa using h.hashes j p hs
  · rintro ⟨body, hf, hsz, hh⟩
    have hb := h.bodies it.number hn
    rw [hf] at hb
    cases hs : slot parts it.number with
    | none => rw [hs] at hb; simp at hb
    | some p =>
      rw [hs] at hb
      simp only [Option.map_some, Option.some.injEq] at hb
      have hj : parts[it.number]? = some (some p) := by
        unfold slot at hs
        cases hq : parts[it.number]? with
        | none => simp [hq] at hs
        | some op =>
          cases op with
          | none => simp [hq] at hs
          | some p' => simp [hq] at hs; subst hs; rfl
      refine ⟨it.number, p, hj, ?_⟩
      have hhash := h.hashes it.number p hs
      cases it with
      | mk num sz hsh =>
        simp only at hsz hh hb hhash ⊢
        simp [hsz, hh, hb, hhash]

/-- the unpaginated ListParts of a pending upload is `held`: with `parts_listing_is_history` and
    `C06R.tracked_parts_exact` it is the history's answer; `C14W.listParts_walk_exact` carries the
    same to every paged walk -/
theorem listParts_of_pending (u : Upl) (b : Bytes) (k : Key) (id : Nat) (m : MPU) (hp : pending u b k id = some m)
    (limit : Int) (hl : ((held m.parts 0).length : Int) ≤ limit) :
    u.listParts b k id 0 limit = .ok ⟨held m.parts 0, false, 0⟩ := by
  obtain ⟨bu, hg⟩ := pending_get u b k id m hp
  unfold Upl.listParts
  simp only [hg]
  have : ¬ 0 > m.parts.length := by omega
  simp only [this, if_false, List.drop_zero]
  rw [listParts_exact limit m.parts 0 0 [] (by omega)]
  simp

/-! Non-vacuity: parts 2, 1 and 2 again: the listing shows 1 and 2, part 2 with the size of its re-upload. -/
example : held (setPart (setPart (setPart [] 2 ⟨[7], [7]⟩) 1 ⟨[5, 5], [5, 5]⟩) 2 ⟨[8, 8, 8], [8, 8, 8]⟩) 0 =
    [⟨1, 2, [5, 5]⟩, ⟨2, 3, [8, 8, 8]⟩] := by decide

end GFS.Props.C14R
