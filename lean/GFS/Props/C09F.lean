import GFS.Props.C09
import GFS.Model.Front
set_option linter.unusedSimpArgs false
set_option linter.unusedVariables false
/-
  C09 at handler level: every request the handlers of gofakes3.go can be given — any operation,
  any bucket, key, version id, prefix, delimiter, marker, page size, metadata and body — in every
  state reachable from the empty store by such requests, in every configuration, is answered
  without a panic, and leaves a state in which that is true again.
-/
namespace GFS.Props.C09F
open GFS GFS.Model GFS.SMapL GFS.Props.C09

/-- the requests of the modelled surface, with arbitrary parameters -/
inductive Req where
  | createBucket (b : Bytes)
  | headBucket (b : Bytes)
  | deleteBucket (b : Bytes) (force : Bool)
  | listBuckets
  | putObject (b : Bytes) (k : Key) (md : Meta) (body : Bytes)
  | getObject (b : Bytes) (k : Key) (vid : Option Nat) (isHead : Bool)
  | deleteObject (b : Bytes) (k : Key)
  | deleteObjectVersion (b : Bytes) (k : Key) (vid : Nat)
  | deleteMulti (b : Bytes) (objs : List (Key × Option Nat))
  | copyObject (sb : Bytes) (sk : Key) (db : Bytes) (dk : Key) (md : Meta)
  | listBucket (b : Bytes) (p : Prefix) (hasMarker : Bool) (marker : Bytes) (maxKeys : Int) (v2 : Bool)
  | getVersioning (b : Bytes)
  | putVersioning (b : Bytes) (status : Option Bool) (mfa : Bool)
  | listVersions (b : Bytes) (p : Prefix) (keyMarker : Bytes) (verMarker : Option Nat) (maxKeys : Int)

def handle (md5 : Bytes → Bytes) (cfg : Cfg) (m : Mem) : Req → Mem × Out
  | .createBucket b => Front.createBucket m b
  | .headBucket b => Front.headBucket cfg m b
  | .deleteBucket b force => Front.deleteBucket cfg m b force
  | .listBuckets => Front.listBuckets m
  | .putObject b k md body => Front.putObject md5 cfg m b k md body
  | .getObject b k vid isHead => Front.getObject cfg m b k vid isHead
  | .deleteObject b k => Front.deleteObject cfg m b k
  | .deleteObjectVersion b k vid => Front.deleteObjectVersion cfg m b k vid
  | .deleteMulti b objs => Front.deleteMulti cfg m b objs
  | .copyObject sb sk db dk md => Front.copyObject md5 cfg m sb sk db dk md
  | .listBucket b p hm marker mk v2 => Front.listBucket cfg m b p hm marker mk v2
  | .getVersioning b => Front.getVersioning cfg m b
  | .putVersioning b st mfa => Front.putVersioning cfg m b st mfa
  | .listVersions b p km vm mk => Front.listVersions cfg m b p km vm mk

def NoPanic (o : Out) : Prop := ∀ s, o ≠ .panic s

/-- what every handler establishes -/
def Good (r : Mem × Out) : Prop := C09.Inv r.1 ∧ NoPanic r.2

theorem ofRes_noPanic {α : Type} (r : Res α) (f : α → Out) (hr : ∀ s, r ≠ .panic s) (hf : ∀ a, NoPanic (f a)) :
    NoPanic (Out.ofRes r f) := by
  cases r with
  | ok a => exact hf a
  | err c => intro s; simp [Out.ofRes]
  | panic s => exact absurd rfl (hr s)

theorem ensure_good (cfg : Cfg) (m : Mem) (b : Bytes) (h : C09.Inv m) :
    C09.Inv (Front.ensureBucket cfg m b).1 ∧ ∀ s, (Front.ensureBucket cfg m b).2 ≠ .panic s := by
  unfold Front.ensureBucket
  split
  · exact ⟨h, by intro s; simp⟩
  · split
    · split
      · exact ⟨h, by intro s; simp⟩
      · have := createBucket_preserves m b h
        cases hc : m.createBucket b with
        | mk m' r =>
          rw [hc] at this
          cases r <;> exact ⟨this, by intro s; simp⟩
    · exact ⟨h, by intro s; simp⟩

/-- a handler run after `ensureBucketExists` is good if its body is good on every good store -/
theorem withBucket_good (cfg : Cfg) (m : Mem) (b : Bytes) (f : Mem → Mem × Out) (h : C09.Inv m)
    (hf : ∀ m', C09.Inv m' → Good (f m')) : Good (Front.withBucket cfg m b f) := by
  obtain ⟨h1, h2⟩ := ensure_good cfg m b h
  unfold Front.withBucket
  cases he : Front.ensureBucket cfg m b with
  | mk m' r =>
    rw [he] at h1 h2
    cases r with
    | ok u => exact hf m' h1
    | err c => exact ⟨h1, by intro s; simp⟩
    | panic s => exact absurd rfl (h2 s)

theorem put_noPanic (md5 : Bytes → Bytes) (m : Mem) (b : Bytes) (k : Key) (md : Meta) (body : Bytes) :
    ∀ s, (m.put md5 b k md body).2 ≠ .panic s := by
  intro s
  unfold Mem.put Mem.putCommit
  cases SMap.find m.buckets b <;> simp

theorem delete_noPanic (m : Mem) (b : Bytes) (k : Key) : ∀ s, (m.delete b k).2 ≠ .panic s := by
  intro s; unfold Mem.delete; cases SMap.find m.buckets b <;> simp

theorem deleteVersion_noPanic (m : Mem) (b : Bytes) (k : Key) (vid : Nat) : ∀ s, (m.deleteVersion b k vid).2 ≠ .panic s := by
  intro s; unfold Mem.deleteVersion; cases SMap.find m.buckets b <;> simp

theorem deleteFold_inv (b : Bytes) (ks : List Key) : ∀ m, C09.Inv m → C09.Inv (ks.foldl (fun acc k => (Mem.delete acc b k).1) m) := by
  induction ks with
  | nil => intro m h; exact h
  | cons k ks ih => intro m h; exact ih _ (delete_preserves m b k h)

theorem deleteVFold_inv (b : Bytes) (objs : List (Key × Option Nat)) : ∀ m, C09.Inv m →
    C09.Inv (objs.foldl (fun acc (p : Key × Option Nat) =>
        match p.2 with
        | some vid => (Mem.deleteVersion acc b p.1 vid).1
        | none => (Mem.delete acc b p.1).1) m) := by
  induction objs with
  | nil => intro m h; exact h
  | cons p ps ih =>
    intro m h
    simp only [List.foldl_cons]
    apply ih
    cases p.2 with
    | none => exact delete_preserves m b p.1 h
    | some vid => exact deleteVersion_preserves m b p.1 vid h

theorem getVersion_noPanic (m : Mem) (b : Bytes) (k : Key) (vid : Nat) : ∀ s, m.getVersion b k vid ≠ .panic s := by
  intro s
  unfold Mem.getVersion
  cases SMap.find m.buckets b with
  | none => simp
  | some bk =>
    simp only [Bucket.objectVersion]
    cases SMap.find bk.objects k with
    | none => simp
    | some o =>
      simp only
      cases o.data with
      | none => simp only; cases o.versions.find? (·.id == vid) <;> simp
      | some d =>
        simp only
        split
        · simp
        · cases o.versions.find? (·.id == vid) <;> simp

theorem verLoop_noPanic (p : Prefix) (masked : Bool) (mk : Int) (km : Bytes) (vm : Option Nat) (objs : List (Key × Obj)) :
    ∀ (cnt : Int) (acc : VersionList) (s : PanicSite), verLoop p masked mk km vm objs cnt acc ≠ .panic s := by
  induction objs with
  | nil => intro cnt acc s; simp [verLoop]
  | cons q rest ih =>
    intro cnt acc s
    obtain ⟨k, o⟩ := q
    unfold verLoop
    cases p.match_ k with
    | none => exact ih cnt acc s
    | some r =>
      obtain ⟨cp, mp⟩ := r
      cases cp with
      | true => exact ih _ _ s
      | false =>
        simp only
        split
        · simp
        · split
          · simp
          · split <;> simp
          · exact ih _ _ s

theorem listVersions_noPanic (m : Mem) (b : Bytes) (p : Prefix) (km : Bytes) (vm : Option Nat) (mk : Int) :
    ∀ s, m.listVersions b p km vm mk ≠ .panic s := by
  intro s
  unfold Mem.listVersions
  cases SMap.find m.buckets b with
  | none => simp
  | some bk =>
    simp only
    split
    · exact verLoop_noPanic _ _ _ _ _ _ _ _ s
    · split
      · simp
      · exact verLoop_noPanic _ _ _ _ _ _ _ _ s

/-- **handle_good**: in every configuration, for every request with arbitrary parameters, a
    store satisfying the invariant (no object without a current version) is taken to a store
    satisfying it, and the answer is not a panic -/
theorem handle_good (md5 : Bytes → Bytes) (cfg : Cfg) (m : Mem) (req : Req) (h : C09.Inv m) : Good (handle md5 cfg m req) := by
  cases req with
  | createBucket b =>
    simp only [handle, Front.createBucket]
    split
    · exact ⟨h, by intro s; simp⟩
    · refine ⟨createBucket_preserves m b h, ?_⟩
      apply ofRes_noPanic
      · intro s; unfold Mem.createBucket; split <;> simp
      · intro _ s; simp
  | headBucket b =>
    exact withBucket_good cfg m b _ h (fun m' h' => ⟨h', by intro s; simp⟩)
  | deleteBucket b force =>
    apply withBucket_good cfg m b _ h
    intro m' h'
    have dnp : ∀ (x : Mem) (s : PanicSite), (x.deleteBucket b).2 ≠ .panic s := by
      intro x s; unfold Mem.deleteBucket
      cases SMap.find x.buckets b with
      | none => simp
      | some bk => simp only; split <;> simp
    cases force with
    | false =>
      simp only [Bool.false_eq_true, if_false]
      exact ⟨deleteBucket_preserves m' b h', ofRes_noPanic _ _ (dnp m') (fun _ s => by simp)⟩
    | true =>
      simp only [if_true]
      have hfi : C09.Inv (m'.forceDeleteBucket b).1 := by
        unfold Mem.forceDeleteBucket
        cases SMap.find m'.buckets b with
        | none => exact h'
        | some bk => intro q hq; exact h' q (mem_erase _ _ q hq)
      cases hf : m'.forceDeleteBucket b with
      | mk m1 r =>
        rw [hf] at hfi
        cases r with
        | ok u =>
          simp only
          exact ⟨deleteBucket_preserves m1 b hfi, ofRes_noPanic _ _ (dnp m1) (fun _ s => by simp)⟩
        | err c => exact ⟨hfi, by intro s; simp [Out.ofRes]⟩
        | panic s' =>
          exfalso
          unfold Mem.forceDeleteBucket at hf
          cases hx : SMap.find m'.buckets b <;> simp [hx] at hf
  | listBuckets => exact ⟨h, by intro s; simp [handle, Front.listBuckets]⟩
  | putObject b k md body =>
    apply withBucket_good cfg m b _ h
    intro m' h'
    split
    · exact ⟨h', by intro s; simp⟩
    · have hp := put_preserves md5 m' b k md body h'
      have hn := put_noPanic md5 m' b k md body
      cases hx : m'.put md5 b k md body with
      | mk m2 r =>
        rw [hx] at hp hn
        cases r with
        | ok v => exact ⟨hp, by intro s; simp⟩
        | err c => exact ⟨hp, by intro s; simp⟩
        | panic s => exact absurd rfl (hn s)
  | getObject b k vid isHead =>
    apply withBucket_good cfg m b _ h
    intro m' h'
    cases vid with
    | none =>
      simp only
      have := read_no_panic m' b k h'
      cases hg : m'.get b k with
      | ok v => exact ⟨h', by intro s; simp⟩
      | err c => exact ⟨h', by intro s; simp⟩
      | panic s => exact absurd hg (this s)
    | some id =>
      simp only
      split
      · exact ⟨h', by intro s; simp⟩
      · have := getVersion_noPanic m' b k id
        cases hg : m'.getVersion b k id with
        | ok v => simp only; split <;> exact ⟨h', by intro s; simp⟩
        | err c => exact ⟨h', by intro s; simp⟩
        | panic s => exact absurd hg (this s)
  | deleteObject b k =>
    apply withBucket_good cfg m b _ h
    intro m' h'
    exact ⟨delete_preserves m' b k h', ofRes_noPanic _ _ (delete_noPanic m' b k) (fun _ s => by simp)⟩
  | deleteObjectVersion b k vid =>
    simp only [handle, Front.deleteObjectVersion]
    split
    · exact ⟨h, by intro s; simp⟩
    · apply withBucket_good cfg m b _ h
      intro m' h'
      exact ⟨deleteVersion_preserves m' b k vid h', ofRes_noPanic _ _ (deleteVersion_noPanic m' b k vid) (fun _ s => by simp)⟩
  | deleteMulti b objs =>
    apply withBucket_good cfg m b _ h
    intro m' h'
    split
    · refine ⟨?_, ?_⟩
      · simp only [Mem.deleteMultiVersions]
        cases SMap.find m'.buckets b with
        | none => exact h'
        | some bk => exact deleteVFold_inv b objs m' h'
      · apply ofRes_noPanic
        · intro s; unfold Mem.deleteMultiVersions; cases SMap.find m'.buckets b <;> simp
        · intro _ s; simp
    · refine ⟨?_, ?_⟩
      · simp only [Mem.deleteMulti]
        cases SMap.find m'.buckets b with
        | none => exact h'
        | some bk => exact deleteFold_inv b _ m' h'
      · apply ofRes_noPanic
        · intro s; unfold Mem.deleteMulti; cases SMap.find m'.buckets b <;> simp
        · intro _ s; simp
  | copyObject sb sk db dk md =>
    apply withBucket_good cfg m db _ h
    intro m' h'
    split
    · exact ⟨h', by intro s; simp⟩
    · have hr := read_no_panic m' sb sk h'
      have hh : m'.head sb sk = m'.get sb sk := rfl
      rw [hh]
      cases hg : m'.get sb sk with
      | err c => exact ⟨h', by intro s; simp⟩
      | panic s => exact absurd hg (hr s)
      | ok src =>
        simp only
        have hp := put_preserves md5 m' db dk (mergeMeta md (src.md.filter (fun p => !(p.1 == Front.aclKey)))) src.body h'
        have hn := put_noPanic md5 m' db dk (mergeMeta md (src.md.filter (fun p => !(p.1 == Front.aclKey)))) src.body
        cases hx : m'.put md5 db dk (mergeMeta md (src.md.filter (fun p => !(p.1 == Front.aclKey)))) src.body with
        | mk m2 r =>
          rw [hx] at hp hn
          cases r with
          | ok v => exact ⟨hp, by intro s; simp⟩
          | err c => exact ⟨hp, by intro s; simp⟩
          | panic s => exact absurd rfl (hn s)
  | listBucket b p hm marker mk v2 =>
    apply withBucket_good cfg m b _ h
    intro m' h'
    refine ⟨h', ?_⟩
    apply ofRes_noPanic
    · intro s
      split
      · exact listBucket_no_panic m' b p marker mk h' s
      · split
        · simp
        · exact listBucket_no_panic m' b p [] 0 h' s
    · intro _ s; simp
  | getVersioning b =>
    apply withBucket_good cfg m b _ h
    intro m' h'
    split
    · refine ⟨h', ofRes_noPanic _ _ ?_ (fun _ s => by simp)⟩
      intro s; unfold Mem.versioning; cases SMap.find m'.buckets b <;> simp
    · exact ⟨h', by intro s; simp⟩
  | putVersioning b st mfa =>
    apply withBucket_good cfg m b _ h
    intro m' h'
    split
    · split <;> exact ⟨h', by intro s; simp⟩
    · split
      · exact ⟨h', by intro s; simp⟩
      · refine ⟨setVersioning_preserves m' b _ h', ofRes_noPanic _ _ ?_ (fun _ s => by simp)⟩
        intro s; unfold Mem.setVersioning; cases SMap.find m'.buckets b <;> simp
  | listVersions b p km vm mk =>
    simp only [handle, Front.listVersions]
    split
    · exact ⟨h, by intro s; simp⟩
    · apply withBucket_good cfg m b _ h
      intro m' h'
      exact ⟨h', ofRes_noPanic _ _ (listVersions_noPanic m' b p km vm mk) (fun _ s => by simp)⟩

/-- request sequences -/
def serve (md5 : Bytes → Bytes) (cfg : Cfg) (m : Mem) : List Req → Mem × List Out
  | [] => (m, [])
  | r :: rs => let a := handle md5 cfg m r; let rest := serve md5 cfg a.1 rs; (rest.1, a.2 :: rest.2)

/-- **serve_never_panics**: in every configuration, every finite sequence of requests with
    arbitrary parameters, started from the empty store (or any store satisfying the invariant), is
    answered without a single panic, and the invariant holds at the end — so whatever was sent,
    the server goes on answering. -/
theorem serve_never_panics (md5 : Bytes → Bytes) (cfg : Cfg) (reqs : List Req) :
    ∀ m, C09.Inv m → C09.Inv (serve md5 cfg m reqs).1 ∧ ∀ o ∈ (serve md5 cfg m reqs).2, NoPanic o := by
  induction reqs with
  | nil => intro m h; exact ⟨h, by intro o ho; simp [serve] at ho⟩
  | cons r rs ih =>
    intro m h
    obtain ⟨h1, h2⟩ := handle_good md5 cfg m r h
    obtain ⟨g1, g2⟩ := ih _ h1
    refine ⟨g1, ?_⟩
    intro o ho
    simp only [serve, List.mem_cons] at ho
    rcases ho with rfl | ho
    · exact h2
    · exact g2 o ho

theorem serve_from_empty (md5 : Bytes → Bytes) (cfg : Cfg) (reqs : List Req) :
    ∀ o ∈ (serve md5 cfg Mem.empty reqs).2, NoPanic o :=
  (serve_never_panics md5 cfg reqs Mem.empty empty_inv).2

/-! Non-vacuity: a hostile little sequence (version delete of the only version, reads, a listing
    from an absurd marker) on a versioned bucket. -/
example : ((serve id {} Mem.empty [.createBucket [98, 107, 116], .putVersioning [98, 107, 116] (some true) false,
    .putObject [98, 107, 116] [107] [] [1], .deleteObjectVersion [98, 107, 116] [107] 1, .getObject [98, 107, 116] [107] none true,
    .listBucket [98, 107, 116] ⟨false, [], true, 47⟩ true [255] (-5) true, .listVersions [98, 107, 116] ⟨false, [], false, 0⟩ [107] (some 9) 1]).2.map
      (fun o => match o with | .err c => some c | _ => none)) =
    [none, none, none, none, some .NoSuchKey, none, none] := by decide

end GFS.Props.C09F
