import GFS.Generated.BackendFacts
import GFS.Model.Bolt
import GFS.Model.FsTree
/-
  The literals Model/Bolt and Model/FsTree share with the backends' source, re-read from /repo on
  every run (Generated/BackendFacts): if the source changes them, these theorems stop checking.
-/
namespace GFS.Props.BackendGen
open GFS GFS.Model

/-- the model's bookkeeping bucket is the one s3bolt names -/
theorem bolt_metaName_tied : Bolt.metaName = GFS.Generated.boltMetaName := rfl

/-- the model's record key is the one `bucketMetaKey` builds -/
theorem bolt_metaKey_tied (name : Bytes) : Bolt.metaKey name = GFS.Generated.boltMetaKeyPrefix ++ name := rfl

/-- **the bookkeeping bucket's name is no legal bucket name** (C10/C17): whatever name the source
    gives it, `ValidateBucketName` refuses that name, so no user bucket can ever collide with it -/
theorem bolt_meta_not_a_bucket_name : validateBucketName GFS.Generated.boltMetaName = false := by decide

/-- every object-level method of s3bolt opens its bolt bucket through `s3Bucket` (fix 0b7eacc),
    as `Model/Bolt` assumes -/
theorem bolt_s3Bucket_everywhere : GFS.Generated.boltDirectBucketUses = 0 := rfl

/-- s3afero `validKey` still has the body `Model/FsTree.keyPath` mirrors -/
theorem afero_validKey_tied : GFS.Generated.aferoValidKeyAsModelled = true := rfl

end GFS.Props.BackendGen
