import GFS.Props.C14
set_option linter.unusedSimpArgs false
set_option linter.unusedVariables false
/-
  C14, ListParts paging as a walk: following NextPartNumberMarker from the start visits every
  held part exactly once, in ascending part-number order, for every page size.
-/
namespace GFS.Props.C14W
open GFS GFS.Model GFS.Model.Upl GFS.Props.C14

/-- the client's walk over the parts of one upload: `pos` = the part-number marker -/
def walkParts (limit : Int) (parts : List (Option Part)) : Nat → Nat → List PartList
  | 0, _ => []
  | fuel + 1, pos =>
    let r := listPartsLoop limit (parts.drop pos) pos 0 []
    if r.truncated then r :: walkParts limit parts fuel r.next else [r]

theorem walkParts_exact (limit : Int) (hl : 1 ≤ limit) (parts : List (Option Part)) :
    ∀ (fuel pos : Nat), parts.length - pos < fuel →
      ((walkParts limit parts fuel pos).flatMap (·.parts)) = held (parts.drop pos) pos ∧
      (walkParts limit parts fuel pos).getLast?.map (·.truncated) = some false := by
  intro fuel
  induction fuel with
  | zero => intro pos h; omega
  | succ fuel ih =>
    intro pos hlen
    unfold walkParts
    obtain ⟨h1, h2⟩ := listParts_page_split limit hl (parts.drop pos) pos 0 (by omega) []
    by_cases ht : (listPartsLoop limit (parts.drop pos) pos 0 []).truncated = true
    · simp only [ht, if_true]
      obtain ⟨j, hj1, hj2, hj3, hj4⟩ := h2 ht
      -- the page ended before a held part at index j of the remainder: at least one part was consumed
      have hjpos : 0 < j := by
        -- cnt = 0 < limit: the first held part is always returned, so the stop is after it
        apply Nat.pos_of_ne_zero
        intro hj0
        subst hj0
        exfalso
        simp only [List.drop_zero, Nat.add_zero, List.nil_append] at hj3
        -- r.parts ++ held rest pos = held rest pos  ⇒  r.parts = []
        have hnil : (listPartsLoop limit (parts.drop pos) pos 0 []).parts = [] :=
          List.append_left_eq_self.mp hj3
        -- but a truncated page with limit ≥ 1 holds at least one part
        have hne : (listPartsLoop limit (parts.drop pos) pos 0 []).parts ≠ [] := by
          clear h1 h2 hj3 hj4 hj1 hnil
          generalize parts.drop pos = ps at ht
          generalize pos = n at ht
          induction ps generalizing n with
          | nil => simp [listPartsLoop] at ht
          | cons x xs ihx =>
            cases x with
            | none => simp only [listPartsLoop] at ht ⊢; exact ihx (n + 1) ht
            | some y =>
              unfold listPartsLoop
              have : ¬ (0 : Int) ≥ limit := by omega
              simp only [this, if_false]
              -- the accumulator is non-empty from here on
              have accne : ∀ (zs : List (Option Part)) (m : Nat) (c : Int) (a : List PartItem), a ≠ [] →
                  (listPartsLoop limit zs m c a).parts ≠ [] := by
                intro zs
                induction zs with
                | nil => intro m c a ha; simpa [listPartsLoop] using ha
                | cons z zs ihz =>
                  intro m c a ha
                  cases z with
                  | none => simp only [listPartsLoop]; exact ihz _ _ _ ha
                  | some w =>
                    unfold listPartsLoop
                    split
                    · exact ha
                    · exact ihz _ _ _ (by simp)
              exact accne xs (n + 1) (0 + 1) _ (by simp)
        exact hne hnil
      have hdrop : (parts.drop pos).drop j = parts.drop (pos + j) := by rw [List.drop_drop]
      rw [hj1]
      have hlen' : parts.length - (pos + j) < fuel := by
        simp at hj2; omega
      obtain ⟨g1, g2⟩ := ih (pos + j) hlen'
      refine ⟨?_, ?_⟩
      · rw [List.flatMap_cons, g1, ← hdrop]
        simpa using hj3
      · cases hw : walkParts limit parts fuel (pos + j) with
        | nil => rw [hw] at g2; simp at g2
        | cons w ws => rw [hw] at g2; rw [List.getLast?_cons_cons]; exact g2
    · have ht' : (listPartsLoop limit (parts.drop pos) pos 0 []).truncated = false := by simpa using ht
      simp only [ht', Bool.false_eq_true, if_false]
      refine ⟨?_, by simp [ht']⟩
      simp [h1 ht']

/-- **listParts_walk_exact**: for every upload, every page size ≥ 1: the walk from marker 0 ends
    on an untruncated page and its pages concatenate to exactly the held parts with their true part
    numbers, sizes and digests, ascending, each once. -/
theorem listParts_walk_exact (limit : Int) (hl : 1 ≤ limit) (parts : List (Option Part)) :
    ((walkParts limit parts (parts.length + 1) 0).flatMap (·.parts)) = held parts 0 ∧
    (walkParts limit parts (parts.length + 1) 0).getLast?.map (·.truncated) = some false := by
  have := walkParts_exact limit hl parts (parts.length + 1) 0 (by omega)
  simpa using this

/-! Non-vacuity: parts 1, 3, 4 held (slot 0 and 2 empty), page size 1 and 2. -/
example : ((walkParts 1 [none, some ⟨[1], [9]⟩, none, some ⟨[2, 2], [8]⟩, some ⟨[3], [7]⟩] 6 0).map (fun r => r.parts.map (·.number))) =
    [[1], [3], [4]] := by decide
example : ((walkParts 2 [none, some ⟨[1], [9]⟩, none, some ⟨[2, 2], [8]⟩, some ⟨[3], [7]⟩] 6 0).map (fun r => r.parts.map (·.number))) =
    [[1, 3], [4]] := by decide

end GFS.Props.C14W
