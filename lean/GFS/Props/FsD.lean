import GFS.Props.FsL
set_option linter.unusedSimpArgs false
set_option linter.unusedVariables false
/-
  C03 for the file-system backends, '/'-delimited listings: the ReadDir listing of
  Model/FsBackend (`listDir`) against the specification.
-/
namespace GFS.Props.FsD
open GFS GFS.Model GFS.Model.Fs GFS.Model.FsB GFS.Bytes GFS.SMapL GFS.Props.FsInv GFS.Props.FsR GFS.Props.FsL
open GFS.Props.C03M

/-! ### keys as paths -/

/-- the segments of a key that is a clean relative path -/
def GoodSeg (s : Bytes) : Prop := s ≠ [] ∧ s ≠ [46] ∧ s ≠ [46, 46] ∧ (47 : UInt8) ∉ s

theorem keyPath_segs (k : Bytes) (f : Path) (h : keyPath k = some f) : k ≠ [] ∧ f = splitOn1 47 k ∧ ∀ s ∈ f, GoodSeg s := by
  have he := keyPath_eq k f h
  unfold keyPath at h
  by_cases hk : k.isEmpty = true
  · simp [hk] at h
  · simp only [hk, Bool.false_eq_true, if_false] at h
    by_cases ha : (splitOn1 47 k).all (fun s => !s.isEmpty && s != [46] && s != [46, 46]) = true
    · refine ⟨by intro e; subst e; simp at hk, he, ?_⟩
      intro s hs
      rw [he] at hs
      have := List.all_eq_true.mp ha s hs
      simp only [Bool.and_eq_true, Bool.not_eq_true', bne_iff_ne, ne_eq] at this
      refine ⟨by intro e; subst e; simp at this, this.1.2, this.2, splitOn1_no_sep 47 k s hs⟩
    · simp [ha] at h

theorem key_head (k : Bytes) (f : Path) (h : keyPath k = some f) : k.head? ≠ some 47 := by
  obtain ⟨hk, hf, hg⟩ := keyPath_segs k f h
  cases hs : splitOn1 47 k with
  | nil => exact absurd hs (splitOn1_ne_nil 47 k)
  | cons l ls =>
    have hl : l ∈ f := by rw [hf, hs]; exact List.mem_cons_self ..
    obtain ⟨hne, _, _, hno⟩ := hg l hl
    rw [head_splitOn1 47 k l ls hs hne]
    intro e
    cases l with
    | nil => exact hne rfl
    | cons c cs => simp at e; subst e; exact hno (List.mem_cons_self ..)

theorem match_path (hasP : Bool) (pfx k : Bytes) (f : Path) (hk : keyPath k = some f) (hp : pfx.head? ≠ some 47) :
    (⟨hasP, pfx, true, 47⟩ : Prefix).match_ k =
      (if f.length < (splitOn1 47 pfx).length then none
       else if !partsMatch f (splitOn1 47 pfx) then none
       else some (join1 47 (f.take (splitOn1 47 pfx).length) ++ (if f.length != (splitOn1 47 pfx).length then [47] else []) != k,
                  join1 47 (f.take (splitOn1 47 pfx).length) ++ (if f.length != (splitOn1 47 pfx).length then [47] else []))) := by
  obtain ⟨_, hf, _⟩ := keyPath_segs k f hk
  unfold Prefix.match_
  simp only [Bool.not_true, Bool.and_false, Bool.false_eq_true, if_false, trimLeft1_id 47 pfx hp, trimLeft1_id 47 k (key_head k f hk), ← hf]


theorem join1_append (d : UInt8) : ∀ (a b : List Bytes), a ≠ [] → b ≠ [] → join1 d (a ++ b) = join1 d a ++ d :: join1 d b := by
  intro a
  induction a with
  | nil => intro b ha; exact absurd rfl ha
  | cons x xs ih =>
    intro b _ hb
    cases xs with
    | nil =>
      cases b with
      | nil => exact absurd rfl hb
      | cons y ys => simp [join1]
    | cons z zs =>
      have := ih b (by simp) hb
      simp only [List.cons_append] at this ⊢
      simp only [join1, this, List.append_assoc, List.cons_append]

theorem join1_ne_nil (d : UInt8) (x : Bytes) (xs : List Bytes) (hx : x ≠ []) : join1 d (x :: xs) ≠ [] := by
  cases xs with
  | nil => simpa [join1] using hx
  | cons y ys => simp [join1, hx]

theorem splitOn1_length_pos (d : UInt8) (s : Bytes) : 1 ≤ (splitOn1 d s).length := by
  cases h : splitOn1 d s with
  | nil => exact absurd h (splitOn1_ne_nil d s)
  | cons a b => simp

/-- **match_path_cases**: `Prefix.Match` with delimiter '/' on a key that is a clean relative
    path, in terms of the key's segments `f` and the prefix's segments `pre` -/
theorem match_path_cases (hasP : Bool) (pfx k : Bytes) (f : Path) (hk : keyPath k = some f) (hp : pfx.head? ≠ some 47) :
    (⟨hasP, pfx, true, 47⟩ : Prefix).match_ k =
      (if f.length < (splitOn1 47 pfx).length then none
       else if !partsMatch f (splitOn1 47 pfx) then none
       else if f.length = (splitOn1 47 pfx).length then some (false, k)
       else some (true, join1 47 (f.take (splitOn1 47 pfx).length) ++ [47])) := by
  rw [match_path hasP pfx k f hk hp]
  obtain ⟨hkne, hf, hg⟩ := keyPath_segs k f hk
  have hn := splitOn1_length_pos 47 pfx
  generalize (splitOn1 47 pfx) = pre at *
  by_cases h1 : f.length < pre.length
  · simp [h1]
  · simp only [h1, if_false]
    by_cases h2 : partsMatch f pre = true
    · simp only [h2, Bool.not_true, Bool.false_eq_true, if_false]
      by_cases h3 : f.length = pre.length
      · have ht : f.take pre.length = f := by rw [← h3]; exact List.take_length
        have hj : join1 47 f = k := by rw [hf]; exact join_split 47 k
        simp [h3, ht, hj]
      · have hlt : pre.length < f.length := by omega
        have hne : (f.length != pre.length) = true := by simpa using h3
        simp only [h3, if_false, hne, if_true]
        congr 1
        -- the matched part is a proper prefix of the key
        have hsplit : f = f.take pre.length ++ f.drop pre.length := (List.take_append_drop _ _).symm
        have ha : f.take pre.length ≠ [] := by
          intro e; have := congrArg List.length e; simp only [List.length_take, List.length_nil] at this; omega
        have hb : f.drop pre.length ≠ [] := by
          intro e; have := congrArg List.length e; simp only [List.length_drop, List.length_nil] at this; omega
        have hj : k = join1 47 (f.take pre.length) ++ 47 :: join1 47 (f.drop pre.length) := by
          rw [← join1_append 47 _ _ ha hb, ← hsplit, hf]; exact (join_split 47 k).symm
        have hdrop : join1 47 (f.drop pre.length) ≠ [] := by
          cases hd : f.drop pre.length with
          | nil => exact absurd hd hb
          | cons x xs =>
            apply join1_ne_nil
            have hx : x ∈ f := List.mem_of_mem_drop (by rw [hd]; exact List.mem_cons_self ..)
            exact (hg x hx).1
        simp only [bne_iff_ne, ne_eq, Prod.mk.injEq, and_true, eq_iff_iff, iff_true]
        intro e
        rw [hj] at e
        have := List.append_cancel_left e
        simp only [List.cons.injEq, true_and] at this
        exact hdrop this.symm
    · simp [h2]


/-! ### the prefix as a directory part and a name part -/

theorem partsMatch_iff (part : Bytes) : ∀ (A f : List Bytes),
    partsMatch f (A ++ [part]) = true ↔
      A.length < f.length ∧ f.take A.length = A ∧ Bytes.hasPrefix ((f.drop A.length).head?.getD []) part = true := by
  intro A
  induction A with
  | nil =>
    intro f
    cases f with
    | nil => simp [partsMatch]
    | cons k ks => simp [partsMatch]
  | cons a A' ih =>
    intro f
    cases f with
    | nil => cases hA : A' ++ [part] <;> simp_all [partsMatch]
    | cons k ks =>
      cases hA : A' ++ [part] with
      | nil => simp at hA
      | cons q ps =>
        simp only [List.cons_append, hA, partsMatch, Bool.and_eq_true, beq_iff_eq]
        rw [← hA, ih ks]
        simp only [List.length_cons, List.take_succ_cons, List.cons.injEq, List.drop_succ_cons]
        constructor
        · rintro ⟨rfl, h1, h2, h3⟩; exact ⟨by omega, ⟨rfl, h2⟩, h3⟩
        · rintro ⟨h1, ⟨rfl, h2⟩, h3⟩; exact ⟨rfl, by omega, h2, h3⟩

theorem split_last (s : Bytes) :
    match lastIndexOf 47 s with
    | none => splitOn1 47 s = [s]
    | some i => splitOn1 47 s = splitOn1 47 (s.take i) ++ [s.drop (i + 1)] := by
  induction s with
  | nil => simp [lastIndexOf, splitOn1]
  | cons x xs ih =>
    unfold lastIndexOf
    cases hl : lastIndexOf 47 xs with
    | some i =>
      rw [hl] at ih
      simp only at ih ⊢
      simp only [List.take_succ_cons, List.drop_succ_cons]
      unfold splitOn1
      by_cases hx : (x == 47) = true
      · simp only [hx, if_true]
        rw [ih]; simp
      · simp only [hx, Bool.false_eq_true, if_false]
        cases hs : splitOn1 47 (xs.take i) with
        | nil => exact absurd hs (splitOn1_ne_nil 47 _)
        | cons p' ps' =>
          rw [ih, hs]; simp
    | none =>
      rw [hl] at ih
      simp only at ih ⊢
      by_cases hx : (x == 47) = true
      · simp only [hx, if_true]
        have : x = 47 := by simpa using hx
        subst this
        simp [splitOn1, ih]
      · simp only [hx, Bool.false_eq_true, if_false]
        unfold splitOn1
        simp [hx, ih]

theorem dropLast_take_iff (A f : List Bytes) :
    (f.length = A.length + 1 ∧ f.take A.length = A) ↔ (f ≠ [] ∧ f.dropLast = A) := by
  constructor
  · rintro ⟨h1, h2⟩
    refine ⟨by intro e; subst e; simp at h1, ?_⟩
    rw [List.dropLast_eq_take, h1]; simpa using h2
  · rintro ⟨h1, h2⟩
    have hl : f.dropLast.length = f.length - 1 := List.length_dropLast ..
    have hpos : 0 < f.length := List.length_pos_iff.mpr h1
    rw [h2] at hl
    refine ⟨by omega, ?_⟩
    rw [← h2, List.dropLast_eq_take]
    congr 1; rw [List.length_take]; omega

theorem head_drop_getLast (A f : List Bytes) (h : f.length = A.length + 1) :
    (f.drop A.length).head? = f.getLast? := by
  have hne : f ≠ [] := by intro e; subst e; simp at h
  rw [List.getLast?_eq_getElem?, List.head?_drop]
  congr 1; omega


/-- the directory part of a prefix, as segments -/
def preA (pfx : Bytes) : List Bytes :=
  match lastIndexOf 47 pfx with
  | none => []
  | some i => splitOn1 47 (pfx.take i)

/-- the name part of a prefix -/
def prePart (pfx : Bytes) : Bytes :=
  match lastIndexOf 47 pfx with
  | none => pfx
  | some i => pfx.drop (i + 1)

theorem pre_split (pfx : Bytes) : splitOn1 47 pfx = preA pfx ++ [prePart pfx] := by
  have := split_last pfx
  unfold preA prePart
  cases h : lastIndexOf 47 pfx with
  | none => rw [h] at this; simpa using this
  | some i => rw [h] at this; simpa using this

/-- **classify**: how `Prefix.Match` with delimiter '/' classifies the key of an object file, in
    terms of the file's path, the directory part `A` and the name part of the prefix -/
theorem classify (hasP : Bool) (pfx k : Bytes) (f : Path) (hk : keyPath k = some f) (hp : pfx.head? ≠ some 47) :
    (⟨hasP, pfx, true, 47⟩ : Prefix).match_ k =
      (if (preA pfx).length < f.length ∧ f.take (preA pfx).length = preA pfx ∧
          Bytes.hasPrefix ((f.drop (preA pfx).length).head?.getD []) (prePart pfx) = true
       then (if f.length = (preA pfx).length + 1 then some (false, k)
             else some (true, join1 47 (f.take ((preA pfx).length + 1)) ++ [47]))
       else none) := by
  rw [match_path_cases hasP pfx k f hk hp, pre_split pfx]
  have hpm := partsMatch_iff (prePart pfx) (preA pfx) f
  generalize preA pfx = A at *
  generalize prePart pfx = part at *
  simp only [List.length_append, List.length_singleton]
  by_cases hc : A.length < f.length ∧ f.take A.length = A ∧ Bytes.hasPrefix ((f.drop A.length).head?.getD []) part = true
  · have h1 : ¬ f.length < A.length + 1 := by omega
    have h2 : partsMatch f (A ++ [part]) = true := hpm.mpr hc
    simp only [h1, if_false, h2, Bool.not_true, Bool.false_eq_true, hc, and_self, if_true]
  · simp only [hc, if_false]
    by_cases h1 : f.length < A.length + 1
    · simp [h1]
    · have h2 : partsMatch f (A ++ [part]) = false := by
        cases hm : partsMatch f (A ++ [part]) with
        | false => rfl
        | true => exact absurd (hpm.mp hm) hc
      simp [h1, h2]


/-! ### the three outcomes of `listDir` -/

def goodSegB (s : Bytes) : Bool := !s.isEmpty && s != [46] && s != [46, 46]

/-- the match condition of `classify` -/
def Cond (A : List Bytes) (part : Bytes) (f : Path) : Prop :=
  A.length < f.length ∧ f.take A.length = A ∧ Bytes.hasPrefix ((f.drop A.length).head?.getD []) part = true

instance (A : List Bytes) (part : Bytes) (f : Path) : Decidable (Cond A part f) := by unfold Cond; infer_instance

/-- the entry test of `listDir` -/
def inDirB (A : List Bytes) (part : Bytes) (f : Path) : Bool :=
  !f.isEmpty && f.dropLast == A && Bytes.hasPrefix (f.getLast?.getD []) part

theorem lastIndex_zero (s : Bytes) (h : lastIndexOf 47 s = some 0) : s.head? = some 47 := by
  cases s with
  | nil => simp [lastIndexOf] at h
  | cons x xs =>
    unfold lastIndexOf at h
    cases hl : lastIndexOf 47 xs with
    | some j => simp [hl] at h
    | none =>
      simp only [hl] at h
      by_cases hx : (x == 47) = true
      · simpa using hx
      · simp [hx] at h

theorem filePrefix_eq (pfx : Bytes) :
    filePrefix ⟨!pfx.isEmpty, pfx, true, 47⟩ =
      (match lastIndexOf 47 pfx with
       | none => ([], pfx)
       | some i => (pfx.take i, pfx.drop (i + 1))) := by
  unfold filePrefix
  cases pfx with
  | nil => simp [lastIndexOf]
  | cons x xs =>
    simp only [List.isEmpty_cons, Bool.not_false, Bool.not_true, Bool.false_eq_true, if_false]
    cases lastIndexOf 47 (x :: xs) <;> rfl

/-- the directory `listDir` reads: the directory part of the prefix when all its segments are
    those of a clean relative path, otherwise none -/
theorem dir_eq (pfx : Bytes) (hp : pfx.head? ≠ some 47) :
    (if (filePrefix ⟨!pfx.isEmpty, pfx, true, 47⟩).1.isEmpty then some []
     else keyPath (filePrefix ⟨!pfx.isEmpty, pfx, true, 47⟩).1) =
    (if (preA pfx).all goodSegB then some (preA pfx) else none) ∧
    (filePrefix ⟨!pfx.isEmpty, pfx, true, 47⟩).2 = prePart pfx := by
  rw [filePrefix_eq]
  unfold preA prePart
  cases h : lastIndexOf 47 pfx with
  | none => simp
  | some i =>
    have hi : i ≠ 0 := by intro e; subst e; exact hp (lastIndex_zero pfx h)
    have hne : pfx.take i ≠ [] := by
      cases pfx with
      | nil => simp [lastIndexOf] at h
      | cons x xs =>
        cases i with
        | zero => exact absurd rfl hi
        | succ j => simp
    have hemp : (pfx.take i).isEmpty = false := by
      cases ht : pfx.take i with
      | nil => exact absurd ht hne
      | cons _ _ => rfl
    simp only [hemp, Bool.false_eq_true, if_false, and_true]
    unfold keyPath
    simp only [hemp, Bool.false_eq_true, if_false, goodSegB]
    rfl

/-- a bad segment in the directory part: no object file matches -/
theorem cond_good (A : List Bytes) (part : Bytes) (f : Path) (hg : ∀ s ∈ f, GoodSeg s) (h : Cond A part f) :
    A.all goodSegB = true := by
  rw [List.all_eq_true]
  intro s hs
  obtain ⟨_, h2, _⟩ := h
  have : s ∈ f := by rw [← h2] at hs; exact List.mem_of_mem_take hs
  obtain ⟨g1, g2, g3, _⟩ := hg s this
  simp only [goodSegB, Bool.and_eq_true, Bool.not_eq_true', bne_iff_ne, ne_eq]
  refine ⟨⟨?_, g2⟩, g3⟩
  cases s with
  | nil => exact absurd rfl g1
  | cons _ _ => rfl

/-- a matching object file lies below the directory part: the directory part is a directory -/
theorem cond_isDir (t : Tree) (hi : Inv t) (A : List Bytes) (part : Bytes) (f : Path × Bytes) (hf : f ∈ t.files)
    (hA : A ≠ []) (h : Cond A part f.1) : isDir t A = true := by
  obtain ⟨h1, h2, _⟩ := h
  apply (isDir_iff t A).mpr
  apply hi.anc f hf A
  refine ⟨hA, f.1.drop A.length, ?_, ?_⟩
  · intro e; have := congrArg List.length e; simp only [List.length_drop, List.length_nil] at this; omega
  · conv => lhs; rw [← List.take_append_drop A.length f.1]
    rw [h2]

/-- Contents: a matching object file directly in the directory ↔ the entry test of `listDir` -/
theorem cond_inDir (A : List Bytes) (part : Bytes) (f : Path) :
    (Cond A part f ∧ f.length = A.length + 1) ↔ inDirB A part f = true := by
  unfold Cond inDirB
  simp only [Bool.and_eq_true, Bool.not_eq_true', beq_iff_eq]
  constructor
  · rintro ⟨⟨h1, h2, h3⟩, h4⟩
    obtain ⟨g1, g2⟩ := (dropLast_take_iff A f).mp ⟨h4, h2⟩
    refine ⟨⟨?_, g2⟩, ?_⟩
    · cases f with
      | nil => exact absurd rfl g1
      | cons _ _ => rfl
    · rw [← head_drop_getLast A f h4]; exact h3
  · rintro ⟨⟨g1, g2⟩, g3⟩
    have hne : f ≠ [] := by intro e; subst e; simp at g1
    obtain ⟨h4, h2⟩ := (dropLast_take_iff A f).mpr ⟨hne, g2⟩
    refine ⟨⟨by omega, h2, ?_⟩, h4⟩
    rw [head_drop_getLast A f h4]; exact g3


/-- CommonPrefixes: an object file deeper below a matching entry ↔ that entry is a directory
    of the tree that passes the entry test -/
theorem cond_dirs (t : Tree) (hi : Inv t) (A : List Bytes) (part : Bytes) (x : Bytes) :
    (∃ f ∈ t.files, Cond A part f.1 ∧ f.1.length ≠ A.length + 1 ∧ x = join1 47 (f.1.take (A.length + 1)) ++ [47]) ↔
    (∃ d ∈ t.dirs, inDirB A part d = true ∧ x = keyOf d ++ [47]) := by
  constructor
  · rintro ⟨f, hf, ⟨h1, h2, h3⟩, h4, rfl⟩
    have hlen : A.length + 2 ≤ f.1.length := by omega
    refine ⟨f.1.take (A.length + 1), ?_, ?_, rfl⟩
    · apply hi.anc f hf
      refine ⟨?_, f.1.drop (A.length + 1), ?_, (List.take_append_drop _ _).symm⟩
      · intro e; have := congrArg List.length e; simp only [List.length_take, List.length_nil] at this; omega
      · intro e; have := congrArg List.length e; simp only [List.length_drop, List.length_nil] at this; omega
    · apply (cond_inDir A part _).mp
      refine ⟨⟨?_, ?_, ?_⟩, ?_⟩
      · simp only [List.length_take]; omega
      · rw [List.take_take]; simpa [Nat.min_eq_left (Nat.le_succ _)] using h2
      · have : ((f.1.take (A.length + 1)).drop A.length).head? = (f.1.drop A.length).head? := by
          rw [List.head?_drop, List.head?_drop, List.getElem?_take]; simp
        rw [this]; exact h3
      · simp only [List.length_take]; omega
  · rintro ⟨d, hd, hin, rfl⟩
    obtain ⟨⟨h1, h2, h3⟩, h4⟩ := (cond_inDir A part d).mpr hin
    obtain ⟨f, hf, hne, tl, htl, hft⟩ := dir_has_file t hi d hd
    refine ⟨f, hf, ⟨?_, ?_, ?_⟩, ?_, ?_⟩
    · rw [hft, List.length_append]; omega
    · rw [hft, List.take_append_of_le_length (by omega)]; exact h2
    · rw [hft, List.drop_append_of_le_length (by omega)]
      have hdn : d.drop A.length ≠ [] := by
        intro e; have := congrArg List.length e; simp only [List.length_drop, List.length_nil] at this; omega
      cases hdd : d.drop A.length with
      | nil => exact absurd hdd hdn
      | cons y ys => rw [hdd] at h3; simpa using h3
    · rw [hft, List.length_append]
      have : 0 < tl.length := List.length_pos_iff.mpr htl
      omega
    · rw [hft, ← h4, List.take_left']
      · rfl
      · rfl


/-! ### `listDir` is the Match loop over the object files -/
open GFS.Props.BoltL GFS.Props.C03G

theorem objMap_mem (md5 : Bytes → Bytes) (bk : Bkt) (hk : KeyPaths bk.tree) (q : Bytes × Bolt.BVal) (hq : q ∈ objMap md5 bk) :
    ∃ f ∈ bk.tree.files, q = (keyOf f.1, Bolt.BVal.obj ⟨f.2, md5 f.2, []⟩) ∧ keyPath q.1 = some f.1 ∧ splitOn1 47 q.1 = f.1 := by
  rcases mem_foldl_insert _ _ _ [] q hq with h | ⟨f, hf, e⟩
  · cases h
  · refine ⟨f, hf, e, ?_, ?_⟩
    · rw [e]; exact file_key bk.tree hk f hf
    · rw [e]; exact (keyPath_eq _ _ (file_key bk.tree hk f hf)).symm

theorem mem_objMap (md5 : Bytes → Bytes) (bk : Bkt) (hi : Inv bk.tree) (hk : KeyPaths bk.tree) (f : Path × Bytes) (hf : f ∈ bk.tree.files) :
    (keyOf f.1, Bolt.BVal.obj ⟨f.2, md5 f.2, []⟩) ∈ objMap md5 bk := by
  apply GFS.SMap.find_some_mem
  rw [objMap_find md5 bk hi hk, getKey_some _ _ f.1 (file_key bk.tree hk f hf)]
  unfold content
  cases hfind : bk.tree.files.find? (fun g => g.1 == f.1) with
  | none =>
    have := List.find?_eq_none.mp hfind f hf
    simp at this
  | some g =>
    have hg := List.mem_of_find?_eq_some hfind
    have he : g.1 = f.1 := by simpa using List.find?_some hfind
    have : g = f := nodup_map_inj (fun f : Path × Bytes => f.1) _ hi.uniq g hg f hf he
    subst this
    simp

/-- the loop's view of one object file -/
theorem liveMatch_file (md5 : Bytes → Bytes) (p : Prefix) (f : Path × Bytes) :
    liveMatch p (keyOf f.1, ⟨some ⟨0, false, f.2, md5 f.2, []⟩, []⟩) =
      (p.match_ (keyOf f.1)).map (fun r => (r.1, r.2, (⟨keyOf f.1, f.2.length, md5 f.2⟩ : Content))) := by
  simp only [liveMatch, Bool.false_eq_true, if_false]
  cases p.match_ (keyOf f.1) with
  | none => rfl
  | some r => rfl


/-- what `Match` says about the key of an object file, through `classify` -/
theorem match_file (bk : Bkt) (hk : KeyPaths bk.tree) (pfx : Bytes) (hp : pfx.head? ≠ some 47) (f : Path × Bytes) (hf : f ∈ bk.tree.files) :
    (⟨!pfx.isEmpty, pfx, true, 47⟩ : Prefix).match_ (keyOf f.1) =
      (if Cond (preA pfx) (prePart pfx) f.1
       then (if f.1.length = (preA pfx).length + 1 then some (false, keyOf f.1)
             else some (true, join1 47 (f.1.take ((preA pfx).length + 1)) ++ [47]))
       else none) :=
  classify _ pfx (keyOf f.1) f.1 (file_key bk.tree hk f hf) hp

/-- the canonical form of the Match loop over the object files, per file -/
theorem loop_contents (md5 : Bytes → Bytes) (bk : Bkt) (p : Prefix) :
    (Bolt.listLoop p (objMap md5 bk) ⟨[], [], false, []⟩).contents =
      (objMap md5 bk).filterMap (fun q =>
        match p.match_ q.1 with
        | some (false, _) => some ⟨q.1, (objOf q.2).body.length, (objOf q.2).hash⟩
        | _ => none) := by
  rw [bolt_loop_canonical]
  simp only [List.nil_append, contentsOf, embed, List.filterMap_map]
  apply filterMap_congr'
  intro q _
  simp only [Function.comp, liveMatch, Bool.false_eq_true, if_false]
  cases p.match_ q.1 with
  | none => rfl
  | some r => obtain ⟨cp, mp⟩ := r; cases cp <;> rfl

theorem loop_prefixes_mem (md5 : Bytes → Bytes) (bk : Bkt) (p : Prefix) (x : Bytes) :
    x ∈ (Bolt.listLoop p (objMap md5 bk) ⟨[], [], false, []⟩).prefixes ↔
      ∃ q ∈ objMap md5 bk, p.match_ q.1 = some (true, x) := by
  rw [bolt_loop_canonical]
  simp only
  rw [(addAll_spec (cpsOf p (embed (objMap md5 bk))) [] List.nodup_nil).2 x]
  simp only [List.not_mem_nil, false_or, cpsOf, embed, List.mem_filterMap, List.mem_map]
  constructor
  · rintro ⟨_, ⟨q, hq, rfl⟩, h⟩
    refine ⟨q, hq, ?_⟩
    simp only [liveMatch, Bool.false_eq_true, if_false] at h
    cases hm : p.match_ q.1 with
    | none => simp [hm] at h
    | some r =>
      obtain ⟨cp, mp⟩ := r
      cases cp <;> simp [hm] at h
      rw [h]
  · rintro ⟨q, hq, hm⟩
    refine ⟨_, ⟨q, hq, rfl⟩, ?_⟩
    simp [liveMatch, hm]


/-- when no object file satisfies the match condition, the loop lists nothing -/
theorem loop_empty (md5 : Bytes → Bytes) (bk : Bkt) (hk : KeyPaths bk.tree) (pfx : Bytes) (hp : pfx.head? ≠ some 47)
    (hno : ∀ f ∈ bk.tree.files, ¬ Cond (preA pfx) (prePart pfx) f.1) :
    (Bolt.listLoop ⟨!pfx.isEmpty, pfx, true, 47⟩ (objMap md5 bk) ⟨[], [], false, []⟩).contents = [] ∧
    ∀ x, x ∉ (Bolt.listLoop ⟨!pfx.isEmpty, pfx, true, 47⟩ (objMap md5 bk) ⟨[], [], false, []⟩).prefixes := by
  have hnone : ∀ q ∈ objMap md5 bk, (⟨!pfx.isEmpty, pfx, true, 47⟩ : Prefix).match_ q.1 = none := by
    intro q hq
    obtain ⟨f, hf, rfl, _, _⟩ := objMap_mem md5 bk hk q hq
    rw [match_file bk hk pfx hp f hf]
    simp [hno f hf]
  constructor
  · rw [loop_contents, List.filterMap_eq_nil_iff]
    intro q hq
    simp [hnone q hq]
  · intro x hx
    obtain ⟨q, hq, hm⟩ := (loop_prefixes_mem md5 bk _ x).mp hx
    rw [hnone q hq] at hm
    cases hm

/-- **fs_dir_eq_loop**: for a '/'-delimited listing with a prefix that does not start with '/',
    the ReadDir listing of the fs backend (`listDir`: validate the directory part, read that one
    directory, filter its entries by the name part) has exactly the Contents, and the same set of
    CommonPrefixes, as matching EVERY object file of the bucket with `Prefix.Match` — in every
    well-formed directory tree. -/
theorem fs_dir_eq_loop (md5 : Bytes → Bytes) (bk : Bkt) (hi : Inv bk.tree) (hk : KeyPaths bk.tree)
    (pfx : Bytes) (hp : pfx.head? ≠ some 47) :
    (listDir md5 bk ⟨!pfx.isEmpty, pfx, true, 47⟩).contents =
      (Bolt.listLoop ⟨!pfx.isEmpty, pfx, true, 47⟩ (objMap md5 bk) ⟨[], [], false, []⟩).contents ∧
    ∀ x, x ∈ (listDir md5 bk ⟨!pfx.isEmpty, pfx, true, 47⟩).prefixes ↔
         x ∈ (Bolt.listLoop ⟨!pfx.isEmpty, pfx, true, 47⟩ (objMap md5 bk) ⟨[], [], false, []⟩).prefixes := by
  obtain ⟨hdir, hpart⟩ := dir_eq pfx hp
  have hgood : ∀ f ∈ bk.tree.files, ∀ s ∈ f.1, GoodSeg s := fun f hf =>
    (keyPath_segs _ _ (file_key bk.tree hk f hf)).2.2
  unfold listDir
  simp only [hdir, hpart]
  by_cases hA : (preA pfx).all goodSegB = true
  · simp only [hA, if_true]
    by_cases hD : ((preA pfx).isEmpty || isDir bk.tree (preA pfx)) = true
    · simp only [hD, Bool.not_true, Bool.false_eq_true, if_false]
      constructor
      · -- Contents
        rw [loop_contents]
        apply filterMap_congr'
        intro q hq
        obtain ⟨f, hf, rfl, _, hsp⟩ := objMap_mem md5 bk hk q hq
        simp only at hsp
        rw [match_file bk hk pfx hp f hf, hsp]
        have hiff := cond_inDir (preA pfx) (prePart pfx) f.1
        by_cases hc : Cond (preA pfx) (prePart pfx) f.1
        · by_cases hl : f.1.length = (preA pfx).length + 1
          · have : inDirB (preA pfx) (prePart pfx) f.1 = true := hiff.mp ⟨hc, hl⟩
            simp only [inDirB] at this
            simp [hc, hl, this, objOf]
          · have : inDirB (preA pfx) (prePart pfx) f.1 = false := by
              cases hb : inDirB (preA pfx) (prePart pfx) f.1 with
              | false => rfl
              | true => exact absurd (hiff.mpr hb).2 hl
            simp only [inDirB] at this
            simp [hc, hl, this]
        · have : inDirB (preA pfx) (prePart pfx) f.1 = false := by
            cases hb : inDirB (preA pfx) (prePart pfx) f.1 with
            | false => rfl
            | true => exact absurd (hiff.mpr hb).1 hc
          simp only [inDirB] at this
          simp [hc, this]
      · -- CommonPrefixes
        intro x
        rw [mem_sortBytes, loop_prefixes_mem]
        simp only [List.mem_map, List.mem_filter]
        have hcd := cond_dirs bk.tree hi (preA pfx) (prePart pfx) x
        constructor
        · rintro ⟨d, ⟨hd, hin⟩, rfl⟩
          obtain ⟨f, hf, hc, hl, hx⟩ := hcd.mpr ⟨d, hd, hin, rfl⟩
          refine ⟨_, mem_objMap md5 bk hi hk f hf, ?_⟩
          rw [match_file bk hk pfx hp f hf]
          simp [hc, hl, hx]
        · rintro ⟨q, hq, hm⟩
          obtain ⟨f, hf, rfl, _, _⟩ := objMap_mem md5 bk hk q hq
          rw [match_file bk hk pfx hp f hf] at hm
          by_cases hc : Cond (preA pfx) (prePart pfx) f.1
          · by_cases hl : f.1.length = (preA pfx).length + 1
            · simp [hc, hl] at hm
            · simp only [hc, if_true, hl, if_false, Option.some.injEq, Prod.mk.injEq, true_and] at hm
              obtain ⟨d, hd, hin, hx⟩ := hcd.mp ⟨f, hf, hc, hl, hm.symm⟩
              exact ⟨d, ⟨hd, hin⟩, hx.symm⟩
          · simp [hc] at hm
    · -- the directory part is no directory: nothing matches
      simp only [hD, Bool.not_false, if_true]
      have hne : preA pfx ≠ [] := by
        intro e; rw [e] at hD; simp at hD
      have hnd : isDir bk.tree (preA pfx) = false := by
        cases h : isDir bk.tree (preA pfx) with
        | false => rfl
        | true => rw [h] at hD; simp at hD
      obtain ⟨h1, h2⟩ := loop_empty md5 bk hk pfx hp (fun f hf hc => by
        have := cond_isDir bk.tree hi (preA pfx) (prePart pfx) f hf hne hc
        rw [hnd] at this; cases this)
      exact ⟨h1.symm, fun x => ⟨fun h => absurd h List.not_mem_nil, fun h => absurd h (h2 x)⟩⟩
  · -- a segment of the directory part is empty, "." or "..": nothing matches
    simp only [hA, Bool.false_eq_true, if_false]
    obtain ⟨h1, h2⟩ := loop_empty md5 bk hk pfx hp (fun f hf hc =>
      hA (cond_good (preA pfx) (prePart pfx) f.1 (hgood f hf) hc))
    exact ⟨h1.symm, fun x => ⟨fun h => absurd h List.not_mem_nil, fun h => absurd h (h2 x)⟩⟩


theorem key_last (k : Bytes) (f : Path) (h : keyPath k = some f) : k.getLast? ≠ some 47 := by
  obtain ⟨hk, hf, hg⟩ := keyPath_segs k f h
  have hgl := getLast_splitOn1 47 k
  cases hl : (splitOn1 47 k).getLast? with
  | none =>
    have := splitOn1_ne_nil 47 k
    rw [List.getLast?_eq_none_iff] at hl
    exact absurd hl this
  | some l =>
    have hlm : l ∈ f := by rw [hf]; exact List.mem_of_getLast? hl
    obtain ⟨hne, _, _, hno⟩ := hg l hlm
    have hle : l.isEmpty = false := by cases l with | nil => exact absurd rfl hne | cons _ _ => rfl
    rw [hl] at hgl
    simp only [Option.bind_some, Option.any_some, hle, Bool.not_false, if_true] at hgl
    rw [← hgl]
    intro e
    exact hno (List.mem_of_getLast? e)

/-- the shape of `listDir`'s answer, whatever the prefix -/
theorem listDir_shape (md5 : Bytes → Bytes) (bk : Bkt) (p : Prefix) :
    (listDir md5 bk p).truncated = false ∧ (listDir md5 bk p).prefixes.Nodup ∧
    (listDir md5 bk p).prefixes.Pairwise (fun a b => Bytes.lt a b = true) := by
  unfold listDir
  simp only
  split
  · exact ⟨rfl, List.nodup_nil, List.Pairwise.nil⟩
  · split
    · exact ⟨rfl, List.nodup_nil, List.Pairwise.nil⟩
    · exact ⟨rfl, sortBytes_nodup _, sortBytes_sorted _⟩

open GFS.Spec.Listing in
/-- **fs_dir_exact** (C03 for the '/'-delimited listing of the fs backends): for every prefix
    that does not start with '/', in every bucket whose directory tree is well-formed and related
    to the reference bucket `objs`: Contents are exactly the objects the specification lists as
    Contents (the key starts with the prefix and no '/' follows), ascending, with the size and
    MD5 of the stored bytes; CommonPrefixes are exactly the specification's common prefixes
    (`prefix + segment up to and including the first '/'`), each once, ascending; never truncated;
    directories that hold no object, and prefixes that run through an object or through an
    unclean path, contribute nothing. -/
theorem fs_dir_exact (md5 : Bytes → Bytes) (bk : Bkt) (objs : SMap Bytes) (pfx : Bytes)
    (hi : Inv bk.tree) (hk : KeyPaths bk.tree) (hR : Rb bk.tree objs) (hs : GFS.SMap.Sorted objs)
    (hp : pfx.head? ≠ some 47) :
    let r := listDir md5 bk ⟨!pfx.isEmpty, pfx, true, 47⟩
    r.truncated = false ∧
    r.contents = objs.filterMap (fun q =>
        match entryOf pfx (some 47) q.1 with
        | some (.content _) => some (contentOf md5 q)
        | _ => none) ∧
    r.prefixes.Nodup ∧ r.prefixes.Pairwise (fun a b => Bytes.lt a b = true) ∧
    ∀ x, x ∈ r.prefixes ↔ ∃ q ∈ objs, entryOf pfx (some 47) q.1 = some (.cprefix x) := by
  have habs := objMap_abs md5 bk objs hi hk hR hs
  have hdom : ∀ q ∈ objs, q.1.head? ≠ some 47 ∧ q.1.getLast? ≠ some 47 := by
    intro q hq
    rw [← habs] at hq
    obtain ⟨a, ha, rfl⟩ := List.mem_map.mp hq
    obtain ⟨f, hf, _, hkp, _⟩ := objMap_mem md5 bk hk a ha
    exact ⟨key_head a.1 f.1 hkp, key_last a.1 f.1 hkp⟩
  obtain ⟨w1, w2, w3, w4, w5⟩ := fs_walk_delim_exact md5 bk objs (!pfx.isEmpty) 47 pfx hi hk hR hs hdom hp
  obtain ⟨e1, e2⟩ := fs_dir_eq_loop md5 bk hi hk pfx hp
  obtain ⟨s1, s2, s3⟩ := listDir_shape md5 bk ⟨!pfx.isEmpty, pfx, true, 47⟩
  refine ⟨s1, ?_, s2, s3, ?_⟩
  · rw [e1]; exact w2
  · intro x
    rw [e2 x, ← w5 x]
    show _ ↔ x ∈ sortBytes _
    rw [mem_sortBytes]

/-! Non-vacuity: a tree with nested objects, listed under a prefix that splits a name. -/
example :
    let t : Tree := ⟨[([[97], [98]], [1]), ([[97], [99], [100]], [2, 3]), ([[120]], [4])], [[[97]], [[97], [99]]]⟩
    (listDir id ⟨t, []⟩ ⟨true, [97, 47], true, 47⟩).contents.map (·.key) = [[97, 47, 98]] ∧
    (listDir id ⟨t, []⟩ ⟨true, [97, 47], true, 47⟩).prefixes = [[97, 47, 99, 47]] ∧
    (listDir id ⟨t, []⟩ ⟨true, [120, 47, 121, 47], true, 47⟩).contents = [] := by decide

end GFS.Props.FsD
