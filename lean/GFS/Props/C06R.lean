import GFS.Props.C06F
import GFS.Props.C14I
import GFS.Spec.Multipart
set_option linter.unusedSimpArgs false
set_option linter.unusedVariables false
/-
  C06 over whole histories, against the specification machine Spec.Multipart:

  * `PartsRel`: the slots of a pending upload (uploader.go: `mpu.parts`, indexed by part number)
    hold, for every part number, the MOST RECENT body uploaded under it — kept by every part
    upload, in any order, with any number of re-uploads (`partsRel_setPart`), and by every
    operation on another upload (the frame theorems of Props/C06F): `tracked_parts_exact`,
    over every finite interleaving of initiate / upload-part / abort / complete requests;
  * `validate_sound` / `validate_complete` / `validate_rejects`: in such a state the decision
    of CompleteMultipartUpload is the specification's `accepted`: whatever the code accepts the
    specification accepts with the same bodies, a strictly ascending list the specification
    accepts is accepted by the code, and a list the specification refuses is refused with an
    error (never a panic);
  * `complete_exact`: the stored object is the concatenation of those bodies under the
    specification's ETag, and the upload is gone; a refused request changes nothing.
-/
namespace GFS.Props.C06R
open GFS GFS.Model GFS.Model.Upl GFS.Props.C06 GFS.Props.C06F
open GFS.Spec.Multipart (Upload setLatest bodyOf accepted ascending)

/-! ### slots and the specification's `latest` -/

/-- the part stored under number `i`, if any -/
def slot (parts : List (Option Part)) (i : Nat) : Option Part :=
  match parts[i]? with
  | some (some p) => some p
  | _ => none

theorem slot_of_ge (parts : List (Option Part)) (i : Nat) (h : parts.length ≤ i) : slot parts i = none := by
  unfold slot
  rw [List.getElem?_eq_none h]

theorem setPart_get_ge (parts : List (Option Part)) (n i : Nat) (p : Part) (h : i ≠ n) (hge : parts.length ≤ i) :
    (setPart parts n p)[i]? = none ∨ (setPart parts n p)[i]? = some none := by
  by_cases hn : n ≥ parts.length
  · simp only [setPart, hn, if_true]
    rw [List.getElem?_set_ne (Ne.symm h), List.getElem?_append_right hge]
    cases hr : (List.replicate (n - parts.length + 1) (none : Option Part))[i - parts.length]? with
    | none => left; rfl
    | some v =>
      right
      have := List.mem_replicate.mp (List.mem_of_getElem? hr)
      rw [this.2]
  · simp only [setPart, hn, if_false]
    rw [List.getElem?_set_ne (Ne.symm h), List.getElem?_eq_none hge]
    left; rfl

theorem slot_setPart (parts : List (Option Part)) (n i : Nat) (p : Part) :
    slot (setPart parts n p) i = if i = n then some p else slot parts i := by
  by_cases h : i = n
  · subst h
    simp [slot, setPart_self]
  · simp only [h, if_false]
    by_cases hi : i < parts.length
    · unfold slot; rw [setPart_other parts n i p h hi]
    · have hge : parts.length ≤ i := by omega
      rw [slot_of_ge parts i hge]
      rcases setPart_get_ge parts n i p h hge with e | e <;> simp [slot, e]

/-- the slots of an upload against the specification's record of it -/
structure PartsRel (md5 : Bytes → Bytes) (parts : List (Option Part)) (latest : List (Nat × Bytes)) : Prop where
  bodies : ∀ i, 1 ≤ i → (slot parts i).map (·.body) = (latest.find? (·.1 == i)).map (·.2)
  hashes : ∀ i p, slot parts i = some p → p.hash = md5 p.body

theorem partsRel_nil (md5 : Bytes → Bytes) : PartsRel md5 [] [] :=
  ⟨fun i _ => by simp [slot], fun i p h => by simp [slot] at h⟩

theorem find_setLatest (u : Upload) (n i : Nat) (body : Bytes) :
    ((setLatest u n body).latest.find? (·.1 == i)).map (·.2) =
      if i = n then some body else (u.latest.find? (·.1 == i)).map (·.2) := by
  unfold setLatest
  simp only [List.find?_append]
  by_cases h : i = n
  · subst h
    have : (u.latest.filter (fun p => !(p.1 == i))).find? (·.1 == i) = none := by
      apply List.find?_eq_none.mpr
      intro x hx
      have := (List.mem_filter.mp hx).2
      simpa using this
    simp [this]
  · have hni : (n == i) = false := by simpa using (Ne.symm h)
    have : (u.latest.filter (fun p => !(p.1 == n))).find? (·.1 == i) = u.latest.find? (·.1 == i) := by
      induction u.latest with
      | nil => rfl
      | cons x xs ih =>
        by_cases hx : (x.1 == n) = true
        · have hxn : x.1 = n := by simpa using hx
          have hxi : (x.1 == i) = false := by rw [hxn]; exact hni
          simp [List.filter, hx, List.find?, hxi, ih]
        · simp only [List.filter, hx, Bool.not_false, Bool.false_eq_true]
          simp only [Bool.not_eq_true] at hx
          simp only [hx, Bool.not_false, List.find?]
          cases (x.1 == i) <;> simp [ih]
    simp [this, h, List.find?, hni]

/-- **partsRel_setPart**: a part upload (new number or re-upload) keeps the relation -/
theorem partsRel_setPart (md5 : Bytes → Bytes) (parts : List (Option Part)) (u : Upload) (n : Nat) (body : Bytes)
    (h : PartsRel md5 parts u.latest) :
    PartsRel md5 (setPart parts n ⟨body, md5 body⟩) (setLatest u n body).latest := by
  constructor
  · intro i hi
    rw [slot_setPart, find_setLatest]
    by_cases hin : i = n
    · simp [hin]
    · simp only [hin, if_false]; exact h.bodies i hi
  · intro i p hp
    rw [slot_setPart] at hp
    by_cases hin : i = n
    · simp only [hin, if_true, Option.some.injEq] at hp; subst hp; rfl
    · simp only [hin, if_false] at hp; exact h.hashes i p hp

/-! ### the decision of CompleteMultipartUpload is the specification's -/

theorem sortedInts_eq_ascending : ∀ l : List Int, sortedInts l = ascending l
  | [] => rfl
  | [_] => rfl
  | a :: b :: rest => by
    unfold sortedInts ascending
    rw [sortedInts_eq_ascending (b :: rest)]

/-- the per-entry fold of the specification -/
def specFold (md5 : Bytes → Bytes) (u : Upload) (listed : List (Int × Bytes)) : Option (List Bytes) :=
  listed.foldr (fun (p : Int × Bytes) acc =>
    match acc, bodyOf u p.1 with
    | some bs, some body =>
      if Bytes.trim1 34 p.2 == Bytes.hexLower (md5 body) then some (body :: bs) else none
    | _, _ => none) (some [])

theorem accepted_eq (md5 : Bytes → Bytes) (u : Upload) (listed : List (Int × Bytes)) :
    accepted md5 u listed = if !ascending (listed.map (·.1)) then none else specFold md5 u listed := rfl

theorem bodyOf_slot (md5 : Bytes → Bytes) (parts : List (Option Part)) (u : Upload) (h : PartsRel md5 parts u.latest) (n : Int) :
    bodyOf u n = if n < 1 then none else (slot parts n.toNat).map (·.body) := by
  unfold bodyOf
  by_cases hn : n < 1
  · simp [hn]
  · simp only [hn, if_false]
    exact (h.bodies n.toNat (by omega)).symm

/-- `checkParts` and the specification's fold decide alike, and on the same bodies -/
theorem checkParts_specFold (md5 : Bytes → Bytes) (parts : List (Option Part)) (u : Upload)
    (h : PartsRel md5 parts u.latest) (listed : List (Int × Bytes)) :
    (match checkParts parts listed with
     | .ok ps => some (ps.map (·.body))
     | _ => none) = specFold md5 u listed ∧ (∀ s, checkParts parts listed ≠ .panic s) := by
  induction listed with
  | nil => exact ⟨rfl, fun s hs => by simp [checkParts] at hs⟩
  | cons e rest ih =>
    obtain ⟨n, etag⟩ := e
    obtain ⟨ih1, ih2⟩ := ih
    have hfold : specFold md5 u ((n, etag) :: rest) =
        (match specFold md5 u rest, bodyOf u n with
         | some bs, some body => if Bytes.trim1 34 etag == Bytes.hexLower (md5 body) then some (body :: bs) else none
         | _, _ => none) := rfl
    rw [hfold, bodyOf_slot md5 parts u h n]
    unfold checkParts
    by_cases hr : n < 1 ∨ n ≥ (parts.length : Int)
    · simp only [hr, if_true]
      refine ⟨?_, fun s hs => by simp at hs⟩
      rcases hr with hr | hr
      · simp only [hr, if_true]
        cases specFold md5 u rest <;> rfl
      · have : slot parts n.toNat = none := slot_of_ge parts n.toNat (by omega)
        simp only [this, Option.map_none, ite_self]
        cases specFold md5 u rest <;> rfl
    · simp only [hr, if_false]
      have hn1 : ¬ n < 1 := fun hlt => hr (Or.inl hlt)
      simp only [hn1, if_false]
      cases hs : parts[n.toNat]? with
      | none =>
        have : slot parts n.toNat = none := by simp [slot, hs]
        simp only [this, Option.map_none]
        refine ⟨?_, fun s hs' => by simp at hs'⟩
        cases specFold md5 u rest <;> rfl
      | some op =>
        cases op with
        | none =>
          have : slot parts n.toNat = none := by simp [slot, hs]
          simp only [this, Option.map_none]
          refine ⟨?_, fun s hs' => by simp at hs'⟩
          cases specFold md5 u rest <;> rfl
        | some p =>
          have hsl : slot parts n.toNat = some p := by simp [slot, hs]
          have hh := h.hashes n.toNat p hsl
          simp only [hsl, Option.map_some]
          by_cases he : (trimQuotes etag != Bytes.hexLower p.hash) = true
          · simp only [he, if_true]
            refine ⟨?_, fun s hs' => by simp at hs'⟩
            have he' : (Bytes.trim1 34 etag == Bytes.hexLower (md5 p.body)) = false := by
              rw [← hh]
              simpa [trimQuotes, bne] using he
            cases specFold md5 u rest with
            | none => rfl
            | some bs => simp [he']
          · simp only [he, if_false]
            have he' : (Bytes.trim1 34 etag == Bytes.hexLower (md5 p.body)) = true := by
              rw [← hh]
              simpa [trimQuotes, bne] using he
            cases hc : checkParts parts rest with
            | ok ps =>
              rw [hc] at ih1
              simp only at ih1
              rw [← ih1]
              refine ⟨by simp [he'], fun s hs' => by simp at hs'⟩
            | err c =>
              rw [hc] at ih1
              simp only at ih1
              rw [← ih1]
              exact ⟨rfl, fun s hs' => by simp at hs'⟩
            | panic s => exact absurd hc (ih2 s)

/-- **validate_sound**: whatever list CompleteMultipartUpload accepts, the specification accepts,
    and the parts it assembles carry exactly the bodies the specification names (the most recent
    upload of each listed part, in the listed order) -/
theorem validate_sound (md5 : Bytes → Bytes) (m : MPU) (u : Upload) (h : PartsRel md5 m.parts u.latest)
    (listed : List (Int × Bytes)) (ps : List Part) (hv : validate m listed = .ok ps) :
    accepted md5 u listed = some (ps.map (·.body)) := by
  obtain ⟨hc, hs⟩ := validate_ok_checkParts m listed ps hv
  rw [accepted_eq, ← sortedInts_eq_ascending, hs]
  have := (checkParts_specFold md5 m.parts u h listed).1
  rw [hc] at this
  simpa using this.symm

/-- **validate_rejects**: a list the specification refuses (not ascending, a part never uploaded,
    a part number below 1, a stale or wrong ETag) is refused with an error, never a panic -/
theorem validate_rejects (md5 : Bytes → Bytes) (m : MPU) (u : Upload) (h : PartsRel md5 m.parts u.latest)
    (listed : List (Int × Bytes)) (hr : accepted md5 u listed = none) :
    ∃ c, validate m listed = .err c := by
  cases hv : validate m listed with
  | ok ps => rw [validate_sound md5 m u h listed ps hv] at hr; simp at hr
  | err c => exact ⟨c, rfl⟩
  | panic s =>
    unfold validate at hv
    split at hv
    · simp at hv
    · split at hv
      · simp at hv
      · exact absurd hv ((checkParts_specFold md5 m.parts u h listed).2 s)

/-- every entry of a list the specification's fold accepts names an uploaded part -/
theorem specFold_some_all (md5 : Bytes → Bytes) (u : Upload) (listed : List (Int × Bytes)) (bs : List Bytes)
    (h : specFold md5 u listed = some bs) : ∀ e ∈ listed, (bodyOf u e.1).isSome = true := by
  induction listed generalizing bs with
  | nil => intro e he; simp at he
  | cons x rest ih =>
    have hfold : specFold md5 u (x :: rest) =
        (match specFold md5 u rest, bodyOf u x.1 with
         | some bs, some body => if Bytes.trim1 34 x.2 == Bytes.hexLower (md5 body) then some (body :: bs) else none
         | _, _ => none) := rfl
    rw [hfold] at h
    cases hr : specFold md5 u rest with
    | none => simp [hr] at h
    | some bs' =>
      cases hb : bodyOf u x.1 with
      | none => simp [hr, hb] at h
      | some body =>
        intro e he
        rcases List.mem_cons.mp he with rfl | he
        · simp [hb]
        · exact ih bs' hr e he

/-- a strictly ascending list of integers between `a` and `M` has at most `M - a + 1` entries -/
theorem strict_len : ∀ (l : List Int) (a M : Int), l.Pairwise (· < ·) → (∀ x ∈ l, a ≤ x ∧ x ≤ M) →
    (l.length : Int) ≤ max (M - a + 1) 0
  | [], _, _, _, _ => by simp only [List.length_nil]; omega
  | x :: rest, a, M, hp, hb => by
    have hx := hb x (by simp)
    have hp' := List.pairwise_cons.mp hp
    have ih := strict_len rest (x + 1) M hp'.2 (fun y hy => ⟨by have := hp'.1 y hy; omega, (hb y (by simp [hy])).2⟩)
    simp only [List.length_cons]
    omega

/-- **validate_complete**: a STRICTLY ascending list the specification accepts is accepted by
    CompleteMultipartUpload, with the specification's bodies.  (For a list that repeats a part
    number the code additionally requires that the list is not longer than the slot table; the
    property speaks of ascending lists.) -/
theorem validate_complete (md5 : Bytes → Bytes) (m : MPU) (u : Upload) (h : PartsRel md5 m.parts u.latest)
    (listed : List (Int × Bytes)) (bs : List Bytes) (hs : (listed.map (·.1)).Pairwise (· < ·))
    (ha : accepted md5 u listed = some bs) :
    ∃ ps, validate m listed = .ok ps ∧ ps.map (·.body) = bs := by
  rw [accepted_eq] at ha
  have hasc : ascending (listed.map (·.1)) = true := by
    cases hq : ascending (listed.map (·.1)) with
    | true => rfl
    | false => simp [hq] at ha
  simp only [hasc, Bool.not_true, Bool.false_eq_true, if_false] at ha
  -- every listed number is a filled slot, hence inside the slot table
  have hin : ∀ x ∈ listed.map (·.1), (1 : Int) ≤ x ∧ x ≤ (m.parts.length : Int) - 1 := by
    intro x hx
    obtain ⟨e, he, rfl⟩ := List.mem_map.mp hx
    have hsome := specFold_some_all md5 u listed bs ha e he
    rw [bodyOf_slot md5 m.parts u h e.1] at hsome
    by_cases hlt : e.1 < 1
    · simp [hlt] at hsome
    · simp only [hlt, if_false] at hsome
      refine ⟨by omega, ?_⟩
      by_cases hge : m.parts.length ≤ e.1.toNat
      · rw [slot_of_ge _ _ hge] at hsome; simp at hsome
      · omega
  have hlen := strict_len (listed.map (·.1)) 1 ((m.parts.length : Int) - 1) hs hin
  simp only [List.length_map] at hlen
  have hlen' : ¬ listed.length > m.parts.length := by omega
  have hcp := (checkParts_specFold md5 m.parts u h listed).1
  rw [ha] at hcp
  unfold validate
  simp only [hlen', if_false, sortedInts_eq_ascending, hasc, Bool.not_true, Bool.false_eq_true]
  cases hc : checkParts m.parts listed with
  | ok ps => rw [hc] at hcp; exact ⟨ps, rfl, by simpa using hcp⟩
  | err c => rw [hc] at hcp; simp at hcp
  | panic s => rw [hc] at hcp; simp at hcp

/-- the ETag of the assembled object is the specification's -/
theorem mpEtag_eq (md5 : Bytes → Bytes) (ps : List Part) (h : ∀ p ∈ ps, p.hash = md5 p.body) :
    mpEtag md5 ps = Spec.Multipart.etag md5 (ps.map (·.body)) := by
  unfold mpEtag Spec.Multipart.etag natBytes
  have : ps.map (·.hash) = (ps.map (·.body)).map md5 := by
    rw [List.map_map]
    apply List.map_congr_left
    intro p hp
    exact h p hp
  rw [this, List.length_map]


/-! ### at the level of the uploader: the tracked upload -/

/-- upload `i0` of (b0, k0) is pending and its slots hold what the specification's record says -/
def TRel (md5 : Bytes → Bytes) (u : Upl) (b0 : Bytes) (k0 : Key) (i0 : Nat) (up : Upload) : Prop :=
  ∃ m, pending u b0 k0 i0 = some m ∧ PartsRel md5 m.parts up.latest

theorem pending_get (u : Upl) (b : Bytes) (k : Key) (id : Nat) (m : MPU) (h : pending u b k id = some m) :
    ∃ bu, u.get b k id = .ok (bu, m) := by
  unfold pending at h
  cases hg : u.get b k id with
  | ok r => obtain ⟨bu, m'⟩ := r; simp [hg] at h; subst h; exact ⟨bu, rfl⟩
  | err c => simp [hg] at h
  | panic s => simp [hg] at h

theorem checkParts_slots (parts : List (Option Part)) (listed : List (Int × Bytes)) (ps : List Part)
    (h : checkParts parts listed = .ok ps) : ∀ p ∈ ps, ∃ i, slot parts i = some p := by
  obtain ⟨hl, hall⟩ := checkParts_spec parts listed ps h
  intro p hp
  obtain ⟨i, hi, hpi⟩ := List.getElem_of_mem hp
  obtain ⟨_, q, hq, hq2, _⟩ := hall i (by omega)
  have : ps[i]? = some p := by rw [List.getElem?_eq_getElem hi, hpi]
  rw [this] at hq2
  simp only [Option.some.injEq] at hq2
  subst hq2
  have hs : slot parts (listed[i]'(by omega)).1.toNat = some p := by unfold slot; rw [hq]
  exact ⟨_, hs⟩

/-- after the upload has been removed from its bucket's bookkeeping nothing is pending under its id -/
theorem pending_removed (u : Upl) (hk : Keyed u) (b : Bytes) (k : Key) (id : Nat) (bu : BUps) (m : MPU) (n : Nat)
    (hg : u.get b k id = .ok (bu, m)) :
    pending ⟨SMap.insert u.buckets b (bu.remove m), n⟩ b k id = none := by
  obtain ⟨hb, hf⟩ := get_ok u b k id bu m hg
  have hid : m.id = id := find_keyed bu id m (hk b bu hb) hf
  unfold pending Upl.get
  simp only [SMap.find_insert_self]
  have := removed_is_gone bu m
  rw [hid] at this
  simp [this]

/-- **complete_sound**: an acknowledged complete stored exactly what the specification says —
    the list is one the specification accepts, the object is the concatenation of the most recent
    bodies of the listed parts under the initiation metadata, the ETag is the specification's,
    and nothing is pending under the upload id afterwards -/
theorem complete_sound (md5 : Bytes → Bytes) (u : Upl) (hk : Keyed u) (mem : Mem) (b : Bytes) (k : Key) (id : Nat)
    (up : Upload) (listed : List (Int × Bytes)) (vid : Option Nat) (etag : Bytes)
    (ht : TRel md5 u b k id up) (h : (complete md5 u mem b k id listed).2.2 = .ok (vid, etag)) :
    ∃ m bs, pending u b k id = some m ∧ accepted md5 up listed = some bs ∧
      etag = Spec.Multipart.etag md5 bs ∧
      (complete md5 u mem b k id listed).2.1 = (mem.put md5 b k m.md (Spec.Multipart.assemble bs)).1 ∧
      pending (complete md5 u mem b k id listed).1 b k id = none := by
  obtain ⟨m0, hp0, hrel⟩ := ht
  obtain ⟨bu, m, ps, hg, hv, he, hmem, hbk⟩ := complete_ok md5 u mem b k id listed vid etag h
  have hm : m0 = m := by
    unfold pending at hp0; rw [hg] at hp0; simpa using hp0.symm
  subst hm
  have hacc := validate_sound md5 m0 up hrel listed ps hv
  have hhash : ∀ p ∈ ps, p.hash = md5 p.body := by
    intro p hp
    obtain ⟨i, hi⟩ := checkParts_slots m0.parts listed ps (validate_ok_checkParts m0 listed ps hv).1 p hp
    exact hrel.hashes i p hi
  refine ⟨m0, ps.map (·.body), hp0, hacc, ?_, ?_, ?_⟩
  · rw [he, mpEtag_eq md5 ps hhash]
  · rw [hmem]; rfl
  · have : (complete md5 u mem b k id listed).1 = ⟨SMap.insert u.buckets b (bu.remove m0), (complete md5 u mem b k id listed).1.nextId⟩ := by
      cases hc : (complete md5 u mem b k id listed).1 with
      | mk bks nx => rw [hc] at hbk; simp only at hbk; rw [hbk]
    rw [this]
    exact pending_removed u hk b k id bu m0 _ hg

/-- **complete_refuses**: a list the specification refuses is answered with an error and changes
    neither the stored objects nor the pending uploads -/
theorem complete_refuses (md5 : Bytes → Bytes) (u : Upl) (mem : Mem) (b : Bytes) (k : Key) (id : Nat)
    (up : Upload) (listed : List (Int × Bytes)) (ht : TRel md5 u b k id up) (hr : accepted md5 up listed = none) :
    (∃ c, (complete md5 u mem b k id listed).2.2 = .err c) ∧
    (complete md5 u mem b k id listed).1 = u ∧ (complete md5 u mem b k id listed).2.1 = mem := by
  obtain ⟨m, hp, hrel⟩ := ht
  obtain ⟨bu, hg⟩ := pending_get u b k id m hp
  obtain ⟨c, hc⟩ := validate_rejects md5 m up hrel listed hr
  have h1 : (complete md5 u mem b k id listed).2.2 = .err c := by
    unfold complete; simp [hg, hc]
  exact ⟨⟨c, h1⟩, complete_rejects_unchanged md5 u mem b k id listed c h1⟩

/-- **complete_accepts**: a strictly ascending list the specification accepts is stored whenever
    the backend accepts the object: the answer carries the specification's ETag -/
theorem complete_accepts (md5 : Bytes → Bytes) (u : Upl) (mem : Mem) (b : Bytes) (k : Key) (id : Nat)
    (up : Upload) (listed : List (Int × Bytes)) (bs : List Bytes) (ht : TRel md5 u b k id up)
    (hs : (listed.map (·.1)).Pairwise (· < ·)) (ha : accepted md5 up listed = some bs) :
    ∃ m, pending u b k id = some m ∧
      ∀ vid, (mem.put md5 b k m.md (Spec.Multipart.assemble bs)).2 = .ok vid →
        (complete md5 u mem b k id listed).2.2 = .ok (vid, Spec.Multipart.etag md5 bs) ∧
        (complete md5 u mem b k id listed).2.1 = (mem.put md5 b k m.md (Spec.Multipart.assemble bs)).1 := by
  obtain ⟨m, hp, hrel⟩ := ht
  obtain ⟨bu, hg⟩ := pending_get u b k id m hp
  obtain ⟨ps, hv, hbs⟩ := validate_complete md5 m up hrel listed bs hs ha
  have hhash : ∀ p ∈ ps, p.hash = md5 p.body := by
    intro p hp'
    obtain ⟨i, hi⟩ := checkParts_slots m.parts listed ps (validate_ok_checkParts m listed ps hv).1 p hp'
    exact hrel.hashes i p hi
  refine ⟨m, hp, ?_⟩
  intro vid hput
  have hflat : (ps.map (·.body)).flatten = Spec.Multipart.assemble bs := by rw [hbs]; rfl
  unfold complete
  simp only [hg, hv, hflat]
  cases hq : mem.put md5 b k m.md (Spec.Multipart.assemble bs) with
  | mk mem' r =>
    rw [hq] at hput
    simp only at hput
    subst hput
    simp [mpEtag_eq md5 ps hhash, hbs]

/-! ### every interleaving of requests keeps the tracked upload's slots exact -/

open GFS.Props.C14I (Op step)

def UB (N : Nat) (bu : BUps) : Prop := ∀ p ∈ bu.uploads, p.1 ≤ N
/-- every upload id in the bookkeeping is at most the counter: the next id is new -/
def UBound (u : Upl) : Prop := ∀ b bu, SMap.find u.buckets b = some bu → UB u.nextId bu

theorem ubound_insert (u : Upl) (b : Bytes) (bu' : BUps) (N : Nat) (h : UBound u) (hN : u.nextId ≤ N) (hb : UB N bu') :
    UBound ⟨SMap.insert u.buckets b bu', N⟩ := by
  intro b2 bu2 h2
  by_cases hbb : b = b2
  · subst hbb
    simp only [SMap.find_insert_self, Option.some.injEq] at h2
    subst h2; exact hb
  · simp only [SMap.find_insert_ne _ _ _ _ hbb] at h2
    intro p hp
    exact Nat.le_trans (h b2 bu2 h2 p hp) hN

theorem ubound_create (u : Upl) (b : Bytes) (k : Key) (md : Meta) (h : UBound u) : UBound (u.create b k md).1 := by
  unfold Upl.create
  apply ubound_insert u b _ _ h (by omega)
  intro p hp
  unfold BUps.add at hp
  simp only [List.mem_append, List.mem_filter, List.mem_singleton] at hp
  rcases hp with ⟨hp, _⟩ | hp
  · cases hf : SMap.find u.buckets b with
    | none => simp [hf] at hp
    | some bu => simp only [hf, Option.getD_some] at hp; have := h b bu hf p hp; omega
  · subst hp; simp

theorem ubound_uploadPart (md5 : Bytes → Bytes) (u : Upl) (b : Bytes) (k : Key) (id n : Nat) (declared : Int) (body : Bytes)
    (h : UBound u) : UBound (u.uploadPart md5 b k id n declared body).1 := by
  unfold Upl.uploadPart
  split
  · exact h
  · split
    · exact h
    · cases hg : u.get b k id with
      | err c => exact h
      | panic s => exact h
      | ok r =>
        obtain ⟨bu, m⟩ := r
        obtain ⟨hb, _⟩ := get_ok u b k id bu m hg
        apply ubound_insert u b _ _ h (Nat.le_refl _)
        intro p hp
        unfold BUps.set at hp
        simp only [List.mem_map] at hp
        obtain ⟨q, hq, rfl⟩ := hp
        have := h b bu hb q hq
        split <;> simpa using this

theorem ub_remove (N : Nat) (bu : BUps) (m : MPU) (h : UB N bu) : UB N (bu.remove m) := by
  intro p hp
  unfold BUps.remove at hp
  exact h p (List.mem_filter.mp hp).1

theorem ubound_abort (u : Upl) (b : Bytes) (k : Key) (id : Nat) (h : UBound u) : UBound (u.abort b k id).1 := by
  unfold Upl.abort
  cases hg : u.get b k id with
  | err c => exact h
  | panic s => exact h
  | ok r =>
    obtain ⟨bu, m⟩ := r
    obtain ⟨hb, _⟩ := get_ok u b k id bu m hg
    exact ubound_insert u b _ _ h (Nat.le_refl _) (ub_remove _ bu m (h b bu hb))

theorem ubound_complete (md5 : Bytes → Bytes) (u : Upl) (mem : Mem) (b : Bytes) (k : Key) (id : Nat)
    (listed : List (Int × Bytes)) (h : UBound u) : UBound (complete md5 u mem b k id listed).1 := by
  unfold complete
  cases hg : u.get b k id with
  | err c => exact h
  | panic s => exact h
  | ok r =>
    obtain ⟨bu, m⟩ := r
    obtain ⟨hb, _⟩ := get_ok u b k id bu m hg
    simp only
    cases validate m listed with
    | err c => exact h
    | panic s => exact h
    | ok ps =>
      simp only
      cases hq : mem.put md5 b k m.md (ps.map (·.body)).flatten with
      | mk mem' r =>
        cases r with
        | ok v => exact ubound_insert u b _ _ h (Nat.le_refl _) (ub_remove _ bu m (h b bu hb))
        | err c => exact h
        | panic s => exact h

theorem keyed_complete (md5 : Bytes → Bytes) (u : Upl) (mem : Mem) (b : Bytes) (k : Key) (id : Nat)
    (listed : List (Int × Bytes)) (h : Keyed u) : Keyed (complete md5 u mem b k id listed).1 := by
  unfold complete
  cases hg : u.get b k id with
  | err c => exact h
  | panic s => exact h
  | ok r =>
    obtain ⟨bu, m⟩ := r
    obtain ⟨hb, _⟩ := get_ok u b k id bu m hg
    simp only
    cases validate m listed with
    | err c => exact h
    | panic s => exact h
    | ok ps =>
      simp only
      cases hq : mem.put md5 b k m.md (ps.map (·.body)).flatten with
      | mk mem' r =>
        cases r with
        | ok v => exact keyed_insert u b _ _ h (keyedB_remove bu _ (h b bu hb))
        | err c => exact h
        | panic s => exact h

/-- a pending upload's id is at most the counter -/
theorem pending_le (u : Upl) (h : UBound u) (b : Bytes) (k : Key) (id : Nat) (m : MPU) (hp : pending u b k id = some m) :
    id ≤ u.nextId := by
  obtain ⟨bu, hg⟩ := pending_get u b k id m hp
  obtain ⟨hb, hf⟩ := get_ok u b k id bu m hg
  unfold BUps.find at hf
  cases hq : bu.uploads.find? (·.1 == id) with
  | none => simp [hq] at hf
  | some q =>
    have hmem := List.mem_of_find?_eq_some hq
    have hid : q.1 = id := by simpa using List.find?_some hq
    have := h b bu hb q hmem
    omega

/-- initiating another upload leaves every pending upload as it was -/
theorem create_frame (u : Upl) (b : Bytes) (k : Key) (md : Meta) (b0 : Bytes) (k0 : Key) (i0 : Nat)
    (h : i0 ≠ u.nextId + 1) : pending (u.create b k md).1 b0 k0 i0 = pending u b0 k0 i0 := by
  unfold pending Upl.get Upl.create
  by_cases hbb : b = b0
  · subst hbb
    simp only [SMap.find_insert_self]
    have hfind : ∀ bu : BUps, (bu.add ⟨u.nextId + 1, b, k, md, []⟩).find i0 = bu.find i0 := by
      intro bu
      unfold BUps.add BUps.find
      simp only [List.find?_append]
      have hne : ((u.nextId + 1) == i0) = false := by simpa using (Ne.symm h)
      have h2 := find_filter_ne bu.uploads (u.nextId + 1) i0 h
      cases hq : (bu.uploads.filter (fun p => !(p.1 == u.nextId + 1))).find? (·.1 == i0) with
      | some q => rw [hq] at h2; simp [← h2]
      | none => rw [hq] at h2; simp [List.find?, hne, ← h2]
    rw [hfind]
    cases hf : SMap.find u.buckets b with
    | none => simp [BUps.find]
    | some bu =>
      simp only [Option.getD_some]
      cases bu.find i0 with
      | none => rfl
      | some m' => by_cases hc : (m'.bucket == b && m'.key == k0) = true <;> simp [hc]
  · simp only [SMap.find_insert_ne _ _ _ _ hbb]

theorem find_map_set_self (l : List (Nat × MPU)) (m m' : MPU) (id : Nat)
    (h : (l.find? (·.1 == id)).map (·.2) = some m) (hid : m'.id = id) :
    ((l.map (fun p => if p.1 == m'.id then (p.1, m') else p)).find? (·.1 == id)).map (·.2) = some m' := by
  induction l with
  | nil => simp at h
  | cons q qs ih =>
    simp only [List.map_cons, List.find?_cons] at h ⊢
    by_cases hq : (q.1 == id) = true
    · have : (q.1 == m'.id) = true := by rw [hid]; exact hq
      simp [this, hq]
    · simp only [Bool.not_eq_true] at hq
      have : (q.1 == m'.id) = false := by rw [hid]; exact hq
      simp only [this, Bool.false_eq_true, if_false, hq] at h ⊢
      exact ih h

/-- what the specification records for the tracked upload: a part upload addressed to it (with a
    part number the server admits) replaces the most recent body of that number -/
def track (b0 : Bytes) (k0 : Key) (i0 : Nat) (up : Upload) : Op → Upload
  | .part b k id n _ body =>
    if b = b0 ∧ k = k0 ∧ id = i0 ∧ n ≤ MaxUploadPartNumber then setLatest up n body else up
  | _ => up

theorem track_part (b0 : Bytes) (k0 : Key) (i0 : Nat) (up : Upload) (b : Bytes) (k : Key) (id n : Nat) (d : Int) (body : Bytes) :
    track b0 k0 i0 up (.part b k id n d body) =
      if b = b0 ∧ k = k0 ∧ id = i0 ∧ n ≤ MaxUploadPartNumber then setLatest up n body else up := rfl

/-- an operation addressed to the upload id under another key does not find it -/
theorem get_other_key (u : Upl) (b0 : Bytes) (k0 k : Key) (i0 : Nat) (m : MPU) (hp : pending u b0 k0 i0 = some m)
    (hk : k ≠ k0) : u.get b0 k i0 = .err .NoSuchUpload := by
  obtain ⟨bu, hg⟩ := pending_get u b0 k0 i0 m hp
  obtain ⟨hb, hf⟩ := get_ok u b0 k0 i0 bu m hg
  have hkey : m.key = k0 := by
    unfold Upl.get at hg
    simp only [hb, hf] at hg
    split at hg
    · rename_i hc; simp only [Bool.and_eq_true, beq_iff_eq] at hc; exact hc.2
    · simp at hg
  unfold Upl.get
  simp only [hb, hf]
  have : (m.key == k) = false := by rw [hkey]; simpa using (Ne.symm hk)
  simp [this]

/-- requests that end the tracked upload's life -/
def Ends (b0 : Bytes) (k0 : Key) (i0 : Nat) : Op → Prop
  | .abort b k id => b = b0 ∧ k = k0 ∧ id = i0
  | .complete b k id _ => b = b0 ∧ k = k0 ∧ id = i0
  | _ => False

/-- part uploads declare the length of the body they carry (others are refused, C08) -/
def Honest : Op → Prop
  | .part _ _ _ _ d body => d = (body.length : Int)
  | _ => True

structure SInv (s : Srv) : Prop where
  keyed : Keyed s.upl
  bound : UBound s.upl

theorem step_sinv (md5 : Bytes → Bytes) (s : Srv) (op : Op) (h : SInv s) : SInv (step md5 s op) := by
  cases op with
  | initiate b k md => exact ⟨keyed_create s.upl b k md h.keyed, ubound_create s.upl b k md h.bound⟩
  | part b k id n d body => exact ⟨keyed_uploadPart md5 s.upl b k id n d body h.keyed, ubound_uploadPart md5 s.upl b k id n d body h.bound⟩
  | abort b k id => exact ⟨keyed_abort s.upl b k id h.keyed, ubound_abort s.upl b k id h.bound⟩
  | complete b k id listed => exact ⟨keyed_complete md5 s.upl s.mem b k id listed h.keyed, ubound_complete md5 s.upl s.mem b k id listed h.bound⟩
  | store m => exact ⟨h.keyed, h.bound⟩

/-- **tracked_step**: one request of any client — on this upload, on another upload of the same
    key, on another key or bucket, or a change of the store — keeps the tracked upload pending
    with slots that hold exactly the most recent body per part number -/
theorem tracked_step (md5 : Bytes → Bytes) (s : Srv) (op : Op) (b0 : Bytes) (k0 : Key) (i0 : Nat) (up : Upload)
    (hi : SInv s) (ht : TRel md5 s.upl b0 k0 i0 up) (he : ¬ Ends b0 k0 i0 op) (hh : Honest op) :
    TRel md5 (step md5 s op).upl b0 k0 i0 (track b0 k0 i0 up op) := by
  obtain ⟨m, hp, hrel⟩ := ht
  cases op with
  | store m' => exact ⟨m, hp, hrel⟩
  | initiate b k md =>
    have hle := pending_le s.upl hi.bound b0 k0 i0 m hp
    refine ⟨m, ?_, hrel⟩
    simp only [step]
    rw [create_frame s.upl b k md b0 k0 i0 (by omega)]
    exact hp
  | abort b k id =>
    simp only [step, track]
    by_cases hsame : id = i0 ∧ b = b0
    · obtain ⟨rfl, rfl⟩ := hsame
      have hk : k ≠ k0 := fun e => he ⟨rfl, e, rfl⟩
      have hg := get_other_key s.upl b k0 k id m hp hk
      refine ⟨m, ?_, hrel⟩
      unfold Upl.abort; simp only [hg]; exact hp
    · refine ⟨m, ?_, hrel⟩
      rw [abort_frame s.upl hi.keyed b k id b0 k0 i0 (by
        by_cases h1 : i0 = id
        · right; intro h2; exact hsame ⟨h1.symm, h2.symm⟩
        · left; exact h1)]
      exact hp
  | complete b k id listed =>
    simp only [step, track]
    by_cases hsame : id = i0 ∧ b = b0
    · obtain ⟨rfl, rfl⟩ := hsame
      have hk : k ≠ k0 := fun e => he ⟨rfl, e, rfl⟩
      have hg := get_other_key s.upl b k0 k id m hp hk
      refine ⟨m, ?_, hrel⟩
      unfold Upl.complete; simp only [hg]; exact hp
    · refine ⟨m, ?_, hrel⟩
      rw [complete_frame md5 s.upl hi.keyed s.mem b k id listed b0 k0 i0 (by
        by_cases h1 : i0 = id
        · right; intro h2; exact hsame ⟨h1.symm, h2.symm⟩
        · left; exact h1)]
      exact hp
  | part b k id n d body =>
    simp only [step]
    rw [track_part]
    have hd : d = (body.length : Int) := hh
    subst hd
    by_cases hsame : id = i0 ∧ b = b0
    · obtain ⟨rfl, rfl⟩ := hsame
      by_cases hk : k = k0
      · subst hk
        by_cases hn : n ≤ MaxUploadPartNumber
        · rw [if_pos ⟨rfl, rfl, rfl, hn⟩]
          obtain ⟨bu, hg⟩ := pending_get s.upl b k id m hp
          obtain ⟨hb, hf⟩ := get_ok s.upl b k id bu m hg
          have hid : m.id = id := find_keyed bu id m (hi.keyed b bu hb) hf
          have hn' : ¬ n > MaxUploadPartNumber := by omega
          refine ⟨{ m with parts := setPart m.parts n ⟨body, md5 body⟩ }, ?_, partsRel_setPart md5 m.parts up n body hrel⟩
          unfold Upl.uploadPart
          simp only [hn', if_false, ne_eq, not_true_eq_false, hg]
          -- the updated upload is what is pending now
          have hfs : (bu.set { m with parts := setPart m.parts n ⟨body, md5 body⟩ }).find id =
              some { m with parts := setPart m.parts n ⟨body, md5 body⟩ } := by
            unfold BUps.set BUps.find
            exact find_map_set_self bu.uploads m _ id hf hid
          have hbk : m.bucket = b ∧ m.key = k := by
            unfold Upl.get at hg
            simp only [hb, hf] at hg
            split at hg
            · rename_i hc; simp only [Bool.and_eq_true, beq_iff_eq] at hc; exact hc
            · simp at hg
          unfold pending Upl.get
          simp only [SMap.find_insert_self]
          rw [hfs]
          simp [hbk.1, hbk.2]
        · have hn' : n > MaxUploadPartNumber := by omega
          rw [if_neg (fun h => hn h.2.2.2)]
          refine ⟨m, ?_, hrel⟩
          unfold Upl.uploadPart; simp only [hn', if_true]; exact hp
      · rw [if_neg (fun h => hk h.2.1)]
        have hg := get_other_key s.upl b k0 k id m hp hk
        refine ⟨m, ?_, hrel⟩
        unfold Upl.uploadPart
        split
        · exact hp
        · simp only [ne_eq, not_true_eq_false, if_false, hg]; exact hp
    · rw [if_neg (fun h => hsame ⟨h.2.2.1, h.1⟩)]
      refine ⟨m, ?_, hrel⟩
      rw [uploadPart_frame md5 s.upl hi.keyed b k id n _ body b0 k0 i0 (by
        by_cases h1 : i0 = id
        · right; intro h2; exact hsame ⟨h1.symm, h2.symm⟩
        · left; exact h1)]
      exact hp

/-- **tracked_parts_exact**: from the initiation of an upload on, after EVERY finite interleaving
    of initiate / upload-part / abort / complete requests of any clients (and any changes of the
    store) that does not abort or complete this upload, the upload is still pending and its slots
    hold, for every part number, exactly the most recent body uploaded under it — whatever the
    order of the part uploads, however often a number was re-uploaded, whatever happened to other
    uploads of the same key.  With complete_sound / complete_accepts / complete_refuses this is the
    statement of C06 for every history. -/
theorem tracked_parts_exact (md5 : Bytes → Bytes) (b0 : Bytes) (k0 : Key) (i0 : Nat) (ops : List Op) :
    ∀ (s : Srv) (up : Upload), SInv s → TRel md5 s.upl b0 k0 i0 up →
      (∀ op ∈ ops, ¬ Ends b0 k0 i0 op ∧ Honest op) →
      SInv (ops.foldl (step md5) s) ∧
      TRel md5 (ops.foldl (step md5) s).upl b0 k0 i0 (ops.foldl (track b0 k0 i0) up) := by
  induction ops with
  | nil => intro s up hi ht _; exact ⟨hi, ht⟩
  | cons op ops ih =>
    intro s up hi ht hall
    have h1 := hall op (by simp)
    exact ih _ _ (step_sinv md5 s op hi) (tracked_step md5 s op b0 k0 i0 up hi ht h1.1 h1.2)
      (fun o ho => hall o (by simp [ho]))

/-- a newly initiated upload is pending with no parts: related to the specification's empty record -/
theorem initiate_related (md5 : Bytes → Bytes) (u : Upl) (hb : UBound u) (b : Bytes) (k : Key) (md : Meta) :
    TRel md5 (u.create b k md).1 b k (u.nextId + 1) ⟨u.nextId + 1, b, k, []⟩ := by
  refine ⟨⟨u.nextId + 1, b, k, md, []⟩, ?_, partsRel_nil md5⟩
  unfold pending Upl.get Upl.create
  simp only [SMap.find_insert_self]
  have : ∀ bu : BUps, UB u.nextId bu → (bu.add ⟨u.nextId + 1, b, k, md, []⟩).find (u.nextId + 1) = some ⟨u.nextId + 1, b, k, md, []⟩ := by
    intro bu hub
    unfold BUps.add BUps.find
    simp only [List.find?_append]
    have : (bu.uploads.filter (fun p => !(p.1 == u.nextId + 1))).find? (·.1 == u.nextId + 1) = none := by
      apply List.find?_eq_none.mpr
      intro x hx
      have := (List.mem_filter.mp hx).2
      simpa using this
    simp [this]
  cases hf : SMap.find u.buckets b with
  | none =>
    simp only [Option.getD_none]
    rw [this ⟨[], []⟩ (by intro p hp; simp at hp)]
    simp
  | some bu =>
    simp only [Option.getD_some]
    rw [this bu (hb b bu hf)]
    simp

theorem sinv_empty (mem : Mem) : SInv ⟨mem, Upl.empty⟩ :=
  ⟨keyed_empty, by intro b bu h; simp [Upl.empty] at h⟩

/-! Non-vacuity: two uploads of one key; parts 2, 1, 2 (again) for the first in between parts of
    the second; the specification accepts [1,2] with the re-uploaded body and the code stores it. -/
def exOps : List Op :=
  [.initiate [98] [107] [], .part [98] [107] 1 2 1 [7], .part [98] [107] 2 1 1 [9], .part [98] [107] 1 1 1 [5],
   .part [98] [107] 1 2 1 [8], .abort [98] [107] 2]
def exS : Srv := exOps.foldl (step id) ⟨(Mem.createBucket Mem.empty [98]).1, (Upl.create Upl.empty [98] [107] []).1⟩
example : (pending exS.upl [98] [107] 1).isSome = true ∧
    (exOps.foldl (track [98] [107] 1) ⟨1, [98], [107], []⟩).latest = [(1, [5]), (2, [8])] := by decide
example : (∀ op ∈ exOps, ¬ Ends [98] [107] 1 op ∧ Honest op) := by
  intro op hop
  simp only [exOps, List.mem_cons, List.mem_nil_iff, or_false] at hop
  rcases hop with rfl | rfl | rfl | rfl | rfl | rfl <;> simp [Ends, Honest]

end GFS.Props.C06R
