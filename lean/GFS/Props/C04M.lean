import GFS.Props.C04D
set_option linter.unusedSimpArgs false
set_option linter.unusedVariables false
/-
  C04 from an arbitrary marker: a walk started at ANY marker — a key of the bucket, a string
  between two keys, a string beyond the last key — lists exactly the objects whose key is greater
  than the marker, once each.
-/
namespace GFS.Props.C04M
open GFS GFS.Model GFS.Bytes GFS.Props.C03G GFS.Props.C04D GFS.Props.C04W

/-- on a sorted bucket the objects after a marker form a suffix -/
theorem filter_lt_suffix (m : Bytes) (L : List (Key × Obj)) (hs : SMap.Sorted L) :
    ∃ pre, L = pre ++ L.filter (fun q => lt m q.1) := by
  induction L with
  | nil => exact ⟨[], rfl⟩
  | cons q rest ih =>
    have hr : SMap.Sorted rest := (List.pairwise_cons.mp hs).2
    have hq : ∀ r ∈ rest, lt q.1 r.1 = true := (List.pairwise_cons.mp hs).1
    by_cases h : lt m q.1 = true
    · -- everything from here on is after the marker
      have hall : ∀ r ∈ rest, lt m r.1 = true := fun r hr' => lt_trans _ _ _ h (hq r hr')
      refine ⟨[], ?_⟩
      simp only [List.nil_append, List.filter_cons, h, if_true]
      congr 1
      exact (List.filter_eq_self.mpr hall).symm
    · obtain ⟨pre, hp⟩ := ih hr
      refine ⟨q :: pre, ?_⟩
      simp only [List.filter_cons, h, if_false, List.cons_append]
      congr 1

/-- **walk_from_marker_exact**: with or without delimiter (any prefix in the statement's domain),
    any page size ≥ 1 and ANY start marker, the walk terminates on an untruncated page and its
    pages' Contents and CommonPrefixes concatenate to exactly those of the unpaginated listing of
    the objects whose key is greater than the marker. -/
theorem walk_from_marker_exact (m : Mem) (b : Bytes) (bk : Bucket) (hb : SMap.find m.buckets b = some bk)
    (hasP : Bool) (d : UInt8) (pfx : Bytes) (mk : Int) (hmk : 1 ≤ mk) (marker : Bytes) (hm : marker ≠ [])
    (hsorted : SMap.Sorted bk.objects) (hinv : ∀ q ∈ bk.objects, q.2.data ≠ none ∧ q.1 ≠ [])
    (hdom : ∀ q ∈ bk.objects, q.1.head? ≠ some d ∧ q.1.getLast? ≠ some d) (hp : pfx.head? ≠ some d) :
    let p : Prefix := ⟨hasP, pfx, true, d⟩
    let after := bk.objects.filter (fun q => lt marker q.1)
    let pages := walk m b p mk (bk.objects.length + 1) marker
    pages.flatMap (·.contents) = contentsOf p after ∧
    pages.flatMap (·.prefixes) = addAll [] (cpsOf p after) ∧
    pages.getLast?.map (·.truncated) = some false := by
  intro p after pages
  have hmm : ∀ q ∈ bk.objects, p.match_ q.1 = GFS.Props.C03M.specD d q.1 pfx :=
    fun q hq => GFS.Props.C03M.match_eq_entryOf hasP d pfx q.1 hp (hdom q hq).1 (hdom q hq).2
  have hne : ∀ q ∈ bk.objects, ∀ mp, p.match_ q.1 = some (true, mp) → mp ≠ [] := by
    intro q hq mp h
    rw [hmm q hq] at h
    unfold GFS.Props.C03M.specD at h
    cases he : GFS.Spec.Listing.entryOf pfx (some d) q.1 with
    | none => simp [he] at h
    | some e =>
      cases e with
      | content k => simp [he] at h
      | cprefix x =>
        simp only [he, Option.some.injEq, Prod.mk.injEq, true_and] at h
        subst h
        exact cprefix_ne_nil pfx q.1 x d he
  have hsep := sep_of_sorted hasP d pfx bk.objects hsorted hdom hp
  obtain ⟨pre, hpre⟩ := filter_lt_suffix marker bk.objects hsorted
  have hafter : afterMarker bk.objects marker = after := by
    unfold afterMarker
    have : marker.isEmpty = false := by cases marker with | nil => exact absurd rfl hm | cons _ _ => rfl
    simp [this, after]
  have hlen : after.length < bk.objects.length + 1 := by
    have := List.length_filter_le (fun q => lt marker q.1) bk.objects
    simp only [after]; omega
  obtain ⟨g1, g2, g3, _⟩ := walk_delim_aux m b bk hb p mk hmk hsorted hinv hne hsep (bk.objects.length + 1)
    after pre marker hpre hafter hlen
  exact ⟨g1, g2, g3⟩

/-! Non-vacuity: the bucket of C04D's example, started at marker "a/y" (a delete-marked key) and
    at "aa" (no such key). -/
example : ((walk GFS.Props.C04D.exM [120] ⟨false, [], true, 47⟩ 1 6 [97, 47, 121]).map (fun r => (r.contents.map (·.key), r.prefixes))) =
    [([], [[97, 47]]), ([[97, 98]], []), ([], [[98, 47]])] := by decide
example : ((walk GFS.Props.C04D.exM [120] ⟨false, [], true, 47⟩ 2 6 [97, 97]).map (fun r => (r.contents.map (·.key), r.prefixes))) =
    [([[97, 98]], [[98, 47]])] := by decide

end GFS.Props.C04M
