import GFS.Model.Mem
set_option linter.unusedSimpArgs false
set_option linter.unusedVariables false
/-
  C05 — versioning never loses history and always serves the newest remaining version.
  Theorems about the bucket-level state machine of s3mem (bucket.go).
-/
namespace GFS.Props.C05
open GFS GFS.Model

/-- archiving a version makes it findable by its id and keeps every other id findable -/
theorem find_insertVer (vs : List Ver) (v : Ver) (id : Nat) :
    (insertVer vs v).find? (·.id == id) = if v.id = id then some v else vs.find? (·.id == id) := by
  induction vs with
  | nil => simp [insertVer, List.find?]
  | cons w ws ih =>
    unfold insertVer
    split
    · rename_i hw
      have hwv : w.id = v.id := by simpa using hw
      simp only [List.find?]
      by_cases hv : v.id = id
      · simp [hv]
      · have : (v.id == id) = false := by simpa using hv
        have h2 : (w.id == id) = false := by rw [hwv]; exact this
        simp [this, h2, hv]
    · split
      · simp only [List.find?]
        by_cases hv : v.id = id
        · simp [hv]
        · have : (v.id == id) = false := by simpa using hv
          simp [this, hv]
      · simp only [List.find?]
        by_cases hwid : w.id = id
        · have hne : v.id ≠ id := by
            intro h; rename_i h1 h2; rw [← hwid] at h; simp [h] at h1
          simp [hwid, hne]
        · have : (w.id == id) = false := by simpa using hwid
          simp only [this]; exact ih

/-- **version_retained_on_put**: while versioning is Enabled, an upload over an existing
    current version `old` keeps `old` retrievable by its id with exactly its own bytes, digest
    and metadata (a fresh id is assumed for the new version, which the generator guarantees),
    and every version archived earlier stays retrievable as well. -/
theorem version_retained_on_put (bk : Bucket) (k : Key) (o : Obj) (old item : Ver)
    (hv : bk.versioning = .enabled) (ho : SMap.find bk.objects k = some o) (hd : o.data = some old)
    (hfresh : item.id ≠ old.id) :
    (bk.put k item).objectVersion k old.id = .ok old ∧
    (bk.put k item).objectVersion k item.id = .ok item ∧
    ∀ id w, id ≠ item.id → id ≠ old.id → o.versions.find? (·.id == id) = some w →
      (bk.put k item).objectVersion k id = .ok w := by
  have hne : (item.id == old.id) = false := by simpa using hfresh
  refine ⟨?_, ?_, ?_⟩
  · simp [Bucket.put, Bucket.objectVersion, SMap.find_insert_self, ho, hv, hd, hne, find_insertVer]
  · simp [Bucket.put, Bucket.objectVersion, SMap.find_insert_self]
  · intro id w h1 h2 hw
    have e1 : (item.id == id) = false := by simpa using (Ne.symm h1)
    have e2 : ¬ old.id = id := Ne.symm h2
    simp [Bucket.put, Bucket.objectVersion, SMap.find_insert_self, ho, hv, hd, e1, find_insertVer, e2, hw]

/-- **plain_delete_adds_marker**: while Enabled, a plain delete of an existing key makes the
    current version a delete marker with the fresh id (so the key reads NoSuchKey) and the
    version that was current remains retrievable by id, unchanged. -/
theorem plain_delete_adds_marker (bk : Bucket) (k : Key) (o : Obj) (old : Ver) (fresh : Nat)
    (hv : bk.versioning = .enabled) (ho : SMap.find bk.objects k = some o) (hd : o.data = some old)
    (hfresh : fresh ≠ old.id) :
    let r := bk.rm k fresh
    r.2.1 = true ∧ r.2.2.1 = some fresh ∧
    (∃ o', SMap.find r.1.objects k = some o' ∧ ∃ d, o'.data = some d ∧ d.marker = true ∧ d.id = fresh) ∧
    r.1.objectVersion k old.id = .ok old := by
  have hne : (fresh == old.id) = false := by simpa using hfresh
  simp only [Bucket.rm, ho, hv]
  refine ⟨rfl, rfl, ?_, ?_⟩
  · simp [Bucket.put, SMap.find_insert_self]
  · simp [Bucket.put, Bucket.objectVersion, SMap.find_insert_self, ho, hv, hd, hne, find_insertVer]

/-- **delete_current_promotes** (the repaired D4): deleting the current version by id while
    older versions remain makes the newest remaining one current — the object never sits in
    the bucket without a current version. -/
theorem delete_current_promotes (bk : Bucket) (k : Key) (o : Obj) (cur last : Ver)
    (ho : SMap.find bk.objects k = some o) (hd : o.data = some cur)
    (hl : o.versions.getLast? = some last) :
    ∃ o', SMap.find (bk.rmVersion k cur.id).1.objects k = some o' ∧ o'.data = some last ∧
      o'.versions = o.versions.dropLast := by
  simp only [Bucket.rmVersion, ho, hd, beq_self_eq_true, if_true, Obj.promote, hl, Bucket.storeObj]
  simp [SMap.find_insert_self]

/-- suspending versioning does not touch any object -/
theorem suspend_preserves_objects (m : Mem) (b : Bytes) (bk : Bucket) (h : SMap.find m.buckets b = some bk) (e : Bool) :
    ∃ bk', SMap.find (m.setVersioning b e).1.buckets b = some bk' ∧ bk'.objects = bk.objects := by
  simp [Mem.setVersioning, h, SMap.find_insert_self]

/-! Non-vacuity: an Enabled bucket with a current version and one archived version. -/
example : ∃ bk : Bucket, bk.versioning = .enabled ∧
    SMap.find bk.objects [107] = some ⟨some ⟨2, false, [2], [], []⟩, [⟨1, false, [1], [], []⟩]⟩ :=
  ⟨⟨.enabled, [([107], ⟨some ⟨2, false, [2], [], []⟩, [⟨1, false, [1], [], []⟩]⟩)]⟩, rfl, by rfl⟩

end GFS.Props.C05
