import GFS.Props.C13
import GFS.Props.C03G
set_option linter.unusedSimpArgs false
set_option linter.unusedVariables false
/-
  C13, the whole listing: without page limit and markers, ListObjectVersions is the concatenation,
  key by key in stored (ascending) order, of every version and delete marker of every matching key.
-/
namespace GFS.Props.C13L
open GFS GFS.Model GFS.Props.C13 GFS.Props.C03G

def entriesOfKey (p : Prefix) (masked : Bool) (q : Key × Obj) : List VerEntry :=
  match p.match_ q.1 with
  | some (false, _) => q.2.allVersions.map (entryOf q.1 masked)
  | _ => []

def prefixOfKey (p : Prefix) (q : Key × Obj) : Option Bytes :=
  match p.match_ q.1 with
  | some (true, mp) => some mp
  | _ => none

/-- the outer loop without page limit or markers -/
theorem verLoop_unpaginated (p : Prefix) (masked : Bool) (objs : List (Key × Obj)) (cnt : Int) (acc : VersionList) :
    verLoop p masked 0 [] none objs cnt acc =
      .ok { acc with entries := acc.entries ++ objs.flatMap (entriesOfKey p masked),
                     prefixes := addAll acc.prefixes (objs.filterMap (prefixOfKey p)) } := by
  induction objs generalizing cnt acc with
  | nil => simp [verLoop, addAll]
  | cons q rest ih =>
    obtain ⟨k, o⟩ := q
    unfold verLoop
    cases hm : p.match_ k with
    | none =>
      simp only
      rw [ih]
      simp [entriesOfKey, prefixOfKey, hm, List.flatMap_cons, List.filterMap_cons]
    | some r =>
      obtain ⟨cp, mp⟩ := r
      cases cp with
      | true =>
        simp only
        rw [ih]
        by_cases hc : mp ∈ acc.prefixes
        · simp [entriesOfKey, prefixOfKey, hm, List.flatMap_cons, List.filterMap_cons, addAll_cons, hc]
        · simp [entriesOfKey, prefixOfKey, hm, List.flatMap_cons, List.filterMap_cons, addAll_cons, hc]
      | false =>
        simp only [verLoopInner_unpaginated]
        rw [ih]
        simp [entriesOfKey, prefixOfKey, hm, List.flatMap_cons, List.filterMap_cons, List.append_assoc]

/-- **listVersions_exact**: for every store, bucket, prefix and delimiter, the unpaginated
    ListObjectVersions (no markers, no limit) answers, not truncated, with exactly the versions and
    delete markers of every key `Match` lists as Contents — key by key in stored order, each key's
    archived versions in ascending id order followed by its current version, each entry once with
    its own id ("null" throughout for a bucket that never had versioning), size and digest, and
    IsLatest on the current version only — and each common prefix once. -/
theorem listVersions_exact (m : Mem) (b : Bytes) (bk : Bucket) (hb : SMap.find m.buckets b = some bk) (p : Prefix) :
    m.listVersions b p [] none 0 =
      .ok ⟨bk.objects.flatMap (entriesOfKey p (bk.versioning == .none)),
           addAll [] (bk.objects.filterMap (prefixOfKey p)), false, [], none⟩ := by
  unfold Mem.listVersions
  simp only [hb, List.isEmpty_nil, if_true]
  rw [verLoop_unpaginated]
  simp

/-- per key: the listed entries of a key with a current version contain exactly one IsLatest
    entry, the current version (what an unqualified read resolves to) -/
theorem one_latest_per_key (p : Prefix) (masked : Bool) (k : Key) (o : Obj) (d : Ver) (mp : Bytes)
    (hd : o.data = some d) (hm : p.match_ k = some (false, mp)) :
    (entriesOfKey p masked (k, o)).filter (·.isLatest) = [entryOf k masked (d, true)] := by
  simp only [entriesOfKey, hm]
  exact exactly_one_latest k masked o d hd

/-! Non-vacuity -/
example : (Mem.listVersions ⟨[([98], ⟨.enabled, [([107], ⟨some ⟨3, true, [], [], []⟩, [⟨1, false, [1], [9], []⟩]⟩)]⟩)], 3⟩
    [98] ⟨false, [], false, 0⟩ [] none 0) =
    .ok ⟨[⟨[107], some 1, false, false, 1, [9]⟩, ⟨[107], some 3, true, true, 0, []⟩], [], false, [], none⟩ := by decide

end GFS.Props.C13L
