import GFS.Props.C05R
import GFS.Props.C03
import GFS.Lemmas.Order
set_option linter.unusedSimpArgs false
set_option linter.unusedVariables false
/-
  C03 over whole histories of a versioned bucket: the keys a listing shows are exactly the keys
  whose unqualified read succeeds — deleted keys, delete-marked keys and keys whose every version
  was removed never appear, and a key whose newest remaining version is an object always does.
  Props/C03 (list_plain_exact) says the undelimited listing is `shown`, the live matching keys of
  the store; Props/C05R relates the store to the specification machine after every allowed
  history.  Composed below.
-/
namespace GFS.Props.C03R
open GFS GFS.Model GFS.Props.C03 GFS.Props.C05R GFS.Props.C13I
open GFS.Spec.Versions (VBucket entriesOf)

theorem find_of_mem_sorted {α : Type} (m : SMap α) (h : SMap.Sorted m) (k : Bytes) (v : α) (hm : (k, v) ∈ m) :
    SMap.find m k = some v := by
  induction m with
  | nil => simp at hm
  | cons q rest ih =>
    obtain ⟨k', v'⟩ := q
    have hp := List.pairwise_cons.mp h
    rcases List.mem_cons.mp hm with heq | hin
    · simp only [Prod.mk.injEq] at heq
      obtain ⟨rfl, rfl⟩ := heq
      simp [SMap.find]
    · have hlt := hp.1 (k, v) hin
      have hne : (k' == k) = false := by
        cases hq : (k' == k) with
        | false => rfl
        | true =>
          have : k' = k := by simpa using hq
          subst this
          simp only at hlt
          rw [Bytes.lt_irrefl] at hlt
          exact absurd hlt (by simp)
      simp only [SMap.find, hne, Bool.false_eq_true, if_false]
      exact ih hp.2 hin

theorem hasPrefix_nil (k : Bytes) : Bytes.hasPrefix k [] = true := by cases k <;> rfl

/-- membership in the listing of all keys (no prefix) -/
theorem mem_shown (objs : List (Key × Obj)) (c : Content) :
    c ∈ shown [] objs ↔ ∃ k o d, (k, o) ∈ objs ∧ o.data = some d ∧ d.marker = false ∧ c = ⟨k, d.body.length, d.hash⟩ := by
  unfold shown
  simp only [List.mem_filterMap]
  constructor
  · rintro ⟨⟨k, o⟩, hin, hc⟩
    cases hd : o.data with
    | none => simp [hd] at hc
    | some d =>
      simp only [hd, hasPrefix_nil, Bool.true_and] at hc
      cases hm : d.marker with
      | true => simp [hm] at hc
      | false =>
        simp only [hm, Bool.not_false, if_true, Option.some.injEq] at hc
        exact ⟨k, o, d, hin, hd, hm, hc.symm⟩
  · rintro ⟨k, o, d, hin, hd, hm, rfl⟩
    exact ⟨(k, o), hin, by simp [hd, hasPrefix_nil, hm]⟩

/-- **listing_is_live_keys**: in states related to the specification (every state an allowed
    history reaches, `C05R.versions_run_refines`) a key is listed exactly when its unqualified read
    succeeds, and then with the size of the body that read returns. -/
theorem listing_is_live_keys (m : Mem) (b : Bytes) (vb : VBucket) (hm : MInv m) (hr : MRel m b vb) :
    ∃ bk, SMap.find m.buckets b = some bk ∧ ∀ k : Key,
      ((∃ c ∈ shown [] bk.objects, c.key = k) ↔ ∃ body, Spec.Versions.get vb k = .ok body) ∧
      (∀ c ∈ shown [] bk.objects, c.key = k → ∀ body, Spec.Versions.get vb k = .ok body → c.size = body.length) := by
  obtain ⟨hagree⟩ : Nonempty (∀ k, obsGet m b k = Spec.Versions.get vb k) := ⟨fun k => (reads_agree m b vb hm hr k).1⟩
  obtain ⟨bk, hb, r⟩ := hr
  have hinv := hm (b, bk) (find_mem_key _ _ _ hb)
  refine ⟨bk, hb, fun k => ⟨⟨?_, ?_⟩, ?_⟩⟩
  · rintro ⟨c, hc, rfl⟩
    obtain ⟨k, o, d, hin, hd, hmk, rfl⟩ := (mem_shown _ _).mp hc
    have hf := find_of_mem_sorted bk.objects hinv.1 k o hin
    refine ⟨d.body, ?_⟩
    rw [← hagree k]
    simp [obsGet, Mem.get, Mem.current, hb, hf, hd, hmk]
  · rintro ⟨body, hg⟩
    rw [← hagree k] at hg
    unfold obsGet Mem.get Mem.current at hg
    simp only [hb] at hg
    cases hf : SMap.find bk.objects k with
    | none => simp [hf] at hg
    | some o =>
      simp only [hf] at hg
      cases hd : o.data with
      | none => simp [hd] at hg
      | some d =>
        simp only [hd] at hg
        cases hmk : d.marker with
        | true => simp [hmk] at hg
        | false =>
          exact ⟨⟨k, d.body.length, d.hash⟩, (mem_shown _ _).mpr ⟨k, o, d, find_mem_key _ _ _ hf, hd, hmk, rfl⟩, rfl⟩
  · intro c hc hk body hg
    obtain ⟨k', o, d, hin, hd, hmk, rfl⟩ := (mem_shown _ _).mp hc
    simp only at hk
    subst hk
    have hf := find_of_mem_sorted bk.objects hinv.1 k' o hin
    rw [← hagree k'] at hg
    simp only [obsGet, Mem.get, Mem.current, hb, hf, hd, hmk, Bool.false_eq_true, if_false, Res.ok.injEq] at hg
    subst hg
    rfl

/-- the same after every allowed history -/
theorem listing_after_history (md5 : Bytes → Bytes) (b : Bytes) (ops : List HOp) (m : Mem) (vb : VBucket)
    (hm : MInv m) (hr : MRel m b vb) (ha : Allowed md5 b m vb ops) :
    ∃ bk, SMap.find (run md5 b m vb ops).1.buckets b = some bk ∧ ∀ k : Key,
      ((∃ c ∈ shown [] bk.objects, c.key = k) ↔ ∃ body, Spec.Versions.get (run md5 b m vb ops).2 k = .ok body) := by
  obtain ⟨h1, h2⟩ := versions_run_refines md5 b ops m vb hm hr ha
  obtain ⟨bk, hb, h⟩ := listing_is_live_keys _ b _ h1 h2
  exact ⟨bk, hb, fun k => (h k).1⟩

/-! Non-vacuity: after C05R's example history key "k" is live (its newest version is the object 4). -/
example : (shown [] (((run id [98] C05R.exM ⟨.never, []⟩ C05R.exOps).1.buckets.find [98]).map (·.objects)).get!) =
    [⟨[107], 1, [4]⟩] := by decide

end GFS.Props.C03R
