import GFS.Props.C13L
import GFS.Props.C14U
set_option linter.unusedSimpArgs false
set_option linter.unusedVariables false
/-
  C13 / C14: the common prefixes of the unpaginated ListObjectVersions and ListMultipartUploads are
  reported exactly once each, and exactly those that some key groups under (`Prefix.Match` says
  "common prefix") — the grouping clause of C03 carried over to the two other listings.
-/
namespace GFS.Props.CPfx
open GFS GFS.Model GFS.Props.C03G

/-- **versions_prefixes_once**: in the unpaginated version listing every common prefix appears once,
    and a prefix appears exactly when some key of the bucket is grouped under it -/
theorem versions_prefixes_once (m : Mem) (b : Bytes) (bk : Bucket) (hb : SMap.find m.buckets b = some bk) (p : Prefix) :
    ∃ r, m.listVersions b p [] none 0 = .ok r ∧ r.truncated = false ∧ r.prefixes.Nodup ∧
      ∀ x, x ∈ r.prefixes ↔ ∃ q ∈ bk.objects, C13L.prefixOfKey p q = some x := by
  refine ⟨_, C13L.listVersions_exact m b bk hb p, rfl, ?_, ?_⟩
  · exact (addAll_spec _ [] List.nodup_nil).1
  · intro x
    have := (addAll_spec (bk.objects.filterMap (C13L.prefixOfKey p)) [] List.nodup_nil).2 x
    simp only [this, List.not_mem_nil, false_or, List.mem_filterMap]

/-- **uploads_prefixes_once**: the same for ListMultipartUploads without marker and above the limit -/
theorem uploads_prefixes_once (u : Upl) (b : Bytes) (bu : BUps) (hb : SMap.find u.buckets b = some bu) (p : Prefix) (limit : Int)
    (h : C14U.total p bu.index < limit) :
    ∃ r, u.listUploads b p [] none limit = .ok r ∧ r.truncated = false ∧ r.prefixes.Nodup ∧
      ∀ x, x ∈ r.prefixes ↔ ∃ q ∈ bu.index, C14U.prefixOfKey p q = some x := by
  refine ⟨_, C14U.listUploads_exact u b bu hb p limit h, rfl, ?_, ?_⟩
  · exact (addAll_spec _ [] List.nodup_nil).1
  · intro x
    have := (addAll_spec (bu.index.filterMap (C14U.prefixOfKey p)) [] List.nodup_nil).2 x
    simp only [this, List.not_mem_nil, false_or, List.mem_filterMap]

end GFS.Props.CPfx
