import GFS.Props.C07Gen
/-
  C08: "any upload the server rejects leaves the stored state exactly as it was" rests, in every
  backend and in the uploader, on ONE structural fact: the body is read to its end and validated
  (`gofakes3.ReadAll`: declared length, Content-MD5 through the hashing reader, chunk framing)
  BEFORE the first statement that can change stored state.  Props/C08 proves the consequence for
  the modelled upload path; this module checks the fact itself against the source on every run,
  over `Generated/LockFacts` (re-extracted by go/ast).
-/
namespace GFS.Props.C08Gen
open GFS.Generated GFS.Props.C07Gen

/-- events that change stored state (object maps, files, directories, metadata, bolt records) -/
def mutates (e : Ev) : Bool :=
  e.1 == "index" || e.1 == "Lock" ||
  (e.1 == "call" && ["put", "rm", "rmVersion", "remove", "add", "Create", "MkdirAll", "Write", "saveMeta", "Remove",
    "removeEmptyDirsLocked", "deleteObjectLocked", "Update", "Put", "Delete", "getUnlocked", "OpenFile"].contains e.2)

/-- the body is read before anything that mutates: `ReadAll` occurs, and nothing before it mutates -/
def readFirst : List Ev → Bool
  | [] => false
  | e :: rest => if e == ("call", "ReadAll") then true else if mutates e then false else readFirst rest

/-- **body_read_before_any_write**: in PutObject of every backend and in the uploader's UploadPart
    the whole body is read and validated before the first lock is taken, the first shared map or
    file is touched, the first directory made or the write transaction opened — so a rejected
    upload (bad digest, short or long body, bad framing, failing reader) cannot have changed
    anything (seeded changes that stream into place, prepare directories first or clear the old
    part first break exactly this). -/
theorem body_read_before_any_write :
    ["s3mem.Backend.PutObject", "s3bolt.Backend.PutObject", "s3aferoM.MultiBucketBackend.PutObject",
     "s3aferoS.SingleBucketBackend.PutObject", "gofakes3.uploader.UploadPart"].all
      (fun n => readFirst (traceOf n)) = true := by decide

/-- and it is read exactly once -/
theorem body_read_once :
    ["s3mem.Backend.PutObject", "s3bolt.Backend.PutObject", "s3aferoM.MultiBucketBackend.PutObject",
     "s3aferoS.SingleBucketBackend.PutObject", "gofakes3.uploader.UploadPart"].all
      (fun n => ((traceOf n).filter (· == ("call", "ReadAll"))).length == 1) = true := by decide

end GFS.Props.C08Gen
