import GFS.Generated.HandlerFacts
/-
  C02 / C17 / C10: the order in which the request handlers of gofakes3.go consult the backend,
  checked against the source.  The Lean model of the front end (Model/Front, Model/Bolt.handle,
  Model/FsBackend.handle) serves every bucket-addressed request as `withBucket b fun _ => …`:
  existence of the ADDRESSED bucket is established first (creating it under auto-bucket, after
  validating its name), then the backend is called.  `GFS.Generated.handlerTrace` is re-extracted
  from /repo on every run (go/ast): per handler the calls of ensureBucketExists (with the
  argument's name), ValidateBucketName, and every call through g.storage / g.versioned /
  g.uploader, in source order with their nesting depth.
-/
namespace GFS.Props.C02Gen
open GFS.Generated

abbrev HEv := String × String × Nat

def htrace (name : String) : List HEv := (handlerTrace.lookup name).getD []

/-- the handlers addressed to a bucket, with the name of their bucket parameter -/
def bucketHandlers : List (String × String) :=
  [("listBucket", "bucketName"), ("getBucketLocation", "bucketName"), ("listBucketVersions", "bucketName"),
   ("deleteBucket", "bucket"), ("headBucket", "bucket"), ("getObject", "bucket"), ("headObject", "bucket"),
   ("createObjectBrowserUpload", "bucket"), ("createObject", "bucket"), ("copyObject", "bucket"),
   ("deleteObject", "bucket"), ("deleteObjectVersion", "bucket"), ("deleteMulti", "bucket"),
   ("initiateMultipartUpload", "bucket"), ("listMultipartUploads", "bucket"), ("listMultipartUploadParts", "bucket"),
   ("getBucketVersioning", "bucket"), ("putBucketVersioning", "bucket")]

/-- **bucket_checked_first**: every bucket-addressed handler begins — unconditionally, at nesting
    depth 0 — with `ensureBucketExists` of the bucket it is addressed to, before any call of the
    backend or the uploader; and that is its only such call (a copy does not create or require
    its SOURCE bucket through it: an absent source bucket is the backend's NoSuchBucket). -/
theorem bucket_checked_first :
    bucketHandlers.all (fun p => (htrace p.1).head? == some ("ensure", p.2, 0) &&
      ((htrace p.1).filter (·.1 == "ensure")).length == 1) = true := by decide

/-- **create_validates_first**: CreateBucket validates the name and then creates — nothing else;
    and `ensureBucketExists` asks the backend first and, only inside its auto-bucket branch,
    validates before it creates. -/
theorem create_validates_first :
    htrace "createBucket" = [("validate", "", 0), ("storage", "CreateBucket", 0)] ∧
    htrace "ensureBucketExists" = [("storage", "BucketExists", 0), ("validate", "", 1), ("storage", "CreateBucket", 1)] := by
  decide

/-- **uploads_addressed_by_id**: the three handlers that address a pending upload by its id go
    straight to the uploader, whose `getUnlocked` checks bucket, key and id together -/
theorem uploads_addressed_by_id :
    htrace "putMultipartUploadPart" = [("uploader", "UploadPart", 0)] ∧
    htrace "abortMultipartUpload" = [("uploader", "AbortMultipartUpload", 0)] ∧
    htrace "completeMultipartUpload" = [("uploader", "CompleteMultipartUpload", 0)] := by decide

/-- **write_paths**: an upload (PUT and browser form) reaches the backend through exactly one
    PutObject; a copy heads the source and then calls the backend's CopyObject; a delete is one
    DeleteObject; nothing writes twice. -/
theorem write_paths :
    htrace "createObject" = [("ensure", "bucket", 0), ("storage", "PutObject", 0)] ∧
    htrace "createObjectBrowserUpload" = [("ensure", "bucket", 0), ("storage", "PutObject", 0)] ∧
    htrace "copyObject" = [("ensure", "bucket", 0), ("storage", "HeadObject", 0), ("storage", "CopyObject", 0)] ∧
    htrace "deleteObject" = [("ensure", "bucket", 0), ("storage", "DeleteObject", 0)] ∧
    htrace "deleteBucket" = [("ensure", "bucket", 0), ("storage", "DeleteBucket", 0)] := by decide

end GFS.Props.C02Gen
