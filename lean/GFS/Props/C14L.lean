import GFS.Props.C06R
set_option linter.unusedSimpArgs false
set_option linter.unusedVariables false
/-
  C14, first clause, over whole histories: the uploads the bookkeeping holds are exactly the
  uploads that have been initiated and neither completed nor aborted.

  `liveStep` is the specification: an initiate adds (bucket, key, new id); an abort of a live
  upload and an ACKNOWLEDGED complete remove it; nothing else changes the set.  `live_exact`:
  after EVERY finite sequence of initiate / upload-part / abort / complete requests (and changes
  of the store) from the empty uploader, an upload is pending under (bucket, key, id) exactly when
  (bucket, key, id) is in that set.
-/
namespace GFS.Props.C14L
open GFS GFS.Model GFS.Model.Upl GFS.Props.C06 GFS.Props.C06F GFS.Props.C06R
open GFS.Props.C14I (Op step)

abbrev UId := Bytes × Key × Nat

def isOk {α} : Res α → Bool
  | .ok _ => true
  | _ => false

/-- the specification of the set of live uploads -/
def liveStep (md5 : Bytes → Bytes) (s : Srv) (live : List UId) : Op → List UId
  | .initiate b k _ => live ++ [(b, k, s.upl.nextId + 1)]
  | .abort b k id => live.filter (fun x => !(decide (x = (b, k, id))))
  | .complete b k id listed =>
    if isOk (complete md5 s.upl s.mem b k id listed).2.2 then live.filter (fun x => !(decide (x = (b, k, id)))) else live
  | _ => live

def LiveRel (s : Srv) (live : List UId) : Prop :=
  ∀ b k id, (pending s.upl b k id).isSome = true ↔ (b, k, id) ∈ live

/-- an upload id names at most one key -/
theorem pending_other_key (u : Upl) (b : Bytes) (k k0 : Key) (id : Nat) (m : MPU) (hp : pending u b k id = some m)
    (hk : k0 ≠ k) : pending u b k0 id = none := by
  unfold pending
  rw [get_other_key u b k k0 id m hp hk]

/-- a request on an upload that is not pending under that key finds nothing -/
theorem get_none_of_pending_none (u : Upl) (b : Bytes) (k : Key) (id : Nat) (h : pending u b k id = none) :
    ∀ r, u.get b k id ≠ .ok r := by
  intro r hr
  unfold pending at h
  rw [hr] at h
  obtain ⟨bu, m⟩ := r
  simp at h

theorem get_never_panics (u : Upl) (b : Bytes) (k : Key) (id : Nat) (x : PanicSite) : u.get b k id ≠ .panic x := by
  unfold Upl.get
  cases SMap.find u.buckets b with
  | none => simp
  | some bu =>
    simp only
    cases bu.find id with
    | none => simp
    | some m => simp only; split <;> simp

/-- a complete that is not acknowledged leaves the bookkeeping as it was -/
theorem complete_not_ok (md5 : Bytes → Bytes) (u : Upl) (mem : Mem) (b : Bytes) (k : Key) (id : Nat) (listed : List (Int × Bytes))
    (h : isOk (complete md5 u mem b k id listed).2.2 = false) : (complete md5 u mem b k id listed).1 = u := by
  unfold complete at *
  cases hg : u.get b k id with
  | err c => rfl
  | panic x => rfl
  | ok r =>
    obtain ⟨bu, m⟩ := r
    simp only [hg] at h ⊢
    cases hv : validate m listed with
    | err c => rfl
    | panic x => rfl
    | ok ps =>
      simp only [hv] at h ⊢
      cases hq : mem.put md5 b k m.md (ps.map (·.body)).flatten with
      | mk mem' r =>
        cases r with
        | ok v => simp [hq, isOk] at h
        | err c => rfl
        | panic x => rfl

/-- a part upload changes the slots of its upload only: what is pending stays pending -/
theorem uploadPart_pending (md5 : Bytes → Bytes) (u : Upl) (hk : Keyed u) (b : Bytes) (k : Key) (id n : Nat) (d : Int) (body : Bytes)
    (b0 : Bytes) (k0 : Key) (i0 : Nat) :
    (pending (u.uploadPart md5 b k id n d body).1 b0 k0 i0).isSome = (pending u b0 k0 i0).isSome := by
  by_cases hsame : i0 = id ∧ b0 = b
  · obtain ⟨rfl, rfl⟩ := hsame
    unfold Upl.uploadPart
    split
    · rfl
    · split
      · rfl
      · cases hg : u.get b0 k i0 with
        | err c => rfl
        | panic x => rfl
        | ok r =>
          obtain ⟨bu, m⟩ := r
          obtain ⟨hb, hf⟩ := get_ok u b0 k i0 bu m hg
          have hid : m.id = i0 := find_keyed bu i0 m (hk b0 bu hb) hf
          simp only
          have hfs : (bu.set { m with parts := setPart m.parts n ⟨body, md5 body⟩ }).find i0 =
              some { m with parts := setPart m.parts n ⟨body, md5 body⟩ } := by
            unfold BUps.set BUps.find
            exact find_map_set_self bu.uploads m _ i0 hf hid
          unfold pending Upl.get
          simp only [SMap.find_insert_self, hfs, hb, hf]
          by_cases hc : (m.bucket == b0 && m.key == k0) = true <;> simp [hc]
  · rw [uploadPart_frame md5 u hk b k id n d body b0 k0 i0 (by
      by_cases h1 : i0 = id
      · right; intro h2; exact hsame ⟨h1, h2⟩
      · left; exact h1)]

/-- **live_step**: one request keeps "pending = live" (and the invariants it rests on) -/
theorem live_step (md5 : Bytes → Bytes) (s : Srv) (live : List UId) (op : Op) (hi : SInv s) (hr : LiveRel s live) :
    LiveRel (step md5 s op) (liveStep md5 s live op) := by
  intro b0 k0 i0
  cases op with
  | store m' => exact hr b0 k0 i0
  | part b k id n d body =>
    simp only [step, liveStep]
    rw [uploadPart_pending md5 s.upl hi.keyed b k id n d body b0 k0 i0]
    exact hr b0 k0 i0
  | initiate b k md =>
    simp only [step, liveStep, List.mem_append, List.mem_singleton, Prod.mk.injEq]
    by_cases hnew : i0 = s.upl.nextId + 1
    · subst hnew
      -- nothing was pending under the new id
      have hnot : (b0, k0, s.upl.nextId + 1) ∉ live := by
        intro hin
        have := (hr b0 k0 (s.upl.nextId + 1)).mpr hin
        cases hp : pending s.upl b0 k0 (s.upl.nextId + 1) with
        | none => simp [hp] at this
        | some m => have := pending_le s.upl hi.bound b0 k0 _ m hp; omega
      obtain ⟨m, hm, _⟩ := initiate_related md5 s.upl hi.bound b k md
      by_cases hbk : b0 = b ∧ k0 = k
      · obtain ⟨rfl, rfl⟩ := hbk
        simp [hm]
      · have hnone : pending (s.upl.create b k md).1 b0 k0 (s.upl.nextId + 1) = none := by
          by_cases hb : b0 = b
          · subst hb
            have hk : k0 ≠ k := fun e => hbk ⟨rfl, e⟩
            exact pending_other_key _ b0 k k0 _ m hm hk
          · -- another bucket: its bookkeeping is untouched and holds no such id
            cases hp : pending (s.upl.create b k md).1 b0 k0 (s.upl.nextId + 1) with
            | none => rfl
            | some m' =>
              exfalso
              have hsame : pending (s.upl.create b k md).1 b0 k0 (s.upl.nextId + 1) = pending s.upl b0 k0 (s.upl.nextId + 1) := by
                unfold pending Upl.get Upl.create
                simp only [SMap.find_insert_ne _ _ _ _ (Ne.symm hb)]
              rw [hsame] at hp
              have := pending_le s.upl hi.bound b0 k0 _ m' hp
              omega
        simp only [hnone, Option.isSome_none, Bool.false_eq_true, false_iff, not_or]
        exact ⟨hnot, fun h => hbk ⟨h.1, h.2.1⟩⟩
    · rw [create_frame s.upl b k md b0 k0 i0 hnew]
      constructor
      · intro h; exact Or.inl ((hr b0 k0 i0).mp h)
      · rintro (h | h)
        · exact (hr b0 k0 i0).mpr h
        · exact absurd h.2.2 hnew
  | abort b k id =>
    simp only [step, liveStep, List.mem_filter, Bool.not_eq_true', decide_eq_false_iff_not]
    by_cases hsame : (b0, k0, i0) = (b, k, id)
    · simp only [Prod.mk.injEq] at hsame
      obtain ⟨rfl, rfl, rfl⟩ := hsame
      simp only [not_true_eq_false, and_false, iff_false, Bool.not_eq_true, Option.isSome_eq_false_iff, Option.isNone_iff_eq_none]
      cases hp : pending s.upl b0 k0 i0 with
      | none =>
        have : (s.upl.abort b0 k0 i0).1 = s.upl := by
          unfold Upl.abort
          cases hg : s.upl.get b0 k0 i0 with
          | err c => rfl
          | panic x => rfl
          | ok r => exact absurd hg (get_none_of_pending_none _ _ _ _ hp r)
        rw [this]; exact hp
      | some m =>
        obtain ⟨bu, hg⟩ := pending_get s.upl b0 k0 i0 m hp
        unfold Upl.abort
        simp only [hg]
        exact pending_removed s.upl hi.keyed b0 k0 i0 bu m _ hg
    · have hne : ¬ (b0, k0, i0) = (b, k, id) := hsame
      simp only [hne, not_false_eq_true, and_true]
      rw [← hr b0 k0 i0]
      by_cases hib : i0 = id ∧ b0 = b
      · obtain ⟨rfl, rfl⟩ := hib
        have hk : k0 ≠ k := fun e => hne (by rw [e])
        -- the request names the id under another key
        cases hp : pending s.upl b0 k i0 with
        | none =>
          have : (s.upl.abort b0 k i0).1 = s.upl := by
            unfold Upl.abort
            cases hg : s.upl.get b0 k i0 with
            | err c => rfl
            | panic x => rfl
            | ok r => exact absurd hg (get_none_of_pending_none _ _ _ _ hp r)
          rw [this]
        | some m =>
          -- the upload lives under key k: nothing is pending under k0, before or after
          have h1 := pending_other_key s.upl b0 k k0 i0 m hp hk
          obtain ⟨bu, hg⟩ := pending_get s.upl b0 k i0 m hp
          have h2 : pending (s.upl.abort b0 k i0).1 b0 k0 i0 = none := by
            unfold Upl.abort
            simp only [hg]
            obtain ⟨hb, hf⟩ := get_ok s.upl b0 k i0 bu m hg
            have hid : m.id = i0 := find_keyed bu i0 m (hi.keyed b0 bu hb) hf
            unfold pending Upl.get
            simp only [SMap.find_insert_self]
            have := removed_is_gone bu m
            rw [hid] at this
            simp [this]
          rw [h1, h2]
      · rw [abort_frame s.upl hi.keyed b k id b0 k0 i0 (by
          by_cases h1 : i0 = id
          · right; intro h2; exact hib ⟨h1, h2⟩
          · left; exact h1)]
  | complete b k id listed =>
    simp only [step, liveStep]
    by_cases hok : isOk (complete md5 s.upl s.mem b k id listed).2.2 = true
    · simp only [hok, if_true, List.mem_filter, Bool.not_eq_true', decide_eq_false_iff_not]
      -- acknowledged: the upload was pending and is removed; the others stay
      obtain ⟨vid, etag, hres⟩ : ∃ vid etag, (complete md5 s.upl s.mem b k id listed).2.2 = .ok (vid, etag) := by
        cases hc : (complete md5 s.upl s.mem b k id listed).2.2 with
        | ok r => exact ⟨r.1, r.2, rfl⟩
        | err c => simp [hc, isOk] at hok
        | panic x => simp [hc, isOk] at hok
      obtain ⟨bu, m, ps, hg, hv, he, hmem, hbk⟩ := complete_ok md5 s.upl s.mem b k id listed vid etag hres
      have hshape : (complete md5 s.upl s.mem b k id listed).1 =
          ⟨SMap.insert s.upl.buckets b (bu.remove m), (complete md5 s.upl s.mem b k id listed).1.nextId⟩ := by
        cases hc : (complete md5 s.upl s.mem b k id listed).1 with
        | mk bks nx => rw [hc] at hbk; simp only at hbk; rw [hbk]
      by_cases hsame : (b0, k0, i0) = (b, k, id)
      · simp only [Prod.mk.injEq] at hsame
        obtain ⟨rfl, rfl, rfl⟩ := hsame
        simp only [not_true_eq_false, and_false, iff_false, Bool.not_eq_true, Option.isSome_eq_false_iff, Option.isNone_iff_eq_none]
        rw [hshape]
        exact pending_removed s.upl hi.keyed b0 k0 i0 bu m _ hg
      · have hne : ¬ (b0, k0, i0) = (b, k, id) := hsame
        simp only [hne, not_false_eq_true, and_true]
        rw [← hr b0 k0 i0]
        by_cases hib : i0 = id ∧ b0 = b
        · obtain ⟨rfl, rfl⟩ := hib
          have hk : k0 ≠ k := fun e => hne (by rw [e])
          have hp : pending s.upl b0 k i0 = some m := by unfold pending; rw [hg]
          have h1 := pending_other_key s.upl b0 k k0 i0 m hp hk
          have h2 : pending (complete md5 s.upl s.mem b0 k i0 listed).1 b0 k0 i0 = none := by
            rw [hshape]
            obtain ⟨hb, hf⟩ := get_ok s.upl b0 k i0 bu m hg
            have hid : m.id = i0 := find_keyed bu i0 m (hi.keyed b0 bu hb) hf
            unfold pending Upl.get
            simp only [SMap.find_insert_self]
            have := removed_is_gone bu m
            rw [hid] at this
            simp [this]
          rw [h1, h2]
        · rw [complete_frame md5 s.upl hi.keyed s.mem b k id listed b0 k0 i0 (by
            by_cases h1 : i0 = id
            · right; intro h2; exact hib ⟨h1, h2⟩
            · left; exact h1)]
    · have hok' : isOk (complete md5 s.upl s.mem b k id listed).2.2 = false := by simpa using hok
      simp only [hok', Bool.false_eq_true, if_false]
      rw [complete_not_ok md5 s.upl s.mem b k id listed hok']
      exact hr b0 k0 i0

/-- the live set along a history -/
def liveRun (md5 : Bytes → Bytes) : Srv → List UId → List Op → Srv × List UId
  | s, live, [] => (s, live)
  | s, live, op :: ops => liveRun md5 (step md5 s op) (liveStep md5 s live op) ops

theorem liveRun_fst (md5 : Bytes → Bytes) (ops : List Op) : ∀ s live, (liveRun md5 s live ops).1 = ops.foldl (step md5) s := by
  induction ops with
  | nil => intro s live; rfl
  | cons op ops ih => intro s live; simp only [liveRun, List.foldl_cons]; exact ih _ _

/-- **live_exact**: after EVERY finite sequence of initiate / upload-part / abort / complete
    requests and changes of the store, started with an empty bookkeeping, an upload is pending
    under (bucket, key, id) exactly when it was initiated under that bucket and key with that id
    and has been neither aborted nor completed with an acknowledged complete. -/
theorem live_exact (md5 : Bytes → Bytes) (ops : List Op) : ∀ (s : Srv) (live : List UId), SInv s → LiveRel s live →
    SInv (liveRun md5 s live ops).1 ∧ LiveRel (liveRun md5 s live ops).1 (liveRun md5 s live ops).2 := by
  induction ops with
  | nil => intro s live hi hr; exact ⟨hi, hr⟩
  | cons op ops ih =>
    intro s live hi hr
    exact ih _ _ (step_sinv md5 s op hi) (live_step md5 s live op hi hr)

theorem live_empty (mem : Mem) : LiveRel ⟨mem, Upl.empty⟩ [] := by
  intro b k id
  simp [pending, Upl.get, Upl.empty]

/-! Non-vacuity: three uploads, one aborted, one completed, a complete that is refused. -/
def exOps : List Op :=
  [.initiate [98] [107] [], .initiate [98] [107] [], .initiate [98] [108] [], .part [98] [107] 1 1 1 [7],
   .abort [98] [107] 2, .complete [98] [108] 3 [(1, [])], .complete [98] [107] 1 [(1, Bytes.hexLower [7])]]
example : (liveRun id ⟨(Mem.createBucket Mem.empty [98]).1, Upl.empty⟩ [] exOps).2 = [([98], [108], 3)] := by decide

end GFS.Props.C14L
