import GFS.Props.C01B
set_option linter.unusedSimpArgs false
set_option linter.unusedVariables false
/-
  C10 on the other backends' models: an upload or delete addressed to one (bucket, key) changes
  what no other (bucket, key) returns — on s3bolt (see also C01B.bolt_put_frame) and on the
  file-system backend, where keys are paths and the directories are shared.
-/
namespace GFS.Props.C10B
open GFS GFS.Model GFS.Model.Fs GFS.Model.FsB GFS.Props.FsInv GFS.Props.FsR

/-- an acknowledged upload on the file-system backend leaves every other (bucket, key) as it was:
    bytes, digest and metadata -/
theorem fs_put_frame (md5 : Bytes → Bytes) (s s' : FsS) (b k b' k' : Bytes) (sent : Meta) (body : Bytes)
    (hput : FsB.putObject md5 s b k sent body = (s', .ok ())) (hne : ¬ (b' = b ∧ k' = k)) :
    FsB.getObject md5 s' b' k' = FsB.getObject md5 s b' k' := by
  unfold FsB.putObject at hput
  cases hk : keyPath k with
  | none => simp [hk] at hput
  | some p =>
    simp only [hk] at hput
    cases hb : SMap.find s.buckets b with
    | none => simp [hb] at hput
    | some bk =>
      simp only [hb] at hput
      cases hp : Fs.put bk.tree p body with
      | none => simp [hp] at hput
      | some t' =>
        simp only [hp, Prod.mk.injEq, and_true] at hput
        subst hput
        unfold FsB.getObject
        by_cases hbb : b' = b
        · subst hbb
          have hkk : k ≠ k' := fun e => hne ⟨rfl, e.symm⟩
          simp only [SMap.find_insert_self, hb]
          have hget : getKey t' k' = getKey bk.tree k' := by
            cases hk' : keyPath k' with
            | none => rw [getKey_none _ _ hk', getKey_none _ _ hk']
            | some p' =>
              have hpp : p' ≠ p := fun x => hkk (keyPath_inj k k' p hk (x ▸ hk'))
              rw [getKey_some _ _ _ hk', getKey_some _ _ _ hk', put_frame bk.tree p p' body t' hp hpp]
          rw [hget, SMap.find_insert_ne _ _ _ _ hkk]
        · have : b ≠ b' := fun e => hbb e.symm
          rw [SMap.find_insert_ne _ _ _ _ this]

/-- a delete on the file-system backend — accepted or refused — leaves every other (bucket, key)
    as it was, including the keys that shared directories with the deleted one -/
theorem fs_delete_frame (md5 : Bytes → Bytes) (s : FsS) (b k b' k' : Bytes) (hne : ¬ (b' = b ∧ k' = k)) :
    FsB.getObject md5 (FsB.deleteObject s b k).1 b' k' = FsB.getObject md5 s b' k' := by
  unfold FsB.deleteObject
  cases hb : SMap.find s.buckets b with
  | none => rfl
  | some bk =>
    simp only
    unfold deleteIn
    cases hk : keyPath k with
    | none => rfl
    | some p =>
      simp only
      by_cases hd : isDir bk.tree p = true
      · simp only [hd, if_true]
        unfold FsB.getObject
        by_cases hbb : b' = b
        · subst hbb; simp [SMap.find_insert_self, hb]
        · have : b ≠ b' := fun e => hbb e.symm
          rw [SMap.find_insert_ne _ _ _ _ this]
      · simp only [hd, Bool.false_eq_true, if_false]
        unfold FsB.getObject
        by_cases hbb : b' = b
        · subst hbb
          have hkk : k ≠ k' := fun e => hne ⟨rfl, e.symm⟩
          simp only [SMap.find_insert_self, hb]
          have hget : getKey (Fs.delete bk.tree p) k' = getKey bk.tree k' := by
            cases hk' : keyPath k' with
            | none => rw [getKey_none _ _ hk', getKey_none _ _ hk']
            | some p' =>
              have hpp : p' ≠ p := fun x => hkk (keyPath_inj k k' p hk (x ▸ hk'))
              rw [getKey_some _ _ _ hk', getKey_some _ _ _ hk', delete_frame bk.tree p p' hpp]
          rw [hget, SMap.find_erase_ne _ _ _ hkk]
        · have : b ≠ b' := fun e => hbb e.symm
          rw [SMap.find_insert_ne _ _ _ _ this]

/-- a delete on s3bolt leaves every other (bucket, key) as it was -/
theorem bolt_delete_frame (db : Bolt.DB) (b k b' k' : Bytes) (hne : ¬ (b' = b ∧ k' = k)) :
    Bolt.getObject (Bolt.deleteObject db b k).1 b' k' = Bolt.getObject db b' k' := by
  unfold Bolt.deleteObject Bolt.update
  cases hs : Bolt.s3Bucket db b with
  | none => simp [hs]
  | some kv0 =>
    have hbm : (b == Bolt.metaName) = false := by
      cases hb : (b == Bolt.metaName) with
      | false => rfl
      | true => simp [Bolt.s3Bucket, hb] at hs
    have hf : SMap.find db b = some kv0 := by simpa [Bolt.s3Bucket, hbm] using hs
    simp only [hs, Bolt.boltDelete, hf]
    unfold Bolt.getObject Bolt.s3Bucket
    by_cases hbb : b' = b
    · subst hbb
      have hkk : k ≠ k' := fun e => hne ⟨rfl, e.symm⟩
      simp only [hbm, Bool.false_eq_true, if_false, SMap.find_insert_self, hf]
      rw [SMap.find_erase_ne _ _ _ hkk]
    · have : b ≠ b' := fun e => hbb e.symm
      by_cases hm : (b' == Bolt.metaName) = true
      · simp [hm]
      · simp only [hm, Bool.false_eq_true, if_false]
        rw [SMap.find_insert_ne _ _ _ _ this]

end GFS.Props.C10B
