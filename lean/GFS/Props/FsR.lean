import GFS.Model.FsBackend
import GFS.Props.FsInv
import GFS.Lemmas.SMapLemmas
import GFS.Lemmas.BytesLemmas
import GFS.Lemmas.SMapExt
set_option linter.unusedSimpArgs false
set_option linter.unusedVariables false
/-
  The multi-bucket file-system backend (Model/FsBackend over Model/FsTree) against the reference
  model of S3: on every request it either answers as the reference model does, or refuses the key
  (InvalidArgument: not a clean relative path, or in conflict with the directory structure of the
  keys already stored) and changes nothing — and this holds along every request sequence.
-/
namespace GFS.Props.FsR
open GFS GFS.Model GFS.Model.Fs GFS.Model.FsB GFS.Bytes GFS.SMapL GFS.Spec.S3 GFS.Props.FsInv

/-! ### keys and paths -/

theorem join1_cons_cons (d c : UInt8) (p : Bytes) (ps : List Bytes) :
    join1 d ((c :: p) :: ps) = c :: join1 d (p :: ps) := by
  cases ps with
  | nil => simp [join1]
  | cons q qs => simp [join1]

theorem join_split (d : UInt8) (s : Bytes) : join1 d (splitOn1 d s) = s := by
  induction s with
  | nil => simp [splitOn1, join1]
  | cons c cs ih =>
    unfold splitOn1
    by_cases h : (c == d) = true
    · have e : c = d := by simpa using h
      simp only [h, if_true]
      cases hs : splitOn1 d cs with
      | nil => exact absurd hs (GFS.Bytes.splitOn1_ne_nil d cs)
      | cons q qs =>
        rw [hs] at ih
        simp [join1, ih, e]
    · simp only [h, if_false]
      cases hs : splitOn1 d cs with
      | nil => exact absurd hs (GFS.Bytes.splitOn1_ne_nil d cs)
      | cons q qs =>
        rw [hs] at ih
        simp only [Bool.false_eq_true, if_false]
        rw [join1_cons_cons, ih]

theorem keyPath_eq (k : Bytes) (p : Path) (h : keyPath k = some p) : p = splitOn1 47 k := by
  unfold keyPath at h
  split at h
  · cases h
  · simp only at h
    split at h
    · exact (Option.some.inj h).symm
    · cases h

theorem keyPath_inj (k k' : Bytes) (p : Path) (h : keyPath k = some p) (h' : keyPath k' = some p) : k = k' := by
  have e1 := keyPath_eq k p h
  have e2 := keyPath_eq k' p h'
  rw [← join_split 47 k, ← join_split 47 k', ← e1, ← e2]

theorem keyPath_ne_nil (k : Bytes) (p : Path) (h : keyPath k = some p) : p ≠ [] := by
  rw [keyPath_eq k p h]
  exact GFS.Bytes.splitOn1_ne_nil 47 k


/-! ### one bucket: the tree against the reference model's key ↦ bytes map -/

/-- every object file of the tree is the file of a key -/
def KeyPaths (t : Tree) : Prop := ∀ f ∈ t.files, ∃ k, keyPath k = some f.1

/-- the bucket relation: the reference model's bucket answers every key as the tree does -/
def Rb (t : Tree) (objs : SMap Bytes) : Prop := ∀ k, SMap.find objs k = getKey t k

theorem getKey_some (t : Tree) (k : Bytes) (p : Path) (h : keyPath k = some p) : getKey t k = content t p := by
  simp [getKey, h]

theorem getKey_none (t : Tree) (k : Bytes) (h : keyPath k = none) : getKey t k = none := by
  simp [getKey, h]

theorem content_dir_none (t : Tree) (hi : Inv t) (p : Path) (hd : isDir t p = true) : content t p = none := by
  unfold content
  cases hf : t.files.find? (fun f => f.1 == p) with
  | none => rfl
  | some f =>
    exfalso
    have hm := List.mem_of_find?_eq_some hf
    have he : f.1 = p := by simpa using List.find?_some hf
    have := hi.disjoint f hm
    rw [he] at this
    exact this ((isDir_iff t p).mp hd)

theorem put_rel (t t' : Tree) (objs : SMap Bytes) (k : Bytes) (p : Path) (body : Bytes)
    (hk : keyPath k = some p) (hp : put t p body = some t') (hR : Rb t objs) : Rb t' (SMap.insert objs k body) := by
  intro k'
  by_cases e : k = k'
  · subst e
    rw [SMap.find_insert_self, getKey_some t' k p hk, put_get t p body t' hp]
  · rw [SMap.find_insert_ne _ _ _ _ e, hR k']
    cases hk' : keyPath k' with
    | none => rw [getKey_none t k' hk', getKey_none t' k' hk']
    | some p' =>
      have hne : p' ≠ p := fun x => e (keyPath_inj k k' p hk (x ▸ hk'))
      rw [getKey_some t k' p' hk', getKey_some t' k' p' hk', put_frame t p p' body t' hp hne]

theorem put_keyPaths (t t' : Tree) (k : Bytes) (p : Path) (body : Bytes)
    (hk : keyPath k = some p) (hp : put t p body = some t') (h : KeyPaths t) : KeyPaths t' := by
  obtain ⟨_, _, _, hf, _⟩ := put_some t p body t' hp
  intro f hfm
  rw [hf] at hfm
  rcases List.mem_append.mp hfm with h1 | h1
  · exact h f (List.mem_filter.mp h1).1
  · simp only [List.mem_singleton] at h1
    subst h1
    exact ⟨k, hk⟩

theorem delete_keyPaths (t : Tree) (p : Path) (h : KeyPaths t) : KeyPaths (delete t p) := by
  intro f hf
  unfold delete at hf
  split at hf
  · exact h f hf
  · split at hf
    · exact h f hf
    · rw [prune_files] at hf
      exact h f (List.mem_filter.mp hf).1

theorem delete_rel (t : Tree) (objs : SMap Bytes) (k : Bytes) (p : Path) (hi : Inv t)
    (hk : keyPath k = some p) (hR : Rb t objs) :
    Rb (if isDir t p then t else delete t p) (SMap.erase objs k) := by
  intro k'
  by_cases e : k = k'
  · subst e
    rw [SMap.find_erase_self]
    cases hd : isDir t p with
    | true => simp only [if_true]; rw [getKey_some t k p hk, content_dir_none t hi p hd]
    | false =>
      simp only [Bool.false_eq_true, if_false]
      rw [getKey_some _ k p hk, delete_get t p (keyPath_ne_nil k p hk) hd]
  · rw [SMap.find_erase_ne _ _ _ e, hR k']
    cases hd : isDir t p with
    | true => simp
    | false =>
      simp only [Bool.false_eq_true, if_false]
      cases hk' : keyPath k' with
      | none => rw [getKey_none t k' hk', getKey_none _ k' hk']
      | some p' =>
        have hne : p' ≠ p := fun x => e (keyPath_inj k k' p hk (x ▸ hk'))
        rw [getKey_some t k' p' hk', getKey_some _ k' p' hk', delete_frame t p p' hne]

/-- a key that is no clean relative path names nothing in the reference bucket either -/
theorem invalid_absent (t : Tree) (objs : SMap Bytes) (k : Bytes) (hR : Rb t objs) (hk : keyPath k = none) :
    SMap.find objs k = none := by rw [hR k, getKey_none t k hk]

theorem erase_find_none (objs : SMap Bytes) (k : Bytes) (h : SMap.find objs k = none) (k' : Bytes) :
    SMap.find (SMap.erase objs k) k' = SMap.find objs k' := by
  by_cases e : k = k'
  · subst e; rw [SMap.find_erase_self, h]
  · exact SMap.find_erase_ne _ _ _ e


/-! ### an empty bucket -/

theorem dir_has_file_aux (t : Tree) (hi : Inv t) (bound : Nat) (hb : ∀ d ∈ t.dirs, d.length ≤ bound) :
    ∀ n, ∀ d ∈ t.dirs, bound - d.length ≤ n → ∃ f ∈ t.files, IsAnc d f.1 := by
  intro n
  induction n with
  | zero =>
    intro d hd hn
    have hlen : d.length = bound := by have := hb d hd; omega
    rcases (hasEntries_iff t d).mp (hi.nonEmpty d hd) with ⟨f, hf, hne, hdl⟩ | ⟨d', hd', hne, hdl⟩
    · refine ⟨f, hf, ?_⟩
      have h2 : 2 ≤ f.1.length ∨ f.1.length < 2 := by omega
      rcases h2 with h2 | h2
      · have := parent_isAnc f.1 h2; rwa [hdl] at this
      · exfalso
        have hd0 : d ≠ [] := hi.dirsNe d hd
        have : f.1.dropLast.length = f.1.length - 1 := List.length_dropLast ..
        rw [hdl] at this
        have : d.length = 0 := by omega
        exact hd0 (List.length_eq_zero_iff.mp this)
    · exfalso
      have h1 := hb d' hd'
      have : d'.dropLast.length = d'.length - 1 := List.length_dropLast ..
      rw [hdl] at this
      have hpos : 0 < d'.length := List.length_pos_iff.mpr hne
      omega
  | succ n ih =>
    intro d hd hn
    rcases (hasEntries_iff t d).mp (hi.nonEmpty d hd) with ⟨f, hf, hne, hdl⟩ | ⟨d', hd', hne, hdl⟩
    · refine ⟨f, hf, ?_⟩
      have h2 : 2 ≤ f.1.length ∨ f.1.length < 2 := by omega
      rcases h2 with h2 | h2
      · have := parent_isAnc f.1 h2; rwa [hdl] at this
      · exfalso
        have hd0 : d ≠ [] := hi.dirsNe d hd
        have : f.1.dropLast.length = f.1.length - 1 := List.length_dropLast ..
        rw [hdl] at this
        have : d.length = 0 := by omega
        exact hd0 (List.length_eq_zero_iff.mp this)
    · have hl : d'.dropLast.length = d'.length - 1 := List.length_dropLast ..
      rw [hdl] at hl
      have hpos : 0 < d'.length := List.length_pos_iff.mpr hne
      obtain ⟨f, hf, ha⟩ := ih d' hd' (by omega)
      refine ⟨f, hf, ?_⟩
      have hd0 : d ≠ [] := hi.dirsNe d hd
      have h2 : 2 ≤ d'.length := by
        have : 0 < d.length := List.length_pos_iff.mpr hd0
        omega
      have := parent_isAnc d' h2
      rw [hdl] at this
      exact isAnc_trans this ha

theorem dir_has_file (t : Tree) (hi : Inv t) (d : Path) (hd : d ∈ t.dirs) : ∃ f ∈ t.files, IsAnc d f.1 := by
  let bound := (t.dirs.map List.length).foldr max 0
  have hb : ∀ d ∈ t.dirs, d.length ≤ bound := by
    intro d hd
    show d.length ≤ (t.dirs.map List.length).foldr max 0
    generalize t.dirs = l at hd
    induction l with
    | nil => cases hd
    | cons x xs ih =>
      simp only [List.map_cons, List.foldr_cons]
      rcases List.mem_cons.mp hd with rfl | h
      · exact Nat.le_max_left ..
      · exact Nat.le_trans (ih h) (Nat.le_max_right ..)
  exact dir_has_file_aux t hi bound hb (bound - d.length) d hd (Nat.le_refl _)

theorem hasTop_iff (t : Tree) (hi : Inv t) : hasTopEntries t = !t.files.isEmpty := by
  cases hf : t.files with
  | nil =>
    have hd : t.dirs = [] := by
      cases hdd : t.dirs with
      | nil => rfl
      | cons d ds =>
        obtain ⟨f, hfm, _⟩ := dir_has_file t hi d (by rw [hdd]; exact List.mem_cons_self ..)
        rw [hf] at hfm; cases hfm
    simp [hasTopEntries, hf, hd]
  | cons f fs =>
    have hfm : f ∈ t.files := by rw [hf]; exact List.mem_cons_self ..
    have hne := hi.filesNe f hfm
    simp only [List.isEmpty_cons, Bool.not_false]
    unfold hasTopEntries
    cases hp : f.1 with
    | nil => exact absurd hp hne
    | cons h rest =>
      cases rest with
      | nil =>
        rw [Bool.or_eq_true]; left
        rw [List.any_eq_true]
        exact ⟨f, hfm, by simp [hp]⟩
      | cons r rs =>
        rw [Bool.or_eq_true]; right
        rw [List.any_eq_true]
        refine ⟨[h], hi.anc f hfm [h] ⟨by simp, r :: rs, by simp, by simp [hp]⟩, by simp⟩

theorem files_empty_iff (t : Tree) (objs : SMap Bytes) (hk : KeyPaths t) (hR : Rb t objs) :
    t.files.isEmpty = objs.isEmpty := by
  cases ho : objs with
  | nil =>
    cases hf : t.files with
    | nil => rfl
    | cons f fs =>
      exfalso
      have hfm : f ∈ t.files := by rw [hf]; exact List.mem_cons_self ..
      obtain ⟨k, hkk⟩ := hk f hfm
      have := hR k
      rw [ho, getKey_some t k f.1 hkk] at this
      unfold content at this
      cases hfind : t.files.find? (fun g => g.1 == f.1) with
      | some g => simp [hfind] at this
      | none =>
        have := List.find?_eq_none.mp hfind f hfm
        simp at this
  | cons q qs =>
    cases hf : t.files with
    | cons f fs => rfl
    | nil =>
      exfalso
      have := hR q.1
      rw [ho] at this
      have h1 : SMap.find (q :: qs) q.1 = some q.2 := by simp [SMap.find]
      rw [h1] at this
      unfold getKey at this
      cases hkp : keyPath q.1 with
      | none => simp [hkp] at this
      | some p => simp [hkp, content, hf] at this

/-! ### the whole store -/

/-- ordered insertion of a key into a key list (what `SMap.insert` does to the keys) -/
def insKey : List Bytes → Bytes → List Bytes
  | [], k => [k]
  | k' :: rest, k => if k' == k then k :: rest else if Bytes.lt k k' then k :: k' :: rest else k' :: insKey rest k

theorem keys_insert {α} (m : SMap α) (k : Bytes) (v : α) : SMap.keys (SMap.insert m k v) = insKey (SMap.keys m) k := by
  induction m with
  | nil => rfl
  | cons p rest ih =>
    obtain ⟨k', v'⟩ := p
    unfold SMap.insert
    simp only [SMap.keys, List.map_cons, insKey]
    by_cases h1 : (k' == k) = true
    · simp [h1]
    · simp only [h1, Bool.false_eq_true, if_false]
      by_cases h2 : Bytes.lt k k' = true
      · simp [h2]
      · simp only [h2, Bool.false_eq_true, if_false, List.map_cons]
        simp only [SMap.keys] at ih
        rw [ih]

theorem keys_erase {α} (m : SMap α) (k : Bytes) : SMap.keys (SMap.erase m k) = (SMap.keys m).filter (fun x => !(x == k)) := by
  induction m with
  | nil => rfl
  | cons p rest ih =>
    simp only [SMap.erase, SMap.keys, List.filter_cons, List.map_cons] at ih ⊢
    by_cases h : (p.1 == k) = true
    · simp [h, ih]
    · simp [h, ih]

theorem find_isSome_of_mem {α} (m : SMap α) (q : Bytes × α) (h : q ∈ m) : (SMap.find m q.1).isSome = true := by
  induction m with
  | nil => cases h
  | cons p rest ih =>
    unfold SMap.find
    by_cases e : (p.1 == q.1) = true
    · simp [e]
    · simp only [e, Bool.false_eq_true, if_false]
      rcases List.mem_cons.mp h with rfl | h
      · simp at e
      · exact ih h

structure InvS (s : FsS) : Prop where
  valid : ∀ q ∈ s.buckets, validateBucketName q.1 = true
  tree : ∀ q ∈ s.buckets, Inv q.2.tree ∧ KeyPaths q.2.tree

structure Rel (s : FsS) (st : Store) : Prop where
  names : ∀ b, (SMap.find s.buckets b).isSome = (SMap.find st b).isSome
  keysEq : SMap.keys st = SMap.keys s.buckets
  rb : ∀ b bk objs, SMap.find s.buckets b = some bk → SMap.find st b = some objs → Rb bk.tree objs
  sorted : GFS.SMap.Sorted st ∧ GFS.SMap.Sorted s.buckets

theorem invS_empty : InvS FsS.empty := ⟨fun q h => by simp [FsS.empty] at h, fun q h => by simp [FsS.empty] at h⟩
theorem rel_empty : Rel FsS.empty [] := ⟨by intro b; rfl, rfl, by intro b bk objs h; simp [FsS.empty] at h, GFS.SMap.sorted_nil, GFS.SMap.sorted_nil⟩

theorem invS_find (s : FsS) (hi : InvS s) (b : Bytes) (bk : Bkt) (h : SMap.find s.buckets b = some bk) :
    validateBucketName b = true ∧ Inv bk.tree ∧ KeyPaths bk.tree := by
  have hm := GFS.SMap.find_some_mem _ _ _ h
  exact ⟨hi.valid _ hm, hi.tree _ hm⟩

theorem invS_insert (s : FsS) (hi : InvS s) (b : Bytes) (bk : Bkt) (hv : validateBucketName b = true)
    (ht : Inv bk.tree ∧ KeyPaths bk.tree) : InvS ⟨SMap.insert s.buckets b bk⟩ := by
  constructor
  · intro q hq
    rcases mem_insert _ _ _ q hq with e | e
    · subst e; exact hv
    · exact hi.valid q e
  · intro q hq
    rcases mem_insert _ _ _ q hq with e | e
    · subst e; exact ht
    · exact hi.tree q e

theorem invS_erase (s : FsS) (hi : InvS s) (b : Bytes) : InvS ⟨SMap.erase s.buckets b⟩ :=
  ⟨fun q hq => hi.valid q (mem_erase _ _ q hq), fun q hq => hi.tree q (mem_erase _ _ q hq)⟩

/-- an invalid name is the name of no bucket -/
theorem invalid_absent_bucket (s : FsS) (hi : InvS s) (b : Bytes) (h : validateBucketName b = false) :
    SMap.find s.buckets b = none := by
  cases hf : SMap.find s.buckets b with
  | none => rfl
  | some bk => have := (invS_find s hi b bk hf).1; rw [h] at this; cases this

theorem bucketExists_rel (s : FsS) (st : Store) (hR : Rel s st) (hi : InvS s) (b : Bytes) :
    bucketExists s b = (SMap.find st b).isSome := by
  unfold bucketExists
  rw [← hR.names b]
  cases hv : validateBucketName b with
  | true => simp
  | false => simp [invalid_absent_bucket s hi b hv]

/-- replacing the contents of an existing bucket on both sides keeps the stores related -/
theorem rel_update (s : FsS) (st : Store) (hR : Rel s st) (b : Bytes) (bk bk' : Bkt) (objs objs' : SMap Bytes)
    (hb : SMap.find s.buckets b = some bk) (ho : SMap.find st b = some objs) (hrb : Rb bk'.tree objs') :
    Rel ⟨SMap.insert s.buckets b bk'⟩ (SMap.insert st b objs') := by
  constructor
  · intro b'
    by_cases e : b = b'
    · subst e; simp [SMap.find_insert_self]
    · rw [SMap.find_insert_ne _ _ _ _ e, SMap.find_insert_ne _ _ _ _ e]; exact hR.names b'
  · rw [keys_insert, keys_insert, hR.keysEq]
  · intro b' bk2 objs2 h1 h2
    by_cases e : b = b'
    · subst e
      rw [SMap.find_insert_self] at h1 h2
      cases h1; cases h2; exact hrb
    · rw [SMap.find_insert_ne _ _ _ _ e] at h1 h2
      exact hR.rb b' bk2 objs2 h1 h2
  · exact ⟨GFS.SMap.sorted_insert _ _ _ hR.sorted.1, GFS.SMap.sorted_insert _ _ _ hR.sorted.2⟩

/-- overwriting the value of a present key of a sorted map leaves the key list as it is -/
theorem keys_insert_present {α} (m : SMap α) (b : Bytes) (v v' : α) (hs : GFS.SMap.Sorted m) (hf : SMap.find m b = some v) :
    SMap.keys (SMap.insert m b v') = SMap.keys m := by
  induction m with
  | nil => simp [SMap.find] at hf
  | cons p rest ih =>
    obtain ⟨k', w⟩ := p
    unfold SMap.insert
    by_cases h1 : (k' == b) = true
    · have : k' = b := by simpa using h1
      subst this
      simp [h1, SMap.keys]
    · simp only [h1, Bool.false_eq_true, if_false]
      have hne : k' ≠ b := by simpa using h1
      rw [GFS.SMap.find_cons_ne k' b w rest hne] at hf
      have hlt : Bytes.lt k' b = true := (List.pairwise_cons.mp hs).1 (b, v) (GFS.SMap.find_some_mem rest b v hf)
      have : Bytes.lt b k' = false := GFS.Bytes.lt_asymm _ _ hlt
      simp only [this, Bool.false_eq_true, if_false, SMap.keys, List.map_cons]
      have := ih (List.pairwise_cons.mp hs).2 hf
      simp only [SMap.keys] at this
      rw [this]

/-! ### one request -/

def ansOf : Res HOut → Ans
  | .ok .unit => .ok
  | .ok (.object o) => .object o.body
  | .ok (.names l) => .buckets l
  | .ok (.keys _ _) => .ok
  | .ok (.hash _) => .ok
  | .err c => .err c
  | .panic _ => .err .Internal

/-- the requests the reference model speaks about (as for the other backends): names to create
    pass the create-bucket rule, keys to write are within the key-length limit -/
def OpOk : Op → Prop
  | .createBucket b => validateBucketName b = true
  | .put _ k _ => k.length ≤ Front.KeySizeLimit
  | .copy _ _ _ dk => dk.length ≤ Front.KeySizeLimit
  | _ => True

/-- the backend refused the key of a write or delete (`InvalidArgument`: the key is no clean
    relative path, or it conflicts with the directories the stored keys need) -/
def Refused (op : Op) (r : Res HOut) : Prop :=
  r = .err .InvalidArgument ∧ match op with
    | .put .. | .copy .. | .delete .. => True
    | _ => False

theorem getKey_empty (k : Bytes) : getKey Tree.empty k = none := by
  unfold getKey; cases keyPath k <;> simp [content, Tree.empty]

theorem find_none_of_names (s : FsS) (st : Store) (hR : Rel s st) (b : Bytes) (h : SMap.find s.buckets b = none) :
    SMap.find st b = none := by
  have := hR.names b
  rw [h] at this
  cases hf : SMap.find st b with
  | none => rfl
  | some v => simp [hf] at this

theorem find_some_of_names (s : FsS) (st : Store) (hR : Rel s st) (b : Bytes) (bk : Bkt) (h : SMap.find s.buckets b = some bk) :
    ∃ objs, SMap.find st b = some objs := by
  have := hR.names b
  rw [h] at this
  cases hf : SMap.find st b with
  | none => simp [hf] at this
  | some v => exact ⟨v, rfl⟩

theorem exists_of_bucketExists (s : FsS) (b : Bytes) (h : bucketExists s b = true) :
    validateBucketName b = true ∧ ∃ bk, SMap.find s.buckets b = some bk := by
  unfold bucketExists at h
  rw [Bool.and_eq_true] at h
  refine ⟨h.1, ?_⟩
  cases hf : SMap.find s.buckets b with
  | none => simp [hf] at h
  | some bk => exact ⟨bk, rfl⟩

theorem absent_of_not_exists (s : FsS) (st : Store) (hR : Rel s st) (hi : InvS s) (b : Bytes) (h : bucketExists s b = false) :
    SMap.find st b = none := by
  rw [bucketExists_rel s st hR hi b] at h
  cases hf : SMap.find st b with
  | none => rfl
  | some v => simp [hf] at h

theorem getObject_rel (md5 : Bytes → Bytes) (s : FsS) (st : Store) (hR : Rel s st) (b k : Bytes) :
    ansOf ((getObject md5 s b k).bind fun o => Res.ok (HOut.object o)) = (step st (.get b k)).2 := by
  unfold getObject
  simp only [step]
  cases hb : SMap.find s.buckets b with
  | none => simp [find_none_of_names s st hR b hb, Res.bind, ansOf]
  | some bk =>
    obtain ⟨objs, ho⟩ := find_some_of_names s st hR b bk hb
    simp only [ho]
    rw [hR.rb b bk objs hb ho k]
    cases hg : getKey bk.tree k <;> simp [Res.bind, ansOf]


theorem putObject_rel (md5 : Bytes → Bytes) (s : FsS) (st : Store) (hR : Rel s st) (hi : InvS s) (b k : Bytes) (md : Meta) (body : Bytes)
    (bk : Bkt) (objs : SMap Bytes) (hb : SMap.find s.buckets b = some bk) (ho : SMap.find st b = some objs) :
    ((putObject md5 s b k md body).2 = .err .InvalidArgument ∧ (putObject md5 s b k md body).1 = s) ∨
    ((putObject md5 s b k md body).2 = .ok () ∧ InvS (putObject md5 s b k md body).1 ∧
      Rel (putObject md5 s b k md body).1 (SMap.insert st b (SMap.insert objs k body))) := by
  unfold putObject
  cases hk : keyPath k with
  | none => left; exact ⟨rfl, rfl⟩
  | some p =>
    simp only [hb]
    cases hp : put bk.tree p body with
    | none => left; exact ⟨rfl, rfl⟩
    | some t' =>
      right
      obtain ⟨hv, hinv, hkp⟩ := invS_find s hi b bk hb
      refine ⟨rfl, invS_insert s hi b _ hv ⟨put_inv bk.tree p body t' hinv hp, put_keyPaths bk.tree t' k p body hk hp hkp⟩, ?_⟩
      exact rel_update s st hR b bk _ objs _ hb ho (put_rel bk.tree t' objs k p body hk hp (hR.rb b bk objs hb ho))

theorem deleteIn_rel (bk : Bkt) (objs : SMap Bytes) (k : Bytes) (hinv : Inv bk.tree) (hkp : KeyPaths bk.tree) (hR : Rb bk.tree objs) :
    (deleteIn bk k = none ∧ SMap.find objs k = none) ∨
    (∃ bk', deleteIn bk k = some bk' ∧ Inv bk'.tree ∧ KeyPaths bk'.tree ∧ Rb bk'.tree (SMap.erase objs k)) := by
  unfold deleteIn
  cases hk : keyPath k with
  | none => left; exact ⟨rfl, invalid_absent bk.tree objs k hR hk⟩
  | some p =>
    right
    have hrel := delete_rel bk.tree objs k p hinv hk hR
    cases hd : isDir bk.tree p with
    | true =>
      rw [hd] at hrel
      exact ⟨bk, by simp [hd], hinv, hkp, by simpa using hrel⟩
    | false =>
      rw [hd] at hrel
      refine ⟨⟨delete bk.tree p, SMap.erase bk.mds k⟩, by simp [hd], delete_inv bk.tree p hinv, delete_keyPaths bk.tree p hkp, ?_⟩
      simpa using hrel


theorem rel_update' (s : FsS) (st st' : Store) (hR : Rel s st) (b : Bytes) (bk bk' : Bkt) (objs' : SMap Bytes)
    (hb : SMap.find s.buckets b = some bk) (h1 : SMap.find st' b = some objs')
    (h2 : ∀ b', b ≠ b' → SMap.find st' b' = SMap.find st b') (h3 : SMap.keys st' = SMap.keys st)
    (h4 : GFS.SMap.Sorted st') (hrb : Rb bk'.tree objs') :
    Rel ⟨SMap.insert s.buckets b bk'⟩ st' := by
  constructor
  · intro b'
    by_cases e : b = b'
    · subst e; simp [SMap.find_insert_self, h1]
    · rw [SMap.find_insert_ne _ _ _ _ e, h2 b' e]; exact hR.names b'
  · rw [h3, hR.keysEq, keys_insert_present _ b bk bk' hR.sorted.2 hb]
  · intro b' bk2 objs2 g1 g2
    by_cases e : b = b'
    · subst e
      rw [SMap.find_insert_self] at g1
      rw [h1] at g2
      cases g1; cases g2; exact hrb
    · rw [SMap.find_insert_ne _ _ _ _ e] at g1
      rw [h2 b' e] at g2
      exact hR.rb b' bk2 objs2 g1 g2
  · exact ⟨h4, GFS.SMap.sorted_insert _ _ _ hR.sorted.2⟩

theorem foldl_delKey_props (b : Bytes) (ks : List Bytes) : ∀ (st : Store) (objs : SMap Bytes),
    GFS.SMap.Sorted st → SMap.find st b = some objs →
    GFS.SMap.Sorted (ks.foldl (fun acc k => delKey acc b k) st) ∧
    SMap.find (ks.foldl (fun acc k => delKey acc b k) st) b = some (ks.foldl (fun o k => SMap.erase o k) objs) ∧
    (∀ b', b ≠ b' → SMap.find (ks.foldl (fun acc k => delKey acc b k) st) b' = SMap.find st b') ∧
    SMap.keys (ks.foldl (fun acc k => delKey acc b k) st) = SMap.keys st := by
  induction ks with
  | nil => intro st objs hs hf; exact ⟨hs, hf, fun _ _ => rfl, rfl⟩
  | cons k ks ih =>
    intro st objs hs hf
    simp only [List.foldl_cons]
    have hd : delKey st b k = SMap.insert st b (SMap.erase objs k) := by simp [delKey, hf]
    rw [hd]
    obtain ⟨g1, g2, g3, g4⟩ := ih (SMap.insert st b (SMap.erase objs k)) (SMap.erase objs k)
      (GFS.SMap.sorted_insert _ _ _ hs) (SMap.find_insert_self _ _ _)
    refine ⟨g1, g2, ?_, ?_⟩
    · intro b' e; rw [g3 b' e, SMap.find_insert_ne _ _ _ _ e]
    · rw [g4, keys_insert_present st b objs _ hs hf]

theorem foldDel_rel (ks : List Bytes) : ∀ (bk : Bkt) (objs : SMap Bytes) (d f : List Bytes),
    Inv bk.tree → KeyPaths bk.tree → Rb bk.tree objs →
    let r := ks.foldl (fun (acc : Bkt × List Bytes × List Bytes) k =>
      match deleteIn acc.1 k with
      | none => (acc.1, acc.2.1, acc.2.2 ++ [k])
      | some bk' => (bk', acc.2.1 ++ [k], acc.2.2)) (bk, d, f)
    Inv r.1.tree ∧ KeyPaths r.1.tree ∧ Rb r.1.tree (ks.foldl (fun o k => SMap.erase o k) objs) := by
  induction ks with
  | nil => intro bk objs d f h1 h2 h3; exact ⟨h1, h2, h3⟩
  | cons k ks ih =>
    intro bk objs d f h1 h2 h3
    simp only [List.foldl_cons]
    rcases deleteIn_rel bk objs k h1 h2 h3 with ⟨hn, hf⟩ | ⟨bk', hs, g1, g2, g3⟩
    · simp only [hn]
      exact ih bk (SMap.erase objs k) d (f ++ [k]) h1 h2 (fun k' => by rw [erase_find_none objs k hf k']; exact h3 k')
    · simp only [hs]
      exact ih bk' (SMap.erase objs k) (d ++ [k]) f g1 g2 g3


/-- **fs_step**: one request on the multi-bucket file-system backend, in any store related to a
    reference store: it is answered exactly as the reference model answers it and the stores stay
    related — or it is a write/delete whose key the backend refuses (InvalidArgument) and nothing
    changes.  The well-formedness of every bucket's directory tree is kept either way. -/
theorem fs_step (md5 : Bytes → Bytes) (s : FsS) (st : Store) (op : Op) (hR : Rel s st) (hi : InvS s) (hop : OpOk op) :
    InvS (handle md5 s op).1 ∧
    ((ansOf (handle md5 s op).2 = (step st op).2 ∧ Rel (handle md5 s op).1 (step st op).1) ∨
     (Refused op (handle md5 s op).2 ∧ (handle md5 s op).1 = s)) := by
  cases op with
  | createBucket b =>
    have hv : validateBucketName b = true := hop
    simp only [handle, hv, Bool.not_true, Bool.false_eq_true, if_false, step, FsB.createBucket]
    cases hb : SMap.find s.buckets b with
    | some bk =>
      obtain ⟨objs, ho⟩ := find_some_of_names s st hR b bk hb
      simp only [lift, ho, Option.isSome_some, if_true]
      exact ⟨hi, Or.inl ⟨rfl, hR⟩⟩
    | none =>
      have ho := find_none_of_names s st hR b hb
      simp only [lift, ho, Option.isSome_none, Bool.false_eq_true, if_false]
      refine ⟨invS_insert s hi b _ hv ⟨inv_empty, by intro f hf; simp [Tree.empty] at hf⟩, Or.inl ⟨rfl, ?_⟩⟩
      constructor
      · intro b'
        by_cases e : b = b'
        · subst e; simp [SMap.find_insert_self]
        · rw [SMap.find_insert_ne _ _ _ _ e, SMap.find_insert_ne _ _ _ _ e]; exact hR.names b'
      · rw [keys_insert, keys_insert, hR.keysEq]
      · intro b' bk2 objs2 h1 h2
        by_cases e : b = b'
        · subst e
          rw [SMap.find_insert_self] at h1 h2
          cases h1; cases h2
          intro k; rw [getKey_empty]; rfl
        · rw [SMap.find_insert_ne _ _ _ _ e] at h1 h2
          exact hR.rb b' bk2 objs2 h1 h2
      · exact ⟨GFS.SMap.sorted_insert _ _ _ hR.sorted.1, GFS.SMap.sorted_insert _ _ _ hR.sorted.2⟩
  | headBucket b =>
    simp only [handle, withBucket, step, bucketExists_rel s st hR hi b]
    cases hs : (SMap.find st b).isSome <;> simp [hi, ansOf, hR]
  | deleteBucket b =>
    simp only [handle, withBucket]
    cases he : bucketExists s b with
    | false =>
      have := absent_of_not_exists s st hR hi b he
      simp [step, this, hi, ansOf, hR]
    | true =>
      obtain ⟨hv, bk, hb⟩ := exists_of_bucketExists s b he
      obtain ⟨objs, ho⟩ := find_some_of_names s st hR b bk hb
      obtain ⟨_, hinv, hkp⟩ := invS_find s hi b bk hb
      have hempty : hasTopEntries bk.tree = !objs.isEmpty := by
        rw [hasTop_iff bk.tree hinv, files_empty_iff bk.tree objs hkp (hR.rb b bk objs hb ho)]
      simp only [if_true, FsB.deleteBucket, hb, step, ho, hempty]
      cases hoe : objs.isEmpty with
      | false => simp [lift, ansOf, hi, hR]
      | true =>
        simp only [Bool.not_true, Bool.false_eq_true, if_false, if_true, lift, ansOf]
        refine ⟨invS_erase s hi b, Or.inl ⟨trivial, ?_⟩⟩
        constructor
        · intro b'
          by_cases e : b = b'
          · subst e; simp [SMap.find_erase_self]
          · rw [SMap.find_erase_ne _ _ _ e, SMap.find_erase_ne _ _ _ e]; exact hR.names b'
        · rw [keys_erase, keys_erase, hR.keysEq]
        · intro b' bk2 objs2 h1 h2
          by_cases e : b = b'
          · subst e; rw [SMap.find_erase_self] at h1; cases h1
          · rw [SMap.find_erase_ne _ _ _ e] at h1 h2
            exact hR.rb b' bk2 objs2 h1 h2
        · exact ⟨GFS.SMap.sorted_erase _ _ hR.sorted.1, GFS.SMap.sorted_erase _ _ hR.sorted.2⟩
  | listBuckets =>
    refine ⟨hi, Or.inl ⟨?_, hR⟩⟩
    simp only [handle, ansOf, step, listBuckets, hR.keysEq]
    congr 1
    apply List.filter_eq_self.mpr
    intro k hk
    simp only [SMap.keys, List.mem_map] at hk
    obtain ⟨q, hq, rfl⟩ := hk
    exact hi.valid q hq
  | put b k body =>
    have hkl : ¬ k.length > Front.KeySizeLimit := by have : k.length ≤ Front.KeySizeLimit := hop; omega
    simp only [handle, withBucket]
    cases he : bucketExists s b with
    | false =>
      have := absent_of_not_exists s st hR hi b he
      simp [step, this, hi, ansOf, hR]
    | true =>
      obtain ⟨hv, bk, hb⟩ := exists_of_bucketExists s b he
      obtain ⟨objs, ho⟩ := find_some_of_names s st hR b bk hb
      simp only [if_true, hkl, if_false, step, ho]
      rcases putObject_rel md5 s st hR hi b k [] body bk objs hb ho with ⟨h1, h2⟩ | ⟨h1, h2, h3⟩
      · cases hc : putObject md5 s b k [] body with
        | mk s' r =>
          rw [hc] at h1 h2
          simp only at h1 h2
          subst h1; subst h2
          exact ⟨hi, Or.inr ⟨⟨rfl, trivial⟩, rfl⟩⟩
      · cases hc : putObject md5 s b k [] body with
        | mk s' r =>
          rw [hc] at h1 h2 h3
          simp only at h1 h2 h3
          subst h1
          exact ⟨h2, Or.inl ⟨rfl, h3⟩⟩
  | get b k =>
    simp only [handle, withBucket]
    cases he : bucketExists s b with
    | false =>
      have := absent_of_not_exists s st hR hi b he
      simp [step, this, hi, ansOf, hR]
    | true =>
      have h3 := getObject_rel md5 s st hR b k
      simp only [if_true]
      refine ⟨by cases getObject md5 s b k <;> exact hi, Or.inl ⟨?_, ?_⟩⟩
      · cases hg : getObject md5 s b k <;> simp [hg, Res.bind, lift] at h3 ⊢ <;> exact h3
      · have : (step st (.get b k)).1 = st := by
          simp only [step]; cases SMap.find st b with
          | none => rfl
          | some o => simp only; cases SMap.find o k <;> rfl
        rw [this]; cases getObject md5 s b k <;> exact hR
  | head b k =>
    simp only [handle, withBucket]
    cases he : bucketExists s b with
    | false =>
      have := absent_of_not_exists s st hR hi b he
      simp [step, this, hi, ansOf, hR]
    | true =>
      have h3 := getObject_rel md5 s st hR b k
      simp only [if_true]
      refine ⟨by cases getObject md5 s b k <;> exact hi, Or.inl ⟨?_, ?_⟩⟩
      · have hs : (step st (.head b k)).2 = (step st (.get b k)).2 := by simp only [step]
        rw [hs]
        cases hg : getObject md5 s b k <;> simp [hg, Res.bind, lift] at h3 ⊢ <;> exact h3
      · have : (step st (.head b k)).1 = st := by
          simp only [step]; cases SMap.find st b with
          | none => rfl
          | some o => simp only; cases SMap.find o k <;> rfl
        rw [this]; cases getObject md5 s b k <;> exact hR
  | delete b k =>
    simp only [handle, withBucket]
    cases he : bucketExists s b with
    | false =>
      have := absent_of_not_exists s st hR hi b he
      simp [step, this, hi, ansOf, hR]
    | true =>
      obtain ⟨hv, bk, hb⟩ := exists_of_bucketExists s b he
      obtain ⟨objs, ho⟩ := find_some_of_names s st hR b bk hb
      obtain ⟨_, hinv, hkp⟩ := invS_find s hi b bk hb
      simp only [if_true, deleteObject, hb, step, ho, delKey]
      rcases deleteIn_rel bk objs k hinv hkp (hR.rb b bk objs hb ho) with ⟨hn, _⟩ | ⟨bk', hs, g1, g2, g3⟩
      · simp only [hn, lift]
        refine ⟨hi, Or.inr ?_⟩
        simp [Refused]
      · simp only [hs, lift, ansOf]
        exact ⟨invS_insert s hi b bk' hv ⟨g1, g2⟩, Or.inl ⟨trivial, rel_update s st hR b bk bk' objs _ hb ho g3⟩⟩
  | deleteMulti b ks =>
    simp only [handle, withBucket]
    cases he : bucketExists s b with
    | false =>
      have := absent_of_not_exists s st hR hi b he
      simp [step, this, hi, ansOf, hR]
    | true =>
      obtain ⟨hv, bk, hb⟩ := exists_of_bucketExists s b he
      obtain ⟨objs, ho⟩ := find_some_of_names s st hR b bk hb
      obtain ⟨_, hinv, hkp⟩ := invS_find s hi b bk hb
      simp only [if_true, deleteMulti, hb, step, ho, lift, ansOf]
      obtain ⟨f1, f2, f3⟩ := foldDel_rel ks bk objs [] [] hinv hkp (hR.rb b bk objs hb ho)
      obtain ⟨g1, g2, g3, g4⟩ := foldl_delKey_props b ks st objs hR.sorted.1 ho
      exact ⟨invS_insert s hi b _ hv ⟨f1, f2⟩, Or.inl ⟨trivial, rel_update' s st _ hR b bk _ _ hb g2 g3 g4 g1 f3⟩⟩
  | copy sb sk dstB dstK =>
    have hkl : ¬ dstK.length > Front.KeySizeLimit := by have : dstK.length ≤ Front.KeySizeLimit := hop; omega
    simp only [handle, withBucket]
    cases he : bucketExists s dstB with
    | false =>
      have := absent_of_not_exists s st hR hi dstB he
      simp [step, this, hi, ansOf, hR]
    | true =>
      obtain ⟨hv, bk, hb⟩ := exists_of_bucketExists s dstB he
      obtain ⟨dobjs, ho⟩ := find_some_of_names s st hR dstB bk hb
      simp only [if_true, hkl, if_false, step, ho]
      have hg := getObject_rel md5 s st hR sb sk
      simp only [step] at hg
      cases hgo : getObject md5 s sb sk with
      | err c =>
        rw [hgo] at hg
        simp only [Res.bind, ansOf] at hg
        refine ⟨hi, Or.inl ⟨?_, ?_⟩⟩
        · cases hs : SMap.find st sb with
          | none => simp [hs] at hg; simp [ansOf, hg]
          | some sobjs => cases hsk : SMap.find sobjs sk <;> simp [hs, hsk] at hg ⊢ <;> simp [ansOf, hg]
        · cases hs : SMap.find st sb with
          | none => exact hR
          | some sobjs => cases hsk : SMap.find sobjs sk <;> simp [hs, hsk] at hg ⊢ <;> exact hR
      | panic x =>
        exfalso
        unfold getObject at hgo
        cases h1 : SMap.find s.buckets sb with
        | none => simp [h1] at hgo
        | some kv =>
          simp only [h1] at hgo
          cases h2 : getKey kv.tree sk <;> simp [h2] at hgo
      | ok src =>
        rw [hgo] at hg
        simp only [Res.bind, ansOf] at hg
        cases hs : SMap.find st sb with
        | none => simp [hs] at hg
        | some sobjs =>
          cases hsk : SMap.find sobjs sk with
          | none => simp [hs, hsk] at hg
          | some o =>
            simp only [hs, hsk, Ans.object.injEq] at hg
            simp only [copyObject, hgo]
            rcases putObject_rel md5 s st hR hi dstB dstK (mergeMeta [] (src.md.filter (fun p => !(p.1 == Front.aclKey)))) src.body bk dobjs hb ho with ⟨h1, h2⟩ | ⟨h1, h2, h3⟩
            · cases hc : putObject md5 s dstB dstK (mergeMeta [] (src.md.filter (fun p => !(p.1 == Front.aclKey)))) src.body with
              | mk s' r =>
                rw [hc] at h1 h2
                simp only at h1 h2
                subst h1; subst h2
                refine ⟨hi, Or.inr ?_⟩
                simp [Refused, lift]
            · cases hc : putObject md5 s dstB dstK (mergeMeta [] (src.md.filter (fun p => !(p.1 == Front.aclKey)))) src.body with
              | mk s' r =>
                rw [hc] at h1 h2 h3
                simp only at h1 h2 h3
                subst h1
                rw [hg] at h3
                simp only [hsk, lift, ansOf]
                exact ⟨h2, Or.inl ⟨trivial, h3⟩⟩


/-! ### every request sequence -/

theorem step_ne_invalid (st : Store) (op : Op) : (step st op).2 ≠ .err .InvalidArgument := by
  cases op <;> simp only [step] <;> (repeat' split) <;> simp

def refusedB (op : Op) (r : Res HOut) : Bool :=
  decide (r = .err .InvalidArgument) && (match op with | .put .. | .copy .. | .delete .. => true | _ => false)

/-- the backend and the reference model side by side: a request the backend refuses is not
    shown to the reference model; the flag records that every other answer agreed so far -/
def lock (md5 : Bytes → Bytes) (acc : FsS × Store × Bool) (op : Op) : FsS × Store × Bool :=
  let r := handle md5 acc.1 op
  let q := step acc.2.1 op
  if ansOf r.2 = q.2 then (r.1, q.1, acc.2.2)
  else if refusedB op r.2 then (r.1, acc.2.1, acc.2.2)
  else (r.1, q.1, false)

/-- **fs_run_refines**: along every finite request sequence (names to create pass the
    create-bucket rule, keys to write are within the length limit), started in related stores —
    the empty ones in particular —, every request the file-system backend does not refuse is
    answered exactly as the reference model of S3 answers it, a refused one (InvalidArgument for a
    key that is no clean relative path or conflicts with the directories of the stored keys)
    changes nothing, the stores stay related (every key of every bucket reads the same on both
    sides) and every bucket's directory tree stays well-formed. -/
theorem fs_run_refines (md5 : Bytes → Bytes) (ops : List Op) : ∀ (s : FsS) (st : Store) (ok : Bool),
    Rel s st → InvS s → (∀ op ∈ ops, OpOk op) →
    (ops.foldl (lock md5) (s, st, ok)).2.2 = ok ∧
    Rel (ops.foldl (lock md5) (s, st, ok)).1 (ops.foldl (lock md5) (s, st, ok)).2.1 ∧
    InvS (ops.foldl (lock md5) (s, st, ok)).1 := by
  induction ops with
  | nil => intro s st ok hR hi _; exact ⟨rfl, hR, hi⟩
  | cons op ops ih =>
    intro s st ok hR hi hops
    have hrest : ∀ o ∈ ops, OpOk o := fun o ho => hops o (List.mem_cons_of_mem _ ho)
    obtain ⟨h1, h2⟩ := fs_step md5 s st op hR hi (hops op (List.mem_cons_self ..))
    simp only [List.foldl_cons]
    rcases h2 with ⟨ha, hrel⟩ | ⟨href, hs⟩
    · have : lock md5 (s, st, ok) op = ((handle md5 s op).1, (step st op).1, ok) := by
        simp [lock, ha]
      rw [this]
      exact ih _ _ ok hrel h1 hrest
    · have hne : ansOf (handle md5 s op).2 ≠ (step st op).2 := by
        rw [href.1]; exact fun e => step_ne_invalid st op e.symm
      have hb : refusedB op (handle md5 s op).2 = true := by
        unfold refusedB
        rw [href.1]
        have := href.2
        cases op <;> simp_all
      have : lock md5 (s, st, ok) op = ((handle md5 s op).1, st, ok) := by
        simp [lock, hne, hb]
      rw [this, hs]
      exact ih _ _ ok hR hi hrest

def b1 : Bytes := [98, 107, 49]   -- "bk1"
def kA : Bytes := [97]            -- "a"
def kAB : Bytes := [97, 47, 98]   -- "a/b"
/-! Non-vacuity: an object `a`, then `a/b` (refused: `a` is an object), a traversal key (refused),
    overwrite, copy, delete, an emptied bucket removed. -/
example : (([.createBucket b1, .put b1 kA [1], .put b1 kAB [2], .put b1 [46, 46, 47, 120] [3], .get b1 kAB,
      .copy b1 kA b1 [99], .delete b1 kA, .put b1 kAB [4], .get b1 kAB, .deleteBucket b1,
      .deleteMulti b1 [kAB, [99]], .deleteBucket b1, .listBuckets] : List Op).foldl (lock id) (FsS.empty, [], true)).2.2 = true := by
  decide
example : ((handle id (handle id (handle id FsS.empty (.createBucket b1)).1 (.put b1 kA [1])).1 (.put b1 kAB [2])).2
    = .err .InvalidArgument) := by decide


/-! ### the single-bucket backend: the same store with one bucket -/

/-- the store a single-bucket backend starts with is related to the reference store that holds
    just that (empty) bucket, so `fs_step` / `fs_run_refines` speak about it as well: its object
    methods are the multi-bucket ones behind the test `bucketName != db.name` (Model/FsBackend,
    `Single`), and an absent bucket is NoSuchBucket on both sides -/
theorem single_init (name : Bytes) (hv : validateBucketName name = true) :
    InvS (FsB.Single.init name) ∧ Rel (FsB.Single.init name) [(name, [])] := by
  constructor
  · constructor
    · intro q hq; simp [FsB.Single.init] at hq; subst hq; exact hv
    · intro q hq; simp [FsB.Single.init] at hq; subst hq
      exact ⟨inv_empty, by intro f hf; simp [Tree.empty] at hf⟩
  · constructor
    · intro b; simp [FsB.Single.init, SMap.find]; split <;> rfl
    · rfl
    · intro b bk objs h1 h2
      simp only [FsB.Single.init, SMap.find] at h1 h2
      split at h1
      · cases h1
        rename_i he
        simp [he] at h2
        subst h2
        intro k; rw [getKey_empty]; rfl
      · cases h1
    · exact ⟨by simp [GFS.SMap.Sorted], by simp [GFS.SMap.Sorted, FsB.Single.init]⟩

theorem single_put_eq (md5 : Bytes → Bytes) (name : Bytes) (s : FsS) (k : Bytes) (md : Meta) (body : Bytes) :
    FsB.Single.putObject md5 name s name k md body = FsB.putObject md5 s name k md body := by
  simp [FsB.Single.putObject]

theorem single_get_eq (md5 : Bytes → Bytes) (name : Bytes) (s : FsS) (k : Bytes) :
    FsB.Single.getObject md5 name s name k = FsB.getObject md5 s name k := by
  simp [FsB.Single.getObject]

end GFS.Props.FsR
