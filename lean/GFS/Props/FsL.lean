import GFS.Props.FsR
import GFS.Props.BoltL
set_option linter.unusedSimpArgs false
set_option linter.unusedVariables false
/-
  C03 for the file-system backends: the listings of Model/FsBackend against the reference bucket.
-/
namespace GFS.Props.FsL
open GFS GFS.Model GFS.Model.Fs GFS.Model.FsB GFS.Bytes GFS.SMapL GFS.Props.FsInv GFS.Props.FsR

/-! ### building a sorted map by repeated insertion -/

theorem find_foldl_insert {α β : Type} (g : α → Bytes) (h : α → β) (l : List α) : ∀ (m : SMap β) (k : Bytes),
    SMap.find (l.foldl (fun m a => SMap.insert m (g a) (h a)) m) k =
      match l.reverse.find? (fun a => g a == k) with
      | some a => some (h a)
      | none => SMap.find m k := by
  induction l with
  | nil => intro m k; simp
  | cons a rest ih =>
    intro m k
    simp only [List.foldl_cons, List.reverse_cons, List.find?_append]
    rw [ih]
    cases hr : rest.reverse.find? (fun a => g a == k) with
    | some x => simp
    | none =>
      simp only [Option.none_or, List.find?_cons, List.find?_nil]
      by_cases e : (g a == k) = true
      · have : g a = k := by simpa using e
        simp [e, ← this, SMap.find_insert_self]
      · have hne : g a ≠ k := by simpa using e
        simp [e, SMap.find_insert_ne _ _ _ _ hne]

theorem sorted_foldl_insert {α β : Type} (g : α → Bytes) (h : α → β) (l : List α) : ∀ (m : SMap β),
    GFS.SMap.Sorted m → GFS.SMap.Sorted (l.foldl (fun m a => SMap.insert m (g a) (h a)) m) := by
  induction l with
  | nil => intro m hm; exact hm
  | cons a rest ih => intro m hm; exact ih _ (GFS.SMap.sorted_insert _ _ _ hm)

/-- when at most one element satisfies the predicate, searching from either end finds the same -/
theorem find_reverse_unique {α : Type} (p : α → Bool) (l : List α)
    (hu : ∀ x ∈ l, ∀ y ∈ l, p x = true → p y = true → x = y) : l.reverse.find? p = l.find? p := by
  cases h1 : l.find? p with
  | none =>
    rw [List.find?_eq_none] at h1 ⊢
    intro x hx; exact h1 x (List.mem_reverse.mp hx)
  | some x =>
    have hx := List.mem_of_find?_eq_some h1
    have hpx := List.find?_some h1
    cases h2 : l.reverse.find? p with
    | none =>
      rw [List.find?_eq_none] at h2
      exact absurd hpx (by simpa using h2 x (List.mem_reverse.mpr hx))
    | some y =>
      have hy := List.mem_reverse.mp (List.mem_of_find?_eq_some h2)
      have hpy := List.find?_some h2
      rw [hu x hx y hy hpx hpy]


theorem nodup_map_inj {α β : Type} (f : α → β) (l : List α) (h : (l.map f).Nodup) :
    ∀ x ∈ l, ∀ y ∈ l, f x = f y → x = y := by
  induction l with
  | nil => intro x hx; cases hx
  | cons a rest ih =>
    rw [List.map_cons, List.nodup_cons] at h
    intro x hx y hy e
    rcases List.mem_cons.mp hx with rfl | hx' <;> rcases List.mem_cons.mp hy with rfl | hy'
    · rfl
    · exact absurd (List.mem_map.mpr ⟨y, hy', e.symm⟩) h.1
    · exact absurd (List.mem_map.mpr ⟨x, hx', e⟩) h.1
    · exact ih h.2 x hx' y hy' e

theorem find_congr' {α : Type} (p q : α → Bool) (l : List α) (h : ∀ x ∈ l, p x = q x) : l.find? p = l.find? q := by
  induction l with
  | nil => rfl
  | cons a rest ih =>
    rw [List.find?_cons, List.find?_cons, h a (List.mem_cons_self ..)]
    rw [ih (fun x hx => h x (List.mem_cons_of_mem _ hx))]

/-! ### the object files by key -/

theorem keyOf_keyPath (k : Bytes) (p : Path) (h : keyPath k = some p) : keyOf p = k := by
  rw [keyPath_eq k p h]; exact join_split 47 k

theorem file_key (t : Tree) (hk : KeyPaths t) (f : Path × Bytes) (hf : f ∈ t.files) : keyPath (keyOf f.1) = some f.1 := by
  obtain ⟨k, hkk⟩ := hk f hf
  rw [keyOf_keyPath k f.1 hkk]; exact hkk

theorem objMap_find (md5 : Bytes → Bytes) (bk : Bkt) (hi : Inv bk.tree) (hk : KeyPaths bk.tree) (k : Bytes) :
    SMap.find (objMap md5 bk) k = (getKey bk.tree k).map (fun body => Bolt.BVal.obj ⟨body, md5 body, []⟩) := by
  unfold objMap
  rw [find_foldl_insert (fun f : Path × Bytes => keyOf f.1) (fun f => Bolt.BVal.obj ⟨f.2, md5 f.2, []⟩)]
  simp only [SMap.find_nil]
  have huniq : ∀ x ∈ bk.tree.files, ∀ y ∈ bk.tree.files, (keyOf x.1 == k) = true → (keyOf y.1 == k) = true → x = y := by
    intro x hx y hy h1 h2
    have e1 : keyOf x.1 = k := by simpa using h1
    have e2 : keyOf y.1 = k := by simpa using h2
    have p1 := file_key bk.tree hk x hx
    have p2 := file_key bk.tree hk y hy
    rw [e1] at p1; rw [e2] at p2
    have hp : x.1 = y.1 := Option.some.inj (p1.symm.trans p2)
    -- distinct files have distinct paths
    have hnd := hi.uniq
    exact nodup_map_inj (fun f : Path × Bytes => f.1) _ hnd x hx y hy hp
  rw [find_reverse_unique _ _ huniq]
  cases hkp : keyPath k with
  | none =>
    rw [getKey_none _ k hkp]
    have : bk.tree.files.find? (fun a => keyOf a.1 == k) = none := by
      rw [List.find?_eq_none]
      intro x hx he
      have e : keyOf x.1 = k := by simpa using he
      have := file_key bk.tree hk x hx
      rw [e, hkp] at this; cases this
    simp [this]
  | some p =>
    rw [getKey_some _ k p hkp]
    unfold content
    have hcongr : bk.tree.files.find? (fun a => keyOf a.1 == k) = bk.tree.files.find? (fun f => f.1 == p) := by
      apply find_congr'
      intro x hx
      have hx' := file_key bk.tree hk x hx
      by_cases e : x.1 = p
      · have h1 : (keyOf x.1 == k) = true := by rw [e]; simpa using keyOf_keyPath k p hkp
        have h2 : (x.1 == p) = true := by simpa using e
        rw [h1, h2]
      · have h1 : (keyOf x.1 == k) = false := by
          have : keyOf x.1 ≠ k := by
            intro ek; rw [ek, hkp] at hx'; exact e (Option.some.inj hx').symm
          simpa using this
        have h2 : (x.1 == p) = false := by simpa using e
        rw [h1, h2]
    rw [hcongr]
    cases bk.tree.files.find? (fun f => f.1 == p) <;> simp

theorem objMap_sorted (md5 : Bytes → Bytes) (bk : Bkt) : GFS.SMap.Sorted (objMap md5 bk) :=
  sorted_foldl_insert _ _ _ [] GFS.SMap.sorted_nil

def bodyOf : Bolt.BVal → Bytes
  | .obj o => o.body
  | .bucketRec => []

/-- **objMap_abs**: the object files of a bucket, by key, ARE the reference bucket -/
theorem objMap_abs (md5 : Bytes → Bytes) (bk : Bkt) (objs : SMap Bytes) (hi : Inv bk.tree) (hk : KeyPaths bk.tree)
    (hR : Rb bk.tree objs) (hs : GFS.SMap.Sorted objs) : mapV bodyOf (objMap md5 bk) = objs := by
  apply GFS.SMap.sorted_ext _ _ (GFS.SMap.sorted_mapV _ _ (objMap_sorted md5 bk)) hs
  intro k
  rw [find_mapV, objMap_find md5 bk hi hk k, hR k]
  cases getKey bk.tree k <;> simp [bodyOf]


theorem mem_foldl_insert {α β : Type} (g : α → Bytes) (h : α → β) (l : List α) : ∀ (m : SMap β) q,
    q ∈ l.foldl (fun m a => SMap.insert m (g a) (h a)) m → q ∈ m ∨ ∃ a ∈ l, q = (g a, h a) := by
  induction l with
  | nil => intro m q hq; exact Or.inl hq
  | cons a rest ih =>
    intro m q hq
    rcases ih _ q hq with h1 | ⟨b, hb, e⟩
    · rcases mem_insert _ _ _ q h1 with e | e
      · exact Or.inr ⟨a, List.mem_cons_self .., e⟩
      · exact Or.inl e
    · exact Or.inr ⟨b, List.mem_cons_of_mem _ hb, e⟩

theorem objMap_vals (md5 : Bytes → Bytes) (bk : Bkt) : ∀ q ∈ objMap md5 bk, q.2 = Bolt.BVal.obj ⟨bodyOf q.2, md5 (bodyOf q.2), []⟩ := by
  intro q hq
  rcases mem_foldl_insert _ _ _ [] q hq with h | ⟨a, _, e⟩
  · cases h
  · subst e; simp [bodyOf]

/-! ### sorting the common prefixes -/

theorem mem_keys_iff {α} (m : SMap α) (k : Bytes) : k ∈ SMap.keys m ↔ (SMap.find m k).isSome = true := by
  induction m with
  | nil => simp [SMap.keys, SMap.find]
  | cons p rest ih =>
    simp only [SMap.keys, List.map_cons, List.mem_cons] at ih ⊢
    unfold SMap.find
    by_cases e : (p.1 == k) = true
    · have : p.1 = k := by simpa using e
      simp [e, this]
    · have hne : p.1 ≠ k := by simpa using e
      simp only [e, Bool.false_eq_true, if_false]
      rw [← ih]
      constructor
      · rintro (h | h)
        · exact absurd h.symm hne
        · exact h
      · exact Or.inr

theorem mem_sortBytes (l : List Bytes) (x : Bytes) : x ∈ sortBytes l ↔ x ∈ l := by
  unfold sortBytes
  rw [mem_keys_iff, find_foldl_insert (fun x : Bytes => x) (fun _ => ())]
  simp only [SMap.find_nil]
  cases h : l.reverse.find? (fun a => a == x) with
  | none =>
    simp only [Option.isSome_none, Bool.false_eq_true, false_iff]
    intro hx
    have := List.find?_eq_none.mp h x (List.mem_reverse.mpr hx)
    simp at this
  | some y =>
    have hy := List.mem_reverse.mp (List.mem_of_find?_eq_some h)
    have : y = x := by simpa using List.find?_some h
    simp [← this, hy]

theorem sortBytes_sorted (l : List Bytes) : (sortBytes l).Pairwise (fun a b => Bytes.lt a b = true) := by
  unfold sortBytes SMap.keys
  have := sorted_foldl_insert (fun x : Bytes => x) (fun _ => ()) l [] GFS.SMap.sorted_nil
  exact List.pairwise_map.mpr this

theorem sortBytes_nodup (l : List Bytes) : (sortBytes l).Nodup := by
  have := sortBytes_sorted l
  exact this.imp (fun {a b} h e => by subst e; simp [GFS.Bytes.lt_irrefl] at h)


/-! ### the Walk listing (no delimiter, or a delimiter other than '/') -/
open GFS.Props.BoltL GFS.Props.C03G GFS.Spec.Listing

/-- what the listing shows of an object of the reference bucket -/
def contentOf (md5 : Bytes → Bytes) (q : Bytes × Bytes) : Content := ⟨q.1, q.2.length, md5 q.2⟩

theorem objOf_objMap (md5 : Bytes → Bytes) (bk : Bkt) (q : Bytes × Bolt.BVal) (hq : q ∈ objMap md5 bk) :
    objOf q.2 = ⟨bodyOf q.2, md5 (bodyOf q.2), []⟩ := by
  have := objMap_vals md5 bk q hq
  rw [this]; simp [objOf, bodyOf]

/-- **fs_walk_plain_exact**: without a delimiter the fs listing is exactly the objects of the
    reference bucket whose keys start with the prefix — ascending, each once, with the size and
    MD5 of the stored bytes — and nothing else; no common prefixes; never truncated. -/
theorem fs_walk_plain_exact (md5 : Bytes → Bytes) (bk : Bkt) (objs : SMap Bytes) (pfx : Bytes)
    (hi : Inv bk.tree) (hk : KeyPaths bk.tree) (hR : Rb bk.tree objs) (hs : GFS.SMap.Sorted objs) :
    listWalk md5 bk (GFS.Props.C03.plain pfx) =
      { contents := objs.filterMap (fun q => if Bytes.hasPrefix q.1 pfx then some (contentOf md5 q) else none),
        prefixes := [], truncated := false, next := [] } := by
  unfold listWalk
  rw [bolt_list_plain_exact]
  have habs := objMap_abs md5 bk objs hi hk hR hs
  simp only [sortBytes, List.foldl_nil, SMap.keys, List.map_nil]
  congr 1
  rw [← habs]
  simp only [GFS.Props.C03.shown, embed, mapV, List.filterMap_map]
  apply filterMap_congr'
  intro q hq
  have ho := objOf_objMap md5 bk q hq
  simp [Function.comp, ho, contentOf]

/-- **fs_walk_delim_exact**: with a delimiter other than '/' (the Walk path) — for every prefix
    not starting with the delimiter and every bucket whose keys neither start nor end with it —
    Contents are exactly the objects of the reference bucket the specification lists as Contents
    (ascending, with size and MD5), CommonPrefixes are exactly the specification's common prefixes,
    each once, in ascending order; never truncated. -/
theorem fs_walk_delim_exact (md5 : Bytes → Bytes) (bk : Bkt) (objs : SMap Bytes) (hasP : Bool) (d : UInt8) (pfx : Bytes)
    (hi : Inv bk.tree) (hk : KeyPaths bk.tree) (hR : Rb bk.tree objs) (hs : GFS.SMap.Sorted objs)
    (hdom : ∀ q ∈ objs, q.1.head? ≠ some d ∧ q.1.getLast? ≠ some d) (hp : pfx.head? ≠ some d) :
    let r := listWalk md5 bk ⟨hasP, pfx, true, d⟩
    r.truncated = false ∧
    r.contents = objs.filterMap (fun q =>
        match entryOf pfx (some d) q.1 with
        | some (.content _) => some (contentOf md5 q)
        | _ => none) ∧
    r.prefixes.Nodup ∧ r.prefixes.Pairwise (fun a b => Bytes.lt a b = true) ∧
    ∀ x, x ∈ r.prefixes ↔ ∃ q ∈ objs, entryOf pfx (some d) q.1 = some (.cprefix x) := by
  have habs := objMap_abs md5 bk objs hi hk hR hs
  have hdom' : ∀ q ∈ objMap md5 bk, q.1.head? ≠ some d ∧ q.1.getLast? ≠ some d := by
    intro q hq
    apply hdom (q.1, bodyOf q.2)
    rw [← habs]
    exact List.mem_map.mpr ⟨q, hq, rfl⟩
  obtain ⟨h1, h2, h3, h4⟩ := bolt_list_delim_exact hasP d pfx (objMap md5 bk) hdom' hp
  refine ⟨h1, ?_, sortBytes_nodup _, sortBytes_sorted _, ?_⟩
  · show (Bolt.listLoop ⟨hasP, pfx, true, d⟩ (objMap md5 bk) ⟨[], [], false, []⟩).contents = _
    rw [h2, ← habs]
    simp only [embed, mapV, List.filterMap_map]
    apply filterMap_congr'
    intro q hq
    have ho := objOf_objMap md5 bk q hq
    simp only [Function.comp, live, ho, contentOf]
    cases entryOf pfx (some d) q.1 with
    | none => simp
    | some e => cases e <;> simp
  · intro x
    show x ∈ sortBytes _ ↔ _
    rw [mem_sortBytes, h4 x]
    constructor
    · rintro ⟨q, hq, _, he⟩
      simp only [embed, List.mem_map] at hq
      obtain ⟨a, ha, rfl⟩ := hq
      refine ⟨(a.1, bodyOf a.2), ?_, he⟩
      rw [← habs]; exact List.mem_map.mpr ⟨a, ha, rfl⟩
    · rintro ⟨q, hq, he⟩
      rw [← habs] at hq
      obtain ⟨a, ha, rfl⟩ := List.mem_map.mp hq
      refine ⟨(a.1, ⟨some ⟨0, false, (objOf a.2).body, (objOf a.2).hash, (objOf a.2).md⟩, []⟩), ?_, by simp [live], he⟩
      simp only [embed, List.mem_map]
      exact ⟨a, ha, rfl⟩

end GFS.Props.FsL
