import GFS.Spec.S3
import GFS.Base.SMap
set_option linter.unusedSimpArgs false
set_option linter.unusedVariables false
/-
  The reference model Spec.S3 says what the statement of C02 says, clause by clause — so that the
  refinement theorems (C02R, C02F, BoltR, FsR, FsS1: "every backend answers as Spec.S3") mean what
  a reader of the property expects.
-/
namespace GFS.Props.SpecS
open GFS GFS.Spec.S3

/-- "reads return the most recent acknowledged write" -/
theorem read_after_write (s : Store) (b k body : Bytes) (h : (SMap.find s b).isSome = true) :
    (step (step s (.put b k body)).1 (.get b k)).2 = .object body := by
  cases hf : SMap.find s b with
  | none => simp [hf] at h
  | some objs => simp [step, hf, SMap.find_insert_self]

theorem insert_insert {α : Type} (m : SMap α) (k : Bytes) (v v' : α) :
    SMap.insert (SMap.insert m k v) k v' = SMap.insert m k v' := by
  induction m with
  | nil => simp [SMap.insert]
  | cons q rest ih =>
    obtain ⟨k', w⟩ := q
    by_cases h1 : (k' == k) = true
    · simp [SMap.insert, h1]
    · by_cases h2 : Bytes.lt k k' = true
      · simp [SMap.insert, h1, h2]
      · simp [SMap.insert, h1, h2, ih]

/-- "deleted … keys answer NoSuchKey" and "deletes are idempotent" -/
theorem read_after_delete (s : Store) (b k : Bytes) (h : (SMap.find s b).isSome = true) :
    (step (step s (.delete b k)).1 (.get b k)).2 = .err .NoSuchKey ∧
    (step (step s (.delete b k)).1 (.delete b k)).2 = .ok ∧
    (step (step s (.delete b k)).1 (.delete b k)).1 = (step s (.delete b k)).1 := by
  cases hf : SMap.find s b with
  | none => simp [hf] at h
  | some objs =>
    simp only [step, hf, delKey, SMap.find_insert_self, SMap.find_erase_self]
    refine ⟨trivial, trivial, ?_⟩
    have : SMap.erase (SMap.erase objs k) k = SMap.erase objs k := by
      unfold SMap.erase
      rw [List.filter_filter]
      simp
    rw [this, insert_insert]

/-- "never-written keys answer NoSuchKey" -/
theorem never_written (s : Store) (b k : Bytes) (objs : SMap Bytes) (h : SMap.find s b = some objs) (hk : SMap.find objs k = none) :
    (step s (.get b k)).2 = .err .NoSuchKey := by simp [step, h, hk]

/-- "operations on absent buckets answer NoSuchBucket" -/
theorem absent_bucket (s : Store) (b k body : Bytes) (ks : List Bytes) (h : SMap.find s b = none) :
    (step s (.get b k)).2 = .err .NoSuchBucket ∧ (step s (.put b k body)).2 = .err .NoSuchBucket ∧
    (step s (.delete b k)).2 = .err .NoSuchBucket ∧ (step s (.deleteMulti b ks)).2 = .err .NoSuchBucket ∧
    (step s (.headBucket b)).2 = .err .NoSuchBucket ∧ (step s (.deleteBucket b)).2 = .err .NoSuchBucket := by
  simp [step, h]

/-- "re-creating a bucket answers BucketAlreadyExists" -/
theorem recreate (s : Store) (b : Bytes) : (step (step s (.createBucket b)).1 (.createBucket b)).2 = .err .BucketAlreadyExists := by
  simp only [step]
  by_cases h : (SMap.find s b).isSome = true
  · simp [h]
  · simp [h, SMap.find_insert_self]

/-- "deleting a non-empty bucket answers BucketNotEmpty while a bucket whose objects have all been
    deleted can be deleted" -/
theorem delete_bucket_rule (s : Store) (b : Bytes) (objs : SMap Bytes) (h : SMap.find s b = some objs) :
    (step s (.deleteBucket b)).2 = if objs.isEmpty then .ok else .err .BucketNotEmpty := by
  simp only [step, h]
  split <;> rfl

/-- "a copy leaves the destination equal to the source and the source unchanged" -/
theorem copy_rule (s : Store) (sb sk db dk o : Bytes) (sobjs dobjs : SMap Bytes)
    (hs : SMap.find s sb = some sobjs) (hd : SMap.find s db = some dobjs) (ho : SMap.find sobjs sk = some o)
    (hne : sb ≠ db ∨ sk ≠ dk) :
    (step (step s (.copy sb sk db dk)).1 (.get db dk)).2 = .object o ∧
    (step (step s (.copy sb sk db dk)).1 (.get sb sk)).2 = .object o := by
  simp only [step, hs, hd, ho, SMap.find_insert_self]
  refine ⟨trivial, ?_⟩
  by_cases hb : db = sb
  · subst hb
    have hk : dk ≠ sk := by
      rcases hne with h | h
      · exact absurd rfl h
      · exact fun e => h e.symm
    rw [hs] at hd
    simp only [Option.some.injEq] at hd
    subst hd
    simp [SMap.find_insert_self, SMap.find_insert_ne _ _ _ _ hk, ho]
  · simp [SMap.find_insert_ne _ _ _ _ hb, hs, ho]

end GFS.Props.SpecS
