import GFS.Model.MemList
set_option linter.unusedSimpArgs false
set_option linter.unusedVariables false
/-
  C13 — version listings show each version once, flag the true latest.
-/
namespace GFS.Props.C13
open GFS GFS.Model

/-- the iterator over an object's versions yields every archived version once, then the
    current one, and flags exactly the current one as latest -/
theorem allVersions_spec (o : Obj) (d : Ver) (h : o.data = some d) :
    o.allVersions.map (·.1) = o.versions ++ [d] ∧
    (o.allVersions.filter (·.2)) = [(d, true)] := by
  unfold Obj.allVersions
  simp only [h]
  constructor
  · simp [List.map_append, List.map_map, Function.comp_def]
  · simp [List.filter_append, List.filter_map, Function.comp_def]

def entryOf (k : Key) (masked : Bool) (p : Ver × Bool) : VerEntry :=
  ⟨k, if masked then none else some p.1.id, p.1.marker, p.2, p.1.body.length, p.1.hash⟩

/-- **versions_of_key_exact**: without a page limit, the entries emitted for one key are exactly
    its versions and markers, each once, in the iterator's order, each with its own id (or
    "null" for a never-versioned bucket), size and digest, the current one — and only it —
    flagged IsLatest. -/
theorem verLoopInner_unpaginated (k : Key) (masked : Bool) (vs : List (Ver × Bool)) (cnt : Int) (acc : List VerEntry) :
    verLoopInner k masked 0 vs cnt acc = (acc ++ vs.map (entryOf k masked), cnt + vs.length, none) := by
  induction vs generalizing cnt acc with
  | nil => simp [verLoopInner]
  | cons p rest ih =>
    obtain ⟨v, isCur⟩ := p
    unfold verLoopInner
    have hgt : ¬ ((0 : Int) > 0 ∧ cnt + 1 ≥ 0) := by omega
    simp only [hgt, if_false]
    rw [ih]
    simp only [List.map_cons, List.length_cons, entryOf, List.append_assoc, List.singleton_append, Prod.mk.injEq, and_true, true_and]
    omega

/-- **never_versioned_null**: in a bucket that never had versioning every listed id is "null" -/
theorem never_versioned_null (k : Key) (vs : List (Ver × Bool)) :
    ∀ e ∈ vs.map (entryOf k true), e.vid = none := by
  intro e he
  simp only [List.mem_map] at he
  obtain ⟨p, _, rfl⟩ := he
  rfl

/-- with the object invariant, exactly one listed entry of a key is flagged latest, and it
    is the version an unqualified read resolves to -/
theorem exactly_one_latest (k : Key) (masked : Bool) (o : Obj) (d : Ver) (h : o.data = some d) :
    ((o.allVersions.map (entryOf k masked)).filter (·.isLatest)) = [entryOf k masked (d, true)] := by
  unfold Obj.allVersions
  simp only [h, List.map_append, List.map_map, List.filter_append]
  have : (List.map (entryOf k masked ∘ fun x => (x, false)) o.versions).filter (·.isLatest) = [] := by
    rw [List.filter_eq_nil_iff]
    intro e he
    simp only [List.mem_map, Function.comp] at he
    obtain ⟨v, _, rfl⟩ := he
    simp [entryOf]
  rw [this]
  simp [entryOf]

example : (⟨some ⟨3, true, [], [], []⟩, [⟨1, false, [1], [9], []⟩]⟩ : Obj).allVersions.map (·.2) = [false, true] := by rfl

end GFS.Props.C13
