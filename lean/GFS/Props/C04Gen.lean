import GFS.Generated.ClampGo
import GFS.Model.ParseInt
set_option linter.unusedSimpArgs false
set_option linter.unusedVariables false
/-
  The tie for the page-size clamp (max-keys, max-uploads, max-parts) of C04 (and C13/C14):
  the body of `parseClampedInt` re-translated from /repo on every run satisfies the same
  specification as the hand-written model, for all inputs.  A change to util.go changes
  `GFS.Generated.clampGo`, and these proofs are re-checked against it.
-/
namespace GFS.Props.C04Gen
open GFS GFS.Model GFS.Generated

/-- **clampGo_eq_model**: the clamp of `parseClampedInt` as it is in /repo now is
    `max lo (min hi v)` for `lo ≤ hi`, and equals the model's clamp. -/
theorem clampGo_spec (v lo hi : Int) (h : lo ≤ hi) :
    clampGo v lo hi = some (max lo (min hi v)) := by
  simp only [clampGo, decide_eq_true_eq]
  repeat' split
  all_goals simp only [Option.some.injEq]
  all_goals omega

theorem clampGo_eq_model (s : Bytes) (d lo hi : Int) :
    parseClampedInt s d lo hi =
      (if s.isEmpty then some d else parseInt64 s).bind (fun v => clampGo v lo hi) := by
  unfold parseClampedInt clampGo
  cases (if s.isEmpty then some d else parseInt64 s) with
  | none => rfl
  | some v =>
    simp only [Option.bind, decide_eq_true_eq]
    repeat' split
    all_goals first | rfl | omega | simp_all

end GFS.Props.C04Gen
