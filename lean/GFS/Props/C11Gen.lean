import GFS.Props.C11
import GFS.Generated.RangeGo
set_option linter.unusedSimpArgs false
set_option linter.unusedVariables false
/-
  The tie for C11: the body of `Range()` re-translated from /repo on every run satisfies the
  same specification as the hand-written model, for all inputs.  A change to range.go changes
  `GFS.Generated.rangeGo`, and these proofs are re-checked against it.
-/
namespace GFS.Props.C11Gen
open GFS GFS.Model GFS.Spec GFS.Generated GFS.Props.C11

/-- **rangeGo_eq_clip**: the code as it is in /repo now computes the clipped interval. -/
theorem rangeGo_eq_clip (size : Int) (o : RangeReq)
    (hs : 0 ≤ size ∧ size ≤ I64.max) (hp : ParserReq o) :
    rangeGo size o = clipSL size o := by
  obtain ⟨s, e, f⟩ := o
  obtain ⟨hs0, hs1⟩ := hs
  obtain ⟨⟨a1, a2⟩, ⟨b1, b2⟩, hf⟩ := hp
  unfold I64.max at hs1
  simp only at a1 a2 b1 b2 hf
  cases f
  · obtain ⟨h0, h1⟩ := hf rfl
    simp only [RangeNoEnd] at h1
    simp only [rangeGo, clipSL, clip, RangeNoEnd, addW, subW, Bool.not_false, Bool.not_true, if_true,
      beq_iff_eq, Bool.false_eq_true, if_false, wrap, Bool.or_eq_true, decide_eq_true_eq,
      Bool.and_eq_true, bne_iff_ne, ne_eq]
    i64_cases
  · simp only [rangeGo, clipSL, clip, RangeNoEnd, addW, subW, Bool.not_false, Bool.not_true, beq_iff_eq,
      Bool.false_eq_true, if_false, if_true, wrap, Bool.or_eq_true, decide_eq_true_eq,
      Bool.and_eq_true, bne_iff_ne, ne_eq]
    i64_cases

/-- **rangeGo_eq_model**: hence the translated code and the hand-written model (which the
    driver executes and the other theorems mention) agree on every parser-producible request. -/
theorem rangeGo_eq_model (size : Int) (o : RangeReq)
    (hs : 0 ≤ size ∧ size ≤ I64.max) (hp : ParserReq o) :
    rangeGo size o = range size o := by
  rw [rangeGo_eq_clip size o hs hp, range_eq_clip size o hs hp]

end GFS.Props.C11Gen
