import GFS.Props.C11
import GFS.Generated.RangeGo
import GFS.Generated.ClampGo
import GFS.Model.ParseInt
set_option linter.unusedSimpArgs false
set_option linter.unusedVariables false
/-
  The tie for C11 (and for the max-keys clamp of C04/C13/C14): the function bodies
  re-translated from /repo on every run satisfy the same specification as the
  hand-written model, for all inputs.  A change to range.go / util.go changes
  `GFS.Generated.rangeGo` / `clampGo`, and these proofs are re-checked against it.
-/
namespace GFS.Props.C11Gen
open GFS GFS.Model GFS.Spec GFS.Generated GFS.Props.C11

/-- **rangeGo_eq_clip**: the code as it is in /repo now computes the clipped interval. -/
theorem rangeGo_eq_clip (size : Int) (o : RangeReq)
    (hs : 0 ≤ size ∧ size ≤ I64.max) (hp : ParserReq o) :
    rangeGo size o = clipSL size o := by
  obtain ⟨s, e, f⟩ := o
  obtain ⟨hs0, hs1⟩ := hs
  obtain ⟨⟨a1, a2⟩, ⟨b1, b2⟩, hf⟩ := hp
  unfold I64.max at hs1
  simp only at a1 a2 b1 b2 hf
  cases f
  · obtain ⟨h0, h1⟩ := hf rfl
    simp only [RangeNoEnd] at h1
    simp only [rangeGo, clipSL, clip, RangeNoEnd, addW, subW, Bool.not_false, Bool.not_true, if_true,
      beq_iff_eq, Bool.false_eq_true, if_false, wrap, Bool.or_eq_true, decide_eq_true_eq,
      Bool.and_eq_true, bne_iff_ne, ne_eq]
    i64_cases
  · simp only [rangeGo, clipSL, clip, RangeNoEnd, addW, subW, Bool.not_false, Bool.not_true, beq_iff_eq,
      Bool.false_eq_true, if_false, if_true, wrap, Bool.or_eq_true, decide_eq_true_eq,
      Bool.and_eq_true, bne_iff_ne, ne_eq]
    i64_cases

/-- **rangeGo_eq_model**: hence the translated code and the hand-written model (which the
    driver executes and the other theorems mention) agree on every parser-producible request. -/
theorem rangeGo_eq_model (size : Int) (o : RangeReq)
    (hs : 0 ≤ size ∧ size ≤ I64.max) (hp : ParserReq o) :
    rangeGo size o = range size o := by
  rw [rangeGo_eq_clip size o hs hp, range_eq_clip size o hs hp]

/-- **clampGo_eq_model**: the clamp of `parseClampedInt` as it is in /repo now is
    `max lo (min hi v)` for `lo ≤ hi`, and equals the model's clamp. -/
theorem clampGo_spec (v lo hi : Int) (h : lo ≤ hi) :
    clampGo v lo hi = some (max lo (min hi v)) := by
  simp only [clampGo, decide_eq_true_eq]
  repeat' split
  all_goals simp only [Option.some.injEq]
  all_goals omega

theorem clampGo_eq_model (s : Bytes) (d lo hi : Int) :
    parseClampedInt s d lo hi =
      (if s.isEmpty then some d else parseInt64 s).bind (fun v => clampGo v lo hi) := by
  unfold parseClampedInt clampGo
  cases (if s.isEmpty then some d else parseInt64 s) with
  | none => rfl
  | some v =>
    simp only [Option.bind, decide_eq_true_eq]
    repeat' split
    all_goals first | rfl | omega | simp_all

end GFS.Props.C11Gen
