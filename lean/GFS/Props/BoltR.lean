import GFS.Model.Bolt
import GFS.Spec.S3
import GFS.Lemmas.SMapExt
set_option linter.unusedSimpArgs false
set_option linter.unusedVariables false
/-
  s3bolt refines the reference model of S3 (C02: "all bundled backends agree with the model").
  The abstraction forgets the bookkeeping bucket `_meta`, digests and metadata.
-/
namespace GFS.Props.BoltR
open GFS GFS.Model GFS.Model.Bolt GFS.SMap GFS.SMapL GFS.Spec.S3

def objBody : BVal → Bytes
  | .obj o => o.body
  | .bucketRec => []

/-- the abstraction map: every top-level bolt bucket except `_meta` is an S3 bucket -/
def abs (db : DB) : Store := mapV (mapV objBody) (SMap.erase db metaName)

/-- representation invariant: bbolt keeps buckets and keys in strictly ascending byte order -/
def Inv (db : DB) : Prop := Sorted db ∧ ∀ q ∈ db, Sorted q.2

theorem inv_empty : Inv DB.empty := ⟨sorted_nil, by intro q hq; cases hq⟩

theorem abs_sorted (db : DB) (h : Sorted db) : Sorted (abs db) := sorted_mapV _ _ (sorted_erase _ _ h)

theorem abs_find (db : DB) (b : Bytes) :
    SMap.find (abs db) b = if b = metaName then none else (SMap.find db b).map (mapV objBody) := by
  unfold abs
  rw [find_mapV]
  by_cases e : b = metaName
  · subst e; simp [find_erase_self]
  · simp only [e, if_false]
    rw [find_erase_ne _ _ _ (fun x => e x.symm)]

theorem abs_insert_ne (db : DB) (b : Bytes) (kv : SMap BVal) (hs : Sorted db) (hb : b ≠ metaName) :
    abs (SMap.insert db b kv) = SMap.insert (abs db) b (mapV objBody kv) := by
  apply sorted_ext _ _ (abs_sorted _ (sorted_insert _ _ _ hs)) (sorted_insert _ _ _ (abs_sorted _ hs))
  intro j
  rw [abs_find]
  by_cases ej : b = j
  · subst ej; simp [hb, find_insert_self]
  · rw [find_insert_ne _ _ _ _ ej, find_insert_ne _ _ _ _ ej, abs_find]

theorem abs_insert_meta (db : DB) (kv : SMap BVal) (hs : Sorted db) :
    abs (SMap.insert db metaName kv) = abs db := by
  apply sorted_ext _ _ (abs_sorted _ (sorted_insert _ _ _ hs)) (abs_sorted _ hs)
  intro j
  rw [abs_find, abs_find]
  by_cases ej : j = metaName
  · simp [ej]
  · simp only [ej, if_false]
    rw [find_insert_ne _ _ _ _ (fun x => ej x.symm)]

theorem abs_erase_ne (db : DB) (b : Bytes) (hs : Sorted db) (hb : b ≠ metaName) :
    abs (SMap.erase db b) = SMap.erase (abs db) b := by
  apply sorted_ext _ _ (abs_sorted _ (sorted_erase _ _ hs)) (sorted_erase _ _ (abs_sorted _ hs))
  intro j
  rw [abs_find]
  by_cases ej : b = j
  · subst ej; simp [hb, find_erase_self]
  · rw [find_erase_ne _ _ _ ej, find_erase_ne _ _ _ ej, abs_find]

theorem ensureTop_sorted (db : DB) (hs : Sorted db) : Sorted (ensureTop db metaName) := by
  unfold ensureTop; split
  · exact hs
  · exact sorted_insert _ _ _ hs

theorem abs_ensureTop (db : DB) (hs : Sorted db) : abs (ensureTop db metaName) = abs db := by
  unfold ensureTop; split
  · rfl
  · exact abs_insert_meta _ _ hs

theorem ensureTop_find_ne (db : DB) (b : Bytes) (hb : b ≠ metaName) :
    SMap.find (ensureTop db metaName) b = SMap.find db b := by
  unfold ensureTop; split
  · rfl
  · exact find_insert_ne _ _ _ _ (fun x => hb x.symm)

theorem ensureTop_find_meta (db : DB) : ∃ kv, SMap.find (ensureTop db metaName) metaName = some kv := by
  unfold ensureTop
  cases h : SMap.find db metaName with
  | some kv => exact ⟨kv, h⟩
  | none => exact ⟨[], find_insert_self _ _ _⟩

theorem inv_insert (db : DB) (b : Bytes) (kv : SMap BVal) (h : Inv db) (hk : Sorted kv) : Inv (SMap.insert db b kv) := by
  refine ⟨sorted_insert _ _ _ h.1, ?_⟩
  intro q hq
  rcases mem_insert _ _ _ q hq with e | e
  · subst e; exact hk
  · exact h.2 q e

theorem inv_erase (db : DB) (b : Bytes) (h : Inv db) : Inv (SMap.erase db b) :=
  ⟨sorted_erase _ _ h.1, fun q hq => h.2 q (mem_erase _ _ q hq)⟩

theorem inv_find (db : DB) (b : Bytes) (kv : SMap BVal) (h : Inv db) (hf : SMap.find db b = some kv) : Sorted kv :=
  h.2 (b, kv) (find_some_mem _ _ _ hf)

theorem inv_ensureTop (db : DB) (h : Inv db) : Inv (ensureTop db metaName) := by
  unfold ensureTop; split
  · exact h
  · exact inv_insert _ _ _ h sorted_nil

/-- a name the create-bucket rule accepts is neither empty nor the bookkeeping bucket's -/
theorem valid_ne_meta (b : Bytes) (h : validateBucketName b = true) : b ≠ metaName ∧ b ≠ [] := by
  constructor
  · intro e; subst e; revert h; decide
  · intro e; subst e; revert h; decide

theorem metaKey_ne_nil (b : Bytes) : (metaKey b).isEmpty = false := by simp [metaKey]


/-- what the reference model sees of an answer -/
def ansOf : Res HOut → Ans
  | .ok .unit => .ok
  | .ok (.object o) => .object o.body
  | .ok (.names l) => .buckets l
  | .ok (.keys _) => .ok
  | .ok (.hash _) => .ok
  | .err c => .err c
  | .panic _ => .err .Internal

/-- the requests the reference model speaks about: bucket names to create pass the
    create-bucket rule (C17); keys to write are non-empty (a request without a key is a
    bucket request) and within the key-length limit (C08) -/
def OpOk : Op → Prop
  | .createBucket b => validateBucketName b = true
  | .put _ k _ => k ≠ [] ∧ k.length ≤ Front.KeySizeLimit
  | .copy _ _ _ dk => dk ≠ [] ∧ dk.length ≤ Front.KeySizeLimit
  | _ => True

theorem bucketExists_abs (db : DB) (b : Bytes) : bucketExists db b = (SMap.find (abs db) b).isSome := by
  unfold bucketExists
  rw [abs_find]
  by_cases e : b = metaName
  · simp [e]
  · have : (b == metaName) = false := by simpa using e
    simp [this, e]

theorem find_of_exists (db : DB) (b : Bytes) (h : bucketExists db b = true) :
    b ≠ metaName ∧ ∃ kv, SMap.find db b = some kv := by
  unfold bucketExists at h
  by_cases e : b = metaName
  · simp [e] at h
  · have : (b == metaName) = false := by simpa using e
    simp only [this] at h
    refine ⟨e, ?_⟩
    cases hf : SMap.find db b with
    | none => simp [hf] at h
    | some kv => exact ⟨kv, rfl⟩

theorem not_exists_abs (db : DB) (b : Bytes) (h : bucketExists db b = false) : SMap.find (abs db) b = none := by
  rw [bucketExists_abs] at h
  cases hf : SMap.find (abs db) b with
  | none => rfl
  | some v => simp [hf] at h

theorem boltDelete_abs (db : DB) (b k : Bytes) (hi : Inv db) (hb : b ≠ metaName) :
    Inv (boltDelete db b k) ∧ abs (boltDelete db b k) = delKey (abs db) b k := by
  unfold boltDelete delKey
  rw [abs_find]
  simp only [hb, if_false]
  cases hf : SMap.find db b with
  | none => exact ⟨hi, rfl⟩
  | some kv =>
    refine ⟨inv_insert _ _ _ hi (sorted_erase _ _ (inv_find _ _ _ hi hf)), ?_⟩
    simp only [Option.map_some]
    rw [abs_insert_ne _ _ _ hi.1 hb, mapV_erase]

theorem boltDelete_find (db : DB) (b k j : Bytes) (hj : (SMap.find db j).isSome) : (SMap.find (boltDelete db b k) j).isSome := by
  unfold boltDelete
  cases hf : SMap.find db b with
  | none => exact hj
  | some kv =>
    by_cases e : b = j
    · subst e; simp [find_insert_self]
    · rw [find_insert_ne _ _ _ _ e]; exact hj

theorem foldl_delete_abs (ks : List Bytes) (b : Bytes) (hb : b ≠ metaName) : ∀ (db : DB), Inv db →
    Inv (ks.foldl (fun acc k => boltDelete acc b k) db) ∧
    abs (ks.foldl (fun acc k => boltDelete acc b k) db) = ks.foldl (fun acc k => delKey acc b k) (abs db) := by
  induction ks with
  | nil => intro db hi; exact ⟨hi, rfl⟩
  | cons k ks ih =>
    intro db hi
    obtain ⟨h1, h2⟩ := boltDelete_abs db b k hi hb
    simp only [List.foldl_cons]
    rw [← h2]
    exact ih _ h1

theorem valid_len (b : Bytes) (h : validateBucketName b = true) : b.length ≤ 63 := by
  unfold validateBucketName at h
  by_cases hl : b.length < 3 ∨ b.length > 63
  · simp [hl] at h
  · omega

theorem createBucket_refines (db : DB) (b : Bytes) (hi : Inv db) (hbm : b ≠ metaName) (hbn : b ≠ []) (hlen : b.length ≤ 63) :
    Inv (createBucket db b).1 ∧
    abs (createBucket db b).1 = (if (SMap.find (abs db) b).isSome then abs db else SMap.insert (abs db) b []) ∧
    (createBucket db b).2 = (if (SMap.find (abs db) b).isSome then .err .BucketAlreadyExists else .ok ()) := by
  obtain ⟨mkv, hmkv⟩ := ensureTop_find_meta db
  have hk : ((metaKey b).isEmpty || decide ((metaKey b).length > maxKeySize)) = false := by
    simp [metaKey, maxKeySize]; omega
  have hbm' : metaName ≠ b := fun x => hbm x.symm
  rw [abs_find]
  simp only [hbm, if_false]
  unfold createBucket update boltPut
  simp only [hmkv, hk, Bool.false_eq_true, if_false]
  rw [find_insert_ne _ _ _ _ hbm', ensureTop_find_ne _ _ hbm]
  cases hf : SMap.find db b with
  | some kv => simp [hi]
  | none =>
    have hbe : b.isEmpty = false := by cases b with | nil => exact absurd rfl hbn | cons _ _ => rfl
    simp only [Option.isSome_none, Bool.false_eq_true, if_false, hbe, Option.map_none]
    have hi1 := inv_ensureTop db hi
    have hi2 : Inv (SMap.insert (ensureTop db metaName) metaName (SMap.insert mkv (metaKey b) BVal.bucketRec)) :=
      inv_insert _ _ _ hi1 (sorted_insert _ _ _ (inv_find _ _ _ hi1 hmkv))
    refine ⟨inv_insert _ _ _ hi2 sorted_nil, ?_, trivial⟩
    rw [abs_insert_ne _ _ _ hi2.1 hbm, abs_insert_meta _ _ hi1.1, abs_ensureTop _ hi.1]
    rfl

theorem dropRecord_props (db : DB) (b name : Bytes) (hi : Inv db) (hb : b ≠ metaName) :
    Inv (dropRecord db name) ∧ abs (dropRecord db name) = abs db ∧ SMap.find (dropRecord db name) b = SMap.find db b := by
  unfold dropRecord boltDelete
  obtain ⟨mkv, hmkv⟩ := ensureTop_find_meta db
  have hi1 := inv_ensureTop db hi
  simp only [hmkv]
  refine ⟨inv_insert _ _ _ hi1 (sorted_erase _ _ (inv_find _ _ _ hi1 hmkv)), ?_, ?_⟩
  · rw [abs_insert_meta _ _ hi1.1, abs_ensureTop _ hi.1]
  · rw [find_insert_ne _ _ _ _ (fun x => hb x.symm), ensureTop_find_ne _ _ hb]

theorem deleteBucket_refines (db : DB) (b : Bytes) (hi : Inv db) (hbm : b ≠ metaName) :
    Inv (deleteBucket db b).1 ∧
    abs (deleteBucket db b).1 = (step (abs db) (.deleteBucket b)).1 ∧
    ansOf (lift (deleteBucket db b) fun _ => HOut.unit).2 = (step (abs db) (.deleteBucket b)).2 := by
  have hbm' : (b == metaName) = false := by simpa using hbm
  unfold deleteBucket update
  simp only [hbm', Bool.false_eq_true, if_false, step]
  rw [abs_find]
  simp only [hbm, if_false]
  cases hf : SMap.find db b with
  | none => simp [hi, lift, ansOf]
  | some kv =>
    simp only [Option.map_some, isEmpty_mapV]
    cases he : kv.isEmpty with
    | false => simp [hi, lift, ansOf]
    | true =>
      obtain ⟨h1, h2, h3⟩ := dropRecord_props db b b hi hbm
      simp only [Bool.not_true, Bool.false_eq_true, if_false, if_true, lift, ansOf]
      refine ⟨inv_erase _ _ h1, ?_, trivial⟩
      rw [abs_erase_ne _ _ h1.1 hbm, h2]

theorem s3Bucket_cases (db : DB) (b : Bytes) :
    (b = metaName ∧ s3Bucket db b = none ∧ SMap.find (abs db) b = none) ∨
    (b ≠ metaName ∧ s3Bucket db b = SMap.find db b ∧ SMap.find (abs db) b = (SMap.find db b).map (mapV objBody)) := by
  by_cases e : b = metaName
  · left; refine ⟨e, ?_, ?_⟩
    · simp [s3Bucket, e]
    · rw [abs_find]; simp [e]
  · right; refine ⟨e, ?_, ?_⟩
    · have : (b == metaName) = false := by simpa using e
      simp [s3Bucket, this]
    · rw [abs_find]; simp [e]

theorem getObject_refines (db : DB) (b k : Bytes) :
    ansOf (lift (db, getObject db b k) fun o => HOut.object o).2 = (step (abs db) (.get b k)).2 := by
  unfold getObject
  simp only [step]
  rcases s3Bucket_cases db b with ⟨_, h1, h2⟩ | ⟨_, h1, h2⟩
  · simp [h1, h2, lift, ansOf]
  · rw [h1, h2]
    cases hf : SMap.find db b with
    | none => simp [lift, ansOf]
    | some kv =>
      simp only [Option.map_some, find_mapV]
      cases hk : SMap.find kv k with
      | none => simp [lift, ansOf]
      | some v => cases v <;> simp [lift, ansOf, objBody]

theorem putObject_refines (md5 : Bytes → Bytes) (db : DB) (b k : Bytes) (md : Meta) (body : Bytes) (hi : Inv db)
    (hk : k ≠ []) (hkl : k.length ≤ Front.KeySizeLimit) :
    Inv (putObject md5 db b k md body).1 ∧
    abs (putObject md5 db b k md body).1 = (step (abs db) (.put b k body)).1 ∧
    ansOf ((putObject md5 db b k md body).2.bind fun _ => Res.ok HOut.unit) = (step (abs db) (.put b k body)).2 := by
  have hke : (k.isEmpty || decide (k.length > maxKeySize)) = false := by
    have : k.isEmpty = false := by cases k with | nil => exact absurd rfl hk | cons _ _ => rfl
    simp [this, maxKeySize]; simp [Front.KeySizeLimit] at hkl; omega
  unfold putObject update boltPut
  simp only [step]
  rcases s3Bucket_cases db b with ⟨_, h1, h2⟩ | ⟨hbm, h1, h2⟩
  · simp [h1, h2, hi, ansOf, Res.bind]
  · rw [h1, h2]
    cases hf : SMap.find db b with
    | none => simp [hi, ansOf, Res.bind]
    | some kv =>
      simp only [hke, Bool.false_eq_true, if_false, Option.map_some, ansOf, Res.bind]
      refine ⟨inv_insert _ _ _ hi (sorted_insert _ _ _ (inv_find _ _ _ hi hf)), ?_, trivial⟩
      rw [abs_insert_ne _ _ _ hi.1 hbm, mapV_insert]
      rfl

theorem deleteObject_refines (db : DB) (b k : Bytes) (hi : Inv db) :
    Inv (deleteObject db b k).1 ∧
    abs (deleteObject db b k).1 = (step (abs db) (.delete b k)).1 ∧
    ansOf (lift (deleteObject db b k) fun _ => HOut.unit).2 = (step (abs db) (.delete b k)).2 := by
  unfold deleteObject update
  simp only [step]
  rcases s3Bucket_cases db b with ⟨_, h1, h2⟩ | ⟨hbm, h1, h2⟩
  · simp [h1, h2, hi, lift, ansOf]
  · rw [h1, h2]
    cases hf : SMap.find db b with
    | none => simp [hi, lift, ansOf]
    | some kv =>
      obtain ⟨g1, g2⟩ := boltDelete_abs db b k hi hbm
      simp only [Option.map_some, lift, ansOf]
      exact ⟨g1, g2, trivial⟩

theorem deleteMulti_refines (db : DB) (b : Bytes) (ks : List Bytes) (hi : Inv db) :
    Inv (deleteMulti db b ks).1 ∧
    abs (deleteMulti db b ks).1 = (step (abs db) (.deleteMulti b ks)).1 ∧
    ansOf (lift (deleteMulti db b ks) fun l => HOut.keys l).2 = (step (abs db) (.deleteMulti b ks)).2 := by
  unfold deleteMulti update
  simp only [step]
  rcases s3Bucket_cases db b with ⟨_, h1, h2⟩ | ⟨hbm, h1, h2⟩
  · simp [h1, h2, hi, lift, ansOf]
  · rw [h1, h2]
    cases hf : SMap.find db b with
    | none => simp [hi, lift, ansOf]
    | some kv =>
      obtain ⟨g1, g2⟩ := foldl_delete_abs ks b hbm db hi
      simp only [Option.map_some, lift, ansOf]
      exact ⟨g1, g2, trivial⟩

/-- **bolt_step_refines**: one request on s3bolt — in any database that satisfies bbolt's
    ordering invariant — is answered exactly as the reference model answers it, and the new
    database abstracts to the reference model's new store (and satisfies the invariant). -/
theorem bolt_step_refines (md5 : Bytes → Bytes) (db : DB) (op : Op) (hi : Inv db) (hop : OpOk op) :
    Inv (handle md5 db op).1 ∧ abs (handle md5 db op).1 = (step (abs db) op).1 ∧
    ansOf (handle md5 db op).2 = (step (abs db) op).2 := by
  cases op with
  | createBucket b =>
    have hv : validateBucketName b = true := hop
    obtain ⟨hbm, hbn⟩ := valid_ne_meta b hv
    obtain ⟨h1, h2, h3⟩ := createBucket_refines db b hi hbm hbn (valid_len b hv)
    simp only [handle, hv, Bool.not_true, Bool.false_eq_true, if_false, step]
    refine ⟨by simpa [lift] using (by
      cases hc : createBucket db b with
      | mk d r => rw [hc] at h1; cases r <;> exact h1), ?_, ?_⟩
    · cases hc : createBucket db b with
      | mk d r =>
        rw [hc] at h2
        cases hs : (SMap.find (abs db) b).isSome <;> cases r <;> simp [lift, hs] at h2 ⊢ <;> exact h2
    · cases hc : createBucket db b with
      | mk d r =>
        rw [hc] at h3
        simp only at h3
        cases hs : (SMap.find (abs db) b).isSome <;> simp [hs] at h3 <;> subst h3 <;> simp [lift, ansOf, hs]
  | headBucket b =>
    simp only [handle, withBucket, step, bucketExists_abs]
    cases hs : (SMap.find (abs db) b).isSome <;> simp [hi, ansOf]
  | deleteBucket b =>
    simp only [handle, withBucket]
    cases he : bucketExists db b with
    | false =>
      have := not_exists_abs db b he
      simp [step, this, hi, ansOf]
    | true =>
      obtain ⟨hbm, _⟩ := find_of_exists db b he
      obtain ⟨h1, h2, h3⟩ := deleteBucket_refines db b hi hbm
      simp only [if_true]
      refine ⟨?_, ?_, h3⟩
      · cases hc : deleteBucket db b with
        | mk d r => rw [hc] at h1; cases r <;> exact h1
      · cases hc : deleteBucket db b with
        | mk d r => rw [hc] at h2; cases r <;> exact h2
  | listBuckets =>
    refine ⟨hi, rfl, ?_⟩
    simp only [handle, ansOf, step, listBuckets, abs, keys_mapV, SMap.keys, SMap.erase]
    congr 1
    clear hi
    induction db with
    | nil => rfl
    | cons p rest ih =>
      simp only [List.map_cons, List.filter_cons]
      cases hp : (p.1 == metaName) <;> simp [hp, ih, mapV]
  | put b k body =>
    obtain ⟨hk, hkl⟩ : k ≠ [] ∧ k.length ≤ Front.KeySizeLimit := hop
    simp only [handle, withBucket]
    cases he : bucketExists db b with
    | false =>
      have := not_exists_abs db b he
      simp [step, this, hi, ansOf]
    | true =>
      obtain ⟨hbm, _⟩ := find_of_exists db b he
      obtain ⟨h1, h2, h3⟩ := putObject_refines md5 db b k [] body hi hk hkl
      have hkl' : ¬ k.length > Front.KeySizeLimit := by omega
      simp only [if_true, hkl', if_false]
      cases hc : putObject md5 db b k [] body with
      | mk d r =>
        rw [hc] at h1 h2 h3
        cases r <;> simp [lift, Res.bind, ansOf] at h3 ⊢ <;> exact ⟨h1, h2, h3⟩
  | get b k =>
    simp only [handle, withBucket]
    cases he : bucketExists db b with
    | false =>
      have := not_exists_abs db b he
      simp [step, this, hi, ansOf]
    | true =>
      obtain ⟨hbm, _⟩ := find_of_exists db b he
      have h3 := getObject_refines db b k
      simp only [if_true]
      refine ⟨?_, ?_, h3⟩
      · cases hc : getObject db b k <;> simp [lift, hi]
      · cases hc : getObject db b k <;> simp [lift, step] <;> (cases SMap.find (abs db) b <;> simp) <;> (split <;> rfl)
  | head b k =>
    simp only [handle, withBucket]
    cases he : bucketExists db b with
    | false =>
      have := not_exists_abs db b he
      simp [step, this, hi, ansOf]
    | true =>
      obtain ⟨hbm, _⟩ := find_of_exists db b he
      have h3 := getObject_refines db b k
      simp only [if_true]
      refine ⟨?_, ?_, h3⟩
      · cases hc : getObject db b k <;> simp [lift, hi]
      · cases hc : getObject db b k <;> simp [lift, step] <;> (cases SMap.find (abs db) b <;> simp) <;> (split <;> rfl)
  | delete b k =>
    simp only [handle, withBucket]
    cases he : bucketExists db b with
    | false =>
      have := not_exists_abs db b he
      simp [step, this, hi, ansOf]
    | true =>
      obtain ⟨hbm, _⟩ := find_of_exists db b he
      obtain ⟨h1, h2, h3⟩ := deleteObject_refines db b k hi
      simp only [if_true]
      refine ⟨?_, ?_, h3⟩
      · cases hc : deleteObject db b k with
        | mk d r => rw [hc] at h1; cases r <;> exact h1
      · cases hc : deleteObject db b k with
        | mk d r => rw [hc] at h2; cases r <;> exact h2
  | deleteMulti b ks =>
    simp only [handle, withBucket]
    cases he : bucketExists db b with
    | false =>
      have := not_exists_abs db b he
      simp [step, this, hi, ansOf]
    | true =>
      obtain ⟨hbm, _⟩ := find_of_exists db b he
      obtain ⟨h1, h2, h3⟩ := deleteMulti_refines db b ks hi
      simp only [if_true]
      refine ⟨?_, ?_, h3⟩
      · cases hc : deleteMulti db b ks with
        | mk d r => rw [hc] at h1; cases r <;> exact h1
      · cases hc : deleteMulti db b ks with
        | mk d r => rw [hc] at h2; cases r <;> exact h2
  | copy sb sk dstB dstK =>
    obtain ⟨hk, hkl⟩ : dstK ≠ [] ∧ dstK.length ≤ Front.KeySizeLimit := hop
    simp only [handle, withBucket]
    cases he : bucketExists db dstB with
    | false =>
      have := not_exists_abs db dstB he
      simp [step, this, hi, ansOf]
    | true =>
      have hkl' : ¬ dstK.length > Front.KeySizeLimit := by omega
      simp only [if_true, hkl', if_false]
      have hdst : ∃ dobjs, SMap.find (abs db) dstB = some dobjs := by
        rw [bucketExists_abs] at he
        cases hf : SMap.find (abs db) dstB with
        | none => simp [hf] at he
        | some d => exact ⟨d, rfl⟩
      obtain ⟨dobjs, hdobjs⟩ := hdst
      have hg := getObject_refines db sb sk
      simp only [step, hdobjs]
      simp only [step] at hg
      cases hgo : getObject db sb sk with
      | err c =>
        rw [hgo] at hg
        simp only [lift, ansOf] at hg
        refine ⟨hi, ?_, ?_⟩
        · cases hs : SMap.find (abs db) sb with
          | none => rfl
          | some sobjs => cases hsk : SMap.find sobjs sk <;> simp [hs, hsk] at hg ⊢
        · cases hs : SMap.find (abs db) sb with
          | none => simp [hs] at hg; simp [ansOf, hg]
          | some sobjs => cases hsk : SMap.find sobjs sk <;> simp [hs, hsk] at hg ⊢ <;> simp [ansOf, hg]
      | panic st =>
        -- getObject never panics
        exfalso
        unfold getObject at hgo
        cases h1 : s3Bucket db sb with
        | none => simp [h1] at hgo
        | some kv =>
          simp only [h1] at hgo
          cases h2 : SMap.find kv sk with
          | none => simp [h2] at hgo
          | some v => cases v <;> simp [h2] at hgo
      | ok src =>
        rw [hgo] at hg
        simp only [lift, ansOf] at hg
        cases hs : SMap.find (abs db) sb with
        | none => simp [hs] at hg
        | some sobjs =>
          cases hsk : SMap.find sobjs sk with
          | none => simp [hs, hsk] at hg
          | some o =>
            simp only [hs, hsk, Ans.object.injEq] at hg
            simp only [copyObject, hgo]
            obtain ⟨h1, h2, h3⟩ := putObject_refines md5 db dstB dstK
              (mergeMeta [] (src.md.filter (fun p => !(p.1 == Front.aclKey)))) src.body hi hk hkl
            simp only [step, hdobjs] at h2 h3
            cases hc : putObject md5 db dstB dstK (mergeMeta [] (src.md.filter (fun p => !(p.1 == Front.aclKey)))) src.body with
            | mk d r =>
              rw [hc] at h1 h2 h3
              cases r <;> simp [lift, Res.bind, ansOf, hsk] at h3 ⊢
              exact ⟨h1, by rw [h2, hg]⟩


/-- running a whole request sequence on the s3bolt model -/
def boltRun (md5 : Bytes → Bytes) (db : DB) (ops : List Op) : DB × List Ans :=
  ops.foldl (fun (acc : DB × List Ans) op => let r := handle md5 acc.1 op; (r.1, acc.2 ++ [ansOf r.2])) (db, [])

theorem bolt_run_refines_aux (md5 : Bytes → Bytes) (ops : List Op) (db : DB) (acc : List Ans) (s : Store)
    (hi : Inv db) (hs : abs db = s) (hops : ∀ op ∈ ops, OpOk op) :
    let r := ops.foldl (fun (a : DB × List Ans) op => let r := handle md5 a.1 op; (r.1, a.2 ++ [ansOf r.2])) (db, acc)
    let q := ops.foldl (fun (a : Store × List Ans) op => let (s', x) := step a.1 op; (s', a.2 ++ [x])) (s, acc)
    Inv r.1 ∧ abs r.1 = q.1 ∧ r.2 = q.2 := by
  induction ops generalizing db acc s with
  | nil => exact ⟨hi, hs, rfl⟩
  | cons op ops ih =>
    obtain ⟨e1, e2, e3⟩ := bolt_step_refines md5 db op hi (hops op (List.mem_cons_self ..))
    simp only [List.foldl_cons]
    subst hs
    have := ih (handle md5 db op).1 (acc ++ [ansOf (handle md5 db op).2]) (step (abs db) op).1 e1 e2
      (fun o ho => hops o (List.mem_cons_of_mem _ ho))
    rw [e3] at this ⊢
    exact this

/-- **bolt_run_refines**: every finite sequence of bucket and object requests (names to create
    pass the create-bucket rule, keys to write are non-empty and within the length limit),
    started in any database that satisfies bbolt's ordering invariant — the empty file in
    particular —, is answered by s3bolt exactly as the reference model of S3 answers it,
    response by response, and ends in a database that abstracts to the reference model's store.
    Together with C02R.run_refines: s3bolt and s3mem agree with the model and hence with each other. -/
theorem bolt_run_refines (md5 : Bytes → Bytes) (db : DB) (ops : List Op) (hi : Inv db) (hops : ∀ op ∈ ops, OpOk op) :
    Inv (boltRun md5 db ops).1 ∧ abs (boltRun md5 db ops).1 = (run (abs db) ops).1 ∧
    (boltRun md5 db ops).2 = (run (abs db) ops).2 :=
  bolt_run_refines_aux md5 ops db [] (abs db) hi rfl hops

/-- corollary (C10/C17): whatever the history, the bucket listing never shows the bookkeeping
    bucket -/
theorem listBuckets_never_meta (db : DB) : metaName ∉ listBuckets db := by
  unfold listBuckets
  intro h
  have := (List.mem_filter.mp h).2
  simp at this

def b1 : Bytes := [98, 107, 49]   -- "bk1"
/-! Non-vacuity: create, overwrite, self-copy, copy from the bookkeeping bucket (refused), delete, remove. -/
example : (boltRun id DB.empty
    [.createBucket b1, .put b1 [107] [1], .put b1 [107] [2], .copy b1 [107] b1 [107], .get b1 [107],
     .copy metaName (metaKey b1) b1 [120], .createBucket b1,
     .deleteBucket b1, .delete b1 [107], .get b1 [107], .deleteBucket b1, .get b1 [107], .listBuckets]).2
    = [.ok, .ok, .ok, .ok, .object [2], .err .NoSuchBucket, .err .BucketAlreadyExists,
       .err .BucketNotEmpty, .ok, .err .NoSuchKey, .ok, .err .NoSuchBucket, .buckets []] := by decide
example : Inv DB.empty ∧ ∀ op ∈ [Op.createBucket b1, .put b1 [107] [1]], OpOk op := by
  refine ⟨inv_empty, ?_⟩
  intro op h
  simp at h
  rcases h with rfl | rfl
  · show validateBucketName b1 = true; decide
  · exact ⟨by decide, by decide⟩

end GFS.Props.BoltR
