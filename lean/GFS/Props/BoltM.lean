import GFS.Props.BoltR
set_option linter.unusedSimpArgs false
set_option linter.unusedVariables false
/-
  s3bolt's bookkeeping is consistent after every history: a top-level bolt bucket other than
  `_meta` exists exactly when `_meta` holds the record `bucket/<name>` for it.

  This is what makes the committed state of the database a state a restarted server can serve
  (C15): `ListBuckets` walks the top-level buckets and reads each one's record; a bucket without a
  record, or a record without a bucket, is what a bucket creation or deletion cut between two
  transactions would leave behind.  In the model — as in the code — every Backend method is ONE
  bolt transaction (checked against the source: `C07Gen.bolt_sections`), so the invariant holds
  in every committed state.
-/
namespace GFS.Props.BoltM
open GFS GFS.Model GFS.Model.Bolt GFS.SMap GFS.Spec.S3 GFS.Props.BoltR

/-- `_meta` holds the record of S3 bucket `name` -/
def hasRec (db : DB) (name : Bytes) : Bool :=
  match SMap.find db metaName with
  | some mkv => (SMap.find mkv (metaKey name)).isSome
  | none => false

/-- buckets and bookkeeping agree -/
def MetaOK (db : DB) : Prop := ∀ c, c ≠ metaName → (SMap.find db c).isSome = hasRec db c

theorem metaOK_empty : MetaOK DB.empty := by intro c _; simp [DB.empty, hasRec]

theorem metaKey_inj (a b : Bytes) (h : metaKey a = metaKey b) : a = b := by
  unfold metaKey at h
  exact List.append_cancel_left h

theorem find_ins {α : Type} (m : SMap α) (k j : Bytes) (v : α) :
    SMap.find (SMap.insert m k v) j = if k = j then some v else SMap.find m j := by
  by_cases h : k = j
  · subst h; simp [SMap.find_insert_self]
  · simp [h, SMap.find_insert_ne _ _ _ _ h]

theorem find_era {α : Type} (m : SMap α) (k j : Bytes) :
    SMap.find (SMap.erase m k) j = if k = j then none else SMap.find m j := by
  by_cases h : k = j
  · subst h; simp [SMap.find_erase_self]
  · simp [h, SMap.find_erase_ne _ _ _ h]

/-- replacing the contents of an existing S3 bucket touches neither side -/
theorem metaOK_insert_existing (db : DB) (b : Bytes) (kv' : SMap BVal) (hb : b ≠ metaName)
    (he : (SMap.find db b).isSome = true) (h : MetaOK db) : MetaOK (SMap.insert db b kv') := by
  intro c hc
  have hm : SMap.find (SMap.insert db b kv') metaName = SMap.find db metaName := by
    rw [find_ins]; simp [hb]
  unfold hasRec
  rw [hm, find_ins]
  have := h c hc
  unfold hasRec at this
  by_cases hbc : b = c
  · subst hbc; simp only [if_true, Option.isSome_some]; rw [← this]; exact he.symm
  · simp only [hbc, if_false]; exact this

theorem ensureTop_meta (db : DB) : ∃ mkv, SMap.find (ensureTop db metaName) metaName = some mkv ∧
    (SMap.find db metaName = some mkv ∨ (SMap.find db metaName = none ∧ mkv = [])) := by
  unfold ensureTop
  cases h : SMap.find db metaName with
  | some mkv => exact ⟨mkv, by simp [h], Or.inl rfl⟩
  | none => exact ⟨[], by simp [SMap.find_insert_self], Or.inr ⟨rfl, rfl⟩⟩

/-- what `_meta` says about `c` after `ensureTop`: the same as before -/
theorem rec_of_mkv (db : DB) (mkv : SMap BVal)
    (hm : SMap.find db metaName = some mkv ∨ (SMap.find db metaName = none ∧ mkv = [])) (c : Bytes) :
    (SMap.find mkv (metaKey c)).isSome = hasRec db c := by
  unfold hasRec
  rcases hm with h | ⟨h, rfl⟩
  · simp [h]
  · simp [h]

theorem metaOK_createBucket (db : DB) (b : Bytes) (hbm : b ≠ metaName) (hbn : b ≠ []) (hlen : b.length ≤ 63) (h : MetaOK db) :
    MetaOK (createBucket db b).1 := by
  obtain ⟨mkv, hmkv, hcase⟩ := ensureTop_meta db
  have hk : ((metaKey b).isEmpty || decide ((metaKey b).length > maxKeySize)) = false := by
    simp [metaKey, maxKeySize]; omega
  have hbm' : metaName ≠ b := fun x => hbm x.symm
  unfold createBucket update boltPut
  simp only [hmkv, hk, Bool.false_eq_true, if_false]
  rw [find_insert_ne _ _ _ _ hbm', ensureTop_find_ne _ _ hbm]
  cases hf : SMap.find db b with
  | some kv => simpa using h
  | none =>
    have hbe : b.isEmpty = false := by cases b with | nil => exact absurd rfl hbn | cons _ _ => rfl
    simp only [Option.isSome_none, Bool.false_eq_true, if_false, hbe]
    intro c hc
    unfold hasRec
    have hcm : metaName ≠ c := fun x => hc x.symm
    simp only [find_ins, hbm, if_false, if_true, hcm]
    rw [ensureTop_find_ne _ _ hc]
    by_cases hbc : b = c
    · subst hbc; simp
    · have hk2 : ¬ metaKey b = metaKey c := fun e => hbc (metaKey_inj _ _ e)
      simp only [hbc, if_false, hk2]
      rw [rec_of_mkv db mkv hcase c]
      exact h c hc

theorem metaOK_drop (db : DB) (b : Bytes) (hbm : b ≠ metaName) (h : MetaOK db) :
    MetaOK (SMap.erase (dropRecord db b) b) := by
  obtain ⟨mkv, hmkv, hcase⟩ := ensureTop_meta db
  intro c hc
  have hcm : metaName ≠ c := fun x => hc x.symm
  have hbm' : ¬ b = metaName := hbm
  unfold hasRec dropRecord boltDelete
  simp only [hmkv, find_era, find_ins, hbm', if_false, if_true, hcm]
  rw [ensureTop_find_ne _ _ hc]
  by_cases hbc : b = c
  · subst hbc; simp
  · have hk2 : ¬ metaKey b = metaKey c := fun e => hbc (metaKey_inj _ _ e)
    simp only [hbc, if_false, hk2]
    rw [rec_of_mkv db mkv hcase c]
    exact h c hc

theorem metaOK_deleteBucket (db : DB) (b : Bytes) (h : MetaOK db) : MetaOK (deleteBucket db b).1 := by
  unfold deleteBucket update
  by_cases hbm : (b == metaName) = true
  · simpa [hbm] using h
  · have hbm' : b ≠ metaName := by simpa using hbm
    simp only [hbm, Bool.false_eq_true, if_false]
    cases hf : SMap.find db b with
    | none => simpa using h
    | some kv =>
      simp only
      cases he : kv.isEmpty with
      | false => simpa using h
      | true => simpa using metaOK_drop db b hbm' h

theorem boltDelete_shape (db : DB) (b k : Bytes) (he : (SMap.find db b).isSome = true) :
    ∃ kv', boltDelete db b k = SMap.insert db b kv' := by
  unfold boltDelete
  cases hf : SMap.find db b with
  | none => simp [hf] at he
  | some kv => exact ⟨_, rfl⟩

theorem metaOK_foldDelete (b : Bytes) (hb : b ≠ metaName) (ks : List Bytes) : ∀ db : DB, (SMap.find db b).isSome = true → MetaOK db →
    MetaOK (ks.foldl (fun acc k => boltDelete acc b k) db) := by
  induction ks with
  | nil => intro db _ h; exact h
  | cons k ks ih =>
    intro db he h
    simp only [List.foldl_cons]
    obtain ⟨kv', hs⟩ := boltDelete_shape db b k he
    rw [hs]
    exact ih _ (by simp [SMap.find_insert_self]) (metaOK_insert_existing db b kv' hb he h)

theorem s3Bucket_some (db : DB) (b : Bytes) (kv : SMap BVal) (h : s3Bucket db b = some kv) :
    b ≠ metaName ∧ (SMap.find db b).isSome = true := by
  unfold s3Bucket at h
  by_cases hb : (b == metaName) = true
  · simp [hb] at h
  · simp only [hb, Bool.false_eq_true, if_false] at h
    exact ⟨by simpa using hb, by simp [h]⟩

theorem metaOK_putObject (md5 : Bytes → Bytes) (db : DB) (b k : Bytes) (md : Meta) (body : Bytes) (h : MetaOK db) :
    MetaOK (putObject md5 db b k md body).1 := by
  cases hs : s3Bucket db b with
  | none => simp only [putObject, update, hs]; exact h
  | some kv =>
    obtain ⟨hb, he⟩ := s3Bucket_some db b kv hs
    cases hf : SMap.find db b with
    | none => simp [hf] at he
    | some kv0 =>
      by_cases hc : (k.isEmpty || decide (k.length > maxKeySize)) = true
      · simp only [putObject, update, hs, boltPut, hf, hc, if_true]; exact h
      · simp only [putObject, update, hs, boltPut, hf, hc, Bool.false_eq_true, if_false]
        exact metaOK_insert_existing db b _ hb he h

theorem metaOK_deleteObject (db : DB) (b k : Bytes) (h : MetaOK db) : MetaOK (deleteObject db b k).1 := by
  cases hs : s3Bucket db b with
  | none => simp only [deleteObject, update, hs]; exact h
  | some kv =>
    obtain ⟨hb, he⟩ := s3Bucket_some db b kv hs
    obtain ⟨kv', hsh⟩ := boltDelete_shape db b k he
    simp only [deleteObject, update, hs, hsh]
    exact metaOK_insert_existing db b kv' hb he h

theorem metaOK_deleteMulti (db : DB) (b : Bytes) (ks : List Bytes) (h : MetaOK db) : MetaOK (deleteMulti db b ks).1 := by
  cases hs : s3Bucket db b with
  | none => simp only [deleteMulti, update, hs]; exact h
  | some kv =>
    obtain ⟨hb, he⟩ := s3Bucket_some db b kv hs
    simp only [deleteMulti, update, hs]
    exact metaOK_foldDelete b hb ks db he h

theorem metaOK_copyObject (md5 : Bytes → Bytes) (db : DB) (sb sk dstB dstK : Bytes) (md : Meta) (h : MetaOK db) :
    MetaOK (copyObject md5 db sb sk dstB dstK md).1 := by
  unfold copyObject
  cases getObject db sb sk with
  | err c => exact h
  | panic s => exact h
  | ok src =>
    simp only
    have := metaOK_putObject md5 db dstB dstK md src.body h
    cases hq : putObject md5 db dstB dstK md src.body with
    | mk d r => rw [hq] at this; cases r <;> exact this

theorem lift_fst {α} (r : DB × Res α) (f : α → HOut) : (lift r f).1 = r.1 := by
  obtain ⟨d, x⟩ := r
  cases x <;> rfl

/-- **bookkeeping_step**: every request keeps buckets and bookkeeping in agreement -/
theorem bookkeeping_step (md5 : Bytes → Bytes) (db : DB) (op : Op) (hop : OpOk op) (h : MetaOK db) :
    MetaOK (handle md5 db op).1 := by
  cases op with
  | createBucket b =>
    have hv : validateBucketName b = true := hop
    obtain ⟨hbm, hbn⟩ := valid_ne_meta b hv
    simp only [handle, hv, Bool.not_true, Bool.false_eq_true, if_false, lift_fst]
    exact metaOK_createBucket db b hbm hbn (valid_len b hv) h
  | headBucket b => simp only [handle, withBucket]; split <;> exact h
  | deleteBucket b =>
    simp only [handle, withBucket]
    split
    · rw [lift_fst]; exact metaOK_deleteBucket db b h
    · exact h
  | listBuckets => exact h
  | put b k body =>
    simp only [handle, withBucket]
    split
    · split
      · exact h
      · rw [lift_fst]; exact metaOK_putObject md5 db b k [] body h
    · exact h
  | get b k => simp only [handle, withBucket]; split <;> (try rw [lift_fst]) <;> exact h
  | head b k => simp only [handle, withBucket]; split <;> (try rw [lift_fst]) <;> exact h
  | delete b k =>
    simp only [handle, withBucket]
    split
    · rw [lift_fst]; exact metaOK_deleteObject db b k h
    · exact h
  | deleteMulti b ks =>
    simp only [handle, withBucket]
    split
    · rw [lift_fst]; exact metaOK_deleteMulti db b ks h
    · exact h
  | copy sb sk dstB dstK =>
    simp only [handle, withBucket]
    split
    · split
      · exact h
      · cases getObject db sb sk with
        | err c => exact h
        | panic s => exact h
        | ok src => simp only; rw [lift_fst]; exact metaOK_copyObject md5 db sb sk dstB dstK _ h
    · exact h

/-- **bookkeeping_always_consistent**: after every finite sequence of bucket and object requests
    from the empty database file, every committed state has a record in `_meta` for exactly the S3
    buckets that exist — the state a server restarted on the file reads its bucket list from. -/
theorem bookkeeping_always_consistent (md5 : Bytes → Bytes) (ops : List Op) (hops : ∀ op ∈ ops, OpOk op) :
    ∀ db, MetaOK db → MetaOK (boltRun md5 db ops).1 := by
  unfold boltRun
  suffices ∀ (acc : DB × List Ans), MetaOK acc.1 →
      MetaOK (ops.foldl (fun (a : DB × List Ans) op => let r := handle md5 a.1 op; (r.1, a.2 ++ [ansOf r.2])) acc).1 from
    fun db h => this (db, []) h
  induction ops with
  | nil => intro acc h; exact h
  | cons op ops ih =>
    intro acc h
    simp only [List.foldl_cons]
    exact ih (fun o ho => hops o (by simp [ho])) _ (bookkeeping_step md5 acc.1 op (hops op (by simp)) h)

/-! Non-vacuity: create two buckets, fill one, delete the other: records for exactly the live one. -/
example : let db := (boltRun id DB.empty [.createBucket b1, .createBucket [98, 107, 50], .put b1 [107] [1], .deleteBucket [98, 107, 50]]).1
    hasRec db b1 = true ∧ hasRec db [98, 107, 50] = false ∧ (SMap.find db b1).isSome = true ∧ (SMap.find db [98, 107, 50]).isSome = false := by
  decide

end GFS.Props.BoltM
