import GFS.Props.C13I
import GFS.Spec.Versions
set_option linter.unusedSimpArgs false
set_option linter.unusedVariables false
/-
  C05 as a refinement over whole histories: the versioned bucket of s3mem (Model/Mem: bucket.put,
  bucket.rm, bucket.rmVersion with promote, setVersioning, the id generator) refines the
  specification machine Spec.Versions over EVERY finite sequence of uploads, plain deletes,
  deletes of a specific version and versioning changes in which no upload or plain delete happens
  while versioning is Suspended (that case is the known finding D5, refuted in Props/C05).
  After every such sequence an unqualified read answers exactly what the specification's
  `get` answers and a read by id what `getVersion` answers, for every key and every id.
-/
namespace GFS.Props.C05R
open GFS GFS.Model GFS.Props.C13I
open GFS.Spec.Versions (VEntry VBucket Status entriesOf setKey)

/-- the entries of a key in creation order: archived versions, then the current one -/
def ents (bk : Bucket) (k : Key) : List Ver :=
  match SMap.find bk.objects k with
  | none => []
  | some o => o.versions ++ o.data.toList

abbrev Proj := Nat × Bool × Bytes
def vproj (v : Ver) : Proj := (v.id, v.marker, v.body)
def eproj (e : VEntry) : Proj := (e.id, e.marker, e.body)

def toStatus : VStatus → Status
  | .none => .never
  | .enabled => .enabled
  | .suspended => .suspended

/-- the abstraction relation between a bucket of the store and the specification's bucket -/
structure Rel (bk : Bucket) (vb : VBucket) : Prop where
  status : vb.status = toStatus bk.versioning
  same   : ∀ k, (ents bk k).map vproj = (entriesOf vb k).map eproj
  neverM : bk.versioning = .none → ∀ k o, SMap.find bk.objects k = some o → o.versions = []
  neverS : bk.versioning = .none → ∀ k, ∀ e ∈ entriesOf vb k, e.born = false

/-! ### the specification side -/

theorem entriesOf_setKey (vb : VBucket) (k k' : Bytes) (es : List VEntry) :
    entriesOf (setKey vb k es) k' = if k = k' then es else entriesOf vb k' := by
  unfold entriesOf setKey
  by_cases hk : k = k'
  · subst hk
    by_cases he : es.isEmpty = true
    · have : es = [] := List.isEmpty_iff.mp he
      simp [he, SMap.find_erase_self, this]
    · simp [he, SMap.find_insert_self]
  · by_cases he : es.isEmpty = true
    · simp [he, hk, SMap.find_erase_ne _ _ _ hk]
    · simp [he, hk, SMap.find_insert_ne _ _ _ _ hk]

theorem status_setKey (vb : VBucket) (k : Bytes) (es : List VEntry) : (setKey vb k es).status = vb.status := rfl

/-! ### the store side: what each bucket operation does to `ents` -/

theorem find_insert {α : Type} (m : SMap α) (k j : Bytes) (v : α) :
    SMap.find (SMap.insert m k v) j = if k = j then some v else SMap.find m j := by
  by_cases h : k = j
  · subst h; simp [SMap.find_insert_self]
  · simp [h, SMap.find_insert_ne _ _ _ _ h]

theorem find_erase {α : Type} (m : SMap α) (k j : Bytes) :
    SMap.find (SMap.erase m k) j = if k = j then none else SMap.find m j := by
  by_cases h : k = j
  · subst h; simp [SMap.find_erase_self]
  · simp [h, SMap.find_erase_ne _ _ _ h]

theorem ents_put_enabled (N : Nat) (bk : Bucket) (k k' : Key) (item : Ver) (hv : bk.versioning = .enabled)
    (hob : ∀ o, SMap.find bk.objects k = some o → ObjB N o) :
    ents (bk.put k item) k' = if k = k' then ents bk k ++ [item] else ents bk k' := by
  unfold ents Bucket.put
  simp only [find_insert, hv, beq_self_eq_true, if_true]
  by_cases hk : k = k'
  · subst hk
    simp only [if_true]
    cases hf : SMap.find bk.objects k with
    | none => simp
    | some o =>
      obtain ⟨d, h1, h2, h3, h4⟩ := hob o hf
      simp only [Option.getD_some, h1, insertVer_append _ _ h3]
      simp
  · simp only [hk, if_false]

theorem ents_put_plain (bk : Bucket) (k k' : Key) (item : Ver) (hv : bk.versioning ≠ .enabled)
    (hnv : ∀ o, SMap.find bk.objects k = some o → o.versions = []) :
    ents (bk.put k item) k' = if k = k' then [item] else ents bk k' := by
  unfold ents Bucket.put
  have hb : (bk.versioning == VStatus.enabled) = false := by
    cases h : bk.versioning <;> simp_all
  simp only [find_insert, hb, Bool.false_eq_true, if_false]
  by_cases hk : k = k'
  · subst hk
    simp only [if_true]
    cases hf : SMap.find bk.objects k with
    | none => simp
    | some o => simp [hnv o hf]
  · simp only [hk, if_false]

theorem ents_rm_enabled (N : Nat) (bk : Bucket) (k k' : Key) (fresh : Nat) (hv : bk.versioning = .enabled)
    (hob : ∀ o, SMap.find bk.objects k = some o → ObjB N o) :
    ents (bk.rm k fresh).1 k' =
      if k = k' ∧ ents bk k ≠ [] then ents bk k ++ [⟨fresh, true, [], [], []⟩] else ents bk k' := by
  unfold Bucket.rm
  cases hf : SMap.find bk.objects k with
  | none =>
    have : ents bk k = [] := by simp [ents, hf]
    simp [this]
  | some o =>
    obtain ⟨d, h1, _⟩ := hob o hf
    have hne : ents bk k ≠ [] := by simp [ents, hf, h1]
    simp only [hv, beq_self_eq_true, if_true]
    rw [ents_put_enabled N bk k k' _ hv hob]
    simp [hne]

theorem ents_rm_plain (bk : Bucket) (k k' : Key) (fresh : Nat) (hv : bk.versioning ≠ .enabled)
    (hnv : ∀ o, SMap.find bk.objects k = some o → o.versions = []) :
    ents (bk.rm k fresh).1 k' = if k = k' then [] else ents bk k' := by
  have hb : (bk.versioning == VStatus.enabled) = false := by
    cases h : bk.versioning <;> simp_all
  unfold Bucket.rm
  cases hf : SMap.find bk.objects k with
  | none =>
    by_cases hk : k = k'
    · subst hk; simp [ents, hf]
    · simp [hk]
  | some o =>
    have hvs := hnv o hf
    simp only [hb, Bool.false_eq_true, if_false]
    have hp : (({ o with data := none } : Obj).promote).data = none := by simp [Obj.promote, hvs]
    simp only [hp]
    unfold ents
    simp only [find_erase]
    by_cases hk : k = k'
    · simp [hk]
    · simp [hk]

theorem filter_all_lt (vs : List Ver) (vid : Nat) (h : ∀ v ∈ vs, v.id < vid) :
    vs.filter (fun w => !(w.id == vid)) = vs := by
  apply List.filter_eq_self.mpr
  intro v hv
  have := h v hv
  simp; omega

theorem filter_none (vs : List Ver) (vid : Nat) (h : vs.find? (·.id == vid) = none) :
    vs.filter (fun w => !(w.id == vid)) = vs := by
  apply List.filter_eq_self.mpr
  intro v hv
  have := List.find?_eq_none.mp h v hv
  simpa using this

theorem dropLast_getLast (vs : List Ver) (l : Ver) (h : vs.getLast? = some l) : vs.dropLast ++ [l] = vs := by
  have hne : vs ≠ [] := by intro e; simp [e] at h
  have := List.dropLast_concat_getLast hne
  rw [List.getLast?_eq_some_getLast hne] at h
  simp only [Option.some.injEq] at h
  rw [h] at this
  exact this

theorem ents_storeObj (bk : Bucket) (k k' : Key) (o : Obj) :
    ents (bk.storeObj k o) k' = if k = k' then o.versions ++ o.data.toList else ents bk k' := by
  unfold Bucket.storeObj ents
  by_cases he : (o.data.isNone && o.versions.isEmpty) = true
  · simp only [he, if_true, find_erase]
    by_cases hk : k = k'
    · have h1 : o.data = none := by
        cases hd : o.data <;> simp_all
      have h2 : o.versions = [] := by
        have : o.versions.isEmpty = true := by simp_all
        exact List.isEmpty_iff.mp this
      simp [hk, h1, h2]
    · simp [hk]
  · simp only [he, if_false]
    by_cases hk : k = k'
    · simp [hk, find_insert]
    · simp [hk, find_insert]

theorem ents_rmVersion (N : Nat) (bk : Bucket) (k k' : Key) (vid : Nat)
    (hob : ∀ o, SMap.find bk.objects k = some o → ObjB N o) :
    ents (bk.rmVersion k vid).1 k' =
      if k = k' then (ents bk k).filter (fun w => !(w.id == vid)) else ents bk k' := by
  unfold Bucket.rmVersion
  cases hf : SMap.find bk.objects k with
  | none =>
    by_cases hk : k = k'
    · subst hk; simp [ents, hf]
    · simp [hk]
  | some o =>
    obtain ⟨d, h1, h2, h3, h4⟩ := hob o hf
    have hents : ents bk k = o.versions ++ [d] := by simp [ents, hf, h1]
    simp only [h1]
    by_cases hv : (d.id == vid) = true
    · have hdv : d.id = vid := by simpa using hv
      simp only [hv, if_true]
      rw [ents_storeObj]
      by_cases hk : k = k'
      · simp only [hk, if_true] at *
        rw [hents, List.filter_append, filter_all_lt o.versions vid (by intro v hv'; have := h3 v hv'; omega)]
        simp only [List.filter, hv, Bool.not_true, List.append_nil]
        unfold Obj.promote
        simp only
        cases hl : o.versions.getLast? with
        | none =>
          have : o.versions = [] := List.getLast?_eq_none_iff.mp hl
          simp [this]
        | some l => simp [dropLast_getLast _ _ hl]
      · simp [hk]
    · have hdv : ¬ d.id = vid := by simpa using hv
      simp only [hv, if_false]
      cases hfind : o.versions.find? (·.id == vid) with
      | some v =>
        simp only [hfind]
        rw [ents_storeObj]
        by_cases hk : k = k'
        · simp only [hk, if_true] at *
          rw [hents, List.filter_append]
          simp [List.filter, hv, h1]
        · simp [hk]
      | none =>
        simp only [hfind]
        rw [ents_storeObj]
        by_cases hk : k = k'
        · simp only [hk, if_true] at *
          rw [hents, List.filter_append, filter_none _ _ hfind]
          simp [List.filter, hv, h1]
        · simp [hk]

theorem storeObj_versioning (bk : Bucket) (k : Key) (o : Obj) : (bk.storeObj k o).versioning = bk.versioning := by
  unfold Bucket.storeObj; split <;> rfl

theorem rmVersion_versioning (bk : Bucket) (k : Key) (vid : Nat) : (bk.rmVersion k vid).1.versioning = bk.versioning := by
  unfold Bucket.rmVersion
  split
  · rfl
  · exact storeObj_versioning _ _ _

/-! ### histories -/

inductive HOp where
  | put (k : Key) (md : Meta) (body : Bytes)
  | del (k : Key)
  | delVer (k : Key) (id : Nat)
  | setV (enabled : Bool)

def HOp.isWrite : HOp → Bool
  | .put .. => true
  | .del _ => true
  | _ => false

/-- one operation on bucket `b` of the store -/
def mstep (md5 : Bytes → Bytes) (b : Bytes) (m : Mem) : HOp → Mem
  | .put k md body => (m.put md5 b k md body).1
  | .del k => (m.delete b k).1
  | .delVer k id => (m.deleteVersion b k id).1
  | .setV e => (m.setVersioning b e).1

/-- the same operation on the specification's bucket; `n` is the id the store hands out next -/
def sstep (n : Nat) (vb : VBucket) : HOp → VBucket
  | .put k _ body => Spec.Versions.put vb k n body
  | .del k => Spec.Versions.delete vb k n
  | .delVer k id => Spec.Versions.deleteVersion vb k id
  | .setV e => Spec.Versions.setStatus vb e

def MRel (m : Mem) (b : Bytes) (vb : VBucket) : Prop :=
  ∃ bk, SMap.find m.buckets b = some bk ∧ Rel bk vb

theorem objB_of (m : Mem) (b : Bytes) (bk : Bucket) (hm : MInv m) (hb : SMap.find m.buckets b = some bk) (k : Key) :
    ∀ o, SMap.find bk.objects k = some o → ObjB m.nextVer o := by
  intro o ho
  exact (hm (b, bk) (find_mem_key _ _ _ hb)).2 (k, o) (find_mem_key _ _ _ ho)

theorem notEnabled_of {bk : Bucket} {vb : VBucket} (r : Rel bk vb) (h1 : bk.versioning ≠ .enabled)
    (h2 : vb.status ≠ .suspended) : bk.versioning = .none := by
  have := r.status
  cases hv : bk.versioning with
  | none => rfl
  | enabled => exact absurd hv h1
  | suspended => rw [hv] at this; exact absurd this h2

theorem filter_born_nil (es : List VEntry) (h : ∀ e ∈ es, e.born = false) : es.filter (·.born) = [] := by
  apply List.filter_eq_nil_iff.mpr
  intro e he
  simp [h e he]

/-- **step_refines**: one operation keeps the abstraction relation (and the store invariant) -/
theorem step_refines (md5 : Bytes → Bytes) (m : Mem) (b : Bytes) (vb : VBucket) (op : HOp)
    (hm : MInv m) (hr : MRel m b vb) (hw : op.isWrite = true → vb.status ≠ .suspended) :
    MInv (mstep md5 b m op) ∧ MRel (mstep md5 b m op) b (sstep (m.nextVer + 1) vb op) := by
  obtain ⟨bk, hb, r⟩ := hr
  have hob := objB_of m b bk hm hb
  cases op with
  | put k md body =>
    refine ⟨put_inv' md5 m b k md body hm, ?_⟩
    simp only [mstep, Mem.put, Mem.putCommit, hb]
    refine ⟨_, SMap.find_insert_self _ _ _, ?_⟩
    by_cases hv : bk.versioning = .enabled
    · have hs : vb.status = .enabled := by rw [r.status, hv]; rfl
      refine ⟨?_, ?_, ?_, ?_⟩
      · simp [sstep, Spec.Versions.put, status_setKey, r.status, Bucket.put]
      · intro k'
        rw [ents_put_enabled m.nextVer bk k k' _ hv (hob k)]
        simp only [sstep, Spec.Versions.put, entriesOf_setKey, hs, beq_self_eq_true, if_true]
        by_cases hk : k = k'
        · subst hk; simp [r.same k, vproj, eproj]
        · simp [hk, r.same k']
      · intro h; have h' : bk.versioning = .none := h; rw [hv] at h'; cases h'
      · intro h; have h' : bk.versioning = .none := h; rw [hv] at h'; cases h'
    · have hnone := notEnabled_of r hv (hw rfl)
      have hs : vb.status = .never := by rw [r.status, hnone]; rfl
      have hsb : (vb.status == Status.enabled) = false := by rw [hs]; rfl
      refine ⟨?_, ?_, ?_, ?_⟩
      · simp [sstep, Spec.Versions.put, status_setKey, r.status, Bucket.put]
      · intro k'
        rw [ents_put_plain bk k k' _ hv (fun o ho => r.neverM hnone k o ho)]
        simp only [sstep, Spec.Versions.put, entriesOf_setKey, hsb, Bool.false_eq_true, if_false,
          filter_born_nil _ (r.neverS hnone k), List.nil_append]
        by_cases hk : k = k'
        · subst hk; simp [vproj, eproj]
        · simp [hk, r.same k']
      · intro _ k' o ho
        simp only [Bucket.put, find_insert] at ho
        by_cases hk : k = k'
        · subst hk
          simp only [if_true, Option.some.injEq] at ho
          subst ho
          have hbe : (bk.versioning == VStatus.enabled) = false := by rw [hnone]; rfl
          simp only [hbe, Bool.false_eq_true, if_false]
          cases hf : SMap.find bk.objects k with
          | none => rfl
          | some o0 => exact r.neverM hnone k o0 hf
        · simp only [hk, if_false] at ho
          exact r.neverM hnone k' o ho
      · intro _ k' e he
        simp only [sstep, Spec.Versions.put, entriesOf_setKey, hsb, Bool.false_eq_true, if_false,
          filter_born_nil _ (r.neverS hnone k), List.nil_append] at he
        by_cases hk : k = k'
        · simp only [hk, if_true, List.mem_singleton] at he
          subst he; rfl
        · simp only [hk, if_false] at he
          exact r.neverS hnone k' e he
  | del k =>
    refine ⟨delete_inv m b k hm, ?_⟩
    simp only [mstep, Mem.delete, hb]
    refine ⟨_, SMap.find_insert_self _ _ _, ?_⟩
    have hemp : ((entriesOf vb k).isEmpty = true) ↔ ents bk k = [] := by
      have := r.same k
      constructor
      · intro h
        have h' : entriesOf vb k = [] := List.isEmpty_iff.mp h
        rw [h'] at this
        simpa using this
      · intro h
        rw [h] at this
        have : entriesOf vb k = [] := by simpa using this.symm
        simp [this]
    by_cases hv : bk.versioning = .enabled
    · have hs : vb.status = .enabled := by rw [r.status, hv]; rfl
      have hvers : (bk.rm k (m.nextVer + 1)).1.versioning = .enabled := by
        unfold Bucket.rm; split
        · exact hv
        · simp [hv, Bucket.put]
      refine ⟨?_, ?_, ?_, ?_⟩
      · rw [hvers]
        have : (sstep (m.nextVer + 1) vb (.del k)).status = vb.status := by
          simp only [sstep, Spec.Versions.delete]
          split
          · rfl
          · split <;> rfl
        rw [this, hs]; rfl
      · intro k'
        rw [ents_rm_enabled m.nextVer bk k k' _ hv (hob k)]
        simp only [sstep, Spec.Versions.delete]
        by_cases he : ents bk k = []
        · have := hemp.mpr he
          simp [this, he, r.same k']
        · have hne : ¬ (entriesOf vb k).isEmpty = true := fun h => he (hemp.mp h)
          simp only [hne, if_false, hs, beq_self_eq_true, if_true, entriesOf_setKey]
          by_cases hk : k = k'
          · subst hk; simp [he, r.same k, vproj, eproj, entriesOf_setKey]
          · simp [hk, r.same k', entriesOf_setKey]
      · intro h; rw [hvers] at h; cases h
      · intro h; rw [hvers] at h; cases h
    · have hnone := notEnabled_of r hv (hw rfl)
      have hs : vb.status = .never := by rw [r.status, hnone]; rfl
      have hsb : (vb.status == Status.enabled) = false := by rw [hs]; rfl
      have hvers : (bk.rm k (m.nextVer + 1)).1.versioning = bk.versioning := by
        have hbe : (bk.versioning == VStatus.enabled) = false := by rw [hnone]; rfl
        unfold Bucket.rm; split
        · rfl
        · simp only [hbe, Bool.false_eq_true, if_false]; split <;> rfl
      have hS : ∀ k', entriesOf (sstep (m.nextVer + 1) vb (.del k)) k' = if k = k' then [] else entriesOf vb k' := by
        intro k'
        simp only [sstep, Spec.Versions.delete]
        by_cases he : (entriesOf vb k).isEmpty = true
        · have h' : entriesOf vb k = [] := List.isEmpty_iff.mp he
          by_cases hk : k = k'
          · subst hk; simp [he, h']
          · simp [he, hk]
        · simp only [he, if_false, hsb, Bool.false_eq_true, entriesOf_setKey, filter_born_nil _ (r.neverS hnone k)]
      refine ⟨?_, ?_, ?_, ?_⟩
      · rw [hvers]
        have : (sstep (m.nextVer + 1) vb (.del k)).status = vb.status := by
          simp only [sstep, Spec.Versions.delete]
          split
          · rfl
          · split <;> rfl
        rw [this]; exact r.status
      · intro k'
        rw [ents_rm_plain bk k k' _ hv (fun o ho => r.neverM hnone k o ho), hS k']
        by_cases hk : k = k'
        · simp [hk]
        · simp [hk, r.same k']
      · intro _ k' o ho
        -- every object left in the bucket was there before
        have hbe : (bk.versioning == VStatus.enabled) = false := by rw [hnone]; rfl
        unfold Bucket.rm at ho
        cases hf : SMap.find bk.objects k with
        | none => simp only [hf] at ho; exact r.neverM hnone k' o ho
        | some o0 =>
          have hvs := r.neverM hnone k o0 hf
          have hp : (({ o0 with data := none } : Obj).promote).data = none := by simp [Obj.promote, hvs]
          simp only [hf, hbe, Bool.false_eq_true, if_false, hp, find_erase] at ho
          by_cases hk : k = k'
          · simp [hk] at ho
          · simp only [hk, if_false] at ho; exact r.neverM hnone k' o ho
      · intro _ k' e he
        rw [hS k'] at he
        by_cases hk : k = k'
        · simp [hk] at he
        · simp only [hk, if_false] at he; exact r.neverS hnone k' e he
  | delVer k vid =>
    refine ⟨deleteVersion_inv m b k vid hm, ?_⟩
    simp only [mstep, Mem.deleteVersion, hb]
    refine ⟨_, SMap.find_insert_self _ _ _, ?_⟩
    have hvers : (bk.rmVersion k vid).1.versioning = bk.versioning := rmVersion_versioning bk k vid
    have hS : ∀ k', entriesOf (sstep (m.nextVer + 1) vb (.delVer k vid)) k' =
        if k = k' then (entriesOf vb k).filter (fun e => !(e.id == vid)) else entriesOf vb k' := by
      intro k'; simp only [sstep, Spec.Versions.deleteVersion, entriesOf_setKey]
    refine ⟨?_, ?_, ?_, ?_⟩
    · rw [hvers]; exact r.status
    · intro k'
      rw [ents_rmVersion m.nextVer bk k k' vid (hob k), hS k']
      by_cases hk : k = k'
      · subst hk
        simp only [if_true]
        have := r.same k
        have e1 : (ents bk k).filter (fun w => !(w.id == vid)) = (ents bk k).filter ((fun p : Proj => !(p.1 == vid)) ∘ vproj) := rfl
        have e2 : (entriesOf vb k).filter (fun e => !(e.id == vid)) = (entriesOf vb k).filter ((fun p : Proj => !(p.1 == vid)) ∘ eproj) := rfl
        rw [e1, e2, ← List.filter_map, ← List.filter_map, this]
      · simp [hk, r.same k']
    · intro h k' o ho
      rw [hvers] at h
      -- the versions of every object after rmVersion are a filter / dropLast of versions that were []
      have hall : ∀ k'', ents bk k'' = (match SMap.find bk.objects k'' with | none => [] | some o => o.data.toList) := by
        intro k''
        unfold ents
        cases hf : SMap.find bk.objects k'' with
        | none => rfl
        | some o1 => simp [r.neverM h k'' o1 hf]
      have hlen : (ents (bk.rmVersion k vid).1 k').length ≤ 1 := by
        rw [ents_rmVersion m.nextVer bk k k' vid (hob k)]
        by_cases hk : k = k'
        · simp only [hk, if_true]
          refine Nat.le_trans (List.length_filter_le _ _) ?_
          rw [hall k']
          cases SMap.find bk.objects k' with
          | none => simp
          | some o1 => cases o1.data <;> simp
        · simp only [hk, if_false]
          rw [hall k']
          cases SMap.find bk.objects k' with
          | none => simp
          | some o1 => cases o1.data <;> simp
      have hinv := rmVersion_inv m.nextVer bk k vid (hm (b, bk) (find_mem_key _ _ _ hb))
      obtain ⟨d, h1, _⟩ := hinv.2 (k', o) (find_mem_key _ _ _ ho)
      dsimp only at h1
      unfold ents at hlen
      simp only [ho, h1, Option.toList, List.length_append, List.length_cons, List.length_nil] at hlen
      exact List.eq_nil_of_length_eq_zero (by omega)
    · intro h k' e he
      rw [hvers] at h
      rw [hS k'] at he
      by_cases hk : k = k'
      · simp only [hk, if_true] at he
        exact r.neverS h k' e (List.mem_filter.mp he).1
      · simp only [hk, if_false] at he
        exact r.neverS h k' e he
  | setV e =>
    refine ⟨setVersioning_inv m b e hm, ?_⟩
    simp only [mstep, Mem.setVersioning, hb]
    refine ⟨_, SMap.find_insert_self _ _ _, ?_⟩
    refine ⟨?_, ?_, ?_, ?_⟩
    · simp only [sstep, Spec.Versions.setStatus, r.status]
      cases e <;> cases hv : bk.versioning <;> simp [toStatus]
    · intro k'; exact r.same k'
    · intro h k' o ho
      have hn : bk.versioning = .none := by
        cases e <;> cases hv : bk.versioning <;> simp_all
      exact r.neverM hn k' o ho
    · intro h k' e' he
      have hn : bk.versioning = .none := by
        cases e <;> cases hv : bk.versioning <;> simp_all
      exact r.neverS hn k' e' he

/-! ### observations -/

def obsGet (m : Mem) (b : Bytes) (k : Key) : Res Bytes :=
  match m.get b k with
  | .ok v => .ok v.body
  | .err c => .err c
  | .panic p => .panic p

def obsGetVersion (m : Mem) (b : Bytes) (k : Key) (id : Nat) : Res (Option Bytes) :=
  match m.getVersion b k id with
  | .ok v => .ok (if v.marker then none else some v.body)
  | .err c => .err c
  | .panic p => .panic p

theorem getLast_map_eq {α β γ} (f : α → γ) (g : β → γ) (l1 : List α) (l2 : List β) (h : l1.map f = l2.map g) :
    l1.getLast?.map f = l2.getLast?.map g := by
  rw [← List.getLast?_map, ← List.getLast?_map, h]

/-- **reads_agree**: in related states an unqualified read and a read by id answer exactly what the
    specification answers, for every key and id (no panic: the current version is never missing) -/
theorem reads_agree (m : Mem) (b : Bytes) (vb : VBucket) (hm : MInv m) (hr : MRel m b vb) (k : Key) :
    obsGet m b k = Spec.Versions.get vb k ∧ ∀ id, obsGetVersion m b k id = Spec.Versions.getVersion vb k id := by
  obtain ⟨bk, hb, r⟩ := hr
  have hsame := r.same k
  constructor
  · unfold obsGet Mem.get Mem.current Spec.Versions.get Spec.Versions.newest
    simp only [hb]
    cases hf : SMap.find bk.objects k with
    | none =>
      have : ents bk k = [] := by simp [ents, hf]
      rw [this] at hsame
      have he : entriesOf vb k = [] := by simpa using hsame.symm
      simp [he]
    | some o =>
      obtain ⟨d, h1, h2, h3, h4⟩ := objB_of m b bk hm hb k o hf
      have hents : ents bk k = o.versions ++ [d] := by simp [ents, hf, h1]
      have hl := getLast_map_eq vproj eproj _ _ hsame
      rw [hents] at hl
      simp only [List.getLast?_append, List.getLast?_singleton, Option.some_or, Option.map_some] at hl
      simp only [h1]
      cases hlast : (entriesOf vb k).getLast? with
      | none => rw [hlast] at hl; simp at hl
      | some e =>
        rw [hlast] at hl
        simp only [Option.map_some, Option.some.injEq, vproj, eproj, Prod.mk.injEq] at hl
        obtain ⟨_, hmk, hbody⟩ := hl
        simp only [hmk]
        cases e.marker <;> simp [hbody]
  · intro id
    unfold obsGetVersion Mem.getVersion Bucket.objectVersion Spec.Versions.getVersion
    simp only [hb]
    cases hf : SMap.find bk.objects k with
    | none =>
      have : ents bk k = [] := by simp [ents, hf]
      rw [this] at hsame
      have he : entriesOf vb k = [] := by simpa using hsame.symm
      simp [he]
    | some o =>
      obtain ⟨d, h1, h2, h3, h4⟩ := objB_of m b bk hm hb k o hf
      have hents : ents bk k = o.versions ++ [d] := by simp [ents, hf, h1]
      have hne : ¬ (entriesOf vb k).isEmpty = true := by
        intro h
        have h' : entriesOf vb k = [] := List.isEmpty_iff.mp h
        rw [h', hents] at hsame
        simp at hsame
      -- find by id commutes with the projection
      have hfind : ((ents bk k).find? (·.id == id)).map vproj = ((entriesOf vb k).find? (·.id == id)).map eproj := by
        have e1 : (ents bk k).find? (·.id == id) = (ents bk k).find? ((fun p : Proj => p.1 == id) ∘ vproj) := rfl
        have e2 : (entriesOf vb k).find? (·.id == id) = (entriesOf vb k).find? ((fun p : Proj => p.1 == id) ∘ eproj) := rfl
        rw [e1, e2, ← List.find?_map, ← List.find?_map, hsame]
      have hE : (ents bk k).find? (·.id == id) =
          if (d.id == id) = true then some d else o.versions.find? (·.id == id) := by
        rw [hents, List.find?_append]
        by_cases hd : (d.id == id) = true
        · have hdv : d.id = id := by simpa using hd
          have : o.versions.find? (·.id == id) = none := by
            apply List.find?_eq_none.mpr
            intro v hv
            have := h3 v hv
            simp; omega
          simp [hd, this]
        · simp only [hd, Bool.false_eq_true, if_false]
          cases hfv : o.versions.find? (·.id == id) with
          | some v => simp
          | none => simp [List.find?, hd]
      rw [hE] at hfind
      simp only [h1, hne, if_false]
      by_cases hd : (d.id == id) = true
      · simp only [hd, if_true] at hfind ⊢
        cases h : (entriesOf vb k).find? (·.id == id) with
        | none => rw [h] at hfind; simp at hfind
        | some e =>
          rw [h] at hfind
          simp only [Option.map_some, Option.some.injEq, vproj, eproj, Prod.mk.injEq] at hfind
          obtain ⟨_, hmk, hbody⟩ := hfind
          simp [hmk, hbody]
      · simp only [hd, Bool.false_eq_true, if_false] at hfind ⊢
        cases hfv : o.versions.find? (·.id == id) with
        | none =>
          rw [hfv] at hfind
          have : (entriesOf vb k).find? (·.id == id) = none := by
            cases h : (entriesOf vb k).find? (·.id == id) with
            | none => rfl
            | some _ => rw [h] at hfind; simp at hfind
          simp [this]
        | some v =>
          rw [hfv] at hfind
          cases h : (entriesOf vb k).find? (·.id == id) with
          | none => rw [h] at hfind; simp at hfind
          | some e =>
            rw [h] at hfind
            simp only [Option.map_some, Option.some.injEq, vproj, eproj, Prod.mk.injEq] at hfind
            obtain ⟨_, hmk, hbody⟩ := hfind
            simp [hmk, hbody]

/-! ### whole histories -/

/-- store and specification run side by side; the specification is told the id the store draws -/
def run (md5 : Bytes → Bytes) (b : Bytes) : Mem → VBucket → List HOp → Mem × VBucket
  | m, vb, [] => (m, vb)
  | m, vb, op :: ops => run md5 b (mstep md5 b m op) (sstep (m.nextVer + 1) vb op) ops

/-- no upload and no plain delete while versioning is Suspended (the case of known finding D5) -/
def Allowed (md5 : Bytes → Bytes) (b : Bytes) : Mem → VBucket → List HOp → Prop
  | _, _, [] => True
  | m, vb, op :: ops => (op.isWrite = true → vb.status ≠ .suspended) ∧
      Allowed md5 b (mstep md5 b m op) (sstep (m.nextVer + 1) vb op) ops

def Allowed.dec (md5 : Bytes → Bytes) (b : Bytes) : ∀ m vb ops, Decidable (Allowed md5 b m vb ops)
  | _, _, [] => .isTrue trivial
  | m, vb, op :: ops =>
    have := Allowed.dec md5 b (mstep md5 b m op) (sstep (m.nextVer + 1) vb op) ops
    by unfold Allowed; exact inferInstance
instance (md5 : Bytes → Bytes) (b : Bytes) (m : Mem) (vb : VBucket) (ops : List HOp) :
    Decidable (Allowed md5 b m vb ops) := Allowed.dec md5 b m vb ops

/-- **versions_run_refines**: from related states (in particular a freshly created bucket), after
    EVERY finite sequence of uploads, plain deletes, deletes of a specific version and versioning
    changes without a write while Suspended, the store and the specification are related again —
    hence (reads_agree) every unqualified read and every read by id, of every key, answers exactly
    as the specification of C05 says: the newest remaining version or NoSuchKey, each remaining
    version under its own id with its own bytes, NoSuchVersion for a removed one. -/
theorem versions_run_refines (md5 : Bytes → Bytes) (b : Bytes) (ops : List HOp) :
    ∀ (m : Mem) (vb : VBucket), MInv m → MRel m b vb → Allowed md5 b m vb ops →
      MInv (run md5 b m vb ops).1 ∧ MRel (run md5 b m vb ops).1 b (run md5 b m vb ops).2 := by
  induction ops with
  | nil => intro m vb hm hr _; exact ⟨hm, hr⟩
  | cons op ops ih =>
    intro m vb hm hr ha
    obtain ⟨h1, h2⟩ := step_refines md5 m b vb op hm hr ha.1
    exact ih _ _ h1 h2 ha.2

/-- the corollary in the words of the property -/
theorem versions_reads_exact (md5 : Bytes → Bytes) (b : Bytes) (ops : List HOp) (m : Mem) (vb : VBucket)
    (hm : MInv m) (hr : MRel m b vb) (ha : Allowed md5 b m vb ops) (k : Key) :
    obsGet (run md5 b m vb ops).1 b k = Spec.Versions.get (run md5 b m vb ops).2 k ∧
    ∀ id, obsGetVersion (run md5 b m vb ops).1 b k id = Spec.Versions.getVersion (run md5 b m vb ops).2 k id := by
  obtain ⟨h1, h2⟩ := versions_run_refines md5 b ops m vb hm hr ha
  exact reads_agree _ b _ h1 h2 k

/-- a freshly created bucket is related to the specification's empty, never-versioned bucket -/
theorem fresh_bucket_related (m : Mem) (b : Bytes) (h : SMap.find m.buckets b = none) :
    MRel (m.createBucket b).1 b ⟨.never, []⟩ := by
  unfold Mem.createBucket
  simp only [h, Option.isSome_none, Bool.false_eq_true, if_false]
  refine ⟨⟨.none, []⟩, SMap.find_insert_self _ _ _, ⟨rfl, ?_, ?_, ?_⟩⟩
  · intro k; simp [ents, entriesOf]
  · intro _ k o ho; simp at ho
  · intro _ k e he; simp [entriesOf] at he

/-- every upload draws an id above every id stored so far: ids are fresh and unique -/
theorem upload_id_fresh (md5 : Bytes → Bytes) (m : Mem) (b : Bytes) (bk : Bucket) (k k' : Key) (md : Meta) (body : Bytes)
    (hm : MInv m) (hb : SMap.find m.buckets b = some bk) :
    (∀ v ∈ ents bk k', v.id < m.nextVer + 1) ∧ (m.put md5 b k md body).1.nextVer = m.nextVer + 1 := by
  constructor
  · intro v hv
    unfold ents at hv
    cases hf : SMap.find bk.objects k' with
    | none => simp [hf] at hv
    | some o =>
      obtain ⟨d, h1, h2, h3, h4⟩ := objB_of m b bk hm hb k' o hf
      simp only [hf, h1, Option.toList, List.mem_append, List.mem_singleton] at hv
      rcases hv with hv | hv
      · have := h3 v hv; omega
      · subst hv; omega
  · simp [Mem.put, Mem.putCommit, hb]

/-! Non-vacuity: create, enable, put, put, delete, delete the marker, suspend, delete version 1,
    re-enable, put — an allowed history; the specification and the store agree on every read. -/
def exOps : List HOp :=
  [.setV true, .put [107] [] [1], .put [107] [] [2], .del [107], .delVer [107] 3, .setV false,
   .delVer [107] 1, .setV true, .put [107] [] [4]]
def exM : Mem := (Mem.empty.createBucket [98]).1
example : Allowed id [98] exM ⟨.never, []⟩ exOps := by decide
example : obsGet (run id [98] exM ⟨.never, []⟩ exOps).1 [98] [107] = .ok [4] ∧
    obsGetVersion (run id [98] exM ⟨.never, []⟩ exOps).1 [98] [107] 2 = .ok (some [2]) ∧
    obsGetVersion (run id [98] exM ⟨.never, []⟩ exOps).1 [98] [107] 1 = .err .NoSuchVersion ∧
    Spec.Versions.get (run id [98] exM ⟨.never, []⟩ exOps).2 [107] = .ok [4] := by decide

end GFS.Props.C05R
