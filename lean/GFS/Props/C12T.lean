import GFS.Props.C12F
set_option linter.unusedSimpArgs false
set_option linter.unusedVariables false
/-
  C12, second sentence: a stream whose framing breaks off is rejected.  For EVERY proper prefix of
  a well-formed aws-chunked stream (data chunks + terminating zero-size chunk), every
  fragmentation and every sequence of buffer sizes, the decoder (after fix aac976c) never reports a
  clean end of stream: the completeness flag cannot become true before the terminating chunk has
  been read to its end, so `Read` turns the transport's EOF into an incomplete body.
-/
namespace GFS.Props.C12T
open GFS GFS.Model.Chunk GFS.Spec.ChunkSpec GFS.Props.C12 GFS.Props.C12F

/-- data chunks are non-empty, the last chunk is the zero-size one -/
def Strm (rem : List Chunk) : Prop := EndsZero rem ∧ ∀ c ∈ rem.dropLast, c.payload ≠ []

theorem strm_tail (c : Chunk) (r : List Chunk) (h : Strm (c :: r)) : Strm r := by
  cases r with
  | nil => exact ⟨endsZero_nil, by simp⟩
  | cons y ys =>
    refine ⟨endsZero_tail c (y :: ys) h.1 (by simp), ?_⟩
    intro x hx
    apply h.2 x
    simp only [List.dropLast_cons_cons]
    exact List.mem_cons_of_mem _ hx

theorem strm_head_nonempty (c : Chunk) (r : List Chunk) (h : Strm (c :: r)) (hr : r ≠ []) : c.payload ≠ [] := by
  apply h.2 c
  cases r with
  | nil => exact absurd rfl hr
  | cons y ys => simp

theorem strm_last_empty (c : Chunk) (h : Strm [c]) : c.payload = [] := endsZero_single c h.1

/-- a size field cut before its ';' is a scan error (or, cut before its first digit, the end) -/
theorem scan_cut_header (ds : Bytes) (hall : ds.all isHex = true) :
    scanHexSemi ds = .eof ∨ scanHexSemi ds = .err := by
  cases ds with
  | nil => left; simp [scanHexSemi, skipScanSpace]
  | cons d ds' =>
    right
    have hd : isHex d = true := by simp only [List.all_cons, Bool.and_eq_true] at hall; exact hall.1
    obtain ⟨p1, p2, p3, p4, p5, p6⟩ := isHex_props d hd
    have hsd : ∀ (l : Bytes) (acc : Nat), l.all isHex = true → (scanDigits l acc).2 = [] := by
      intro l
      induction l with
      | nil => intro acc _; rfl
      | cons x xs ih =>
        intro acc h
        simp only [List.all_cons, Bool.and_eq_true] at h
        simp only [scanDigits, h.1, if_true]
        exact ih _ h.2
    unfold scanHexSemi
    simp only [skipScanSpace, p1, Bool.false_eq_true, if_false]
    simp only [p2, p3, p4, p5, if_false, Bool.false_eq_true, hd, Bool.not_true]
    have := hsd (d :: ds') 0 hall
    cases hsc : scanDigits (d :: ds') 0 with
    | mk v rest =>
      rw [hsc] at this
      simp only at this
      subst this
      simp only
      split <;> rfl


/-- what the header scanner does on an input that is a proper prefix of `size ';' rest` -/
theorem scan_prefix (ds X inp1 t : Bytes) (hne : ds ≠ []) (hall : ds.all isHex = true)
    (hv : hexValue ds ≤ 9223372036854775807) (h : ds ++ 59 :: X = inp1 ++ t) :
    (scanHexSemi inp1 = .eof ∨ scanHexSemi inp1 = .err) ∨
    (∃ X', inp1 = ds ++ 59 :: X' ∧ X = X' ++ t ∧ scanHexSemi inp1 = .ok (hexValue ds) X') := by
  rcases List.append_eq_append_iff.mp h with ⟨a', h1, h2⟩ | ⟨c', h1, h2⟩
  · cases a' with
    | nil =>
      left
      simp only [List.append_nil] at h1
      rw [h1]; exact scan_cut_header ds hall
    | cons y ys =>
      right
      simp only [List.cons_append, List.cons.injEq] at h2
      obtain ⟨hy, hX⟩ := h2
      subst hy
      refine ⟨ys, h1, hX, ?_⟩
      rw [h1]; exact scan_wellformed_header ds ys hne hall hv
  · left
    have : inp1.all isHex = true := by
      rw [h1, List.all_append, Bool.and_eq_true] at hall
      exact hall.1
    exact scan_cut_header inp1 this

/-! ### the truncation invariant: the input is a proper prefix of what a well-formed stream still holds -/

def THdr (st : St) (inp : Bytes) : Prop :=
  ∃ tr rem t, st.remain = 0 ∧ (if st.notFirst then tr.length = 2 else tr = []) ∧ (∀ c ∈ rem, c.WF) ∧ Strm rem ∧
    st.complete = false ∧ (st.notFirst = true → rem ≠ [] → st.last ≠ 0) ∧ t ≠ [] ∧ tr ++ enc rem = inp ++ t

def TData (st : St) (inp : Bytes) : Prop :=
  ∃ p tr rem L t, p ≠ [] ∧ st = ⟨p.length, true, L, false⟩ ∧ tr.length = 2 ∧ (∀ c ∈ rem, c.WF) ∧ rem ≠ [] ∧ Strm rem ∧
    L ≠ 0 ∧ t ≠ [] ∧ p ++ (tr ++ enc rem) = inp ++ t

def TInv (st : St) (inp : Bytes) : Prop := THdr st inp ∨ TData st inp

theorem tinv_complete (st : St) (inp : Bytes) (h : TInv st inp) : st.complete = false := by
  rcases h with ⟨_, _, _, _, _, _, _, hc, _⟩ | ⟨p, _, _, L, _, _, hst, _⟩
  · exact hc
  · rw [hst]

/-- the state after a chunk header has been read, for a truncated stream -/
theorem thdr_next (c : Chunk) (rem' : List Chunk) (hwfc : c.WF) (hwf' : ∀ x ∈ rem', x.WF) (hs : Strm (c :: rem'))
    (inp3 t : Bytes) (ht : t ≠ []) (h : c.payload ++ (c.trailer ++ enc rem') = inp3 ++ t) :
    TInv ⟨(hexValue c.digits : Int), true, (hexValue c.digits : Int), false⟩ inp3 := by
  obtain ⟨hne, hall, hval, hmax, hext, htrl⟩ := hwfc
  by_cases hpe : c.payload = []
  · left
    refine ⟨c.trailer, rem', t, by simp [hval, hpe], by simp [htrl], hwf', strm_tail c rem' hs, rfl, ?_, ht, ?_⟩
    · intro _ hr
      exact absurd hpe (strm_head_nonempty c rem' hs hr)
    · simpa [hpe] using h
  · right
    have hr0 : rem' ≠ [] := by
      intro e; subst e; exact hpe (strm_last_empty c hs)
    refine ⟨c.payload, c.trailer, rem', (hexValue c.digits : Int), t, hpe, by simp [hval], htrl, hwf', hr0, strm_tail c rem' hs, ?_, ht, h⟩
    rw [hval]
    have : 0 < c.payload.length := List.length_pos_iff.mpr hpe
    omega


/-- one `read` on a truncated stream: the completeness flag stays false, and if no error is
    reported the input is still a proper prefix of the rest of the well-formed stream -/
theorem tread (cfg : Cfg) (fuel : Nat) :
    ∀ (st : St) (inp : Bytes) (want : Nat) (acc : Bytes), TInv st inp →
      (GFS.Model.Chunk.read cfg fuel st inp want acc).st.complete = false ∧
      ((GFS.Model.Chunk.read cfg fuel st inp want acc).err = none →
        TInv (GFS.Model.Chunk.read cfg fuel st inp want acc).st (GFS.Model.Chunk.read cfg fuel st inp want acc).input) := by
  induction fuel with
  | zero =>
    intro st inp want acc h
    simp only [GFS.Model.Chunk.read]
    exact ⟨tinv_complete st inp h, fun _ => h⟩
  | succ fuel ih =>
    intro st inp want acc h
    unfold GFS.Model.Chunk.read
    by_cases hw : want = 0
    · simp only [hw, if_true]
      exact ⟨tinv_complete st inp h, fun _ => h⟩
    · simp only [hw, if_false]
      rcases h with ⟨tr, rem, t, hr, htr, hwf, hs, hcf, hlast, ht, heq⟩ | ⟨p, tr, rem, L, t, hp, hst, htr, hwf, hrne, hs, hL, ht, heq⟩
      · -- header branch
        have hr' : ¬ st.remain > 0 := by omega
        simp only [hr', if_false]
        -- what is left after the trailer of the previous chunk
        have hat : (∃ inp1, (if st.notFirst = true then skip 2 inp else some inp) = some inp1 ∧ enc rem = inp1 ++ t) ∨
                   (if st.notFirst = true then skip 2 inp else some inp) = none := by
          by_cases hn : st.notFirst = true
          · simp only [hn, if_true] at htr ⊢
            unfold skip
            by_cases hl : 2 ≤ inp.length
            · left
              simp only [hl, if_true]
              refine ⟨inp.drop 2, rfl, ?_⟩
              have := congrArg (List.drop 2) heq
              rw [List.drop_append_of_le_length (by omega), List.drop_append_of_le_length hl] at this
              have htd : tr.drop 2 = [] := by
                apply List.drop_eq_nil_of_le; omega
              rw [htd] at this
              simpa using this
            · right; simp [hl]
          · left
            simp only [hn, if_false] at htr ⊢
            exact ⟨inp, rfl, by rw [htr] at heq; simpa using heq⟩
        rcases hat with ⟨inp1, hat1, henc1⟩ | hnone
        · rw [hat1]
          simp only
          cases rem with
          | nil =>
            exfalso
            simp only [enc, List.map_nil, List.flatten_nil] at henc1
            have := congrArg List.length henc1
            simp only [List.length_nil, List.length_append] at this
            have : 0 < t.length := List.length_pos_iff.mpr ht
            omega
          | cons c rem' =>
            have hst1 : (if st.notFirst = true then ({ st with complete := st.last == 0 } : St) else st).complete = false := by
              by_cases hn : st.notFirst = true
              · simp only [hn, if_true]
                have := hlast hn (by simp)
                simpa using this
              · simp only [hn, if_false]; exact hcf
            obtain ⟨hne, hall, hval, hmax, hext, htrl⟩ := hwf c (List.mem_cons_self ..)
            have henc : enc (c :: rem') = c.digits ++ 59 :: (c.ext ++ (c.payload ++ (c.trailer ++ enc rem'))) := by
              simp [enc, encodeChunk, List.append_assoc]
            rw [henc] at henc1
            rcases scan_prefix c.digits _ inp1 t hne hall (by rw [hval]; exact hmax) henc1 with (he | he) | ⟨X', hX1, hX2, hscan⟩
            · rw [he]; exact ⟨hst1, fun h => by simp at h⟩
            · rw [he]; exact ⟨hst1, fun h => by simp at h⟩
            · rw [hscan]
              simp only
              unfold skip
              by_cases hl : 82 ≤ X'.length
              · simp only [hl, if_true]
                apply ih
                have hwf' : ∀ x ∈ rem', x.WF := fun x hx => hwf x (List.mem_cons_of_mem _ hx)
                apply thdr_next c rem' (hwf c (List.mem_cons_self ..)) hwf' hs (X'.drop 82) t ht
                have := congrArg (List.drop 82) hX2
                rw [List.drop_append_of_le_length (by omega), List.drop_append_of_le_length hl] at this
                have hed : c.ext.drop 82 = [] := by apply List.drop_eq_nil_of_le; omega
                rw [hed] at this
                simpa using this
              · simp only [hl, if_false]
                exact ⟨trivial, fun h => by simp at h⟩
        · rw [hnone]
          exact ⟨by simpa using hcf, fun h => by simp at h⟩
      · -- data branch
        subst hst
        have hpos : (p.length : Int) > 0 := by
          have : 0 < p.length := List.length_pos_iff.mpr hp
          omega
        simp only [hpos, if_true]
        cases inp with
        | nil => exact ⟨rfl, fun h => by simp at h⟩
        | cons x xs =>
          simp only
          generalize hk : (if (p.length : Int) > want then want else (p.length : Int).toNat) = k
          have hkp : k ≤ p.length := by
            rw [← hk]; split <;> omega
          generalize hn : readLen cfg.cut (x :: xs).length k = n
          have hnk : n ≤ k := by rw [← hn]; exact (readLen_le _ _ _).1
          have hni : n ≤ (x :: xs).length := by rw [← hn]; exact (readLen_le _ _ _).2
          have hnp : n ≤ p.length := by omega
          by_cases hre : (((x :: xs).drop n).isEmpty && cfg.endWithData) = true
          · simp only [hre, if_true]
            exact ⟨trivial, fun h => by simp at h⟩
          · simp only [hre, Bool.false_eq_true, if_false]
            apply ih
            -- the rest is still a proper prefix of the rest of the stream
            have hdrop : p.drop n ++ (tr ++ enc rem) = (x :: xs).drop n ++ t := by
              have := congrArg (List.drop n) heq
              rwa [List.drop_append_of_le_length hnp, List.drop_append_of_le_length hni] at this
            by_cases hfin : n = p.length
            · left
              refine ⟨tr, rem, t, by simp [hfin], by simp [htr], hwf, hs, rfl, fun _ _ => hL, ht, ?_⟩
              rw [hfin, List.drop_length] at hdrop
              rw [hfin]; simpa using hdrop
            · right
              refine ⟨p.drop n, tr, rem, L, t, ?_, ?_, htr, hwf, hrne, hs, hL, ht, hdrop⟩
              · intro he
                have := congrArg List.length he
                simp at this; omega
              · simp only [List.length_drop]
                congr 1
                omega


/-- `Read` (the loop plus the completeness check) on a truncated stream never ends with a clean EOF -/
theorem treadF (cfg : Cfg) (fuel : Nat) (st : St) (inp : Bytes) (want : Nat) (acc : Bytes) (h : TInv st inp) :
    (readF cfg fuel st inp want acc).err ≠ some .eof ∧
    ((readF cfg fuel st inp want acc).err = none →
      TInv (readF cfg fuel st inp want acc).st (readF cfg fuel st inp want acc).input) := by
  obtain ⟨h1, h2⟩ := tread cfg fuel st inp want acc h
  unfold readF
  simp only
  by_cases hc : (GFS.Model.Chunk.read cfg fuel st inp want acc).err = some .eof ∧
      (GFS.Model.Chunk.read cfg fuel st inp want acc).st.complete = false
  · simp only [hc, and_self, if_true]
    exact ⟨by simp, fun h => by simp at h⟩
  · simp only [hc, if_false]
    refine ⟨?_, h2⟩
    intro he
    exact hc ⟨he, h1⟩

theorem tconsume (cfg : Cfg) (bufs : List Nat) : ∀ (st : St) (inp acc : Bytes), TInv st inp →
    (consume cfg bufs st inp acc).2.1 ≠ some .eof := by
  induction bufs with
  | nil => intro st inp acc _; simp [consume]
  | cons b bs ih =>
    intro st inp acc h
    obtain ⟨h1, h2⟩ := treadF cfg (inp.length + 2) st inp b [] h
    simp only [consume]
    cases he : (readF cfg (inp.length + 2) st inp b []).err with
    | some e =>
      simp only
      intro hx
      rw [he] at h1
      exact h1 (by simpa using hx)
    | none =>
      simp only
      exact ih _ _ _ (h2 he)

/-- **truncated_stream_rejected** (C12, "a stream whose framing is malformed … is rejected"):
    take any well-formed aws-chunked stream — data chunks with non-empty payloads and the
    terminating zero-size chunk — and cut it ANYWHERE before its end (`inp` is a proper prefix).
    Then for every fragmentation, every sequence of buffer sizes and every way the transport
    ends, the decoder never reports a clean end of stream: whatever length the client declared,
    the upload is refused (incomplete body, a header scan error or the transport's own error). -/
theorem truncated_stream_rejected (cfg : Cfg) (cs : List Chunk) (final : Chunk) (hwf : StreamWF cs final)
    (inp t : Bytes) (ht : t ≠ []) (hcut : encode cs final = inp ++ t) (bufs : List Nat) :
    (decode cfg bufs inp).2.1 ≠ some .eof := by
  unfold decode
  apply tconsume
  left
  refine ⟨[], cs ++ [final], t, rfl, by simp [St.init], ?_, ⟨?_, ?_⟩, rfl, ?_, ht, ?_⟩
  · intro c hc
    rcases List.mem_append.mp hc with h | h
    · exact (hwf.1 c h).1
    · simp at h; subst h; exact hwf.2.1
  · intro c hc
    simp at hc; subst hc; exact hwf.2.2
  · intro c hc
    simp only [List.dropLast_concat] at hc
    exact (hwf.1 c hc).2
  · intro hn; simp [St.init] at hn
  · simpa [encode, enc] using hcut

/-! Non-vacuity: the stream of C12F's example ("3;"+ext+"abc"+CRLF, "0;"+ext+CRLF) cut one byte
    before its end, read into 2-byte buffers over an EOF transport: an incomplete body. -/
example : StreamWF [⟨[51], exExt, [97, 98, 99], [13, 10]⟩] ⟨[48], exExt, [], [13, 10]⟩ := by decide
set_option maxRecDepth 100000 in
example : decode ⟨fun _ => false, .eof, false⟩ [2, 2, 2, 2]
    ((encode [⟨[51], exExt, [97, 98, 99], [13, 10]⟩] ⟨[48], exExt, [], [13, 10]⟩).dropLast) = ([97, 98, 99], some .short, false) := by
  decide +kernel
set_option maxRecDepth 100000 in
example : decode ⟨fun _ => false, .eof, false⟩ [2, 2, 2, 2]
    (encode [⟨[51], exExt, [97, 98, 99], [13, 10]⟩] ⟨[48], exExt, [], [13, 10]⟩) = ([97, 98, 99], some .eof, false) := by
  decide +kernel

end GFS.Props.C12T
