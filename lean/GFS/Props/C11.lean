import GFS.Spec.RangeSpec
import GFS.Model.RangeHeader
/-
  C11 — range reads return exactly the requested bytes or InvalidRange.
  Property theorems only (no helper library here beyond local lemmas that are
  themselves about the modelled functions).
-/
namespace GFS.Props.C11
open GFS GFS.Model GFS.Spec

/-- closes goals that are if-chains over wrapped int64 arithmetic -/
macro "i64_cases" : tactic =>
  `(tactic| (
    repeat' split
    all_goals try dsimp only at *
    all_goals simp only [Option.map, Option.some.injEq, Prod.mk.injEq, reduceCtorEq, true_and, and_true]
    all_goals first | omega | (exfalso; omega)))

/-- requests the header parser can produce: `first ≥ 0`, and `last ≥ first` or the
    open form; the suffix form with any int64 -/
def ParserReq (o : RangeReq) : Prop :=
  InI64 o.start ∧ InI64 o.«end» ∧
  (o.fromEnd = false → 0 ≤ o.start ∧ (o.«end» = RangeNoEnd ∨ o.start ≤ o.«end»))

/-- **range_eq_clip**: for every object size 0 ≤ size < 2^63 and every request the
    parser can produce (all of int64, including 2^63-1), the code's arithmetic
    yields exactly the clipped interval as (start,length), and InvalidRange exactly
    when the specification says so. -/
theorem range_eq_clip (size : Int) (o : RangeReq)
    (hs : 0 ≤ size ∧ size ≤ I64.max) (hp : ParserReq o) :
    range size o = clipSL size o := by
  obtain ⟨s, e, f⟩ := o
  obtain ⟨hs0, hs1⟩ := hs
  obtain ⟨⟨a1, a2⟩, ⟨b1, b2⟩, hf⟩ := hp
  unfold I64.max at hs1
  simp only at a1 a2 b1 b2 hf
  cases f
  · obtain ⟨h0, h1⟩ := hf rfl
    simp only [RangeNoEnd] at h1
    simp only [range, clipSL, clip, RangeNoEnd, addW, subW, Bool.not_false, if_true, beq_iff_eq,
      Bool.false_eq_true, if_false, wrap]
    i64_cases
  · simp only [range, clipSL, clip, RangeNoEnd, addW, subW, Bool.not_true, beq_iff_eq,
      Bool.false_eq_true, if_false, if_true, wrap]
    i64_cases

/-- **range_safe**: for every request whose explicit end is not below -1 (the parser
    never produces one; the Go API could), an accepted range lies inside the object:
    `0 ≤ start`, `0 ≤ length`, `start + length ≤ size`.  Hence the slice expression of the
    memory and bolt backends cannot panic and the seek of the fs backends is in bounds. -/
theorem range_safe (size : Int) (o : RangeReq) (hs : 0 ≤ size ∧ size ≤ I64.max)
    (ho : InI64 o.start ∧ InI64 o.«end» ∧ (o.fromEnd = false → -1 ≤ o.«end»)) (s l : Int)
    (h : range size o = some (s, l)) :
    0 ≤ s ∧ 0 ≤ l ∧ s + l ≤ size ∧ s < size := by
  obtain ⟨st, e, f⟩ := o
  obtain ⟨hs0, hs1⟩ := hs
  obtain ⟨⟨a1, a2⟩, ⟨b1, b2⟩, hf⟩ := ho
  unfold I64.max at hs1
  simp only at a1 a2 b1 b2 hf
  revert h
  cases f
  · have hf' := hf rfl
    simp only [range, RangeNoEnd, addW, subW, Bool.not_false, if_true, beq_iff_eq,
      Bool.false_eq_true, if_false, wrap]
    (repeat' split) <;> (try dsimp only at *) <;>
    simp only [Option.some.injEq, Prod.mk.injEq, reduceCtorEq, false_imp_iff] <;>
    (try (intro ⟨h1, h2⟩; omega))
  · simp only [range, RangeNoEnd, addW, subW, Bool.not_true, if_true, beq_iff_eq,
      Bool.false_eq_true, if_false, wrap]
    (repeat' split) <;> (try dsimp only at *) <;>
    simp only [Option.some.injEq, Prod.mk.injEq, reduceCtorEq, false_imp_iff] <;>
    (try (intro ⟨h1, h2⟩; omega))

/-- the guard of `range_safe` is needed: through the Go API (never through a header) an
    explicit end below -1 can produce a range outside the object. Recorded, not judged by C11. -/
theorem range_api_negative_end_counterexample :
    range 10 ⟨2, -9223372036854775808, false⟩ = some (2, 9223372036854775807) := by decide

/-- the bytes at inclusive offsets `first..last` of `data` -/
def bytesOf (data : Bytes) (first last : Int) : Bytes :=
  (data.drop first.toNat).take (last - first + 1).toNat

/-- **slice_exact**: with an accepted (start,length) the Go slice expression of the
    memory/bolt backends does not panic and yields exactly the bytes `start..start+length-1`;
    the Seek+LimitReader extraction of the fs backends yields the same bytes (backends agree). -/
theorem slice_exact (data : Bytes) (s l : Int) (hd : (data.length : Int) ≤ I64.max)
    (h : 0 ≤ s ∧ 0 ≤ l ∧ s + l ≤ data.length) :
    sliceGo data s l = some (bytesOf data s (s + l - 1)) ∧
    seekLimit data s l = bytesOf data s (s + l - 1) := by
  obtain ⟨h0, h1, h2⟩ := h
  unfold I64.max at hd
  have hw : wrap (s + l) = s + l := by unfold wrap; omega
  have e1 : s + l - s = l := by omega
  have e2 : s + l - 1 - s + 1 = l := by omega
  constructor
  · unfold sliceGo bytesOf addW
    simp only [hw, e1, e2]
    have : 0 ≤ s ∧ s ≤ s + l ∧ s + l ≤ ↑data.length := by omega
    simp [this]
  · unfold seekLimit bytesOf
    simp only [e2]

/-- the length of an extracted range is exactly `length` (Content-Length = bytes sent) -/
theorem slice_length (data : Bytes) (s l : Int)
    (h : 0 ≤ s ∧ 0 ≤ l ∧ s + l ≤ data.length) :
    ((bytesOf data s (s + l - 1)).length : Int) = l := by
  obtain ⟨h0, h1, h2⟩ := h
  unfold bytesOf
  have e2 : s + l - 1 - s + 1 = l := by omega
  simp only [e2, List.length_take, List.length_drop]
  omega

/-- `ObjectRange.writeHeader`: Content-Range "bytes first-last/size", Content-Length -/
def writeHeader (sz : Int) (r : Option (Int × Int)) : Option (Int × Int × Int) × Int :=
  match r with
  | some (s, l) => (some (s, subW (addW s l) 1, sz), l)
  | none => (none, sz)

/-- **content_range_exact**: the Content-Range announced for an accepted request is
    exactly the clipped interval of the specification and Content-Length its byte count. -/
theorem content_range_exact (size : Int) (o : RangeReq)
    (hs : 0 ≤ size ∧ size ≤ I64.max) (hp : ParserReq o) (f l : Int)
    (hc : clip size o = some (f, l)) :
    writeHeader size (range size o) = (some (f, l, size), l - f + 1) := by
  have hr := range_eq_clip size o hs hp
  have hsafe := range_safe size o hs ⟨hp.1, hp.2.1, fun hf => by
    have := hp.2.2 hf; unfold RangeNoEnd at this; omega⟩ f (l - f + 1)
  simp only [clipSL, hc, Option.map] at hr
  have := hsafe hr
  rw [hr]
  unfold I64.max at hs
  simp only [writeHeader, addW, subW, wrap, Prod.mk.injEq, Option.some.injEq, and_true, true_and]
  omega

/-- every value `parseInt64` accepts is an int64 -/
theorem applySign_in (neg : Bool) (m : Nat) (n : Int) (h : applySign neg m = some n) : InI64 n := by
  unfold applySign at h
  split at h <;> split at h <;> simp only [Option.some.injEq, reduceCtorEq] at h
  all_goals (subst h; unfold InI64; omega)
theorem parseInt64_in (s : Bytes) (n : Int) (h : parseInt64 s = some n) : InI64 n := by
  unfold parseInt64 at h
  split at h
  · simp at h
  · split at h
    · obtain ⟨m, _, hm⟩ := Option.bind_eq_some_iff.mp h
      exact applySign_in _ _ _ hm
    · split at h <;>
      (obtain ⟨m, _, hm⟩ := Option.bind_eq_some_iff.mp h
       exact applySign_in _ _ _ hm)

/-- **parse_gives_parserReq**: whatever the header text, a request the parser accepts
    satisfies the hypothesis of `range_eq_clip`; so the two compose for every header. -/
theorem parse_gives_parserReq (h : Bytes) (o : RangeReq)
    (hp : parseRangeHeader h = .ok (some o)) : ParserReq o := by
  unfold parseRangeHeader at hp
  split at hp
  · simp at hp
  split at hp
  · simp at hp
  dsimp only at hp
  split at hp
  · simp at hp
  split at hp
  · simp at hp
  split at hp
  · simp at hp
  split at hp
  · split at hp
    · simp at hp
    · rename_i n hn
      simp only [Res.ok.injEq, Option.some.injEq] at hp; subst hp
      have := parseInt64_in _ _ hn
      refine ⟨?_, this, ?_⟩
      · unfold InI64; simp
      · simp
  · split at hp
    · simp at hp
    · rename_i st hst
      split at hp
      · simp at hp
      split at hp
      · split at hp
        · simp at hp
        · rename_i en hen
          split at hp
          · simp at hp
          · simp only [Res.ok.injEq, Option.some.injEq] at hp; subst hp
            refine ⟨parseInt64_in _ _ hst, parseInt64_in _ _ hen, ?_⟩
            intro _; exact ⟨by simp only; omega, Or.inr (by simp only; omega)⟩
      · simp only [Res.ok.injEq, Option.some.injEq] at hp; subst hp
        refine ⟨parseInt64_in _ _ hst, ?_, ?_⟩
        · unfold InI64 RangeNoEnd; simp
        · intro _; exact ⟨by simp only; omega, Or.inl rfl⟩

/-- **header_end_to_end**: for every Range header text and every object, the
    (start,length) handed to the backend is the specification's clipped interval of the
    parsed request — the composition of the two theorems above. -/
theorem header_end_to_end (h : Bytes) (o : RangeReq) (size : Int)
    (hs : 0 ≤ size ∧ size ≤ I64.max) (hp : parseRangeHeader h = .ok (some o)) :
    range size o = clipSL size o :=
  range_eq_clip size o hs (parse_gives_parserReq h o hp)

/-! Non-vacuity: concrete requests meeting the hypotheses, including the int64 boundary. -/
example : ParserReq ⟨2, 9223372036854775807, false⟩ := by
  unfold ParserReq InI64 RangeNoEnd; simp
example : range 10 ⟨2, 9223372036854775807, false⟩ = some (2, 8) := by decide
example : range 10 ⟨0, 9223372036854775807, false⟩ = some (0, 10) := by decide
example : range 10 ⟨0, 3, true⟩ = some (7, 3) := by decide
example : range 10 ⟨0, 11, true⟩ = none := by decide
example : range 0 ⟨0, -1, false⟩ = none := by decide
example : parseRangeHeader ([98, 121, 116, 101, 115, 61, 32, 50, 32, 45, 32, 53, 32] : Bytes)  -- "bytes= 2 - 5 "
     = .ok (some ⟨2, 5, false⟩) := by decide
example : parseRangeHeader ([98, 121, 116, 101, 115, 61, 49, 45, 50, 44, 52, 45, 53] : Bytes)  -- "bytes=1-2,4-5"
     = .err .NotImplemented := by decide

end GFS.Props.C11
