import GFS.Props.C02R
import GFS.Model.Front
set_option linter.unusedSimpArgs false
set_option linter.unusedVariables false
/-
  C02 at handler level: the gofakes3.go handlers (ensureBucketExists with and without
  auto-created buckets, key-length and bucket-name checks, copy = HEAD + GET + PUT, multi-delete)
  over the backend model refine the reference model, operation by operation and over sequences.
-/
namespace GFS.Props.C02F
open GFS GFS.Model GFS.SMapL GFS.Spec.S3 GFS.Props.C02R

/-- what the reference model sees of a handler's answer -/
def outAns : Out → Ans
  | .ok => .ok
  | .err c => .err c
  | .object body _ _ _ => .object body
  | .stored _ _ => .ok
  | .deleted _ _ => .ok
  | .multiDeleted _ => .ok
  | .copied _ _ => .ok
  | .buckets ns => .buckets ns
  | _ => .err .Internal

/-- the handler an operation of C02's alphabet is routed to (`md` = the request's headers) -/
def frontStep (md5 : Bytes → Bytes) (cfg : Cfg) (md : Meta) (m : Mem) : Op → Mem × Out
  | .createBucket b => Front.createBucket m b
  | .headBucket b => Front.headBucket cfg m b
  | .deleteBucket b => Front.deleteBucket cfg m b false
  | .listBuckets => Front.listBuckets m
  | .put b k body => Front.putObject md5 cfg m b k md body
  | .get b k => Front.getObject cfg m b k none false
  | .head b k => Front.getObject cfg m b k none true
  | .delete b k => Front.deleteObject cfg m b k
  | .deleteMulti b ks => Front.deleteMulti cfg m b (ks.map (fun k => (k, none)))
  | .copy sb sk db dk => Front.copyObject md5 cfg m sb sk db dk md

/-- the bucket `ensureBucketExists` is called on -/
def bucketOf : Op → Option Bytes
  | .createBucket _ => none
  | .listBuckets => none
  | .headBucket b | .deleteBucket b | .put b _ _ | .get b _ | .head b _ | .delete b _ | .deleteMulti b _ => some b
  | .copy _ _ db _ => some db

/-- the reference behaviour of the HTTP layer: with auto-bucket an absent bucket is created
    first; then the reference model's step -/
def specFront (auto : Bool) (s : Store) (op : Op) : Store × Ans :=
  let s' := match bucketOf op with
    | some b => if auto && !(SMap.find s b).isSome then SMap.insert s b [] else s
    | none => s
  step s' op

/-- requests the handlers refuse for reasons the reference model does not know: bucket names
    that break the naming rules, keys above the length limit -/
def WF : Op → Prop
  | .createBucket b => validateBucketName b = true
  | .put _ k _ => k.length ≤ Front.KeySizeLimit
  | .copy _ _ _ dk => dk.length ≤ Front.KeySizeLimit
  | _ => True

theorem ensure_spec (cfg : Cfg) (m : Mem) (b : Bytes) (h : Plain m)
    (hv : cfg.autoBucket = true → validateBucketName b = true) :
    let r := Front.ensureBucket cfg m b
    let s' := if cfg.autoBucket && !(SMap.find (abs m) b).isSome then SMap.insert (abs m) b [] else abs m
    Plain r.1 ∧
    ((r.2 = .ok () ∧ abs r.1 = s' ∧ r.1.bucketExists b = true) ∨
     (r = (m, .err .NoSuchBucket) ∧ s' = abs m ∧ SMap.find (abs m) b = none)) := by
  have hcases : (∃ bk, SMap.find m.buckets b = some bk) ∨ SMap.find m.buckets b = none := by
    cases hx : SMap.find m.buckets b with
    | none => exact Or.inr rfl
    | some bk => exact Or.inl ⟨bk, rfl⟩
  rcases hcases with ⟨bk, hb⟩ | hb
  · simp [Front.ensureBucket, Mem.bucketExists, abs_find, hb, h]
  · by_cases ha : cfg.autoBucket = true
    · obtain ⟨p1, p2, p3⟩ := createBucket_refines m b h
      simp only [Mem.createBucket, hb, Option.isSome_none, Bool.false_eq_true, if_false] at p1 p2 p3
      simp only [Front.ensureBucket, Mem.bucketExists, abs_find, hb, Option.isSome_none, Bool.false_eq_true, if_false, ha, if_true,
        Mem.createBucket, Option.map_none, Bool.not_false, Bool.and_true, hv ha, Bool.not_true]
      refine ⟨p1, Or.inl ⟨by triv, ?_, ?_⟩⟩
      · rw [p2]; simp [step, abs_find, hb]
      · simp [SMap.find_insert_self]
    · have ha' : cfg.autoBucket = false := by simpa using ha
      simp [Front.ensureBucket, Mem.bucketExists, abs_find, hb, ha', h]

theorem outAns_ofRes_ok {α : Type} (r : Res α) : outAns (Out.ofRes r fun _ => .ok) = ansOf r := by
  cases r <;> rfl

theorem deleteMultiVersions_none (m : Mem) (b : Bytes) (ks : List Key) :
    (m.deleteMultiVersions b (ks.map (fun k => (k, none)))).1 = (m.deleteMulti b ks).1 ∧
    ansOf (m.deleteMultiVersions b (ks.map (fun k => (k, none)))).2 = ansOf (m.deleteMulti b ks).2 := by
  unfold Mem.deleteMultiVersions Mem.deleteMulti
  cases hb : SMap.find m.buckets b with
  | none => exact ⟨rfl, rfl⟩
  | some bk =>
    simp only
    refine ⟨?_, rfl⟩
    generalize m = m0
    induction ks generalizing m0 with
    | nil => rfl
    | cons k ks ih => simp only [List.map_cons, List.foldl_cons]; exact ih _

/-- once the bucket `ensureBucketExists` looks at exists, a handler is the backend model's
    operation (for some metadata the reference model does not see) -/
theorem handler_model (md5 : Bytes → Bytes) (cfg : Cfg) (md : Meta) (m : Mem) (op : Op) (b : Bytes)
    (hb : bucketOf op = some b) (hex : m.bucketExists b = true) (hwf : WF op) (f : Mem → Mem × Out)
    (hf : frontStep md5 cfg md m op = Front.withBucket cfg m b f) :
    ∃ mdX, ((f m).1, outAns (f m).2) = modelStep md5 mdX m op := by
  have hens : ∀ cfg', Front.ensureBucket cfg' m b = (m, .ok ()) := by
    intro cfg'; simp [Front.ensureBucket, hex]
  have hfm : f m = frontStep md5 cfg md m op := by
    rw [hf]; simp [Front.withBucket, hens]
  rw [hfm]
  cases op with
  | createBucket b' => simp [bucketOf] at hb
  | listBuckets => simp [bucketOf] at hb
  | headBucket b' =>
    simp only [bucketOf, Option.some.injEq] at hb; subst hb
    exact ⟨[], by simp [frontStep, Front.headBucket, Front.withBucket, hens, modelStep, hex, outAns]⟩
  | deleteBucket b' =>
    simp only [bucketOf, Option.some.injEq] at hb; subst hb
    refine ⟨[], ?_⟩
    simp only [frontStep, Front.deleteBucket, Front.withBucket, hens, Bool.false_eq_true, if_false, modelStep]
    rw [outAns_ofRes_ok]
  | put b' k body =>
    simp only [bucketOf, Option.some.injEq] at hb; subst hb
    refine ⟨md, ?_⟩
    have hk : ¬ k.length > Front.KeySizeLimit := by simp only [WF] at hwf; omega
    simp only [frontStep, Front.putObject, Front.withBucket, hens, hk, if_false, modelStep]
    cases hp : m.put md5 b' k md body with
    | mk m2 r => cases r <;> simp [outAns, ansOf]
  | get b' k =>
    simp only [bucketOf, Option.some.injEq] at hb; subst hb
    refine ⟨[], ?_⟩
    simp only [frontStep, Front.getObject, Front.withBucket, hens, modelStep]
    cases m.get b' k <;> simp [outAns]
  | head b' k =>
    simp only [bucketOf, Option.some.injEq] at hb; subst hb
    refine ⟨[], ?_⟩
    simp only [frontStep, Front.getObject, Front.withBucket, hens, modelStep]
    cases m.get b' k <;> simp [outAns]
  | delete b' k =>
    simp only [bucketOf, Option.some.injEq] at hb; subst hb
    refine ⟨[], ?_⟩
    simp only [frontStep, Front.deleteObject, Front.withBucket, hens, modelStep]
    cases hd : m.delete b' k with
    | mk m2 r => cases r <;> simp [outAns, ansOf, Out.ofRes]
  | deleteMulti b' ks =>
    simp only [bucketOf, Option.some.injEq] at hb; subst hb
    refine ⟨[], ?_⟩
    simp only [frontStep, Front.deleteMulti, Front.withBucket, hens, modelStep]
    obtain ⟨e1, e2⟩ := deleteMultiVersions_none m b' ks
    by_cases hv : cfg.versioned = true
    · simp only [hv, if_true]
      rw [← e1, ← e2]
      cases hd : m.deleteMultiVersions b' (ks.map fun k => (k, none)) with
      | mk m2 r => cases r <;> simp [outAns, ansOf, Out.ofRes]
    · have hv' : cfg.versioned = false := by simpa using hv
      have hmm : ((ks.map fun k => (k, (none : Option Nat))).map (·.1)) = ks := by
        simp [List.map_map, Function.comp_def]
      simp only [hv', Bool.false_eq_true, if_false, hmm]
      cases hd : m.deleteMulti b' ks with
      | mk m2 r => cases r <;> simp [outAns, ansOf, Out.ofRes]
  | copy sb sk db dk =>
    simp only [bucketOf, Option.some.injEq] at hb; subst hb
    have hk : ¬ dk.length > Front.KeySizeLimit := by simp only [WF] at hwf; omega
    simp only [frontStep, Front.copyObject, Front.withBucket, hens, hk, if_false, modelStep, modelCopy, hex,
      Bool.not_true, Bool.false_eq_true, Mem.head]
    have hh : m.current sb sk = m.get sb sk := rfl
    rw [hh]
    cases hg : m.get sb sk with
    | err c => exact ⟨[], by simp [outAns]⟩
    | panic s => exact ⟨[], by simp [outAns]⟩
    | ok v =>
      refine ⟨mergeMeta md (v.md.filter (fun p => !(p.1 == Front.aclKey))), ?_⟩
      simp only
      cases hp : m.put md5 db dk (mergeMeta md (v.md.filter (fun p => !(p.1 == Front.aclKey)))) v.body with
      | mk m2 r => cases r <;> simp [outAns, ansOf]

theorem front_unfold (md5 : Bytes → Bytes) (cfg : Cfg) (md : Meta) (op : Op) (b : Bytes) (hb : bucketOf op = some b) :
    ∃ f, ∀ m, frontStep md5 cfg md m op = Front.withBucket cfg m b f := by
  cases op with
  | createBucket b' => simp [bucketOf] at hb
  | listBuckets => simp [bucketOf] at hb
  | headBucket b' => simp only [bucketOf, Option.some.injEq] at hb; subst hb; exact ⟨_, fun m => rfl⟩
  | deleteBucket b' => simp only [bucketOf, Option.some.injEq] at hb; subst hb; exact ⟨_, fun m => rfl⟩
  | put b' k body => simp only [bucketOf, Option.some.injEq] at hb; subst hb; exact ⟨_, fun m => rfl⟩
  | get b' k => simp only [bucketOf, Option.some.injEq] at hb; subst hb; exact ⟨_, fun m => rfl⟩
  | head b' k => simp only [bucketOf, Option.some.injEq] at hb; subst hb; exact ⟨_, fun m => rfl⟩
  | delete b' k => simp only [bucketOf, Option.some.injEq] at hb; subst hb; exact ⟨_, fun m => rfl⟩
  | deleteMulti b' ks => simp only [bucketOf, Option.some.injEq] at hb; subst hb; exact ⟨_, fun m => rfl⟩
  | copy sb sk db dk => simp only [bucketOf, Option.some.injEq] at hb; subst hb; exact ⟨_, fun m => rfl⟩

theorem spec_absent (s : Store) (op : Op) (b : Bytes) (hb : bucketOf op = some b) (h : SMap.find s b = none) :
    step s op = (s, .err .NoSuchBucket) := by
  cases op with
  | createBucket b' => simp [bucketOf] at hb
  | listBuckets => simp [bucketOf] at hb
  | headBucket b' => simp only [bucketOf, Option.some.injEq] at hb; subst hb; simp [step, h]
  | deleteBucket b' => simp only [bucketOf, Option.some.injEq] at hb; subst hb; simp [step, h]
  | put b' k body => simp only [bucketOf, Option.some.injEq] at hb; subst hb; simp [step, h]
  | get b' k => simp only [bucketOf, Option.some.injEq] at hb; subst hb; simp [step, h]
  | head b' k => simp only [bucketOf, Option.some.injEq] at hb; subst hb; simp [step, h]
  | delete b' k => simp only [bucketOf, Option.some.injEq] at hb; subst hb; simp [step, h]
  | deleteMulti b' ks => simp only [bucketOf, Option.some.injEq] at hb; subst hb; simp [step, h]
  | copy sb sk db dk => simp only [bucketOf, Option.some.injEq] at hb; subst hb; simp [step, h]

/-- **front_step_refines**: for every configuration (auto-bucket on or off, versioning support on
    or off), every never-versioned store and every well-formed operation of C02's alphabet, the
    handler answers as the reference behaviour of the HTTP layer says — with auto-bucket an absent
    bucket is created first, then the reference model's step — the new store abstracts to the
    reference store and is again never-versioned. -/
theorem front_step_refines (md5 : Bytes → Bytes) (cfg : Cfg) (md : Meta) (m : Mem) (op : Op) (h : Plain m) (hwf : WF op)
    (hab : cfg.autoBucket = true → ∀ b, bucketOf op = some b → validateBucketName b = true) :
    Plain (frontStep md5 cfg md m op).1 ∧
    abs (frontStep md5 cfg md m op).1 = (specFront cfg.autoBucket (abs m) op).1 ∧
    outAns (frontStep md5 cfg md m op).2 = (specFront cfg.autoBucket (abs m) op).2 := by
  cases hbo : bucketOf op with
  | none =>
    cases op with
    | createBucket b =>
      obtain ⟨p1, p2, p3⟩ := createBucket_refines m b h
      have hv : validateBucketName b = true := hwf
      simp only [frontStep, Front.createBucket, hv, Bool.not_true, Bool.false_eq_true, if_false, specFront, bucketOf]
      refine ⟨p1, p2, ?_⟩
      rw [← p3, outAns_ofRes_ok]
    | listBuckets =>
      simp only [frontStep, Front.listBuckets, specFront, bucketOf, step, Mem.listBuckets, abs, keys_mapV, outAns]
      exact ⟨h, by triv, by triv⟩
    | headBucket b => simp [bucketOf] at hbo
    | deleteBucket b => simp [bucketOf] at hbo
    | put b k body => simp [bucketOf] at hbo
    | get b k => simp [bucketOf] at hbo
    | head b k => simp [bucketOf] at hbo
    | delete b k => simp [bucketOf] at hbo
    | deleteMulti b ks => simp [bucketOf] at hbo
    | copy sb sk db dk => simp [bucketOf] at hbo
  | some b =>
    obtain ⟨f, hf⟩ := front_unfold md5 cfg md op b hbo
    obtain ⟨hp, hcase⟩ := ensure_spec cfg m b h (fun ha => hab ha b hbo)
    simp only [specFront, hbo]
    rw [hf m]
    unfold Front.withBucket
    rcases hcase with ⟨hok, habs, hex⟩ | ⟨herr, hs', hnone⟩
    · cases hr : Front.ensureBucket cfg m b with
      | mk m' r =>
        rw [hr] at hok habs hex hp
        simp only at hok habs hex hp
        subst hok
        simp only
        obtain ⟨mdX, hmodel⟩ := handler_model md5 cfg md m' op b hbo hex hwf f (hf m')
        obtain ⟨q1, q2, q3⟩ := step_refines md5 mdX m' op hp
        rw [← hmodel] at q1 q2 q3
        simp only at q1 q2 q3
        rw [habs] at q2 q3
        exact ⟨q1, q2, q3⟩
    · rw [herr]
      simp only
      rw [hs', spec_absent (abs m) op b hbo hnone]
      exact ⟨h, rfl, rfl⟩

/-- sequences -/
def frontRun (md5 : Bytes → Bytes) (cfg : Cfg) (md : Meta) (m : Mem) (ops : List Op) : Mem × List Ans :=
  ops.foldl (fun (acc : Mem × List Ans) op => let r := frontStep md5 cfg md acc.1 op; (r.1, acc.2 ++ [outAns r.2])) (m, [])

def specFrontRun (auto : Bool) (s : Store) (ops : List Op) : Store × List Ans :=
  ops.foldl (fun (acc : Store × List Ans) op => let r := specFront auto acc.1 op; (r.1, acc.2 ++ [r.2])) (s, [])

theorem front_run_aux (md5 : Bytes → Bytes) (cfg : Cfg) (md : Meta) (ops : List Op) (hwf : ∀ op ∈ ops, WF op)
    (hab : cfg.autoBucket = true → ∀ op ∈ ops, ∀ b, bucketOf op = some b → validateBucketName b = true) :
    ∀ (m : Mem) (acc : List Ans), Plain m →
    let r := ops.foldl (fun (a : Mem × List Ans) op => let r := frontStep md5 cfg md a.1 op; (r.1, a.2 ++ [outAns r.2])) (m, acc)
    let q := ops.foldl (fun (a : Store × List Ans) op => let r := specFront cfg.autoBucket a.1 op; (r.1, a.2 ++ [r.2])) (abs m, acc)
    Plain r.1 ∧ abs r.1 = q.1 ∧ r.2 = q.2 := by
  induction ops with
  | nil => intro m acc h; exact ⟨h, rfl, rfl⟩
  | cons op ops ih =>
    intro m acc h
    obtain ⟨e1, e2, e3⟩ := front_step_refines md5 cfg md m op h (hwf op (List.mem_cons_self ..))
      (fun ha b hb => hab ha op (List.mem_cons_self ..) b hb)
    simp only [List.foldl_cons]
    have := ih (fun o ho => hwf o (List.mem_cons_of_mem _ ho)) (fun ha o ho => hab ha o (List.mem_cons_of_mem _ ho)) (frontStep md5 cfg md m op).1 (acc ++ [outAns (frontStep md5 cfg md m op).2]) e1
    rw [e2] at this
    simp only [e3] at this ⊢
    exact this

/-- **front_run_refines**: every finite sequence of well-formed bucket and object requests,
    handled by the gofakes3.go handlers over the backend model in any configuration, is answered
    response for response as the reference behaviour answers it, from every never-versioned store
    (the empty one in particular). -/
theorem front_run_refines (md5 : Bytes → Bytes) (cfg : Cfg) (md : Meta) (m : Mem) (ops : List Op) (h : Plain m)
    (hwf : ∀ op ∈ ops, WF op)
    (hab : cfg.autoBucket = true → ∀ op ∈ ops, ∀ b, bucketOf op = some b → validateBucketName b = true) :
    Plain (frontRun md5 cfg md m ops).1 ∧ abs (frontRun md5 cfg md m ops).1 = (specFrontRun cfg.autoBucket (abs m) ops).1 ∧
    (frontRun md5 cfg md m ops).2 = (specFrontRun cfg.autoBucket (abs m) ops).2 :=
  front_run_aux md5 cfg md ops hwf hab m [] h

/-! Non-vacuity: with auto-bucket, a put into an absent bucket creates it; without, it is refused. -/
example : (frontRun id { autoBucket := true } [] Mem.empty [.put [98, 107, 116] [107] [1], .get [98, 107, 116] [107], .listBuckets]).2
    = [.ok, .object [1], .buckets [[98, 107, 116]]] := by decide
example : (frontRun id {} [] Mem.empty [.put [98, 107, 116] [107] [1], .get [98, 107, 116] [107], .listBuckets]).2
    = [.err .NoSuchBucket, .err .NoSuchBucket, .buckets []] := by decide

end GFS.Props.C02F
