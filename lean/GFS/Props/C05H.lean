import GFS.Props.C05
import GFS.Props.C07
set_option linter.unusedSimpArgs false
set_option linter.unusedVariables false
/-
  C05 over whole histories: while versioning is Enabled, no sequence of uploads and plain deletes
  ever makes a version that was retrievable by its id unretrievable or changes what it returns.
-/
namespace GFS.Props.C05H
open GFS GFS.Model GFS.Props.C05

/-- every version id stored anywhere is at most the generator's counter (so the next id is new) -/
def Fresh (m : Mem) : Prop :=
  ∀ b bk k o, SMap.find m.buckets b = some bk → SMap.find bk.objects k = some o →
    (∀ d, o.data = some d → d.id ≤ m.nextVer) ∧ ∀ w ∈ o.versions, w.id ≤ m.nextVer

def EnabledAt (m : Mem) (b : Bytes) : Prop := ∃ bk, SMap.find m.buckets b = some bk ∧ bk.versioning = .enabled

inductive VOp where
  | put (k : Key) (md : Meta) (body : Bytes)
  | del (k : Key)

def vstep (md5 : Bytes → Bytes) (b : Bytes) (m : Mem) : VOp → Mem
  | .put k md body => (m.put md5 b k md body).1
  | .del k => (m.delete b k).1

def vrun (md5 : Bytes → Bytes) (b : Bytes) (m : Mem) (ops : List VOp) : Mem := ops.foldl (vstep md5 b) m

/-- what `bucket.put` does to the versions readable by id, for a new item with a fresh id -/
theorem bput_objectVersion (bk : Bucket) (k0 k : Key) (item : Ver) (id : Nat) (v : Ver) (n : Nat)
    (hv : bk.versioning = .enabled)
    (hfresh : ∀ o, SMap.find bk.objects k0 = some o → (∀ d, o.data = some d → d.id ≤ n) ∧ ∀ w ∈ o.versions, w.id ≤ n)
    (hitem : n < item.id) (h : bk.objectVersion k id = .ok v) :
    (bk.put k0 item).objectVersion k id = .ok v := by
  by_cases hk : k0 = k
  · subst hk
    unfold Bucket.objectVersion at h
    cases ho : SMap.find bk.objects k0 with
    | none => simp [ho] at h
    | some o =>
      obtain ⟨f1, f2⟩ := hfresh o ho
      simp only [ho] at h
      unfold Bucket.put Bucket.objectVersion
      simp only [SMap.find_insert_self, ho, Option.getD_some, hv, beq_self_eq_true, if_true]
      cases hd : o.data with
      | none =>
        simp only [hd] at h ⊢
        cases hf : o.versions.find? (·.id == id) with
        | none => simp [hf] at h
        | some w =>
          simp only [hf, Res.ok.injEq] at h
          subst h
          have hw : w ∈ o.versions := List.mem_of_find?_eq_some hf
          have hwid : w.id = id := by simpa using List.find?_some hf
          have : (item.id == id) = false := by
            have := f2 w hw
            simp; omega
          simp [this, hf]
      | some d =>
        simp only [hd] at h ⊢
        have hdn := f1 d hd
        by_cases hdi : (d.id == id) = true
        · simp only [hdi, if_true, Res.ok.injEq] at h
          subst h
          have hdid : d.id = id := by simpa using hdi
          have : (item.id == id) = false := by simp; omega
          simp [this, find_insertVer, hdid]
        · simp only [hdi, Bool.false_eq_true, if_false] at h
          cases hf : o.versions.find? (·.id == id) with
          | none => simp [hf] at h
          | some w =>
            simp only [hf, Res.ok.injEq] at h
            subst h
            have hw : w ∈ o.versions := List.mem_of_find?_eq_some hf
            have hwid : w.id = id := by simpa using List.find?_some hf
            have : (item.id == id) = false := by
              have := f2 w hw
              simp; omega
            have hdne : ¬ d.id = id := by simpa using hdi
            simp [this, find_insertVer, hdne, hf]
  · unfold Bucket.objectVersion at h ⊢
    unfold Bucket.put
    simp only [SMap.find_insert_ne _ _ _ _ hk]
    exact h

theorem bput_fresh (bk : Bucket) (k0 : Key) (item : Ver) (n n' : Nat) (hn : n ≤ n') (hi : item.id ≤ n')
    (hfresh : ∀ k o, SMap.find bk.objects k = some o → (∀ d, o.data = some d → d.id ≤ n) ∧ ∀ w ∈ o.versions, w.id ≤ n) :
    ∀ k o, SMap.find (bk.put k0 item).objects k = some o →
      (∀ d, o.data = some d → d.id ≤ n') ∧ ∀ w ∈ o.versions, w.id ≤ n' := by
  intro k o ho
  unfold Bucket.put at ho
  by_cases hk : k0 = k
  · subst hk
    simp only [SMap.find_insert_self, Option.some.injEq] at ho
    subst ho
    refine ⟨by intro d hd; simp at hd; subst hd; exact hi, ?_⟩
    intro w hw
    simp only at hw
    cases hf : SMap.find bk.objects k0 with
    | none => simp [hf] at hw
    | some ob =>
      obtain ⟨f1, f2⟩ := hfresh k0 ob hf
      simp only [hf, Option.getD_some] at hw
      split at hw
      · cases hd : ob.data with
        | none => simp only [hd] at hw; exact Nat.le_trans (f2 w hw) hn
        | some d =>
          simp only [hd] at hw
          rcases GFS.Props.C07.insertVer_mem ob.versions d w hw with rfl | hw'
          · exact Nat.le_trans (f1 _ hd) hn
          · exact Nat.le_trans (f2 w hw') hn
      · exact Nat.le_trans (f2 w hw) hn
  · simp only [SMap.find_insert_ne _ _ _ _ hk] at ho
    obtain ⟨f1, f2⟩ := hfresh k o ho
    exact ⟨fun d hd => Nat.le_trans (f1 d hd) hn, fun w hw => Nat.le_trans (f2 w hw) hn⟩

theorem find_insert {α : Type} (m : SMap α) (k j : Bytes) (v : α) :
    SMap.find (SMap.insert m k v) j = if k = j then some v else SMap.find m j := by
  by_cases h : k = j
  · subst h; simp [SMap.find_insert_self]
  · simp [h, SMap.find_insert_ne _ _ _ _ h]

/-- storing a fresh item into key k0 of the Enabled bucket b: the three facts at once -/
theorem store_step (m : Mem) (b : Bytes) (bk : Bucket) (k0 : Key) (item : Ver)
    (hb : SMap.find m.buckets b = some bk) (hv : bk.versioning = .enabled) (hf : Fresh m) (hi : item.id = m.nextVer + 1) :
    let m' : Mem := ⟨SMap.insert m.buckets b (bk.put k0 item), m.nextVer + 1⟩
    Fresh m' ∧ EnabledAt m' b ∧ ∀ k id v, m.getVersion b k id = .ok v → m'.getVersion b k id = .ok v := by
  refine ⟨?_, ?_, ?_⟩
  · intro b' bk' k o hb' ho
    simp only [find_insert] at hb'
    by_cases hbb : b = b'
    · subst hbb
      simp only [if_true, Option.some.injEq] at hb'
      subst hb'
      exact bput_fresh bk k0 item m.nextVer (m.nextVer + 1) (by omega) (by omega) (fun k o h => hf b bk k o hb h) k o ho
    · simp only [hbb, if_false] at hb'
      obtain ⟨f1, f2⟩ := hf b' bk' k o hb' ho
      exact ⟨fun d hd => Nat.le_trans (f1 d hd) (by simp), fun w hw => Nat.le_trans (f2 w hw) (by simp)⟩
  · exact ⟨bk.put k0 item, by simp [SMap.find_insert_self], by simp [Bucket.put, hv]⟩
  · intro k id v h
    simp only [Mem.getVersion, hb] at h
    simp only [Mem.getVersion, SMap.find_insert_self]
    exact bput_objectVersion bk k0 k item id v m.nextVer hv (fun o ho => hf b bk k0 o hb ho) (by omega) h

/-- **step_keeps_history**: one upload or plain delete on an Enabled bucket keeps every version
    that was retrievable by id retrievable with exactly the same content (bytes, digest, metadata,
    marker flag), keeps versioning Enabled and keeps the id generator ahead of every stored id. -/
theorem step_keeps_history (md5 : Bytes → Bytes) (m : Mem) (b : Bytes) (op : VOp) (hf : Fresh m) (he : EnabledAt m b) :
    Fresh (vstep md5 b m op) ∧ EnabledAt (vstep md5 b m op) b ∧
    ∀ k id v, m.getVersion b k id = .ok v → (vstep md5 b m op).getVersion b k id = .ok v := by
  obtain ⟨bk, hb, hv⟩ := he
  cases op with
  | put k0 md body =>
    simp only [vstep, Mem.put, Mem.putCommit, hb]
    exact store_step m b bk k0 _ hb hv hf rfl
  | del k0 =>
    simp only [vstep, Mem.delete, hb, Bucket.rm]
    cases ho : SMap.find bk.objects k0 with
    | none =>
      simp only [Bool.false_eq_true, if_false]
      refine ⟨?_, ⟨bk, by simp [SMap.find_insert_self], hv⟩, ?_⟩
      · intro b' bk' k o hb' ho'
        simp only [find_insert] at hb'
        by_cases hbb : b = b'
        · subst hbb
          simp only [if_true, Option.some.injEq] at hb'
          subst hb'
          exact hf b bk k o hb ho'
        · simp only [hbb, if_false] at hb'
          exact hf b' bk' k o hb' ho'
      · intro k id v h
        simp only [Mem.getVersion, hb] at h
        simp only [Mem.getVersion, SMap.find_insert_self]
        exact h
    | some ob =>
      simp only [hv, beq_self_eq_true, if_true]
      exact store_step m b bk k0 _ hb hv hf rfl

/-- **history_never_lost**: for every store whose id generator is ahead of its stored ids (the
    empty store, and every store reached from it), every bucket with versioning Enabled and every
    finite sequence of uploads and plain deletes on it, each version that was retrievable by its
    id before the sequence is retrievable after it with exactly the same content. -/
theorem history_never_lost (md5 : Bytes → Bytes) (b : Bytes) (ops : List VOp) :
    ∀ (m : Mem), Fresh m → EnabledAt m b →
      Fresh (vrun md5 b m ops) ∧ EnabledAt (vrun md5 b m ops) b ∧
      ∀ k id v, m.getVersion b k id = .ok v → (vrun md5 b m ops).getVersion b k id = .ok v := by
  induction ops with
  | nil => intro m hf he; exact ⟨hf, he, fun _ _ _ h => h⟩
  | cons op ops ih =>
    intro m hf he
    obtain ⟨f1, e1, g1⟩ := step_keeps_history md5 m b op hf he
    obtain ⟨f2, e2, g2⟩ := ih (vstep md5 b m op) f1 e1
    exact ⟨f2, e2, fun k id v h => g2 k id v (g1 k id v h)⟩

theorem fresh_empty : Fresh Mem.empty := by intro b bk k o hb; simp [Mem.empty] at hb

/-- versions created during the sequence are kept as well: what an upload stores is retrievable
    under the id it was given, from then on -/
theorem upload_then_history (md5 : Bytes → Bytes) (b : Bytes) (k : Key) (md : Meta) (body : Bytes) (ops : List VOp)
    (m : Mem) (hf : Fresh m) (he : EnabledAt m b) :
    ∃ v, v.id = m.nextVer + 1 ∧ v.body = body ∧ v.hash = md5 body ∧ v.marker = false ∧
      (vrun md5 b m (.put k md body :: ops)).getVersion b k (m.nextVer + 1) = .ok v := by
  obtain ⟨bk, hb, hv⟩ := he
  obtain ⟨f1, e1, _⟩ := step_keeps_history md5 m b (.put k md body) hf ⟨bk, hb, hv⟩
  let v : Ver := ⟨m.nextVer + 1, false, body, md5 body, m.mergedMeta b k md⟩
  have hnow : (vstep md5 b m (.put k md body)).getVersion b k (m.nextVer + 1) = .ok v := by
    simp [vstep, Mem.put, Mem.putCommit, hb, Mem.getVersion, SMap.find_insert_self, Bucket.put, Bucket.objectVersion, v]
  obtain ⟨_, _, g⟩ := history_never_lost md5 b ops (vstep md5 b m (.put k md body)) f1 e1
  exact ⟨v, rfl, rfl, rfl, rfl, g k _ v hnow⟩

/-! Non-vacuity: put, put, delete, put on one key of an Enabled bucket: all four ids readable. -/
def exM : Mem := ⟨[([98], ⟨.enabled, []⟩)], 0⟩
example : Fresh exM ∧ EnabledAt exM [98] := by
  constructor
  · intro b bk k o hb ho
    simp only [exM, SMap.find] at hb
    split at hb
    · simp at hb; subst hb; simp [SMap.find] at ho
    · simp at hb
  · exact ⟨⟨.enabled, []⟩, by decide, rfl⟩
example : let m := vrun id [98] exM [.put [107] [] [1], .put [107] [] [2], .del [107], .put [107] [] [3]]
    m.getVersion [98] [107] 1 = .ok ⟨1, false, [1], [1], []⟩ ∧ m.getVersion [98] [107] 2 = .ok ⟨2, false, [2], [2], []⟩ ∧
    m.getVersion [98] [107] 3 = .ok ⟨3, true, [], [], []⟩ ∧ m.get [98] [107] = .ok ⟨4, false, [3], [3], []⟩ := by decide

end GFS.Props.C05H
