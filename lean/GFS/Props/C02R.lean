import GFS.Model.Front
import GFS.Spec.S3
import GFS.Lemmas.SMapLemmas
set_option linter.unusedSimpArgs false
set_option linter.unusedVariables false
/-
  C02 — the refinement: on never-versioned stores the backend model, operation by operation and
  hence for every finite operation sequence, answers exactly as the reference model Spec.S3 and
  its state abstracts to the reference model's state.
-/
namespace GFS.Props.C02R
open GFS GFS.Model GFS.SMapL GFS.Spec.S3

/-- what the reference model keeps of an object -/
def objVal (o : Obj) : Bytes := match o.data with | some d => d.body | none => []
def absB (bk : Bucket) : SMap Bytes := mapV objVal bk.objects
/-- the abstraction map -/
def abs (m : Mem) : Store := mapV absB m.buckets

/-- representation invariant of a never-versioned store -/
def PlainO (o : Obj) : Prop := ∃ d, o.data = some d ∧ d.marker = false ∧ o.versions = []
def PlainB (bk : Bucket) : Prop := bk.versioning = .none ∧ ∀ p ∈ bk.objects, PlainO p.2
def Plain (m : Mem) : Prop := ∀ q ∈ m.buckets, PlainB q.2

theorem plainB_of_find (m : Mem) (b : Bytes) (bk : Bucket) (h : Plain m) (hf : SMap.find m.buckets b = some bk) : PlainB bk := by
  obtain ⟨k', hm⟩ := find_mem _ _ _ hf
  exact h (k', bk) hm

theorem plain_insert (m : Mem) (b : Bytes) (bk' : Bucket) (n : Nat) (h : Plain m) (hb : PlainB bk') :
    Plain { buckets := SMap.insert m.buckets b bk', nextVer := n } := by
  intro q hq
  rcases mem_insert _ _ _ q hq with e | e
  · subst e; exact hb
  · exact h q e

theorem abs_find (m : Mem) (b : Bytes) : SMap.find (abs m) b = (SMap.find m.buckets b).map absB := find_mapV _ _ _

/-- the put of a never-versioned bucket, abstracted -/
theorem bput_abs (bk : Bucket) (k : Key) (item : Ver) (hv : bk.versioning = .none) :
    absB (bk.put k item) = SMap.insert (absB bk) k item.body := by
  simp [absB, Bucket.put, hv, mapV_insert, objVal]

theorem bput_plain (bk : Bucket) (k : Key) (item : Ver) (h : PlainB bk) (hi : item.marker = false) : PlainB (bk.put k item) := by
  obtain ⟨hv, ho⟩ := h
  refine ⟨by simp [Bucket.put, hv], ?_⟩
  intro p hp
  unfold Bucket.put at hp
  rcases mem_insert _ _ _ p hp with e | e
  · subst e
    refine ⟨item, rfl, hi, ?_⟩
    simp only [hv]
    cases hf : SMap.find bk.objects k with
    | none => simp
    | some o =>
      obtain ⟨k0, hm⟩ := find_mem _ _ _ hf
      obtain ⟨d, _, _, hvs⟩ := ho (k0, o) hm
      simp only at hvs
      simp [hvs]
  · exact ho p e

/-- the delete of a never-versioned bucket, abstracted -/
theorem brm_abs (bk : Bucket) (k : Key) (id : Nat) (h : PlainB bk) :
    absB (bk.rm k id).1 = SMap.erase (absB bk) k ∧ PlainB (bk.rm k id).1 ∧ (bk.rm k id).2.2.2 = false := by
  obtain ⟨hv, ho⟩ := h
  unfold Bucket.rm
  cases hf : SMap.find bk.objects k with
  | none =>
    refine ⟨?_, ⟨hv, ho⟩, by simp⟩
    simp only [absB]
    rw [← mapV_erase, erase_absent _ _ hf]
  | some o =>
    obtain ⟨k0, hm⟩ := find_mem _ _ _ hf
    obtain ⟨d, hd, _, hvs⟩ := ho (k0, o) hm
    simp only at hvs hd
    simp only [hv]
    have : (VStatus.none == VStatus.enabled) = false := by decide
    simp only [this, Bool.false_eq_true, if_false, Obj.promote, hvs, List.getLast?_nil]
    refine ⟨by simp [absB, mapV_erase], ⟨by simp [hv], ?_⟩, by simp⟩
    intro p hp
    exact ho p (mem_erase _ _ p hp)

theorem abs_insert (m : Mem) (b : Bytes) (bk' : Bucket) (n : Nat) :
    abs { buckets := SMap.insert m.buckets b bk', nextVer := n } = SMap.insert (abs m) b (absB bk') := by
  simp only [abs, mapV_insert]

macro "triv" : tactic => `(tactic| first | rfl | trivial | simp)

def ansOf {α} : Res α → Ans
  | .ok _ => .ok
  | .err c => .err c
  | .panic _ => .err .Internal

theorem createBucket_refines (m : Mem) (b : Bytes) (h : Plain m) :
    Plain (m.createBucket b).1 ∧ abs (m.createBucket b).1 = (step (abs m) (.createBucket b)).1 ∧
    ansOf (m.createBucket b).2 = (step (abs m) (.createBucket b)).2 := by
  simp only [Mem.createBucket, step, abs_find]
  cases hb : SMap.find m.buckets b with
  | some bk => simp only [Option.isSome_some, if_true, Option.map_some]; exact ⟨h, by triv, by triv⟩
  | none =>
    simp only [Option.isSome_none, Bool.false_eq_true, if_false, Option.map_none]
    refine ⟨plain_insert m b _ _ h ⟨rfl, by intro p hp; simp at hp⟩, ?_, rfl⟩
    rw [abs_insert]; rfl

theorem headBucket_refines (m : Mem) (b : Bytes) :
    (if m.bucketExists b then Ans.ok else Ans.err .NoSuchBucket) = (step (abs m) (.headBucket b)).2 ∧
    (step (abs m) (.headBucket b)).1 = abs m := by
  simp only [Mem.bucketExists, step, abs_find, Option.isSome_map]
  split <;> simp_all

theorem deleteBucket_refines (m : Mem) (b : Bytes) (h : Plain m) :
    Plain (m.deleteBucket b).1 ∧ abs (m.deleteBucket b).1 = (step (abs m) (.deleteBucket b)).1 ∧
    ansOf (m.deleteBucket b).2 = (step (abs m) (.deleteBucket b)).2 := by
  simp only [Mem.deleteBucket, step, abs_find]
  cases hb : SMap.find m.buckets b with
  | none => exact ⟨h, by triv, by triv⟩
  | some bk =>
    simp only [Option.map_some, absB, isEmpty_mapV]
    cases he : bk.objects.isEmpty with
    | false => simp only [Bool.not_false, if_true, Bool.false_eq_true, if_false]; exact ⟨h, by triv, by triv⟩
    | true =>
      simp only [Bool.not_true, Bool.false_eq_true, if_false, if_true]
      refine ⟨fun q hq => h q (mem_erase _ _ q hq), ?_, rfl⟩
      simp only [abs, mapV_erase]

theorem put_refines (md5 : Bytes → Bytes) (md : Meta) (m : Mem) (b : Bytes) (k : Key) (body : Bytes) (h : Plain m) :
    Plain (m.put md5 b k md body).1 ∧ abs (m.put md5 b k md body).1 = (step (abs m) (.put b k body)).1 ∧
    ansOf (m.put md5 b k md body).2 = (step (abs m) (.put b k body)).2 := by
  simp only [Mem.put, Mem.putCommit, step, abs_find]
  cases hb : SMap.find m.buckets b with
  | none => exact ⟨h, by triv, by triv⟩
  | some bk =>
    have hp := plainB_of_find m b bk h hb
    simp only [Option.map_some]
    refine ⟨plain_insert m b _ _ h (bput_plain bk k _ hp rfl), ?_, rfl⟩
    rw [abs_insert, bput_abs bk k _ hp.1]

theorem get_refines (m : Mem) (b : Bytes) (k : Key) (h : Plain m) :
    (match m.get b k with | .ok v => Ans.object v.body | .err c => .err c | .panic _ => .err .Internal) =
      (step (abs m) (.get b k)).2 ∧ (step (abs m) (.get b k)).1 = abs m := by
  simp only [Mem.get, Mem.current, step, abs_find]
  cases hb : SMap.find m.buckets b with
  | none => exact ⟨by triv, by triv⟩
  | some bk =>
    simp only [Option.map_some, absB, find_mapV]
    cases ho : SMap.find bk.objects k with
    | none => exact ⟨by triv, by triv⟩
    | some o =>
      obtain ⟨k0, hm⟩ := find_mem _ _ _ ho
      obtain ⟨d, hd, hmk, _⟩ := (plainB_of_find m b bk h hb).2 (k0, o) hm
      simp only at hd
      simp [hd, hmk, objVal]

theorem delKey_refines (m : Mem) (b : Bytes) (k : Key) (h : Plain m) :
    Plain (m.delete b k).1 ∧ abs (m.delete b k).1 = delKey (abs m) b k ∧
    ((m.delete b k).1.bucketExists b = m.bucketExists b) := by
  simp only [Mem.delete, delKey, abs_find]
  cases hb : SMap.find m.buckets b with
  | none => exact ⟨h, by triv, by triv⟩
  | some bk =>
    have hp := plainB_of_find m b bk h hb
    obtain ⟨e1, e2, e3⟩ := brm_abs bk k (m.nextVer + 1) hp
    simp only [Option.map_some]
    refine ⟨plain_insert m b _ _ h e2, ?_, ?_⟩
    · rw [abs_insert, e1]
    · simp [Mem.bucketExists, SMap.find_insert_self, hb]

theorem delete_refines' (m : Mem) (b : Bytes) (k : Key) (h : Plain m) :
    Plain (m.delete b k).1 ∧ abs (m.delete b k).1 = (step (abs m) (.delete b k)).1 ∧
    ansOf (m.delete b k).2 = (step (abs m) (.delete b k)).2 := by
  obtain ⟨e1, e2, _⟩ := delKey_refines m b k h
  refine ⟨e1, ?_, ?_⟩
  · rw [e2]; simp only [step, abs_find, delKey]
    cases hb : SMap.find m.buckets b <;> simp
  · simp only [Mem.delete, step, abs_find]
    cases hb : SMap.find m.buckets b <;> simp [ansOf]

theorem deleteFold_refines (b : Bytes) (ks : List Key) (m : Mem) (h : Plain m) :
    Plain (ks.foldl (fun acc k => (Mem.delete acc b k).1) m) ∧
    abs (ks.foldl (fun acc k => (Mem.delete acc b k).1) m) = ks.foldl (fun acc k => delKey acc b k) (abs m) := by
  induction ks generalizing m with
  | nil => exact ⟨h, rfl⟩
  | cons k ks ih =>
    obtain ⟨e1, e2, _⟩ := delKey_refines m b k h
    simp only [List.foldl_cons]
    obtain ⟨f1, f2⟩ := ih (m.delete b k).1 e1
    exact ⟨f1, by rw [f2, e2]⟩

theorem deleteMulti_refines (m : Mem) (b : Bytes) (ks : List Key) (h : Plain m) :
    Plain (m.deleteMulti b ks).1 ∧ abs (m.deleteMulti b ks).1 = (step (abs m) (.deleteMulti b ks)).1 ∧
    ansOf (m.deleteMulti b ks).2 = (step (abs m) (.deleteMulti b ks)).2 := by
  simp only [Mem.deleteMulti, step, abs_find]
  cases hb : SMap.find m.buckets b with
  | none => exact ⟨h, by triv, by triv⟩
  | some bk =>
    obtain ⟨f1, f2⟩ := deleteFold_refines b ks m h
    simp only [Option.map_some]
    exact ⟨f1, f2, by simp [ansOf]⟩

/-- the copy of the handler: destination bucket, then the source, then the upload -/
def modelCopy (md5 : Bytes → Bytes) (md : Meta) (m : Mem) (sb sk db dk : Bytes) : Mem × Ans :=
  if !m.bucketExists db then (m, .err .NoSuchBucket)
  else match m.get sb sk with
    | .err c => (m, .err c)
    | .panic _ => (m, .err .Internal)
    | .ok v => ((m.put md5 db dk md v.body).1, ansOf (m.put md5 db dk md v.body).2)

theorem copy_refines (md5 : Bytes → Bytes) (md : Meta) (m : Mem) (sb sk db dk : Bytes) (h : Plain m) :
    Plain (modelCopy md5 md m sb sk db dk).1 ∧
    abs (modelCopy md5 md m sb sk db dk).1 = (step (abs m) (.copy sb sk db dk)).1 ∧
    (modelCopy md5 md m sb sk db dk).2 = (step (abs m) (.copy sb sk db dk)).2 := by
  obtain ⟨g1, _⟩ := get_refines m sb sk h
  unfold modelCopy
  by_cases hex : m.bucketExists db = true
  case neg =>
    have hdb : SMap.find m.buckets db = none := by
      unfold Mem.bucketExists at hex
      cases hf : SMap.find m.buckets db with
      | none => rfl
      | some x => simp [hf] at hex
    have hex' : m.bucketExists db = false := by simpa using hex
    simp only [hex', Bool.not_false, if_true, step, abs_find, hdb, Option.map_none]
    exact ⟨h, by triv, by triv⟩
  case pos =>
    obtain ⟨dbk, hdb⟩ : ∃ dbk, SMap.find m.buckets db = some dbk := by
      unfold Mem.bucketExists at hex
      cases hf : SMap.find m.buckets db with
      | none => simp [hf] at hex
      | some x => exact ⟨x, rfl⟩
    simp only [hex, Bool.not_true, Bool.false_eq_true, if_false]
    -- the source
    simp only [step, abs_find, hdb, Option.map_some] at g1 ⊢
    cases hg : m.get sb sk with
    | err c =>
      rw [hg] at g1
      simp only at g1 ⊢
      -- the reference model answers the same error and changes nothing
      cases hsb : SMap.find m.buckets sb with
      | none => simp [hsb] at g1 ⊢; exact ⟨h, g1⟩
      | some sbk =>
        simp only [hsb, Option.map_some, absB, find_mapV] at g1 ⊢
        cases hso : SMap.find sbk.objects sk with
        | none => simp [hso] at g1 ⊢; exact ⟨h, g1⟩
        | some o => simp [hso] at g1
    | panic s =>
      exfalso
      rw [hg] at g1
      cases hsb : SMap.find m.buckets sb with
      | none => simp [Mem.get, Mem.current, hsb] at hg
      | some sbk =>
        cases hso : SMap.find sbk.objects sk with
        | none => simp [Mem.get, Mem.current, hsb, hso] at hg
        | some o =>
          obtain ⟨k0, hm⟩ := find_mem _ _ _ hso
          obtain ⟨d, hd, hmk, _⟩ := (plainB_of_find m sb sbk h hsb).2 (k0, o) hm
          simp only at hd
          simp [Mem.get, Mem.current, hsb, hso, hd, hmk] at hg
    | ok v =>
      rw [hg] at g1
      simp only at g1 ⊢
      obtain ⟨p1, p2, p3⟩ := put_refines md5 md m db dk v.body h
      cases hsb : SMap.find m.buckets sb with
      | none => simp [hsb] at g1
      | some sbk =>
        simp only [hsb, Option.map_some, absB, find_mapV] at g1 ⊢
        cases hso : SMap.find sbk.objects sk with
        | none => simp [hso] at g1
        | some o =>
          simp only [hso, Option.map_some, Ans.object.injEq] at g1 ⊢
          refine ⟨p1, ?_, ?_⟩
          · rw [p2]; simp only [step, abs_find, hdb, Option.map_some, absB, g1]
          · rw [p3]; simp only [step, abs_find, hdb, Option.map_some]

/-- the model's step for an operation of C02's alphabet (`md` = the headers of an upload, which
    the reference model does not constrain) -/
def modelStep (md5 : Bytes → Bytes) (md : Meta) (m : Mem) : Op → Mem × Ans
  | .createBucket b => ((m.createBucket b).1, ansOf (m.createBucket b).2)
  | .headBucket b => (m, if m.bucketExists b then .ok else .err .NoSuchBucket)
  | .deleteBucket b => ((m.deleteBucket b).1, ansOf (m.deleteBucket b).2)
  | .listBuckets => (m, .buckets m.listBuckets)
  | .put b k body => ((m.put md5 b k md body).1, ansOf (m.put md5 b k md body).2)
  | .get b k | .head b k =>
    (m, match m.get b k with | .ok v => .object v.body | .err c => .err c | .panic _ => .err .Internal)
  | .delete b k => ((m.delete b k).1, ansOf (m.delete b k).2)
  | .deleteMulti b ks => ((m.deleteMulti b ks).1, ansOf (m.deleteMulti b ks).2)
  | .copy sb sk db dk => modelCopy md5 md m sb sk db dk

/-- **step_refines**: for every never-versioned store and every operation of C02's alphabet the
    model answers exactly as the reference model does on the abstracted store, the new store
    abstracts to the reference model's new store, and it is again never-versioned. -/
theorem step_refines (md5 : Bytes → Bytes) (md : Meta) (m : Mem) (op : Op) (h : Plain m) :
    Plain (modelStep md5 md m op).1 ∧
    abs (modelStep md5 md m op).1 = (step (abs m) op).1 ∧
    (modelStep md5 md m op).2 = (step (abs m) op).2 := by
  cases op with
  | createBucket b => exact createBucket_refines m b h
  | headBucket b =>
    obtain ⟨e1, e2⟩ := headBucket_refines m b
    exact ⟨h, e2.symm, e1⟩
  | deleteBucket b => exact deleteBucket_refines m b h
  | listBuckets =>
    simp only [modelStep, step, Mem.listBuckets, abs, keys_mapV]
    exact ⟨h, by triv, by triv⟩
  | put b k body => exact put_refines md5 md m b k body h
  | get b k =>
    obtain ⟨e1, e2⟩ := get_refines m b k h
    exact ⟨h, e2.symm, e1⟩
  | head b k =>
    obtain ⟨e1, e2⟩ := get_refines m b k h
    have hs : step (abs m) (.head b k) = step (abs m) (.get b k) := by simp only [step]
    rw [hs]
    exact ⟨h, e2.symm, e1⟩
  | delete b k => exact delete_refines' m b k h
  | deleteMulti b ks => exact deleteMulti_refines m b ks h
  | copy sb sk db dk => exact copy_refines md5 md m sb sk db dk h

/-- running a whole operation sequence on the model -/
def modelRun (md5 : Bytes → Bytes) (md : Meta) (m : Mem) (ops : List Op) : Mem × List Ans :=
  ops.foldl (fun (acc : Mem × List Ans) op => let r := modelStep md5 md acc.1 op; (r.1, acc.2 ++ [r.2])) (m, [])

theorem run_refines_aux (md5 : Bytes → Bytes) (md : Meta) (ops : List Op) (m : Mem) (acc : List Ans) (s : Store)
    (h : Plain m) (hs : abs m = s) :
    let r := ops.foldl (fun (a : Mem × List Ans) op => let r := modelStep md5 md a.1 op; (r.1, a.2 ++ [r.2])) (m, acc)
    let q := ops.foldl (fun (a : Store × List Ans) op => let (s', x) := step a.1 op; (s', a.2 ++ [x])) (s, acc)
    Plain r.1 ∧ abs r.1 = q.1 ∧ r.2 = q.2 := by
  induction ops generalizing m acc s with
  | nil => exact ⟨h, hs, rfl⟩
  | cons op ops ih =>
    obtain ⟨e1, e2, e3⟩ := step_refines md5 md m op h
    simp only [List.foldl_cons]
    subst hs
    have := ih (modelStep md5 md m op).1 (acc ++ [(modelStep md5 md m op).2]) (step (abs m) op).1 e1 e2
    rw [e3] at this ⊢
    exact this

/-- **run_refines**: every finite sequence of bucket and object operations, started in any
    never-versioned store (the empty one in particular), is answered by the model exactly as the
    reference model of S3 answers it — response by response — and ends in a store that abstracts
    to the reference model's store. All the laws the statement lists (read-your-write, NoSuchKey
    after delete, NoSuchBucket, BucketAlreadyExists, BucketNotEmpty, emptied buckets deletable,
    idempotent deletes, copy = source) are properties of the 40-line reference model. -/
theorem run_refines (md5 : Bytes → Bytes) (md : Meta) (m : Mem) (ops : List Op) (h : Plain m) :
    Plain (modelRun md5 md m ops).1 ∧ abs (modelRun md5 md m ops).1 = (run (abs m) ops).1 ∧
    (modelRun md5 md m ops).2 = (run (abs m) ops).2 :=
  run_refines_aux md5 md ops m [] (abs m) h rfl

theorem empty_plain : Plain Mem.empty := by intro q hq; simp [Mem.empty] at hq

/-! Non-vacuity: a sequence with overwrite, copy onto itself, delete and bucket removal. -/
example : (modelRun id [] Mem.empty
    [.createBucket [98], .put [98] [107] [1], .put [98] [107] [2], .copy [98] [107] [98] [107], .get [98] [107],
     .deleteBucket [98], .delete [98] [107], .get [98] [107], .deleteBucket [98], .get [98] [107]]).2
    = [.ok, .ok, .ok, .ok, .object [2], .err .BucketNotEmpty, .ok, .err .NoSuchKey, .ok, .err .NoSuchBucket] := by rfl

end GFS.Props.C02R
